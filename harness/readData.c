/* C06 harness (family readData).  Three operations, one case per line:
 *
 *  (0 use_skip_cb ((script eof size actions) ...))
 *      PSEUDO-FORMAT registered with __archive_read_register_format: its bid always wins, its
 *      read_header returns entry "e<i>" and its read_data callback replays the scripted events
 *      (0 off xbytes) = block, (1 code) = error return, then ARCHIVE_EOF for ever; eof = () leaves
 *      *offset untouched at EOF, (off) stores it.  The REAL archive_read_data /
 *      archive_read_data_block / archive_read_data_skip / archive_read_next_header (drain) run on
 *      top of it.  actions: (0 s) archive_read_data with an exact-size heap buffer of s bytes,
 *      (1) one archive_read_data_block, (2) archive_read_data_skip.
 *      result: ( ((hret (action result)...) ...) final_hret ((callbacks cursor) ...) )   for the entries whose header was read
 *
 *  (1 xpath (choice ...) blocksize)   end-to-end on a real archive file (all formats, all filters);
 *      blocksize 0 = seekable file reader, n > 0 = pipe-like client callbacks (no seek, no skip), n-byte reads.
 *      choice i applies to entry i (the last one repeats): (0 bufsize...) read everything with
 *      archive_read_data cycling over the buffer sizes, (1) read everything with
 *      archive_read_data_block, (2 k) read a prefix of k bytes, (3) archive_read_data_skip, (4) nothing.
 *      result: ( ((hret xpath sizeset size type mode mtime xhardlink xsymlink nsparse (choice result)) ...)
 *                final_hret xerror xformatname formatcode )
 *
 *  (3 xpath xformat (xfilter ...) xoptions ((xname filetype size sizeset seed ((off len) ...) xlink [xcontents]) ...))
 *      writes an archive with the REAL writers (corpus for op 1).  Contents: byte i of a file is
 *      1 + (31 i + seed) mod 255 inside the listed sparse ranges (everywhere when there is no
 *      range list) and 0 in the holes; sizeset = 0 leaves the size unset (zip: length-at-end).
 *      result: (worst status)
 *
 *  (2 total chunk ((off rem hole) ...) remaining unconsumed padding disk_size nreads do_skip)
 *      the REAL static archive_read_format_tar_read_data / archive_read_format_tar_skip on a
 *      hand-built struct tar over a memory stream of `total` bytes delivered in `chunk`-byte reads.
 *      result: ( ((status offset size pos data_ok) ...) (skip_status) final_pos )
 */
#include "archive_read_support_format_tar.c"	/* through -I$VERIF_REPO/libarchive: static functions reachable */

#include <stdint.h>
#include "val.h"

/* ------------------------------------------------------------------ op 0: pseudo-format */
struct ps_counts { long callbacks, cursor, skips; };
struct pseudo {
	val *entries;
	long idx;		/* current entry, -1 before the first header */
	struct ps_counts *cnt;	/* one per entry */
};

static int
ps_bid(struct archive_read *a, int best_bid)
{
	(void)a; (void)best_bid;
	return (1000);
}

static int
ps_read_header(struct archive_read *a, struct archive_entry *entry)
{
	struct pseudo *ps = (struct pseudo *)(a->format->data);
	char name[32];

	ps->idx++;
	if (ps->idx >= (long)v_len(ps->entries))
		return (ARCHIVE_EOF);
	snprintf(name, sizeof(name), "e%ld", ps->idx);
	archive_entry_set_pathname(entry, name);
	archive_entry_set_filetype(entry, AE_IFREG);
	archive_entry_set_mode(entry, AE_IFREG | 0644);
	archive_entry_set_size(entry, v_ll(v_at(v_at(ps->entries, (size_t)ps->idx), 2)));
	a->archive.archive_format = ARCHIVE_FORMAT_RAW;
	a->archive.archive_format_name = "pseudo";
	return (ARCHIVE_OK);
}

static int
ps_read_data(struct archive_read *a, const void **buff, size_t *size, int64_t *offset)
{
	struct pseudo *ps = (struct pseudo *)(a->format->data);
	val *e = v_at(ps->entries, (size_t)ps->idx);
	val *script = v_at(e, 0), *eof = v_at(e, 1);
	struct ps_counts *c = &ps->cnt[ps->idx];

	c->callbacks++;
	if (c->cursor < (long)v_len(script)) {
		val *ev = v_at(script, (size_t)c->cursor++);
		if (v_ll(v_at(ev, 0)) == 0) {
			*buff = v_at(ev, 2)->b;
			*size = v_at(ev, 2)->n;
			*offset = v_ll(v_at(ev, 1));
			return (ARCHIVE_OK);
		}
		return ((int)v_ll(v_at(ev, 1)));
	}
	*buff = NULL;
	*size = 0;
	if (v_len(eof) > 0)
		*offset = v_ll(v_at(eof, 0));
	return (ARCHIVE_EOF);
}

static int
ps_skip(struct archive_read *a)
{
	struct pseudo *ps = (struct pseudo *)(a->format->data);
	struct ps_counts *c = &ps->cnt[ps->idx];
	c->skips++;
	c->cursor = (long)v_len(v_at(v_at(ps->entries, (size_t)ps->idx), 0));
	return (ARCHIVE_OK);
}

static int
ps_cleanup(struct archive_read *a)
{
	(void)a;
	return (ARCHIVE_OK);
}

static void
op_script(val *c)
{
	struct archive *a = archive_read_new();
	struct archive_entry *ae;
	struct pseudo ps;
	size_t n, k, j;
	int hret = ARCHIVE_OK;

	ps.entries = v_at(c, 2);
	ps.idx = -1;
	n = v_len(ps.entries);
	ps.cnt = calloc(n + 1, sizeof(*ps.cnt));
	if (__archive_read_register_format((struct archive_read *)a, &ps, "pseudo", ps_bid, NULL,
	    ps_read_header, ps_read_data, v_ll(v_at(c, 1)) ? ps_skip : NULL, NULL, ps_cleanup,
	    NULL, NULL) != ARCHIVE_OK || archive_read_open_memory(a, "x", 1) != ARCHIVE_OK) {
		fprintf(stderr, "pseudo-format set-up failed: %s\n", archive_error_string(a));
		exit(4);
	}
	o_open();
	o_open();
	for (k = 0; ; k++) {
		val *acts;
		hret = archive_read_next_header(a, &ae);
		if (hret != ARCHIVE_OK || k >= n)
			break;
		o_open();
		o_int(hret);
		acts = v_at(v_at(ps.entries, k), 3);
		for (j = 0; j < v_len(acts); j++) {
			val *act = v_at(acts, j);
			long long kind = v_ll(v_at(act, 0));
			o_open();
			if (kind == 0) {
				size_t s = (size_t)v_ull(v_at(act, 1));
				char *buf = malloc(s ? s : 1);	/* exact size: ASan sees any overrun */
				la_ssize_t r;
				memset(buf, 0xAA, s);
				r = archive_read_data(a, buf, s);
				o_int(r);
				o_bytes(buf, r > 0 ? (size_t)r : 0);
				free(buf);
			} else if (kind == 1) {
				const void *b = NULL;
				size_t s = 0;
				la_int64_t off = -1;	/* sentinel: shows an untouched *offset */
				int r = archive_read_data_block(a, &b, &s, &off);
				o_int(r);
				o_int(off);
				o_bytes(b, (r == ARCHIVE_OK && b != NULL) ? s : 0);
			} else {
				o_int(archive_read_data_skip(a));
			}
			o_close();
		}
		o_close();
	}
	o_close();
	o_int(hret);
	o_open();
	for (k = 0; k < n && (long)k <= ps.idx; k++) {	/* entries whose header was read */
		o_open();
		o_int(ps.cnt[k].callbacks); o_int(ps.cnt[k].cursor);
		o_close();
	}
	o_close();
	o_close();
	o_endline();
	archive_read_free(a);
	free(ps.cnt);
}

/* ------------------------------------------------------------------ op 1: end-to-end */
#define P61 ((1ULL << 61) - 1)
static uint64_t
mulmod(uint64_t x, uint64_t y)
{
	unsigned __int128 t = (unsigned __int128)x * y;
	uint64_t r = (uint64_t)(t & P61) + (uint64_t)(t >> 61);
	while (r >= P61) r -= P61;
	return (r);
}
static uint64_t
powmod(uint64_t b, uint64_t e)
{
	uint64_t r = 1;
	while (e) { if (e & 1) r = mulmod(r, b); b = mulmod(b, b); e >>= 1; }
	return (r);
}
#define DB1 1000003ULL
#define DB2 0x1f3d5b79a1ULL
/* digest of a dense byte string; a run of zero bytes costs O(log n) */
struct dig { uint64_t h1, h2; int64_t len; };
static void dig_init(struct dig *d) { d->h1 = 1; d->h2 = 1; d->len = 0; }
static void
dig_data(struct dig *d, const void *p, size_t n)
{
	const unsigned char *b = p;
	size_t k;
	for (k = 0; k < n; k++) {
		d->h1 = mulmod(d->h1, DB1) + b[k]; if (d->h1 >= P61) d->h1 -= P61;
		d->h2 = mulmod(d->h2, DB2) + b[k]; if (d->h2 >= P61) d->h2 -= P61;
	}
	d->len += (int64_t)n;
}
static void
dig_zeros(struct dig *d, int64_t n)
{
	if (n <= 0) return;
	d->h1 = mulmod(d->h1, powmod(DB1, (uint64_t)n));
	d->h2 = mulmod(d->h2, powmod(DB2, (uint64_t)n));
	d->len += n;
}
static void o_dig(struct dig *d) { o_int(d->len); o_uint(d->h1); o_uint(d->h2); }

#define READ_CAP (1LL << 22)	/* archive_read_data stops being asked after this many bytes */

/* client callbacks without seek/skip: a pipe-like source (zip takes its streaming reader) */
struct plain_src { FILE *f; size_t bs; unsigned char *buf; };
static la_ssize_t
plain_read(struct archive *a, void *cd, const void **buff)
{
	struct plain_src *p = cd;
	(void)a;
	*buff = p->buf;
	return ((la_ssize_t)fread(p->buf, 1, p->bs, p->f));
}

static void
op_archive(val *c)
{
	char *path = v_cstr(v_at(c, 1));
	val *choices = v_at(c, 2);
	struct archive *a = archive_read_new();
	struct archive_entry *ae;
	size_t k;
	int hret;

	archive_read_support_filter_all(a);
	archive_read_support_format_all(a);
	o_open();
	o_open();
	long long bs = v_ll(v_at(c, 3));	/* 0: seekable file reader; n > 0: non-seekable, n-byte reads */
	struct plain_src src = { NULL, 0, NULL };
	int opened;

	if (bs > 0) {
		src.f = fopen(path, "rb");
		src.bs = (size_t)bs;
		src.buf = malloc(src.bs);
		opened = src.f != NULL && archive_read_open(a, &src, NULL, plain_read, NULL) == ARCHIVE_OK;
	} else
		opened = archive_read_open_filename(a, path, 10240) == ARCHIVE_OK;
	if (!opened) {
		o_close(); o_int(-99); o_str(archive_error_string(a)); o_close(); o_endline();
		archive_read_free(a); free(path);
		if (src.f) fclose(src.f);
		free(src.buf);
		return;
	}
	for (k = 0; ; k++) {
		val *ch;
		long long kind;
		hret = archive_read_next_header(a, &ae);
		if (hret != ARCHIVE_OK && hret != ARCHIVE_WARN)
			break;
		o_open();
		o_int(hret);
		o_str(archive_entry_pathname(ae));
		o_int(archive_entry_size_is_set(ae));
		o_int(archive_entry_size(ae));
		o_int(archive_entry_filetype(ae));
		o_int(archive_entry_mode(ae));
		o_int(archive_entry_mtime(ae));
		o_str(archive_entry_hardlink(ae));
		o_str(archive_entry_symlink(ae));
		o_int(archive_entry_sparse_count(ae));
		ch = v_len(choices) ? v_at(choices, k < v_len(choices) ? k : v_len(choices) - 1) : NULL;
		kind = ch ? v_ll(v_at(ch, 0)) : 4;
		o_open();
		o_int(kind);
		if (kind == 0) {
			struct dig d;
			size_t nb = v_len(ch) - 1, ib = 0;
			long ncalls = 0;
			la_ssize_t r;
			dig_init(&d);
			for (;;) {
				size_t s = (size_t)v_ull(v_at(ch, 1 + (nb ? ib % nb : 0)));
				char *buf;
				if (nb == 0 || s == 0) s = 4096;
				buf = malloc(s);
				r = archive_read_data(a, buf, s);
				ncalls++; ib++;
				if (r > 0) dig_data(&d, buf, (size_t)r);
				free(buf);
				if (r <= 0 || d.len > READ_CAP)
					break;
			}
			o_dig(&d);
			o_int(r);
			o_int(ncalls);
		} else if (kind == 1) {
			struct dig d;
			const void *b;
			size_t s;
			la_int64_t off = -1, pos = 0;
			int r, mono = 1;
			long nblk = 0;
			dig_init(&d);
			o_open();
			for (;;) {
				b = NULL; s = 0; off = -1;
				r = archive_read_data_block(a, &b, &s, &off);
				if (r != ARCHIVE_OK && r != ARCHIVE_WARN)
					break;
				if (nblk < 4000) { o_open(); o_int(off); o_uint(s); o_close(); }
				nblk++;
				if (off < pos) mono = 0;
				if (mono) {
					dig_zeros(&d, off - pos);
					dig_data(&d, b, s);
					pos = off + (la_int64_t)s;
				}
			}
			o_close();
			o_int(r);
			o_int(off);
			o_int(mono);
			o_int(nblk);
			o_dig(&d);
		} else if (kind == 2) {
			size_t want = (size_t)v_ull(v_at(ch, 1));
			char *buf = malloc(want ? want : 1);
			la_ssize_t r = archive_read_data(a, buf, want);
			struct dig d;
			dig_init(&d);
			if (r > 0) dig_data(&d, buf, (size_t)r);
			o_int(r);
			o_dig(&d);
			free(buf);
		} else if (kind == 3) {
			o_int(archive_read_data_skip(a));
		}
		o_close();
		o_close();
	}
	o_close();
	o_int(hret);
	o_str(hret == ARCHIVE_EOF ? "" : archive_error_string(a));
	o_str(archive_format_name(a));
	o_int(archive_format(a));
	o_close();
	o_endline();
	archive_read_free(a);
	free(path);
	if (src.f) fclose(src.f);
	free(src.buf);
}

/* ------------------------------------------------------------------ op 3: write a corpus archive */
static la_ssize_t
plain_write(struct archive *a, void *cd, const void *buff, size_t n)
{
	(void)a;
	return ((la_ssize_t)fwrite(buff, 1, n, (FILE *)cd));
}

static void
op_write(val *c)
{
	char *path = v_cstr(v_at(c, 1)), *fmt = v_cstr(v_at(c, 2)), *opts = v_cstr(v_at(c, 4));
	val *filters = v_at(c, 3), *ents = v_at(c, 5);
	struct archive *a = archive_write_new();
	FILE *f = fopen(path, "wb");
	int worst = ARCHIVE_OK, r;
	size_t k, j;

#define TRACK(x) do { r = (x); if (r < worst) worst = r; } while (0)
	TRACK(archive_write_set_format_by_name(a, fmt));
	for (k = 0; k < v_len(filters); k++) {
		char *fn = v_cstr(v_at(filters, k));
		TRACK(archive_write_add_filter_by_name(a, fn));
		free(fn);
	}
	if (opts[0])
		TRACK(archive_write_set_options(a, opts));
	archive_write_set_bytes_in_last_block(a, 1);
	if (f == NULL || worst <= ARCHIVE_FAILED ||
	    archive_write_open(a, f, NULL, plain_write, NULL) != ARCHIVE_OK) {
		o_open(); o_int(-99); o_str(archive_error_string(a)); o_close(); o_endline();
		archive_write_free(a);
		if (f) fclose(f);
		free(path); free(fmt); free(opts);
		return;
	}
	for (k = 0; k < v_len(ents); k++) {
		val *e = v_at(ents, k), *sp = v_at(e, 5);
		struct archive_entry *ae = archive_entry_new();
		char *name = v_cstr(v_at(e, 0)), *link = v_cstr(v_at(e, 6));
		long long ftype = v_ll(v_at(e, 1)), size = v_ll(v_at(e, 2)), seed = v_ll(v_at(e, 4));
		long long pos;
		unsigned char chunk[1000];
		val *ct = v_at(e, 7);	/* optional explicit contents (must have `size' bytes) */
		int has_ct = v_len(e) > 7 && ct->kind == 1 && (long long)ct->n == size;

		archive_entry_set_pathname(ae, name);
		archive_entry_set_filetype(ae, (unsigned)ftype);
		archive_entry_set_perm(ae, ftype == AE_IFDIR ? 0755 : 0644);
		archive_entry_set_mtime(ae, 1000000 + (time_t)k, 0);
		archive_entry_set_uid(ae, 1000); archive_entry_set_gid(ae, 1000);
		if (ftype == AE_IFLNK)
			archive_entry_set_symlink(ae, link);
		else if (link[0])
			archive_entry_set_hardlink(ae, link);
		if (v_ll(v_at(e, 3)))
			archive_entry_set_size(ae, size);
		for (j = 0; j < v_len(sp); j++)
			archive_entry_sparse_add_entry(ae, v_ll(v_at(v_at(sp, j), 0)), v_ll(v_at(v_at(sp, j), 1)));
		TRACK(archive_write_header(a, ae));
		if (r >= ARCHIVE_WARN && ftype == AE_IFREG && !link[0]) {
			for (pos = 0; pos < size; ) {
				size_t n = (size_t)(size - pos < (long long)sizeof(chunk) ? size - pos : (long long)sizeof(chunk)), i;
				la_ssize_t w;
				for (i = 0; i < n; i++) {
					long long at = pos + (long long)i;
					int in = v_len(sp) == 0;
					for (j = 0; !in && j < v_len(sp); j++) {
						long long o = v_ll(v_at(v_at(sp, j), 0)), l = v_ll(v_at(v_at(sp, j), 1));
						if (at >= o && at < o + l) in = 1;
					}
					chunk[i] = has_ct ? ct->b[at] :
					    in ? (unsigned char)(1 + (31 * at + seed) % 255) : 0;
				}
				w = archive_write_data(a, chunk, n);
				if (w < 0) { TRACK((int)w); break; }
				pos += (long long)n;
			}
		}
		archive_entry_free(ae);
		free(name); free(link);
	}
	TRACK(archive_write_close(a));
	o_open(); o_int(worst); o_str(worst < ARCHIVE_OK ? archive_error_string(a) : ""); o_close(); o_endline();
	archive_write_free(a);
	fclose(f);
	free(path); free(fmt); free(opts);
}

/* ------------------------------------------------------------------ op 2: tar body state machine */
static int
tarps_read_header(struct archive_read *a, struct archive_entry *entry)
{
	(void)a; (void)entry;
	return (ARCHIVE_EOF);
}

static void
op_tar(val *c)
{
	size_t total = (size_t)v_ull(v_at(c, 1)), chunk = (size_t)v_ull(v_at(c, 2));
	val *sl = v_at(c, 3);
	long long nreads = v_ll(v_at(c, 8)), do_skip = v_ll(v_at(c, 9));
	struct archive *_a = archive_read_new();
	struct archive_read *a = (struct archive_read *)_a;
	struct tar *tar = calloc(1, sizeof(*tar));
	unsigned char *stream = malloc(total ? total : 1);
	size_t k;
	int r = ARCHIVE_OK;

	for (k = 0; k < total; k++)
		stream[k] = (unsigned char)((k * 2654435761u) >> 24);
	if (__archive_read_register_format(a, tar, "tarbody", ps_bid, NULL, tarps_read_header,
	    archive_read_format_tar_read_data, archive_read_format_tar_skip, NULL,
	    archive_read_format_tar_cleanup, NULL, NULL) != ARCHIVE_OK ||
	    archive_read_open_memory2(_a, stream, total, chunk ? chunk : 1) != ARCHIVE_OK) {
		fprintf(stderr, "tar body set-up failed: %s\n", archive_error_string(_a));
		exit(4);
	}
	for (k = 0; k < v_len(sl); k++) {
		val *sb = v_at(sl, k);
		if (gnu_add_sparse_entry(a, tar, v_ll(v_at(sb, 0)), v_ll(v_at(sb, 1))) != ARCHIVE_OK) {
			fprintf(stderr, "bad sparse entry in case\n");
			exit(4);
		}
		tar->sparse_last->hole = (int)v_ll(v_at(sb, 2));
	}
	tar->entry_bytes_remaining = v_ll(v_at(c, 4));
	tar->entry_bytes_unconsumed = v_ll(v_at(c, 5));
	tar->entry_padding = v_ll(v_at(c, 6));
	tar->disk_size = v_ll(v_at(c, 7));
	if (tar->entry_bytes_unconsumed > 0) {
		/* state "a block was handed out and not yet consumed": the bytes must have been looked at */
		ssize_t av;
		(void)__archive_read_ahead(a, 1, &av);
	}
	o_open();
	o_open();
	for (k = 0; nreads < 0 || (long long)k < nreads; k++) {
		const void *b = NULL;
		size_t s = 0;
		int64_t off = -1, pos;
		int ok = 1;
		r = archive_read_format_tar_read_data(a, &b, &s, &off);
		pos = a->filter->position;
		if (r == ARCHIVE_OK)
			ok = (pos >= 0 && (uint64_t)pos + s <= total && b != NULL &&
			    memcmp(b, stream + pos, s) == 0);
		o_open(); o_int(r); o_int(off); o_uint(s); o_int(pos); o_int(ok); o_close();
		if (r != ARCHIVE_OK)
			break;
	}
	o_close();
	o_open();
	if (do_skip)
		o_int(archive_read_format_tar_skip(a));
	o_close();
	o_int(a->filter->position);
	o_close();
	o_endline();
	archive_read_free(_a);
	free(stream);
}

static void
one_case(val *c)
{
	switch (v_ll(v_at(c, 0))) {
	case 0: op_script(c); break;
	case 1: op_archive(c); break;
	case 2: op_tar(c); break;
	case 3: op_write(c); break;
	default: o_open(); o_str("ERR"); o_close(); o_endline(); break;
	}
}

int
main(int argc, char **argv)
{
	return (v_foreach_line(argc > 1 ? argv[1] : NULL, one_case));
}
