/* C19 - LD_PRELOAD interposer: records the file-system calls of the disk writer, injects the
 * n-th failure, and snapshots the content reachable through the target name BEFORE every
 * intercepted call (the crash oracle).
 *
 * In-process interface (looked up by harness/safeWrite.c with dlsym(RTLD_DEFAULT, ...)):
 *   verif_begin(target)        start a case: forget events/plan/fd table, arm
 *   verif_plan_add(idx, code)  the idx-th recorded call (0-based, global) fails; code > 0 = errno,
 *                              code == -1 = short write (half of the bytes, at least one)
 *   verif_end()                disarm
 *   verif_events(&n)           the recorded events
 *   verif_snapshot(&len,&hash) content of the target now (len = -1: no such name)
 * Stand-alone use (any program): VERIF_TARGET=<name> arms at start-up, VERIF_FAIL=
 * "write:2:ENOSPC,#7:EACCES" (n-th call of a kind, 1-based; or #global index, 0-based),
 * VERIF_LOG_FD=<fd> gets one text line per call:  <kind> <path> <path2> <arg> <result> <len>:<hash>.
 *
 * Paths are reported relative to the working directory, with the random suffix of
 * "<target>.XXXXXX" canonicalised.  Descriptor calls are reported with the path the descriptor
 * was opened with; calls on descriptors not opened inside the armed window are not recorded.
 */
#define _GNU_SOURCE
#include <dlfcn.h>
#include <errno.h>
#include <fcntl.h>
#include <stdarg.h>
#include <stdio.h>
#include <stdlib.h>
#include <string.h>
#include <sys/stat.h>
#include <sys/syscall.h>
#include <sys/time.h>
#include <sys/types.h>
#include <unistd.h>
#include "safeWrite_events.h"

/* not declared by glibc >= 2.33 headers any more; old binaries still call them */
int __xstat(int, const char *, struct stat *);
int __lxstat(int, const char *, struct stat *);
int __fxstat(int, int, struct stat *);
int __xstat64(int, const char *, struct stat64 *);
int __lxstat64(int, const char *, struct stat64 *);
int __fxstat64(int, int, struct stat64 *);

static int armed;
static char target[256];
static size_t target_len;
static struct sw_event events[SW_MAX_EVENTS];
static int n_events;
static struct { int idx; int code; } plan[64];
static int n_plan;
static struct { int kind; int nth; int code; } kplan[16];
static int n_kplan;
static int kind_count[SW_NKINDS];
static char fdname[1024][SW_PATHLEN];
static int log_fd = -1;

static const char *kind_names[SW_NKINDS] = { "?", "open", "lstat", "stat", "fstat", "mkstemp",
	"fchmod", "chmod", "fchown", "lchown", "chown", "lseek", "write", "pwrite", "ftruncate",
	"futimens", "utimensat", "close", "rename", "unlink", "link", "rmdir", "mkdir", "other" };

/* ---- raw helpers (never go through the interposed symbols) ---- */
static void snapshot(long long *len, unsigned long long *hash)
{
	static unsigned char buf[1 << 16];
	unsigned long long h = 1469598103934665603ULL;
	long long total = 0;
	long fd, n;
	size_t k;
	int saved = errno;

	fd = syscall(SYS_openat, AT_FDCWD, target, O_RDONLY | O_NOFOLLOW | O_CLOEXEC, 0);
	if (fd < 0) {
		*len = -1;
		*hash = 0;
		errno = saved;
		return;
	}
	while ((n = syscall(SYS_read, fd, buf, sizeof(buf))) > 0) {
		for (k = 0; k < (size_t)n; k++) {
			h ^= buf[k];
			h *= 1099511628211ULL;
		}
		total += n;
	}
	syscall(SYS_close, fd);
	*len = total;
	*hash = h;
	errno = saved;
}

static void canon(const char *path, char *out)
{
	size_t n;
	if (path == NULL)
		path = "(null)";
	while (path[0] == '.' && path[1] == '/')
		path += 2;
	n = strlen(path);
	if (target_len && n == target_len + 7 && strncmp(path, target, target_len) == 0 &&
	    path[target_len] == '.') {
		snprintf(out, SW_PATHLEN, "%s.XXXXXX", target);
		return;
	}
	snprintf(out, SW_PATHLEN, "%s", path);
}

static int err_of_name(const char *s)
{
	static const struct { const char *n; int e; } t[] = { {"EPERM", EPERM}, {"ENOENT", ENOENT},
		{"EINTR", EINTR}, {"EIO", EIO}, {"EACCES", EACCES}, {"EEXIST", EEXIST}, {"ENOTDIR", ENOTDIR},
		{"EISDIR", EISDIR}, {"ENOSPC", ENOSPC}, {"EROFS", EROFS}, {"EDQUOT", EDQUOT},
		{"EFBIG", EFBIG}, {"SHORT", -1}, {NULL, 0} };
	int k;
	for (k = 0; t[k].n; k++)
		if (strcmp(s, t[k].n) == 0)
			return t[k].e;
	return atoi(s);
}

static void parse_env_plan(const char *s)
{
	char tmp[512], *tok, *save = NULL;
	snprintf(tmp, sizeof(tmp), "%s", s);
	for (tok = strtok_r(tmp, ",", &save); tok; tok = strtok_r(NULL, ",", &save)) {
		char *c1 = strchr(tok, ':'), *c2;
		if (c1 == NULL)
			continue;
		*c1++ = '\0';
		if (tok[0] == '#') {
			if (n_plan < 64) {
				plan[n_plan].idx = atoi(tok + 1);
				plan[n_plan++].code = err_of_name(c1);
			}
			continue;
		}
		c2 = strchr(c1, ':');
		if (c2 == NULL)
			continue;
		*c2++ = '\0';
		if (n_kplan < 16) {
			int k;
			for (k = 1; k < SW_NKINDS; k++)
				if (strcmp(kind_names[k], tok) == 0)
					break;
			kplan[n_kplan].kind = k;
			kplan[n_kplan].nth = atoi(c1);
			kplan[n_kplan++].code = err_of_name(c2);
		}
	}
}

__attribute__((constructor)) static void sw_init(void)
{
	const char *t = getenv("VERIF_TARGET"), *f = getenv("VERIF_FAIL"), *l = getenv("VERIF_LOG_FD");
	if (l)
		log_fd = atoi(l);
	if (f)
		parse_env_plan(f);
	if (t) {
		snprintf(target, sizeof(target), "%s", t);
		target_len = strlen(target);
		armed = 1;
	}
}

/* ---- in-process interface ---- */
void verif_begin(const char *t)
{
	snprintf(target, sizeof(target), "%s", t);
	target_len = strlen(target);
	n_events = 0;
	n_plan = 0;
	memset(kind_count, 0, sizeof(kind_count));
	memset(fdname, 0, sizeof(fdname));
	armed = 1;
}
void verif_plan_add(int idx, int code)
{
	if (n_plan < 64) {
		plan[n_plan].idx = idx;
		plan[n_plan++].code = code;
	}
}
void verif_end(void) { armed = 0; }
const struct sw_event *verif_events(int *n) { *n = n_events; return events; }
void verif_snapshot(long long *len, unsigned long long *hash) { snapshot(len, hash); }

/* record the call; returns the fault code to inject (0 = none) */
static int enter(int kind, const char *p1, const char *p2, long long arg, struct sw_event **evp)
{
	struct sw_event *ev;
	int k, code = 0;
	if (n_events >= SW_MAX_EVENTS) {
		*evp = NULL;
		return 0;
	}
	ev = &events[n_events];
	memset(ev, 0, sizeof(*ev));
	ev->kind = kind;
	canon(p1, ev->path);
	if (p2)
		canon(p2, ev->path2);
	ev->arg = arg;
	snapshot(&ev->snap_len, &ev->snap_hash);
	kind_count[kind]++;
	for (k = 0; k < n_plan; k++)
		if (plan[k].idx == n_events)
			code = plan[k].code;
	for (k = 0; k < n_kplan; k++)
		if (kplan[k].kind == kind && kplan[k].nth == kind_count[kind])
			code = kplan[k].code;
	n_events++;
	*evp = ev;
	return code;
}

static void leave(struct sw_event *ev, long long result)
{
	char line[2 * SW_PATHLEN + 160];
	int n;
	if (ev == NULL)
		return;
	ev->result = result < 0 ? -(long long)errno : result;
	if (log_fd >= 0) {
		int saved = errno;
		n = snprintf(line, sizeof(line), "%s %s %s %lld %lld %lld:%016llx\n", kind_names[ev->kind],
		    ev->path, ev->path2[0] ? ev->path2 : "-", ev->arg, ev->result, ev->snap_len, ev->snap_hash);
		syscall(SYS_write, log_fd, line, (size_t)n);
		errno = saved;
	}
}

static const char *name_of_fd(int fd)
{
	if (fd < 0 || fd >= 1024 || fdname[fd][0] == '\0')
		return NULL;
	return fdname[fd];
}
static void remember_fd(int fd, const char *path)
{
	if (fd >= 0 && fd < 1024)
		canon(path, fdname[fd]);
}

#define REAL(name) \
	static __typeof__(name) *real; \
	if (real == NULL) real = (__typeof__(name) *)dlsym(RTLD_NEXT, #name)

/* a failing call: not performed, returns -1 with errno = code */
#define FAIL_WITH(code, ev) do { errno = (code); leave((ev), -1); return -1; } while (0)

/* ---- path calls ---- */
static int open_common(int (*real)(const char *, int, ...), const char *path, int flags, mode_t mode)
{
	struct sw_event *ev;
	int code, fd;
	if (!armed)
		return real(path, flags, mode);
	code = enter(SW_OPEN, path, NULL, flags & (O_ACCMODE | O_CREAT | O_EXCL | O_TRUNC | O_APPEND), &ev);
	if (code > 0)
		FAIL_WITH(code, ev);
	fd = real(path, flags, mode);
	if (fd >= 0)
		remember_fd(fd, path);
	leave(ev, fd < 0 ? -1 : 0);
	return fd;
}
int open(const char *path, int flags, ...)
{
	mode_t mode = 0;
	REAL(open);
	if (flags & (O_CREAT | O_TMPFILE)) { va_list ap; va_start(ap, flags); mode = va_arg(ap, mode_t); va_end(ap); }
	return open_common(real, path, flags, mode);
}
int open64(const char *path, int flags, ...)
{
	mode_t mode = 0;
	REAL(open64);
	if (flags & (O_CREAT | O_TMPFILE)) { va_list ap; va_start(ap, flags); mode = va_arg(ap, mode_t); va_end(ap); }
	return open_common(real, path, flags, mode);
}
static int openat_common(int (*real)(int, const char *, int, ...), int dfd, const char *path, int flags, mode_t mode)
{
	struct sw_event *ev;
	int code, fd;
	if (!armed || dfd != AT_FDCWD)
		return real(dfd, path, flags, mode);
	code = enter(SW_OPEN, path, NULL, flags & (O_ACCMODE | O_CREAT | O_EXCL | O_TRUNC | O_APPEND), &ev);
	if (code > 0)
		FAIL_WITH(code, ev);
	fd = real(dfd, path, flags, mode);
	if (fd >= 0)
		remember_fd(fd, path);
	leave(ev, fd < 0 ? -1 : 0);
	return fd;
}
int openat(int dfd, const char *path, int flags, ...)
{
	mode_t mode = 0;
	REAL(openat);
	if (flags & (O_CREAT | O_TMPFILE)) { va_list ap; va_start(ap, flags); mode = va_arg(ap, mode_t); va_end(ap); }
	return openat_common(real, dfd, path, flags, mode);
}
int openat64(int dfd, const char *path, int flags, ...)
{
	mode_t mode = 0;
	REAL(openat64);
	if (flags & (O_CREAT | O_TMPFILE)) { va_list ap; va_start(ap, flags); mode = va_arg(ap, mode_t); va_end(ap); }
	return openat_common(real, dfd, path, flags, mode);
}

static int mkstemp_common(int (*real)(char *), char *tmpl)
{
	struct sw_event *ev;
	int code, fd;
	if (!armed)
		return real(tmpl);
	code = enter(SW_MKSTEMP, tmpl, NULL, 0, &ev);
	if (code > 0)
		FAIL_WITH(code, ev);
	fd = real(tmpl);
	if (fd >= 0)
		remember_fd(fd, tmpl);
	leave(ev, fd < 0 ? -1 : 0);
	return fd;
}
int mkstemp(char *tmpl) { REAL(mkstemp); return mkstemp_common(real, tmpl); }
int mkstemp64(char *tmpl) { REAL(mkstemp64); return mkstemp_common(real, tmpl); }

#define PATH_CALL(kind, path, path2, arg, callexpr) do { \
	struct sw_event *ev; int code, r; \
	if (!armed) return callexpr; \
	code = enter(kind, path, path2, arg, &ev); \
	if (code > 0) FAIL_WITH(code, ev); \
	r = callexpr; \
	leave(ev, r); \
	return r; } while (0)

int stat(const char *p, struct stat *st) { REAL(stat); PATH_CALL(SW_STAT, p, NULL, 0, real(p, st)); }
int lstat(const char *p, struct stat *st) { REAL(lstat); PATH_CALL(SW_LSTAT, p, NULL, 0, real(p, st)); }
int stat64(const char *p, struct stat64 *st) { REAL(stat64); PATH_CALL(SW_STAT, p, NULL, 0, real(p, st)); }
int lstat64(const char *p, struct stat64 *st) { REAL(lstat64); PATH_CALL(SW_LSTAT, p, NULL, 0, real(p, st)); }
int __xstat(int v, const char *p, struct stat *st) { REAL(__xstat); PATH_CALL(SW_STAT, p, NULL, 0, real(v, p, st)); }
int __lxstat(int v, const char *p, struct stat *st) { REAL(__lxstat); PATH_CALL(SW_LSTAT, p, NULL, 0, real(v, p, st)); }
int __xstat64(int v, const char *p, struct stat64 *st) { REAL(__xstat64); PATH_CALL(SW_STAT, p, NULL, 0, real(v, p, st)); }
int __lxstat64(int v, const char *p, struct stat64 *st) { REAL(__lxstat64); PATH_CALL(SW_LSTAT, p, NULL, 0, real(v, p, st)); }
int fstatat(int d, const char *p, struct stat *st, int fl)
{
	REAL(fstatat);
	if (d != AT_FDCWD) return real(d, p, st, fl);
	PATH_CALL((fl & AT_SYMLINK_NOFOLLOW) ? SW_LSTAT : SW_STAT, p, NULL, 0, real(d, p, st, fl));
}
int fstatat64(int d, const char *p, struct stat64 *st, int fl)
{
	REAL(fstatat64);
	if (d != AT_FDCWD) return real(d, p, st, fl);
	PATH_CALL((fl & AT_SYMLINK_NOFOLLOW) ? SW_LSTAT : SW_STAT, p, NULL, 0, real(d, p, st, fl));
}
int chmod(const char *p, mode_t m) { REAL(chmod); PATH_CALL(SW_CHMOD, p, NULL, m, real(p, m)); }
int lchmod(const char *p, mode_t m) { REAL(lchmod); PATH_CALL(SW_CHMOD, p, NULL, m, real(p, m)); }
int fchmodat(int d, const char *p, mode_t m, int fl)
{
	REAL(fchmodat);
	if (d != AT_FDCWD) return real(d, p, m, fl);
	PATH_CALL(SW_CHMOD, p, NULL, m, real(d, p, m, fl));
}
int chown(const char *p, uid_t u, gid_t g) { REAL(chown); PATH_CALL(SW_CHOWN, p, NULL, 0, real(p, u, g)); }
int lchown(const char *p, uid_t u, gid_t g) { REAL(lchown); PATH_CALL(SW_LCHOWN, p, NULL, 0, real(p, u, g)); }
int fchownat(int d, const char *p, uid_t u, gid_t g, int fl)
{
	REAL(fchownat);
	if (d != AT_FDCWD) return real(d, p, u, g, fl);
	PATH_CALL((fl & AT_SYMLINK_NOFOLLOW) ? SW_LCHOWN : SW_CHOWN, p, NULL, 0, real(d, p, u, g, fl));
}
int utimensat(int d, const char *p, const struct timespec ts[2], int fl)
{
	REAL(utimensat);
	if (d != AT_FDCWD || p == NULL) return real(d, p, ts, fl);
	PATH_CALL(SW_UTIMENSAT, p, NULL, 0, real(d, p, ts, fl));
}
int utimes(const char *p, const struct timeval tv[2]) { REAL(utimes); PATH_CALL(SW_UTIMENSAT, p, NULL, 0, real(p, tv)); }
int lutimes(const char *p, const struct timeval tv[2]) { REAL(lutimes); PATH_CALL(SW_UTIMENSAT, p, NULL, 0, real(p, tv)); }
int rename(const char *a, const char *b) { REAL(rename); PATH_CALL(SW_RENAME, a, b, 0, real(a, b)); }
int renameat(int d1, const char *a, int d2, const char *b)
{
	REAL(renameat);
	if (d1 != AT_FDCWD || d2 != AT_FDCWD) return real(d1, a, d2, b);
	PATH_CALL(SW_RENAME, a, b, 0, real(d1, a, d2, b));
}
int renameat2(int d1, const char *a, int d2, const char *b, unsigned int fl)
{
	REAL(renameat2);
	if (d1 != AT_FDCWD || d2 != AT_FDCWD) return real(d1, a, d2, b, fl);
	PATH_CALL(SW_RENAME, a, b, fl, real(d1, a, d2, b, fl));
}
int unlink(const char *p) { REAL(unlink); PATH_CALL(SW_UNLINK, p, NULL, 0, real(p)); }
int unlinkat(int d, const char *p, int fl)
{
	REAL(unlinkat);
	if (d != AT_FDCWD) return real(d, p, fl);
	PATH_CALL((fl & AT_REMOVEDIR) ? SW_RMDIR : SW_UNLINK, p, NULL, 0, real(d, p, fl));
}
int rmdir(const char *p) { REAL(rmdir); PATH_CALL(SW_RMDIR, p, NULL, 0, real(p)); }
int mkdir(const char *p, mode_t m) { REAL(mkdir); PATH_CALL(SW_MKDIR, p, NULL, m, real(p, m)); }
int link(const char *a, const char *b) { REAL(link); PATH_CALL(SW_LINK, a, b, 0, real(a, b)); }
int linkat(int d1, const char *a, int d2, const char *b, int fl)
{
	REAL(linkat);
	if (d1 != AT_FDCWD || d2 != AT_FDCWD) return real(d1, a, d2, b, fl);
	PATH_CALL(SW_LINK, a, b, 0, real(d1, a, d2, b, fl));
}
int symlink(const char *a, const char *b) { REAL(symlink); PATH_CALL(SW_OTHER, b, a, 0, real(a, b)); }

/* ---- descriptor calls (only descriptors opened inside the armed window) ---- */
#define FD_CALL(kind, fd, arg, callexpr) do { \
	struct sw_event *ev; int code, r; const char *nm; \
	if (!armed || (nm = name_of_fd(fd)) == NULL) return callexpr; \
	code = enter(kind, nm, NULL, arg, &ev); \
	if (code > 0) FAIL_WITH(code, ev); \
	r = callexpr; \
	leave(ev, r); \
	return r; } while (0)

int fstat(int fd, struct stat *st) { REAL(fstat); FD_CALL(SW_FSTAT, fd, 0, real(fd, st)); }
int fstat64(int fd, struct stat64 *st) { REAL(fstat64); FD_CALL(SW_FSTAT, fd, 0, real(fd, st)); }
int __fxstat(int v, int fd, struct stat *st) { REAL(__fxstat); FD_CALL(SW_FSTAT, fd, 0, real(v, fd, st)); }
int __fxstat64(int v, int fd, struct stat64 *st) { REAL(__fxstat64); FD_CALL(SW_FSTAT, fd, 0, real(v, fd, st)); }
int fchmod(int fd, mode_t m) { REAL(fchmod); FD_CALL(SW_FCHMOD, fd, m, real(fd, m)); }
int fchown(int fd, uid_t u, gid_t g) { REAL(fchown); FD_CALL(SW_FCHOWN, fd, 0, real(fd, u, g)); }
int ftruncate(int fd, off_t len) { REAL(ftruncate); FD_CALL(SW_FTRUNCATE, fd, len, real(fd, len)); }
int ftruncate64(int fd, off64_t len) { REAL(ftruncate64); FD_CALL(SW_FTRUNCATE, fd, len, real(fd, len)); }
int futimens(int fd, const struct timespec ts[2]) { REAL(futimens); FD_CALL(SW_FUTIMENS, fd, 0, real(fd, ts)); }
int futimes(int fd, const struct timeval tv[2]) { REAL(futimes); FD_CALL(SW_FUTIMENS, fd, 0, real(fd, tv)); }

off_t lseek(int fd, off_t off, int whence)
{
	struct sw_event *ev; int code; off_t r; const char *nm;
	REAL(lseek);
	if (!armed || (nm = name_of_fd(fd)) == NULL) return real(fd, off, whence);
	code = enter(SW_LSEEK, nm, NULL, off, &ev);
	if (code > 0) FAIL_WITH(code, ev);
	r = real(fd, off, whence);
	leave(ev, r);
	return r;
}
off64_t lseek64(int fd, off64_t off, int whence)
{
	struct sw_event *ev; int code; off64_t r; const char *nm;
	REAL(lseek64);
	if (!armed || (nm = name_of_fd(fd)) == NULL) return real(fd, off, whence);
	code = enter(SW_LSEEK, nm, NULL, off, &ev);
	if (code > 0) FAIL_WITH(code, ev);
	r = real(fd, off, whence);
	leave(ev, r);
	return r;
}
ssize_t write(int fd, const void *buf, size_t n)
{
	struct sw_event *ev; int code; ssize_t r; const char *nm;
	REAL(write);
	if (!armed || (nm = name_of_fd(fd)) == NULL) return real(fd, buf, n);
	code = enter(SW_WRITE, nm, NULL, (long long)n, &ev);
	if (code > 0) FAIL_WITH(code, ev);
	if (code == -1 && n > 1)
		n = n / 2;
	r = real(fd, buf, n);
	leave(ev, r);
	return r;
}
ssize_t pwrite(int fd, const void *buf, size_t n, off_t off)
{
	struct sw_event *ev; int code; ssize_t r; const char *nm;
	REAL(pwrite);
	if (!armed || (nm = name_of_fd(fd)) == NULL) return real(fd, buf, n, off);
	code = enter(SW_PWRITE, nm, NULL, (long long)n, &ev);
	if (code > 0) FAIL_WITH(code, ev);
	r = real(fd, buf, n, off);
	leave(ev, r);
	return r;
}
ssize_t pwrite64(int fd, const void *buf, size_t n, off64_t off)
{
	struct sw_event *ev; int code; ssize_t r; const char *nm;
	REAL(pwrite64);
	if (!armed || (nm = name_of_fd(fd)) == NULL) return real(fd, buf, n, off);
	code = enter(SW_PWRITE, nm, NULL, (long long)n, &ev);
	if (code > 0) FAIL_WITH(code, ev);
	r = real(fd, buf, n, off);
	leave(ev, r);
	return r;
}
/* close: a failing close still releases the descriptor (Linux semantics) */
int close(int fd)
{
	struct sw_event *ev; int code, r; const char *nm;
	REAL(close);
	if (!armed || (nm = name_of_fd(fd)) == NULL) return real(fd);
	code = enter(SW_CLOSE, nm, NULL, 0, &ev);
	r = real(fd);
	fdname[fd][0] = '\0';
	if (code > 0) { errno = code; r = -1; }
	leave(ev, r);
	return r;
}
