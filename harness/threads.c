/* C13 harness: k threads, each using ONLY its own libarchive handles, behind a start barrier.
 *
 *   threads <seq|conc> <k> <iters> <workload[,workload...]> <workdir> [lha-file] [Z-file]
 *
 * seq : one thread (the main thread) runs the workload list `iters` times; prints its digests.
 * conc: k threads run the same list `iters` times each (thread t starts the list at position t, so
 *       different workloads overlap); prints one digest per thread and workload.
 * Output:  D <workload> <mode> <tid> <digest> <calls>
 * A digest covers every status code, all metadata (pathname, type, mode, size, mtime, uid/gid names,
 * link targets, xattrs, the dev/ino pair relative to the first entry of the same handle) and all
 * data bytes.  dev/ino are taken relative to the handle's first entry because a handle "used one
 * after the other" with a process-wide counter sees consecutive numbers whatever came before; any
 * sequential use of whole handles therefore yields the same digest, an interleaved one does not.
 * Linked against the ThreadSanitizer build of libarchive; TSan reports go to stderr. */
#include <archive.h>
#include <archive_entry.h>
#include <pthread.h>
#include <locale.h>
#include <wchar.h>
#include <stdio.h>
#include <stdlib.h>
#include <string.h>
#include <stdint.h>
#include <unistd.h>
#include <errno.h>
#include <fcntl.h>
#include <stdarg.h>
#include <sys/stat.h>

/* ------------------------------------------------------------------ digest (FNV-1a 64) */
typedef struct { uint64_t h; unsigned long calls; } dig;
static void d_init(dig *d) { d->h = 1469598103934665603ULL; d->calls = 0; }
static void d_bytes(dig *d, const void *p, size_t n)
{
	const unsigned char *b = p;
	size_t i;
	for (i = 0; i < n; i++) { d->h ^= b[i]; d->h *= 1099511628211ULL; }
}
static void d_i64(dig *d, int64_t v) { d_bytes(d, &v, sizeof(v)); }
static void d_str(dig *d, const char *s)
{
	if (s == NULL) { d_i64(d, -1); return; }
	d_i64(d, (int64_t)strlen(s));
	d_bytes(d, s, strlen(s));
}
static void d_rc(dig *d, int rc) { d->calls++; d_i64(d, rc); }

/* ------------------------------------------------------------------ inputs */
struct blob { unsigned char *p; size_t n; };
static struct blob in_ustar, in_pax, in_gnutar, in_cpio, in_newc, in_zip, in_7zip, in_Z, in_targz, in_lha, in_Zfile;
static char workdir[512];
static int old_kernel;		/* __wrap_fcntl: F_DUPFD_CLOEXEC fails as on Linux 2.6.18-2.6.23 */

static void die(const char *fmt, ...)
{
	va_list ap;
	va_start(ap, fmt);
	vfprintf(stderr, fmt, ap);
	va_end(ap);
	fputc('\n', stderr);
	exit(3);
}

static unsigned char pattern(size_t i, int salt) { return (unsigned char)((i * 31 + (i >> 8) * 7 + salt) & 0xff); }

static void fill_entries(struct archive *a, int with_xattr, int special)
{
	struct archive_entry *e;
	unsigned char buf[3000];
	size_t i;
	int f;
	if (special) {
		e = archive_entry_new();
		archive_entry_copy_pathname(e, "dir/");
		archive_entry_set_filetype(e, AE_IFDIR);
		archive_entry_set_perm(e, 0755);
		archive_entry_set_size(e, 0);
		archive_entry_set_mtime(e, 1700000000, 0);
		archive_entry_set_uname(e, "user");
		archive_entry_set_gname(e, "group");
		if (archive_write_header(a, e) < ARCHIVE_WARN) die("input: header dir: %s", archive_error_string(a));
		archive_entry_free(e);
	}
	for (f = 0; f < 2; f++) {
		size_t n = f == 0 ? 3000 : 17;
		e = archive_entry_new();
		archive_entry_copy_pathname(e, f == 0 ? "dir/file1" : "file2");
		archive_entry_set_filetype(e, AE_IFREG);
		archive_entry_set_perm(e, 0644);
		archive_entry_set_size(e, (la_int64_t)n);
		archive_entry_set_mtime(e, 1700000000 + 86400 * f, 0);
		archive_entry_set_uid(e, 1000);
		archive_entry_set_gid(e, 100);
		archive_entry_set_uname(e, "user");
		archive_entry_set_gname(e, "group");
		if (with_xattr && f == 0)
			archive_entry_xattr_add_entry(e, "user.c13", "value\0with\377binary", 17);
		if (archive_write_header(a, e) < ARCHIVE_WARN) die("input: header: %s", archive_error_string(a));
		for (i = 0; i < n; i++) buf[i] = pattern(i, f);
		if (archive_write_data(a, buf, n) != (la_ssize_t)n) die("input: data: %s", archive_error_string(a));
		archive_entry_free(e);
	}
	if (special) {
		e = archive_entry_new();
		archive_entry_copy_pathname(e, "link");
		archive_entry_set_filetype(e, AE_IFLNK);
		archive_entry_set_perm(e, 0777);
		archive_entry_copy_symlink(e, "dir/file1");
		archive_entry_set_size(e, 0);
		archive_entry_set_mtime(e, 1700000000, 0);
		if (archive_write_header(a, e) < ARCHIVE_WARN) die("input: header link: %s", archive_error_string(a));
		archive_entry_free(e);
	}
}

static void build(struct blob *b, const char *format, const char *filter, int with_xattr, int special)
{
	struct archive *a = archive_write_new();
	size_t used = 0, cap = 1 << 20;
	b->p = malloc(cap);
	if (archive_write_set_format_by_name(a, format) != ARCHIVE_OK) die("input: format %s", format);
	if (filter != NULL && archive_write_add_filter_by_name(a, filter) != ARCHIVE_OK) die("input: filter %s", filter);
	if (filter != NULL && strcmp(filter, "gzip") == 0)
		archive_write_set_filter_option(a, "gzip", "timestamp", NULL);
	archive_write_set_bytes_in_last_block(a, 1);
	if (archive_write_open_memory(a, b->p, cap, &used) != ARCHIVE_OK) die("input: open");
	fill_entries(a, with_xattr, special);
	if (archive_write_close(a) != ARCHIVE_OK) die("input: close %s: %s", format, archive_error_string(a));
	archive_write_free(a);
	b->n = used;
}

static void slurp(struct blob *b, const char *path)
{
	FILE *f = fopen(path, "rb");
	long n;
	if (f == NULL) die("cannot open %s", path);
	fseek(f, 0, SEEK_END); n = ftell(f); fseek(f, 0, SEEK_SET);
	b->p = malloc((size_t)n + 1);
	if (fread(b->p, 1, (size_t)n, f) != (size_t)n) die("short read %s", path);
	b->n = (size_t)n;
	fclose(f);
}

/* ------------------------------------------------------------------ read workloads */
static void digest_entry(dig *d, struct archive_entry *e, int64_t *first_lin, int have_fake_ino)
{
	const char *name; const void *val; size_t sz;
	d_str(d, archive_entry_pathname(e));
	d_i64(d, archive_entry_filetype(e));
	d_i64(d, archive_entry_perm(e));
	d_i64(d, archive_entry_size_is_set(e) ? archive_entry_size(e) : -1);
	d_i64(d, archive_entry_mtime_is_set(e) ? archive_entry_mtime(e) : -1);
	d_i64(d, archive_entry_uid(e));
	d_i64(d, archive_entry_gid(e));
	d_str(d, archive_entry_uname(e));
	d_str(d, archive_entry_gname(e));
	d_str(d, archive_entry_symlink(e));
	d_str(d, archive_entry_hardlink(e));
	d_i64(d, archive_entry_nlink(e));
	if (have_fake_ino) {
		/* tar reader: dev = 1 + default_dev, ino = 1..0xffff then dev+1: one linear counter */
		int64_t lin = ((int64_t)archive_entry_dev(e) - 1) * 0xffff + archive_entry_ino64(e);
		if (*first_lin < 0) *first_lin = lin;
		d_i64(d, lin - *first_lin);
	} else {
		d_i64(d, archive_entry_dev_is_set(e) ? (int64_t)archive_entry_dev(e) : -1);
		d_i64(d, archive_entry_ino_is_set(e) ? archive_entry_ino64(e) : -1);
	}
	d_i64(d, archive_entry_xattr_reset(e));
	while (archive_entry_xattr_next(e, &name, &val, &sz) == ARCHIVE_OK) {
		d_str(d, name);
		d_i64(d, (int64_t)sz);
		d_bytes(d, val, sz);
	}
}

static void read_blob(dig *d, const struct blob *b, int fake_ino)
{
	struct archive *a = archive_read_new();
	struct archive_entry *e;
	int r, n = 0;
	int64_t first = -1;
	const void *p; size_t sz; la_int64_t off;
	d_rc(d, archive_read_support_filter_all(a));
	d_rc(d, archive_read_support_format_all(a));
	r = archive_read_open_memory(a, b->p, b->n);
	d_rc(d, r);
	while (r >= ARCHIVE_WARN && (r = archive_read_next_header(a, &e)) >= ARCHIVE_WARN) {
		d_rc(d, r);
		d_i64(d, archive_format(a));
		digest_entry(d, e, &first, fake_ino);
		while ((r = archive_read_data_block(a, &p, &sz, &off)) == ARCHIVE_OK) {
			d_i64(d, off); d_i64(d, (int64_t)sz); d_bytes(d, p, sz);
		}
		d_rc(d, r);
		if (r != ARCHIVE_EOF) d_str(d, archive_error_string(a));
		if (++n > 100) break;
		r = ARCHIVE_OK;
	}
	d_rc(d, r);
	if (r != ARCHIVE_EOF) d_str(d, archive_error_string(a));
	d_i64(d, archive_filter_count(a));
	d_rc(d, archive_read_close(a));
	d_rc(d, archive_read_free(a));
}

/* ------------------------------------------------------------------ write workloads */
struct combo { const char *format, *filter; int special; };
static const struct combo combos[] = {
	{ "ustar", NULL, 1 }, { "pax", "gzip", 1 }, { "paxr", "bzip2", 1 }, { "gnutar", "xz", 1 },
	{ "v7tar", "zstd", 1 }, { "cpio", "lz4", 1 }, { "newc", "compress", 1 }, { "zip", NULL, 1 },
	{ "7zip", NULL, 0 }, { "arbsd", "lzma", 0 }, { "mtree", "lzip", 1 }, { "shar", "uuencode", 0 },
	{ "bin", "b64encode", 0 }, { "odc", "gzip", 1 }, { "zip", "compress", 1 }, { "pax", "zstd", 1 },
};
#define NCOMBOS (int)(sizeof(combos) / sizeof(combos[0]))

static void write_one(dig *d, const struct combo *c, int xattr)
{
	struct archive *a = archive_write_new();
	size_t used = 0, cap = 1 << 18;
	unsigned char *out = malloc(cap);
	struct archive_entry *e;
	unsigned char buf[3000];
	size_t i; int f, r;
	d_rc(d, archive_write_set_format_by_name(a, c->format));
	if (c->filter) d_rc(d, archive_write_add_filter_by_name(a, c->filter));
	if (c->filter && strcmp(c->filter, "gzip") == 0)
		d_rc(d, archive_write_set_filter_option(a, "gzip", "timestamp", NULL));
	d_rc(d, archive_write_set_bytes_in_last_block(a, 1));
	d_rc(d, archive_write_open_memory(a, out, cap, &used));
	if (c->special) {
		e = archive_entry_new();
		archive_entry_copy_pathname(e, "dir/");
		archive_entry_set_filetype(e, AE_IFDIR);
		archive_entry_set_perm(e, 0755);
		archive_entry_set_size(e, 0);
		archive_entry_set_mtime(e, 1700000000, 0);
		r = archive_write_header(a, e); d_rc(d, r);
		if (r != ARCHIVE_OK) d_str(d, archive_error_string(a));
		archive_entry_free(e);
	}
	for (f = 0; f < 2; f++) {
		size_t n = f == 0 ? 3000 : 17;
		e = archive_entry_new();
		archive_entry_copy_pathname(e, f == 0 ? "file1" : "file2");
		archive_entry_set_filetype(e, AE_IFREG);
		archive_entry_set_perm(e, 0644);
		archive_entry_set_size(e, (la_int64_t)n);
		archive_entry_set_mtime(e, 1700000000 + 86400 * f, 0);
		archive_entry_set_uid(e, 1000); archive_entry_set_gid(e, 100);
		archive_entry_set_uname(e, "user"); archive_entry_set_gname(e, "group");
		if (xattr && f == 0) archive_entry_xattr_add_entry(e, "user.c13", "abc\0def", 7);
		r = archive_write_header(a, e); d_rc(d, r);
		if (r != ARCHIVE_OK) d_str(d, archive_error_string(a));
		for (i = 0; i < n; i++) buf[i] = pattern(i, f);
		d_i64(d, archive_write_data(a, buf, n));
		archive_entry_free(e);
	}
	r = archive_write_close(a); d_rc(d, r);
	if (r != ARCHIVE_OK) d_str(d, archive_error_string(a));
	d_rc(d, archive_write_free(a));
	d_i64(d, (int64_t)used);
	d_bytes(d, out, used);
	free(out);
}

/* ------------------------------------------------------------------ disk workloads */
static void disk_read(dig *d, int tid)
{
	char root[600];
	struct archive *a = archive_read_disk_new();
	struct archive_entry *e = archive_entry_new();
	int r, n = 0;
	size_t rl;
	/* entries come in directory order, which is unspecified: combine per-entry digests commutatively */
	uint64_t acc = 0;
	snprintf(root, sizeof(root), "%s/t%d", workdir, tid);
	rl = strlen(root);
	d_rc(d, archive_read_disk_set_standard_lookup(a));
	d_rc(d, archive_read_disk_set_behavior(a, ARCHIVE_READDISK_NO_XATTR | ARCHIVE_READDISK_NO_ACL | ARCHIVE_READDISK_NO_FFLAGS));
	r = archive_read_disk_open(a, root);
	d_rc(d, r);
	while (r == ARCHIVE_OK && (r = archive_read_next_header2(a, e)) >= ARCHIVE_WARN) {
		dig x; const char *p = archive_entry_pathname(e);
		const void *bp; size_t sz; la_int64_t off; int r2;
		d_init(&x);
		d_rc(&x, r);
		d_str(&x, p && strncmp(p, root, rl) == 0 ? p + rl : p);
		d_i64(&x, archive_entry_filetype(e));
		d_i64(&x, archive_entry_perm(e));
		d_i64(&x, archive_entry_filetype(e) == AE_IFREG ? archive_entry_size(e) : 0);
		d_str(&x, archive_entry_symlink(e));
		if (archive_entry_filetype(e) == AE_IFREG) {
			while ((r2 = archive_read_data_block(a, &bp, &sz, &off)) == ARCHIVE_OK) {
				d_i64(&x, off); d_bytes(&x, bp, sz);
			}
			d_rc(&x, r2);
		}
		if (archive_read_disk_can_descend(a)) d_rc(&x, archive_read_disk_descend(a));
		acc += x.h; d->calls += x.calls;
		if (++n > 100) break;
		r = ARCHIVE_OK;
	}
	d_rc(d, r);
	if (r != ARCHIVE_EOF) d_str(d, archive_error_string(a));
	d_i64(d, n);
	d_i64(d, (int64_t)acc);
	archive_entry_free(e);
	d_rc(d, archive_read_close(a));
	d_rc(d, archive_read_free(a));
}

static void mkfile(const char *path, size_t n, int salt);
/* a file that gets shorter between its header and its data: the disk reader leaves the data loop through its
 * abort path with the file still open */
static void disk_shrink(dig *d, int tid)
{
	char root[600], victim[700];
	struct archive *a = archive_read_disk_new();
	struct archive_entry *e = archive_entry_new();
	int r, n = 0;
	snprintf(root, sizeof(root), "%s/s%d", workdir, tid);
	snprintf(victim, sizeof(victim), "%s/s%d/shrink.bin", workdir, tid);
	mkfile(victim, 200000, 3);
	d_rc(d, archive_read_disk_set_behavior(a, ARCHIVE_READDISK_NO_XATTR | ARCHIVE_READDISK_NO_ACL | ARCHIVE_READDISK_NO_FFLAGS));
	r = archive_read_disk_open(a, root);
	d_rc(d, r);
	while (r == ARCHIVE_OK && (r = archive_read_next_header2(a, e)) >= ARCHIVE_WARN) {
		const void *bp; size_t sz; la_int64_t off; int r2, blocks = 0;
		if (archive_entry_filetype(e) == AE_IFREG) {
			if (truncate(victim, 100) != 0) die("truncate");
			while ((r2 = archive_read_data_block(a, &bp, &sz, &off)) == ARCHIVE_OK && ++blocks < 1000)
				;
			d_i64(d, r2 == ARCHIVE_OK || r2 == ARCHIVE_EOF || r2 == ARCHIVE_FAILED || r2 == ARCHIVE_FATAL || r2 == ARCHIVE_WARN);
		}
		if (archive_read_disk_can_descend(a)) d_rc(d, archive_read_disk_descend(a));
		if (++n > 10) break;
		r = ARCHIVE_OK;
	}
	d_i64(d, n);
	archive_entry_free(e);
	d_rc(d, archive_read_close(a));
	d_rc(d, archive_read_free(a));
}

static void disk_write(dig *d, int tid, int iter)
{
	/* statuses and file contents only: permissions of concurrently created files are the documented
	 * umask exception of archive_write_disk_header */
	char path[700], back[64];
	struct archive *a = archive_write_disk_new();
	struct archive_entry *e = archive_entry_new();
	int fd; ssize_t n;
	snprintf(path, sizeof(path), "%s/w%d/out%d/f.txt", workdir, tid, iter & 7);
	d_rc(d, archive_write_disk_set_options(a, ARCHIVE_EXTRACT_TIME | ARCHIVE_EXTRACT_SECURE_NODOTDOT | ARCHIVE_EXTRACT_SECURE_SYMLINKS));
	archive_entry_copy_pathname(e, path);
	archive_entry_set_filetype(e, AE_IFREG);
	archive_entry_set_perm(e, 0600);
	archive_entry_set_size(e, 11);
	archive_entry_set_mtime(e, 1700000000, 0);
	d_rc(d, archive_write_header(a, e));
	d_i64(d, archive_write_data(a, "hello world", 11));
	d_rc(d, archive_write_finish_entry(a));
	d_rc(d, archive_write_close(a));
	d_rc(d, archive_write_free(a));
	archive_entry_free(e);
	fd = open(path, O_RDONLY);
	n = fd >= 0 ? read(fd, back, sizeof(back)) : -1;
	if (fd >= 0) close(fd);
	d_i64(d, (int64_t)n);
	if (n > 0) d_bytes(d, back, (size_t)n);
	unlink(path);
}

static void mkfile(const char *path, size_t n, int salt)
{
	FILE *f = fopen(path, "wb");
	size_t i;
	if (f == NULL) die("cannot create %s", path);
	for (i = 0; i < n; i++) fputc(pattern(i, salt), f);
	fclose(f);
}

static void prepare_dirs(int k)
{
	int t;
	char p[700], q[700];
	for (t = 0; t < k; t++) {
		snprintf(p, sizeof(p), "%s/t%d", workdir, t); mkdir(p, 0755);
		snprintf(p, sizeof(p), "%s/t%d/sub", workdir, t); mkdir(p, 0755);
		snprintf(p, sizeof(p), "%s/t%d/a.txt", workdir, t); mkfile(p, 100, 1);
		snprintf(p, sizeof(p), "%s/t%d/sub/b.bin", workdir, t); mkfile(p, 5000, 2);
		snprintf(p, sizeof(p), "%s/t%d/ln", workdir, t);
		if (symlink("a.txt", p) != 0 && errno != EEXIST) die("symlink");
		snprintf(q, sizeof(q), "%s/t%d/dirln", workdir, t);
		if (symlink("sub", q) != 0 && errno != EEXIST) die("symlink");
		snprintf(p, sizeof(p), "%s/w%d", workdir, t); mkdir(p, 0755);
		snprintf(p, sizeof(p), "%s/s%d", workdir, t); mkdir(p, 0755);
	}
}

/* ------------------------------------------------------------------ misc workloads */
static void version_wl(dig *d)
{
	d_str(d, archive_version_details());
	d_str(d, archive_version_string());
	d_str(d, archive_zlib_version());
	d_str(d, archive_liblzma_version());
	d_str(d, archive_bzlib_version());
	d_str(d, archive_liblz4_version());
	d_str(d, archive_libzstd_version());
	d->calls++;
}

static void entry_wl(dig *d)
{
	struct archive_entry *e = archive_entry_new();
	char *acl;
	archive_entry_copy_pathname(e, "caf\303\251/na\303\257ve.txt");
	archive_entry_set_filetype(e, AE_IFREG);
	archive_entry_set_perm(e, 04751);
	archive_entry_set_mtime(e, 1700000000, 5);
	archive_entry_copy_fflags_text(e, "uappnd,nodump");
	d_str(d, archive_entry_pathname_utf8(e));
	d_str(d, archive_entry_strmode(e));
	d_str(d, archive_entry_fflags_text(e));
	d_rc(d, archive_entry_acl_from_text(e, "user::rw-,user:alice:r-x,group::r--,mask::r-x,other::---", ARCHIVE_ENTRY_ACL_TYPE_ACCESS));
	acl = archive_entry_acl_to_text(e, NULL, ARCHIVE_ENTRY_ACL_TYPE_ACCESS);
	d_str(d, acl);
	free(acl);
	archive_entry_free(e);
}

/* names through the wide-character accessors in a UTF-8 locale (main() selects C.UTF-8 when this workload is
 * asked for).  Threads with an odd number first convert a name that ends in the middle of a character - that
 * conversion fails, and has to fail without leaving anything behind that another conversion could see. */
static void wname_wl(dig *d, int tid)
{
	static const char *good[] = { "b/plain.txt", "b/\346\227\245\346\234\254", "b/\342\202\254-price", "b/\305\201\303\263d\305\272" };
	struct archive_entry *e = archive_entry_new();
	size_t i, j;
	if (tid & 1) {
		archive_entry_copy_pathname(e, "caf\303");
		(void)archive_entry_pathname_w(e);
		archive_entry_clear(e);
	}
	for (i = 0; i < sizeof(good) / sizeof(good[0]); i++) {
		const wchar_t *w;
		archive_entry_copy_pathname(e, good[i]);
		archive_entry_copy_symlink(e, good[(i + 1) % 4]);
		w = archive_entry_pathname_w(e);
		d_i64(d, w == NULL ? -1 : (int64_t)wcslen(w));
		for (j = 0; w != NULL && w[j] != 0; j++) d_i64(d, (int64_t)w[j]);
		w = archive_entry_symlink_w(e);
		d_i64(d, w == NULL ? -1 : (int64_t)wcslen(w));
		d->calls++;
		archive_entry_clear(e);
		if (tid & 1) {
			archive_entry_copy_pathname(e, "x\342\202");
			(void)archive_entry_pathname_w(e);
			archive_entry_clear(e);
		}
	}
	archive_entry_free(e);
}

/* ------------------------------------------------------------------ workload table */
enum { W_USTAR, W_PAX, W_GNUTAR, W_CPIO, W_NEWC, W_ZIP, W_7ZIP, W_Z, W_TARGZ, W_LHA, W_ZFILE,
       W_WRITE, W_WRZIP, W_WRPAX, W_DISK, W_DISKOLD, W_DISKWR, W_VERSION, W_ENTRY, W_DISKSHRINK, W_WNAME, W_N };
static const char *wnames[W_N] = { "ustar", "pax", "gnutar", "cpio", "newc", "zip", "7zip", "Z", "targz", "lha", "Zfile",
       "write", "wrzip", "wrpax", "disk", "diskold", "diskwr", "version", "entry", "diskshrink", "wname" };

static void run_workload(int w, dig *d, int tid, int iter)
{
	static const struct combo czip = { "zip", NULL, 1 }, cpax = { "pax", NULL, 1 };
	switch (w) {
	case W_USTAR: read_blob(d, &in_ustar, 1); break;
	case W_PAX: read_blob(d, &in_pax, 1); break;
	case W_GNUTAR: read_blob(d, &in_gnutar, 1); break;
	case W_CPIO: read_blob(d, &in_cpio, 0); break;
	case W_NEWC: read_blob(d, &in_newc, 0); break;
	case W_ZIP: read_blob(d, &in_zip, 0); break;
	case W_7ZIP: read_blob(d, &in_7zip, 0); break;
	case W_Z: read_blob(d, &in_Z, 1); break;
	case W_TARGZ: read_blob(d, &in_targz, 1); break;
	case W_LHA: read_blob(d, &in_lha, 0); break;
	case W_ZFILE: read_blob(d, &in_Zfile, 1); break;
	case W_WRITE: write_one(d, &combos[iter % NCOMBOS], (iter / NCOMBOS) & 1); break;
	case W_WRZIP: write_one(d, &czip, 0); break;
	case W_WRPAX: write_one(d, &cpax, 1); break;
	case W_DISK: case W_DISKOLD: disk_read(d, tid); break;
	case W_DISKWR: disk_write(d, tid, iter); break;
	case W_VERSION: version_wl(d); break;
	case W_ENTRY: entry_wl(d); break;
	case W_DISKSHRINK: disk_shrink(d, tid); break;
	case W_WNAME: wname_wl(d, tid); break;
	}
}

static int wl[W_N * 2], nwl, iters, nthreads;
static pthread_barrier_t barrier;
struct targ { int tid; dig d[W_N]; };

static void *thread_main(void *p)
{
	struct targ *t = p;
	int i, j;
	if (nthreads > 1) pthread_barrier_wait(&barrier);
	for (i = 0; i < iters; i++)
		for (j = 0; j < nwl; j++) {
			int w = wl[(j + t->tid) % nwl];
			run_workload(w, &t->d[w], t->tid, i);
		}
	return NULL;
}

/* link with -Wl,--wrap=fcntl64 / --wrap=fcntl: simulates the kernels named in tree_dup's comment */
int __real_fcntl64(int, int, ...);
int __wrap_fcntl64(int fd, int cmd, ...)
{
	va_list ap; long arg;
	va_start(ap, cmd); arg = va_arg(ap, long); va_end(ap);
	if (old_kernel && cmd == F_DUPFD_CLOEXEC) { errno = EINVAL; return -1; }
	return __real_fcntl64(fd, cmd, arg);
}
/* link with -Wl,--wrap=close: a handle that closes a descriptor twice gets EBADF when nobody reused the number -
 * and closes another handle's file when somebody did (then THAT handle's own close gets EBADF) */
static int bad_closes;
int __real_close(int);
int __wrap_close(int fd)
{
	int r = __real_close(fd);
	if (r != 0 && errno == EBADF) __atomic_add_fetch(&bad_closes, 1, __ATOMIC_RELAXED);
	return r;
}
int __real_fcntl(int, int, ...);
int __wrap_fcntl(int fd, int cmd, ...)
{
	va_list ap; long arg;
	va_start(ap, cmd); arg = va_arg(ap, long); va_end(ap);
	if (old_kernel && cmd == F_DUPFD_CLOEXEC) { errno = EINVAL; return -1; }
	return __real_fcntl(fd, cmd, arg);
}

int main(int argc, char **argv)
{
	int conc, k, i, w, t;
	char *s, *tok;
	struct targ *ta;
	pthread_t *th;
	if (argc < 6) die("usage: threads seq|conc k iters workloads workdir [lha] [Z]");
	conc = strcmp(argv[1], "conc") == 0;
	k = atoi(argv[2]); iters = atoi(argv[3]);
	snprintf(workdir, sizeof(workdir), "%s", argv[5]);
	s = strdup(argv[4]);
	for (tok = strtok(s, ","); tok; tok = strtok(NULL, ",")) {
		for (w = 0; w < W_N; w++) if (strcmp(tok, wnames[w]) == 0) break;
		if (w == W_N) die("unknown workload %s", tok);
		if (nwl < W_N * 2) wl[nwl++] = w;
	}
	setenv("TZ", "UTC", 1);
	/* inputs: only what the selected workloads need, so that no lazily initialised table of the
	 * code under test is touched before the threads start */
	for (i = 0; i < nwl; i++) switch (wl[i]) {
	case W_USTAR: if (!in_ustar.p) build(&in_ustar, "ustar", NULL, 0, 1); break;
	case W_PAX: if (!in_pax.p) build(&in_pax, "pax", NULL, 1, 1); break;
	case W_GNUTAR: if (!in_gnutar.p) build(&in_gnutar, "gnutar", NULL, 0, 1); break;
	case W_CPIO: if (!in_cpio.p) build(&in_cpio, "odc", NULL, 0, 1); break;
	case W_NEWC: if (!in_newc.p) build(&in_newc, "newc", NULL, 0, 1); break;
	case W_ZIP: if (!in_zip.p) build(&in_zip, "zip", NULL, 0, 1); break;
	case W_7ZIP: if (!in_7zip.p) build(&in_7zip, "7zip", NULL, 0, 0); break;
	case W_Z: if (!in_Z.p) build(&in_Z, "ustar", "compress", 0, 1); break;
	case W_TARGZ: if (!in_targz.p) build(&in_targz, "pax", "gzip", 0, 1); break;
	case W_LHA: if (argc < 7) die("lha file needed"); if (!in_lha.p) slurp(&in_lha, argv[6]); break;
	case W_ZFILE: if (argc < 8) die(".Z file needed"); if (!in_Zfile.p) slurp(&in_Zfile, argv[7]); break;
	case W_WNAME: if (setlocale(LC_CTYPE, "C.UTF-8") == NULL && setlocale(LC_CTYPE, "en_US.UTF-8") == NULL) die("no UTF-8 locale"); break;
	case W_DISKOLD: old_kernel = 1; /* fallthrough */
	case W_DISK: case W_DISKWR: case W_DISKSHRINK: prepare_dirs(conc ? k : 1); break;
	}
	nthreads = conc ? k : 1;
	ta = calloc((size_t)nthreads, sizeof(*ta));
	th = calloc((size_t)nthreads, sizeof(*th));
	for (t = 0; t < nthreads; t++) {
		ta[t].tid = t;
		for (w = 0; w < W_N; w++) d_init(&ta[t].d[w]);
	}
	if (!conc) {
		thread_main(&ta[0]);
	} else {
		pthread_barrier_init(&barrier, NULL, (unsigned)nthreads);
		for (t = 0; t < nthreads; t++)
			if (pthread_create(&th[t], NULL, thread_main, &ta[t]) != 0) die("pthread_create");
		for (t = 0; t < nthreads; t++) pthread_join(th[t], NULL);
	}
	for (t = 0; t < nthreads; t++)
		for (i = 0; i < nwl; i++) {
			int dup = 0, j;
			for (j = 0; j < i; j++) if (wl[j] == wl[i]) dup = 1;
			if (dup) continue;
			printf("D %s %s %d %016llx %lu\n", wnames[wl[i]], conc ? "conc" : "seq", t,
			    (unsigned long long)ta[t].d[wl[i]].h, ta[t].d[wl[i]].calls);
		}
	printf("X badclose %d\n", bad_closes);
	return 0;
}
