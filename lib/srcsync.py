#!/usr/bin/env python3
"""Content-hash guard for the incremental /repo build: ninja decides by mtime, which a copy that
preserves old timestamps can fool.  Every source whose sha1 differs from the one recorded at the last
build gets its object file removed (all objects when a header or a CMake file changed)."""
import sys, os, hashlib, json, glob
repo, bdir = sys.argv[1], sys.argv[2]
dirs = ["libarchive", "libarchive_fe", "tar", "cpio", "cat", "unzip"]
cur = {}
for d in dirs:
    for f in glob.glob(os.path.join(repo, d, "*.[ch]")):
        with open(f, "rb") as fh:
            cur[os.path.relpath(f, repo)] = hashlib.sha1(fh.read()).hexdigest()
rec_path = os.path.join(bdir, ".srchash.json")
old = json.load(open(rec_path)) if os.path.exists(rec_path) else {}
changed = [f for f in cur if old.get(f) != cur[f]] + [f for f in old if f not in cur]
if old and changed:
    if any(f.endswith(".h") for f in changed):
        victims = glob.glob(os.path.join(bdir, "**", "*.c.o"), recursive=True)
    else:
        victims = []
        for f in changed:
            victims += glob.glob(os.path.join(bdir, "**", os.path.basename(f) + ".o"), recursive=True)
    for v in victims:
        try:
            os.remove(v)
        except OSError:
            pass
json.dump(cur, open(rec_path, "w"))
