"""Shared machinery of the /verif checks: build /repo, re-check the Coq development, build the
extracted model runners, run model and implementation on the same cases, diff, report."""
import os, sys, re, json, time, subprocess, hashlib, shutil, atexit, random, fcntl

VERIF = os.path.dirname(os.path.dirname(os.path.abspath(__file__)))
REPO = os.environ.get("VERIF_REPO", "/repo")
CACHE = os.path.join(VERIF, ".cache")

def _tree_root():
    """Where the Coq development, the regenerated coq/Gen files and the extracted runners of THIS run live.
    For /repo that is /verif itself.  For another tree (VERIF_REPO, used to try changes without touching /repo) it
    is a shadow /verif/.cache/tree-<hash>: a copy of the .v sources with its own Gen/, .vo files and runners, so
    that checks of different trees can run side by side without overwriting each other's regenerated files."""
    tree = os.path.realpath(REPO)
    if tree == os.path.realpath("/repo"):
        return VERIF, ""
    tag = hashlib.sha1(tree.encode()).hexdigest()[:8]
    root = os.path.join(CACHE, "tree-" + tag)
    os.makedirs(os.path.join(root, "ml", "gen"), exist_ok=True)
    os.makedirs(os.path.join(root, "translators"), exist_ok=True)
    with open(os.path.join(CACHE, "tree-" + tag + ".sync.lock"), "w") as lf:
        fcntl.flock(lf, fcntl.LOCK_EX)
        first = not os.path.isdir(os.path.join(root, "coq", "Gen"))
        cmd = ["rsync", "-a", "--delete", "--exclude=*.vo", "--exclude=*.vos", "--exclude=*.vok", "--exclude=*.glob",
               "--exclude=.*.aux", "--exclude=Makefile*", "--exclude=_CoqProject", "--exclude=.lia.cache", "--exclude=.nia.cache"]
        if not first:
            cmd.append("--exclude=/Gen/")        # the shadow's Gen/ belongs to its own tree
        subprocess.run(cmd + [os.path.join(VERIF, "coq") + "/", os.path.join(root, "coq") + "/"], check=True)
        for f in os.listdir(os.path.join(VERIF, "translators")):
            dst = os.path.join(root, "translators", f)
            if f.endswith(".py") and not os.path.islink(dst):
                os.symlink(os.path.join(VERIF, "translators", f), dst)
        for d in ("lib", "props", "harness"):
            if not os.path.islink(os.path.join(root, d)):
                os.symlink(os.path.join(VERIF, d), os.path.join(root, d))
    return root, "-" + tag

ROOT, TREE_TAG = _tree_root()
COQ = os.path.join(ROOT, "coq")
MLGEN = os.path.join(ROOT, "ml", "gen")
LINKLIBS = "-lz -lbz2 -llzma -lb2 -llz4 -lzstd -lcrypto -lxml2 -lacl -lssl -lpthread".split()

_scratch = None

def scratch():
    """per-process scratch directory outside /repo, /verif and /tmp; removed at exit"""
    global _scratch
    if _scratch is None:
        base = os.environ.get("VERIF_SCRATCH_BASE", "/var/tmp")
        _scratch = os.path.join(base, "verif-%d" % os.getpid())
        os.makedirs(_scratch, exist_ok=True)
        atexit.register(lambda: shutil.rmtree(_scratch, ignore_errors=True))
    return _scratch

def sh(cmd, timeout=None, cwd=None, env=None, input=None, check=False):
    e = dict(os.environ)
    if env:
        e.update(env)
    p = subprocess.run(cmd, shell=isinstance(cmd, str), cwd=cwd, env=e, input=input,
                       stdout=subprocess.PIPE, stderr=subprocess.STDOUT, timeout=timeout)
    out = p.stdout.decode("utf-8", "replace")
    out = "\n".join(l for l in out.split("\n") if not l.startswith("WARNING conda.cli"))
    if check and p.returncode != 0:
        raise RuntimeError("command failed (%d): %s\n%s" % (p.returncode, cmd, out[-4000:]))
    return p.returncode, out

class Lock:
    def __init__(self, name):
        os.makedirs(CACHE, exist_ok=True)
        self.path = os.path.join(CACHE, name + TREE_TAG + ".lock")
    def __enter__(self):
        self.f = open(self.path, "w")
        fcntl.flock(self.f, fcntl.LOCK_EX)
    def __exit__(self, *a):
        fcntl.flock(self.f, fcntl.LOCK_UN)
        self.f.close()

# ---------------------------------------------------------------- /repo build
def build_repo(variant="plain", targets=("archive_static",)):
    """returns the build directory (contains config.h and libarchive/libarchive.a)"""
    rc, out = sh([os.path.join(VERIF, "lib", "build_repo.sh"), variant] + list(targets), timeout=1500)
    if rc != 0:
        raise BuildError("building /repo (%s) failed:\n%s" % (variant, out[-3000:]))
    return out.strip().split("\n")[-1]

class BuildError(Exception):
    pass

VARIANT_FLAGS = {
    "plain": ["-O1", "-g"],
    "asan": ["-O1", "-g", "-fno-omit-frame-pointer", "-fsanitize=address,undefined", "-fno-sanitize-recover=undefined"],
    "tsan": ["-O1", "-g", "-fsanitize=thread"],
}

def compile_harness(name, variant="plain", private=False, extra=(), sources=None, libs=True):
    """compile harness/<name>.c against the freshly built static library; returns exe path"""
    b = build_repo(variant)
    exe = os.path.join(scratch(), "%s-%s" % (name, variant))
    srcs = sources or [os.path.join(VERIF, "harness", name + ".c")]
    cmd = ["gcc"] + VARIANT_FLAGS[variant] + ["-DLIBARCHIVE_VERIF_HOOKS", "-I" + os.path.join(REPO, "libarchive"),
           "-I" + os.path.join(VERIF, "harness")]
    if private:
        cmd += ["-I" + b, "-DHAVE_CONFIG_H", "-D__LIBARCHIVE_BUILD", "-I/usr/include/libxml2"]
    cmd += list(extra) + srcs
    if libs:
        cmd += [os.path.join(b, "libarchive", "libarchive.a")] + LINKLIBS
    cmd += ["-o", exe]
    rc, out = sh(cmd, timeout=600)
    if rc != 0:
        raise BuildError("compiling harness %s failed:\n%s" % (name, out[-3000:]))
    return exe

# ---------------------------------------------------------------- Coq
def run_translators(names):
    """names: translator module names under translators/ ; each rewrites its coq/Gen file only if changed"""
    for n in names:
        rc, out = sh([sys.executable, os.path.join(ROOT, "translators", n + ".py")], timeout=300)
        if rc != 0:
            raise TranslatorError("translator %s failed:\n%s" % (n, out[-3000:]))

class TranslatorError(Exception):
    pass

def coq_project():
    """(re)generate _CoqProject and Makefile when the set of .v files changed"""
    vs = []
    for root, dirs, files in os.walk(COQ):
        for f in files:
            if f.endswith(".v"):
                vs.append(os.path.relpath(os.path.join(root, f), COQ))
    txt = "-Q . LA\n" + "\n".join(sorted(vs)) + "\n"
    cp = os.path.join(COQ, "_CoqProject")
    old = open(cp).read() if os.path.exists(cp) else None
    if old != txt or not os.path.exists(os.path.join(COQ, "Makefile")):
        open(cp, "w").write(txt)
        sh("coq_makefile -f _CoqProject -o Makefile", cwd=COQ, check=True, timeout=120)

def coq_make(targets, timeout=1500, keep_going=True):
    os.makedirs(MLGEN, exist_ok=True)
    with Lock("coq"):
        coq_project()
        cmd = ["make", "-j16"] + (["-k"] if keep_going else []) + list(targets)
        t0 = time.time()
        try:
            rc, out = sh(cmd, cwd=COQ, timeout=timeout)
        except subprocess.TimeoutExpired:
            rc, out = 124, "make timed out after %ds" % timeout
        return rc, out, time.time() - t0

def coq_check_property(pid, timeout=1500):
    """Re-check coq/Properties_<pid>.v (and whatever it depends on that is out of date).
    Returns dict(obligations, discharged, theorems, assumptions, ok, log, cmd, broken)."""
    vfile = os.path.join(COQ, "Properties_%s.v" % pid)
    src = open(vfile).read()
    theorems = re.findall(r"^\s*(?:Theorem|Lemma)\s+([A-Za-z0-9_']+)", src, flags=re.M)
    vo = vfile + "o"
    with Lock("coqprop-" + pid):
        if os.path.exists(vo):
            os.remove(vo)      # force the kernel to re-check the property file itself on every run
        rc, out, secs = coq_make(["Properties_%s.vo" % pid], timeout=timeout)
    ok = rc == 0 and os.path.exists(vo)
    assumptions = {}
    # output of 'Print Assumptions thm.' follows in order of appearance
    pa = re.findall(r"Print Assumptions\s+([A-Za-z0-9_'.]+)\s*\.", src)
    chunks = re.split(r"(?m)^(?=Closed under the global context|Axioms:)", out)
    chunks = [c for c in chunks if c.startswith("Closed under") or c.startswith("Axioms:")]
    for name, c in zip(pa, chunks):
        if c.startswith("Closed under"):
            assumptions[name] = "closed"
        else:
            axs = re.findall(r"^([A-Za-z0-9_.']+)\s*:", c, flags=re.M)
            assumptions[name] = "axioms: " + ", ".join(a for a in axs if a != "Axioms")
    broken = []
    discharged = len(theorems) if ok else 0
    if not ok:
        m = re.search(r'File "\./?([^"]+)", line (\d+)', out)
        where = "%s:%s" % (m.group(1), m.group(2)) if m else "unknown location"
        if m and m.group(1).endswith("Properties_%s.v" % pid):
            ln = int(m.group(2))
            # theorems stated before the failing line were accepted
            discharged = 0
            for tm in re.finditer(r"^\s*(?:Theorem|Lemma)\s+([A-Za-z0-9_']+)", src, flags=re.M):
                line_of = src.count("\n", 0, tm.start()) + 1
                end = src.find("Qed.", tm.start())
                end_line = src.count("\n", 0, end) + 1 if end >= 0 else 10**9
                if end_line < ln:
                    discharged += 1
                elif line_of <= ln <= end_line:
                    broken.append(tm.group(1))
        if not broken:
            broken.append("dependency of Properties_%s (%s)" % (pid, where))
    return dict(obligations=len(theorems), discharged=discharged, theorems=theorems,
                assumptions=assumptions, ok=ok, log=out[-6000:], secs=secs, broken=broken,
                cmd="cd /verif/coq && rm -f Properties_%s.vo && make -j16 -k Properties_%s.vo" % (pid, pid))

def build_runner(family, timeout=900):
    """extract (if needed) and compile the OCaml model runner for a family; returns exe path"""
    cap = family[0].upper() + family[1:]
    rc, out, _ = coq_make(["Extract/Extract%s.vo" % cap], timeout=timeout)
    model = os.path.join(MLGEN, family + "_model.ml")
    if rc != 0 or not os.path.exists(model):
        raise ModelError("extraction of model family %s failed:\n%s" % (family, out[-3000:]))
    exe = os.path.join(MLGEN, family + "_runner")
    with Lock("ml-" + family):
        body = os.path.join(VERIF, "ml", "driver_body.ml")
        newest = max(os.path.getmtime(model), os.path.getmtime(body))
        if not os.path.exists(exe) or os.path.getmtime(exe) < newest:
            src = os.path.join(MLGEN, family + "_runner.ml")
            with open(src, "w") as f:
                f.write(open(model).read())
                f.write("\n")
                f.write(open(body).read())
            rc, out = sh(["ocamlfind", "ocamlopt", "-w", "-a", "-O2", src, "-o", exe], cwd=MLGEN, timeout=600)
            if rc != 0:
                raise ModelError("compiling runner %s failed:\n%s" % (family, out[-3000:]))
    return exe

class ModelError(Exception):
    pass

# ---------------------------------------------------------------- running cases
def write_cases(lines, name="cases.txt"):
    p = os.path.join(scratch(), name)
    with open(p, "w") as f:
        for l in lines:
            f.write(l + "\n")
    return p

def run_exe(exe, cases_path, timeout=900, env=None, args=()):
    """returns (rc, list of output lines, stderr text)"""
    e = dict(os.environ)
    e.setdefault("ASAN_OPTIONS", "detect_leaks=1:abort_on_error=0:exitcode=99")
    e.setdefault("UBSAN_OPTIONS", "print_stacktrace=1:halt_on_error=1:exitcode=98")
    if env:
        e.update(env)
    try:
        p = subprocess.run([exe, cases_path] + list(args), stdout=subprocess.PIPE, stderr=subprocess.PIPE,
                           timeout=timeout, env=e)
    except subprocess.TimeoutExpired as ex:
        out = (ex.stdout or b"").decode("utf-8", "replace")
        return 124, [l for l in out.split("\n") if l], "TIMEOUT after %ds" % timeout
    out = p.stdout.decode("utf-8", "replace")
    lines = [l for l in out.split("\n") if l and not l.startswith("WARNING conda")]
    return p.returncode, lines, p.stderr.decode("utf-8", "replace")

# ---------------------------------------------------------------- val syntax (python side)
def vfmt(v):
    if isinstance(v, bool):
        return "1" if v else "0"
    if isinstance(v, int):
        return ("-%x" % -v) if v < 0 else ("%x" % v)
    if isinstance(v, (bytes, bytearray)):
        return "x" + bytes(v).hex()
    if isinstance(v, str):
        return "x" + v.encode("utf-8").hex()
    if v is None:
        return "()"
    return "(" + " ".join(vfmt(x) for x in v) + ")"

def vparse(s):
    pos = 0
    n = len(s)
    def value():
        nonlocal pos
        while pos < n and s[pos] in " \t\r":
            pos += 1
        if s[pos] == "(":
            pos += 1
            items = []
            while True:
                while pos < n and s[pos] in " \t\r":
                    pos += 1
                if s[pos] == ")":
                    pos += 1
                    return items
                items.append(value())
        st = pos
        while pos < n and s[pos] not in " ()\t\r":
            pos += 1
        tok = s[st:pos]
        if tok.startswith("x"):
            return bytes.fromhex(tok[1:])
        return -int(tok[1:], 16) if tok.startswith("-") else int(tok, 16)
    return value()

# ---------------------------------------------------------------- findings / reporting
def load_findings():
    p = os.path.join(VERIF, "known_findings.json")
    if not os.path.exists(p):
        return []
    return json.load(open(p)).get("findings", [])

class Report:
    """collects violations, prints KNOWN-FINDING / VIOLATION lines, writes evidence"""
    def __init__(self, pid, tier, seed):
        self.pid, self.tier, self.seed = pid, tier, seed
        self.t0 = time.time()
        self.violations = []      # (key, description, replay dict, found_input: bool)
        self.known_hit = {}
        self.coverage = {}
        self.assumptions = []
        self.known = [f for f in load_findings() if f.get("property") == pid and f.get("status", "known") == "known"]
        self.notes = []

    def violation(self, key, what, replay, found_input=True):
        """key identifies the failing input class / call site / history"""
        for f in self.known:
            if key == f["key"] or key.startswith(f["key"] + ":"):
                self.known_hit.setdefault(f["key"], (f, what, replay))
                return
        self.violations.append((key, what, replay, found_input))

    def finish(self, level="proof"):
        wall = time.time() - self.t0
        # evidence of a run against another tree (VERIF_REPO: a seeded change, a reverted fix) is an experiment's
        # record: it goes to the shadow of that tree and never replaces /verif/evidence/<id>.json
        EV = os.path.join(ROOT, "evidence")
        os.makedirs(os.path.join(EV, "replays"), exist_ok=True)
        for k, (f, what, replay) in sorted(self.known_hit.items()):
            print("KNOWN-FINDING: property=%s %s -- %s" % (self.pid, k, f.get("what", what)))
        seen = set()
        nviol = 0
        if any(v[3] for v in self.violations):
            # a concrete failing input was found: the broken-correspondence / broken-proof entries it explains are dropped
            self.violations = [v for v in self.violations if v[3]]
        for key, what, replay, found in self.violations:
            if key in seen:
                continue
            seen.add(key)
            nviol += 1
            h = hashlib.sha1((key + json.dumps(replay, sort_keys=True, default=str)).encode()).hexdigest()[:10]
            rp = os.path.join(EV, "replays", "%s-%s.json" % (self.pid, h))
            json.dump(dict(property=self.pid, key=key, what=what, found_failing_input=found, replay=replay,
                           seed=self.seed, tier=self.tier), open(rp, "w"), indent=1, default=str)
            print("VIOLATION property=%s replay=%s %s%s" % (self.pid, rp, what.replace("\n", " ")[:300],
                                                            "" if found else " no-failing-input-found"))
        cov = dict(self.coverage)
        cov["known_findings_reproduced"] = sorted(self.known_hit.keys())
        ev = dict(property_id=self.pid, tier=self.tier, seed=self.seed, level=level, coverage=cov,
                  assumptions=self.assumptions, wall_s=round(wall, 2), violations=nviol)
        # a replay of one recorded input must not replace the evidence of the last full run
        out = os.path.join(EV, "replays", self.pid + "-last-replay.json") if getattr(self, "is_replay", False) \
            else os.path.join(EV, self.pid + ".json")
        json.dump(ev, open(out, "w"), indent=1, default=str)
        sys.stdout.flush()
        return 1 if nviol else 0

TRUSTED_BASE_COMMON = [
    "Coq 8.16.1 kernel (coqc), vm_compute bytecode VM; no native_compute; no axioms declared by this development",
    "hand-written Gallina model <-> C code tie is the correspondence check of this run (differential, not a proof)",
    "extraction: ExtrOcamlBasic only (Extract Inductive bool/option/unit/list/prod/sumbool/sumor; Extract Inlined Constant andb/orb/negb... as in that file); OCaml 4.13.1 ocamlopt; ml/driver_body.ml",
    "translators/*.py (textual #define / table extraction) for coq/Gen/*.v",
    "gcc 12 + harness/*.c + harness/val.h decide what is compared",
]

def distinct_count(items):
    return len(set(hashlib.sha1(i.encode()).hexdigest() for i in items))

def rng(seed, salt=""):
    return random.Random("%s/%s" % (seed, salt))

# ---------------------------------------------------------------- correspondence
def run_model_sharded(runner, cases, name, timeout, shards=12):
    """The extracted model is a pure function of one case line, so a large case list is evaluated by several
    runner processes side by side; the output is the concatenation in case order (cut at the first shard that failed)."""
    import concurrent.futures
    per = (len(cases) + shards - 1) // shards
    chunks = [cases[a:a + per] for a in range(0, len(cases), per)]
    paths = [write_cases(c, "%s-model-%d.cases" % (name, i)) for i, c in enumerate(chunks)]
    with concurrent.futures.ThreadPoolExecutor(max_workers=shards) as ex:
        res = list(ex.map(lambda p: run_exe(runner, p, timeout=timeout), paths))
    lines = []
    for (rc, ls, err), c in zip(res, chunks):
        lines += ls[:len(c)]
        if rc != 0 or len(ls) != len(c):
            return (rc if rc != 0 else 1), lines, err
    return 0, lines, ""

def correspond(rep, name, runner, impl_exe, cases, oracle=None, impl_env=None, timeout=900,
               model_filter=None, impl_args=()):
    """Run the extracted model and the implementation harness on the same case lines and diff.
    oracle(case_line, impl_line) -> None | (key, description): the property itself, evaluated on
    what the implementation did (independent of the model).  Returns stats dict."""
    path = write_cases(cases, name + ".cases")
    rc_m, m_lines, m_err = run_model_sharded(runner, cases, name, timeout) if len(cases) > 4000 else run_exe(runner, path, timeout=timeout)
    rc_i, i_lines, i_err = run_exe(impl_exe, path, timeout=timeout, env=impl_env, args=impl_args)
    stats = dict(name=name, cases=len(cases), agree=0, disagree=0, oracle_hits=0, impl_rc=rc_i)
    if rc_m != 0 or len(m_lines) != len(cases):
        rep.violation("corr:%s:model-runner" % name,
                      "model runner failed (rc=%s, %d/%d lines): %s" % (rc_m, len(m_lines), len(cases), m_err[-300:]),
                      dict(correspondence=name, stage="model"), found_input=False)
        return stats
    if rc_i != 0 or len(i_lines) != len(cases):
        k = min(len(i_lines), len(cases) - 1)
        summ = [l for l in i_err.split("\n") if "ERROR: " in l or "SUMMARY" in l or "runtime error" in l or "TIMEOUT" in l]
        rep.violation("crash:%s:%s" % (name, crash_key(i_err)),
                      "implementation harness %s stopped (rc=%s) on case #%d: %s" % (name, rc_i, k, "; ".join(summ)[:400]),
                      dict(correspondence=name, case=cases[k] if cases else None, stderr=i_err[-3000:],
                           cmd="harness %s on the case line" % name), found_input=True)
    first_dis = None
    for k, c in enumerate(cases[:len(i_lines)]):
        il, ml = i_lines[k], m_lines[k]
        hit = oracle(c, il) if oracle else None
        if hit:
            stats["oracle_hits"] += 1
            rep.violation(hit[0], hit[1], dict(correspondence=name, case=c, impl=il, model=ml,
                                               cmd="harness %s on the case line" % name), found_input=True)
        if il == ml:
            stats["agree"] += 1
        else:
            stats["disagree"] += 1
            if first_dis is None and not hit:
                first_dis = (k, c, il, ml)
    if first_dis is not None:
        k, c, il, ml = first_dis
        # the correspondence no longer checks and the property oracle found nothing on these inputs
        rep.violation("corr:%s" % name,
                      "model and implementation disagree on %d/%d cases of correspondence '%s' (first: case #%d)" %
                      (stats["disagree"], len(cases), name, k),
                      dict(correspondence=name, broken="correspondence %s (model family runner vs harness)" % name,
                           case=c, impl=il, model=ml), found_input=False)
    return stats

def crash_key(stderr):
    m = re.search(r"ERROR: AddressSanitizer: ([a-z\-]+)", stderr)
    if m:
        loc = re.search(r"#\d+ 0x[0-9a-f]+ in (\w+) .*?/libarchive/([\w.]+):(\d+)", stderr)
        return m.group(1) + (":" + loc.group(1) if loc else "")
    m = re.search(r"([\w./]+):(\d+):\d+: runtime error: (.*)", stderr)
    if m:
        return "ubsan:" + os.path.basename(m.group(1))
    if "LeakSanitizer" in stderr:
        loc = re.search(r"#\d+ 0x[0-9a-f]+ in (\w+) .*?/libarchive/", stderr)
        return "leak" + (":" + loc.group(1) if loc else "")
    if "TIMEOUT" in stderr:
        return "timeout"
    return "abnormal-exit"

def proof_part(rep, pid, translators=()):
    """translators -> Coq re-check of Properties_<pid>.v ; fills coverage; returns the result dict.
    A broken obligation is recorded but turned into a verdict by the caller (after the search)."""
    try:
        run_translators(translators)
    except TranslatorError as ex:
        rep.violation("translator", str(ex)[:400], dict(broken="translator for " + pid), found_input=False)
    r = coq_check_property(pid)
    rep.coverage.update(obligations=r["obligations"], discharged=r["discharged"], checker_cmd=r["cmd"],
                        theorems=r["theorems"], print_assumptions=r["assumptions"], coq_secs=round(r["secs"], 1),
                        trusted_base=list(TRUSTED_BASE_COMMON))
    nonclosed = {k: v for k, v in r["assumptions"].items() if v != "closed"}
    if nonclosed:
        rep.coverage["trusted_base"].append("axioms reported by Print Assumptions: %s" % nonclosed)
    else:
        rep.coverage["trusted_base"].append("Print Assumptions: every property theorem is closed under the global context")
    return r

def proof_verdict(rep, pid, r):
    """call after the correspondence/search: a broken obligation with no failing input found"""
    if not r["ok"]:
        found = any(v[3] for v in rep.violations) or bool(rep.known_hit and False)
        if not found:
            rep.violation("proof:%s" % ",".join(r["broken"]),
                          "Coq obligation no longer checks: %s" % "; ".join(r["broken"]),
                          dict(broken_theorems=r["broken"], log=r["log"][-2500:], cmd=r["cmd"]), found_input=False)

def load_corpus(pid, suffix=""):
    """minimised failing cases kept from earlier runs; they run first"""
    p = os.path.join(VERIF, "corpus", pid + suffix + ".txt")
    if not os.path.exists(p):
        return []
    return [l.rstrip("\n") for l in open(p) if l.strip() and not l.startswith("#")]
