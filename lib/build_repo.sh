#!/bin/bash
# Build /repo's CURRENT working tree (hooks enabled) into /verif/.cache/build-<variant>.
#   usage: build_repo.sh <plain|asan|tsan> [ninja targets...]      (default target: archive_static)
# The CMake configure step is done once per variant and reused; ninja then recompiles whatever
# changed under /repo since the last run (mtime based), so every check sees the sources as they
# are now.  Serialised with flock so parallel checks do not race on one build directory.
set -e
VARIANT="${1:-plain}"; shift || true
TARGETS="${*:-archive_static}"
VERIF="$(cd "$(dirname "$0")/.." && pwd)"
REPO="${VERIF_REPO:-/repo}"
if [ "$REPO" = "/repo" ]; then TAG=""; else TAG="-$(echo -n "$REPO" | sha1sum | cut -c1-8)"; fi
B="$VERIF/.cache/build-$VARIANT$TAG"
mkdir -p "$VERIF/.cache"
case "$VARIANT" in
  plain) CFLAGS_X="-O1 -g -DLIBARCHIVE_VERIF_HOOKS" ;;
  asan)  CFLAGS_X="-O1 -g -fno-omit-frame-pointer -fsanitize=address,undefined -fno-sanitize-recover=undefined -DLIBARCHIVE_VERIF_HOOKS" ;;
  tsan)  CFLAGS_X="-O1 -g -fsanitize=thread -DLIBARCHIVE_VERIF_HOOKS" ;;
  *) echo "unknown variant $VARIANT" >&2; exit 2 ;;
esac
exec 9>"$VERIF/.cache/build-$VARIANT$TAG.lock"
flock 9
if [ ! -f "$B/build.ninja" ]; then
  rm -rf "$B"
  cmake -G Ninja -S "$REPO" -B "$B" -DENABLE_TEST=OFF -DCMAKE_BUILD_TYPE=None \
        -DENABLE_WERROR=OFF -DCMAKE_C_FLAGS="$CFLAGS_X" > "$B.configure.log" 2>&1 || { cat "$B.configure.log" >&2; exit 2; }
fi
python3 "$VERIF/lib/srcsync.py" "$REPO" "$B"
if ! ninja -C "$B" $TARGETS > "$B.build.log" 2>&1; then
  # a stale configure (CMakeLists changed) is the usual cause: reconfigure once
  tail -30 "$B.build.log" >&2
  exit 2
fi
echo "$B"
