(* C20 - Passphrase-protected entries decrypt only with the right passphrase.
   Property theorems only; each is closed by [exact] of a lemma of Crypto/CryptoProofs.v.

   What is proved is libarchive's OWN logic: the traditional PKWARE stream cipher (round trip, partition
   independence, 12-byte header with check byte), the AES-CTR driver of archive_cryptor.c for an ARBITRARY
   block cipher E (keystream position, little-endian 8-byte counter starting at 1, block-border cases,
   involution), the passphrase candidate list, and the reader's accept/reject decisions over ARBITRARY
   PBKDF2 / HMAC functions.  Not covered (outside the model, see DESIGN.md 5/C20 "Partial"): the
   cryptographic strength of AES / PBKDF2-SHA1 / HMAC-SHA1 / the PKWARE cipher, the probability 1/256
   (check byte) resp. 2^-16 (verification value) that a wrong passphrase passes the first test (the theorems
   say what happens THEN: CRC resp. authentication-code test), archive_random, deflate. *)
From Coq Require Import List ZArith NArith Bool.
From LA Require Import Base.Val Gen.Defines Crypto.CryptoDefs Crypto.CryptoProofs.
Import ListNotations.
Local Open Scope N_scope.

(* ---------------------------------------------------------------- traditional PKWARE cipher *)

(* For all passwords, bodies, partitions of the body into encrypt_update calls and partitions of the
   ciphertext into decrypt_update calls (each call with an output buffer at least as long as its input, as at
   every call site): decryption returns the body, and both sides end with identical keys. *)
Theorem C20_trad_roundtrip : forall pw ce cd k' cipher,
  Forall chunk_ok ce -> Forall chunk_ok cd ->
  trad_encrypt_chunks (trad_init pw) ce = (k', cipher) ->
  body_of cd = cipher ->
  trad_decrypt_chunks (trad_init pw) cd = (k', body_of ce).
Proof. exact trad_roundtrip. Qed.
Print Assumptions C20_trad_roundtrip.

Theorem C20_trad_partition_independent : forall k c1 c2,
  Forall chunk_ok c1 -> Forall chunk_ok c2 -> body_of c1 = body_of c2 ->
  trad_encrypt_chunks k c1 = trad_encrypt_chunks k c2.
Proof. exact trad_partition_independent. Qed.
Print Assumptions C20_trad_partition_independent.

(* the reader given the writer's passphrase recovers the check byte from the 12-byte header and continues with
   the writer's keys *)
Theorem C20_trad_header_roundtrip : forall pw rnd11 chk kw hdr,
  length rnd11 = 11%nat ->
  trad_write_header pw rnd11 chk = (kw, hdr) ->
  forall old, trad_init_reader old pw hdr = (0%Z, chk, kw).
Proof. exact trad_header_roundtrip. Qed.
Print Assumptions C20_trad_header_roundtrip.

(* whole entry: header, body, CRC; the writer's passphrase being the first candidate *)
Theorem C20_trad_entry_roundtrip : forall pw rnd11 chk body ps rest,
  length rnd11 = 11%nat -> cand ps = (-1)%Z -> items ps = pw :: rest ->
  let r := read_trad_entry ps (write_trad_entry pw rnd11 chk body) in
  r_status r = ARCHIVE_OK /\ r_data r = body /\ r_err r = ErrNone /\ items (r_ps r) = pw :: rest.
Proof. exact trad_entry_roundtrip. Qed.
Print Assumptions C20_trad_entry_roundtrip.

(* ARCHIVE_OK only if a candidate reproduces the check byte AND the CRC-32 of the decrypted bytes is the
   recorded one: a wrong passphrase that passes the 1/256 check byte is still caught at the end of the entry *)
Theorem C20_trad_ok_only_if : forall ps e,
  r_status (read_trad_entry ps e) = ARCHIVE_OK ->
  exists pw old k, In pw (pool ps) /\ trad_init_reader old pw (te_hdr e) = (0%Z, te_decdat e, k) /\
    zcrc32 0 (snd (trad_decrypt_update k (te_cipher e) (length (te_cipher e)))) = te_crc e /\
    r_data (read_trad_entry ps e) = snd (trad_decrypt_update k (te_cipher e) (length (te_cipher e))).
Proof. exact trad_ok_only_if. Qed.
Print Assumptions C20_trad_ok_only_if.

Theorem C20_trad_wrong_check_is_error : forall ps e,
  (forall pw old, In pw (pool ps) -> snd (fst (trad_init_reader old pw (te_hdr e))) <> te_decdat e) ->
  let r := read_trad_entry ps e in
  r_status r = ARCHIVE_FAILED /\ r_data r = [].
Proof. exact trad_wrong_check_is_error. Qed.
Print Assumptions C20_trad_wrong_check_is_error.

(* ---------------------------------------------------------------- AES-CTR driver, any block cipher E *)

(* aes_ctr_increase_counter: the first 8 bytes are a little-endian counter wrapping at 2^64; bytes 8..15 stay *)
Theorem C20_counter_little_endian : forall m, incr_le 8 (cblock m) = cblock (S m).
Proof. exact cblock_incr. Qed.
Print Assumptions C20_counter_little_endian.

(* For every key of legal length and every partition into update calls: output = body xor keystream, where
   keystream byte i is byte (i mod 16) of E(key, counter block i/16 + 1) - the first block uses counter 1. *)
Theorem C20_ctr_keystream : forall E key c0 chunks,
  aes_ctr_init key = Some c0 -> Forall chunk_ok chunks ->
  exists c', ctr_chunks E c0 chunks = Some (c', xor_ks E key 0 (body_of chunks)) /\
    length (xor_ks E key 0 (body_of chunks)) = length (body_of chunks) /\
    forall i, (i < length (body_of chunks))%nat ->
      nth i (xor_ks E key 0 (body_of chunks)) 0 =
      N.lxor (nth i (body_of chunks) 0) (nth (i mod 16) (E key (cblock (i / 16 + 1))) 0).
Proof. exact ctr_keystream. Qed.
Print Assumptions C20_ctr_keystream.

Theorem C20_ctr_partition_independent : forall E key c0 c1 c2 r1 r2,
  aes_ctr_init key = Some c0 -> Forall chunk_ok c1 -> Forall chunk_ok c2 -> body_of c1 = body_of c2 ->
  ctr_chunks E c0 c1 = Some r1 -> ctr_chunks E c0 c2 = Some r2 -> snd r1 = snd r2.
Proof. exact ctr_partition_independent. Qed.
Print Assumptions C20_ctr_partition_independent.

Theorem C20_ctr_involutive : forall E key c0 ce cd,
  aes_ctr_init key = Some c0 -> Forall chunk_ok ce -> Forall chunk_ok cd ->
  exists c1 cipher, ctr_chunks E c0 ce = Some (c1, cipher) /\
    (body_of cd = cipher -> exists c2, ctr_chunks E c0 cd = Some (c2, body_of ce)).
Proof. exact ctr_involutive. Qed.
Print Assumptions C20_ctr_involutive.

(* ---------------------------------------------------------------- passphrase candidate list *)

(* Between a reset and exhaustion the candidates are the list items in order; the call after the last item
   finds the list in its original order again and then asks the callback (if any). *)
Theorem C20_candidates_complete : forall s,
  exists s1,
    next_n (length (items s)) (reset_passphrase s) = (s1, map Some (items s)) /\
    has_cb s1 = has_cb s /\ cb_script s1 = cb_script s /\
    next_passphrase s1 = ask_callback s (items s) 0.
Proof. exact candidates_complete. Qed.
Print Assumptions C20_candidates_complete.

Theorem C20_candidates_no_callback : forall s, has_cb s = false ->
  exists s',
    next_n (S (length (items s))) (reset_passphrase s) = (s', map Some (items s) ++ [None]) /\
    items s' = items s /\ cand s' = 0%Z /\ next_passphrase s' = (s', None).
Proof. exact candidates_no_callback. Qed.
Print Assumptions C20_candidates_no_callback.

Theorem C20_candidates_then_callback : forall s pw rest, has_cb s = true -> cb_script s = Some pw :: rest ->
  exists s',
    next_n (S (length (items s))) (reset_passphrase s) = (s', map Some (items s) ++ [Some pw]) /\
    items s' = pw :: items s /\ cand s' = 1%Z /\ cb_script s' = rest /\
    next_passphrase s' = ask_callback s' (items s ++ [pw]) 0.
Proof. exact candidates_then_callback. Qed.
Print Assumptions C20_candidates_then_callback.

(* the candidate that works is first in the list afterwards *)
Theorem C20_candidate_success_first : forall s k pw,
  nth_error (items s) k = Some pw ->
  exists s',
    next_n (S k) (reset_passphrase s) = (s', map Some (firstn (S k) (items s))) /\
    items s' = skipn k (items s) ++ firstn k (items s) /\
    hd_error (items s') = Some pw /\
    nth_error (map Some (firstn (S k) (items s))) k = Some (Some pw).
Proof. exact candidate_success_first. Qed.
Print Assumptions C20_candidate_success_first.

(* candidate <= number of items is an invariant: candidate == 1 implies a non-empty list (the C code
   dereferences first->next in that branch) *)
Theorem C20_candidate_in_bounds : forall s s' r, cand_ok s -> next_passphrase s = (s', r) -> cand_ok s'.
Proof. exact next_passphrase_cand_ok. Qed.
Print Assumptions C20_candidate_in_bounds.

(* ---------------------------------------------------------------- reader decisions, any PBKDF2 / HMAC / E *)

Theorem C20_aes_ok_only_if : forall pbkdf2 hmac E ps e,
  r_status (read_aes_entry pbkdf2 hmac E ps e) = ARCHIVE_OK ->
  exists pw slen klen,
    In pw (pool ps) /\ aes_lens (ae_strength e) = Some (slen, klen) /\
    let dk := pbkdf2 pw (ae_salt e) (2 * klen + 2)%nat in
    pv_ok dk klen (ae_pv e) = true /\
    bytes_eqb (firstn AUTH_CODE_SIZE (hmac (firstn klen (skipn klen dk)) (ae_cipher e))) (ae_mac e) = true.
Proof. exact aes_ok_only_if. Qed.
Print Assumptions C20_aes_ok_only_if.

(* no candidate (list items and callback answers) has the stored verification value:
   ARCHIVE_FAILED, "Passphrase required" / "Incorrect passphrase", and not one byte handed out *)
Theorem C20_wrong_verifier_is_error : forall pbkdf2 hmac E ps e slen klen,
  aes_lens (ae_strength e) = Some (slen, klen) ->
  (forall pw, In pw (pool ps) -> pv_ok (pbkdf2 pw (ae_salt e) (2 * klen + 2)%nat) klen (ae_pv e) = false) ->
  let r := read_aes_entry pbkdf2 hmac E ps e in
  r_status r = ARCHIVE_FAILED /\ r_data r = [] /\
  (r_err r = ErrRequired \/ r_err r = ErrIncorrect \/ r_err r = ErrTooMany \/ r_err r = ErrCrypto).
Proof. exact wrong_verifier_is_error. Qed.
Print Assumptions C20_wrong_verifier_is_error.

(* authentication code mismatch: the entry ends below ARCHIVE_OK.  NOTE the status is ARCHIVE_WARN (-20), as in
   check_authentication_code, not ARCHIVE_FAILED. *)
Theorem C20_mac_mismatch_is_error : forall pbkdf2 hmac E ps e slen klen ps1 dk,
  aes_lens (ae_strength e) = Some (slen, klen) ->
  aes_try pbkdf2 TRY_FUEL 0 ps klen e = (ps1, inr dk) ->
  bytes_eqb (firstn AUTH_CODE_SIZE (hmac (firstn klen (skipn klen dk)) (ae_cipher e))) (ae_mac e) = false ->
  let r := read_aes_entry pbkdf2 hmac E ps e in
  (r_status r = ARCHIVE_WARN /\ r_err r = ErrBadMac) \/ (r_status r = ARCHIVE_FAILED /\ r_err r = ErrCrypto).
Proof. exact mac_mismatch_is_error. Qed.
Print Assumptions C20_mac_mismatch_is_error.

Theorem C20_aes_entry_roundtrip : forall pbkdf2 hmac E strength pw salt body ae2 e ps rest,
  write_aes_entry pbkdf2 hmac E strength pw salt body ae2 = Some e ->
  cand ps = (-1)%Z -> items ps = pw :: rest ->
  let r := read_aes_entry pbkdf2 hmac E ps e in
  r_status r = ARCHIVE_OK /\ r_data r = body /\ r_err r = ErrNone /\ items (r_ps r) = pw :: rest.
Proof. exact aes_entry_roundtrip. Qed.
Print Assumptions C20_aes_entry_roundtrip.

(* a list with up to 10000 wrong passphrases first *)
Theorem C20_aes_entry_roundtrip_list : forall pbkdf2 hmac E strength pw salt body ae2 e ps wrong rest slen klen,
  write_aes_entry pbkdf2 hmac E strength pw salt body ae2 = Some e ->
  aes_lens strength = Some (slen, klen) ->
  cand ps = (-1)%Z -> items ps = wrong ++ pw :: rest ->
  (forall w, In w wrong -> pv_ok (pbkdf2 w salt (2 * klen + 2)%nat) klen (ae_pv e) = false) ->
  N.of_nat (length wrong) <= 10000 ->
  let r := read_aes_entry pbkdf2 hmac E ps e in
  r_status r = ARCHIVE_OK /\ r_data r = body /\ r_err r = ErrNone /\ items (r_ps r) = pw :: rest ++ wrong.
Proof. exact aes_entry_roundtrip_list. Qed.
Print Assumptions C20_aes_entry_roundtrip_list.

Theorem C20_crc_table_generated : crc_table = crc_table_gen /\ length crc_table = 256%nat.
Proof. split; [exact crc_table_is_generated | exact crc_table_length]. Qed.
Print Assumptions C20_crc_table_generated.

(* ---------------------------------------------------------------- non-vacuity: concrete values *)

(* CRC-32 check value of "123456789" *)
Example C20_ex_crc : zcrc32 0 [49; 50; 51; 52; 53; 54; 55; 56; 57] = 3421780262.
Proof. vm_compute. reflexivity. Qed.

(* Bytes and final keys produced by the REAL trad_enc_init / trad_enc_encrypt_update of
   archive_write_set_format_zip.c (through harness/crypto.c) for password "password", header random bytes
   00..0a, check byte 0x5a, body "hello world": header ee10ed7753936e6b5c6614a6, ciphertext
   aa2624e4778f8787b55652, keys 4be01629 1cca2a92 fe666bc6. *)
Definition ex_pw : list N := [112; 97; 115; 115; 119; 111; 114; 100].
Definition ex_body : list N := [104; 101; 108; 108; 111; 32; 119; 111; 114; 108; 100].
Example C20_ex_trad_vector :
  let '(k, hdr) := trad_write_header ex_pw [0; 1; 2; 3; 4; 5; 6; 7; 8; 9; 10] 90 in
  let '(k', c) := trad_encrypt_chunks k [(firstn 3 ex_body, 3%nat); ([], 0%nat); (skipn 3 ex_body, 9%nat)] in
  hdr = [238; 16; 237; 119; 83; 147; 110; 107; 92; 102; 20; 166] /\ c = [170; 38; 36; 228; 119; 143; 135; 135; 181; 86; 82] /\
  k' = mkKeys 1272976937 483011218 4268125126 /\
  trad_init_reader (mkKeys 0 0 0) ex_pw hdr = (0%Z, 90, k) /\
  snd (trad_decrypt_chunks k [(firstn 1 c, 1%nat); (skipn 1 c, 10%nat)]) = ex_body /\
  (* the real reader with "Password" gets check byte 0xd1, not 0x5a *)
  snd (fst (trad_init_reader (mkKeys 0 0 0) (80 :: tl ex_pw) hdr)) = 209.
Proof. vm_compute. repeat split; reflexivity. Qed.

(* AES-128 under key 00..0f (values of the real cipher for counter blocks 1 and 2, from OpenSSL through the
   harness); output of the real aes_ctr_update for body 00..13 is e37dd160d97981a792f604356ced928deb9bf108 *)
Definition ex_key : list N := [0; 1; 2; 3; 4; 5; 6; 7; 8; 9; 10; 11; 12; 13; 14; 15].
Definition ex_E (k b : list N) : list N :=
  if bytes_eqb b (1 :: repeat 0 15) then [227; 124; 211; 99; 221; 124; 135; 160; 154; 255; 14; 62; 96; 224; 156; 130]
  else if bytes_eqb b (2 :: repeat 0 15) then [251; 138; 227; 27; 165; 219; 156; 173; 151; 54; 77; 135; 34; 212; 115; 38]
  else repeat 0 16.
Definition ex_body20 : list N := [0; 1; 2; 3; 4; 5; 6; 7; 8; 9; 10; 11; 12; 13; 14; 15; 16; 17; 18; 19].
Example C20_ex_ctr_vector :
  match aes_ctr_init ex_key with
  | Some c0 =>
    match ctr_chunks ex_E c0 [(firstn 5 ex_body20, 5%nat); (skipn 5 ex_body20, 15%nat)],
          ctr_chunks ex_E c0 [(firstn 16 ex_body20, 16%nat); (skipn 16 ex_body20, 4%nat)] with
    | Some (c1, o1), Some (c2, o2) =>
      o1 = [227; 125; 209; 96; 217; 121; 129; 167; 146; 246; 4; 53; 108; 237; 146; 141; 235; 155; 241; 8] /\ o2 = o1 /\ nonce c1 = cblock 2 /\ epos c1 = 4%nat /\ epos c2 = 4%nat /\
      match ctr_chunks ex_E c0 [(o1, 20%nat)] with Some (_, back) => back = ex_body20 | None => False end
    | _, _ => False
    end
  | None => False
  end.
Proof. vm_compute. repeat split; reflexivity. Qed.

(* the counter really carries into the second byte and wraps at 2^64 without touching byte 8 *)
Example C20_ex_counter :
  incr_le 8 (255 :: repeat 0 15) = 0 :: 1 :: repeat 0 14 /\
  incr_le 8 (repeat 255 8 ++ repeat 7 8) = repeat 0 8 ++ repeat 7 8 /\
  aes_ctr_init (repeat 0 15) = None.
Proof. vm_compute. repeat split; reflexivity. Qed.

(* passphrase list [A; B; C]: a full failed cycle, then success of B *)
Example C20_ex_candidates :
  let s := mkPstate [[65]; [66]; [67]] 0 false [] in
  let '(s1, r1) := next_n 5 (reset_passphrase s) in
  let '(s2, r2) := next_n 2 (reset_passphrase s1) in
  let '(s3, r3) := next_n 1 (reset_passphrase s2) in
  r1 = [Some [65]; Some [66]; Some [67]; None; None] /\ items s1 = [[65]; [66]; [67]] /\
  r2 = [Some [65]; Some [66]] /\ items s2 = [[66]; [67]; [65]] /\
  r3 = [Some [66]] /\
  (* with a callback answering X then NULL *)
  let '(s4, r4) := next_n 6 (reset_passphrase (set_callback s [Some [88]; None])) in
  r4 = [Some [65]; Some [66]; Some [67]; Some [88]; None; None] /\ items s4 = [[65]; [66]; [67]; [88]].
Proof. vm_compute. repeat split; reflexivity. Qed.

(* decision logic with toy primitives: the hypotheses of the theorems above are satisfiable *)
Definition sumb (l : list N) : N := fold_left N.add l 0.
Definition toy_kdf (pw salt : list N) (n : nat) : list N :=
  map (fun i => (sumb pw * 7 + sumb salt + N.of_nat i * 13) mod 256) (seq 0 n).
Definition toy_hmac (k m : list N) : list N :=
  map (fun i => (sumb k + 3 * sumb m + N.of_nat i) mod 256) (seq 0 20).
Definition toy_E (k b : list N) : list N := map (fun x => (x * 5 + sumb k + sumb b) mod 256) (map N.of_nat (seq 0 16)).
Definition ex_list (l : list (list N)) : pstate := reset_passphrase (mkPstate l 0 false []).
Example C20_ex_decisions :
  match write_aes_entry toy_kdf toy_hmac toy_E 1 [112; 119] [1; 2; 3; 4; 5; 6; 7; 8] ex_body20 false with
  | None => False
  | Some e =>
    let rd := read_aes_entry toy_kdf toy_hmac toy_E in
    let ok := rd (ex_list [[98; 97; 100]; [110; 111]; [112; 119]]) e in
    let none := rd (ex_list []) e in
    let wrong := rd (ex_list [[98; 97; 100]; [110; 111]]) e in
    let tampered := rd (ex_list [[112; 119]])
                       (mkAesEntry (ae_strength e) (ae_salt e) (ae_pv e) (ae_cipher e) (map (N.lxor 1) (ae_mac e)) (ae_crc e)) in
    ae_cipher e <> ex_body20 /\
    (r_status ok, r_err ok, r_data ok) = (ARCHIVE_OK, ErrNone, ex_body20) /\
    items (r_ps ok) = [[112; 119]; [98; 97; 100]; [110; 111]] /\
    (r_status none, r_err none, r_data none) = (ARCHIVE_FAILED, ErrRequired, []) /\
    (r_status wrong, r_err wrong, r_data wrong) = (ARCHIVE_FAILED, ErrIncorrect, []) /\
    items (r_ps wrong) = [[98; 97; 100]; [110; 111]] /\
    (r_status tampered, r_err tampered) = (ARCHIVE_WARN, ErrBadMac)
  end.
Proof. vm_compute. repeat split; try reflexivity. discriminate. Qed.

Example C20_ex_trad_decisions :
  let e := write_trad_entry ex_pw [0; 1; 2; 3; 4; 5; 6; 7; 8; 9; 10] 90 ex_body in
  let ok := read_trad_entry (ex_list [[120]; ex_pw]) e in
  let wrong := read_trad_entry (ex_list [[120]; [121]]) e in
  let badcrc := read_trad_entry (ex_list [ex_pw]) (mkTradEntry (te_hdr e) (te_decdat e) (te_cipher e) (te_crc e + 1)) in
  (r_status ok, r_err ok, r_data ok) = (ARCHIVE_OK, ErrNone, ex_body) /\ items (r_ps ok) = [ex_pw; [120]] /\
  (r_status wrong, r_err wrong, r_data wrong) = (ARCHIVE_FAILED, ErrIncorrect, []) /\
  (r_status badcrc, r_err badcrc) = (ARCHIVE_FAILED, ErrBadCrc).
Proof. vm_compute. repeat split; reflexivity. Qed.
