(* C11 - Writer output is deterministic and contains no uninitialised bytes.   LEVEL: partial.

   What is proved (byte-level formats ustar, v7tar, gnutar, cpio odc / newc / bin): in the Gallina model the
   stream handed to the write callback is  archive_of f es  - a total function of the format and of the entries
   (with the buffers passed to archive_write_data), with no other input: no clock, pid, random source or prior
   memory occurs in coq/Fmt/*Defs.v.  The theorems below add the facts that make "fully initialised" concrete:
   every header has its fixed length with every position assigned from the template / memset and the field
   writes, everything between the end of the client's data and the next record boundary is zero, and the
   trailer is zero.
   What is NOT provable in Coq: that the C code reads no uninitialised memory.  That part of the property is
   carried by ./check C11: real writers under heap/stack poisoning (byte-identical streams, equal to the model
   bytes for these formats) and valgrind memcheck in the thorough tier. *)
From Coq Require Import List ZArith Bool Lia.
From LA Require Import Gen.Defines Gen.FmtLayout Fmt.FmtNumDefs Fmt.FmtNumProofs Fmt.FmtTarDefs Fmt.FmtBufProofs
  Fmt.FmtTarProofs Fmt.FmtCpioDefs Fmt.FmtCpioProofs Fmt.FmtArDefs Fmt.FmtWriteDefs Fmt.FmtParseDefs Fmt.FmtParseProofs
  Fmt.FmtDetProofs.
Import ListNotations.
Local Open Scope Z_scope.

(* ------------------------------------------------------------------ header lengths *)
Theorem C11_ustar_header_length : forall e tt, length (snd (ustar_header e tt true)) = 512%nat.
Proof. exact ustar_header_length. Qed.
Print Assumptions C11_ustar_header_length.
Theorem C11_v7tar_header_length : forall e, length (snd (v7tar_header e true)) = 512%nat.
Proof. exact v7tar_header_length. Qed.
Print Assumptions C11_v7tar_header_length.
Theorem C11_gnutar_header_length : forall name lk un gn e t, length (snd (gnutar_header name lk un gn e t)) = 512%nat.
Proof. exact gnutar_header_length. Qed.
Print Assumptions C11_gnutar_header_length.
Theorem C11_odc_header_length : forall ino e, length (odc_block ino e) = 76%nat.
Proof. exact odc_block_length. Qed.
Print Assumptions C11_odc_header_length.
Theorem C11_newc_header_length : forall e, length (newc_block e) = 110%nat.
Proof. exact newc_block_length. Qed.
Print Assumptions C11_newc_header_length.
Theorem C11_bin_header_length : forall ino e, length (bin_block ino e) = 26%nat.
Proof. exact bin_block_length. Qed.
Print Assumptions C11_bin_header_length.

(* ------------------------------------------------------------------ every header position is assigned *)
(* string fields: whatever the field does not hold of the string is the template's zero (pad_zero for names) *)
Theorem C11_ustar_uname_field_zero_padded : forall e tt, fst (ustar_header e tt true) = 0 -> tt <> 120 ->
  no_nul (ob (e_uname e)) ->
  cstr (slice R_tar_uname_offset R_tar_uname_size (snd (ustar_header e tt true))) = ob (e_uname e).
Proof. exact ustar_ok_uname. Qed.
Print Assumptions C11_ustar_uname_field_zero_padded.

(* bytes of the header no field ever writes keep the template value: the 12 trailing bytes of a ustar header *)
Theorem C11_ustar_tail_is_template : forall e tt,
  slice USTAR_padding_offset USTAR_padding_size (snd (ustar_header e tt true)) = zeros 12.
Proof.
  intros. change USTAR_padding_offset with 500%nat. change USTAR_padding_size with 12%nat.
  rewrite ustar_untouched.
  - reflexivity.
  - rewrite ustar_fields_shape. unfold_u. away_all.
    eapply Forall_impl; [|apply ustar_name_writes_regions].
    intros w [H|[H1 H2]]; unfold away;
      unfold USTAR_name_offset, USTAR_name_size, USTAR_prefix_offset, USTAR_prefix_size in *; lia.
  - unfold USTAR_checksum_offset. lia.
Qed.
Print Assumptions C11_ustar_tail_is_template.

(* ------------------------------------------------------------------ pad_zero and alignment of bodies *)
(* tar family: after the client's data (cut at the declared size) come only zeros, up to a multiple of 512,
   whether the client supplied all, some or none of the declared bytes *)
Theorem C11_tar_pad_zero : forall size chunks, 0 <= size < two64 ->
  snd (tar_body size chunks)
  = firstn (Z.to_nat size) (concat chunks)
    ++ zeros (Z.to_nat (size - Z.min size (lenZ (concat chunks)) + pad_to 512 size)).
Proof. exact tar_body_shape. Qed.
Print Assumptions C11_tar_pad_zero.
Theorem C11_tar_body_aligned : forall size chunks, 0 <= size < two64 ->
  lenZ (snd (tar_body size chunks)) mod 512 = 0.
Proof. exact tar_body_aligned. Qed.
Print Assumptions C11_tar_body_aligned.

(* cpio newc: header, name, NUL and zero padding make a multiple of 4 *)
Theorem C11_newc_name_pad_zero : forall e ret out rem,
  newc_write_header e = (ret, out, rem) -> ST_WARN <= ret -> length (sym_of e) = 0%nat ->
  lenZ (ob (e_path e)) < 2147483648 ->
  out = newc_block e ++ ob (e_path e) ++ [0] ++ zeros (Z.to_nat (pad_to 4 (lenZ (ob (e_path e)) + 1 + 110)))
  /\ lenZ out mod 4 = 0.
Proof. exact newc_header_aligned. Qed.
Print Assumptions C11_newc_name_pad_zero.

(* ------------------------------------------------------------------ trailer *)
Theorem C11_tar_trailer_zero : Forall (fun b => b = 0) tar_trailer /\ length tar_trailer = 1024%nat.
Proof. exact tar_trailer_zero. Qed.
Print Assumptions C11_tar_trailer_zero.

(* ------------------------------------------------------------------ no hidden inputs: write chunking *)
(* the one "history" the model has - how the client cut a body into archive_write_data calls - does not
   influence the bytes *)
Theorem C11_output_independent_of_chunking : forall c1 c2 rem, 0 <= rem -> concat c1 = concat c2 ->
  data_chunks rem c1 = data_chunks rem c2.
Proof. exact body_chunking_irrelevant. Qed.
Print Assumptions C11_output_independent_of_chunking.

(* non-vacuity: a concrete archive whose padding and trailer are as stated *)
Example C11_nonvacuous :
  let e := mkEntry (Some [102]) None None None None (IFREG + 420) 1 2 (Some 5) 3 0 0 1 0 [[104; 105]] in
  let out := archive_of Ustar [e] in
  length out = (512 + 512 + 1024)%nat /\ slice 512 5 out = [104; 105; 0; 0; 0] /\ slice 517 1531 out = zeros 1531.
Proof. vm_compute. repeat split; reflexivity. Qed.
