(* C16 - Pattern and criteria matching follows its documented semantics safely.
   Property theorems only; each is closed by [exact] of a lemma of Match/PathmatchProofs.v.
   The model (Match/PathmatchDefs.v) reads strings only through [rd], which yields [OobRead] for an
   index beyond the terminating NUL; [bind] propagates it, so "the result is not OobRead" says that
   no evaluated read was outside the string.  [archive_pathmatch_gen true] is the matcher whose
   `case '['` refuses the end of the subject (fixes/C16-class-at-end.diff); [.. false] is the tree
   before that repair.  Gen/Pathmatch.v (regenerated from the tree on every run) says which one
   the tree has. *)
From Coq Require Import List ZArith NArith Bool Sorted.
From LA Require Import Base.Val Gen.Pathmatch Match.PathmatchDefs Match.PathmatchProofs.
Import ListNotations.
Local Open Scope N_scope.

(* ---------------------------------------------------------------- the tree and the model's constants *)
(* the constants the model hard-codes are the ones of the tree *)
Theorem C16_model_constants :
  (G_PATHMATCH_NO_ANCHOR_START, G_PATHMATCH_NO_ANCHOR_END) = (1, 2) /\
  (G_ARCHIVE_MATCH_MTIME, G_ARCHIVE_MATCH_CTIME, G_ARCHIVE_MATCH_NEWER, G_ARCHIVE_MATCH_OLDER, G_ARCHIVE_MATCH_EQUAL)
    = (AM_MTIME, AM_CTIME, AM_NEWER, AM_OLDER, AM_EQUAL) /\
  (G_PATTERN_IS_SET, G_TIME_IS_SET, G_ID_IS_SET) = (PATTERN_IS_SET, TIME_IS_SET, ID_IS_SET) /\
  (G_ARCHIVE_OK, G_ARCHIVE_EOF, G_ARCHIVE_FAILED) = (ARCHIVE_OK_, ARCHIVE_EOF_, ARCHIVE_FAILED_).
Proof. repeat split; reflexivity. Qed.
Print Assumptions C16_model_constants.

(* the tree's pm() and pm_w() have the guarded class branch; fails to check on a tree without it *)
Theorem C16_tree_class_guard : class_guard = true /\ class_guard_w = true.
Proof. split; reflexivity. Qed.
Print Assumptions C16_tree_class_guard.

(* ---------------------------------------------------------------- safety *)
(* Evaluation never reads outside the pattern and path strings: for EVERY pattern, subject and
   flags (no bound on lengths), no read of __archive_pathmatch / pm / pm_list / pm_slashskip is at
   an index beyond the terminating NUL. *)
Theorem C16_pm_in_bounds : forall p s flags, archive_pathmatch_gen true p s flags <> OobRead.
Proof. exact pm_in_bounds. Qed.
Print Assumptions C16_pm_in_bounds.

(* the same statement for the model variant selected by the tree *)
Theorem C16_pm_in_bounds_tree : forall p s flags, archive_pathmatch_gen class_guard p s flags <> OobRead.
Proof. change class_guard with true. exact pm_in_bounds. Qed.
Print Assumptions C16_pm_in_bounds_tree.

(* Without the guard the statement is false: "[!a]b" against "" reads s[1].  (Reproduced on the real
   code: ASan heap-buffer-overflow READ in pm() with the subject in a 1-byte heap block.) *)
Theorem C16_pm_in_bounds_without_guard_refuted :
  exists p s flags, archive_pathmatch_gen false p s flags = OobRead.
Proof. exists [91; 33; 97; 93; 98]%N, [], 0. vm_compute. reflexivity. Qed.
Print Assumptions C16_pm_in_bounds_without_guard_refuted.

(* Termination: the fuel the model passes (|p|+1 for the main loop and its recursion through '*',
   |p|+2 / |s|+2 for the inner loops) is never exhausted. *)
Theorem C16_pm_fuel_sufficient : forall p s flags, archive_pathmatch_gen true p s flags <> OutOfFuel.
Proof. exact pm_fuel_sufficient. Qed.
Print Assumptions C16_pm_fuel_sufficient.

Theorem C16_pm_total : forall p s flags, exists b, archive_pathmatch_gen true p s flags = Ok b.
Proof. exact archive_pathmatch_safe. Qed.
Print Assumptions C16_pm_total.

(* ---------------------------------------------------------------- wildcard / class semantics *)
(* PARTIAL with respect to the property's "equals the documented semantics": the lemmas below are
   fully proved, but they are not an equivalence with a declarative glob relation for arbitrary
   patterns (pm_spec of DESIGN.md is NOT proved).  Not covered by proof: '?', '*' followed by more
   pattern, escapes outside classes, classes mixing ranges/escapes, "./" and "//" skipping, '^'/'$'
   with the NO_ANCHOR flags, directory prefixes.  Those are tied to the code only by the
   correspondence run and by the tree's own test table (props/C16.py). *)
Theorem C16_glob_semantics_partial :
  (* a pattern without metacharacters matches exactly the equal string, among subjects without '/' *)
  (forall g p s fl, forallb plainc p = true -> hd 0 p <> c_caret -> forallb pathc s = true ->
     archive_pathmatch_gen g p s fl = Ok (bytes_eqb p s)) /\
  (* "*" matches every subject under every flag combination *)
  (forall g s fl, archive_pathmatch_gen g [c_star] s fl = Ok true) /\
  (* [abc] accepts exactly its members *)
  (forall pre body post c, forallb simplec body = true -> hd 0 body <> c_bang -> hd 0 body <> c_caret ->
     pm_list (pre ++ body ++ c_rbrack :: post) (length pre) (length pre + length body) c
     = Ok (existsb (N.eqb c) body)) /\
  (* [!abc] and [^abc] accept exactly the non-members *)
  (forall pre neg body post c, neg = c_bang \/ neg = c_caret -> forallb simplec body = true ->
     pm_list (pre ++ (neg :: body) ++ c_rbrack :: post) (length pre) (length pre + length (neg :: body)) c
     = Ok (negb (existsb (N.eqb c) body))) /\
  (* [a-b] accepts a..b compared as signed chars *)
  (forall pre a b post c, simplec a = true -> a <> c_bang -> a <> c_caret -> b <> c_bslash ->
     pm_list (pre ++ [a; c_dash; b] ++ c_rbrack :: post) (length pre) (length pre + 3) c
     = Ok ((a =? c) || ((sc a <=? sc c)%Z && (sc c <=? sc b)%Z))).
Proof.
  exact (conj literal_pattern_exact (conj star_matches_everything
        (conj class_members (conj class_negated class_range)))).
Qed.
Print Assumptions C16_glob_semantics_partial.

(* ---------------------------------------------------------------- inclusions / exclusions *)
(* path_excluded in one formula (pmb = verdict of the guarded matcher): exclusions (matched
   unanchored at both ends, flags 3) win; otherwise an inclusion match (anchored at the start; at
   the end only when recursion is off) includes; otherwise excluded iff there are inclusions.
   The inclusions matched by this path get their matched flag and leave the unmatched count. *)
Theorem C16_path_excluded_spec : forall a path,
  exists a', path_excluded true a path = Ok (a', path_verdict a path) /\
    inclusions a' = map (mark1 (recursive_include a) path) (inclusions a) /\
    unmatched_count a' =
      (unmatched_count a - Z.of_nat (length (filter (newly (recursive_include a) path) (inclusions a))))%Z /\
    exclusions a' = exclusions a /\ recursive_include a' = recursive_include a.
Proof. exact path_excluded_spec. Qed.
Print Assumptions C16_path_excluded_spec.

Theorem C16_exclusion_wins : forall a path pat,
  In pat (exclusions a) -> pmb pat path 3 = true ->
  exists a', path_excluded true a path = Ok (a', 1%Z).
Proof. exact exclusion_wins. Qed.
Print Assumptions C16_exclusion_wins.

Theorem C16_inclusion_default : forall a path,
  existsb (fun pat => pmb pat path 3) (exclusions a) = false ->
  exists a', path_excluded true a path =
    Ok (a', match inclusions a with
            | [] => 0%Z
            | _ => if existsb (fun x => pmb (fst x) path (incl_flag (recursive_include a))) (inclusions a)
                   then 0%Z else 1%Z
            end).
Proof. exact inclusion_default. Qed.
Print Assumptions C16_inclusion_default.

(* unmatched-inclusion bookkeeping: the counter returned by archive_match_path_unmatched_inclusions
   always equals the number of inclusion patterns whose matched flag is clear *)
Theorem C16_unmatched_bookkeeping :
  count_ok ms_init /\
  (forall a pat, count_ok a -> count_ok (fst (include_pattern a pat))) /\
  (forall a pat, count_ok a -> count_ok (fst (exclude_pattern a pat))) /\
  (forall a path a' v, count_ok a -> path_excluded true a path = Ok (a', v) -> count_ok a').
Proof. exact (conj count_ok_init (conj count_ok_include (conj count_ok_exclude unmatched_bookkeeping))). Qed.
Print Assumptions C16_unmatched_bookkeeping.

Theorem C16_matched_flag_meaning : forall a path a' v pat m,
  path_excluded true a path = Ok (a', v) ->
  In (pat, m) (inclusions a) ->
  In (pat, m || pmb pat path (incl_flag (recursive_include a))) (inclusions a').
Proof. exact matched_flag_meaning. Qed.
Print Assumptions C16_matched_flag_meaning.

(* ---------------------------------------------------------------- time tests *)
(* newer filter (sec,nsec lexicographic): excluded iff older than the reference, or equal without EQUAL *)
Theorem C16_time_newer_table : forall f fs fn s n,
  newer_excludes f fs fn s n = true <->
  f <> 0 /\ (tlt s n fs fn \/ (s = fs /\ n = fn /\ has f AM_EQUAL = false)).
Proof. exact newer_table. Qed.
Print Assumptions C16_time_newer_table.

Theorem C16_time_older_table : forall f fs fn s n,
  older_excludes f fs fn s n = true <->
  f <> 0 /\ (tlt fs fn s n \/ (s = fs /\ n = fn /\ has f AM_EQUAL = false)).
Proof. exact older_table. Qed.
Print Assumptions C16_time_older_table.

(* ---------------------------------------------------------------- owner ids *)
Theorem C16_add_keeps_sorted : forall l id,
  StronglySorted Z.lt l -> StronglySorted Z.lt (add_owner_id l id).
Proof. exact add_owner_id_sorted. Qed.
Print Assumptions C16_add_keeps_sorted.

(* binary search = membership on a sorted array; its reads stay inside the array, its fuel suffices *)
Theorem C16_owner_bsearch_correct : forall l id, StronglySorted Z.lt l ->
  exists r, match_owner_id l id = Ok r /\ (r = true <-> In id l).
Proof. exact match_owner_id_correct. Qed.
Print Assumptions C16_owner_bsearch_correct.

(* end to end: after include_uid/gid of id_1..id_n (any order, duplicates allowed) an id is accepted
   iff it is one of them *)
Theorem C16_owner_included_iff : forall ids id,
  exists r, match_owner_id (fold_left add_owner_id ids []) id = Ok r /\ (r = true <-> In id ids).
Proof. exact owner_included_iff. Qed.
Print Assumptions C16_owner_included_iff.

(* ---------------------------------------------------------------- non-vacuity *)
(* "abcd*efgh/ijkl" ~ "abcd/efgh/ijkl"; the repaired matcher answers 0 on the witness of the defect;
   a literal pattern meeting the hypotheses of the literal lemma; sorted insertion; a scenario in which
   an exclusion beats a matching inclusion and the inclusion is still marked as matched *)
Example C16_nonvacuous :
  archive_pathmatch_gen true [97; 98; 99; 100; 42; 101; 102; 103; 104; 47; 105; 106; 107; 108]%N [97; 98; 99; 100; 47; 101; 102; 103; 104; 47; 105; 106; 107; 108]%N 0 = Ok true /\
  archive_pathmatch_gen true [91; 33; 97; 93; 98]%N [] 0 = Ok false /\
  archive_pathmatch_gen true [97; 91; 98; 45; 100; 92; 93; 93; 42; 91; 33; 120; 93]%N [97; 99; 47; 122; 121]%N 0 = Ok true /\
  (forallb plainc [97; 46; 98; 45; 93]%N = true /\ hd 0 [97; 46; 98; 45; 93]%N <> c_caret /\ forallb pathc [97; 46; 98; 45; 93]%N = true) /\
  fold_left add_owner_id [5; 1; 5; 3; -2]%Z [] = [-2; 1; 3; 5]%Z /\
  (let a := fst (exclude_pattern (fst (include_pattern ms_init [100]%N)) [42; 46; 99]%N) in
   match path_excluded true a [100; 47; 101; 47; 102; 46; 99]%N with
   | Ok (a', v) => v = 1%Z /\ unmatched_count a = 1%Z /\ unmatched_count a' = 0%Z /\ count_ok a'
   | _ => False
   end).
Proof. vm_compute. repeat split; try reflexivity; discriminate. Qed.
