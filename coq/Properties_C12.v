(* C12 - Disk -> archive -> disk reproduces the tree.  Level: partial (real file systems are outside Coq).
   Property theorems only; each is closed by [exact] of a lemma of FS/TreeWalkProofs.v or
   FS/TreeWalkCaptureProofs.v.  The model (FS/TreeWalkDefs.v) is the tree_next stack machine of
   libarchive/archive_read_disk_posix.c over an abstract finite directory tree, tied to the real code by
   the correspondence check of props/C12.py. *)
From Coq Require Import List ZArith NArith Bool Permutation.
From LA Require Import Base.Val Gen.Defines Entry.LinksDefs FS.TreeWalkDefs FS.TreeWalkProofs
                       FS.TreeWalkCaptureProofs.
Import ListNotations.

(* walk_once, machine part: for EVERY finite tree whose directories have unique entry names, for EVERY
   descend policy of the client, the fuelled walker never runs out of fuel (4 * nodes + 2 turns), never
   fails, returns exactly the specified visit sequence (all children of a directory in readdir order,
   then the accepted sub-directories in reverse order, recursively), and ends with an empty stack, no
   open directory handle, depth 0 and the working-directory descriptor back on the initial directory
   (every descent matched by an ascent). *)
Theorem C12_walk_machine : forall pol root, wf_root root = true ->
  exists t, walk_tree pol root = WDone (visits_spec pol root) t /\
            stack t = [] /\ wd t = [[root]] /\ depth t = 0 /\ dirh t = None.
Proof. exact walk_spec. Qed.
Print Assumptions C12_walk_machine.

(* fuel sufficiency: any larger fuel gives the same result (the error value WFuel is never produced) *)
Theorem C12_walk_fuel_enough : forall pol root k, wf_root root = true ->
  walk (fuel_for root + k) pol (tree_open (nname root) [root]) [] = walk_tree pol root.
Proof. exact walk_fuel_enough. Qed.
Print Assumptions C12_walk_fuel_enough.

(* walk_once, each object exactly once: when the client always descends the visits are a permutation of
   all (pathname, object) pairs of the tree, and there are exactly [nodes root] of them *)
Theorem C12_walk_once : forall root,
  Permutation (visits_spec always root) (all_objects root) /\
  length (visits_spec always root) = nodes root.
Proof. intro root; split; [exact (visits_always_perm root) | exact (visits_always_length root)]. Qed.
Print Assumptions C12_walk_once.

(* walk_once, every directory before its contents: every visit other than the top one is preceded by the
   visit of its parent directory ([visits_par] is [visits_spec] annotated with the parent's pathname) *)
Theorem C12_walk_parent_first : forall pol root,
  map snd (visits_par pol root) = map fst (visits_spec pol root) /\
  forall i par p, nth_error (visits_par pol root) i = Some (Some par, p) ->
    exists j n, j < i /\ nth_error (visits_spec pol root) j = Some (par, n) /\ is_dir n = true.
Proof. intros pol root; split; [exact (visits_par_fst pol root) | exact (parent_first pol root)]. Qed.
Print Assumptions C12_walk_parent_first.

(* walk_no_descend: a client that never calls archive_read_disk_descend sees the top object only *)
Theorem C12_walk_no_descend : forall root, wf_root root = true ->
  exists t, walk_tree never root = WDone [(nname root, root)] t /\ stack t = [] /\ wd t = [[root]].
Proof. exact walk_never. Qed.
Print Assumptions C12_walk_no_descend.

(* the error value is real: with too little fuel the walker reports WFuel *)
Theorem C12_walk_fuel_error : exists root, wf_root root = true /\
  walk 3 always (tree_open (nname root) [root]) [] = WFuel [(nname root, root)].
Proof. exact walk_fuel_error. Qed.
Print Assumptions C12_walk_fuel_error.

(* capture_restore without hard links: capture (walk + the C17 link-resolver model, tar strategy) followed
   by restore on the flat FS model gives back the image of the source tree: same pathnames in the same
   order, same kinds, contents, symlink targets *)
Theorem C12_capture_restore_nolinks : forall root, wf_root root = true -> no_hardlinks root = true ->
  exists es, capture root = Some es /\ restore es = source_image root /\
             map fst es = map fst (visits_spec always root).
Proof. exact capture_restore_nolinks. Qed.
Print Assumptions C12_capture_restore_nolinks.

(* capture_restore WITH hard links under the tar/pax strategy, against the real resolver model of C17
   (hash table, growth, link counters): the first visited name of every inode carries the body, every
   later name is archived as a hard link to it, and restore rebuilds the same link groups (every file of
   the restored image names the first visited path of its inode).  Hypotheses: full pathnames are unique,
   names of one inode show one content, and the tree has at most 2^32 nodes (st_nlink is an unsigned int:
   see the lemma tar_counter_wraps of TreeWalkCaptureProofs.v for what happens beyond). *)
Theorem C12_capture_restore_tar : forall root,
  wf_root root = true -> nodup_paths root = true -> ino_consistent root = true ->
  (N.of_nat (nodes root) <= two32)%N ->
  exists es, capture root = Some es /\ restore es = source_image root /\
             map fst es = map fst (visits_spec always root).
Proof. exact capture_restore_tar_nodes. Qed.
Print Assumptions C12_capture_restore_tar.

(* the statement is sensitive to the strategy: with the old-cpio strategy (every name gets its own body)
   the link structure of a concrete tree is lost *)
Theorem C12_capture_oldcpio_loses_links : exists root,
  wf_root root = true /\ nodup_paths root = true /\ ino_consistent root = true /\
  option_map restore (capture_with LINKIFY_LIKE_OLD_CPIO root) <> Some (source_image root).
Proof. exact capture_oldcpio_loses_links. Qed.
Print Assumptions C12_capture_oldcpio_loses_links.

(* NOT proved (partial): capture_restore for the new-cpio strategy (the newc reader re-resolves links from
   inode numbers, which the flat restore model does not do), mode bits / mtimes / xattrs / sparse maps
   (not part of the abstract tree), and listing_complete beyond [map fst es = visited pathnames]. *)

(* non-vacuity: concrete trees satisfy the hypotheses; the machine visits in the specified (not plain
   depth-first) order; a tree with a three-name hard-link group over two directories, a symlink and a
   fifo is captured and restored to its own image *)
Example C12_nonvacuous_links :
  wf_root ex_tree = true /\ nodup_paths ex_tree = true /\ ino_consistent ex_tree = true /\
  no_hardlinks ex_tree = false /\
  option_map restore (capture ex_tree) = Some (source_image ex_tree).
Proof. exact capture_restore_example. Qed.

Definition ex_walk_tree : tnode :=
  D [116%N] [F [97%N] 1%N [7%N];
             D [98%N] [F [99%N] 2%N []; D [100%N] [L [101%N] [120%N]]; D [102%N] []];
             D [103%N] [X [104%N] 4096%N]].
Example C12_nonvacuous :
  wf_root ex_walk_tree = true /\ no_hardlinks ex_walk_tree = true /\
  match walk_tree always ex_walk_tree with
  | WDone vis t => map fst vis = [[116]; [116;47;97]; [116;47;98]; [116;47;103]; [116;47;103;47;104];
                                  [116;47;98;47;99]; [116;47;98;47;100]; [116;47;98;47;102];
                                  [116;47;98;47;100;47;101]]%N /\ stack t = []
  | _ => False
  end.
Proof. vm_compute. repeat split; reflexivity. Qed.
