(* C15 - the parser of ACL text is total and looks only at its input:
   every field returned by next_field / next_field_w is a sub-range of the text, the only character
   read outside the text is the one at index [length text] (the terminating NUL for the
   NUL-terminated entry points; the byte after the text for archive_acl_from_text_nl), the loops
   terminate - except, in the pinned tree, when that byte is a colon - and no NULL field is
   dereferenced - except, in the pinned tree, in the wchar_t variant. *)
From Coq Require Import List ZArith NArith Bool Lia.
From LA Require Import Base.Val Gen.Defines Gen.AclConsts Entry.AclDefs.
Import ListNotations.
Local Open Scope N_scope.

Definition suffix (q p : str) : Prop := exists pre, p = pre ++ q.

Lemma suffix_refl : forall p, suffix p p.
Proof. intros p. exists []. reflexivity. Qed.
Lemma suffix_trans : forall a b c, suffix a b -> suffix b c -> suffix a c.
Proof. intros a b c [x Hx] [y Hy]. exists (y ++ x). subst. rewrite app_assoc. reflexivity. Qed.
Lemma suffix_cons : forall c q p, suffix q p -> suffix q (c :: p).
Proof. intros c q p [x Hx]. exists (c :: x). subst. reflexivity. Qed.
Lemma suffix_length : forall q p, suffix q p -> (length q <= length p)%nat.
Proof. intros q p [x Hx]. subst. rewrite app_length. lia. Qed.
Lemma suffix_tl : forall p, suffix (tl p) p.
Proof. intros [|c r]; [apply suffix_refl|]. exists [c]. reflexivity. Qed.
Lemma suffix_nil : forall p, suffix [] p.
Proof. intros p. exists p. rewrite app_nil_r. reflexivity. Qed.
Lemma suffix_skipn : forall n p, suffix (skipn n p) p.
Proof. intros n p. exists (firstn n p). symmetry. apply firstn_skipn. Qed.

Lemma suffix_skipn_eq : forall q p, suffix q p -> q = skipn (length p - length q) p.
Proof.
  intros q p [pre H]. subst p. rewrite app_length.
  replace (length pre + length q - length q)%nat with (length pre) by lia.
  rewrite skipn_app. rewrite skipn_all. rewrite Nat.sub_diag. reflexivity.
Qed.

Lemma skipn_add : forall a b (s : str), skipn (a + b) s = skipn b (skipn a s).
Proof.
  induction a; intros b s; cbn [Nat.add skipn]; [reflexivity|].
  destruct s; [destruct b; reflexivity|apply IHa].
Qed.
Lemma suffix_skipn_le : forall m k (s : str), (m <= k)%nat -> suffix (skipn k s) (skipn m s).
Proof.
  intros m k s H. replace k with (m + (k - m))%nat by lia. rewrite skipn_add. apply suffix_skipn.
Qed.

Lemma skip_ws_suffix : forall p, suffix (skip_ws p) p.
Proof.
  induction p as [|c r IH]; cbn [skip_ws]; [apply suffix_refl|].
  destruct (is_ws c); [apply suffix_cons; exact IH|apply suffix_refl].
Qed.
Lemma scan_sep_suffix : forall p, suffix (scan_sep p) p.
Proof.
  induction p as [|c r IH]; cbn [scan_sep]; [apply suffix_refl|].
  destruct (is_sepc c); [apply suffix_refl|apply suffix_cons; exact IH].
Qed.
Lemma scan_comment_suffix : forall p, suffix (scan_comment p) p.
Proof.
  induction p as [|c r IH]; cbn [scan_comment]; [apply suffix_refl|].
  destruct ((c =? c_comma) || (c =? c_nl)); [apply suffix_refl|apply suffix_cons; exact IH].
Qed.
Lemma scan_body_spec : forall s n q, scan_body s = (n, q) -> q = skipn n s /\ (n <= length s)%nat.
Proof.
  induction s as [|c r IH]; intros n q H; cbn [scan_body] in H.
  - injection H as H1 H2. subst. split; [reflexivity|cbn; lia].
  - destruct (is_ws c || is_sepc c).
    + injection H as H1 H2. subst. split; [reflexivity|cbn; lia].
    + destruct (scan_body r) as [n' q'] eqn:E. destruct (IH n' q' eq_refl) as [A B].
      injection H as H1 H2. subst n q. split; [cbn [skipn]; exact A|cbn [length]; lia].
Qed.

(* a field lies inside the text *)
Definition in_range (text : str) (f : field) : Prop :=
  suffix (fsuf f) text /\ (flen f <= length (fsuf f))%nat.

(* what one call of next_field guarantees; [hang] is the only way not to make progress at a colon *)
Definition nf_post (wide fxs : bool) (sent : N) (p : str) (r : field * N * str) : Prop :=
  let '(f, sep, p') := r in
  in_range p f /\ suffix p' (skipn (flen f) (fsuf f)) /\
  (p <> [] -> (length p' < length p)%nat) /\
  (sep = c_colon -> (length p' < length p)%nat \/ (wide = false /\ fxs = false /\ sent = c_colon /\ p' = [])).

Lemma peek_colon : forall sent q, peek sent q = c_colon ->
  (length (tl q) < length q)%nat \/ (q = [] /\ sent = c_colon).
Proof. intros sent [|c r] H; cbn in *; [right; auto|left; lia]. Qed.

Lemma next_field_n_post : forall fxs sent p, nf_post false fxs sent p (next_field_n fxs sent p).
Proof.
  intros fxs sent p. unfold next_field_n.
  set (sent' := if fxs then 0 else sent).
  pose proof (skip_ws_suffix p) as Hs. set (s := skip_ws p) in *.
  destruct (scan_body s) as [n p1] eqn:EB. destruct (scan_body_spec s n p1 EB) as [Hp1 Hn].
  pose proof (scan_sep_suffix p1) as H2. set (p2 := scan_sep p1) in *.
  assert (Hcase : exists p3 sep,
            (if peek sent' p2 =? c_hash then (scan_comment p2, peek sent' (scan_comment p2)) else (p2, peek sent' p2)) = (p3, sep)
            /\ suffix p3 p2 /\ sep = peek sent' p3).
  { destruct (peek sent' p2 =? c_hash).
    - eexists; eexists; split; [reflexivity|]. split; [apply scan_comment_suffix|reflexivity].
    - eexists; eexists; split; [reflexivity|]. split; [apply suffix_refl|reflexivity]. }
  destruct Hcase as (p3 & sep & Heq & H3 & Hsep). rewrite Heq.
  unfold nf_post, in_range. cbn [fsuf flen].
  assert (H31 : suffix p3 p1) by (eapply suffix_trans; eassumption).
  assert (H3s : suffix p3 s) by (eapply suffix_trans; [exact H31|]; rewrite Hp1; apply suffix_skipn).
  assert (H3p : suffix p3 p) by (eapply suffix_trans; eassumption).
  pose proof (suffix_length _ _ H3p) as HL. pose proof (suffix_tl p3) as Htl.
  pose proof (suffix_length _ _ Htl) as HLt.
  repeat split.
  - exact Hs.
  - exact Hn.
  - rewrite <- Hp1. eapply suffix_trans; [exact Htl|exact H31].
  - intros Hne. destruct p3 as [|c r]; cbn [tl length] in *.
    + destruct p; [congruence|cbn; lia].
    + lia.
  - intros Hc. rewrite Hsep in Hc. destruct (peek_colon _ _ Hc) as [A|[A B]].
    + left. lia.
    + right. subst p3. unfold sent' in B. destruct fxs; [discriminate|]. auto.
Qed.

Lemma rstrip_length : forall s, (length (rstrip s) <= length s)%nat.
Proof.
  intros s. unfold rstrip. rewrite rev_length.
  pose proof (suffix_length _ _ (skip_ws_suffix (rev s))) as H. rewrite rev_length in H. exact H.
Qed.

Lemma next_field_w_post : forall fxs sent p, nf_post true fxs sent p (next_field_w p).
Proof.
  intros fxs sent p. unfold next_field_w.
  pose proof (skip_ws_suffix p) as Hs. set (s := skip_ws p) in *.
  pose proof (scan_sep_suffix s) as H1. set (p1 := scan_sep s) in *.
  set (k := (length s - length p1)%nat).
  assert (Hcase : exists p3 sep,
            (if peek 0 p1 =? c_hash then (scan_comment p1, peek 0 (scan_comment p1)) else (p1, peek 0 p1)) = (p3, sep)
            /\ suffix p3 p1 /\ sep = peek 0 p3).
  { destruct (peek 0 p1 =? c_hash).
    - eexists; eexists; split; [reflexivity|]. split; [apply scan_comment_suffix|reflexivity].
    - eexists; eexists; split; [reflexivity|]. split; [apply suffix_refl|reflexivity]. }
  destruct Hcase as (p3 & sep & Heq & H3 & Hsep). rewrite Heq.
  unfold nf_post, in_range. cbn [fsuf flen].
  pose proof (suffix_length _ _ H1) as HL1.
  assert (Hk : (length (rstrip (firstn k s)) <= k)%nat).
  { pose proof (rstrip_length (firstn k s)) as H. rewrite firstn_length in H. lia. }
  assert (Hp1 : p1 = skipn k s).
  { unfold k. apply suffix_skipn_eq. exact H1. }
  assert (H3s : suffix p3 s) by (eapply suffix_trans; eassumption).
  assert (H3p : suffix p3 p) by (eapply suffix_trans; eassumption).
  pose proof (suffix_length _ _ H3p) as HL. pose proof (suffix_tl p3) as Htl.
  pose proof (suffix_length _ _ Htl) as HLt.
  repeat split.
  - exact Hs.
  - unfold k in *. lia.
  - eapply suffix_trans; [exact Htl|]. eapply suffix_trans; [exact H3|]. rewrite Hp1.
    apply suffix_skipn_le. exact Hk.
  - intros Hne. destruct p3 as [|c r]; cbn [tl length] in *.
    + destruct p; [congruence|cbn; lia].
    + lia.
  - intros Hc. rewrite Hsep in Hc. destruct (peek_colon _ _ Hc) as [A|[A B]].
    + left. lia.
    + discriminate.
Qed.

Lemma next_field_post : forall wide fxs sent p, nf_post wide fxs sent p (next_field wide fxs sent p).
Proof.
  intros [|] fxs sent p; unfold next_field; [apply next_field_w_post|apply next_field_n_post].
Qed.

(* ------------------------------------------------------------------ the field loop *)
(* the field loop of the pinned char variant spins exactly when the byte after the text is ':' *)
Definition no_spin (wide fxs : bool) (sent : N) : Prop := wide = true \/ fxs = true \/ sent <> c_colon.

Lemma in_range_suffix : forall q p f, suffix q p -> in_range q f -> in_range p f.
Proof. intros q p f H [A B]. split; [eapply suffix_trans; eassumption|exact B]. Qed.

Lemma collect_spec : forall wide fxs sent numfields, no_spin wide fxs sent ->
  forall fuel text p fields acc,
  (length p < fuel)%nat -> suffix p text -> Forall (in_range text) acc ->
  exists fs n p', collect fuel wide fxs sent numfields p fields acc = Some (fs, n, p') /\
    Forall (in_range text) fs /\ suffix p' p /\ (p <> [] -> (length p' < length p)%nat) /\
    (fields < n)%nat.
Proof.
  intros wide fxs sent numfields Hns. induction fuel as [|fuel IH]; intros text p fields acc Hf Hsuf Hacc; [lia|].
  cbn [collect].
  pose proof (next_field_post wide fxs sent p) as HP.
  destruct (next_field wide fxs sent p) as [[f sep] p1]. unfold nf_post in HP.
  destruct HP as (Hin & Hp1 & Hprog & Hcolon).
  assert (Hp1p : suffix p1 p).
  { eapply suffix_trans; [exact Hp1|]. eapply suffix_trans; [apply suffix_skipn|]. exact (proj1 Hin). }
  assert (Hacc' : Forall (in_range text) (if Nat.ltb fields numfields then acc ++ [f] else acc)).
  { destruct (Nat.ltb fields numfields); [|exact Hacc]. apply Forall_app. split; [exact Hacc|].
    constructor; [|constructor]. eapply in_range_suffix; eassumption. }
  destruct (sep =? c_colon) eqn:ES.
  - apply N.eqb_eq in ES. destruct (Hcolon ES) as [Hlt|(Hw & Hx & Hs & _)].
    + destruct (IH text p1 (S fields) _ ltac:(lia) (suffix_trans _ _ _ Hp1p Hsuf) Hacc')
        as (fs & n & p' & Heq & Hfs & Hs' & Hpr & Hn).
      exists fs, n, p'. split; [exact Heq|]. split; [exact Hfs|].
      split; [eapply suffix_trans; eassumption|].
      split; [intros _; pose proof (suffix_length _ _ Hs'); lia|lia].
    + exfalso. destruct Hns as [A|[A|A]]; congruence.
  - eexists; eexists; eexists. split; [reflexivity|]. split; [exact Hacc'|].
    split; [exact Hp1p|]. split; [exact Hprog|lia].
Qed.

(* ------------------------------------------------------------------ the entry loop *)
Lemma parse_nfs4_no_crash : forall wide fs a ret types, parse_nfs4 wide fs a ret types <> ECrash.
Proof.
  intros. unfold parse_nfs4, add_parsed.
  repeat match goal with
  | |- context [if ?c then _ else _] => destruct c
  | |- context [let '(_, _) := ?x in _] => destruct x
  end; discriminate.
Qed.

Lemma parse_posix_no_crash : forall wide fxw fxm sent want fs fields a ret types,
  wide = false \/ fxw = true -> parse_posix wide fxw fxm sent want fs fields a ret types <> ECrash.
Proof.
  intros wide fxw fxm sent want fs fields a ret types H. unfold parse_posix, posix_tail, add_parsed.
  destruct fs as [|f0 rest]; [discriminate|].
  assert (Hc : wide && negb fxw = false) by (destruct H; subst; [reflexivity|destruct wide; reflexivity]).
  rewrite Hc.
  repeat match goal with
  | |- context [match ?x with Some _ => _ | None => _ end] => destruct x
  | |- context [if ?c then _ else _] => destruct c
  | |- context [let '(_, _) := ?x in _] => destruct x
  end; discriminate.
Qed.

Lemma parse_loop_no_hang : forall wide fxw fxs fxm sent want numfields, no_spin wide fxs sent ->
  forall fuel p a ret types, (length p < fuel)%nat ->
  parse_loop fuel wide fxw fxs fxm sent want numfields p a ret types <> PHang.
Proof.
  intros wide fxw fxs fxm sent want numfields Hns. induction fuel as [|fuel IH]; intros p a ret types Hf; [lia|].
  destruct p as [|c0 r]; [cbn; discriminate|].
  cbn [parse_loop]. destruct (c0 =? 0); [discriminate|].
  destruct (collect_spec wide fxs sent numfields Hns (length (c0 :: r) + 2) (c0 :: r) (c0 :: r) 0 []
              ltac:(lia) (suffix_refl _) (Forall_nil _)) as (fs & n & p' & Heq & _ & _ & Hpr & _).
  rewrite Heq.
  assert (Hlt : (length p' < fuel)%nat) by (specialize (Hpr ltac:(discriminate)); cbn [length] in *; lia).
  destruct (match fs with f0 :: _ => peek (if wide then 0 else sent) (fsuf f0) =? c_hash | [] => false end).
  - apply IH. exact Hlt.
  - destruct (if want =? ACL_TYPE_NFS4 then parse_nfs4 wide fs a ret types
              else parse_posix wide fxw fxm (if wide then 0 else sent) want fs n a ret types);
    [apply IH; exact Hlt|discriminate|discriminate].
Qed.

Lemma parse_loop_no_crash : forall wide fxw fxs fxm sent want numfields, wide = false \/ fxw = true ->
  forall fuel p a ret types,
  parse_loop fuel wide fxw fxs fxm sent want numfields p a ret types <> PCrash.
Proof.
  intros wide fxw fxs fxm sent want numfields Hc. induction fuel as [|fuel IH]; intros p a ret types.
  - destruct p as [|c0 r]; cbn; [discriminate|]. destruct (c0 =? 0); discriminate.
  - destruct p as [|c0 r]; [cbn; discriminate|].
    cbn [parse_loop]. destruct (c0 =? 0); [discriminate|].
    destruct (collect (length (c0 :: r) + 2) wide fxs sent numfields (c0 :: r) 0 []) as [[[fs n] p']|]; [|discriminate].
    destruct (match fs with f0 :: _ => peek (if wide then 0 else sent) (fsuf f0) =? c_hash | [] => false end);
    [apply IH|].
    destruct (want =? ACL_TYPE_NFS4).
    + pose proof (parse_nfs4_no_crash wide fs a ret types) as HN.
      destruct (parse_nfs4 wide fs a ret types); [apply IH|congruence|discriminate].
    + pose proof (parse_posix_no_crash wide fxw fxm (if wide then 0 else sent) want fs n a ret types Hc) as HN.
      destruct (parse_posix wide fxw fxm (if wide then 0 else sent) want fs n a ret types);
      [apply IH|congruence|discriminate].
Qed.

(* ------------------------------------------------------------------ theorems *)
Theorem parser_total_gen : forall wide fxw fxs fxm sent text want a,
  no_spin wide fxs sent -> (wide = false \/ fxw = true) ->
  exists st a', from_text_nl wide fxw fxs fxm sent text want a = PRet st a'.
Proof.
  intros wide fxw fxs fxm sent text want a Hns Hc.
  assert (H : forall numfields w, exists st a',
            parse_loop (S (length text)) wide fxw fxs fxm sent w numfields text a ARCHIVE_OK 0 = PRet st a').
  { intros numfields w.
    pose proof (parse_loop_no_hang wide fxw fxs fxm sent w numfields Hns (S (length text)) text a ARCHIVE_OK 0 ltac:(lia)) as H1.
    pose proof (parse_loop_no_crash wide fxw fxs fxm sent w numfields Hc (S (length text)) text a ARCHIVE_OK 0) as H2.
    destruct (parse_loop (S (length text)) wide fxw fxs fxm sent w numfields text a ARCHIVE_OK 0);
    [eexists; eexists; reflexivity|congruence|congruence]. }
  unfold from_text_nl.
  destruct (want =? ACL_TYPE_POSIX1E); [apply H|].
  destruct ((want =? ACL_TYPE_ACCESS) || (want =? ACL_TYPE_DEFAULT)); [apply H|].
  destruct (want =? ACL_TYPE_NFS4); [apply H|].
  eexists; eexists; reflexivity.
Qed.

(* every field the parser ever holds is a sub-range of the text (pointer pairs start <= end inside
   [text, text + length]); nothing else of the memory is read except the character at index
   [length text] (the argument [sent] of [peek]) *)
Theorem fields_in_text : forall wide fxs sent numfields text p fuel fs n p',
  suffix p text ->
  collect fuel wide fxs sent numfields p 0 [] = Some (fs, n, p') ->
  Forall (in_range text) fs /\ suffix p' text.
Proof.
  intros wide fxs sent numfields text p fuel.
  assert (G : forall fuel p fields acc fs n p', suffix p text -> Forall (in_range text) acc ->
            collect fuel wide fxs sent numfields p fields acc = Some (fs, n, p') ->
            Forall (in_range text) fs /\ suffix p' text).
  { clear p fuel. induction fuel as [|fuel IH]; intros p fields acc fs n p' Hsuf Hacc H; [discriminate|].
    cbn [collect] in H.
    pose proof (next_field_post wide fxs sent p) as HP.
    destruct (next_field wide fxs sent p) as [[f sep] p1]. unfold nf_post in HP.
    destruct HP as (Hin & Hp1 & _ & _).
    assert (Hp1p : suffix p1 p).
    { eapply suffix_trans; [exact Hp1|]. eapply suffix_trans; [apply suffix_skipn|]. exact (proj1 Hin). }
    assert (Hacc' : Forall (in_range text) (if Nat.ltb fields numfields then acc ++ [f] else acc)).
    { destruct (Nat.ltb fields numfields); [|exact Hacc]. apply Forall_app. split; [exact Hacc|].
      constructor; [|constructor]. eapply in_range_suffix; eassumption. }
    destruct (sep =? c_colon).
    - eapply IH; [|exact Hacc'|exact H]. eapply suffix_trans; eassumption.
    - injection H as H1 H2 H3. subst fs n p'. split; [exact Hacc'|]. exact (suffix_trans _ _ _ Hp1p Hsuf). }
  intros fs n p' Hs H. eapply G; [exact Hs|constructor|exact H].
Qed.

(* the two ways in which the pinned tree is not total *)
Definition t_user_rwx : str := s_user ++ [c_colon; c_colon; c_r; c_w; c_x].      (* "user::rwx" *)

Lemma hang_witness :
  from_text_nl false false false false c_colon t_user_rwx ACL_TYPE_ACCESS (acl_empty 0) = PHang.
Proof. vm_compute. reflexivity. Qed.

Lemma crash_witness :
  from_text true false false false [c_d] ACL_TYPE_ACCESS (acl_empty 0) = PCrash.
Proof. vm_compute. reflexivity. Qed.

(* ------------------------------------------------------------------ malformed entries *)
(* One pass of the loop body either adds exactly one entry (archive_acl_add_entry on the ACL so
   far) or leaves the ACL as it was and sets the status to ARCHIVE_WARN. *)
Definition step_ok (a : acl) (ret : Z) (types : N) (a' : acl) (ret' : Z) (types' : N) : Prop :=
  (a' = a /\ ret' = ARCHIVE_WARN /\ types' = types) \/
  (exists type perm tag id name r,
     add_entry a type perm tag id name = (r, a') /\
     ret' = (if (r =? ARCHIVE_OK)%Z then ret else ARCHIVE_WARN) /\ types' = N.lor types type).

Lemma add_parsed_step : forall a ret types type perm tag id name a' ret' types',
  add_parsed a ret types type perm tag id name = ENext a' ret' types' ->
  step_ok a ret types a' ret' types'.
Proof.
  intros a ret types type perm tag id name a' ret' types' H. unfold add_parsed in H.
  destruct (add_entry a type perm tag id (fbody_o name)) as [r a''] eqn:E.
  destruct (r <? ARCHIVE_WARN)%Z; [discriminate|]. injection H as H1 H2 H3. subst.
  right. exists type, perm, tag, id, (fbody_o name), r. auto.
Qed.

Ltac step_tac :=
  repeat match goal with
  | |- context [match ?x with Some _ => _ | None => _ end] => destruct x
  | |- context [if ?c then _ else _] => destruct c
  | |- context [let '(_, _) := ?x in _] => destruct x
  end;
  intros H;
  try discriminate;
  try (apply add_parsed_step in H; exact H);
  try (injection H as H1 H2 H3; subst; left; auto).

Lemma parse_nfs4_step : forall wide fs a ret types a' ret' types',
  parse_nfs4 wide fs a ret types = ENext a' ret' types' -> step_ok a ret types a' ret' types'.
Proof. intros wide fs a ret types a' ret' types'. unfold parse_nfs4. step_tac. Qed.

Lemma parse_posix_step : forall wide fxw fxm sent want fs fields a ret types a' ret' types',
  fs <> [] ->
  parse_posix wide fxw fxm sent want fs fields a ret types = ENext a' ret' types' ->
  step_ok a ret types a' ret' types'.
Proof.
  intros wide fxw fxm sent want fs fields a ret types a' ret' types' Hne. unfold parse_posix, posix_tail.
  destruct fs as [|f0 rest]; [congruence|]. step_tac.
Qed.
