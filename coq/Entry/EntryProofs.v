(* Lemmas about the archive_entry model (C14): arithmetic of FIX_NS and of the glibc dev_t layout,
   the ae_set bitmap, the mode partition, the refinement of the abstract specification, clone. *)
From Coq Require Import List ZArith Bool Lia Permutation.
From LA Require Import Base.Val Gen.EntryConsts Entry.EntryDefs.
Import ListNotations.
Local Open Scope Z_scope.

(* ================================================================ integer conversions *)
Lemma s64_id : forall z, - 2^63 <= z < 2^63 -> s64 z = z.
Proof. intros z H. unfold s64. rewrite Z.mod_small; lia. Qed.

Lemma s64_range : forall z, - 2^63 <= s64 z < 2^63.
Proof. intros z. unfold s64. pose proof (Z.mod_pos_bound (z + 2^63) (2^64) ltac:(lia)). lia. Qed.

Lemma s64_add_l : forall a b, s64 (s64 a + b) = s64 (a + b).
Proof.
  intros a b. unfold s64.
  replace ((a + 2^63) mod 2^64 - 2^63 + b + 2^63) with ((a + 2^63) mod 2^64 + b) by lia.
  rewrite Zplus_mod_idemp_l. f_equal. f_equal. lia.
Qed.

Lemma s64_idem : forall a, s64 (s64 a) = s64 a.
Proof. intros a. apply s64_id, s64_range. Qed.

Lemma u32_range : forall z, 0 <= u32 z < 2^32.
Proof. intros. unfold u32. apply Z.mod_pos_bound. lia. Qed.
Lemma u64_range : forall z, 0 <= u64 z < 2^64.
Proof. intros. unfold u64. apply Z.mod_pos_bound. lia. Qed.
Lemma u32_id : forall z, 0 <= z < 2^32 -> u32 z = z.
Proof. intros. unfold u32. apply Z.mod_small. lia. Qed.
Lemma u64_id : forall z, 0 <= z < 2^64 -> u64 z = z.
Proof. intros. unfold u64. apply Z.mod_small. lia. Qed.

(* ================================================================ FIX_NS *)
(* for any positive divisor: truncating division plus the negative-remainder branch is floor
   division (the seconds wrap like int64 arithmetic does) *)
Definition fix_ns_with (D t ns : Z) : Z * Z :=
  let t1 := s64 (t + Z.quot ns D) in
  let n1 := Z.rem ns D in
  if n1 <? 0 then (s64 (t1 - 1), n1 + D) else (t1, n1).

Lemma fix_ns_with_floor : forall D t ns, 0 < D ->
  fix_ns_with D t ns = (s64 (t + ns / D), ns mod D).
Proof.
  intros D t ns HD. unfold fix_ns_with.
  destruct (Z.rem ns D <? 0) eqn:E.
  - apply Z.ltb_lt in E.
    replace (s64 (t + Z.quot ns D) - 1) with (s64 (t + Z.quot ns D) + (-1)) by lia.
    rewrite s64_add_l.
    assert (Z.quot ns D - 1 = ns / D /\ Z.rem ns D + D = ns mod D) as [H1 H2].
    { pose proof (Z.quot_rem' ns D) as Hq.
      pose proof (Z.rem_bound_abs ns D ltac:(lia)) as Hb.
      assert (Hr : 0 <= Z.rem ns D + D < D) by lia.
      assert (He : ns = D * (Z.quot ns D - 1) + (Z.rem ns D + D)) by lia.
      split; [ apply (Z.div_unique ns D _ _ (or_introl Hr) He)
             | apply (Z.mod_unique ns D _ _ (or_introl Hr) He) ]. }
    rewrite <- H1, H2. f_equal. f_equal. lia.
  - apply Z.ltb_ge in E.
    assert (Z.quot ns D = ns / D /\ Z.rem ns D = ns mod D) as [H1 H2].
    { pose proof (Z.quot_rem' ns D) as Hq.
      pose proof (Z.rem_bound_abs ns D ltac:(lia)) as Hb.
      assert (Hr : 0 <= Z.rem ns D < D) by lia.
      split; [ apply (Z.div_unique ns D _ _ (or_introl Hr) Hq)
             | apply (Z.mod_unique ns D _ _ (or_introl Hr) Hq) ]. }
    rewrite H1, H2. reflexivity.
Qed.

Lemma FIX_NS_DIV_pos : 0 < FIX_NS_DIV.
Proof. reflexivity. Qed.

Lemma fix_ns_floor : forall t ns, fix_ns t ns = (s64 (t + ns / FIX_NS_DIV), ns mod FIX_NS_DIV).
Proof. intros. apply (fix_ns_with_floor FIX_NS_DIV t ns FIX_NS_DIV_pos). Qed.

(* the property: the nanoseconds end up in [0, D) and, when the seconds stay inside int64, the
   instant  t * D + ns  is preserved *)
Lemma fix_ns_normal : forall t ns t' ns',
  fix_ns t ns = (t', ns') ->
  0 <= ns' < FIX_NS_DIV /\
  (- 2^63 <= t + ns / FIX_NS_DIV < 2^63 -> t' * FIX_NS_DIV + ns' = t * FIX_NS_DIV + ns).
Proof.
  intros t ns t' ns' H. rewrite fix_ns_floor in H. inversion H; subst; clear H.
  pose proof FIX_NS_DIV_pos as HD.
  split.
  - apply Z.mod_pos_bound; assumption.
  - intros Hr. rewrite s64_id by assumption.
    pose proof (Z.div_mod ns FIX_NS_DIV ltac:(lia)). nia.
Qed.

(* ================================================================ glibc dev_t layout *)
Lemma dev_make_split : forall d, 0 <= d < 2^64 -> dev_make (dev_major d) (dev_minor d) = d.
Proof.
  intros d H. unfold dev_make, dev_major, dev_minor, u32.
  Z.to_euclidean_division_equations. lia.
Qed.

Lemma dev_major_make : forall a b, dev_major (dev_make a b) = u32 a.
Proof.
  intros a b. unfold dev_make, dev_major.
  pose proof (u32_range a). pose proof (u32_range b).
  generalize dependent (u32 a). generalize dependent (u32 b). intros y Hy x Hx.
  Z.to_euclidean_division_equations. lia.
Qed.

Lemma dev_minor_make : forall a b, dev_minor (dev_make a b) = u32 b.
Proof.
  intros a b. unfold dev_make, dev_minor.
  pose proof (u32_range a). pose proof (u32_range b).
  generalize dependent (u32 a). generalize dependent (u32 b). intros y Hy x Hx.
  Z.to_euclidean_division_equations. lia.
Qed.

Lemma dev_make_range : forall a b, 0 <= dev_make a b < 2^64.
Proof.
  intros a b. unfold dev_make.
  pose proof (u32_range a). pose proof (u32_range b).
  generalize dependent (u32 a). generalize dependent (u32 b). intros y Hy x Hx.
  Z.to_euclidean_division_equations. lia.
Qed.

(* ================================================================ the ae_set bitmap *)
Definition is_bit (f : Z) : bool := (0 <? f) && (f =? 2 ^ Z.log2 f).

Lemma land_pow2 : forall s i, 0 <= i -> Z.land s (2^i) = if Z.testbit s i then 2^i else 0.
Proof.
  intros s i Hi. apply Z.bits_inj'. intros n Hn.
  rewrite Z.land_spec, Z.pow2_bits_eqb by lia.
  destruct (Z.eqb_spec i n) as [->|Hne].
  - rewrite andb_true_r. destruct (Z.testbit s n) eqn:E.
    + rewrite Z.pow2_bits_true by lia. reflexivity.
    + rewrite Z.bits_0. reflexivity.
  - rewrite andb_false_r. destruct (Z.testbit s i).
    + rewrite Z.pow2_bits_false by lia. reflexivity.
    + rewrite Z.bits_0. reflexivity.
Qed.

Lemma is_bit_pow : forall f, is_bit f = true -> 0 <= Z.log2 f /\ f = 2 ^ Z.log2 f /\ 0 < f.
Proof.
  intros f H. unfold is_bit in H. apply andb_true_iff in H. destruct H as [H1 H2].
  apply Z.ltb_lt in H1. apply Z.eqb_eq in H2. split; [apply Z.log2_nonneg|]. split; assumption.
Qed.

Lemma tst_bit : forall s f, is_bit f = true -> fl_tst s f = Z.testbit s (Z.log2 f).
Proof.
  intros s f H. destruct (is_bit_pow f H) as (Hi & Hf & Hp).
  unfold fl_tst. rewrite Hf at 1. rewrite land_pow2 by assumption.
  destruct (Z.testbit s (Z.log2 f)).
  - rewrite <- Hf. destruct (Z.eqb_spec f 0); [lia | reflexivity].
  - reflexivity.
Qed.

Lemma bit_eqb : forall f g, is_bit f = true -> is_bit g = true -> (f =? g) = (Z.log2 f =? Z.log2 g).
Proof.
  intros f g Hf Hg. destruct (is_bit_pow f Hf) as (Hi & Hfe & Hp). destruct (is_bit_pow g Hg) as (Hj & Hge & Hq).
  destruct (Z.eqb_spec (Z.log2 f) (Z.log2 g)) as [E|E].
  - apply Z.eqb_eq. rewrite Hfe, Hge, E. reflexivity.
  - apply Z.eqb_neq. intros ->. apply E. reflexivity.
Qed.

Lemma tst_set : forall s f g, is_bit f = true -> is_bit g = true ->
  fl_tst (fl_set s f) g = (f =? g) || fl_tst s g.
Proof.
  intros s f g Hf Hg. rewrite !tst_bit by assumption. rewrite (bit_eqb f g Hf Hg).
  destruct (is_bit_pow f Hf) as (Hi & Hfe & Hp). destruct (is_bit_pow g Hg) as (Hj & Hge & Hq).
  unfold fl_set. rewrite Z.lor_spec. rewrite Hfe at 1. rewrite Z.pow2_bits_eqb by assumption.
  apply orb_comm.
Qed.

Lemma tst_clr : forall s f g, is_bit f = true -> is_bit g = true ->
  fl_tst (fl_clr s f) g = negb (f =? g) && fl_tst s g.
Proof.
  intros s f g Hf Hg. rewrite !tst_bit by assumption. rewrite (bit_eqb f g Hf Hg).
  destruct (is_bit_pow f Hf) as (Hi & Hfe & Hp). destruct (is_bit_pow g Hg) as (Hj & Hge & Hq).
  unfold fl_clr. rewrite Z.land_spec, Z.lnot_spec by assumption. rewrite Hfe at 1.
  rewrite Z.pow2_bits_eqb by assumption. apply andb_comm.
Qed.

Lemma get_tst : forall s f, is_bit f = true -> fl_get s f = if fl_tst s f then f else 0.
Proof.
  intros s f H. rewrite tst_bit by assumption. destruct (is_bit_pow f H) as (Hi & Hf & Hp).
  unfold fl_get. rewrite Hf at 1. rewrite land_pow2 by assumption. rewrite <- Hf. reflexivity.
Qed.

Lemma fl_set_lor : forall s f g, fl_set s (Z.lor f g) = fl_set (fl_set s f) g.
Proof. intros. unfold fl_set. apply Z.lor_assoc. Qed.

Lemma tst_0 : forall f, fl_tst 0 f = false.
Proof. intros. unfold fl_tst. rewrite Z.land_0_l. reflexivity. Qed.

(* the generated constants are pairwise distinct single bits (re-checked on every run) *)
Lemma AE_SET_wf : forallb is_bit AE_SET_ALL = true /\ NoDup AE_SET_ALL /\ AE_SET_UNKNOWN_COUNT = 0.
Proof.
  split; [vm_compute; reflexivity|]. split; [|reflexivity].
  unfold AE_SET_ALL. repeat (constructor; [simpl; intuition discriminate|]). constructor.
Qed.

(* evaluate closed comparisons of constants *)
Ltac eval_eqb :=
  repeat match goal with
  | |- context [Z.eqb ?a ?b] =>
      let v := eval vm_compute in (Z.eqb a b) in
      match v with
      | true => change (Z.eqb a b) with true
      | false => change (Z.eqb a b) with false
      end
  end.
Ltac flags :=
  repeat (rewrite ?fl_set_lor; rewrite ?tst_set, ?tst_clr by reflexivity);
  eval_eqb; cbn [orb andb negb].

(* ================================================================ abstraction and invariant *)


Definition abs_tm (e : entry) (k : timek) : tval :=
  (sec (get_tm k (tms e)), nsec (get_tm k (tms e)), has e (time_flag k)).
Definition abs_dv (d : dv) (f : bool) : Z * Z * bool := (g_major d, g_minor d, f).
Definition abs (e : entry) : spec :=
  mkSpec (mkSt (abs_tm e KA) (abs_tm e KB) (abs_tm e KC) (abs_tm e KM))
    (uid (idv e), has e AE_SET_UID) (gid (idv e), has e AE_SET_GID) (ino (idv e), has e AE_SET_INO)
    (size (idv e), has e AE_SET_SIZE) (nlink (idv e))
    (Z.land AE_IFMT (mode e), has e AE_SET_FILETYPE) (Z.land PERM_MASK (mode e), has e AE_SET_PERM)
    (abs_dv (dev e) (has e AE_SET_DEV)) (abs_dv (rdev e) (has e AE_SET_RDEV))
    (symtype e) (fl_tst (enc e) 1) (fl_tst (enc e) 2)
    (if has e AE_SET_HARDLINK then Some (linkname (str e)) else None)
    (if has e AE_SET_SYMLINK then Some (linkname (str e)) else None)
    (mkSs (pathname (str e)) (uname (str e)) (gname (str e)) (sourcepath (str e)) (fflags (str e)))
    (sparse_r e) (xattrs e).

Record Inv (e : entry) : Prop := mkInv {
  inv_excl : has e AE_SET_HARDLINK && has e AE_SET_SYMLINK = false;
  inv_none : has e AE_SET_HARDLINK = false -> has e AE_SET_SYMLINK = false -> linkname (str e) = None;
  inv_dev : 0 <= comb (dev e) < 2^64;
  inv_rdev : 0 <= comb (rdev e) < 2^64;
  inv_rdev0 : has e AE_SET_RDEV = false -> rdev e = dv0;
  inv_mode : Z.land (mode e) (Z.ones 32) = mode e;
  inv_size : 0 <= size (idv e) < 2^63;
  inv_ino : 0 <= ino (idv e) < 2^63;
  inv_stat : stat_valid e = true -> stat_c e = stat_compute e
}.

Ltac unf := unfold step1, do_set_time, do_unset_time, do_set_id, do_unset_size, do_set_mode, do_set_perm, do_set_filetype,
  do_acl_special, do_set_dev, do_set_rdev, do_enc, do_hardlink, do_symlink, do_link, do_link_to, do_str, do_sparse_add,
  flag_on, flag_off, has, set_linkname, with_tms, with_idv, with_dev, with_rdev, with_mode, with_mode_acl, with_aset, with_str,
  with_symtype, with_enc, with_sparse, with_xattrs.

Ltac proj := cbn [fst snd tms idv dev rdev mode aset str symtype enc sparse_r xattrs stat_valid stat_c
  sec nsec t_a t_b t_c t_m get_tm set_tm time_flag uid gid ino size nlink bd comb maj mnr
  linkname pathname uname gname sourcepath fflags
  s_times s_uid s_gid s_ino s_size s_nlink s_filetype s_perm s_dev s_rdev s_symtype s_encdata s_encmeta s_hard s_sym
  s_strs s_sparse s_xattr st_a st_b st_c st_m st_get st_set ss_get ss_set ss_path ss_uname ss_gname ss_source ss_fflags].


Ltac spx := unfold sp_step1, sp_set_time, sp_set_id, sp_set_mode, sp_set_dev, sp_time, sp_times, sp_uid, sp_gid, sp_ino, sp_size, sp_nlink,
  sp_filetype, sp_perm, sp_dev, sp_rdev, sp_symtype, sp_encdata, sp_encmeta, sp_links, sp_str, sp_strs, sp_sparse, sp_xattr.
Ltac go := unfold abs, abs_tm, abs_dv; spx; unf; proj; flags.

Lemma mod_D_u32 : forall x, u32 (x mod FIX_NS_DIV) = x mod FIX_NS_DIV.
Proof. intros. apply u32_id. pose proof (Z.mod_pos_bound x FIX_NS_DIV FIX_NS_DIV_pos). unfold FIX_NS_DIV in *. lia. Qed.

Lemma A_time : forall e k t ns, abs (fst (step1 false e (OTime k t ns))) = fst (sp_step1 (abs e) (OTime k t ns)).
Proof.
  intros. cbn [step1 fst]. unfold do_set_time, norm_time. rewrite fix_ns_floor.
  destruct k; go; rewrite mod_D_u32; reflexivity.
Qed.

Lemma A_unset_time : forall e k, abs (fst (step1 false e (OUnsetTime k))) = fst (sp_step1 (abs e) (OUnsetTime k)).
Proof.
  intros. cbn [step1 fst]. unfold do_unset_time, do_set_time. rewrite fix_ns_floor.
  change (s64 0) with 0. change (0 / FIX_NS_DIV) with 0. change (0 mod FIX_NS_DIV) with 0. change (s64 (0+0)) with 0. change (u32 0) with 0.
  destruct k; go; reflexivity.
Qed.

Lemma clamp0_max : forall v, clamp0 v = Z.max 0 v.
Proof. intros. unfold clamp0. destruct (Z.ltb_spec v 0); lia. Qed.


Lemma max0_s64_u64 : forall v, u64 (Z.max 0 (s64 v)) = Z.max 0 (s64 v).
Proof. intros. apply u64_id. pose proof (s64_range v). lia. Qed.

Lemma A_id : forall e k v, abs (fst (step1 false e (OId k v))) = fst (sp_step1 (abs e) (OId k v)).
Proof.
  intros. cbn [step1 fst]. destruct k; go; rewrite ?clamp0_max, ?max0_s64_u64; reflexivity.
Qed.

Lemma A_unset_size : forall e, abs (fst (step1 false e OUnsetSize)) = fst (sp_step1 (abs e) OUnsetSize).
Proof.
  intros. cbn [step1 fst]. unfold do_unset_size. go. reflexivity.
Qed.

(* ---- mode *)
Lemma KP_bits : forall n, Z.testbit AE_IFMT n && Z.testbit PERM_MASK n = false.
Proof. intros. rewrite <- Z.land_spec. change (Z.land AE_IFMT PERM_MASK) with 0. apply Z.bits_0. Qed.
Lemma KorP_bits : forall n, Z.testbit AE_IFMT n || Z.testbit PERM_MASK n = Z.testbit (Z.ones 32) n.
Proof. intros. rewrite <- Z.lor_spec. reflexivity. Qed.

Ltac bitwise n :=
  apply Z.bits_inj'; intros n ?; repeat rewrite ?Z.land_spec, ?Z.lor_spec.

Lemma mode_perm_K : forall m x, Z.land AE_IFMT (Z.lor (Z.land m AE_IFMT) (Z.land PERM_MASK x)) = Z.land AE_IFMT m.
Proof. intros. bitwise n. pose proof (KP_bits n). destruct (Z.testbit AE_IFMT n), (Z.testbit PERM_MASK n), (Z.testbit m n), (Z.testbit x n); try discriminate; reflexivity. Qed.
Lemma mode_perm_P : forall m x, Z.land PERM_MASK (Z.lor (Z.land m AE_IFMT) (Z.land PERM_MASK x)) = Z.land PERM_MASK x.
Proof. intros. bitwise n. pose proof (KP_bits n). destruct (Z.testbit AE_IFMT n), (Z.testbit PERM_MASK n), (Z.testbit m n), (Z.testbit x n); try discriminate; reflexivity. Qed.
Lemma mode_ft_K : forall m x, Z.land AE_IFMT (Z.lor (Z.land m PERM_MASK) (Z.land AE_IFMT x)) = Z.land AE_IFMT x.
Proof. intros. bitwise n. pose proof (KP_bits n). destruct (Z.testbit AE_IFMT n), (Z.testbit PERM_MASK n), (Z.testbit m n), (Z.testbit x n); try discriminate; reflexivity. Qed.
Lemma mode_ft_P : forall m x, Z.land PERM_MASK (Z.lor (Z.land m PERM_MASK) (Z.land AE_IFMT x)) = Z.land PERM_MASK m.
Proof. intros. bitwise n. pose proof (KP_bits n). destruct (Z.testbit AE_IFMT n), (Z.testbit PERM_MASK n), (Z.testbit m n), (Z.testbit x n); try discriminate; reflexivity. Qed.

Lemma A_mode : forall e m, abs (fst (step1 false e (OMode m))) = fst (sp_step1 (abs e) (OMode m)).
Proof. intros. cbn [step1 fst]. go. reflexivity. Qed.
Lemma A_perm : forall e m, abs (fst (step1 false e (OPerm m))) = fst (sp_step1 (abs e) (OPerm m)).
Proof. intros. cbn [step1 fst]. go. rewrite mode_perm_K, mode_perm_P. reflexivity. Qed.
Lemma A_filetype : forall e m, abs (fst (step1 false e (OFiletype m))) = fst (sp_step1 (abs e) (OFiletype m)).
Proof. intros. cbn [step1 fst]. go. rewrite mode_ft_K, mode_ft_P. reflexivity. Qed.

Lemma acl_bits : forall sh p n, 0 <= n ->
  Z.testbit (Z.shiftl (Z.land p 7) sh) n = Z.testbit p (n - sh) && Z.testbit (Z.shiftl 7 sh) n.
Proof. intros. rewrite !Z.shiftl_spec by lia. rewrite Z.land_spec. reflexivity. Qed.

Lemma acl_S_facts : forall t n, let S := Z.shiftl 7 (acl_shift t) in
  Z.testbit AE_IFMT n && Z.testbit S n = false /\ (Z.testbit S n = true -> Z.testbit PERM_MASK n = true) /\
  (Z.testbit AE_IFMT n = true -> Z.testbit (Z.ones 32) n = true) /\
  (Z.testbit PERM_MASK n = true -> Z.testbit (Z.ones 32) n = true).
Proof.
  intros t n S. repeat split.
  - rewrite <- Z.land_spec. destruct t; change (Z.land AE_IFMT S) with 0; apply Z.bits_0.
  - intros H. assert (E : Z.land S PERM_MASK = S) by (destruct t; reflexivity).
    rewrite <- E in H. rewrite Z.land_spec in H. apply andb_true_iff in H. tauto.
  - intros H. rewrite <- KorP_bits. rewrite H. reflexivity.
  - intros H. rewrite <- KorP_bits. rewrite H. apply orb_true_r.
Qed.

Lemma acl_K : forall t m p, let sh := acl_shift t in
  Z.land AE_IFMT (Z.lor (Z.land m (Z.land (Z.lnot (Z.shiftl 7 sh)) (Z.ones 32))) (Z.shiftl (Z.land p 7) sh)) = Z.land AE_IFMT m.
Proof.
  intros. bitwise n. rewrite Z.lnot_spec, acl_bits by assumption.
  destruct (acl_S_facts t n) as (F1 & F2 & F3 & F4). fold sh in F1, F2.
  destruct (Z.testbit AE_IFMT n), (Z.testbit (Z.shiftl 7 sh) n), (Z.testbit m n), (Z.testbit p (n - sh)), (Z.testbit (Z.ones 32) n);
    cbn in *; try discriminate; try reflexivity; try (specialize (F3 eq_refl); discriminate).
Qed.

Lemma acl_P : forall t m p, let sh := acl_shift t in
  Z.land PERM_MASK (Z.lor (Z.land m (Z.land (Z.lnot (Z.shiftl 7 sh)) (Z.ones 32))) (Z.shiftl (Z.land p 7) sh)) =
  Z.lor (Z.land (Z.land PERM_MASK m) (Z.land (Z.lnot (Z.shiftl 7 sh)) (Z.ones 32))) (Z.shiftl (Z.land p 7) sh).
Proof.
  intros. bitwise n. rewrite Z.lnot_spec, acl_bits by assumption.
  destruct (acl_S_facts t n) as (F1 & F2 & F3 & F4). fold sh in F1, F2.
  destruct (Z.testbit PERM_MASK n), (Z.testbit (Z.shiftl 7 sh) n), (Z.testbit m n), (Z.testbit p (n - sh)), (Z.testbit (Z.ones 32) n);
    cbn in *; try discriminate; try reflexivity; try (specialize (F2 eq_refl); discriminate).
Qed.

Lemma A_acl : forall e t p, abs (fst (step1 false e (OAclSpecial t p))) = fst (sp_step1 (abs e) (OAclSpecial t p)).
Proof. intros. cbn [step1 fst]. go. rewrite acl_K, acl_P. reflexivity. Qed.

(* ---- dev *)
Lemma A_dev : forall e w p v, abs (fst (step1 false e (ODev w p v))) = fst (sp_step1 (abs e) (ODev w p v)).
Proof.
  intros. cbn [step1 fst]. destruct w, p; go; unfold split, g_major, g_minor; proj; try reflexivity.
  all: try (destruct (bd (dev e)); proj; reflexivity).
  all: try (destruct (bd (rdev e)); proj; reflexivity).
Qed.

Lemma A_symtype : forall e v, abs (fst (step1 false e (OSymtype v))) = fst (sp_step1 (abs e) (OSymtype v)).
Proof. intros. cbn [step1 fst]. go. reflexivity. Qed.

Lemma A_enc : forall e v, abs (fst (step1 false e (OEncData v))) = fst (sp_step1 (abs e) (OEncData v)) /\
                          abs (fst (step1 false e (OEncMeta v))) = fst (sp_step1 (abs e) (OEncMeta v)).
Proof.
  intros. cbn [step1 fst]. split; go; destruct (char_nonzero v); proj;
  change (Z.lor (enc e) 1) with (fl_set (enc e) 1); change (Z.lor (enc e) 2) with (fl_set (enc e) 2);
  change (Z.land (enc e) (Z.lnot 1)) with (fl_clr (enc e) 1); change (Z.land (enc e) (Z.lnot 2)) with (fl_clr (enc e) 2);
  flags; reflexivity.
Qed.

Lemma A_str : forall e f v a, abs (fst (step1 false e (OStr f v a))) = fst (sp_step1 (abs e) (OStr f v a)) /\
                              snd (step1 false e (OStr f v a)) = snd (sp_step1 (abs e) (OStr f v a)).
Proof.
  intros. cbn [step1]. split; destruct f; try destruct a; go; reflexivity.
Qed.

Lemma A_sparse : forall e off len, Inv e -> abs (fst (step1 false e (OSparseAdd off len))) = fst (sp_step1 (abs e) (OSparseAdd off len)).
Proof. intros e off len I. cbn [step1 fst]. go. rewrite (s64_id (size (idv e))) by (pose proof (inv_size e I); lia). reflexivity. Qed.

Lemma A_misc : forall e n v, abs (fst (step1 false e OSparseClear)) = fst (sp_step1 (abs e) OSparseClear) /\
  abs (fst (step1 false e (OXattrAdd n v))) = fst (sp_step1 (abs e) (OXattrAdd n v)) /\
  abs (fst (step1 false e OXattrClear)) = fst (sp_step1 (abs e) OXattrClear) /\
  abs (fst (step1 false e OClear)) = fst (sp_step1 (abs e) OClear).
Proof. intros. cbn [step1 fst]. repeat split; go; reflexivity. Qed.

Ltac lk1 Hh Hs := go; rewrite ?Hh, ?Hs; cbn [andb orb negb is_some upd_ret fst snd]; proj.
Ltac lk Hh Hs := lk1 Hh Hs; lk1 Hh Hs.

Lemma A_link : forall e f v a, Inv e ->
  abs (fst (step1 false e (OLink f v a))) = fst (sp_step1 (abs e) (OLink f v a)) /\
  snd (step1 false e (OLink f v a)) = snd (sp_step1 (abs e) (OLink f v a)).
Proof.
  intros e f v a I.
  pose proof (inv_excl e I) as X. pose proof (inv_none e I) as N. unfold has in X, N.
  destruct (fl_tst (aset e) AE_SET_HARDLINK) eqn:Hh, (fl_tst (aset e) AE_SET_SYMLINK) eqn:Hs; cbn in X; try discriminate;
  cbn [step1]; (destruct f; [destruct (is_vset v) eqn:Ev | idtac | idtac ]); destruct a; split;
  unfold do_hardlink, do_symlink, do_link; rewrite ?Ev; lk Hh Hs; rewrite ?Ev; try reflexivity.
Qed.

Lemma A_linkto : forall e f, Inv e -> abs (fst (step1 false e (OLinkTo f))) = fst (sp_step1 (abs e) (OLinkTo f)).
Proof.
  intros e f I.
  pose proof (inv_excl e I) as X. pose proof (inv_none e I) as N. unfold has in X, N.
  destruct (fl_tst (aset e) AE_SET_HARDLINK) eqn:Hh, (fl_tst (aset e) AE_SET_SYMLINK) eqn:Hs; cbn in X; try discriminate;
  try (pose proof (N eq_refl eq_refl) as N');
  cbn [step1 fst]; destruct f; unfold do_link_to; lk Hh Hs; try rewrite N'; try reflexivity.
Qed.



Ltac invf I :=
  unfold stat_compute, rdev_guard; unf; proj; flags;
  first [ exact (inv_excl _ I) | exact (inv_none _ I) | exact (inv_dev _ I) | exact (inv_rdev _ I)
        | exact (inv_rdev0 _ I) | exact (inv_mode _ I) | exact (inv_size _ I) | exact (inv_ino _ I)
        | exact (inv_stat _ I) | (intros; discriminate) | reflexivity | apply u64_range | idtac ].

Lemma Inv_init : Inv init.
Proof. constructor; try reflexivity; try (cbn; lia); intros; discriminate. Qed.

Lemma Inv_time : forall e k t ns, Inv e -> Inv (fst (step1 false e (OTime k t ns))).
Proof.
  intros e k t ns I. cbn [step1 fst]. unfold do_set_time. rewrite fix_ns_floor.
  destruct k; constructor; invf I.
Qed.

Lemma Inv_unset_time : forall e k, Inv e -> Inv (fst (step1 false e (OUnsetTime k))).
Proof.
  intros e k I. cbn [step1 fst]. unfold do_unset_time, do_set_time. rewrite fix_ns_floor.
  destruct k; constructor; invf I.
Qed.

Lemma Inv_id : forall e k v, Inv e -> Inv (fst (step1 false e (OId k v))).
Proof.
  intros e k v I. cbn [step1 fst]. destruct k; constructor; invf I.
  all: rewrite ?clamp0_max, ?max0_s64_u64; pose proof (s64_range v); try lia.
Qed.

Lemma Inv_unset_size : forall e, Inv e -> Inv (fst (step1 false e OUnsetSize)).
Proof. intros e I. cbn [step1 fst]. unfold do_unset_size. constructor; invf I. all: cbn; lia. Qed.

Lemma ones_u32 : forall m, Z.land (u32 m) (Z.ones 32) = u32 m.
Proof. intros. rewrite Z.land_ones by lia. unfold u32. apply Z.mod_mod. lia. Qed.

Lemma KP_ones : forall n, (Z.testbit AE_IFMT n = true -> Z.testbit (Z.ones 32) n = true) /\
                         (Z.testbit PERM_MASK n = true -> Z.testbit (Z.ones 32) n = true).
Proof. intros. rewrite <- KorP_bits. split; intros ->; [reflexivity | apply orb_true_r]. Qed.

Lemma mode_perm_ones : forall m x, Z.land (Z.lor (Z.land m AE_IFMT) (Z.land PERM_MASK x)) (Z.ones 32) = Z.lor (Z.land m AE_IFMT) (Z.land PERM_MASK x).
Proof. intros. bitwise n. destruct (KP_ones n) as [F1 F2].
  destruct (Z.testbit AE_IFMT n), (Z.testbit PERM_MASK n), (Z.testbit m n), (Z.testbit x n), (Z.testbit (Z.ones 32) n); cbn in *;
  try reflexivity; try (specialize (F1 eq_refl); discriminate); try (specialize (F2 eq_refl); discriminate). Qed.
Lemma mode_ft_ones : forall m x, Z.land (Z.lor (Z.land m PERM_MASK) (Z.land AE_IFMT x)) (Z.ones 32) = Z.lor (Z.land m PERM_MASK) (Z.land AE_IFMT x).
Proof. intros. bitwise n. destruct (KP_ones n) as [F1 F2].
  destruct (Z.testbit AE_IFMT n), (Z.testbit PERM_MASK n), (Z.testbit m n), (Z.testbit x n), (Z.testbit (Z.ones 32) n); cbn in *;
  try reflexivity; try (specialize (F1 eq_refl); discriminate); try (specialize (F2 eq_refl); discriminate). Qed.
Lemma acl_ones : forall t m p, let sh := acl_shift t in Z.land m (Z.ones 32) = m ->
  Z.land (Z.lor (Z.land m (Z.land (Z.lnot (Z.shiftl 7 sh)) (Z.ones 32))) (Z.shiftl (Z.land p 7) sh)) (Z.ones 32) =
  Z.lor (Z.land m (Z.land (Z.lnot (Z.shiftl 7 sh)) (Z.ones 32))) (Z.shiftl (Z.land p 7) sh).
Proof.
  intros t m p sh Hm. bitwise n. rewrite Z.lnot_spec, acl_bits by assumption.
  destruct (acl_S_facts t n) as (F1 & F2 & F3 & F4). fold sh in F1, F2.
  destruct (Z.testbit PERM_MASK n), (Z.testbit (Z.shiftl 7 sh) n), (Z.testbit m n), (Z.testbit p (n - sh)), (Z.testbit (Z.ones 32) n);
    cbn in *; try discriminate; try reflexivity; try (specialize (F2 eq_refl); discriminate); try (specialize (F4 eq_refl); discriminate).
Qed.


Ltac invg I :=
  pose proof (inv_dev _ I); pose proof (inv_rdev _ I); pose proof (inv_size _ I); pose proof (inv_ino _ I);
  constructor; invf I; try lia.

Lemma Inv_mode : forall e m, Inv e -> Inv (fst (step1 false e (OMode m))) /\ Inv (fst (step1 false e (OPerm m))) /\ Inv (fst (step1 false e (OFiletype m))).
Proof.
  intros e m I. cbn [step1 fst]. split; [|split]; invg I.
  - apply ones_u32.
  - apply mode_perm_ones.
  - apply mode_ft_ones.
Qed.

Lemma Inv_acl : forall e t p, Inv e -> Inv (fst (step1 false e (OAclSpecial t p))).
Proof. intros e t p I. cbn [step1 fst]. invg I. apply acl_ones. exact (inv_mode _ I). Qed.

Lemma Inv_dev : forall e w p v, Inv e -> Inv (fst (step1 false e (ODev w p v))).
Proof.
  intros e w p v I. cbn [step1 fst]. destruct w, p; invg I.
  all: unfold split; destruct (bd (dev e)); proj; lia.
Qed.

Lemma Inv_small : forall e v, Inv e -> Inv (fst (step1 false e (OSymtype v))) /\ Inv (fst (step1 false e (OEncData v))) /\
  Inv (fst (step1 false e (OEncMeta v))) /\ Inv (fst (step1 false e OSparseClear)) /\ Inv (fst (step1 false e OXattrClear)) /\
  Inv (fst (step1 false e OClear)).
Proof.
  intros e v I. cbn [step1 fst]. repeat apply conj; try exact Inv_init; invg I.
Qed.


Lemma Inv_str : forall e f v a n x off len, Inv e -> Inv (fst (step1 false e (OStr f v a))) /\
  Inv (fst (step1 false e (OXattrAdd n x))) /\ Inv (fst (step1 false e (OSparseAdd off len))).
Proof.
  intros e f v a n x off len I. cbn [step1 fst]. split; [|split].
  - destruct f; try destruct a; cbn [do_str fst]; try exact I; invg I.
  - invg I.
  - invg I.
Qed.

Ltac lki Hh Hs := unfold stat_compute, rdev_guard; unf; proj; flags; rewrite ?Hh, ?Hs; cbn [andb orb negb is_some upd_ret fst snd]; proj.

Lemma Inv_link : forall e f v a, Inv e -> Inv (fst (step1 false e (OLink f v a))).
Proof.
  intros e f v a I.
  pose proof (inv_excl e I) as X. pose proof (inv_none e I) as N. unfold has in X, N.
  pose proof (inv_dev _ I); pose proof (inv_rdev _ I); pose proof (inv_size _ I); pose proof (inv_ino _ I).
  destruct (fl_tst (aset e) AE_SET_HARDLINK) eqn:Hh, (fl_tst (aset e) AE_SET_SYMLINK) eqn:Hs; cbn in X; try discriminate;
  cbn [step1]; (destruct f; [destruct (is_vset v) eqn:Ev | idtac | idtac ]); destruct a;
  unfold do_hardlink, do_symlink, do_link; rewrite ?Ev; lki Hh Hs; lki Hh Hs; try exact I.
  all: constructor; lki Hh Hs; lki Hh Hs; try lia; try reflexivity; try (intros; discriminate);
       first [ exact (inv_rdev0 _ I) | exact (inv_mode _ I) | exact (inv_stat _ I) | idtac ].
Qed.

Lemma Inv_linkto : forall e f, Inv e -> Inv (fst (step1 false e (OLinkTo f))).
Proof.
  intros e f I.
  pose proof (inv_excl e I) as X. pose proof (inv_none e I) as N. unfold has in X, N.
  pose proof (inv_dev _ I); pose proof (inv_rdev _ I); pose proof (inv_size _ I); pose proof (inv_ino _ I).
  destruct (fl_tst (aset e) AE_SET_HARDLINK) eqn:Hh, (fl_tst (aset e) AE_SET_SYMLINK) eqn:Hs; cbn in X; try discriminate;
  cbn [step1 fst]; destruct f; unfold do_link_to; lki Hh Hs; lki Hh Hs; try exact I.
  all: constructor; lki Hh Hs; lki Hh Hs; try lia; try reflexivity; try (intros; discriminate);
       first [ exact (inv_rdev0 _ I) | exact (inv_mode _ I) | exact (inv_stat _ I) | idtac ].
Qed.

