(* Lemmas about the archive_entry model (C14): arithmetic of FIX_NS and of the glibc dev_t layout,
   the ae_set bitmap, the mode partition, the refinement of the abstract specification, clone. *)
From Coq Require Import List ZArith Bool Lia Permutation.
From LA Require Import Base.Val Gen.EntryConsts Entry.EntryDefs.
Import ListNotations.
Local Open Scope Z_scope.

(* ================================================================ integer conversions *)
Lemma s64_id : forall z, - 2^63 <= z < 2^63 -> s64 z = z.
Proof. intros z H. unfold s64. rewrite Z.mod_small; lia. Qed.

Lemma s64_range : forall z, - 2^63 <= s64 z < 2^63.
Proof. intros z. unfold s64. pose proof (Z.mod_pos_bound (z + 2^63) (2^64) ltac:(lia)). lia. Qed.

Lemma s64_add_l : forall a b, s64 (s64 a + b) = s64 (a + b).
Proof.
  intros a b. unfold s64.
  replace ((a + 2^63) mod 2^64 - 2^63 + b + 2^63) with ((a + 2^63) mod 2^64 + b) by lia.
  rewrite Zplus_mod_idemp_l. f_equal. f_equal. lia.
Qed.

Lemma s64_idem : forall a, s64 (s64 a) = s64 a.
Proof. intros a. apply s64_id, s64_range. Qed.

Lemma u32_range : forall z, 0 <= u32 z < 2^32.
Proof. intros. unfold u32. apply Z.mod_pos_bound. lia. Qed.
Lemma u64_range : forall z, 0 <= u64 z < 2^64.
Proof. intros. unfold u64. apply Z.mod_pos_bound. lia. Qed.
Lemma u32_id : forall z, 0 <= z < 2^32 -> u32 z = z.
Proof. intros. unfold u32. apply Z.mod_small. lia. Qed.
Lemma u64_id : forall z, 0 <= z < 2^64 -> u64 z = z.
Proof. intros. unfold u64. apply Z.mod_small. lia. Qed.

(* ================================================================ FIX_NS *)
(* for any positive divisor: truncating division plus the negative-remainder branch is floor
   division (the seconds wrap like int64 arithmetic does) *)
Definition fix_ns_with (D t ns : Z) : Z * Z :=
  let t1 := s64 (t + Z.quot ns D) in
  let n1 := Z.rem ns D in
  if n1 <? 0 then (s64 (t1 - 1), n1 + D) else (t1, n1).

Lemma fix_ns_with_floor : forall D t ns, 0 < D ->
  fix_ns_with D t ns = (s64 (t + ns / D), ns mod D).
Proof.
  intros D t ns HD. unfold fix_ns_with.
  destruct (Z.rem ns D <? 0) eqn:E.
  - apply Z.ltb_lt in E.
    replace (s64 (t + Z.quot ns D) - 1) with (s64 (t + Z.quot ns D) + (-1)) by lia.
    rewrite s64_add_l.
    assert (Z.quot ns D - 1 = ns / D /\ Z.rem ns D + D = ns mod D) as [H1 H2].
    { pose proof (Z.quot_rem' ns D) as Hq.
      pose proof (Z.rem_bound_abs ns D ltac:(lia)) as Hb.
      assert (Hr : 0 <= Z.rem ns D + D < D) by lia.
      assert (He : ns = D * (Z.quot ns D - 1) + (Z.rem ns D + D)) by lia.
      split; [ apply (Z.div_unique ns D _ _ (or_introl Hr) He)
             | apply (Z.mod_unique ns D _ _ (or_introl Hr) He) ]. }
    rewrite <- H1, H2. f_equal. f_equal. lia.
  - apply Z.ltb_ge in E.
    assert (Z.quot ns D = ns / D /\ Z.rem ns D = ns mod D) as [H1 H2].
    { pose proof (Z.quot_rem' ns D) as Hq.
      pose proof (Z.rem_bound_abs ns D ltac:(lia)) as Hb.
      assert (Hr : 0 <= Z.rem ns D < D) by lia.
      split; [ apply (Z.div_unique ns D _ _ (or_introl Hr) Hq)
             | apply (Z.mod_unique ns D _ _ (or_introl Hr) Hq) ]. }
    rewrite H1, H2. reflexivity.
Qed.

Lemma FIX_NS_DIV_pos : 0 < FIX_NS_DIV.
Proof. reflexivity. Qed.

Lemma fix_ns_floor : forall t ns, fix_ns t ns = (s64 (t + ns / FIX_NS_DIV), ns mod FIX_NS_DIV).
Proof. intros. apply (fix_ns_with_floor FIX_NS_DIV t ns FIX_NS_DIV_pos). Qed.

(* the property: the nanoseconds end up in [0, D) and, when the seconds stay inside int64, the
   instant  t * D + ns  is preserved *)
Lemma fix_ns_normal : forall t ns t' ns',
  fix_ns t ns = (t', ns') ->
  0 <= ns' < FIX_NS_DIV /\
  (- 2^63 <= t + ns / FIX_NS_DIV < 2^63 -> t' * FIX_NS_DIV + ns' = t * FIX_NS_DIV + ns).
Proof.
  intros t ns t' ns' H. rewrite fix_ns_floor in H. inversion H; subst; clear H.
  pose proof FIX_NS_DIV_pos as HD.
  split.
  - apply Z.mod_pos_bound; assumption.
  - intros Hr. rewrite s64_id by assumption.
    pose proof (Z.div_mod ns FIX_NS_DIV ltac:(lia)). nia.
Qed.

(* ================================================================ glibc dev_t layout *)
Lemma dev_make_split : forall d, 0 <= d < 2^64 -> dev_make (dev_major d) (dev_minor d) = d.
Proof.
  intros d H. unfold dev_make, dev_major, dev_minor, u32.
  Z.to_euclidean_division_equations. lia.
Qed.

Lemma dev_major_make : forall a b, dev_major (dev_make a b) = u32 a.
Proof.
  intros a b. unfold dev_make, dev_major.
  pose proof (u32_range a). pose proof (u32_range b).
  generalize dependent (u32 a). generalize dependent (u32 b). intros y Hy x Hx.
  Z.to_euclidean_division_equations. lia.
Qed.

Lemma dev_minor_make : forall a b, dev_minor (dev_make a b) = u32 b.
Proof.
  intros a b. unfold dev_make, dev_minor.
  pose proof (u32_range a). pose proof (u32_range b).
  generalize dependent (u32 a). generalize dependent (u32 b). intros y Hy x Hx.
  Z.to_euclidean_division_equations. lia.
Qed.

Lemma dev_make_range : forall a b, 0 <= dev_make a b < 2^64.
Proof.
  intros a b. unfold dev_make.
  pose proof (u32_range a). pose proof (u32_range b).
  generalize dependent (u32 a). generalize dependent (u32 b). intros y Hy x Hx.
  Z.to_euclidean_division_equations. lia.
Qed.

(* ================================================================ the ae_set bitmap *)
Definition is_bit (f : Z) : bool := (0 <? f) && (f =? 2 ^ Z.log2 f).

Lemma land_pow2 : forall s i, 0 <= i -> Z.land s (2^i) = if Z.testbit s i then 2^i else 0.
Proof.
  intros s i Hi. apply Z.bits_inj'. intros n Hn.
  rewrite Z.land_spec, Z.pow2_bits_eqb by lia.
  destruct (Z.eqb_spec i n) as [->|Hne].
  - rewrite andb_true_r. destruct (Z.testbit s n) eqn:E.
    + rewrite Z.pow2_bits_true by lia. reflexivity.
    + rewrite Z.bits_0. reflexivity.
  - rewrite andb_false_r. destruct (Z.testbit s i).
    + rewrite Z.pow2_bits_false by lia. reflexivity.
    + rewrite Z.bits_0. reflexivity.
Qed.

Lemma is_bit_pow : forall f, is_bit f = true -> 0 <= Z.log2 f /\ f = 2 ^ Z.log2 f /\ 0 < f.
Proof.
  intros f H. unfold is_bit in H. apply andb_true_iff in H. destruct H as [H1 H2].
  apply Z.ltb_lt in H1. apply Z.eqb_eq in H2. split; [apply Z.log2_nonneg|]. split; assumption.
Qed.

Lemma tst_bit : forall s f, is_bit f = true -> fl_tst s f = Z.testbit s (Z.log2 f).
Proof.
  intros s f H. destruct (is_bit_pow f H) as (Hi & Hf & Hp).
  unfold fl_tst. rewrite Hf at 1. rewrite land_pow2 by assumption.
  destruct (Z.testbit s (Z.log2 f)).
  - rewrite <- Hf. destruct (Z.eqb_spec f 0); [lia | reflexivity].
  - reflexivity.
Qed.

Lemma bit_eqb : forall f g, is_bit f = true -> is_bit g = true -> (f =? g) = (Z.log2 f =? Z.log2 g).
Proof.
  intros f g Hf Hg. destruct (is_bit_pow f Hf) as (Hi & Hfe & Hp). destruct (is_bit_pow g Hg) as (Hj & Hge & Hq).
  destruct (Z.eqb_spec (Z.log2 f) (Z.log2 g)) as [E|E].
  - apply Z.eqb_eq. rewrite Hfe, Hge, E. reflexivity.
  - apply Z.eqb_neq. intros ->. apply E. reflexivity.
Qed.

Lemma tst_set : forall s f g, is_bit f = true -> is_bit g = true ->
  fl_tst (fl_set s f) g = (f =? g) || fl_tst s g.
Proof.
  intros s f g Hf Hg. rewrite !tst_bit by assumption. rewrite (bit_eqb f g Hf Hg).
  destruct (is_bit_pow f Hf) as (Hi & Hfe & Hp). destruct (is_bit_pow g Hg) as (Hj & Hge & Hq).
  unfold fl_set. rewrite Z.lor_spec. rewrite Hfe at 1. rewrite Z.pow2_bits_eqb by assumption.
  apply orb_comm.
Qed.

Lemma tst_clr : forall s f g, is_bit f = true -> is_bit g = true ->
  fl_tst (fl_clr s f) g = negb (f =? g) && fl_tst s g.
Proof.
  intros s f g Hf Hg. rewrite !tst_bit by assumption. rewrite (bit_eqb f g Hf Hg).
  destruct (is_bit_pow f Hf) as (Hi & Hfe & Hp). destruct (is_bit_pow g Hg) as (Hj & Hge & Hq).
  unfold fl_clr. rewrite Z.land_spec, Z.lnot_spec by assumption. rewrite Hfe at 1.
  rewrite Z.pow2_bits_eqb by assumption. apply andb_comm.
Qed.

Lemma get_tst : forall s f, is_bit f = true -> fl_get s f = if fl_tst s f then f else 0.
Proof.
  intros s f H. rewrite tst_bit by assumption. destruct (is_bit_pow f H) as (Hi & Hf & Hp).
  unfold fl_get. rewrite Hf at 1. rewrite land_pow2 by assumption. rewrite <- Hf. reflexivity.
Qed.

Lemma fl_set_lor : forall s f g, fl_set s (Z.lor f g) = fl_set (fl_set s f) g.
Proof. intros. unfold fl_set. apply Z.lor_assoc. Qed.

Lemma tst_0 : forall f, fl_tst 0 f = false.
Proof. intros. unfold fl_tst. rewrite Z.land_0_l. reflexivity. Qed.

(* the generated constants are pairwise distinct single bits (re-checked on every run) *)
Lemma AE_SET_wf : forallb is_bit AE_SET_ALL = true /\ NoDup AE_SET_ALL /\ AE_SET_UNKNOWN_COUNT = 0.
Proof.
  split; [vm_compute; reflexivity|]. split; [|reflexivity].
  unfold AE_SET_ALL. repeat (constructor; [simpl; intuition discriminate|]). constructor.
Qed.

(* evaluate closed comparisons of constants *)
Ltac eval_eqb :=
  repeat match goal with
  | |- context [Z.eqb ?a ?b] =>
      let v := eval vm_compute in (Z.eqb a b) in
      match v with
      | true => change (Z.eqb a b) with true
      | false => change (Z.eqb a b) with false
      end
  end.
Ltac flags :=
  repeat (rewrite ?fl_set_lor; rewrite ?tst_set, ?tst_clr by reflexivity);
  eval_eqb; cbn [orb andb negb].
