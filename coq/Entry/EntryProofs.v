(* Lemmas about the archive_entry model (C14): arithmetic of FIX_NS and of the glibc dev_t layout,
   the ae_set bitmap, the mode partition, the refinement of the abstract specification, clone. *)
From Coq Require Import List ZArith NArith Bool Lia Permutation.
From LA Require Import Base.Val Gen.EntryConsts Entry.EntryDefs.
Import ListNotations.
Local Open Scope Z_scope.

(* ================================================================ integer conversions *)
Lemma s64_id : forall z, - 2^63 <= z < 2^63 -> s64 z = z.
Proof. intros z H. unfold s64. rewrite Z.mod_small; lia. Qed.

Lemma s64_range : forall z, - 2^63 <= s64 z < 2^63.
Proof. intros z. unfold s64. pose proof (Z.mod_pos_bound (z + 2^63) (2^64) ltac:(lia)). lia. Qed.

Lemma s64_add_l : forall a b, s64 (s64 a + b) = s64 (a + b).
Proof.
  intros a b. unfold s64.
  replace ((a + 2^63) mod 2^64 - 2^63 + b + 2^63) with ((a + 2^63) mod 2^64 + b) by lia.
  rewrite Zplus_mod_idemp_l. f_equal. f_equal. lia.
Qed.

Lemma s64_idem : forall a, s64 (s64 a) = s64 a.
Proof. intros a. apply s64_id, s64_range. Qed.

Lemma u32_range : forall z, 0 <= u32 z < 2^32.
Proof. intros. unfold u32. apply Z.mod_pos_bound. lia. Qed.
Lemma u64_range : forall z, 0 <= u64 z < 2^64.
Proof. intros. unfold u64. apply Z.mod_pos_bound. lia. Qed.
Lemma u32_id : forall z, 0 <= z < 2^32 -> u32 z = z.
Proof. intros. unfold u32. apply Z.mod_small. lia. Qed.
Lemma u64_id : forall z, 0 <= z < 2^64 -> u64 z = z.
Proof. intros. unfold u64. apply Z.mod_small. lia. Qed.

(* ================================================================ FIX_NS *)
(* for any positive divisor: truncating division plus the negative-remainder branch is floor
   division (the seconds wrap like int64 arithmetic does) *)
Definition fix_ns_with (D t ns : Z) : Z * Z :=
  let t1 := s64 (t + Z.quot ns D) in
  let n1 := Z.rem ns D in
  if n1 <? 0 then (s64 (t1 - 1), n1 + D) else (t1, n1).

Lemma fix_ns_with_floor : forall D t ns, 0 < D ->
  fix_ns_with D t ns = (s64 (t + ns / D), ns mod D).
Proof.
  intros D t ns HD. unfold fix_ns_with.
  destruct (Z.rem ns D <? 0) eqn:E.
  - apply Z.ltb_lt in E.
    replace (s64 (t + Z.quot ns D) - 1) with (s64 (t + Z.quot ns D) + (-1)) by lia.
    rewrite s64_add_l.
    assert (Z.quot ns D - 1 = ns / D /\ Z.rem ns D + D = ns mod D) as [H1 H2].
    { pose proof (Z.quot_rem' ns D) as Hq.
      pose proof (Z.rem_bound_abs ns D ltac:(lia)) as Hb.
      assert (Hr : 0 <= Z.rem ns D + D < D) by lia.
      assert (He : ns = D * (Z.quot ns D - 1) + (Z.rem ns D + D)) by lia.
      split; [ apply (Z.div_unique ns D _ _ (or_introl Hr) He)
             | apply (Z.mod_unique ns D _ _ (or_introl Hr) He) ]. }
    rewrite <- H1, H2. f_equal. f_equal. lia.
  - apply Z.ltb_ge in E.
    assert (Z.quot ns D = ns / D /\ Z.rem ns D = ns mod D) as [H1 H2].
    { pose proof (Z.quot_rem' ns D) as Hq.
      pose proof (Z.rem_bound_abs ns D ltac:(lia)) as Hb.
      assert (Hr : 0 <= Z.rem ns D < D) by lia.
      split; [ apply (Z.div_unique ns D _ _ (or_introl Hr) Hq)
             | apply (Z.mod_unique ns D _ _ (or_introl Hr) Hq) ]. }
    rewrite H1, H2. reflexivity.
Qed.

Lemma FIX_NS_DIV_pos : 0 < FIX_NS_DIV.
Proof. reflexivity. Qed.

Lemma fix_ns_floor : forall t ns, fix_ns t ns = (s64 (t + ns / FIX_NS_DIV), ns mod FIX_NS_DIV).
Proof. intros. apply (fix_ns_with_floor FIX_NS_DIV t ns FIX_NS_DIV_pos). Qed.

(* the property: the nanoseconds end up in [0, D) and, when the seconds stay inside int64, the
   instant  t * D + ns  is preserved *)
Lemma fix_ns_normal : forall t ns t' ns',
  fix_ns t ns = (t', ns') ->
  0 <= ns' < FIX_NS_DIV /\
  (- 2^63 <= t + ns / FIX_NS_DIV < 2^63 -> t' * FIX_NS_DIV + ns' = t * FIX_NS_DIV + ns).
Proof.
  intros t ns t' ns' H. rewrite fix_ns_floor in H. inversion H; subst; clear H.
  pose proof FIX_NS_DIV_pos as HD.
  split.
  - apply Z.mod_pos_bound; assumption.
  - intros Hr. rewrite s64_id by assumption.
    pose proof (Z.div_mod ns FIX_NS_DIV ltac:(lia)). nia.
Qed.

(* ================================================================ glibc dev_t layout *)
Lemma dev_make_split : forall d, 0 <= d < 2^64 -> dev_make (dev_major d) (dev_minor d) = d.
Proof.
  intros d H. unfold dev_make, dev_major, dev_minor, u32.
  Z.to_euclidean_division_equations. lia.
Qed.

Lemma dev_major_make : forall a b, dev_major (dev_make a b) = u32 a.
Proof.
  intros a b. unfold dev_make, dev_major.
  pose proof (u32_range a). pose proof (u32_range b).
  generalize dependent (u32 a). generalize dependent (u32 b). intros y Hy x Hx.
  Z.to_euclidean_division_equations. lia.
Qed.

Lemma dev_minor_make : forall a b, dev_minor (dev_make a b) = u32 b.
Proof.
  intros a b. unfold dev_make, dev_minor.
  pose proof (u32_range a). pose proof (u32_range b).
  generalize dependent (u32 a). generalize dependent (u32 b). intros y Hy x Hx.
  Z.to_euclidean_division_equations. lia.
Qed.

Lemma dev_make_range : forall a b, 0 <= dev_make a b < 2^64.
Proof.
  intros a b. unfold dev_make.
  pose proof (u32_range a). pose proof (u32_range b).
  generalize dependent (u32 a). generalize dependent (u32 b). intros y Hy x Hx.
  Z.to_euclidean_division_equations. lia.
Qed.

(* ================================================================ the ae_set bitmap *)
Definition is_bit (f : Z) : bool := (0 <? f) && (f =? 2 ^ Z.log2 f).

Lemma land_pow2 : forall s i, 0 <= i -> Z.land s (2^i) = if Z.testbit s i then 2^i else 0.
Proof.
  intros s i Hi. apply Z.bits_inj'. intros n Hn.
  rewrite Z.land_spec, Z.pow2_bits_eqb by lia.
  destruct (Z.eqb_spec i n) as [->|Hne].
  - rewrite andb_true_r. destruct (Z.testbit s n) eqn:E.
    + rewrite Z.pow2_bits_true by lia. reflexivity.
    + rewrite Z.bits_0. reflexivity.
  - rewrite andb_false_r. destruct (Z.testbit s i).
    + rewrite Z.pow2_bits_false by lia. reflexivity.
    + rewrite Z.bits_0. reflexivity.
Qed.

Lemma is_bit_pow : forall f, is_bit f = true -> 0 <= Z.log2 f /\ f = 2 ^ Z.log2 f /\ 0 < f.
Proof.
  intros f H. unfold is_bit in H. apply andb_true_iff in H. destruct H as [H1 H2].
  apply Z.ltb_lt in H1. apply Z.eqb_eq in H2. split; [apply Z.log2_nonneg|]. split; assumption.
Qed.

Lemma tst_bit : forall s f, is_bit f = true -> fl_tst s f = Z.testbit s (Z.log2 f).
Proof.
  intros s f H. destruct (is_bit_pow f H) as (Hi & Hf & Hp).
  unfold fl_tst. rewrite Hf at 1. rewrite land_pow2 by assumption.
  destruct (Z.testbit s (Z.log2 f)).
  - rewrite <- Hf. destruct (Z.eqb_spec f 0); [lia | reflexivity].
  - reflexivity.
Qed.

Lemma bit_eqb : forall f g, is_bit f = true -> is_bit g = true -> (f =? g) = (Z.log2 f =? Z.log2 g).
Proof.
  intros f g Hf Hg. destruct (is_bit_pow f Hf) as (Hi & Hfe & Hp). destruct (is_bit_pow g Hg) as (Hj & Hge & Hq).
  destruct (Z.eqb_spec (Z.log2 f) (Z.log2 g)) as [E|E].
  - apply Z.eqb_eq. rewrite Hfe, Hge, E. reflexivity.
  - apply Z.eqb_neq. intros ->. apply E. reflexivity.
Qed.

Lemma tst_set : forall s f g, is_bit f = true -> is_bit g = true ->
  fl_tst (fl_set s f) g = (f =? g) || fl_tst s g.
Proof.
  intros s f g Hf Hg. rewrite !tst_bit by assumption. rewrite (bit_eqb f g Hf Hg).
  destruct (is_bit_pow f Hf) as (Hi & Hfe & Hp). destruct (is_bit_pow g Hg) as (Hj & Hge & Hq).
  unfold fl_set. rewrite Z.lor_spec. rewrite Hfe at 1. rewrite Z.pow2_bits_eqb by assumption.
  apply orb_comm.
Qed.

Lemma tst_clr : forall s f g, is_bit f = true -> is_bit g = true ->
  fl_tst (fl_clr s f) g = negb (f =? g) && fl_tst s g.
Proof.
  intros s f g Hf Hg. rewrite !tst_bit by assumption. rewrite (bit_eqb f g Hf Hg).
  destruct (is_bit_pow f Hf) as (Hi & Hfe & Hp). destruct (is_bit_pow g Hg) as (Hj & Hge & Hq).
  unfold fl_clr. rewrite Z.land_spec, Z.lnot_spec by assumption. rewrite Hfe at 1.
  rewrite Z.pow2_bits_eqb by assumption. apply andb_comm.
Qed.

Lemma get_tst : forall s f, is_bit f = true -> fl_get s f = if fl_tst s f then f else 0.
Proof.
  intros s f H. rewrite tst_bit by assumption. destruct (is_bit_pow f H) as (Hi & Hf & Hp).
  unfold fl_get. rewrite Hf at 1. rewrite land_pow2 by assumption. rewrite <- Hf. reflexivity.
Qed.

Lemma fl_set_lor : forall s f g, fl_set s (Z.lor f g) = fl_set (fl_set s f) g.
Proof. intros. unfold fl_set. apply Z.lor_assoc. Qed.

Lemma tst_0 : forall f, fl_tst 0 f = false.
Proof. intros. unfold fl_tst. rewrite Z.land_0_l. reflexivity. Qed.

(* the generated constants are pairwise distinct single bits (re-checked on every run) *)
Lemma AE_SET_wf : forallb is_bit AE_SET_ALL = true /\ NoDup AE_SET_ALL /\ AE_SET_UNKNOWN_COUNT = 0.
Proof.
  split; [vm_compute; reflexivity|]. split; [|reflexivity].
  unfold AE_SET_ALL. repeat (constructor; [simpl; intuition discriminate|]). constructor.
Qed.

(* evaluate closed comparisons of constants *)
Ltac eval_eqb :=
  repeat match goal with
  | |- context [Z.eqb ?a ?b] =>
      let v := eval vm_compute in (Z.eqb a b) in
      match v with
      | true => change (Z.eqb a b) with true
      | false => change (Z.eqb a b) with false
      end
  end.
Ltac flags :=
  repeat (rewrite ?fl_set_lor; rewrite ?tst_set, ?tst_clr by reflexivity);
  eval_eqb; cbn [orb andb negb].

(* ================================================================ abstraction and invariant *)


Definition abs_tm (e : entry) (k : timek) : tval :=
  (sec (get_tm k (tms e)), nsec (get_tm k (tms e)), has e (time_flag k)).
Definition abs_dv (d : dv) (f : bool) : Z * Z * bool := (g_major d, g_minor d, f).
Definition abs (e : entry) : spec :=
  mkSpec (mkSt (abs_tm e KA) (abs_tm e KB) (abs_tm e KC) (abs_tm e KM))
    (uid (idv e), has e AE_SET_UID) (gid (idv e), has e AE_SET_GID) (ino (idv e), has e AE_SET_INO)
    (size (idv e), has e AE_SET_SIZE) (nlink (idv e))
    (Z.land AE_IFMT (mode e), has e AE_SET_FILETYPE) (Z.land PERM_MASK (mode e), has e AE_SET_PERM)
    (abs_dv (dev e) (has e AE_SET_DEV)) (abs_dv (rdev e) (has e AE_SET_RDEV))
    (symtype e) (fl_tst (enc e) 1) (fl_tst (enc e) 2)
    (if has e AE_SET_HARDLINK then Some (linkname (str e)) else None)
    (if has e AE_SET_SYMLINK then Some (linkname (str e)) else None)
    (mkSs (pathname (str e)) (uname (str e)) (gname (str e)) (sourcepath (str e)) (fflags (str e)))
    (sparse_r e) (xattrs e).

Record Inv (e : entry) : Prop := mkInv {
  inv_excl : has e AE_SET_HARDLINK && has e AE_SET_SYMLINK = false;
  inv_none : has e AE_SET_HARDLINK = false -> has e AE_SET_SYMLINK = false -> linkname (str e) = None;
  inv_dev : 0 <= comb (dev e) < 2^64;
  inv_rdev : 0 <= comb (rdev e) < 2^64;
  inv_rdev0 : has e AE_SET_RDEV = false -> rdev e = dv0;
  inv_mode : Z.land (mode e) (Z.ones 32) = mode e;
  inv_size : 0 <= size (idv e) < 2^63;
  inv_ino : 0 <= ino (idv e) < 2^63;
  inv_stat : stat_valid e = true -> stat_c e = stat_compute e
}.

Ltac unf := unfold step1, do_set_time, do_unset_time, do_set_id, do_unset_size, do_set_mode, do_set_perm, do_set_filetype,
  do_acl_special, do_set_dev, do_set_rdev, do_enc, do_hardlink, do_symlink, do_link, do_link_to, do_str, do_sparse_add,
  flag_on, flag_off, has, set_linkname, with_tms, with_idv, with_dev, with_rdev, with_mode, with_mode_acl, with_aset, with_str,
  with_symtype, with_enc, with_sparse, with_xattrs.

Ltac proj := cbn [fst snd tms idv dev rdev mode aset str symtype enc sparse_r xattrs stat_valid stat_c
  sec nsec t_a t_b t_c t_m get_tm set_tm time_flag uid gid ino size nlink bd comb maj mnr
  linkname pathname uname gname sourcepath fflags
  s_times s_uid s_gid s_ino s_size s_nlink s_filetype s_perm s_dev s_rdev s_symtype s_encdata s_encmeta s_hard s_sym
  s_strs s_sparse s_xattr st_a st_b st_c st_m st_get st_set ss_get ss_set ss_path ss_uname ss_gname ss_source ss_fflags].


Ltac spx := unfold sp_step1, sp_set_time, sp_set_id, sp_set_mode, sp_set_dev, sp_time, sp_times, sp_uid, sp_gid, sp_ino, sp_size, sp_nlink,
  sp_filetype, sp_perm, sp_dev, sp_rdev, sp_symtype, sp_encdata, sp_encmeta, sp_links, sp_str, sp_strs, sp_sparse, sp_xattr.
Ltac go := unfold abs, abs_tm, abs_dv; spx; unf; proj; flags.

Lemma mod_D_u32 : forall x, u32 (x mod FIX_NS_DIV) = x mod FIX_NS_DIV.
Proof. intros. apply u32_id. pose proof (Z.mod_pos_bound x FIX_NS_DIV FIX_NS_DIV_pos). unfold FIX_NS_DIV in *. lia. Qed.

Lemma A_time : forall e k t ns, abs (fst (step1 false e (OTime k t ns))) = fst (sp_step1 (abs e) (OTime k t ns)).
Proof.
  intros. cbn [step1 fst]. unfold do_set_time, norm_time. rewrite fix_ns_floor.
  destruct k; go; rewrite mod_D_u32; reflexivity.
Qed.

Lemma A_unset_time : forall e k, abs (fst (step1 false e (OUnsetTime k))) = fst (sp_step1 (abs e) (OUnsetTime k)).
Proof.
  intros. cbn [step1 fst]. unfold do_unset_time, do_set_time. rewrite fix_ns_floor.
  change (s64 0) with 0. change (0 / FIX_NS_DIV) with 0. change (0 mod FIX_NS_DIV) with 0. change (s64 (0+0)) with 0. change (u32 0) with 0.
  destruct k; go; reflexivity.
Qed.

Lemma clamp0_max : forall v, clamp0 v = Z.max 0 v.
Proof. intros. unfold clamp0. destruct (Z.ltb_spec v 0); lia. Qed.


Lemma max0_s64_u64 : forall v, u64 (Z.max 0 (s64 v)) = Z.max 0 (s64 v).
Proof. intros. apply u64_id. pose proof (s64_range v). lia. Qed.

Lemma A_id : forall e k v, abs (fst (step1 false e (OId k v))) = fst (sp_step1 (abs e) (OId k v)).
Proof.
  intros. cbn [step1 fst]. destruct k; go; rewrite ?clamp0_max, ?max0_s64_u64; reflexivity.
Qed.

Lemma A_unset_size : forall e, abs (fst (step1 false e OUnsetSize)) = fst (sp_step1 (abs e) OUnsetSize).
Proof.
  intros. cbn [step1 fst]. unfold do_unset_size. go. reflexivity.
Qed.

(* ---- mode *)
Lemma KP_bits : forall n, Z.testbit AE_IFMT n && Z.testbit PERM_MASK n = false.
Proof. intros. rewrite <- Z.land_spec. change (Z.land AE_IFMT PERM_MASK) with 0. apply Z.bits_0. Qed.
Lemma KorP_bits : forall n, Z.testbit AE_IFMT n || Z.testbit PERM_MASK n = Z.testbit (Z.ones 32) n.
Proof. intros. rewrite <- Z.lor_spec. reflexivity. Qed.

Ltac bitwise n :=
  apply Z.bits_inj'; intros n ?; repeat rewrite ?Z.land_spec, ?Z.lor_spec.

Lemma mode_perm_K : forall m x, Z.land AE_IFMT (Z.lor (Z.land m AE_IFMT) (Z.land PERM_MASK x)) = Z.land AE_IFMT m.
Proof. intros. bitwise n. pose proof (KP_bits n). destruct (Z.testbit AE_IFMT n), (Z.testbit PERM_MASK n), (Z.testbit m n), (Z.testbit x n); try discriminate; reflexivity. Qed.
Lemma mode_perm_P : forall m x, Z.land PERM_MASK (Z.lor (Z.land m AE_IFMT) (Z.land PERM_MASK x)) = Z.land PERM_MASK x.
Proof. intros. bitwise n. pose proof (KP_bits n). destruct (Z.testbit AE_IFMT n), (Z.testbit PERM_MASK n), (Z.testbit m n), (Z.testbit x n); try discriminate; reflexivity. Qed.
Lemma mode_ft_K : forall m x, Z.land AE_IFMT (Z.lor (Z.land m PERM_MASK) (Z.land AE_IFMT x)) = Z.land AE_IFMT x.
Proof. intros. bitwise n. pose proof (KP_bits n). destruct (Z.testbit AE_IFMT n), (Z.testbit PERM_MASK n), (Z.testbit m n), (Z.testbit x n); try discriminate; reflexivity. Qed.
Lemma mode_ft_P : forall m x, Z.land PERM_MASK (Z.lor (Z.land m PERM_MASK) (Z.land AE_IFMT x)) = Z.land PERM_MASK m.
Proof. intros. bitwise n. pose proof (KP_bits n). destruct (Z.testbit AE_IFMT n), (Z.testbit PERM_MASK n), (Z.testbit m n), (Z.testbit x n); try discriminate; reflexivity. Qed.

Lemma A_mode : forall e m, abs (fst (step1 false e (OMode m))) = fst (sp_step1 (abs e) (OMode m)).
Proof. intros. cbn [step1 fst]. go. reflexivity. Qed.
Lemma A_perm : forall e m, abs (fst (step1 false e (OPerm m))) = fst (sp_step1 (abs e) (OPerm m)).
Proof. intros. cbn [step1 fst]. go. rewrite mode_perm_K, mode_perm_P. reflexivity. Qed.
Lemma A_filetype : forall e m, abs (fst (step1 false e (OFiletype m))) = fst (sp_step1 (abs e) (OFiletype m)).
Proof. intros. cbn [step1 fst]. go. rewrite mode_ft_K, mode_ft_P. reflexivity. Qed.

Lemma acl_bits : forall sh p n, 0 <= n ->
  Z.testbit (Z.shiftl (Z.land p 7) sh) n = Z.testbit p (n - sh) && Z.testbit (Z.shiftl 7 sh) n.
Proof. intros. rewrite !Z.shiftl_spec by lia. rewrite Z.land_spec. reflexivity. Qed.

Lemma acl_S_facts : forall t n, let S := Z.shiftl 7 (acl_shift t) in
  Z.testbit AE_IFMT n && Z.testbit S n = false /\ (Z.testbit S n = true -> Z.testbit PERM_MASK n = true) /\
  (Z.testbit AE_IFMT n = true -> Z.testbit (Z.ones 32) n = true) /\
  (Z.testbit PERM_MASK n = true -> Z.testbit (Z.ones 32) n = true).
Proof.
  intros t n S. repeat split.
  - rewrite <- Z.land_spec. destruct t; change (Z.land AE_IFMT S) with 0; apply Z.bits_0.
  - intros H. assert (E : Z.land S PERM_MASK = S) by (destruct t; reflexivity).
    rewrite <- E in H. rewrite Z.land_spec in H. apply andb_true_iff in H. tauto.
  - intros H. rewrite <- KorP_bits. rewrite H. reflexivity.
  - intros H. rewrite <- KorP_bits. rewrite H. apply orb_true_r.
Qed.

Lemma acl_K : forall t m p, let sh := acl_shift t in
  Z.land AE_IFMT (Z.lor (Z.land m (Z.land (Z.lnot (Z.shiftl 7 sh)) (Z.ones 32))) (Z.shiftl (Z.land p 7) sh)) = Z.land AE_IFMT m.
Proof.
  intros. bitwise n. rewrite Z.lnot_spec, acl_bits by assumption.
  destruct (acl_S_facts t n) as (F1 & F2 & F3 & F4). fold sh in F1, F2.
  destruct (Z.testbit AE_IFMT n), (Z.testbit (Z.shiftl 7 sh) n), (Z.testbit m n), (Z.testbit p (n - sh)), (Z.testbit (Z.ones 32) n);
    cbn in *; try discriminate; try reflexivity; try (specialize (F3 eq_refl); discriminate).
Qed.

Lemma acl_P : forall t m p, let sh := acl_shift t in
  Z.land PERM_MASK (Z.lor (Z.land m (Z.land (Z.lnot (Z.shiftl 7 sh)) (Z.ones 32))) (Z.shiftl (Z.land p 7) sh)) =
  Z.lor (Z.land (Z.land PERM_MASK m) (Z.land (Z.lnot (Z.shiftl 7 sh)) (Z.ones 32))) (Z.shiftl (Z.land p 7) sh).
Proof.
  intros. bitwise n. rewrite Z.lnot_spec, acl_bits by assumption.
  destruct (acl_S_facts t n) as (F1 & F2 & F3 & F4). fold sh in F1, F2.
  destruct (Z.testbit PERM_MASK n), (Z.testbit (Z.shiftl 7 sh) n), (Z.testbit m n), (Z.testbit p (n - sh)), (Z.testbit (Z.ones 32) n);
    cbn in *; try discriminate; try reflexivity; try (specialize (F2 eq_refl); discriminate).
Qed.

Lemma A_acl : forall e t p, abs (fst (step1 false e (OAclSpecial t p))) = fst (sp_step1 (abs e) (OAclSpecial t p)).
Proof. intros. cbn [step1 fst]. go. rewrite acl_K, acl_P. reflexivity. Qed.

(* ---- dev *)
Lemma A_dev : forall e w p v, abs (fst (step1 false e (ODev w p v))) = fst (sp_step1 (abs e) (ODev w p v)).
Proof.
  intros. cbn [step1 fst]. destruct w, p; go; unfold split, g_major, g_minor; proj; try reflexivity.
  all: try (destruct (bd (dev e)); proj; reflexivity).
  all: try (destruct (bd (rdev e)); proj; reflexivity).
Qed.

Lemma A_symtype : forall e v, abs (fst (step1 false e (OSymtype v))) = fst (sp_step1 (abs e) (OSymtype v)).
Proof. intros. cbn [step1 fst]. go. reflexivity. Qed.

Lemma A_enc : forall e v, abs (fst (step1 false e (OEncData v))) = fst (sp_step1 (abs e) (OEncData v)) /\
                          abs (fst (step1 false e (OEncMeta v))) = fst (sp_step1 (abs e) (OEncMeta v)).
Proof.
  intros. cbn [step1 fst]. split; go; destruct (char_nonzero v); proj;
  change (Z.lor (enc e) 1) with (fl_set (enc e) 1); change (Z.lor (enc e) 2) with (fl_set (enc e) 2);
  change (Z.land (enc e) (Z.lnot 1)) with (fl_clr (enc e) 1); change (Z.land (enc e) (Z.lnot 2)) with (fl_clr (enc e) 2);
  flags; reflexivity.
Qed.

Lemma A_str : forall e f v a, abs (fst (step1 false e (OStr f v a))) = fst (sp_step1 (abs e) (OStr f v a)) /\
                              snd (step1 false e (OStr f v a)) = snd (sp_step1 (abs e) (OStr f v a)).
Proof.
  intros. cbn [step1]. split; destruct f; try destruct a; go; reflexivity.
Qed.

Lemma A_sparse : forall e off len, Inv e -> abs (fst (step1 false e (OSparseAdd off len))) = fst (sp_step1 (abs e) (OSparseAdd off len)).
Proof. intros e off len I. cbn [step1 fst]. go. rewrite (s64_id (size (idv e))) by (pose proof (inv_size e I); lia). reflexivity. Qed.

Lemma A_misc : forall e n v, abs (fst (step1 false e OSparseClear)) = fst (sp_step1 (abs e) OSparseClear) /\
  abs (fst (step1 false e (OXattrAdd n v))) = fst (sp_step1 (abs e) (OXattrAdd n v)) /\
  abs (fst (step1 false e OXattrClear)) = fst (sp_step1 (abs e) OXattrClear) /\
  abs (fst (step1 false e OClear)) = fst (sp_step1 (abs e) OClear).
Proof. intros. cbn [step1 fst]. repeat split; go; reflexivity. Qed.

Ltac lk1 Hh Hs := go; rewrite ?Hh, ?Hs; cbn [andb orb negb is_some upd_ret fst snd]; proj.
Ltac lk Hh Hs := lk1 Hh Hs; lk1 Hh Hs.

Lemma A_link : forall e f v a, Inv e ->
  abs (fst (step1 false e (OLink f v a))) = fst (sp_step1 (abs e) (OLink f v a)) /\
  snd (step1 false e (OLink f v a)) = snd (sp_step1 (abs e) (OLink f v a)).
Proof.
  intros e f v a I.
  pose proof (inv_excl e I) as X. pose proof (inv_none e I) as N. unfold has in X, N.
  destruct (fl_tst (aset e) AE_SET_HARDLINK) eqn:Hh, (fl_tst (aset e) AE_SET_SYMLINK) eqn:Hs; cbn in X; try discriminate;
  cbn [step1]; (destruct f; [destruct (is_vset v) eqn:Ev | idtac | idtac ]); destruct a; split;
  unfold do_hardlink, do_symlink, do_link; rewrite ?Ev; lk Hh Hs; rewrite ?Ev; try reflexivity.
Qed.

Lemma A_linkto : forall e f, Inv e -> abs (fst (step1 false e (OLinkTo f))) = fst (sp_step1 (abs e) (OLinkTo f)).
Proof.
  intros e f I.
  pose proof (inv_excl e I) as X. pose proof (inv_none e I) as N. unfold has in X, N.
  destruct (fl_tst (aset e) AE_SET_HARDLINK) eqn:Hh, (fl_tst (aset e) AE_SET_SYMLINK) eqn:Hs; cbn in X; try discriminate;
  try (pose proof (N eq_refl eq_refl) as N');
  cbn [step1 fst]; destruct f; unfold do_link_to; lk Hh Hs; try rewrite N'; try reflexivity.
Qed.



Ltac invf I :=
  unfold stat_compute, rdev_guard; unf; proj; flags;
  first [ exact (inv_excl _ I) | exact (inv_none _ I) | exact (inv_dev _ I) | exact (inv_rdev _ I)
        | exact (inv_rdev0 _ I) | exact (inv_mode _ I) | exact (inv_size _ I) | exact (inv_ino _ I)
        | exact (inv_stat _ I) | (intros; discriminate) | reflexivity | apply u64_range | idtac ].

Lemma Inv_init : Inv init.
Proof. constructor; try reflexivity; try (cbn; lia); intros; discriminate. Qed.

Lemma Inv_time : forall e k t ns, Inv e -> Inv (fst (step1 false e (OTime k t ns))).
Proof.
  intros e k t ns I. cbn [step1 fst]. unfold do_set_time. rewrite fix_ns_floor.
  destruct k; constructor; invf I.
Qed.

Lemma Inv_unset_time : forall e k, Inv e -> Inv (fst (step1 false e (OUnsetTime k))).
Proof.
  intros e k I. cbn [step1 fst]. unfold do_unset_time, do_set_time. rewrite fix_ns_floor.
  destruct k; constructor; invf I.
Qed.

Lemma Inv_id : forall e k v, Inv e -> Inv (fst (step1 false e (OId k v))).
Proof.
  intros e k v I. cbn [step1 fst]. destruct k; constructor; invf I.
  all: rewrite ?clamp0_max, ?max0_s64_u64; pose proof (s64_range v); try lia.
Qed.

Lemma Inv_unset_size : forall e, Inv e -> Inv (fst (step1 false e OUnsetSize)).
Proof. intros e I. cbn [step1 fst]. unfold do_unset_size. constructor; invf I. all: cbn; lia. Qed.

Lemma ones_u32 : forall m, Z.land (u32 m) (Z.ones 32) = u32 m.
Proof. intros. rewrite Z.land_ones by lia. unfold u32. apply Z.mod_mod. lia. Qed.

Lemma KP_ones : forall n, (Z.testbit AE_IFMT n = true -> Z.testbit (Z.ones 32) n = true) /\
                         (Z.testbit PERM_MASK n = true -> Z.testbit (Z.ones 32) n = true).
Proof. intros. rewrite <- KorP_bits. split; intros ->; [reflexivity | apply orb_true_r]. Qed.

Lemma mode_perm_ones : forall m x, Z.land (Z.lor (Z.land m AE_IFMT) (Z.land PERM_MASK x)) (Z.ones 32) = Z.lor (Z.land m AE_IFMT) (Z.land PERM_MASK x).
Proof. intros. bitwise n. destruct (KP_ones n) as [F1 F2].
  destruct (Z.testbit AE_IFMT n), (Z.testbit PERM_MASK n), (Z.testbit m n), (Z.testbit x n), (Z.testbit (Z.ones 32) n); cbn in *;
  try reflexivity; try (specialize (F1 eq_refl); discriminate); try (specialize (F2 eq_refl); discriminate). Qed.
Lemma mode_ft_ones : forall m x, Z.land (Z.lor (Z.land m PERM_MASK) (Z.land AE_IFMT x)) (Z.ones 32) = Z.lor (Z.land m PERM_MASK) (Z.land AE_IFMT x).
Proof. intros. bitwise n. destruct (KP_ones n) as [F1 F2].
  destruct (Z.testbit AE_IFMT n), (Z.testbit PERM_MASK n), (Z.testbit m n), (Z.testbit x n), (Z.testbit (Z.ones 32) n); cbn in *;
  try reflexivity; try (specialize (F1 eq_refl); discriminate); try (specialize (F2 eq_refl); discriminate). Qed.
Lemma acl_ones : forall t m p, let sh := acl_shift t in Z.land m (Z.ones 32) = m ->
  Z.land (Z.lor (Z.land m (Z.land (Z.lnot (Z.shiftl 7 sh)) (Z.ones 32))) (Z.shiftl (Z.land p 7) sh)) (Z.ones 32) =
  Z.lor (Z.land m (Z.land (Z.lnot (Z.shiftl 7 sh)) (Z.ones 32))) (Z.shiftl (Z.land p 7) sh).
Proof.
  intros t m p sh Hm. bitwise n. rewrite Z.lnot_spec, acl_bits by assumption.
  destruct (acl_S_facts t n) as (F1 & F2 & F3 & F4). fold sh in F1, F2.
  destruct (Z.testbit PERM_MASK n), (Z.testbit (Z.shiftl 7 sh) n), (Z.testbit m n), (Z.testbit p (n - sh)), (Z.testbit (Z.ones 32) n);
    cbn in *; try discriminate; try reflexivity; try (specialize (F2 eq_refl); discriminate); try (specialize (F4 eq_refl); discriminate).
Qed.


Ltac invg I :=
  pose proof (inv_dev _ I); pose proof (inv_rdev _ I); pose proof (inv_size _ I); pose proof (inv_ino _ I);
  constructor; invf I; try lia.

Lemma Inv_mode : forall e m, Inv e -> Inv (fst (step1 false e (OMode m))) /\ Inv (fst (step1 false e (OPerm m))) /\ Inv (fst (step1 false e (OFiletype m))).
Proof.
  intros e m I. cbn [step1 fst]. split; [|split]; invg I.
  - apply ones_u32.
  - apply mode_perm_ones.
  - apply mode_ft_ones.
Qed.

Lemma Inv_acl : forall e t p, Inv e -> Inv (fst (step1 false e (OAclSpecial t p))).
Proof. intros e t p I. cbn [step1 fst]. invg I. apply acl_ones. exact (inv_mode _ I). Qed.

Lemma Inv_dev : forall e w p v, Inv e -> Inv (fst (step1 false e (ODev w p v))).
Proof.
  intros e w p v I. cbn [step1 fst]. destruct w, p; invg I.
  all: unfold split; destruct (bd (dev e)); proj; lia.
Qed.

Lemma Inv_small : forall e v, Inv e -> Inv (fst (step1 false e (OSymtype v))) /\ Inv (fst (step1 false e (OEncData v))) /\
  Inv (fst (step1 false e (OEncMeta v))) /\ Inv (fst (step1 false e OSparseClear)) /\ Inv (fst (step1 false e OXattrClear)) /\
  Inv (fst (step1 false e OClear)).
Proof.
  intros e v I. cbn [step1 fst]. repeat apply conj; try exact Inv_init; invg I.
Qed.


Lemma Inv_str : forall e f v a n x off len, Inv e -> Inv (fst (step1 false e (OStr f v a))) /\
  Inv (fst (step1 false e (OXattrAdd n x))) /\ Inv (fst (step1 false e (OSparseAdd off len))).
Proof.
  intros e f v a n x off len I. cbn [step1 fst]. split; [|split].
  - destruct f; try destruct a; cbn [do_str fst]; try exact I; invg I.
  - invg I.
  - invg I.
Qed.

Ltac lki Hh Hs := unfold stat_compute, rdev_guard; unf; proj; flags; rewrite ?Hh, ?Hs; cbn [andb orb negb is_some upd_ret fst snd]; proj.

Lemma Inv_link : forall e f v a, Inv e -> Inv (fst (step1 false e (OLink f v a))).
Proof.
  intros e f v a I.
  pose proof (inv_excl e I) as X. pose proof (inv_none e I) as N. unfold has in X, N.
  pose proof (inv_dev _ I); pose proof (inv_rdev _ I); pose proof (inv_size _ I); pose proof (inv_ino _ I).
  destruct (fl_tst (aset e) AE_SET_HARDLINK) eqn:Hh, (fl_tst (aset e) AE_SET_SYMLINK) eqn:Hs; cbn in X; try discriminate;
  cbn [step1]; (destruct f; [destruct (is_vset v) eqn:Ev | idtac | idtac ]); destruct a;
  unfold do_hardlink, do_symlink, do_link; rewrite ?Ev; lki Hh Hs; lki Hh Hs; try exact I.
  all: constructor; lki Hh Hs; lki Hh Hs; try lia; try reflexivity; try (intros; discriminate);
       first [ exact (inv_rdev0 _ I) | exact (inv_mode _ I) | exact (inv_stat _ I) | idtac ].
Qed.

Lemma Inv_linkto : forall e f, Inv e -> Inv (fst (step1 false e (OLinkTo f))).
Proof.
  intros e f I.
  pose proof (inv_excl e I) as X. pose proof (inv_none e I) as N. unfold has in X, N.
  pose proof (inv_dev _ I); pose proof (inv_rdev _ I); pose proof (inv_size _ I); pose proof (inv_ino _ I).
  destruct (fl_tst (aset e) AE_SET_HARDLINK) eqn:Hh, (fl_tst (aset e) AE_SET_SYMLINK) eqn:Hs; cbn in X; try discriminate;
  cbn [step1 fst]; destruct f; unfold do_link_to; lki Hh Hs; lki Hh Hs; try exact I.
  all: constructor; lki Hh Hs; lki Hh Hs; try lia; try reflexivity; try (intros; discriminate);
       first [ exact (inv_rdev0 _ I) | exact (inv_mode _ I) | exact (inv_stat _ I) | idtac ].
Qed.

(* ================================================================ steps refine the specification *)


Lemma step1_ok : forall e o, Inv e ->
  abs (fst (step1 false e o)) = fst (sp_step1 (abs e) o) /\
  snd (step1 false e o) = snd (sp_step1 (abs e) o) /\
  Inv (fst (step1 false e o)).
Proof.
  intros e o I. destruct o.
  - split; [apply A_time | split; [reflexivity | apply Inv_time; assumption]].
  - split; [apply A_unset_time | split; [reflexivity | apply Inv_unset_time; assumption]].
  - split; [apply A_id | split; [reflexivity | apply Inv_id; assumption]].
  - split; [apply A_unset_size | split; [reflexivity | apply Inv_unset_size; assumption]].
  - split; [apply A_mode | split; [reflexivity | apply Inv_mode; assumption]].
  - split; [apply A_perm | split; [reflexivity | apply (Inv_mode e p I)]].
  - split; [apply A_filetype | split; [reflexivity | apply (Inv_mode e t I)]].
  - split; [apply A_acl | split; [reflexivity | apply Inv_acl; assumption]].
  - split; [apply A_dev | split; [destruct w; reflexivity | apply Inv_dev; assumption]].
  - split; [apply A_symtype | split; [reflexivity | apply (Inv_small e v I)]].
  - split; [apply (A_enc e v) | split; [reflexivity | apply (Inv_small e v I)]].
  - split; [apply (A_enc e v) | split; [reflexivity | apply (Inv_small e v I)]].
  - split; [apply A_link; assumption | split; [apply A_link; assumption | apply Inv_link; assumption]].
  - split; [apply A_linkto; assumption | split; [destruct f; reflexivity | apply Inv_linkto; assumption]].
  - split; [apply A_str | split; [apply A_str | apply (Inv_str e f v a [] [] 0 0 I)]].
  - split; [apply A_sparse; assumption | split; [reflexivity | apply (Inv_str e FPath VSet None [] [] off len I)]].
  - split; [apply (A_misc e [] []) | split; [reflexivity | apply (Inv_small e 0 I)]].
  - split; [apply (A_misc e name value) | split; [reflexivity | apply (Inv_str e FPath VSet None name value 0 0 I)]].
  - split; [apply (A_misc e [] []) | split; [reflexivity | apply (Inv_small e 0 I)]].
  - split; [reflexivity | split; [reflexivity | exact I]].
  - split; [apply (A_misc e [] []) | split; [reflexivity | apply (Inv_small e 0 I)]].
Qed.

Lemma run1_ok : forall l e, Inv e ->
  abs (fold_left (fun e o => fst (step1 false e o)) l e) = fold_left (fun s o => fst (sp_step1 s o)) l (abs e) /\
  Inv (fold_left (fun e o => fst (step1 false e o)) l e).
Proof.
  induction l as [|o l IH]; intros e I; cbn [fold_left].
  - split; [reflexivity | exact I].
  - destruct (step1_ok e o I) as (H1 & _ & H3). rewrite <- H1. apply IH. exact H3.
Qed.

Theorem step_ok : forall e o, Inv e ->
  abs (fst (step false e o)) = fst (sp_step (abs e) o) /\
  snd (step false e o) = snd (sp_step (abs e) o) /\
  Inv (fst (step false e o)).
Proof.
  intros e o I. destruct o; try exact (step1_ok e _ I).
  unfold step, sp_step. cbn [fst snd]. destruct (run1_ok (copy_stat_ops s) e I) as [H1 H2].
  split; [exact H1 | split; [reflexivity | exact H2]].
Qed.

(* ================================================================ observation *)
Definition obs_nox (a : obs) : obs :=
  mkObs (o_times a) (o_ids a) (o_mode a) (o_dev a) (o_misc a) (o_hardlink a) (o_hardlink_is_set a) (o_symlink a)
        (o_strs a) (o_sparse a) [] (o_stat a).
(* equal through every getter; the xattr enumeration may come in another order *)
Definition obs_rel (a b : obs) : Prop := obs_nox a = obs_nox b /\ Permutation (o_xattr a) (o_xattr b).

Lemma get_flagv : forall s f, is_bit f = true -> fl_get s f = flagv (fl_tst s f) f.
Proof. intros. rewrite get_tst by assumption. reflexivity. Qed.

Lemma mode_join : forall m, Z.land m (Z.ones 32) = m -> Z.lor (Z.land AE_IFMT m) (Z.land PERM_MASK m) = m.
Proof.
  intros m H. rewrite <- H at 3. bitwise n. rewrite <- KorP_bits.
  destruct (Z.testbit AE_IFMT n), (Z.testbit PERM_MASK n), (Z.testbit m n); reflexivity.
Qed.

Lemma g_dev_make : forall d, 0 <= comb d < 2^64 -> g_dev d = dev_make (g_major d) (g_minor d).
Proof. intros d H. unfold g_dev, g_major, g_minor. destruct (bd d); [reflexivity|]. symmetry. apply dev_make_split. assumption. Qed.

Lemma enc_obs : forall x, b2z (Z.land x 1 =? 1) = b2z (fl_tst x 1) /\ b2z (Z.land x 2 =? 2) = b2z (fl_tst x 2) /\
  Z.land x 3 = Z.lor (if fl_tst x 1 then 1 else 0) (if fl_tst x 2 then 2 else 0).
Proof.
  intros x.
  assert (H1 : Z.land x 1 = if fl_tst x 1 then 1 else 0) by (apply (get_tst x 1); reflexivity).
  assert (H2 : Z.land x 2 = if fl_tst x 2 then 2 else 0) by (apply (get_tst x 2); reflexivity).
  split; [|split].
  - rewrite H1. destruct (fl_tst x 1); reflexivity.
  - rewrite H2. destruct (fl_tst x 2); reflexivity.
  - change 3 with (Z.lor 1 2). rewrite Z.land_lor_distr_r, H1, H2. reflexivity.
Qed.

Lemma stat_ok : forall e, Inv e -> stat_compute e = sp_stat (abs e).
Proof.
  intros e I. unfold stat_compute, sp_stat, abs, abs_tm, abs_dv, sp_mode, sp_devnum, rdev_guard. proj.
  rewrite (g_dev_make (dev e) (inv_dev e I)).
  rewrite (mode_join (mode e) (inv_mode e I)).
  rewrite (s64_id (size (idv e))) by (pose proof (inv_size e I); lia).
  rewrite (u64_id (ino (idv e))) by (pose proof (inv_ino e I); lia).
  destruct (has e AE_SET_RDEV) eqn:Hr.
  - rewrite (g_dev_make (rdev e) (inv_rdev e I)). reflexivity.
  - rewrite (inv_rdev0 e I Hr). reflexivity.
Qed.

Lemma observe_ok : forall e, Inv e ->
  snd (observe e) = sp_observe (abs e) /\ abs (fst (observe e)) = sp_read (abs e) /\ Inv (fst (observe e)).
Proof.
  intros e I.
  assert (Hsz : s64 (size (idv e)) = size (idv e)) by (apply s64_id; pose proof (inv_size e I); lia).
  unfold observe. rewrite Hsz.
  set (e1 := with_sparse e (sparse_norm (size (idv e)) (sparse_r e))).
  assert (I1 : Inv e1).
  { pose proof (inv_dev _ I); pose proof (inv_rdev _ I); pose proof (inv_size _ I); pose proof (inv_ino _ I).
    subst e1. constructor; invf I; try lia. }
  assert (A1 : abs e1 = sp_read (abs e)) by reflexivity.
  assert (S1 : stat_compute e1 = stat_compute e) by reflexivity.
  assert (Hst : snd (do_stat e1) = stat_compute e /\ abs (fst (do_stat e1)) = abs e1 /\ Inv (fst (do_stat e1))).
  { unfold do_stat. destruct (stat_valid e1) eqn:V.
    - cbn [fst snd]. split; [rewrite <- S1; apply (inv_stat e1 I1 V) | split; [reflexivity | exact I1]].
    - cbn [fst snd]. split; [exact S1 | split; [reflexivity|]].
      pose proof (inv_dev _ I1); pose proof (inv_rdev _ I1); pose proof (inv_size _ I1); pose proof (inv_ino _ I1).
      constructor; unfold with_stat; proj; first [ exact (inv_excl _ I1) | exact (inv_none _ I1) | exact (inv_rdev0 _ I1)
        | exact (inv_mode _ I1) | (intros; reflexivity) | lia ]. }
  destruct (do_stat e1) as [e2 st]. cbn [fst snd] in *. destruct Hst as (Hs1 & Hs2 & Hs3).
  split; [| split; [rewrite Hs2; exact A1 | exact Hs3]].
  subst st. rewrite (stat_ok e I).
  unfold sp_observe, sp_read, sp_stat, sp_obs_time, obs_time, sp_mode, sp_devnum, rdev_guard, g_hardlink, g_symlink, g_filetype, g_perm.
  unfold sp_sparse, abs, abs_tm, abs_dv. proj.
  rewrite !get_flagv by reflexivity.
  destruct (enc_obs (enc e)) as (E1 & E2 & E3). rewrite E1, E2, E3.
  rewrite (mode_join (mode e) (inv_mode e I)).
  rewrite <- (g_dev_make (dev e) (inv_dev e I)).
  unfold has.
  f_equal.
  - rewrite (get_flagv _ AE_SET_PERM eq_refl), (get_flagv _ AE_SET_FILETYPE eq_refl). reflexivity.
  - rewrite (get_flagv _ AE_SET_DEV eq_refl), (get_flagv _ AE_SET_RDEV eq_refl).
    assert (R : fl_tst (aset e) AE_SET_RDEV = false -> rdev e = dv0) by exact (inv_rdev0 e I).
    pose proof (g_dev_make (rdev e) (inv_rdev e I)) as GR.
    destruct (fl_tst (aset e) AE_SET_RDEV); [rewrite <- GR; reflexivity | rewrite (R eq_refl); reflexivity].
  - destruct (fl_tst (aset e) AE_SET_HARDLINK); reflexivity.
  - destruct (fl_tst (aset e) AE_SET_HARDLINK); reflexivity.
  - destruct (fl_tst (aset e) AE_SET_SYMLINK); reflexivity.
Qed.

(* ================================================================ specification states up to the order of the xattr list *)
Definition xeq (s1 s2 : spec) : Prop := sp_xattr s1 [] = sp_xattr s2 [] /\ Permutation (s_xattr s1) (s_xattr s2).

Lemma sp_xattr_eta : forall s, s = sp_xattr s (s_xattr s).
Proof. destruct s; reflexivity. Qed.

Lemma xeq_split : forall s1 s2, xeq s1 s2 -> exists s l1 l2, s1 = sp_xattr s l1 /\ s2 = sp_xattr s l2 /\ Permutation l1 l2.
Proof.
  intros s1 s2 [H P]. exists (sp_xattr s1 []), (s_xattr s1), (s_xattr s2). split; [|split].
  - destruct s1; reflexivity.
  - rewrite H. destruct s2; reflexivity.
  - exact P.
Qed.

Lemma xeq_intro : forall s l1 l2, Permutation l1 l2 -> xeq (sp_xattr s l1) (sp_xattr s l2).
Proof. intros. split; [reflexivity | assumption]. Qed.

Lemma xeq_refl : forall s, xeq s s.
Proof. intros. split; [reflexivity | apply Permutation_refl]. Qed.

Definition xop (o : op) (l : list (bytes * bytes)) : list (bytes * bytes) :=
  match o with OXattrAdd n v => (n, v) :: l | OXattrClear => [] | OClear => [] | _ => l end.

Lemma sp_step1_xattr : forall s l o,
  fst (sp_step1 (sp_xattr s l) o) = sp_xattr (fst (sp_step1 s o)) (xop o l) /\
  snd (sp_step1 (sp_xattr s l) o) = snd (sp_step1 s o).
Proof.
  intros s l o. destruct o; cbn [sp_step1 xop]; spx; unfold st_set, ss_set; proj;
  repeat match goal with
         | |- context [match ?x with _ => _ end] => destruct x
         end; split; reflexivity.
Qed.

Lemma xop_perm : forall o l1 l2, Permutation l1 l2 -> Permutation (xop o l1) (xop o l2).
Proof. intros o l1 l2 P. destruct o; cbn [xop]; try exact P; try apply Permutation_refl. apply perm_skip. exact P. Qed.

Lemma xeq_step1 : forall s1 s2 o, xeq s1 s2 ->
  xeq (fst (sp_step1 s1 o)) (fst (sp_step1 s2 o)) /\ snd (sp_step1 s1 o) = snd (sp_step1 s2 o).
Proof.
  intros s1 s2 o H. destruct (xeq_split s1 s2 H) as (s & l1 & l2 & -> & -> & P).
  destruct (sp_step1_xattr s l1 o) as [A1 B1]. destruct (sp_step1_xattr s l2 o) as [A2 B2].
  rewrite A1, A2, B1, B2. split; [apply xeq_intro, xop_perm, P | reflexivity].
Qed.

Lemma xeq_run1 : forall l s1 s2, xeq s1 s2 ->
  xeq (fold_left (fun s o => fst (sp_step1 s o)) l s1) (fold_left (fun s o => fst (sp_step1 s o)) l s2).
Proof.
  induction l as [|o l IH]; intros s1 s2 H; cbn [fold_left]; [exact H|].
  apply IH. apply xeq_step1. exact H.
Qed.

Lemma xeq_step : forall s1 s2 o, xeq s1 s2 ->
  xeq (fst (sp_step s1 o)) (fst (sp_step s2 o)) /\ snd (sp_step s1 o) = snd (sp_step s2 o).
Proof.
  intros s1 s2 o H. destruct o; try exact (xeq_step1 s1 s2 _ H).
  unfold sp_step. cbn [fst snd]. split; [apply xeq_run1; exact H | reflexivity].
Qed.

Lemma xeq_read : forall s1 s2, xeq s1 s2 -> xeq (sp_read s1) (sp_read s2).
Proof.
  intros s1 s2 H. destruct (xeq_split s1 s2 H) as (s & l1 & l2 & -> & -> & P).
  change (sp_read (sp_xattr s l1)) with (sp_xattr (sp_read s) l1).
  change (sp_read (sp_xattr s l2)) with (sp_xattr (sp_read s) l2). apply xeq_intro. exact P.
Qed.

Lemma xeq_observe : forall s1 s2, xeq s1 s2 -> obs_rel (sp_observe s1) (sp_observe s2).
Proof.
  intros s1 s2 H. destruct (xeq_split s1 s2 H) as (s & l1 & l2 & -> & -> & P).
  split; [reflexivity | exact P].
Qed.

Lemma xeq_trans : forall a b c, xeq a b -> xeq b c -> xeq a c.
Proof. intros a b c [H1 P1] [H2 P2]. split; [congruence | eapply Permutation_trans; eassumption]. Qed.

(* ================================================================ clone *)
Lemma clone_ok : forall e, Inv e -> Inv (clone false e) /\ xeq (abs (clone false e)) (abs e).
Proof.
  intros e I. split.
  - pose proof (inv_dev _ I); pose proof (inv_rdev _ I); pose proof (inv_size _ I); pose proof (inv_ino _ I).
    constructor; unfold clone; proj;
      first [ exact (inv_excl _ I) | exact (inv_none _ I) | exact (inv_rdev0 _ I) | exact (inv_mode _ I)
            | (intros; discriminate) | lia ].
  - change (abs (clone false e)) with (sp_xattr (abs e) (rev (xattrs e))).
    rewrite (sp_xattr_eta (abs e)) at 2. apply xeq_intro. apply Permutation_sym, Permutation_rev.
Qed.

(* every getter of a fresh clone returns what the original returns (xattr: as a multiset) *)
Lemma clone_equal : forall e, Inv e -> obs_rel (snd (observe (clone false e))) (snd (observe e)).
Proof.
  intros e I. destruct (clone_ok e I) as [Ic X].
  destruct (observe_ok _ Ic) as (H1 & _ & _). destruct (observe_ok _ I) as (H2 & _ & _).
  rewrite H1, H2. apply xeq_observe. exact X.
Qed.

(* ================================================================ the machine *)
Definition orel (c : option entry) (s : option spec) : Prop :=
  match c, s with
  | None, None => True
  | Some c, Some s => Inv c /\ xeq (abs c) s
  | _, _ => False
  end.
Definition MRel (cs : mstate) (ss : sstate) : Prop :=
  (Inv (fst cs) /\ xeq (abs (fst cs)) (fst ss)) /\ orel (snd cs) (snd ss).

Definition oobs_rel (a b : option obs) : Prop :=
  match a, b with None, None => True | Some x, Some y => obs_rel x y | _, _ => False end.
Definition out_rel (a b : Z * obs * option obs) : Prop :=
  fst (fst a) = fst (fst b) /\ obs_rel (snd (fst a)) (snd (fst b)) /\ oobs_rel (snd a) (snd b).

Lemma mstep_ok : forall cs ss m, MRel cs ss ->
  MRel (fst (mstep false cs m)) (fst (sp_mstep ss m)) /\ snd (mstep false cs m) = snd (sp_mstep ss m).
Proof.
  intros [e c] [s sc] m [[I X] O]. cbn [fst snd] in *. destruct m; cbn [mstep sp_mstep fst snd].
  - destruct (step_ok e o I) as (A & R & I').
    destruct (xeq_step (abs e) s o X) as (X' & R').
    rewrite <- A in X'. rewrite <- R in R'.
    destruct (step false e o) as [e' r]. destruct (sp_step s o) as [s' r']. cbn [fst snd] in *.
    split; [split; [split; [exact I' | exact X'] | exact O] | exact R'].
  - destruct (clone_ok e I) as [Ic Xc].
    split; [|reflexivity]. split; [split; assumption|]. cbn [orel]. split; [exact Ic | eapply xeq_trans; eassumption].
  - destruct c as [c|], sc as [sc|]; cbn [orel] in O; try contradiction; cbn [fst snd].
    + destruct O as [Ic Xc]. split; [|reflexivity]. split; [split; assumption | split; assumption].
    + split; [|reflexivity]. split; [split; assumption | exact O].
Qed.

Lemma observe_rel : forall e s, Inv e -> xeq (abs e) s ->
  obs_rel (snd (observe e)) (sp_observe s) /\ Inv (fst (observe e)) /\ xeq (abs (fst (observe e))) (sp_read s).
Proof.
  intros e s I X. destruct (observe_ok e I) as (H1 & H2 & H3).
  rewrite H1, H2. split; [apply xeq_observe; exact X | split; [exact H3 | apply xeq_read; exact X]].
Qed.

Theorem refines_from : forall ms cs ss, MRel cs ss -> Forall2 out_rel (mrun false cs ms) (sp_mrun ss ms).
Proof.
  induction ms as [|m ms IH]; intros cs ss R; cbn [mrun sp_mrun]; [constructor|].
  destruct (mstep_ok cs ss m R) as [R1 Hr].
  destruct (mstep false cs m) as [[e c] r]. destruct (sp_mstep ss m) as [[s sc] r']. cbn [fst snd] in *. subst r'.
  destruct R1 as [[I X] O]. cbn [fst snd] in *.
  destruct (observe_rel e s I X) as (Ho & Io & Xo).
  unfold mobserve. cbn [fst snd]. destruct (observe e) as [e' oe]. cbn [fst snd] in *.
  destruct c as [c|], sc as [sc|]; cbn [orel] in O; try contradiction.
  - destruct O as [Ic Xc]. destruct (observe_rel c sc Ic Xc) as (Hc & Ico & Xco).
    destruct (observe c) as [c' oc]. cbn [fst snd option_map] in *.
    constructor.
    + split; [reflexivity | split; [exact Ho | exact Hc]].
    + apply IH. split; [split; assumption | split; assumption].
  - cbn [option_map]. constructor.
    + split; [reflexivity | split; [exact Ho | exact O]].
    + apply IH. split; [split; assumption | exact O].
Qed.

Lemma abs_init : abs init = spec_init.
Proof. reflexivity. Qed.

(* for EVERY program: what the getters of the object (and of its clone) return after each step is
   what the specification says (the xattr enumeration up to its order) *)
Theorem refines : forall ms, Forall2 out_rel (mrun false (init, None) ms) (sp_mrun (spec_init, None) ms).
Proof.
  intros ms. apply refines_from. split; [split; [exact Inv_init | cbn [fst]; rewrite abs_init; apply xeq_refl] | exact I].
Qed.



(* ================================================================ reachable objects *)
Inductive reach : entry -> Prop :=
| reach_init : reach init
| reach_step : forall e o, reach e -> reach (fst (step false e o))
| reach_clone : forall e, reach e -> reach (clone false e)
| reach_read : forall e, reach e -> reach (fst (observe e)).

Lemma reach_Inv : forall e, reach e -> Inv e.
Proof.
  induction 1.
  - exact Inv_init.
  - apply step_ok. assumption.
  - apply clone_ok. assumption.
  - apply observe_ok. assumption.
Qed.

(* file type and permission bits partition the mode *)
Lemma mode_split : forall e, Inv e ->
  Z.lor (g_filetype e) (g_perm e) = mode e /\ Z.land (g_filetype e) (g_perm e) = 0 /\
  g_filetype e = Z.land AE_IFMT (mode e).
Proof.
  intros e I. unfold g_filetype, g_perm. split; [apply mode_join; exact (inv_mode e I)|]. split; [|reflexivity].
  bitwise n. rewrite Z.bits_0. pose proof (KP_bits n).
  destruct (Z.testbit AE_IFMT n), (Z.testbit PERM_MASK n), (Z.testbit (mode e) n); try discriminate; reflexivity.
Qed.

(* never a hard-link target and a symlink target at the same time *)
Lemma link_exclusive : forall e, Inv e -> g_hardlink e = None \/ g_symlink e = None.
Proof.
  intros e I. pose proof (inv_excl e I) as X. unfold g_hardlink, g_symlink.
  destruct (has e AE_SET_HARDLINK), (has e AE_SET_SYMLINK); cbn in X; try discriminate; auto.
Qed.

(* split and combined device numbers agree *)
Lemma dev_consistent : forall e, Inv e ->
  g_dev (dev e) = dev_make (g_major (dev e)) (g_minor (dev e)) /\
  rdev_guard e (g_dev (rdev e)) = dev_make (rdev_guard e (g_major (rdev e))) (rdev_guard e (g_minor (rdev e))).
Proof.
  intros e I. split; [apply g_dev_make; exact (inv_dev e I)|].
  unfold rdev_guard. destruct (has e AE_SET_RDEV); [apply g_dev_make; exact (inv_rdev e I) | reflexivity].
Qed.

(* archive_entry_stat never returns a stale structure *)
Lemma stat_coherent : forall e, Inv e -> snd (do_stat e) = stat_compute e /\ stat_compute e = sp_stat (abs e).
Proof.
  intros e I. split; [|apply stat_ok; exact I]. unfold do_stat. destruct (stat_valid e) eqn:V; cbn [snd]; [apply (inv_stat e I V) | reflexivity].
Qed.

(* ================================================================ the sparse map stays sorted, disjoint and merged *)
Fixpoint sp_wf (l : list (Z * Z)) : Prop :=      (* l is tail first *)
  match l with
  | [] => True
  | (o, n) :: rest => 0 <= o /\ 0 <= n /\ match rest with (o', n') :: _ => o' + n' < o | [] => True end /\ sp_wf rest
  end.

Lemma sparse_add_wf : forall sz l off len, sp_wf l -> sp_wf (sparse_add sz l off len).
Proof.
  intros sz l off len W. unfold sparse_add.
  destruct ((off <? 0) || (len <? 0)) eqn:E1; [exact W|].
  apply orb_false_iff in E1. destruct E1 as [E1 E1']. apply Z.ltb_ge in E1. apply Z.ltb_ge in E1'.
  destruct ((off >? INT64_MAX - len) || (off + len >? sz)) eqn:E2; [exact W|].
  destruct l as [|[o n] rest]; [cbn; lia|].
  destruct (o + n >? off) eqn:E3; [exact W|].
  destruct (o + n =? off) eqn:E4.
  - destruct (s64 (o + n + len) <? 0); [exact W|]. cbn [sp_wf] in W |- *. destruct W as (W1 & W2 & W3 & W4).
    split; [lia | split; [lia | split; assumption]].
  - apply Z.eqb_neq in E4. rewrite Z.gtb_ltb in E3. apply Z.ltb_ge in E3. cbn [sp_wf] in W |- *.
    split; [lia | split; [lia | split; [lia | exact W]]].
Qed.

Lemma sparse_norm_wf : forall sz l, sp_wf l -> sp_wf (sparse_norm sz l).
Proof.
  intros sz l W. unfold sparse_norm. destruct l as [|[o n] [|b r]]; try exact W.
  destruct ((o =? 0) && (n >=? sz)); [exact I | exact W].
Qed.

Lemma step1_sparse_wf : forall e o, sp_wf (sparse_r e) -> sp_wf (sparse_r (fst (step1 false e o))).
Proof.
  intros e o W. destruct o; cbn [step1]; unf; unfold split, clamp0;
  repeat match goal with |- context [match ?x with _ => _ end] => destruct x end;
  cbn [fst]; proj; try exact W; try exact I.
  apply sparse_add_wf. exact W.
Qed.

Lemma reach_sparse_wf : forall e, reach e -> sp_wf (sparse_r e).
Proof.
  induction 1.
  - exact I.
  - destruct o; try (apply step1_sparse_wf; assumption).
    unfold step. cbn [fst]. generalize (copy_stat_ops s). intros l. clear H. revert e IHreach.
    induction l as [|o l IH]; intros e W; cbn [fold_left]; [exact W|].
    apply IH. apply step1_sparse_wf. exact W.
  - exact IHreach.
  - unfold observe. destruct (do_stat _) as [e2 st] eqn:D. cbn [fst].
    unfold do_stat in D. destruct (stat_valid _); inversion D; subst; unfold with_stat, with_sparse; proj; apply sparse_norm_wf; exact IHreach.
Qed.



(* ================================================================ the tree before fixes/C14-*.diff *)
Definition run_lg (lg : bool) (ops : list op) : entry := fold_left (fun e o => fst (step lg e o)) ops init.
Definition str_sym : bytes := [115; 121; 109]%N.          (* "sym" *)
Definition str_hard : bytes := [104; 97; 114; 100]%N.     (* "hard" *)

(* F-C14-1  set_symlink(e, "sym"); copy_hardlink(e, "hard"): both getters return "hard" *)
Lemma legacy_copy_hardlink : 
  let ops := [OLink LSym VSet (Some str_sym); OLink LHard VCopy (Some str_hard)] in
  g_hardlink (run_lg true ops) = Some str_hard /\ g_symlink (run_lg true ops) = Some str_hard /\
  g_hardlink (run_lg false ops) = Some str_hard /\ g_symlink (run_lg false ops) = None.
Proof. vm_compute. repeat split. Qed.

Lemma legacy_refines_refuted :
  exists ms, ~ Forall2 out_rel (mrun true (init, None) ms) (sp_mrun (spec_init, None) ms).
Proof.
  exists [MOp (OLink LSym VSet (Some str_sym)); MOp (OLink LHard VCopy (Some str_hard))].
  intros H. vm_compute in H. inversion H as [|a b la lb H1 H2]; subst. inversion H2 as [|a2 b2 la2 lb2 H3 H4]; subst.
  destruct H3 as (_ & [Hn _] & _). discriminate.
Qed.

(* F-C14-2  set_dev(e, makedev(3,4)); set_devmajor(e, 5): devminor() is 0, not 4 *)
Lemma legacy_set_devmajor :
  let ops := [ODev DDev PComb (dev_make 3 4); ODev DDev PMaj 5] in
  g_minor (dev (run_lg true ops)) = 0 /\ g_minor (dev (run_lg false ops)) = 4 /\
  g_major (dev (run_lg false ops)) = 5 /\ g_dev (dev (run_lg false ops)) = dev_make 5 4.
Proof. vm_compute. repeat split. Qed.

(* F-C14-3  set_size(100); sparse_add_entry(10, 50); set_size(20); clone: the clone has no sparse block *)
Lemma legacy_clone_sparse :
  let e := run_lg true [OId KSize 100; OSparseAdd 10 50; OId KSize 20] in
  o_sparse (snd (observe e)) = [(10, 50)] /\ o_sparse (snd (observe (clone true e))) = [] /\
  o_sparse (snd (observe (clone false e))) = [(10, 50)].
Proof. vm_compute. repeat split. Qed.

(* F-C14-4  set_mode(0100644); stat(); acl_add_entry(ACCESS, rwx, USER_OBJ): stat()->st_mode stays 0100644 *)
Lemma legacy_stat_stale :
  let ms := [MOp (OMode 33188); MOp (OAclSpecial TUserObj 7)] in
  (exists r o c, nth 1 (mrun true (init, None) ms) (0, snd (observe init), None) = (r, o, c) /\
                 nth 0 (o_mode o) 0 = 33252 /\ nth 10 (o_stat o) 0 = 33188) /\
  (exists r o c, nth 1 (mrun false (init, None) ms) (0, snd (observe init), None) = (r, o, c) /\
                 nth 0 (o_mode o) 0 = 33252 /\ nth 10 (o_stat o) 0 = 33252).
Proof. split; vm_compute; eexists; eexists; eexists; repeat split. Qed.

(* independence of the clone is structural in a functional model: an operation on the object
   leaves the other component of the machine state untouched *)
Lemma clone_independent : forall lg e c o, snd (fst (mstep lg (e, Some c) (MOp o))) = Some c.
Proof. intros. cbn [mstep fst snd]. destruct (step lg e o). reflexivity. Qed.

Local Close Scope Z_scope.


(* ================================================================ the three views of a string agree *)
Section Mstring.
  Variable T : Type.                        (* abstract texts *)
  Variables (em eu : T -> bytes) (ew : T -> list N).   (* their three encodings *)
  Variable c : conv.
  (* the locale conversions are mutually inverse on the encodings of a text *)
  Definition conv_ok (t : T) : Prop :=
    m2w c (em t) = Some (ew t) /\ w2m c (ew t) = Some (em t) /\
    u2m c (eu t) = Some (em t) /\ m2u c (em t) = Some (eu t).

  (* every valid form holds the encoding of t, and some form is valid *)
  Definition repr (m : mstr) (t : T) : Prop :=
    has_mbs m || has_utf8 m || has_wcs m = true /\
    (has_mbs m = true -> f_mbs m = em t) /\ (has_utf8 m = true -> f_utf8 m = eu t) /\
    (has_wcs m = true -> f_wcs m = ew t).

  Lemma get_mbs_ok : forall m t, conv_ok t -> repr m t ->
    snd (ms_get_mbs c m) = Some (em t) /\ repr (fst (ms_get_mbs c m)) t /\ has_mbs (fst (ms_get_mbs c m)) = true.
  Proof.
    intros m t (C1 & C2 & C3 & C4) (R0 & R1 & R2 & R3). unfold ms_get_mbs.
    destruct (has_mbs m) eqn:Hm.
    - cbn [fst snd]. rewrite (R1 eq_refl). unfold repr. rewrite Hm. repeat split; auto.
    - destruct (has_wcs m) eqn:Hw.
      + rewrite (R3 eq_refl), C2. cbn [fst snd]. repeat split; cbn; auto.
      + destruct (has_utf8 m) eqn:Hu; [|cbn in R0; discriminate].
        rewrite (R2 eq_refl), C3. cbn [fst snd]. repeat split; cbn; auto; intros; discriminate.
  Qed.

  Lemma get_wcs_ok : forall m t, conv_ok t -> repr m t ->
    snd (ms_get_wcs c m) = Some (ew t) /\ repr (fst (ms_get_wcs c m)) t.
  Proof.
    intros m t C R. pose proof C as (C1 & C2 & C3 & C4). unfold ms_get_wcs.
    destruct (has_wcs m) eqn:Hw.
    - destruct R as (R0 & R1 & R2 & R3). cbn [fst snd]. rewrite (R3 Hw). repeat split; auto.
    - set (m1 := if has_mbs m then m else fst (ms_get_mbs c m)).
      assert (H1 : repr m1 t /\ has_mbs m1 = true).
      { subst m1. destruct (has_mbs m) eqn:Hm; [split; assumption|]. destruct (get_mbs_ok m t C R) as (_ & A & B). split; assumption. }
      destruct H1 as [(Q0 & Q1 & Q2 & Q3) Hm1]. rewrite Hm1, (Q1 Hm1), C1. cbn [fst snd].
      repeat split; cbn; auto.
  Qed.

  Lemma get_utf8_ok : forall m t, conv_ok t -> repr m t ->
    snd (ms_get_utf8 c m) = Some (eu t) /\ repr (fst (ms_get_utf8 c m)) t.
  Proof.
    intros m t C R. pose proof C as (C1 & C2 & C3 & C4). unfold ms_get_utf8.
    destruct (has_utf8 m) eqn:Hu.
    - destruct R as (R0 & R1 & R2 & R3). cbn [fst snd]. rewrite (R2 Hu). repeat split; auto.
    - set (m1 := if has_mbs m then m else fst (ms_get_mbs c m)).
      assert (H1 : repr m1 t /\ has_mbs m1 = true).
      { subst m1. destruct (has_mbs m) eqn:Hm; [split; assumption|]. destruct (get_mbs_ok m t C R) as (_ & A & B). split; assumption. }
      destruct H1 as [(Q0 & Q1 & Q2 & Q3) Hm1]. rewrite Hm1, (Q1 Hm1), C4. cbn [fst snd].
      repeat split; cbn; auto.
  Qed.

  Lemma setters_repr : forall t, conv_ok t ->
    repr (ms_copy_mbs (em t)) t /\ repr (ms_copy_utf8 (eu t)) t /\ repr (ms_copy_wcs (ew t)) t /\
    repr (fst (ms_update_utf8 c (eu t))) t /\ snd (ms_update_utf8 c (eu t)) = true.
  Proof.
    intros t (C1 & C2 & C3 & C4). unfold ms_update_utf8. rewrite C3, C1. cbn.
    repeat split; auto; intros; discriminate.
  Qed.

  (* what a getter returns, as the encoding kind it stands for *)
  Definition ms_get (g : msget) (m : mstr) : mstr * (option bytes * option (list N)) :=
    match g with
    | GetMbs => let '(m', r) := ms_get_mbs c m in (m', (r, None))
    | GetUtf8 => let '(m', r) := ms_get_utf8 c m in (m', (r, None))
    | GetWcs => let '(m', r) := ms_get_wcs c m in (m', (None, r))
    end.
  Definition expected (g : msget) (t : T) : option bytes * option (list N) :=
    match g with GetMbs => (Some (em t), None) | GetUtf8 => (Some (eu t), None) | GetWcs => (None, Some (ew t)) end.
  Fixpoint ms_gets (gs : list msget) (m : mstr) : list (option bytes * option (list N)) :=
    match gs with [] => [] | g :: rest => let '(m', r) := ms_get g m in r :: ms_gets rest m' end.

  (* whichever form was stored, and in whatever order the views are read (each read may cache a
     conversion), every view returns the encoding of the same text *)
  Theorem views_agree : forall t gs m, conv_ok t -> repr m t -> ms_gets gs m = map (fun g => expected g t) gs.
  Proof.
    intros t gs. induction gs as [|g gs IH]; intros m C R; [reflexivity|].
    cbn [ms_gets map]. destruct g; cbn [ms_get expected].
    - destruct (get_mbs_ok m t C R) as (A & B & _). destruct (ms_get_mbs c m) as [m' r]. cbn [fst snd] in *. subst r. f_equal. apply IH; assumption.
    - destruct (get_wcs_ok m t C R) as (A & B). destruct (ms_get_wcs c m) as [m' r]. cbn [fst snd] in *. subst r. f_equal. apply IH; assumption.
    - destruct (get_utf8_ok m t C R) as (A & B). destruct (ms_get_utf8 c m) as [m' r]. cbn [fst snd] in *. subst r. f_equal. apply IH; assumption.
  Qed.
End Mstring.
