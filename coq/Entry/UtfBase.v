(* C18 - definitions used by the proofs about Entry/UtfDefs.v: bounded universal quantification by
   computation (forall_below, lifted by forall_below_spec), the range-based description of the
   utf8_count table, the 1..4 byte cases of _utf8_to_unicode as a function of the bytes alone, and
   the boolean checkers that the exhaustive sweeps (Entry/UtfSweep*.v) evaluate. *)
From Coq Require Import List ZArith NArith Bool Lia.
From LA Require Import Gen.UtfTable Entry.UtfDefs.
Import ListNotations.
Local Open Scope N_scope.

(* ---- forall u < n, f u = true  by evaluation (recursion depth logarithmic in n) ---- *)
Fixpoint forall_pos (p : positive) (lo : N) (f : N -> bool) : bool :=
  match p with
  | xH => f lo
  | xO q => if forall_pos q lo f then forall_pos q (lo + Npos q) f else false
  | xI q => if f lo then if forall_pos q (lo + 1) f then forall_pos q (lo + 1 + Npos q) f else false else false
  end.
Definition forall_below (n : N) (f : N -> bool) : bool :=
  match n with 0 => true | Npos p => forall_pos p 0 f end.

Lemma forall_pos_spec : forall p lo f, forall_pos p lo f = true -> forall u, lo <= u < lo + Npos p -> f u = true.
Proof.
  induction p; intros lo f H u Hu; cbn [forall_pos] in H.
  - destruct (f lo) eqn:E0; [|discriminate].
    destruct (forall_pos p (lo + 1) f) eqn:E1; [|discriminate].
    destruct (N.eq_dec u lo) as [->|]; [assumption|].
    destruct (N.lt_ge_cases u (lo + 1 + Npos p)).
    + apply (IHp _ _ E1). lia.
    + apply (IHp _ _ H). lia.
  - destruct (forall_pos p lo f) eqn:E1; [|discriminate].
    destruct (N.lt_ge_cases u (lo + Npos p)).
    + apply (IHp _ _ E1). lia.
    + apply (IHp _ _ H). lia.
  - replace u with lo by lia. assumption.
Qed.
Lemma forall_below_spec : forall n f, forall_below n f = true -> forall u, u < n -> f u = true.
Proof. intros [|p] f H u Hu; [lia|]. apply (forall_pos_spec p 0 f H). lia. Qed.

(* ---- Unicode scalar values; the encodings of the Unicode Standard (Table 3-6, D91/D92) written
        with div and mod, independent of the shifts and masks of the C code ---- *)
Definition is_scalar (u : N) : bool := (u <=? 1114111) && negb ((55296 <=? u) && (u <=? 57343)).

Definition utf8_spec (u : N) : list N :=
  if u <? 128 then [u]
  else if u <? 2048 then [192 + u / 64; 128 + u mod 64]
  else if u <? 65536 then [224 + u / 4096; 128 + (u / 64) mod 64; 128 + u mod 64]
  else [240 + u / 262144; 128 + (u / 4096) mod 64; 128 + (u / 64) mod 64; 128 + u mod 64].

Definition unit16 (be : bool) (v : N) : list N := if be then [v / 256; v mod 256] else [v mod 256; v / 256].
Definition utf16_spec (be : bool) (u : N) : list N :=
  if u <? 65536 then unit16 be u
  else unit16 be (55296 + (u - 65536) / 1024) ++ unit16 be (56320 + (u - 65536) mod 1024).

(* ---- the utf8_count table by ranges ---- *)
Definition utf8_class (ch : N) : N :=
  if ch <? 128 then 1 else if ch <? 194 then 0 else if ch <? 224 then 2 else if ch <? 240 then 3
  else if ch <? 245 then 4 else 0.

(* ---- cases 1..4 of the switch in _utf8_to_unicode on the bytes alone ---- *)
Definition utf8_body (cnt ch b1 b2 b3 : N) : Z * N :=
  if cnt =? 1 then (1%Z, N.land ch 127) else
  if cnt =? 2 then
    if negb (is_cont b1) then invalid 1 else
    (2%Z, N.lor (N.shiftl (N.land ch 31) 6) (N.land b1 63)) else
  if cnt =? 3 then
    if negb (is_cont b1) then invalid 1 else
    if negb (is_cont b2) then invalid 2 else
    let wc := N.lor (N.lor (N.shiftl (N.land ch 15) 12) (N.shiftl (N.land b1 63) 6)) (N.land b2 63) in
    if wc <? 2048 then invalid 3 else check_max 3 wc else
  if negb (is_cont b1) then invalid 1 else
  if negb (is_cont b2) then invalid 2 else
  if negb (is_cont b3) then invalid 3 else
  let wc := N.lor (N.lor (N.lor (N.shiftl (N.land ch 7) 18) (N.shiftl (N.land b1 63) 12))
                         (N.shiftl (N.land b2 63) 6)) (N.land b3 63) in
  if wc <? 65536 then invalid 4 else check_max 4 wc.

(* what utf8_to_unicode does to the result of _utf8_to_unicode *)
Definition surr_post (r : Z * N) : Z * N :=
  let '(cnt, wc) := r in if (cnt =? 3)%Z && is_surrogate wc then ((-3)%Z, wc) else (cnt, wc).

Definition res_eqb (r : Z * N) (n : Z) (u : N) : bool := (fst r =? n)%Z && (snd r =? u).
Fixpoint bytes_eqb (a b : list N) : bool :=
  match a, b with
  | [], [] => true
  | x :: a', y :: b' => (x =? y) && bytes_eqb a' b'
  | _, _ => false
  end.
Lemma bytes_eqb_eq : forall a b, bytes_eqb a b = true -> a = b.
Proof.
  induction a as [|x a IH]; destruct b as [|y b]; cbn; intros H; try discriminate; auto.
  apply andb_prop in H. destruct H as [H1 H2]. apply N.eqb_eq in H1. subst. f_equal. auto.
Qed.

(* ---- checkers evaluated by the sweeps ---- *)

(* scalar u <> 0: the lead byte of unicode_to_utf8's output has the class of its length, and the
   body decodes the output back *)
Definition rt8 (u : N) : bool :=
  if is_scalar u && negb (u =? 0) then
    match unicode_to_utf8 4 u with
    | [a] => (utf8_class a =? 1) && negb (a =? 0) && res_eqb (surr_post (utf8_body 1 a 0 0 0)) 1 u
    | [a; b] => (utf8_class a =? 2) && res_eqb (surr_post (utf8_body 2 a b 0 0)) 2 u
    | [a; b; c] => (utf8_class a =? 3) && res_eqb (surr_post (utf8_body 3 a b c 0)) 3 u
    | [a; b; c; d] => (utf8_class a =? 4) && res_eqb (surr_post (utf8_body 4 a b c d)) 4 u
    | _ => false
    end
  else true.

(* strictness: whatever the body accepts is the encoder's output for that code point *)
Definition strict1 (ch : N) : bool :=
  if (utf8_class ch =? 1) && negb (ch =? 0) then
    let r := utf8_body 1 ch 0 0 0 in
    (fst r =? 1)%Z && is_scalar (snd r) && negb (snd r =? 0) && bytes_eqb (unicode_to_utf8 4 (snd r)) [ch]
  else true.
Definition cont_form (b : N) : bool :=
  if is_cont b then (b =? 128 + N.land b 63) && (N.land b 63 <? 64) else true.
Definition strict2 (ch x1 : N) : bool :=
  if utf8_class ch =? 2 then
    let r := utf8_body 2 ch (128 + x1) 0 0 in
    if (0 <? fst r)%Z then (fst r =? 2)%Z && is_scalar (snd r) && negb (snd r =? 0) &&
                           bytes_eqb (unicode_to_utf8 4 (snd r)) [ch; 128 + x1]
    else true
  else true.
Definition strict3 (ch x1 x2 : N) : bool :=
  if utf8_class ch =? 3 then
    let r := utf8_body 3 ch (128 + x1) (128 + x2) 0 in
    if (0 <? fst r)%Z then (fst r =? 3)%Z && (snd r <=? 65535) && negb (snd r =? 0) &&
                           bytes_eqb (unicode_to_utf8 4 (snd r)) [ch; 128 + x1; 128 + x2]
    else true
  else true.
Definition strict4 (ch x1 x2 x3 : N) : bool :=
  if utf8_class ch =? 4 then
    let r := utf8_body 4 ch (128 + x1) (128 + x2) (128 + x3) in
    if (0 <? fst r)%Z then (fst r =? 4)%Z && is_scalar (snd r) && (65536 <=? snd r) &&
                           bytes_eqb (unicode_to_utf8 4 (snd r)) [ch; 128 + x1; 128 + x2; 128 + x3]
    else true
  else true.

(* UTF-16: scalar u: below 0x10000 unicode_to_utf16 yields one unit that is not a surrogate; above,
   a high and a low surrogate that combine to u *)
Definition rt16 (be : bool) (u : N) : bool :=
  if is_scalar u then
    if u <? 65536 then
      bytes_eqb (unicode_to_utf16 be 4 u) (enc16 be u) && negb (is_surrogate u)
    else
      let hi := N.land (N.shiftr (u - 65536) 10) 1023 + 55296 in
      let lo := N.land (u - 65536) 1023 + 56320 in
      is_high_surrogate hi && is_low_surrogate lo && (combine_surrogate_pair hi lo =? u)
  else true.

(* one 16-bit unit: dec16 and enc16 are inverse on bytes *)
Definition unit_rt (be : bool) (b0 b1 : N) : bool :=
  let v := dec16 be b0 b1 in
  (v <? 65536) && (v =? (if be then b0 * 256 + b1 else b1 * 256 + b0)) && bytes_eqb (enc16 be v) [b0; b1].
