(* val -> val front end of the archive_entry model (correspondence protocol of C14).
   case   = ( mop ... )            mop = ( code arg ... )   codes: see [mop_of_val]
   result = ( step ... )           step = ( ret obs-of-object ( [obs-of-clone] ) )            *)
From Coq Require Import List ZArith Bool.
From LA Require Import Base.Val Gen.EntryConsts Entry.EntryDefs.
Import ListNotations.
Local Open Scope Z_scope.

Definition optb (v : val) : option bytes :=
  match lval v with [VB b] => Some b | _ => None end.

Definition timek_of (z : Z) : timek := match z with 0 => KA | 1 => KB | 2 => KC | _ => KM end.
Definition idk_of (z : Z) : idk :=
  match z with 0 => KUid | 1 => KGid | 2 => KIno | 3 => KIno64 | 4 => KSize | _ => KNlink end.
Definition devw_of (z : Z) : devw := match z with 0 => DDev | _ => DRdev end.
Definition devp_of (z : Z) : devp := match z with 0 => PComb | 1 => PMaj | _ => PMin end.
Definition linkfam_of (z : Z) : linkfam := match z with 0 => LHard | 1 => LSym | _ => LLink end.
Definition svar_of (z : Z) : svar :=
  match z with 0 => VSet | 1 => VSetUtf8 | 2 => VCopy | 3 => VCopyW | 4 => VUpdate | _ => VCopyL end.
Definition sfield_of (z : Z) : sfield :=
  match z with 0 => FPath | 1 => FUname | 2 => FGname | 3 => FSource | _ => FFflags end.
Definition acltag_of (z : Z) : acltag := match z with 0 => TUserObj | 1 => TGroupObj | _ => TOther end.

Definition mop_of_val (v : val) : mop :=
  let l := lval v in
  let a i := zval (vnth l i) in
  match a 0%nat with
  | 1 => MOp (OTime (timek_of (a 1%nat)) (a 2%nat) (a 3%nat))
  | 2 => MOp (OUnsetTime (timek_of (a 1%nat)))
  | 3 => MOp (OId (idk_of (a 1%nat)) (a 2%nat))
  | 4 => MOp OUnsetSize
  | 5 => MOp (OMode (a 1%nat))
  | 6 => MOp (OPerm (a 1%nat))
  | 7 => MOp (OFiletype (a 1%nat))
  | 8 => MOp (OAclSpecial (acltag_of (a 1%nat)) (a 2%nat))
  | 9 => MOp (ODev (devw_of (a 1%nat)) (devp_of (a 2%nat)) (a 3%nat))
  | 10 => MOp (OSymtype (a 1%nat))
  | 11 => MOp (OEncData (a 1%nat))
  | 12 => MOp (OEncMeta (a 1%nat))
  | 13 => MOp (OLink (linkfam_of (a 1%nat)) (svar_of (a 2%nat)) (optb (vnth l 3)))
  | 14 => MOp (OLinkTo (linkfam_of (a 1%nat)))
  | 15 => MOp (OStr (sfield_of (a 1%nat)) (svar_of (a 2%nat)) (optb (vnth l 3)))
  | 16 => MOp (OSparseAdd (a 1%nat) (a 2%nat))
  | 17 => MOp OSparseClear
  | 18 => MOp (OXattrAdd (bval (vnth l 1)) (bval (vnth l 2)))
  | 19 => MOp OXattrClear
  | 20 => MOp (OCopyStat (mkStatarg (a 1%nat) (a 2%nat) (a 3%nat) (a 4%nat) (a 5%nat) (a 6%nat) (a 7%nat)
                                    (a 8%nat) (a 9%nat) (a 10%nat) (a 11%nat) (a 12%nat) (a 13%nat) (a 14%nat)))
  | 21 => MOp OClear
  | 30 => MClone
  | _ => MSwap
  end.

(* a string getter: ( ( [mbs view] ) ( views that differ from it ) ) - the model has one view *)
Definition strview (o : option bytes) : val := VL [Vopt VB o; VL []].
Definition vpair (p : Z * Z) : val := VL [VI (fst p); VI (snd p)].

Definition val_of_obs (o : obs) : val :=
  VL [ VL (map (fun t => VL [VI (fst (fst t)); VI (snd (fst t)); VI (snd t)]) (o_times o));
       VL (map VI (o_ids o)); VL (map VI (o_mode o)); VL (map VI (o_dev o)); VL (map VI (o_misc o));
       strview (o_hardlink o); VI (o_hardlink_is_set o); strview (o_symlink o);
       VL (map strview (o_strs o));
       VL [VI 0; VI (Z.of_nat (length (o_sparse o))); VL (map vpair (o_sparse o))];
       VL [VI (Z.of_nat (length (o_xattr o))); VL (map (fun p => VL [VB (fst p); VB (snd p)]) (o_xattr o))];
       VL (map VI (o_stat o)) ].

Definition val_of_step (r : Z * obs * option obs) : val :=
  VL [VI (fst (fst r)); val_of_obs (snd (fst r)); Vopt val_of_obs (snd r)].

Definition run (v : val) : val :=
  VL (map val_of_step (mrun false (init, None) (map mop_of_val (lval v)))).
