(* val -> val front end of the ACL text model (correspondence protocol of C15).
   case  = ( 0 wide mode ( (type tag perm id name) ... ) flags ptype )      build, to_text, parse back
         | ( 1 wide text ptype )                                            parse NUL-terminated text
         | ( 2 text ptype sent )                                            archive_acl_from_text_nl, [sent] = byte after the text
   strings: bytes value for the char variant, list of code points for the wchar_t variant. *)
From Coq Require Import List ZArith NArith Bool.
From LA Require Import Base.Val Gen.Defines Gen.AclConsts Entry.AclDefs.
Import ListNotations.
Local Open Scope N_scope.

Definition dec (v : val) : str :=
  match v with VB b => b | VL l => map nval l | VI _ => [] end.
Definition enc (wide : bool) (s : str) : val := if wide then VL (map VN s) else VB s.

Definition fxl := acl_fix_text_len_nfs4_noname.
Definition fxw := acl_fix_wide_empty_tag.
Definition fxs := acl_fix_next_field_sentinel.
Definition fxm := acl_fix_ismode_reset.

Definition val_of_entry (wide : bool) (e : aentry) : val :=
  VL [VN (etype e); VN (etag e); VN (eperm e); VI (eid e); enc wide (ename e)].
Definition val_of_acl (wide : bool) (a : acl) : list val :=
  [VN (amode a); VL (map (val_of_entry wide) (aents a))].

Definition m_crash : val := VB [67; 82; 65; 83; 72].                 (* CRASH *)
Definition m_hang : val := VB [72; 65; 78; 71].                      (* HANG *)
Definition m_overrun : val := VB [79; 86; 69; 82; 82; 85; 78].       (* OVERRUN *)

Definition val_of_presult (wide : bool) (r : presult) : val :=
  match r with
  | PRet st a => VL (VI st :: val_of_acl wide a)
  | PCrash => VL [m_crash]
  | PHang => VL [m_hang]
  end.

Fixpoint build (a : acl) (l : list val) (adds : list val) : acl * list val :=
  match l with
  | [] => (a, rev adds)
  | v :: r =>
    let e := lval v in
    let '(st, a') := add_entry a (nval (vnth e 0)) (nval (vnth e 2)) (nval (vnth e 1)) (zval (vnth e 3))
                               (cstr (dec (vnth e 4))) in
    build a' r (VI st :: adds)
  end.

Definition run (v : val) : val :=
  let l := lval v in
  match zval (vnth l 0) with
  | 0%Z =>
    let wide := boolval (vnth l 1) in
    let '(a, adds) := build (acl_empty (nval (vnth l 2))) (lval (vnth l 3)) [] in
    let flags := nval (vnth l 4) in
    let ptype := nval (vnth l 5) in
    let tl := text_len_of fxl wide a flags in
    let head := [VL adds; VL (val_of_acl wide a); VN tl] in
    match to_text fxl wide a flags with
    | None => VL (head ++ [VL []])
    | Some t =>
      if tl <? N.of_nat (List.length t) + 1 then VL (head ++ [VL [m_overrun; enc wide t]])
      else VL (head ++ [VL [enc wide t; VN (N.of_nat (List.length t))];
                        val_of_presult wide (from_text wide fxw fxs fxm t ptype (acl_empty 0))])
    end
  | 1%Z =>
    let wide := boolval (vnth l 1) in
    val_of_presult wide (from_text wide fxw fxs fxm (dec (vnth l 2)) (nval (vnth l 3)) (acl_empty 0))
  | _ =>
    val_of_presult false (from_text_nl false fxw fxs fxm (nval (vnth l 3)) (dec (vnth l 1)) (nval (vnth l 2)) (acl_empty 0))
  end.
