(* C15 - small tools shared by the ACL proofs: evaluation of comparisons between constants, bit masks. *)
From Coq Require Import List ZArith NArith Bool Lia.
From LA Require Import Base.Val Gen.Defines Gen.AclConsts Entry.AclDefs.
Import ListNotations.
Local Open Scope N_scope.

(* ------------------------------------------------------------------ small tools *)
(* evaluate comparisons between closed constants *)
Ltac eval_eqb :=
  repeat match goal with
  | |- context [N.eqb ?a ?b] =>
    let v := eval vm_compute in (N.eqb a b) in
    match v with
    | true => change (N.eqb a b) with true
    | false => change (N.eqb a b) with false
    end
  end.

Lemma within_land : forall x m, within x m = true -> N.land x m = x.
Proof.
  unfold within. intros x m H. apply N.eqb_eq in H.
  rewrite <- (N.lor_ldiff_and x m) at 2. rewrite H. apply N.lor_0_l.
Qed.

(* x inside m, m disjoint from k: x disjoint from k *)
Lemma within_disjoint : forall x m k, within x m = true -> bit m k = false -> bit x k = false.
Proof.
  unfold bit. intros x m k Hw Hb.
  apply negb_false_iff in Hb. apply N.eqb_eq in Hb.
  apply negb_false_iff. apply N.eqb_eq.
  rewrite <- (within_land x m Hw). rewrite <- N.land_assoc. rewrite Hb. apply N.land_0_r.
Qed.

(* x meets w, w inside p: x meets p *)
Lemma bit_within : forall x w p, bit x w = true -> within w p = true -> bit x p = true.
Proof.
  unfold bit. intros x w p Hb Hw.
  apply negb_true_iff in Hb. apply N.eqb_neq in Hb.
  apply negb_true_iff. apply N.eqb_neq. intro H0. apply Hb.
  rewrite <- (within_land w p Hw). rewrite (N.land_comm w p). rewrite N.land_assoc. rewrite H0. apply N.land_0_l.
Qed.

Lemma bit_comm : forall x y, bit x y = bit y x.
Proof. intros. unfold bit. rewrite N.land_comm. reflexivity. Qed.

