(* C15 - the length bound: what archive_acl_to_text_l/_w write fits in what archive_acl_text_len computes. *)
From Coq Require Import List ZArith NArith Bool Lia Permutation.
From LA Require Import Base.Val Gen.Defines Gen.AclConsts Entry.AclDefs.
From LA Require Export Entry.AclBits.
Import ListNotations.
Local Open Scope N_scope.

(* ------------------------------------------------------------------ digits *)
Lemma append_id_fuel_len : forall f id,
  N.of_nat (length (append_id_fuel f id)) = 1 + idlen_fuel f id.
Proof.
  induction f; intros id; cbn [append_id_fuel idlen_fuel].
  - reflexivity.
  - rewrite app_length. cbn [length]. destruct (9 <? id)%Z.
    + rewrite Nat2N.inj_add. rewrite IHf. change (N.of_nat 1) with 1. lia.
    + reflexivity.
Qed.

Lemma append_id_fuel_le : forall f id, (length (append_id_fuel f id) <= S f)%nat.
Proof.
  induction f; intros id; cbn [append_id_fuel].
  - cbn. lia.
  - rewrite app_length. cbn [length]. destruct (9 <? id)%Z.
    + specialize (IHf (id / 10)%Z). lia.
    + cbn. lia.
Qed.

Lemma append_id_le10 : forall id, (length (append_id id) <= 10)%nat.
Proof. intros. unfold append_id. apply (append_id_fuel_le 9). Qed.

Lemma append_id_idlen : forall id, N.of_nat (length (append_id id)) = idlen id.
Proof.
  intros id. unfold append_id, idlen. rewrite append_id_fuel_len.
  destruct (id <? 0)%Z eqn:E; [|reflexivity].
  apply Z.ltb_lt in E.
  assert (H : forall f x, (x <= 9)%Z -> idlen_fuel f x = 0).
  { destruct f; intros x Hx; cbn [idlen_fuel]; [reflexivity|].
    destruct (9 <? x)%Z eqn:E9; [apply Z.ltb_lt in E9; lia|reflexivity]. }
  rewrite (H 9%nat 0%Z) by lia. rewrite (H 9%nat id) by lia. reflexivity.
Qed.

(* id < 10^k has at most k digits *)
Lemma append_id_fuel_small : forall f k id,
  (id < 10 ^ Z.of_nat (S k))%Z -> (length (append_id_fuel f id) <= S k)%nat.
Proof.
  induction f; intros k id H; cbn [append_id_fuel].
  - cbn. lia.
  - rewrite app_length. cbn [length]. destruct (9 <? id)%Z eqn:E.
    + apply Z.ltb_lt in E. destruct k.
      * cbn in H. lia.
      * assert (id / 10 < 10 ^ Z.of_nat (S k))%Z.
        { apply Z.div_lt_upper_bound; [lia|].
          replace (Z.of_nat (S (S k))) with (Z.succ (Z.of_nat (S k))) in H by lia.
          rewrite Z.pow_succ_r in H by lia. exact H. }
        specialize (IHf k (id / 10)%Z H0). lia.
    + cbn. lia.
Qed.

Lemma append_id_small : forall id, (id < 1000000)%Z -> (length (append_id id) <= 6)%nat.
Proof.
  intros id H. unfold append_id. apply (append_id_fuel_small 9 5).
  destruct (id <? 0)%Z; [reflexivity|]. exact H.
Qed.

(* ------------------------------------------------------------------ pieces of append_entry *)
Lemma perm_letters_len : forall wide compact tbl perm,
  (length (perm_letters wide compact tbl perm) <= length tbl)%nat.
Proof.
  intros wide compact tbl perm. induction tbl as [|[[b c] wc] r IH]; cbn [perm_letters flat_map length].
  - lia.
  - fold (perm_letters wide compact r perm). rewrite app_length.
    destruct (bit perm b); [cbn; lia|]. destruct compact; cbn; lia.
Qed.

(* the only facts about the two generated letter tables that the length bound needs *)
Definition tables_fit : bool :=
  Nat.leb (length nfsv4_perm_map) 14 && Nat.leb (length nfsv4_flag_map) 7.
Lemma tables_fit_ok : tables_fit = true.
Proof. vm_compute. reflexivity. Qed.

Lemma type_word_len : forall type,
  N.of_nat (length (type_word type)) <= 4 + (if bit type ACL_TYPE_DENY then 0 else 1).
Proof.
  intros type. unfold type_word.
  destruct (type =? ACL_TYPE_ALLOW) eqn:E1; [apply N.eqb_eq in E1; subst; vm_compute; discriminate|].
  destruct (type =? ACL_TYPE_DENY) eqn:E2; [apply N.eqb_eq in E2; subst; vm_compute; discriminate|].
  destruct (type =? ACL_TYPE_AUDIT) eqn:E3; [apply N.eqb_eq in E3; subst; vm_compute; discriminate|].
  destruct (type =? ACL_TYPE_ALARM) eqn:E4; [apply N.eqb_eq in E4; subst; vm_compute; discriminate|].
  cbn [length]. destruct (bit type ACL_TYPE_DENY); cbn; lia.
Qed.

Lemma perm_text_len : forall wide type flags perm,
  N.of_nat (length (perm_text wide type flags perm)) <=
  if bit type ACL_TYPE_POSIX1E then 3 else 27 + (if bit type ACL_TYPE_DENY then 0 else 1).
Proof.
  intros wide type flags perm. unfold perm_text.
  destruct (bit type ACL_TYPE_POSIX1E).
  - cbn. lia.
  - repeat rewrite app_length. cbn [length].
    pose proof (perm_letters_len wide (bit flags ACL_STYLE_COMPACT) nfsv4_perm_map perm) as H1.
    pose proof (perm_letters_len wide (bit flags ACL_STYLE_COMPACT) nfsv4_flag_map perm) as H2.
    pose proof tables_fit_ok as HT. unfold tables_fit in HT. apply andb_true_iff in HT. destruct HT as [T1 T2].
    apply Nat.leb_le in T1. apply Nat.leb_le in T2.
    pose proof (type_word_len type) as H3.
    destruct (bit type ACL_TYPE_DENY); lia.
Qed.

Lemma id_text_len : forall id,
  N.of_nat (length (id_text id)) = if (id =? -1)%Z then 0 else 1 + idlen id.
Proof.
  intros id. unfold id_text. destruct (id =? -1)%Z; [reflexivity|].
  cbn [length]. rewrite Nat2N.inj_succ. rewrite append_id_idlen. lia.
Qed.

(* ------------------------------------------------------------------ one entry *)
(* the condition under which the char variant of the pinned tree stays inside its buffer:
   a nameless NFSv4 user/group entry written without EXTRA_ID has an id below 10^6 *)
Definition entry_safe (fxl wide : bool) (flags : N) (e : aentry) : bool :=
  fxl || wide || bit flags ACL_STYLE_EXTRA_ID || negb (is_ug (etag e)) ||
  negb (bit (etype e) ACL_TYPE_NFS4) || negb (match ename e with [] => true | _ => false end) ||
  (eid e <? 1000000)%Z.

Definition tag_cases (tag : N) : Prop :=
  tag = ACL_USER \/ tag = ACL_USER_OBJ \/ tag = ACL_GROUP \/ tag = ACL_GROUP_OBJ \/
  tag = ACL_MASK \/ tag = ACL_OTHER \/ tag = ACL_EVERYONE.
Lemma tag_known_cases : forall tag, tag_known tag = true -> tag_cases tag.
Proof.
  unfold tag_known, tag_cases. intros tag H.
  repeat (apply orb_true_iff in H; destruct H as [H|H]); apply N.eqb_eq in H; tauto.
Qed.

Lemma entry_bound : forall fxl wide want flags e L,
  tag_known (etag e) = true ->
  skipped want e = false ->
  bit (etype e) ACL_TYPE_NFS4 = (want =? ACL_TYPE_NFS4) ->
  bit (etype e) ACL_TYPE_POSIX1E = negb (want =? ACL_TYPE_NFS4) ->
  ((want =? ACL_TYPE_NFS4) = false -> bit want ACL_TYPE_POSIX1E = true) ->
  entry_safe fxl wide flags e = true ->
  L + N.of_nat (length (e_text wide flags e)) + 1 <= tl_entry fxl wide want flags e L.
Proof.
  intros fxl wide want flags e L Htag Hskip Hnfs Hposix Hwant Hsafe.
  unfold e_text, append_entry, tl_entry, e_id, entry_safe in *.
  pose proof (perm_text_len wide (etype e) flags (eperm e)) as HP.
  rewrite Hposix in HP.
  assert (HPfx : L + N.of_nat (length (e_prefix flags e)) <=
                 (if bit want ACL_TYPE_DEFAULT && bit (etype e) ACL_TYPE_DEFAULT then L + 8 else L)).
  { unfold e_prefix. destruct (etype e =? ACL_TYPE_DEFAULT) eqn:E.
    - apply N.eqb_eq in E. unfold skipped in Hskip. apply orb_false_iff in Hskip.
      destruct Hskip as [Hs _]. apply negb_false_iff in Hs. rewrite E in *.
      rewrite (bit_comm want). rewrite Hs.
      change (bit ACL_TYPE_DEFAULT ACL_TYPE_DEFAULT) with true. cbn [andb].
      destruct (bit flags ACL_STYLE_MARK_DEFAULT); cbn; lia.
    - cbn [andb length]. destruct (bit want ACL_TYPE_DEFAULT && bit (etype e) ACL_TYPE_DEFAULT); cbn; lia. }
  set (PFX := if bit want ACL_TYPE_DEFAULT && bit (etype e) ACL_TYPE_DEFAULT then L + 8 else L) in *.
  pose proof (append_id_le10 (eid e)) as H10.
  pose proof (append_id_idlen (eid e)) as Hidl.
  pose proof (append_id_small (eid e)) as Hsmall.
  assert (Hm1 : append_id (-1) = [c_0]) by reflexivity.
  destruct (want =? ACL_TYPE_NFS4) eqn:EW;
  [clear Hwant; assert (Hwant : bit want ACL_TYPE_POSIX1E = false)
     by (apply N.eqb_eq in EW; rewrite EW; reflexivity)
  |specialize (Hwant eq_refl)];
  rewrite ?Hnfs, ?Hposix, ?Hwant in *;
  (destruct (tag_known_cases _ Htag) as [T|[T|[T|[T|[T|[T|T]]]]]]; rewrite T in *; clear T;
   unfold tag_select, mid_text, is_ug, name_opt, uid_field, id_text in *; eval_eqb; cbn [orb andb negb] in *;
   rewrite ?Hnfs, ?Hposix in *; cbn [orb andb negb] in *;
   (* only the tests that matter for the tag at hand are split *)
   try (match goal with |- context [bit flags ACL_STYLE_EXTRA_ID] => destruct (bit flags ACL_STYLE_EXTRA_ID) eqn:EX end);
   try (match goal with |- context [bit flags ACL_STYLE_SOLARIS] => destruct (bit flags ACL_STYLE_SOLARIS) eqn:ES end);
   try (match goal with |- context [ename e] => destruct (ename e) as [|c0 nm] eqn:EN end);
   try (match goal with |- context [if wide then _ else _] => destruct wide end);
   try (match goal with |- context [fxl && _] => destruct fxl end);
   cbn [orb andb negb] in *;
   rewrite ?Hm1;
   change ((-1 =? -1)%Z) with true; cbn iota;
   try (destruct (eid e =? -1)%Z eqn:EI);
   repeat rewrite app_length; cbn [length s_user s_group s_other s_mask s_owner_at s_group_at s_everyone_at c_colon];
   repeat rewrite Nat2N.inj_add;
   try (destruct wide; destruct fxl; cbn [orb andb negb] in Hsafe);
   try (destruct (eid e <? 1000000)%Z eqn:E6; [apply Z.ltb_lt in E6; specialize (Hsmall E6)|try discriminate]);
   lia).
Qed.

(* ------------------------------------------------------------------ the whole list *)
(* invariant of every ACL built by archive_acl_add_entry (acl_new_entry): the tag of a stored entry
   is one of the seven known tags and the bits of its type are recorded in acl_types *)
Definition entry_wf (types : N) (e : aentry) : bool := tag_known (etag e) && within (etype e) types.
Definition acl_wf (a : acl) : bool := forallb (entry_wf (atypes a)) (aents a).

Definition acl_safe (fxl wide : bool) (flags : N) (a : acl) : bool :=
  forallb (entry_safe fxl wide flags) (aents a).

Lemma want_type_cases : forall a flags,
  let w := text_want_type a flags in
  w = 0 \/
  (w = ACL_TYPE_NFS4 /\ bit (atypes a) ACL_TYPE_POSIX1E = false) \/
  ((w =? ACL_TYPE_NFS4) = false /\ (w =? 0) = false /\ within w ACL_TYPE_POSIX1E = true /\
   bit (atypes a) ACL_TYPE_NFS4 = false).
Proof.
  intros a flags. unfold text_want_type.
  destruct (bit (atypes a) ACL_TYPE_NFS4) eqn:E4.
  - destruct (bit (atypes a) ACL_TYPE_POSIX1E) eqn:EP; [left; reflexivity|right; left; split; reflexivity].
  - right; right.
    destruct (bit flags ACL_TYPE_ACCESS); destruct (bit flags ACL_TYPE_DEFAULT); vm_compute; repeat split; reflexivity.
Qed.

Lemma tl_loop_bound : forall fxl wide want flags sep l some count L,
  ((want =? ACL_TYPE_NFS4) = false -> bit want ACL_TYPE_POSIX1E = true) ->
  (forall e, In e l -> skipped want e = false ->
     tag_known (etag e) = true /\
     bit (etype e) ACL_TYPE_NFS4 = (want =? ACL_TYPE_NFS4) /\
     bit (etype e) ACL_TYPE_POSIX1E = negb (want =? ACL_TYPE_NFS4) /\
     entry_safe fxl wide flags e = true) ->
  let '(count', L') := tl_loop fxl wide want flags l count L in
  let t := tt_loop wide want flags sep l some in
  count <= count' /\
  (if some then L + N.of_nat (length t) <= L'
   else (count' = count /\ t = [] /\ L' = L) \/ (count < count' /\ L + N.of_nat (length t) + 1 <= L')).
Proof.
  intros fxl wide want flags sep l. induction l as [|e r IH]; intros some count L Hw H.
  - cbn [tl_loop tt_loop length]. split; [lia|]. destruct some; [cbn; lia|left; auto].
  - cbn [tl_loop tt_loop]. destruct (skipped want e) eqn:ES.
    + apply IH; [exact Hw|]. intros e' Hin. apply H. right. exact Hin.
    + destruct (H e (or_introl eq_refl) ES) as (Ht & Hn & Hp & Hs).
      pose proof (entry_bound fxl wide want flags e L Ht ES Hn Hp Hw Hs) as HB.
      specialize (IH true (count + 1) (tl_entry fxl wide want flags e L) Hw).
      assert (H' : forall e', In e' r -> skipped want e' = false ->
                 tag_known (etag e') = true /\
                 bit (etype e') ACL_TYPE_NFS4 = (want =? ACL_TYPE_NFS4) /\
                 bit (etype e') ACL_TYPE_POSIX1E = negb (want =? ACL_TYPE_NFS4) /\
                 entry_safe fxl wide flags e' = true).
      { intros e' Hin. apply H. right. exact Hin. }
      specialize (IH H').
      destruct (tl_loop fxl wide want flags r (count + 1) (tl_entry fxl wide want flags e L)) as [c' L'].
      destruct IH as [Hc HL]. split; [lia|].
      repeat rewrite app_length. repeat rewrite Nat2N.inj_add.
      destruct some; cbn [length]; [change (N.of_nat 1) with 1; lia|].
      right. change (N.of_nat 0) with 0. split; lia.
Qed.

Lemma base_entry_len : forall wide flags tag perm,
  tag = ACL_USER_OBJ \/ tag = ACL_GROUP_OBJ \/ tag = ACL_OTHER ->
  length (append_entry wide [] ACL_TYPE_ACCESS tag flags None perm (-1)) =
  (if N.eqb tag ACL_USER_OBJ then 9 else if N.eqb tag ACL_GROUP_OBJ then 10
   else if bit flags ACL_STYLE_SOLARIS then 9 else 10)%nat.
Proof.
  intros wide flags tag perm [T|[T|T]]; subst tag;
  unfold append_entry, tag_select, mid_text, perm_text, id_text, is_ug; eval_eqb;
  change (bit ACL_TYPE_ACCESS ACL_TYPE_NFS4) with false;
  change (bit ACL_TYPE_ACCESS ACL_TYPE_POSIX1E) with true; cbn [orb andb negb];
  destruct (bit flags ACL_STYLE_SOLARIS); reflexivity.
Qed.

(* every entry of a well-formed ACL that the serialiser looks at agrees with want_type *)
Lemma wf_agree : forall a flags e,
  acl_wf a = true -> In e (aents a) ->
  let w := text_want_type a flags in
  (w =? 0) = false -> skipped w e = false ->
  tag_known (etag e) = true /\
  bit (etype e) ACL_TYPE_NFS4 = (w =? ACL_TYPE_NFS4) /\
  bit (etype e) ACL_TYPE_POSIX1E = negb (w =? ACL_TYPE_NFS4).
Proof.
  intros a flags e Hwf Hin w Hw0 Hskip.
  unfold acl_wf in Hwf. rewrite forallb_forall in Hwf. specialize (Hwf e Hin).
  unfold entry_wf in Hwf. apply andb_true_iff in Hwf. destruct Hwf as [Ht Hin_t].
  split; [exact Ht|].
  unfold skipped in Hskip. apply orb_false_iff in Hskip. destruct Hskip as [Hs _].
  apply negb_false_iff in Hs.
  pose proof (want_type_cases a flags) as HC. cbv zeta in HC. fold w in HC.
  destruct HC as [H0|[[HN HP]|(HN & _ & HW & H4)]].
  - rewrite H0 in Hw0. discriminate.
  - rewrite HN in *. change (ACL_TYPE_NFS4 =? ACL_TYPE_NFS4) with true. cbn [negb].
    split; [exact Hs|]. exact (within_disjoint _ _ _ Hin_t HP).
  - rewrite HN. cbn [negb]. split.
    + exact (within_disjoint _ _ _ Hin_t H4).
    + exact (bit_within _ _ _ Hs HW).
Qed.

(* The length bound.  [text_len_of] is the number of characters archive_acl_to_text_l/_w allocate,
   [to_text_body] what they write before the terminating NUL. *)
Theorem len_bound_gen : forall fxl wide a flags t,
  acl_wf a = true -> acl_safe fxl wide flags a = true ->
  to_text fxl wide a flags = Some t ->
  N.of_nat (length t) + 1 <= text_len_of fxl wide a flags.
Proof.
  intros fxl wide a flags t Hwf Hsafe Ht.
  unfold to_text in Ht. destruct (text_len_of fxl wide a flags =? 0) eqn:E0; [discriminate|].
  injection Ht as Ht. subst t. apply N.eqb_neq in E0.
  unfold text_len_of in *. unfold to_text_body.
  set (w := text_want_type a flags) in *.
  destruct (w =? 0) eqn:Ew0; [exfalso; apply E0; reflexivity|].
  set (fl := tt_flags w flags) in *.
  set (sep := if bit fl ACL_STYLE_SEPARATOR_COMMA then c_comma else c_nl).
  assert (Hw : (w =? ACL_TYPE_NFS4) = false -> bit w ACL_TYPE_POSIX1E = true).
  { intros HN. pose proof (want_type_cases a flags) as HC. cbv zeta in HC. fold w in HC.
    destruct HC as [H0|[[HN' _]|(_ & H0 & HW & _)]].
    - rewrite H0 in Ew0. discriminate.
    - rewrite HN' in HN. discriminate.
    - unfold bit. rewrite (within_land w _ HW). rewrite H0. reflexivity. }
  assert (Hsafe' : acl_safe fxl wide fl a = true).
  { unfold acl_safe in *. rewrite forallb_forall in *. intros e Hin. specialize (Hsafe e Hin).
    unfold entry_safe in *. unfold fl, tt_flags. destruct (w =? ACL_TYPE_POSIX1E); [|exact Hsafe].
    assert (HB : bit (N.lor flags ACL_STYLE_MARK_DEFAULT) ACL_STYLE_EXTRA_ID = bit flags ACL_STYLE_EXTRA_ID).
    { unfold bit. rewrite N.land_lor_distr_l.
      change (N.land ACL_STYLE_MARK_DEFAULT ACL_STYLE_EXTRA_ID) with 0. rewrite N.lor_0_r. reflexivity. }
    rewrite HB. exact Hsafe. }
  assert (Hall : forall e, In e (aents a) -> skipped w e = false ->
     tag_known (etag e) = true /\
     bit (etype e) ACL_TYPE_NFS4 = (w =? ACL_TYPE_NFS4) /\
     bit (etype e) ACL_TYPE_POSIX1E = negb (w =? ACL_TYPE_NFS4) /\
     entry_safe fxl wide fl e = true).
  { intros e Hin Hs. destruct (wf_agree a flags e Hwf Hin Ew0 Hs) as (A & B & C).
    repeat split; try assumption.
    unfold acl_safe in Hsafe'. rewrite forallb_forall in Hsafe'. exact (Hsafe' e Hin). }
  unfold text_len in *.
  pose proof (tl_loop_bound fxl wide w fl sep (aents a) (bit w ACL_TYPE_ACCESS) 0 0 Hw Hall) as HB.
  destruct (tl_loop fxl wide w fl (aents a) 0 0) as [count L'].
  destruct HB as [_ HB].
  destruct (bit w ACL_TYPE_ACCESS) eqn:EA.
  - repeat rewrite app_length. repeat rewrite Nat2N.inj_add.
    rewrite !base_entry_len by tauto. eval_eqb. cbn [length].
    destruct (bit fl ACL_STYLE_SOLARIS); lia.
  - cbn [app]. destruct (count =? 0) eqn:EC.
    + exfalso. apply E0. reflexivity.
    + apply N.eqb_neq in EC. destruct HB as [[Hc _]|[_ HB]]; [congruence|]. lia.
Qed.

(* ------------------------------------------------------------------ corollaries *)
Lemma safe_wide : forall fxl flags a, acl_safe fxl true flags a = true.
Proof.
  intros. unfold acl_safe. apply forallb_forall. intros e _. unfold entry_safe.
  rewrite orb_true_r. reflexivity.
Qed.
Lemma safe_fixed : forall wide flags a, acl_safe true wide flags a = true.
Proof. intros. unfold acl_safe. apply forallb_forall. intros e _. reflexivity. Qed.
Lemma safe_extra_id : forall fxl wide flags a,
  bit flags ACL_STYLE_EXTRA_ID = true -> acl_safe fxl wide flags a = true.
Proof.
  intros fxl wide flags a H. unfold acl_safe. apply forallb_forall. intros e _. unfold entry_safe.
  rewrite H. rewrite orb_true_r. reflexivity.
Qed.

(* ------------------------------------------------------------------ the invariant is an invariant *)
Lemma within_lor_l : forall x m t, within x m = true -> within x (N.lor m t) = true.
Proof.
  unfold within. intros x m t H. apply N.eqb_eq in H. apply N.eqb_eq.
  rewrite <- N.ldiff_ldiff_l. rewrite H. apply N.ldiff_0_l.
Qed.
Lemma within_lor_r : forall m t, within t (N.lor m t) = true.
Proof.
  unfold within. intros m t. apply N.eqb_eq. apply N.bits_inj_0. intros n.
  rewrite N.ldiff_spec, N.lor_spec. destruct (N.testbit t n); destruct (N.testbit m n); reflexivity.
Qed.

Lemma tag_ok_known : forall type tag, tag_ok_for type tag = true -> tag_known tag = true.
Proof.
  unfold tag_ok_for, tag_known. intros type tag H.
  destruct (tag =? ACL_USER); [reflexivity|]. destruct (tag =? ACL_USER_OBJ); [reflexivity|].
  destruct (tag =? ACL_GROUP); [reflexivity|]. destruct (tag =? ACL_GROUP_OBJ); [reflexivity|].
  cbn [orb] in *. destruct (tag =? ACL_MASK); [reflexivity|]. destruct (tag =? ACL_OTHER); [reflexivity|].
  cbn [orb] in *. destruct (tag =? ACL_EVERYONE); [reflexivity|discriminate].
Qed.

Lemma overwrite_wf : forall types type tag id perm name l l',
  forallb (entry_wf types) l = true ->
  overwrite type tag id perm name l = Some l' ->
  forallb (entry_wf types) l' = true.
Proof.
  intros types type tag id perm name l. induction l as [|e r IH]; intros l' Hwf H; cbn [overwrite] in H.
  - discriminate.
  - cbn [forallb] in Hwf. apply andb_true_iff in Hwf. destruct Hwf as [He Hr].
    destruct (same_slot type tag id e).
    + injection H as H. subst l'. cbn [forallb]. rewrite Hr. rewrite andb_true_r. exact He.
    + destruct (overwrite type tag id perm name r) as [r'|] eqn:E; [|discriminate].
      injection H as H. subst l'. cbn [forallb]. rewrite He. rewrite (IH r' Hr eq_refl). reflexivity.
Qed.

Lemma acl_empty_wf : forall m, acl_wf (acl_empty m) = true.
Proof. reflexivity. Qed.

Lemma add_entry_wf : forall a type perm tag id name,
  acl_wf a = true -> acl_wf (snd (add_entry a type perm tag id name)) = true.
Proof.
  intros a type perm tag id name Hwf. unfold add_entry.
  destruct (acl_special a type perm tag) as [a'|] eqn:ES.
  - cbn [snd]. unfold acl_special in ES.
    destruct ((type =? ACL_TYPE_ACCESS) && within perm 7); [|discriminate].
    destruct (tag =? ACL_USER_OBJ); [injection ES as ES; subst a'; exact Hwf|].
    destruct (tag =? ACL_GROUP_OBJ); [injection ES as ES; subst a'; exact Hwf|].
    destruct (tag =? ACL_OTHER); [injection ES as ES; subst a'; exact Hwf|discriminate].
  - destruct (new_entry a type perm tag id name) as [a'|] eqn:EN; cbn [snd]; [|exact Hwf].
    unfold new_entry in EN.
    destruct (type_ok a type perm && tag_ok_for type tag) eqn:EOK; [|discriminate].
    apply andb_true_iff in EOK. destruct EOK as [_ Htag].
    destruct (overwrite type tag id perm name (aents a)) as [l|] eqn:EO; injection EN as EN; subst a'.
    + unfold acl_wf in *. cbn [aents atypes]. exact (overwrite_wf _ _ _ _ _ _ _ _ Hwf EO).
    + unfold acl_wf in *. cbn [aents atypes]. rewrite forallb_app. apply andb_true_iff. split.
      * rewrite forallb_forall in *. intros e Hin. specialize (Hwf e Hin).
        unfold entry_wf in *. apply andb_true_iff in Hwf. destruct Hwf as [A B].
        rewrite A. cbn [andb]. apply within_lor_l. exact B.
      * cbn [forallb]. rewrite andb_true_r. unfold entry_wf. cbn [etag etype].
        rewrite (tag_ok_known _ _ Htag). cbn [andb]. apply within_lor_r.
Qed.

(* every ACL obtained from an empty one by archive_acl_add_entry calls *)
Inductive reachable : acl -> Prop :=
| reach_empty : forall m, reachable (acl_empty m)
| reach_mode : forall a m, reachable a -> reachable (set_mode a m)      (* archive_entry_set_mode *)
| reach_add : forall a type perm tag id name,
    reachable a -> reachable (snd (add_entry a type perm tag id name)).

Lemma reachable_wf : forall a, reachable a -> acl_wf a = true.
Proof.
  induction 1.
  - reflexivity.
  - exact IHreachable.
  - apply add_entry_wf. exact IHreachable.
Qed.

(* the witness for the overrun of the char variant in the pinned tree: one allow entry for a
   nameless user with a 7-digit id, flags = 0 *)
Definition overrun_acl : acl :=
  snd (add_entry (acl_empty 420) ACL_TYPE_ALLOW ACL_READ_DATA ACL_USER 1234567 []).

Lemma overrun_witness :
  reachable overrun_acl /\
  exists t, to_text false false overrun_acl 0 = Some t /\
            text_len_of false false overrun_acl 0 < N.of_nat (length t) + 1.
Proof.
  split.
  - unfold overrun_acl. apply reach_add. apply reach_empty.
  - eexists. split; [vm_compute; reflexivity|vm_compute; reflexivity].
Qed.
