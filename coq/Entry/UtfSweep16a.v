(* C18 - exhaustive sweep: every Unicode scalar value through unicode_to_utf16be; 16-bit units. *)
From Coq Require Import List ZArith NArith Bool.
From LA Require Import Gen.UtfTable Entry.UtfDefs Entry.UtfBase.
Local Open Scope N_scope.

Lemma sweep_rt16be : forall_below 1114112 (rt16 true) = true.
Proof. vm_cast_no_check (eq_refl true). Qed.
Lemma sweep_unit_be : forall_below 256 (fun b0 => forall_below 256 (fun b1 => unit_rt true b0 b1)) = true.
Proof. vm_cast_no_check (eq_refl true). Qed.
