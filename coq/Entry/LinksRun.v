(* val -> val front end of the link-resolver model (correspondence protocol). *)
From Coq Require Import List ZArith NArith Bool.
From LA Require Import Base.Val Gen.Defines Entry.LinksDefs.
Import ListNotations.

Definition entry_of_val (v : val) : lentry :=
  let l := lval v in
  mkLentry (zval (vnth l 1)) (nval (vnth l 2)) (nval (vnth l 3)) (nval (vnth l 4)) (nval (vnth l 5))
           (match lval (vnth l 6) with [s] => Some (zval s) | _ => None end)
           None (bval (vnth l 7)).

Definition val_of_entry (e : lentry) : val :=
  VL [VI (eid e); VN (edev e); VN (eino e); VN (enlink e); VN (eftype e);
      Vopt VI (esize e); Vopt VB (ehard e); VB (epath e)].

Definition op_of_val (v : val) : lop :=
  match lval v with
  | VI 0%Z :: _ => Push (entry_of_val v)
  | VI 1%Z :: _ => DrainOne
  | _ => PartialOne
  end.

Definition val_of_out (o : lout) : val :=
  match o with
  | OutPush a b => VL [VI 0; Vopt val_of_entry a; Vopt val_of_entry b]
  | OutDrain a => VL [VI 1; Vopt val_of_entry a]
  | OutPartial r => VL [VI 2; Vopt (fun p => VL [val_of_entry (fst p); VN (snd p)]) r]
  end.

Definition run (v : val) : val :=
  let l := lval v in
  let strat := nval (vnth l 0) in
  let ops := map op_of_val (lval (vnth l 1)) in
  let '(_, outs) := lrun (init_table strat) ops in
  VL (map val_of_out outs).
