(* C15 - further invariants of archive_acl_add_entry (acl_new_entry) used to apply the round-trip
   theorem to every ACL that can be built through the API. *)
From Coq Require Import List ZArith NArith Bool Lia.
From LA Require Import Base.Val Gen.Defines Gen.AclConsts Entry.AclDefs Entry.AclLen Entry.AclParse Entry.AclRound.
Import ListNotations.
Local Open Scope N_scope.

Definition key (e : aentry) : N * N * Z := (etype e, etag e, eid e).

Lemma same_slot_key : forall type tag id x x', key x = key x' -> same_slot type tag id x = same_slot type tag id x'.
Proof. intros type tag id x x' H. unfold key in H. injection H as H1 H2 H3. unfold same_slot. rewrite H1, H2, H3. reflexivity. Qed.

Lemma distinct_slots_keys : forall l l', map key l = map key l' -> distinct_slots l = distinct_slots l'.
Proof.
  induction l as [|x r IH]; intros [|x' r'] H; try discriminate; [reflexivity|].
  cbn [map] in H. assert (Hx : key x = key x') by congruence. assert (Hr : map key r = map key r') by congruence.
  cbn [distinct_slots]. rewrite (IH r' Hr). f_equal.
  clear IH H. revert r' Hr. induction r as [|y r IH2]; intros [|y' r''] Hr; try discriminate; [reflexivity|].
  cbn [map] in Hr. assert (Hy : key y = key y') by congruence. assert (Hr' : map key r = map key r'') by congruence.
  cbn [forallb]. rewrite (IH2 r'' Hr'). f_equal. f_equal.
  pose proof Hy as Hy'. unfold key in Hy'. injection Hy' as A B C. rewrite A, B, C. apply same_slot_key. exact Hx.
Qed.

Lemma overwrite_keys : forall type tag id perm name l l',
  overwrite type tag id perm name l = Some l' -> map key l' = map key l.
Proof.
  intros type tag id perm name. induction l as [|e r IH]; intros l' H; cbn [overwrite] in H; [discriminate|].
  destruct (same_slot type tag id e).
  - injection H as H. subst l'. reflexivity.
  - destruct (overwrite type tag id perm name r) as [r'|]; [|discriminate]. injection H as H. subst l'.
    cbn [map]. rewrite (IH r' eq_refl). reflexivity.
Qed.

Lemma overwrite_none_inv : forall type tag id perm name l,
  overwrite type tag id perm name l = None -> forall x, In x l -> same_slot type tag id x = false.
Proof.
  intros type tag id perm name. induction l as [|e r IH]; intros H x Hx; [destruct Hx|].
  cbn [overwrite] in H. destruct (same_slot type tag id e) eqn:E; [discriminate|].
  destruct (overwrite type tag id perm name r) eqn:E2; [discriminate|].
  destruct Hx as [Hx|Hx]; [subst; exact E|exact (IH eq_refl x Hx)].
Qed.

Lemma distinct_snoc : forall l y,
  distinct_slots l = true -> (forall x, In x l -> same_slot (etype y) (etag y) (eid y) x = false) ->
  distinct_slots (l ++ [y]) = true.
Proof.
  induction l as [|x r IH]; intros y Hd H; [reflexivity|].
  cbn [app distinct_slots] in *. apply andb_true_iff in Hd. destruct Hd as [H1 H2].
  rewrite forallb_app. rewrite H1. cbn [forallb andb]. rewrite (H x (or_introl eq_refl)). cbn [negb andb].
  apply IH; [exact H2|]. intros x' Hx'. apply H. right. exact Hx'.
Qed.

(* acl_types is exactly the union of the types of the stored entries *)
Lemma lor_types_app : forall l1 l2, lor_types (l1 ++ l2) = N.lor (lor_types l1) (lor_types l2).
Proof. induction l1 as [|e r IH]; intros l2; cbn [app lor_types]; [reflexivity|]. rewrite IH. apply N.lor_assoc. Qed.

Lemma lor_types_keys : forall l l', map key l = map key l' -> lor_types l = lor_types l'.
Proof.
  induction l as [|x r IH]; intros [|x' r'] H; try discriminate; [reflexivity|].
  cbn [map] in H. assert (Hx : key x = key x') by congruence. assert (Hr : map key r = map key r') by congruence.
  cbn [lor_types]. rewrite (IH r' Hr).
  unfold key in Hx. injection Hx as A _ _. rewrite A. reflexivity.
Qed.

Definition acl_inv (a : acl) : Prop := distinct_slots (aents a) = true /\ atypes a = lor_types (aents a).

Lemma add_entry_inv : forall a type perm tag id name, acl_inv a -> acl_inv (snd (add_entry a type perm tag id name)).
Proof.
  intros a type perm tag id name [Hd Ht]. unfold add_entry.
  destruct (acl_special a type perm tag) as [a'|] eqn:ES.
  - cbn [snd]. unfold acl_special in ES.
    destruct ((type =? ACL_TYPE_ACCESS) && within perm 7); [|discriminate].
    destruct (tag =? ACL_USER_OBJ); [injection ES as ES; subst a'; split; assumption|].
    destruct (tag =? ACL_GROUP_OBJ); [injection ES as ES; subst a'; split; assumption|].
    destruct (tag =? ACL_OTHER); [injection ES as ES; subst a'; split; assumption|discriminate].
  - destruct (new_entry a type perm tag id name) as [a'|] eqn:EN; cbn [snd]; [|split; assumption].
    unfold new_entry in EN. destruct (type_ok a type perm && tag_ok_for type tag); [|discriminate].
    destruct (overwrite type tag id perm name (aents a)) as [l|] eqn:EO; injection EN as EN; subst a'; unfold acl_inv; cbn [aents atypes].
    + pose proof (overwrite_keys _ _ _ _ _ _ _ EO) as HK. split.
      * rewrite (distinct_slots_keys l (aents a) HK). exact Hd.
      * rewrite (lor_types_keys l (aents a) HK). exact Ht.
    + split.
      * apply distinct_snoc; [exact Hd|]. cbn [etype etag eid]. exact (overwrite_none_inv _ _ _ _ _ _ EO).
      * rewrite lor_types_app. cbn [lor_types]. rewrite N.lor_0_r. rewrite Ht. reflexivity.
Qed.

Lemma reachable_inv : forall a, reachable a -> acl_inv a.
Proof.
  induction 1.
  - split; reflexivity.
  - exact IHreachable.
  - apply add_entry_inv. exact IHreachable.
Qed.

Lemma distinct_filter : forall f l, distinct_slots l = true -> distinct_slots (filter f l) = true.
Proof.
  intros f. induction l as [|x r IH]; intros H; [reflexivity|].
  cbn [distinct_slots] in H. apply andb_true_iff in H. destruct H as [H1 H2].
  cbn [filter]. destruct (f x); [|exact (IH H2)].
  cbn [distinct_slots]. rewrite (IH H2). rewrite andb_true_r.
  rewrite forallb_forall in *. intros y Hy. apply H1. apply filter_In in Hy. exact (proj1 Hy).
Qed.

(* entries without qualifier carry no id *)
Definition plain_ids (l : list aentry) : Prop := forall e, In e l -> is_ug (etag e) = false -> eid e = (-1)%Z.

Lemma norm_key : forall e, (is_ug (etag e) = false -> eid e = (-1)%Z) -> key (norm e) = key e.
Proof.
  intros e H. unfold key, norm, parsed_id. cbn [etype etag eid].
  destruct (is_ug (etag e)); [reflexivity|]. rewrite (H eq_refl). reflexivity.
Qed.

Lemma distinct_norm : forall l, plain_ids l -> distinct_slots (map norm l) = distinct_slots l.
Proof.
  intros l H. apply distinct_slots_keys. rewrite map_map. apply map_ext_in. intros e He. apply norm_key. exact (H e He).
Qed.

Lemma lor_types_within : forall l m, (forall e, In e l -> within (etype e) m = true) -> within (lor_types l) m = true.
Proof.
  induction l as [|e r IH]; intros m H; [reflexivity|]. cbn [lor_types]. apply within_lor.
  - apply H. left. reflexivity.
  - apply IH. intros e' He'. apply H. right. exact He'.
Qed.

(* the round trip for every POSIX.1e ACL that the API can build *)
Theorem roundtrip_posix_reachable : forall wide fxl fxw fxs fxm a flags t,
  reachable a -> acl_rt a -> plain_ids (aents a) ->
  bit flags ACL_TYPE_ACCESS = false -> bit flags ACL_TYPE_DEFAULT = false ->
  bit flags ACL_STYLE_EXTRA_ID = true ->
  to_text fxl wide a flags = Some t ->
  from_text wide fxw fxs fxm t ACL_TYPE_ACCESS (acl_empty 0) =
  PRet ARCHIVE_OK (mkAcl (N.land (amode a) 511) (map norm (emitted ACL_TYPE_POSIX1E a))
                         (lor_types (emitted ACL_TYPE_POSIX1E a))).
Proof.
  intros wide fxl fxw fxs fxm a flags t Hr Hrt Hpl HA HD Hx Ht.
  destruct (reachable_inv a Hr) as [Hd Hty].
  apply (roundtrip_posix_gen wide fxl fxw fxs fxm a flags t Hrt); try assumption.
  - rewrite Hty. apply lor_types_within. intros e He. destruct (Hrt e He) as ([A|A] & _); rewrite A; reflexivity.
  - rewrite distinct_norm.
    + unfold emitted. apply distinct_filter. exact Hd.
    + intros e He. unfold emitted in He. apply filter_In in He. apply Hpl. exact (proj1 He).
Qed.
