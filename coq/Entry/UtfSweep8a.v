(* C18 - exhaustive sweep: every Unicode scalar value but U+0000 through unicode_to_utf8 and back. *)
From Coq Require Import List ZArith NArith Bool.
From LA Require Import Gen.UtfTable Entry.UtfDefs Entry.UtfBase.
Local Open Scope N_scope.

Lemma sweep_rt8 : forall_below 1114112 rt8 = true.
Proof. vm_cast_no_check (eq_refl true). Qed.
