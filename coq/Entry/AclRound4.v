(* C15 - round trip for NFSv4 ACLs. *)
From Coq Require Import List ZArith NArith Bool Lia.
From LA Require Import Base.Val Gen.Defines Gen.AclConsts Entry.AclDefs Entry.AclBits Entry.AclParse Entry.AclRound.
Import ListNotations.
Local Open Scope N_scope.

(* ------------------------------------------------------------------ letters <-> bits *)
Lemma perm_loop_app : forall cases x y acc,
  perm_loop cases (x ++ y) acc =
  (let '(ok, p) := perm_loop cases x acc in if ok then perm_loop cases y p else (false, p)).
Proof.
  intros cases. induction x as [|c x IH]; intros y acc; cbn [app perm_loop].
  - reflexivity.
  - destruct (lookup c cases); [apply IH|reflexivity].
Qed.

(* the bits of [perm] that have a row in the table *)
Fixpoint sel (table : list (N * N * N)) (perm : N) : N :=
  match table with
  | [] => 0
  | (b, _, _) :: r => N.lor (if bit perm b then b else 0) (sel r perm)
  end.

(* every letter of the table is read back by the switch as the bits of its row *)
Definition rows_ok (cases : list (N * N)) (wide : bool) (table : list (N * N * N)) : bool :=
  forallb (fun row => let '(b, c, wc) := row in
             match lookup (if wide then wc else c) cases with Some x => x =? b | None => false end) table.

Lemma perm_loop_letters : forall cases wide compact table perm acc,
  rows_ok cases wide table = true -> lookup c_dash cases = Some 0 ->
  perm_loop cases (perm_letters wide compact table perm) acc = (true, N.lor acc (sel table perm)).
Proof.
  intros cases wide compact table perm. induction table as [|[[b c] wc] r IH]; intros acc Hrows Hdash.
  - cbn. rewrite N.lor_0_r. reflexivity.
  - cbn [rows_ok forallb] in Hrows. apply andb_true_iff in Hrows. destruct Hrows as [Hrow Hr].
    unfold perm_letters. cbn [flat_map]. fold (perm_letters wide compact r perm).
    rewrite perm_loop_app. cbn [sel].
    destruct (lookup (if wide then wc else c) cases) as [x|] eqn:EL; [|discriminate].
    apply N.eqb_eq in Hrow. subst x.
    destruct (bit perm b).
    + cbn [perm_loop]. rewrite EL. rewrite (IH _ Hr Hdash). rewrite N.lor_assoc. reflexivity.
    + destruct compact.
      * cbn [perm_loop]. rewrite (IH _ Hr Hdash). rewrite N.lor_0_l. reflexivity.
      * cbn [perm_loop]. rewrite Hdash. rewrite N.lor_0_r. rewrite (IH _ Hr Hdash). rewrite N.lor_0_l. reflexivity.
Qed.

(* rows of one bit *)
Definition pow2 (b : N) : bool := negb (b =? 0) && (b =? 2 ^ N.log2 b).
Fixpoint mask (table : list (N * N * N)) : N :=
  match table with [] => 0 | (b, _, _) :: r => N.lor b (mask r) end.

Lemma if_bit_pow2 : forall perm b, pow2 b = true -> (if bit perm b then b else 0) = N.land perm b.
Proof.
  intros perm b H. unfold pow2 in H. apply andb_true_iff in H. destruct H as [_ H]. apply N.eqb_eq in H.
  set (k := N.log2 b) in *. rewrite H. clear H. unfold bit.
  destruct (N.testbit perm k) eqn:ET.
  - assert (E : N.land perm (2 ^ k) = 2 ^ k).
    { apply N.bits_inj. intros n. rewrite N.land_spec. rewrite N.pow2_bits_eqb.
      destruct (N.eqb k n) eqn:EK; [apply N.eqb_eq in EK; subst; rewrite ET; reflexivity|apply andb_false_r]. }
    rewrite E. destruct (2 ^ k =? 0) eqn:E0; [|reflexivity].
    apply N.eqb_eq in E0. pose proof (N.pow_nonzero 2 k ltac:(discriminate)). congruence.
  - assert (E : N.land perm (2 ^ k) = 0).
    { apply N.bits_inj_0. intros n. rewrite N.land_spec. rewrite N.pow2_bits_eqb.
      destruct (N.eqb k n) eqn:EK; [apply N.eqb_eq in EK; subst; rewrite ET; reflexivity|apply andb_false_r]. }
    rewrite E. reflexivity.
Qed.

Lemma sel_mask : forall table perm,
  forallb (fun row => let '(b, _, _) := row in pow2 b) table = true ->
  sel table perm = N.land perm (mask table).
Proof.
  induction table as [|[[b c] wc] r IH]; intros perm H.
  - cbn. rewrite N.land_0_r. reflexivity.
  - cbn [forallb] in H. apply andb_true_iff in H. destruct H as [Hb Hr].
    cbn [sel mask]. rewrite (if_bit_pow2 perm b Hb). rewrite (IH perm Hr). rewrite N.land_lor_distr_r. reflexivity.
Qed.

(* what the generated tables of this tree must satisfy (checked by computation) *)
Definition nfs4_tables_ok : bool :=
  rows_ok is_nfs4_perms_cases false nfsv4_perm_map && rows_ok is_nfs4_perms_w_cases true nfsv4_perm_map &&
  rows_ok is_nfs4_flags_cases false nfsv4_flag_map && rows_ok is_nfs4_flags_w_cases true nfsv4_flag_map &&
  forallb (fun cases : list (N * N) => match lookup c_dash cases with Some 0 => true | _ => false end)
          [is_nfs4_perms_cases; is_nfs4_perms_w_cases; is_nfs4_flags_cases; is_nfs4_flags_w_cases] &&
  forallb (fun row => let '(b, _, _) := row in pow2 b) nfsv4_perm_map &&
  forallb (fun row => let '(b, _, _) := row in pow2 b) nfsv4_flag_map &&
  (N.lor (mask nfsv4_perm_map) (mask nfsv4_flag_map) =? N.lor ACL_PERMS_NFS4 ACL_INHERITANCE_NFS4) &&
  forallb (fun row => let '(_, c, wc) := row in cleanc c && cleanc wc) (nfsv4_perm_map ++ nfsv4_flag_map).
Lemma nfs4_tables_ok_true : nfs4_tables_ok = true.
Proof. vm_compute. reflexivity. Qed.

Definition perm_word (wide : bool) (flags perm : N) : str :=
  perm_letters wide (bit flags ACL_STYLE_COMPACT) nfsv4_perm_map perm.
Definition flag_word (wide : bool) (flags perm : N) : str :=
  perm_letters wide (bit flags ACL_STYLE_COMPACT) nfsv4_flag_map perm.

Lemma nfs4_perms_flags : forall (wide : bool) (flags perm : N),
  within perm (N.lor ACL_PERMS_NFS4 ACL_INHERITANCE_NFS4) = true ->
  exists p1,
    perm_loop (if wide then is_nfs4_perms_w_cases else is_nfs4_perms_cases) (perm_word wide flags perm) 0 = (true, p1) /\
    perm_loop (if wide then is_nfs4_flags_w_cases else is_nfs4_flags_cases) (flag_word wide flags perm) p1 = (true, perm).
Proof.
  intros wide flags perm Hw.
  pose proof nfs4_tables_ok_true as HT. unfold nfs4_tables_ok in HT.
  apply andb_true_iff in HT. destruct HT as [HT Kclean].
  apply andb_true_iff in HT. destruct HT as [HT Kmask].
  apply andb_true_iff in HT. destruct HT as [HT Kp2f].
  apply andb_true_iff in HT. destruct HT as [HT Kp2p].
  apply andb_true_iff in HT. destruct HT as [HT Kdash].
  apply andb_true_iff in HT. destruct HT as [HT Kfw].
  apply andb_true_iff in HT. destruct HT as [HT Kfn].
  apply andb_true_iff in HT. destruct HT as [Kpn Kpw].
  cbn [forallb] in Kdash.
  apply andb_true_iff in Kdash. destruct Kdash as [D1 Kdash].
  apply andb_true_iff in Kdash. destruct Kdash as [D2 Kdash].
  apply andb_true_iff in Kdash. destruct Kdash as [D3 Kdash].
  apply andb_true_iff in Kdash. destruct Kdash as [D4 _].
  assert (D : forall cases, match lookup c_dash cases with Some 0 => true | _ => false end = true -> lookup c_dash cases = Some 0).
  { intros cases Hc. destruct (lookup c_dash cases) as [[|p]|]; try discriminate. reflexivity. }
  exists (sel nfsv4_perm_map perm). unfold perm_word, flag_word.
  assert (Hfin : N.lor (sel nfsv4_perm_map perm) (sel nfsv4_flag_map perm) = perm).
  { rewrite (sel_mask _ perm Kp2p), (sel_mask _ perm Kp2f). rewrite <- N.land_lor_distr_r.
    apply N.eqb_eq in Kmask. rewrite Kmask. apply within_land. exact Hw. }
  destruct wide.
  - rewrite (perm_loop_letters _ true _ _ perm 0 Kpw (D is_nfs4_perms_w_cases D2)). rewrite N.lor_0_l. split; [reflexivity|].
    rewrite (perm_loop_letters _ true _ _ perm _ Kfw (D is_nfs4_flags_w_cases D4)). rewrite Hfin. reflexivity.
  - rewrite (perm_loop_letters _ false _ _ perm 0 Kpn (D is_nfs4_perms_cases D1)). rewrite N.lor_0_l. split; [reflexivity|].
    rewrite (perm_loop_letters _ false _ _ perm _ Kfn (D is_nfs4_flags_cases D3)). rewrite Hfin. reflexivity.
Qed.

(* ------------------------------------------------------------------ the words of an NFSv4 entry *)
Definition nfs4_type (t : N) : Prop :=
  t = ACL_TYPE_ALLOW \/ t = ACL_TYPE_DENY \/ t = ACL_TYPE_AUDIT \/ t = ACL_TYPE_ALARM.
Definition nfs4_tag_ok (tag : N) : Prop :=
  tag = ACL_USER \/ tag = ACL_GROUP \/ tag = ACL_USER_OBJ \/ tag = ACL_GROUP_OBJ \/ tag = ACL_EVERYONE.

Definition word_of_tag4 (tag : N) : str :=
  if tag =? ACL_USER then s_user else if tag =? ACL_GROUP then s_group
  else if tag =? ACL_USER_OBJ then s_owner_at else if tag =? ACL_GROUP_OBJ then s_group_at else s_everyone_at.

Definition e_words4 (wide : bool) (flags : N) (e : aentry) : list str :=
  let id := e_id wide flags e in
  [word_of_tag4 (etag e)] ++
  (if is_ug (etag e) then [match ename e with [] => append_id id | n => n end] else []) ++
  [perm_word wide flags (eperm e); flag_word wide flags (eperm e); type_word (etype e)] ++
  (if is_ug (etag e) && negb (id =? -1)%Z then [append_id id] else []).

Lemma e_text_words4 : forall wide flags e,
  nfs4_type (etype e) -> nfs4_tag_ok (etag e) ->
  e_text wide flags e = join (e_words4 wide flags e).
Proof.
  intros wide flags e Ht Htag.
  unfold e_text, append_entry, e_prefix, e_words4, word_of_tag4, perm_word, flag_word.
  assert (Hn : bit (etype e) ACL_TYPE_NFS4 = true) by (destruct Ht as [H|[H|[H|H]]]; rewrite H; reflexivity).
  assert (Hp : bit (etype e) ACL_TYPE_POSIX1E = false) by (destruct Ht as [H|[H|[H|H]]]; rewrite H; reflexivity).
  assert (Hd : (etype e =? ACL_TYPE_DEFAULT) = false) by (destruct Ht as [H|[H|[H|H]]]; rewrite H; reflexivity).
  set (id := e_id wide flags e).
  unfold tag_select, mid_text, perm_text, id_text, name_opt. rewrite Hn, Hp, Hd. cbn [andb].
  set (P := perm_letters wide (bit flags ACL_STYLE_COMPACT) nfsv4_perm_map (eperm e)).
  set (F := perm_letters wide (bit flags ACL_STYLE_COMPACT) nfsv4_flag_map (eperm e)).
  set (T := type_word (etype e)).
  destruct Htag as [G|[G|[G|[G|G]]]]; rewrite G; unfold is_ug; eval_eqb; cbn [orb andb negb app];
  try (destruct (ename e) as [|c0 nm]);
  try (destruct (id =? -1)%Z);
  cbn [join app negb orb andb s_user s_group s_owner_at s_group_at s_everyone_at];
  rewrite ?orb_true_r; cbv iota;
  repeat (rewrite <- app_assoc); cbn [app]; repeat (rewrite <- app_assoc); cbn [app]; rewrite ?app_nil_r; reflexivity.
Qed.

Lemma perm_letters_clean : forall wide compact table perm,
  forallb (fun row => let '(_, c, wc) := row in cleanc c && cleanc wc) table = true ->
  clean (perm_letters wide compact table perm) = true.
Proof.
  intros wide compact table perm. induction table as [|[[b c] wc] r IH]; intros H; [reflexivity|].
  cbn [forallb] in H. apply andb_true_iff in H. destruct H as [Hrow Hr]. apply andb_true_iff in Hrow. destruct Hrow as [Hc Hwc].
  unfold perm_letters. cbn [flat_map]. fold (perm_letters wide compact r perm).
  unfold clean. rewrite forallb_app. fold (clean (perm_letters wide compact r perm)). rewrite (IH Hr). rewrite andb_true_r.
  destruct (bit perm b); [destruct wide; cbn [forallb]; rewrite ?Hc, ?Hwc; reflexivity|].
  destruct compact; reflexivity.
Qed.

Lemma tables_clean : forall wide flags perm,
  clean (perm_word wide flags perm) = true /\ clean (flag_word wide flags perm) = true.
Proof.
  intros. pose proof nfs4_tables_ok_true as HT. unfold nfs4_tables_ok in HT.
  apply andb_true_iff in HT. destruct HT as [_ K]. rewrite forallb_app in K. apply andb_true_iff in K. destruct K as [K1 K2].
  split; apply perm_letters_clean; assumption.
Qed.

Definition entry_rt4 (e : aentry) : Prop :=
  nfs4_type (etype e) /\ nfs4_tag_ok (etag e) /\ rt_entry_ok e /\
  within (eperm e) (N.lor ACL_PERMS_NFS4 ACL_INHERITANCE_NFS4) = true.

Lemma e_words4_ok : forall wide flags e,
  nfs4_type (etype e) -> nfs4_tag_ok (etag e) -> rt_entry_ok e ->
  Forall (fun w => clean w = true) (e_words4 wide flags e) /\
  last (e_words4 wide flags e) [c_0] <> [] /\ (length (e_words4 wide flags e) <= 6)%nat /\
  e_words4 wide flags e <> [] /\
  (exists c r, join (e_words4 wide flags e) = c :: r /\ (c =? 0) = false /\ (c =? c_hash) = false).
Proof.
  intros wide flags e Ht Htag Hok.
  unfold e_words4, word_of_tag4, rt_entry_ok in *.
  destruct (tables_clean wide flags (eperm e)) as [Hcp Hcf].
  pose proof (append_id_clean (e_id wide flags e)) as Hci.
  pose proof (append_id_nonempty (e_id wide flags e)) as Hni.
  assert (Htw : clean (type_word (etype e)) = true /\ type_word (etype e) <> []).
  { destruct Ht as [H|[H|[H|H]]]; rewrite H; split; (reflexivity || discriminate). }
  destruct Htw as [Htc Htn].
  set (P := perm_word wide flags (eperm e)) in *. set (F := flag_word wide flags (eperm e)) in *.
  set (T := type_word (etype e)) in *.
  destruct Htag as [G|[G|[G|[G|G]]]]; rewrite G in *; unfold is_ug in *; eval_eqb; eval_eqb_in Hok;
  cbn [orb andb negb] in *;
  try (destruct (ename e) as [|c0 nm] eqn:EN; [|destruct Hok as (Hcl & _ & _)]);
  try (destruct (e_id wide flags e =? -1)%Z);
  cbn [app last length negb];
  (split; [repeat (first [apply Forall_nil | apply Forall_cons]); first [assumption | reflexivity]|]);
  (split; [assumption|]);
  (split; [lia|]);
  (split; [discriminate|]);
  eexists; eexists; (split; [reflexivity|split; reflexivity]).
Qed.

(* ------------------------------------------------------------------ parse_nfs4 on the words of an entry *)
Definition parse_nfs4_w (wide : bool) (ws : list str) (a : acl) (ret : Z) (types : N) : eres :=
  let b := nth 0 ws [] in
  let tag :=
    if str_eqb b s_user then ACL_USER
    else if str_eqb b s_group then ACL_GROUP
    else if str_eqb b s_owner_at then ACL_USER_OBJ
    else if str_eqb b s_group_at then ACL_GROUP_OBJ
    else if str_eqb b s_everyone_at then ACL_EVERYONE
    else 0 in
  if tag =? 0 then ENext a ARCHIVE_WARN types else
  let n := if is_ug tag then 1%nat else O in
  let name := if is_ug tag then nth 1 ws [] else [] in
  let id := if is_ug tag then isint_b (nth 1 ws []) (-1) else (-1)%Z in
  let '(ok, perm) := perm_loop (if wide then is_nfs4_perms_w_cases else is_nfs4_perms_cases) (nth (1 + n) ws []) 0 in
  if negb ok then ENext a ARCHIVE_WARN types else
  let '(ok, perm) := perm_loop (if wide then is_nfs4_flags_w_cases else is_nfs4_flags_cases) (nth (2 + n) ws []) perm in
  if negb ok then ENext a ARCHIVE_WARN types else
  let tb := nth (3 + n) ws [] in
  let type :=
    if str_eqb tb s_deny then ACL_TYPE_DENY
    else if str_eqb tb s_allow then ACL_TYPE_ALLOW
    else if str_eqb tb s_audit then ACL_TYPE_AUDIT
    else if str_eqb tb s_alarm then ACL_TYPE_ALARM
    else 0 in
  if type =? 0 then ENext a ARCHIVE_WARN types else
  let id := isint_b (nth (4 + n) ws []) id in
  add_parsed_b a ret types type perm tag id name.

Lemma parse_nfs4_words : forall wide ws tail a ret types,
  parse_nfs4 wide (fields_of ws tail) a ret types = parse_nfs4_w wide ws a ret types.
Proof.
  intros. unfold parse_nfs4, parse_nfs4_w. rewrite fld_fields_body.
  set (tag := if str_eqb (nth 0 ws []) s_user then ACL_USER
    else if str_eqb (nth 0 ws []) s_group then ACL_GROUP
    else if str_eqb (nth 0 ws []) s_owner_at then ACL_USER_OBJ
    else if str_eqb (nth 0 ws []) s_group_at then ACL_GROUP_OBJ
    else if str_eqb (nth 0 ws []) s_everyone_at then ACL_EVERYONE
    else 0).
  destruct (tag =? 0); [reflexivity|].
  unfold is_nfs4_perms, is_nfs4_flags.
  destruct (is_ug tag); rewrite ?isint_fields, ?fld_fields_body;
  destruct (perm_loop (if wide then is_nfs4_perms_w_cases else is_nfs4_perms_cases) _ 0) as [ok perm];
  (destruct ok; [|reflexivity]); cbn [negb]; rewrite ?fld_fields_body;
  destruct (perm_loop (if wide then is_nfs4_flags_w_cases else is_nfs4_flags_cases) _ perm) as [ok2 perm2];
  (destruct ok2; [|reflexivity]); cbn [negb]; rewrite ?fld_fields_body;
  match goal with |- context [if ?t =? 0 then _ else _] => destruct (t =? 0) end; try reflexivity;
  rewrite ?isint_fields; rewrite add_parsed_eq; rewrite ?fld_fields_body; reflexivity.
Qed.

Ltac eval_streqb :=
  repeat match goal with
  | |- context [str_eqb ?a ?b] =>
    let v := eval vm_compute in (str_eqb a b) in
    match v with
    | true => change (str_eqb a b) with true
    | false => change (str_eqb a b) with false
    end
  end.

Lemma parse_nfs4_entry : forall wide flags e a ret types,
  entry_rt4 e -> bit flags ACL_STYLE_EXTRA_ID = true ->
  parse_nfs4_w wide (e_words4 wide flags e) a ret types =
  add_parsed_b a ret types (etype e) (eperm e) (etag e) (parsed_id e) (parsed_name e).
Proof.
  intros wide flags e a ret types (Ht & Htag & Hok & Hw) Hx.
  destruct (nfs4_perms_flags wide flags (eperm e) Hw) as (p1 & E1 & E2).
  unfold parse_nfs4_w, e_words4, parsed_id, parsed_name, rt_entry_ok, word_of_tag4 in *.
  rewrite (e_id_extra wide flags e Hx).
  set (P := perm_word wide flags (eperm e)) in *. set (F := flag_word wide flags (eperm e)) in *.
  assert (HT :
    (if str_eqb (type_word (etype e)) s_deny then ACL_TYPE_DENY
     else if str_eqb (type_word (etype e)) s_allow then ACL_TYPE_ALLOW
     else if str_eqb (type_word (etype e)) s_audit then ACL_TYPE_AUDIT
     else if str_eqb (type_word (etype e)) s_alarm then ACL_TYPE_ALARM else 0) = etype e /\
    (etype e =? 0) = false).
  { destruct Ht as [H|[H|[H|H]]]; rewrite H; split; reflexivity. }
  destruct HT as (HT1 & HT2).
  set (T := type_word (etype e)) in *.
  destruct Htag as [G|[G|[G|[G|G]]]]; rewrite G in *; unfold is_ug in *; eval_eqb; eval_eqb_in Hok;
  cbn [orb andb negb app nth Nat.add] in *; eval_streqb; cbv iota; eval_eqb; cbn [orb andb negb]; cbv iota;
  try (destruct (ename e) as [|c0 nm] eqn:EN).
  all: rewrite E1; cbn [negb]; cbv iota; rewrite E2; cbn [negb]; cbv iota; rewrite HT1, HT2; cbv iota.
  (* nameless user/group *)
  all: try (match type of Hok with id_ok _ =>
         assert (Hneg : (eid e =? -1)%Z = false) by (apply Z.eqb_neq; unfold id_ok in Hok; lia);
         rewrite Hneg; cbn [negb nth]; rewrite !(isint_b_digits (eid e) _ Hok); reflexivity end).
  (* named user/group *)
  all: try (destruct Hok as (Hcl & Hnum & [Hid|Hid]);
            rewrite !(isint_b_nonnumeric _ (-1) Hnum);
            [rewrite Hid; change ((-1 =? -1)%Z) with true; cbn [negb nth]; reflexivity
            |assert (Hneg : (eid e =? -1)%Z = false) by (apply Z.eqb_neq; unfold id_ok in Hid; lia);
             rewrite Hneg; cbn [negb nth]; rewrite !(isint_b_digits (eid e) _ Hid); reflexivity]).
  all: reflexivity.
Qed.

(* ------------------------------------------------------------------ the loop over the entries *)
Definition norm4 (e : aentry) : aentry := mkE (etype e) (etag e) (eperm e) (parsed_id e) (parsed_name e).

Fixpoint readd4 (l : list aentry) (a : acl) : option acl :=
  match l with
  | [] => Some a
  | e :: r =>
    let '(st, a') := add_entry a (etype e) (eperm e) (etag e) (parsed_id e) (parsed_name e) in
    if (st =? ARCHIVE_OK)%Z then readd4 r a' else None
  end.

Lemma parse_items4 : forall wide fxw fxs fxm flags sep,
  sep = c_comma \/ sep = c_nl -> bit flags ACL_STYLE_EXTRA_ID = true ->
  forall l, Forall entry_rt4 l ->
  forall fuel a a' ret types,
  readd4 l a = Some a' ->
  (length (sepjoin sep (map (e_text wide flags) l)) < fuel)%nat ->
  parse_loop fuel wide fxw fxs fxm 0 ACL_TYPE_NFS4 6 (sepjoin sep (map (e_text wide flags) l)) a ret types = PRet ret a'.
Proof.
  intros wide fxw fxs fxm flags sep Hsep Hx. induction l as [|e r IH]; intros Hall fuel a a' ret types Hre Hf.
  - cbn in Hre. injection Hre as Hre. subst a'. destruct fuel; reflexivity.
  - inversion Hall as [|? ? He Hr]; subst. pose proof He as He'. destruct He as (Hty & Htag & Hok & Hw).
    cbn [readd4] in Hre.
    destruct (add_entry a (etype e) (eperm e) (etag e) (parsed_id e) (parsed_name e)) as [st a1] eqn:EA.
    destruct (st =? ARCHIVE_OK)%Z eqn:ES; [|discriminate]. apply Z.eqb_eq in ES. subst st.
    set (tail := match r with [] => [] | _ :: _ => sep :: sepjoin sep (map (e_text wide flags) r) end).
    assert (Htext : sepjoin sep (map (e_text wide flags) (e :: r)) = join (e_words4 wide flags e) ++ tail).
    { cbn [map]. rewrite (e_text_words4 wide flags e Hty Htag).
      unfold tail. destruct r as [|e' r']; [cbn [map sepjoin]; rewrite app_nil_r; reflexivity|].
      cbn [map]. rewrite sepjoin_cons2. reflexivity. }
    assert (Htl : tl tail = sepjoin sep (map (e_text wide flags) r)).
    { unfold tail. destruct r; reflexivity. }
    assert (Htok : tail_ok tail).
    { unfold tail, tail_ok. destruct r; [left; reflexivity|right]. eexists; eexists. split; [reflexivity|exact Hsep]. }
    rewrite Htext in *.
    destruct (e_words4_ok wide flags e Hty Htag Hok) as (Hcl & Hlast & Hlen & Hne & c & q & Hj & Hc0 & Hch).
    destruct fuel as [|fuel]; [lia|].
    assert (Hp : join (e_words4 wide flags e) ++ tail = c :: (q ++ tail)) by (rewrite Hj; reflexivity).
    rewrite (parse_loop_step fuel wide fxw fxs fxm 0 ACL_TYPE_NFS4 6 _ c (q ++ tail) a ret types Hp Hc0).
    pose proof (join_length (e_words4 wide flags e)) as HJL.
    rewrite (collect_words wide fxs 6 tail Htok (e_words4 wide flags e) _ 0 [] Hne Hcl Hlast)
      by (rewrite ?app_length; lia).
    cbn [app Nat.add].
    assert (Hcm : match fields_of (e_words4 wide flags e) tail with
                  | f0 :: _ => peek (if wide then 0 else 0) (fsuf f0) =? c_hash | [] => false end = false).
    { destruct (e_words4 wide flags e) as [|w0 wr] eqn:EW; [congruence|]. rewrite fields_of_cons. cbn [fsuf].
      rewrite Hp. cbn [peek]. destruct wide; exact Hch. }
    rewrite Hcm. cbv zeta. cbv iota. change (ACL_TYPE_NFS4 =? ACL_TYPE_NFS4) with true. cbv iota.
    rewrite parse_nfs4_words. rewrite (parse_nfs4_entry wide flags e a ret types He' Hx).
    unfold add_parsed_b. rewrite EA.
    change (ARCHIVE_OK <? ARCHIVE_WARN)%Z with false. cbv iota.
    change (ARCHIVE_OK =? ARCHIVE_OK)%Z with true. cbv iota.
    rewrite Htl. apply IH; [exact Hr|exact Hre|].
    rewrite <- Htl. rewrite app_length in Hf. rewrite Hj in Hf. destruct tail; cbn [tl length] in *; lia.
Qed.

Lemma tag_ok_nfs4 : forall type tag, nfs4_type type -> nfs4_tag_ok tag -> tag_ok_for type tag = true.
Proof.
  intros type tag [T|[T|[T|T]]] [G|[G|[G|[G|G]]]]; subst; reflexivity.
Qed.

(* NFSv4 entries are never merged: re-adding appends every one of them *)
Lemma readd4_append : forall l a,
  Forall entry_rt4 l -> within (atypes a) ACL_TYPE_NFS4 = true ->
  readd4 l a = Some (mkAcl (amode a) (aents a ++ map norm4 l) (N.lor (atypes a) (lor_types l))).
Proof.
  induction l as [|e r IH]; intros a Hall Hty.
  - cbn [readd4 map lor_types]. rewrite app_nil_r. rewrite N.lor_0_r. destruct a; reflexivity.
  - inversion Hall as [|? ? He Hr]; subst. destruct He as (Ht & Htag & Hok & Hw).
    cbn [readd4]. unfold add_entry.
    assert (Hb4 : bit (etype e) ACL_TYPE_NFS4 = true) by (destruct Ht as [H|[H|[H|H]]]; rewrite H; reflexivity).
    assert (Hna : (etype e =? ACL_TYPE_ACCESS) = false) by (destruct Ht as [H|[H|[H|H]]]; rewrite H; reflexivity).
    unfold acl_special. rewrite Hna. cbn [andb].
    unfold new_entry, type_ok. rewrite Hb4, Hty, Hw. rewrite (tag_ok_nfs4 _ _ Ht Htag). cbn [andb].
    rewrite overwrite_none.
    2:{ intros x _. unfold same_slot. rewrite Hb4. reflexivity. }
    change (ARCHIVE_OK =? ARCHIVE_OK)%Z with true. cbv iota.
    rewrite IH; [|exact Hr|].
    + cbn [amode aents atypes map lor_types]. rewrite <- app_assoc. cbn [app]. rewrite N.lor_assoc. reflexivity.
    + cbn [atypes]. apply within_lor; [exact Hty|]. destruct Ht as [H|[H|[H|H]]]; rewrite H; reflexivity.
Qed.

(* ------------------------------------------------------------------ the round trip, NFSv4 *)
Theorem roundtrip_nfs4_gen : forall wide fxl fxw fxs fxm a flags t m0,
  Forall entry_rt4 (aents a) ->
  bit (atypes a) ACL_TYPE_NFS4 = true -> bit (atypes a) ACL_TYPE_POSIX1E = false ->
  bit flags ACL_STYLE_EXTRA_ID = true ->
  to_text fxl wide a flags = Some t ->
  from_text wide fxw fxs fxm t ACL_TYPE_NFS4 (acl_empty m0) =
  PRet ARCHIVE_OK (mkAcl m0 (map norm4 (aents a)) (lor_types (aents a))).
Proof.
  intros wide fxl fxw fxs fxm a flags t m0 Hall H4 HP Hx Ht.
  assert (Hwant : text_want_type a flags = ACL_TYPE_NFS4).
  { unfold text_want_type. rewrite H4, HP. reflexivity. }
  unfold to_text in Ht. destruct (text_len_of fxl wide a flags =? 0); [discriminate|]. injection Ht as Ht. subst t.
  pose proof (body_items wide a flags) as HB. cbv zeta in HB. rewrite Hwant in HB.
  assert (Hfl : tt_flags ACL_TYPE_NFS4 flags = flags) by reflexivity. rewrite Hfl in HB.
  set (sep := if bit flags ACL_STYLE_SEPARATOR_COMMA then c_comma else c_nl) in *.
  assert (Hsep : sep = c_comma \/ sep = c_nl) by (unfold sep; destruct (bit flags ACL_STYLE_SEPARATOR_COMMA); auto).
  unfold items in HB. change (bit ACL_TYPE_NFS4 ACL_TYPE_ACCESS) with false in HB. cbv iota in HB. cbn [app] in HB.
  assert (Hem : emitted ACL_TYPE_NFS4 a = aents a).
  { unfold emitted. rewrite Forall_forall in Hall.
    assert (G : forall l, (forall e, In e l -> entry_rt4 e) -> filter (fun e => negb (skipped ACL_TYPE_NFS4 e)) l = l).
    { induction l as [|e r IH]; intros H; [reflexivity|]. cbn [filter].
      destruct (H e (or_introl eq_refl)) as (Ht & _).
      assert (Hs : skipped ACL_TYPE_NFS4 e = false) by (unfold skipped; destruct Ht as [E|[E|[E|E]]]; rewrite E; reflexivity).
      rewrite Hs. cbn [negb]. f_equal. apply IH. intros e' He'. apply H. right. exact He'. }
    apply G. exact Hall. }
  rewrite Hem in HB.
  assert (Hnz : nonzero (to_text_body wide a flags) = true).
  { rewrite HB. apply sepjoin_nonzero; [destruct Hsep as [H|H]; rewrite H; reflexivity|].
    apply Forall_forall. intros x Hin. apply in_map_iff in Hin. destruct Hin as (e & Hx' & He). subst x.
    rewrite Forall_forall in Hall. destruct (Hall e He) as (A & B & C & D).
    rewrite (e_text_words4 wide flags e A B). apply join_nonzero.
    exact (proj1 (e_words4_ok wide flags e A B C)). }
  unfold from_text. rewrite (cstr_nonzero _ Hnz). unfold from_text_nl.
  change (ACL_TYPE_NFS4 =? ACL_TYPE_POSIX1E) with false.
  change ((ACL_TYPE_NFS4 =? ACL_TYPE_ACCESS) || (ACL_TYPE_NFS4 =? ACL_TYPE_DEFAULT)) with false.
  change (ACL_TYPE_NFS4 =? ACL_TYPE_NFS4) with true. cbv iota.
  rewrite HB.
  apply (parse_items4 wide fxw fxs fxm flags sep Hsep Hx (aents a) Hall); [|lia].
  rewrite readd4_append; [|exact Hall|reflexivity].
  cbn [amode aents atypes app]. rewrite N.lor_0_l. reflexivity.
Qed.
