(* Executable model of libarchive/archive_entry_link_resolver.c (hard-link resolver).
   Definitions only; lemmas are in LinksProofs.v.  Constants come from Gen/Defines.v, which is
   regenerated from /repo on every run. *)
From Coq Require Import List ZArith NArith Bool.
From LA Require Import Base.Val Gen.Defines.
Import ListNotations.
Local Open Scope N_scope.

(* the part of an archive_entry the resolver looks at or changes *)
Record lentry := mkLentry {
  eid : Z;              (* identity given by the client (never read by the resolver) *)
  edev : N;             (* dev_t, 64-bit *)
  eino : N;             (* int64 ino, as its 64-bit pattern *)
  enlink : N;           (* unsigned int *)
  eftype : N;           (* AE_IF* *)
  esize : option Z;     (* None = size unset *)
  ehard : option bytes; (* hardlink target *)
  epath : bytes
}.

Record le := mkLe {
  canon : lentry;         (* le->canonical : clone taken at insert time *)
  held : option lentry;   (* le->entry *)
  lhash : N;
  links : N               (* unsigned int: links not yet seen *)
}.

Record table := mkTable {
  buckets : list (list le);   (* number_buckets = length buckets *)
  count : N;                  (* number_entries *)
  strategy : N
}.

Definition two32 : N := 4294967296.
Definition two64 : N := 18446744073709551616.

Definition nbuckets (t : table) : N := N.of_nat (length (buckets t)).
Definition hash_of (e : lentry) : N := N.lxor (edev e) (eino e) mod two64.
Definition bucket_ix (h nb : N) : nat := N.to_nat (N.land h (nb - 1)).

Definition init_table (strat : N) : table :=
  mkTable (repeat [] (N.to_nat links_cache_initial_size)) 0 strat.

Fixpoint upd_nth {A} (i : nat) (x : A) (l : list A) : list A :=
  match l, i with
  | [], _ => []
  | _ :: tl, O => x :: tl
  | y :: tl, S j => y :: upd_nth j x tl
  end.

Definition dec_links (x : le) : le :=
  mkLe (canon x) (held x) (lhash x) ((links x + two32 - 1) mod two32).

Definition le_matches (x : le) (h dev ino : N) : bool :=
  (lhash x =? h) && (edev (canon x) =? dev) && (eino (canon x) =? ino).

(* find_entry's loop over one bucket.  [upd] is what the caller does to the entry that stays in
   the table (new-cpio stores the incoming entry in it).  Result: the found entry after the
   decrement (before upd) and the new bucket. *)
Fixpoint find_in (l : list le) (h dev ino : N) (upd : le -> le) : option (le * list le) :=
  match l with
  | [] => None
  | x :: tl =>
    if le_matches x h dev ino then
      let x1 := dec_links x in
      if 0 <? links x1 then Some (x1, upd x1 :: tl) else Some (x1, tl)
    else match find_in tl h dev ino upd with
         | None => None
         | Some (r, tl') => Some (r, x :: tl')
         end
  end.

Definition find_entry (t : table) (e : lentry) (upd : le -> le) : option (le * table) :=
  let h := hash_of e in
  let i := bucket_ix h (nbuckets t) in
  match find_in (nth i (buckets t) []) h (edev e) (eino e) upd with
  | None => None
  | Some (x1, b') =>
    let cnt := if 0 <? links x1 then count t else count t - 1 in
    Some (x1, mkTable (upd_nth i b' (buckets t)) cnt (strategy t))
  end.

Definition push_bucket (nb : N) (bs : list (list le)) (x : le) : list (list le) :=
  let i := bucket_ix (lhash x) nb in
  upd_nth i (x :: nth i bs []) bs.

(* grow_hash: old buckets are emptied from the head, each entry pushed on the head of its new
   bucket (so the relative order inside a bucket is reversed). *)
Definition grow (bs : list (list le)) : list (list le) :=
  let nb := N.of_nat (length bs) in
  let new_size := 2 * nb in
  if new_size mod two64 <? nb then bs   (* size_t overflow guard of the source *)
  else fold_left (push_bucket new_size) (concat bs) (repeat [] (N.to_nat new_size)).

Definition insert_entry (t : table) (e : lentry) (h0 : option lentry) : table :=
  let bs := if 2 * nbuckets t <? count t then grow (buckets t) else buckets t in
  let nb := N.of_nat (length bs) in
  let x := mkLe e h0 (hash_of e) ((enlink e + two32 - 1) mod two32) in
  mkTable (push_bucket nb bs x) (count t + 1) (strategy t).

(* next_entry(mode): first entry in bucket order then list order that satisfies the mode *)
Definition mode_ok (deferred partial : bool) (x : le) : bool :=
  match held x with Some _ => deferred | None => partial end.

Fixpoint take_first (p : le -> bool) (l : list le) : option (le * list le) :=
  match l with
  | [] => None
  | x :: tl => if p x then Some (x, tl)
               else match take_first p tl with
                    | None => None
                    | Some (r, tl') => Some (r, x :: tl')
                    end
  end.

Fixpoint take_first_bucket (p : le -> bool) (bs : list (list le)) : option (le * list (list le)) :=
  match bs with
  | [] => None
  | b :: rest =>
    match take_first p b with
    | Some (r, b') => Some (r, b' :: rest)
    | None => match take_first_bucket p rest with
              | None => None
              | Some (r, rest') => Some (r, b :: rest')
              end
    end
  end.

Definition next_entry (t : table) (deferred partial : bool) : option (le * table) :=
  match take_first_bucket (mode_ok deferred partial) (buckets t) with
  | None => None
  | Some (x, bs') => Some (x, mkTable bs' (count t - 1) (strategy t))
  end.

Definition is_passthrough (e : lentry) : bool :=
  (enlink e =? 1) || (eftype e =? AE_IFDIR) || (eftype e =? AE_IFBLK) || (eftype e =? AE_IFCHR).

Definition mark_hardlink (unset_size : bool) (e : lentry) (target : bytes) : lentry :=
  mkLentry (eid e) (edev e) (eino e) (enlink e) (eftype e)
           (if unset_size then None else esize e) (Some target) (epath e).

Definition set_held (t : lentry) (x : le) : le := mkLe (canon x) (Some t) (lhash x) (links x).

(* archive_entry_linkify with a non-NULL *e : returns the new table and the (e, f) pair *)
Definition linkify (t : table) (e : lentry) : table * (option lentry * option lentry) :=
  if is_passthrough e then (t, (Some e, None))
  else if strategy t =? LINKIFY_LIKE_TAR then
    match find_entry t e (fun x => x) with
    | Some (x, t') => (t', (Some (mark_hardlink true e (epath (canon x))), None))
    | None => (insert_entry t e None, (Some e, None))
    end
  else if strategy t =? LINKIFY_LIKE_MTREE then
    match find_entry t e (fun x => x) with
    | Some (x, t') => (t', (Some (mark_hardlink false e (epath (canon x))), None))
    | None => (insert_entry t e None, (Some e, None))
    end
  else if strategy t =? LINKIFY_LIKE_NEW_CPIO then
    match find_entry t e (set_held e) with
    | Some (x, t') =>
      let old := match held x with
                 | Some o => Some (mark_hardlink true o (epath (canon x)))
                 | None => None   (* unreachable on tables built by linkify; see held_always *)
                 end in
      (t', (old, if links x =? 0 then Some e else None))
    | None => (insert_entry t e (Some e), (None, None))
    end
  else (t, (Some e, None)).

(* archive_entry_linkify with *e == NULL *)
Definition linkify_null (t : table) : table * option lentry :=
  match next_entry t true false with
  | Some (x, t') => (t', held x)
  | None => (t, None)
  end.

(* archive_entry_partial_links *)
Definition partial_links (t : table) : table * option (lentry * N) :=
  match next_entry t false true with
  | Some (x, t') => (t', Some (canon x, links x))
  | None => (t, None)
  end.

(* ---- operation sequences ---- *)
Inductive lop := Push (e : lentry) | DrainOne | PartialOne.

Inductive lout :=
| OutPush (e f : option lentry)
| OutDrain (e : option lentry)
| OutPartial (r : option (lentry * N)).

Definition lstep (t : table) (o : lop) : table * lout :=
  match o with
  | Push e => let '(t', (a, b)) := linkify t e in (t', OutPush a b)
  | DrainOne => let '(t', r) := linkify_null t in (t', OutDrain r)
  | PartialOne => let '(t', r) := partial_links t in (t', OutPartial r)
  end.

Fixpoint lrun (t : table) (ops : list lop) : table * list lout :=
  match ops with
  | [] => (t, [])
  | o :: rest => let '(t1, r) := lstep t o in
                 let '(t2, rs) := lrun t1 rest in (t2, r :: rs)
  end.

(* entries still held (deferred) by the table, in the order repeated linkify(NULL) returns them *)
Definition held_of (x : le) : list lentry := match held x with Some e => [e] | None => [] end.
Definition held_entries (t : table) : list lentry := flat_map held_of (concat (buckets t)).

Definition out_entries (o : lout) : list lentry :=
  match o with
  | OutPush a b => (match a with Some x => [x] | None => [] end) ++
                   (match b with Some x => [x] | None => [] end)
  | OutDrain (Some x) => [x]
  | _ => []
  end.

(* what must be unchanged between an input entry and the output carrying its id *)
Definition core (e : lentry) : Z * N * N * N * N * bytes :=
  (eid e, edev e, eino e, enlink e, eftype e, epath e).
