(* C18 - lemmas about the model Entry/UtfDefs.v.  Facts over finite domains come from the exhaustive
   sweeps (Entry/UtfSweep*.v, kernel-checked evaluations); everything over lists is by induction. *)
From Coq Require Import List ZArith NArith Bool Lia.
From LA Require Import Gen.UtfTable Entry.UtfDefs Entry.UtfBase Entry.UtfSweep8a Entry.UtfSweep8b
  Entry.UtfSweep16a Entry.UtfSweep16b.
Import ListNotations.
Local Open Scope N_scope.

Ltac Zify.zify_post_hook ::= Z.to_euclidean_division_equations.

Ltac ltb_cases :=
  repeat match goal with
  | |- context [?a <? ?b] => destruct (N.ltb_spec a b)
  | |- context [?a <=? ?b] => destruct (N.leb_spec a b)
  | |- context [?a =? ?b] => destruct (N.eqb_spec a b)
  end.

Ltac bool_hyps :=
  repeat match goal with
  | H : _ && _ = true |- _ => apply andb_prop in H; destruct H
  | H : negb _ = true |- _ => apply negb_true_iff in H
  | H : negb _ = false |- _ => apply negb_false_iff in H
  | H : (_ =? _) = true |- _ => apply N.eqb_eq in H
  | H : (_ =? _) = false |- _ => apply N.eqb_neq in H
  | H : (_ <=? _) = true |- _ => apply N.leb_le in H
  | H : (_ <=? _) = false |- _ => apply N.leb_gt in H
  | H : (_ <? _) = true |- _ => apply N.ltb_lt in H
  | H : (_ <? _) = false |- _ => apply N.ltb_ge in H
  | H : (_ =? _)%Z = true |- _ => apply Z.eqb_eq in H
  | H : (_ =? _)%Z = false |- _ => apply Z.eqb_neq in H
  | H : (_ <? _)%Z = true |- _ => apply Z.ltb_lt in H
  | H : (_ <? _)%Z = false |- _ => apply Z.ltb_ge in H
  | H : (_ <=? _)%Z = true |- _ => apply Z.leb_le in H
  | H : (_ <=? _)%Z = false |- _ => apply Z.leb_gt in H
  | H : bytes_eqb _ _ = true |- _ => apply bytes_eqb_eq in H
  end.

(* ------------------------------------------------------------------ the table *)
Lemma table_length : length utf8_count_table = 256%nat.
Proof. reflexivity. Qed.

Lemma utf8_count_class : forall ch, utf8_count ch = utf8_class ch.
Proof.
  intros ch. destruct (N.lt_ge_cases ch 256) as [H|H].
  - apply N.eqb_eq. apply (forall_below_spec _ _ sweep_table ch H).
  - unfold utf8_count. rewrite nth_overflow by (rewrite table_length; lia).
    unfold utf8_class. ltb_cases; try lia; reflexivity.
Qed.

Lemma utf8_class_range : forall ch, utf8_class ch <> 0 -> ch < 256 /\ 1 <= utf8_class ch <= 4.
Proof. intros ch. unfold utf8_class. ltb_cases; lia. Qed.

(* ------------------------------------------------------------------ _utf8_to_unicode factored *)
Definition utf8_default (n ch : N) (s : list N) : Z * N :=
  let c := if (ch =? 192) || (ch =? 193) then 2
           else if (245 <=? ch) && (ch <=? 247) then 4
           else if (248 <=? ch) && (ch <=? 251) then 5
           else if (ch =? 252) || (ch =? 253) then 6
           else 1 in
  let c := if n <? c then n else c in
  invalid (scan_invalid s c).

Lemma utf8_raw_eq : forall s,
  utf8_raw s =
  let n := len s in
  if n =? 0 then (0%Z, 0) else
  let ch := byte_at s 0 in
  if ch =? 0 then (0%Z, 0) else
  let cnt := utf8_class ch in
  if n <? cnt then invalid (scan_invalid s n) else
  if cnt =? 0 then utf8_default n ch s
  else utf8_body cnt ch (byte_at s 1) (byte_at s 2) (byte_at s 3).
Proof.
  intros s. unfold utf8_raw. rewrite utf8_count_class. cbv zeta.
  destruct (len s =? 0); [reflexivity|].
  destruct (byte_at s 0 =? 0); [reflexivity|].
  assert (Hc : utf8_class (byte_at s 0) = 0 \/ utf8_class (byte_at s 0) = 1 \/ utf8_class (byte_at s 0) = 2 \/
               utf8_class (byte_at s 0) = 3 \/ utf8_class (byte_at s 0) = 4)
    by (unfold utf8_class; ltb_cases; auto).
  destruct Hc as [E|[E|[E|[E|E]]]]; rewrite E;
    (destruct (len s <? _); [reflexivity|]); reflexivity.
Qed.

(* ------------------------------------------------------------------ small list facts *)
Definition bytes_ok (s : list N) : Prop := Forall (fun b => b < 256) s.

Lemma byte_at_lt : forall s i, bytes_ok s -> byte_at s i < 256.
Proof.
  intros s i H. unfold byte_at. destruct (Nat.lt_ge_cases i (length s)).
  - eapply Forall_forall in H; [exact H|]. apply nth_In. assumption.
  - rewrite nth_overflow by assumption. lia.
Qed.

Lemma len_app : forall a b, len (a ++ b) = len a + len b.
Proof. intros. unfold len. rewrite app_length. lia. Qed.
Lemma len_nil : len [] = 0. Proof. reflexivity. Qed.
Lemma len_cons : forall x l, len (x :: l) = 1 + len l.
Proof. intros. unfold len. cbn [length]. lia. Qed.
Lemma len_skipn : forall k s, len (skipn k s) = len s - N.of_nat k.
Proof. intros. unfold len. rewrite skipn_length. lia. Qed.

Lemma firstn_add : forall a b (s : list N), firstn (a + b) s = firstn a s ++ firstn b (skipn a s).
Proof. induction a; intros b s; cbn; [reflexivity|]. destruct s; cbn; [destruct b; reflexivity|]. f_equal. apply IHa. Qed.

Lemma firstn_1 : forall s, (1 <= length s)%nat -> firstn 1 s = [byte_at s 0].
Proof. intros [|a s] H; cbn in *; [lia|reflexivity]. Qed.
Lemma firstn_2 : forall s, (2 <= length s)%nat -> firstn 2 s = [byte_at s 0; byte_at s 1].
Proof. intros [|a [|b s]] H; cbn in *; try lia; reflexivity. Qed.
Lemma firstn_3 : forall s, (3 <= length s)%nat -> firstn 3 s = [byte_at s 0; byte_at s 1; byte_at s 2].
Proof. intros [|a [|b [|c s]]] H; cbn in *; try lia; reflexivity. Qed.
Lemma firstn_4 : forall s, (4 <= length s)%nat -> firstn 4 s = [byte_at s 0; byte_at s 1; byte_at s 2; byte_at s 3].
Proof. intros [|a [|b [|c [|d s]]]] H; cbn in *; try lia; reflexivity. Qed.

(* ------------------------------------------------------------------ (e) every decoder consumes
   between 1 and len bytes unless it returns 0 *)
Lemma cont_run_le : forall l k, (cont_run l k <= k)%nat /\ (cont_run l k <= length l)%nat.
Proof.
  induction l as [|b t IH]; intros [|k]; cbn; try lia.
  destruct (is_cont b); cbn; [|lia]. destruct (IH k). lia.
Qed.

Lemma scan_invalid_bounds : forall s c, 1 <= c -> 1 <= len s -> 1 <= scan_invalid s c <= c /\ scan_invalid s c <= len s.
Proof.
  intros s c Hc Hs. unfold scan_invalid.
  destruct (cont_run_le (tl s) (N.to_nat (c - 1))) as [H1 H2].
  destruct s as [|a t]; [rewrite len_nil in Hs; lia|]. cbn [tl] in *. rewrite len_cons. unfold len. lia.
Qed.

Lemma utf8_body_bounds : forall cnt ch b1 b2 b3 n u, 1 <= cnt <= 4 ->
  utf8_body cnt ch b1 b2 b3 = (n, u) -> (1 <= Z.abs n <= Z.of_N cnt)%Z.
Proof.
  intros cnt ch b1 b2 b3 n u Hc. unfold utf8_body, check_max, invalid.
  assert (E : cnt = 1 \/ cnt = 2 \/ cnt = 3 \/ cnt = 4) by lia.
  destruct E as [-> | [-> | [-> | ->]]]; cbn [N.eqb Pos.eqb];
    repeat match goal with |- context [if ?c then _ else _] => destruct c end;
    intros H; inversion H; subst; lia.
Qed.

Lemma utf8_default_bounds : forall n ch s r u, n = len s -> 1 <= n ->
  utf8_default n ch s = (r, u) -> (1 <= - r <= Z.of_N n)%Z.
Proof.
  intros n ch s r u -> Hn. unfold utf8_default, invalid. cbv zeta.
  match goal with |- context [len s <? ?c] => set (c1 := c) end.
  assert (1 <= c1) by (unfold c1; repeat match goal with |- context [if ?b then _ else _] => destruct b end; lia).
  match goal with |- context [scan_invalid s ?c] => set (c0 := c) end.
  assert (1 <= c0 <= len s) by (unfold c0; destruct (N.ltb_spec (len s) c1); lia).
  intros Hq. inversion Hq; subst. destruct (scan_invalid_bounds s c0); lia.
Qed.

Definition parse_ok (parse : list N -> Z * N) : Prop :=
  forall s n u, parse s = (n, u) -> (Z.abs n <= Z.of_N (len s))%Z.

Lemma utf8_raw_bounds : parse_ok utf8_raw.
Proof.
  intros s n u. rewrite utf8_raw_eq. cbv zeta.
  destruct (N.eqb_spec (len s) 0); [intros Hq; inversion Hq; lia|].
  destruct (N.eqb_spec (byte_at s 0) 0); [intros Hq; inversion Hq; lia|].
  destruct (N.ltb_spec (len s) (utf8_class (byte_at s 0))).
  - unfold invalid. intros Hq. inversion Hq. destruct (scan_invalid_bounds s (len s)); lia.
  - destruct (N.eqb_spec (utf8_class (byte_at s 0)) 0).
    + intros Hq. apply utf8_default_bounds in Hq; lia.
    + intros Hq. apply utf8_body_bounds in Hq; [lia|]. apply utf8_class_range. assumption.
Qed.

(* _utf8_to_unicode returns 0 exactly at the end of the buffer or on a NUL byte *)
Lemma utf8_raw_zero : forall s n u, utf8_raw s = (n, u) -> (n = 0%Z <-> (s = [] \/ byte_at s 0 = 0)).
Proof.
  intros s n u. rewrite utf8_raw_eq. cbv zeta.
  destruct (N.eqb_spec (len s) 0).
  { intros Hq. inversion Hq. split; auto. intros _. left. destruct s; [reflexivity|rewrite len_cons in *; lia]. }
  assert (s <> []) by (intros ->; rewrite len_nil in *; lia).
  destruct (N.eqb_spec (byte_at s 0) 0); [intros Hq; inversion Hq; tauto|].
  assert (Hnz : n <> 0%Z -> (n = 0%Z <-> s = [] \/ byte_at s 0 = 0)) by (intros; split; [lia|intros [|]; tauto]).
  destruct (N.ltb_spec (len s) (utf8_class (byte_at s 0))).
  - unfold invalid. intros Hq. inversion Hq; subst n. apply Hnz. destruct (scan_invalid_bounds s (len s)); lia.
  - destruct (N.eqb_spec (utf8_class (byte_at s 0)) 0).
    + intros Hq. apply utf8_default_bounds in Hq; try lia. apply Hnz. lia.
    + intros Hq. apply utf8_body_bounds in Hq; [apply Hnz; lia|]. apply utf8_class_range. assumption.
Qed.

Lemma utf8_to_unicode_raw : forall s, utf8_to_unicode s = surr_post (utf8_raw s).
Proof. reflexivity. Qed.

Lemma surr_post_abs : forall r, Z.abs (fst (surr_post r)) = Z.abs (fst r).
Proof. intros [c w]. unfold surr_post. destruct ((c =? 3)%Z && is_surrogate w) eqn:E; [|reflexivity]. bool_hyps. subst. reflexivity. Qed.

Lemma utf8_to_unicode_bounds : parse_ok utf8_to_unicode.
Proof.
  intros s n u H. rewrite utf8_to_unicode_raw in H.
  pose proof (surr_post_abs (utf8_raw s)) as A. rewrite H in A. cbn [fst] in A.
  destruct (utf8_raw s) as [c w] eqn:E. apply utf8_raw_bounds in E. cbn [fst] in A. lia.
Qed.

Lemma cesu8_bounds : parse_ok cesu8_to_unicode.
Proof.
  intros s n u. unfold cesu8_to_unicode.
  destruct (utf8_raw s) as [c w] eqn:E. pose proof (utf8_raw_bounds _ _ _ E) as B.
  destruct ((c =? 3)%Z && is_high_surrogate w) eqn:E1.
  - bool_hyps. subst c. destruct (N.ltb_spec (len s - 3) 3); [intros Hq; inversion Hq; lia|].
    destruct (utf8_raw (skipn 3 s)) as [c2 w2] eqn:E2. pose proof (utf8_raw_bounds _ _ _ E2) as B2.
    rewrite len_skipn in B2.
    destruct (negb (c2 =? 3)%Z || negb (is_low_surrogate w2)); intros Hq; inversion Hq; subst.
    + destruct (0 <? c2)%Z; lia.
    + lia.
  - destruct ((c =? 3)%Z && is_low_surrogate w) eqn:E3; intros Hq; inversion Hq; subst; [bool_hyps|]; lia.
Qed.

Lemma utf16_bounds : forall be, parse_ok (utf16_to_unicode be).
Proof.
  intros be s n u. unfold utf16_to_unicode. cbv zeta.
  destruct (N.eqb_spec (len s) 0); [intros Hq; inversion Hq; lia|].
  destruct (N.eqb_spec (len s) 1); [intros Hq; inversion Hq; lia|].
  destruct (is_high_surrogate _).
  - destruct (N.leb_spec 4 (len s)).
    + destruct (is_low_surrogate _); [destruct (_ || _)|]; intros Hq; inversion Hq; lia.
    + replace (is_low_surrogate 0) with false by reflexivity. intros Hq; inversion Hq; lia.
  - destruct (_ || _); intros Hq; inversion Hq; lia.
Qed.

Lemma utf16_zero : forall be s, fst (utf16_to_unicode be s) = 0%Z <-> s = [].
Proof.
  intros be s. unfold utf16_to_unicode. cbv zeta.
  destruct (N.eqb_spec (len s) 0).
  { cbn [fst]. split; auto. intros _. destruct s; [reflexivity|rewrite len_cons in *; lia]. }
  assert (s <> []) by (intros ->; rewrite len_nil in *; lia).
  destruct (len s =? 1); [cbn; split; [lia|tauto]|].
  repeat match goal with |- context [if ?c then _ else _] => destruct c end; cbn [fst]; split; try lia; tauto.
Qed.

(* ------------------------------------------------------------------ encoders and their room test *)
Record unparse_ok (unparse : N -> N -> list N) : Prop := {
  up_room : forall r u, unparse r u = if r <? len (unparse 4 u) then [] else unparse 4 u;
  up_len : forall u, 1 <= len (unparse 4 u) <= 4 }.

Lemma utf8_unparse_ok : unparse_ok unicode_to_utf8.
Proof.
  split.
  - intros r u. unfold unicode_to_utf8. cbv zeta.
    set (u' := if UNICODE_MAX <? u then UNICODE_R_CHAR else u).
    change (4 =? 0) with false. change (4 <? 2) with false. change (4 <? 3) with false. change (4 <? 4) with false.
    cbv iota.
    destruct (u' <=? 127).
    { rewrite len_cons, len_nil. destruct r as [|[p|p|]]; reflexivity. }
    destruct (u' <=? 2047).
    { rewrite !len_cons, len_nil. reflexivity. }
    destruct (u' <=? 65535).
    { rewrite !len_cons, len_nil. reflexivity. }
    rewrite !len_cons, len_nil. reflexivity.
  - intros u. unfold unicode_to_utf8. cbv zeta.
    repeat match goal with |- context [if ?b <=? ?c then _ else _] => destruct (b <=? c) end; cbn; lia.
Qed.

Lemma utf16_unparse_ok : forall be, unparse_ok (unicode_to_utf16 be).
Proof.
  intros be. split.
  - intros r u. unfold unicode_to_utf16, enc16.
    change (4 <? 4) with false. change (4 <? 2) with false. cbv iota.
    destruct (65535 <? u); destruct be; reflexivity.
  - intros u. unfold unicode_to_utf16, enc16. destruct (65535 <? u); destruct be; cbn; lia.
Qed.

(* ------------------------------------------------------------------ archive_string_ensure *)
Lemma ensure_ge : forall cap req, req <= ensure cap req /\ cap <= ensure cap req.
Proof.
  intros cap req. unfold ensure.
  destruct (negb (cap =? 0) && (req <=? cap)) eqn:E; [bool_hyps; lia|].
  destruct (N.ltb_spec cap 32); [destruct (N.ltb_spec 32 req); lia|].
  destruct (N.ltb_spec cap 8192); [destruct (N.ltb_spec (cap + cap) req); lia|].
  destruct (N.ltb_spec (cap + cap / 4) req); lia.
Qed.

Lemma room_eq : forall cap ts pos, pos + ts <= cap -> room cap ts pos = cap - ts - pos.
Proof. intros. unfold room. destruct (N.leb_spec (pos + ts) cap); [reflexivity|lia]. Qed.

(* (f) the retry loop ends with a successful call, after which the bytes written and the terminator
   fit below buffer_length; it needs at most 5 calls *)
Lemma retry_ok : forall unparse ts tm, unparse_ok unparse -> 1 <= ts ->
  forall fuel rest cap pos u, pos + ts <= cap ->
  (1 <= fuel)%nat -> len (unparse 4 u) + pos + ts + 1 <= cap + N.of_nat fuel ->
  exists cap', unparse_retry fuel unparse ts tm rest cap pos u = Some (cap', unparse 4 u) /\
               cap <= cap' /\ pos + len (unparse 4 u) + ts <= cap'.
Proof.
  intros unparse ts tm [Hr Hl] Hts. induction fuel as [|f IH]; intros rest cap pos u Hp Hf1 Hf.
  - exfalso. lia.
  - cbn [unparse_retry]. rewrite Hr, room_eq by assumption.
    destruct (N.ltb_spec (cap - ts - pos) (len (unparse 4 u))) as [Hlt|Hge].
    + destruct (ensure_ge cap (cap + rest * tm + ts)) as [E1 E2].
      destruct (IH rest (ensure cap (cap + rest * tm + ts)) pos u) as [cap' [A [B C]]]; try lia.
      exists cap'. repeat split; try assumption; lia.
    + destruct (unparse 4 u) as [|w0 w] eqn:E.
      { specialize (Hl u). rewrite E, len_nil in Hl. lia. }
      exists cap. repeat split; try lia.
Qed.

(* whatever the retry loop returns is the full encoding *)
Lemma retry_some : forall unparse ts tm, unparse_ok unparse ->
  forall fuel rest cap pos u cap' w, unparse_retry fuel unparse ts tm rest cap pos u = Some (cap', w) -> w = unparse 4 u.
Proof.
  intros unparse ts tm [Hr Hl]. induction fuel as [|f IH]; intros rest cap pos u cap' w; cbn [unparse_retry]; [discriminate|].
  rewrite Hr. destruct (_ <? _).
  - apply IH.
  - destruct (unparse 4 u) eqn:E; [specialize (Hl u); rewrite E, len_nil in Hl; lia|].
    intros Hq. inversion Hq. reflexivity.
Qed.

(* ------------------------------------------------------------------ archive_string_append_unicode:
   (e) the fuel [S (length s)] is enough, no decoder result leads outside the input,
   (f) no write beyond buffer_length - for EVERY input and destination *)
Definition status_ok (st : Z) : Prop := st = 0%Z \/ st = (-1)%Z.

Lemma au_loop_safe : forall parse unparse ts tm, parse_ok parse -> unparse_ok unparse -> 1 <= ts ->
  forall fuel s cap out ret, (length s < fuel)%nat -> len out + ts <= cap -> status_ok ret ->
  forall st a, au_loop fuel parse unparse ts tm s cap out ret = (st, a) ->
  status_ok st /\ len (a_buf a) + ts <= a_cap a /\ cap <= a_cap a /\ exists w, a_buf a = out ++ w.
Proof.
  intros parse unparse ts tm Hp Hu Hts. induction fuel as [|f IH]; intros s cap out ret Hf Hc Hr st a; [lia|].
  cbn [au_loop]. destruct (parse s) as [n uc] eqn:E. pose proof (Hp _ _ _ E) as B.
  destruct (Z.eqb_spec n 0).
  - destruct (N.leb_spec (len out + ts) cap); [|lia]. intros Hq. inversion Hq; subst. cbn.
    repeat split; try assumption; try lia. exists []. rewrite app_nil_r. reflexivity.
  - destruct (N.ltb_spec (len s) (N.of_nat (Z.abs_nat n))); [lia|].
    destruct (retry_ok unparse ts tm Hu Hts 6 (len (skipn (Z.abs_nat n) s)) cap (len out) uc) as [cap' [A [B1 B2]]];
      [assumption| lia | destruct Hu as [_ Hl]; specialize (Hl uc); lia |].
    rewrite A. destruct (N.leb_spec (len out + len (unparse 4 uc)) cap'); [|lia].
    intros Hq. apply IH in Hq.
    + destruct Hq as [S1 [S2 [S3 [w S4]]]]. repeat split; try assumption; try lia.
      exists (unparse 4 uc ++ w). rewrite S4, app_assoc. reflexivity.
    + rewrite skipn_length. unfold len in *. lia.
    + rewrite len_app. lia.
    + destruct (n <? 0)%Z; [right; reflexivity|assumption].
Qed.

Lemma has_flag_cases : forall flag,
  (au_unparser flag = (unicode_to_utf16 true, 2) \/ au_unparser flag = (unicode_to_utf16 false, 2) \/
   au_unparser flag = (unicode_to_utf8, 1)).
Proof. intros. unfold au_unparser. repeat match goal with |- context [if ?b then _ else _] => destruct b end; auto. Qed.

Lemma au_parser_cases : forall flag ts,
  (au_parser flag ts = (utf16_to_unicode true, 1) \/ au_parser flag ts = (utf16_to_unicode false, 1) \/
   au_parser flag ts = (cesu8_to_unicode, ts)).
Proof. intros. unfold au_parser. repeat match goal with |- context [if ?b then _ else _] => destruct b end; auto. Qed.

Theorem append_unicode_safe : forall flag a s st a',
  append_unicode flag a s = (st, a') ->
  status_ok st /\
  len (a_buf a') + (if snd (au_unparser flag) =? 2 then 2 else 1) <= a_cap a' /\
  exists w, a_buf a' = a_buf a ++ w.
Proof.
  intros flag a s st a'. unfold append_unicode.
  destruct (au_unparser flag) as [unparse ts] eqn:EU.
  destruct (au_parser flag ts) as [parse tm] eqn:EP.
  assert (HU : unparse_ok unparse /\ (ts = 1 \/ ts = 2)).
  { destruct (has_flag_cases flag) as [X|[X|X]]; rewrite X in EU; inversion EU; subst;
      split; auto using utf16_unparse_ok, utf8_unparse_ok. }
  assert (HP : parse_ok parse).
  { destruct (au_parser_cases flag ts) as [X|[X|X]]; rewrite X in EP; inversion EP; subst;
      auto using utf16_bounds, cesu8_bounds. }
  destruct HU as [HU Hts]. intros Hq.
  destruct (ensure_ge (a_cap a) (len (a_buf a) + len s * tm + ts)) as [E1 E2].
  apply au_loop_safe in Hq; auto; try lia; [|left; reflexivity].
  destruct Hq as [S1 [S2 [S3 S4]]]. cbn [snd]. repeat split; try assumption.
  destruct Hts as [-> | ->]; cbn; lia.
Qed.

(* ------------------------------------------------------------------ surrogate / scalar ranges *)
Lemma is_scalar_iff : forall u, is_scalar u = true <-> (u <= 1114111 /\ ~ (55296 <= u <= 57343)).
Proof. intros u. unfold is_scalar. ltb_cases; cbn; split; intros; try discriminate; try lia; auto. Qed.

Lemma surrogate_iff : forall u, is_surrogate u = true <-> 55296 <= u <= 57343.
Proof. intros u. unfold is_surrogate, SURROGATE_LO, SURROGATE_HI. ltb_cases; cbn; split; intros; try discriminate; try lia; auto. Qed.
Lemma high_iff : forall u, is_high_surrogate u = true <-> 55296 <= u <= 56319.
Proof. intros u. unfold is_high_surrogate, HIGH_SURROGATE_LO, HIGH_SURROGATE_HI. ltb_cases; cbn; split; intros; try discriminate; try lia; auto. Qed.
Lemma low_iff : forall u, is_low_surrogate u = true <-> 56320 <= u <= 57343.
Proof. intros u. unfold is_low_surrogate, LOW_SURROGATE_LO, LOW_SURROGATE_HI. ltb_cases; cbn; split; intros; try discriminate; try lia; auto. Qed.

Lemma not_true_false : forall b, b <> true -> b = false.
Proof. destruct b; congruence. Qed.

Lemma scalar_not_surrogate : forall u, is_scalar u = true ->
  is_surrogate u = false /\ is_high_surrogate u = false /\ is_low_surrogate u = false /\ (UNICODE_MAX <? u) = false.
Proof.
  intros u H. apply is_scalar_iff in H. split; [|split; [|split]].
  - apply not_true_false. rewrite surrogate_iff. lia.
  - apply not_true_false. rewrite high_iff. lia.
  - apply not_true_false. rewrite low_iff. lia.
  - apply N.ltb_ge. unfold UNICODE_MAX. lia.
Qed.

(* ------------------------------------------------------------------ (a) scalar round trip, UTF-8 *)
Lemma raw_of_body : forall s cnt, byte_at s 0 <> 0 -> utf8_class (byte_at s 0) = cnt -> cnt <> 0 -> cnt <= len s ->
  utf8_raw s = utf8_body cnt (byte_at s 0) (byte_at s 1) (byte_at s 2) (byte_at s 3).
Proof.
  intros s cnt H0 Hc Hn Hl. rewrite utf8_raw_eq. cbv zeta. rewrite Hc.
  destruct (N.eqb_spec (len s) 0); [lia|]. destruct (N.eqb_spec (byte_at s 0) 0); [tauto|].
  destruct (N.ltb_spec (len s) cnt); [lia|]. destruct (N.eqb_spec cnt 0); [tauto|]. reflexivity.
Qed.

Lemma res_eqb_eq : forall r n u, res_eqb r n u = true -> r = (n, u).
Proof. intros [a b] n u H. unfold res_eqb in H. cbn [fst snd] in H. bool_hyps. subst. reflexivity. Qed.

Lemma rt8_at : forall u, is_scalar u = true -> u <> 0 -> rt8 u = true.
Proof. intros u H _. apply (forall_below_spec _ _ sweep_rt8). apply is_scalar_iff in H. lia. Qed.

Theorem utf8_rt_tail : forall u tail, is_scalar u = true -> u <> 0 ->
  utf8_to_unicode (unicode_to_utf8 4 u ++ tail) = (Z.of_N (len (unicode_to_utf8 4 u)), u).
Proof.
  intros u tail Hs Hz. pose proof (rt8_at u Hs Hz) as R. unfold rt8 in R. rewrite Hs in R.
  destruct (N.eqb_spec u 0); [tauto|]. cbn [negb andb] in R.
  rewrite utf8_to_unicode_raw.
  destruct (unicode_to_utf8 4 u) as [|a [|b [|c [|d [|]]]]]; try discriminate; bool_hyps.
  - rewrite (raw_of_body _ 1); cbn [app byte_at nth]; try assumption; try lia; [|rewrite len_cons; lia].
    apply res_eqb_eq. assumption.
  - rewrite (raw_of_body _ 2); cbn [app byte_at nth]; try assumption; try lia.
    + apply res_eqb_eq. assumption.
    + unfold utf8_class in *. intros ->. discriminate.
    + rewrite !len_cons; lia.
  - rewrite (raw_of_body _ 3); cbn [app byte_at nth]; try assumption; try lia.
    + apply res_eqb_eq. assumption.
    + unfold utf8_class in *. intros ->. discriminate.
    + rewrite !len_cons; lia.
  - rewrite (raw_of_body _ 4); cbn [app byte_at nth]; try assumption; try lia.
    + apply res_eqb_eq. assumption.
    + unfold utf8_class in *. intros ->. discriminate.
    + rewrite !len_cons; lia.
Qed.

Lemma surr_post_inv : forall r n u, surr_post r = (n, u) -> is_surrogate u = false -> r = (n, u).
Proof.
  intros [c w] n u. unfold surr_post. destruct ((c =? 3)%Z && is_surrogate w) eqn:E; intros Hq Hs; inversion Hq; subst; auto.
  bool_hyps. congruence.
Qed.

Lemma cesu8_of_raw : forall s n u, utf8_raw s = (n, u) -> is_high_surrogate u = false -> is_low_surrogate u = false ->
  cesu8_to_unicode s = (n, u).
Proof. intros s n u H Hh Hl. unfold cesu8_to_unicode. rewrite H, Hh, Hl, !andb_false_r. reflexivity. Qed.

Theorem cesu8_rt_tail : forall u tail, is_scalar u = true -> u <> 0 ->
  cesu8_to_unicode (unicode_to_utf8 4 u ++ tail) = (Z.of_N (len (unicode_to_utf8 4 u)), u).
Proof.
  intros u tail Hs Hz. destruct (scalar_not_surrogate u Hs) as [S1 [S2 [S3 _]]].
  apply cesu8_of_raw; try assumption. apply surr_post_inv; [|assumption].
  rewrite <- utf8_to_unicode_raw. apply utf8_rt_tail; assumption.
Qed.

(* ------------------------------------------------------------------ (b) scalar round trip, UTF-16 *)
Lemma unit_at : forall be b0 b1, b0 < 256 -> b1 < 256 -> unit_rt be b0 b1 = true.
Proof.
  intros [|] b0 b1 H0 H1.
  - exact (forall_below_spec _ _ (forall_below_spec _ _ sweep_unit_be b0 H0) b1 H1).
  - exact (forall_below_spec _ _ (forall_below_spec _ _ sweep_unit_le b0 H0) b1 H1).
Qed.

Lemma enc16_dec16 : forall be v, v < 65536 ->
  exists b0 b1, b0 < 256 /\ b1 < 256 /\ enc16 be v = [b0; b1] /\ dec16 be b0 b1 = v.
Proof.
  intros be v Hv.
  assert (Hd : v / 256 < 256) by (apply N.div_lt_upper_bound; lia).
  assert (Hm : v mod 256 < 256) by (apply N.mod_lt; lia).
  pose proof (N.div_mod v 256) as DM.
  destruct be.
  - exists (v / 256), (v mod 256). pose proof (unit_at true _ _ Hd Hm) as U. unfold unit_rt in U. cbv zeta in U. bool_hyps.
    assert (E : dec16 true (v / 256) (v mod 256) = v) by lia. rewrite E in *. auto.
  - exists (v mod 256), (v / 256). pose proof (unit_at false _ _ Hm Hd) as U. unfold unit_rt in U. cbv zeta in U. bool_hyps.
    assert (E : dec16 false (v mod 256) (v / 256) = v) by lia. rewrite E in *. auto.
Qed.

Lemma rt16_at : forall be u, is_scalar u = true -> rt16 be u = true.
Proof.
  intros be u H. apply is_scalar_iff in H.
  destruct be; [apply (forall_below_spec _ _ sweep_rt16be)|apply (forall_below_spec _ _ sweep_rt16le)]; lia.
Qed.

Theorem utf16_rt_tail : forall be u tail, is_scalar u = true ->
  utf16_to_unicode be (unicode_to_utf16 be 4 u ++ tail) = (Z.of_N (len (unicode_to_utf16 be 4 u)), u).
Proof.
  intros be u tail Hs. pose proof (rt16_at be u Hs) as R. unfold rt16 in R. rewrite Hs in R.
  destruct (scalar_not_surrogate u Hs) as [S1 [S2 [S3 S4]]].
  destruct (N.ltb_spec u 65536) as [Hlt|Hge].
  - apply andb_prop in R. destruct R as [R _]. apply bytes_eqb_eq in R.
    destruct (enc16_dec16 be u Hlt) as [b0 [b1 [Hb0 [Hb1 [E D]]]]].
    rewrite R, E.
    unfold utf16_to_unicode. cbv zeta. cbn [app byte_at nth]. rewrite !len_cons.
    destruct (N.eqb_spec (1 + (1 + len tail)) 0); [lia|]. destruct (N.eqb_spec (1 + (1 + len tail)) 1); [lia|].
    rewrite D, S2, S1, S4. reflexivity.
  - cbv zeta in R.
    set (hi := N.land (N.shiftr (u - 65536) 10) 1023 + 55296) in *.
    set (lo := N.land (u - 65536) 1023 + 56320) in *.
    apply andb_prop in R. destruct R as [R Hc]. apply andb_prop in R. destruct R as [Hh Hl].
    apply N.eqb_eq in Hc.
    assert (Hhi : hi < 65536) by (apply high_iff in Hh; lia).
    assert (Hlo : lo < 65536) by (apply low_iff in Hl; lia).
    destruct (enc16_dec16 be hi Hhi) as [h0 [h1 [_ [_ [Eh Dh]]]]].
    destruct (enc16_dec16 be lo Hlo) as [l0 [l1 [_ [_ [El Dl]]]]].
    assert (EU : unicode_to_utf16 be 4 u = [h0; h1; l0; l1]).
    { unfold unicode_to_utf16. destruct (N.ltb_spec 65535 u); [|lia]. change (4 <? 4) with false. cbv iota zeta.
      fold hi. fold lo. rewrite Eh, El. reflexivity. }
    rewrite EU. unfold utf16_to_unicode. cbv zeta. cbn [app byte_at nth]. rewrite !len_cons.
    destruct (N.eqb_spec (1 + (1 + (1 + (1 + len tail)))) 0); [lia|].
    destruct (N.eqb_spec (1 + (1 + (1 + (1 + len tail)))) 1); [lia|].
    rewrite Dh, Hh. destruct (N.leb_spec 4 (1 + (1 + (1 + (1 + len tail))))); [|lia].
    rewrite Dl, Hl, Hc, S1, S4. reflexivity.
Qed.

(* ------------------------------------------------------------------ (c) string level: the driver
   loop on the concatenated encodings of a list of code points *)
Lemma skipn_app_len : forall (a b : list N), skipn (length a) (a ++ b) = b.
Proof. induction a; intros; cbn; auto. Qed.

Lemma au_loop_rt : forall parse unparse ts tm (src : N -> list N) (dom : N -> Prop),
  unparse_ok unparse -> 1 <= ts ->
  (forall u tail, dom u -> parse (src u ++ tail) = (Z.of_N (len (src u)), u) /\ 1 <= len (src u)) ->
  fst (parse []) = 0%Z ->
  forall us, Forall dom us ->
  forall fuel cap out, (length (concat (map src us)) < fuel)%nat -> len out + ts <= cap ->
  exists cap', cap <= cap' /\
    au_loop fuel parse unparse ts tm (concat (map src us)) cap out 0%Z =
    (0%Z, mkAstr cap' (out ++ concat (map (unparse 4) us))).
Proof.
  intros parse unparse ts tm src dom Hu Hts Hp Hnil. induction us as [|u us IH]; intros Hd fuel cap out Hf Hc.
  - destruct fuel as [|f]; [cbn in Hf; lia|]. cbn [map concat au_loop].
    destruct (parse []) as [n uc] eqn:E. cbn [fst] in Hnil. subst n. cbn [Z.eqb].
    destruct (N.leb_spec (len out + ts) cap); [|lia]. exists cap. rewrite app_nil_r. split; [lia|reflexivity].
  - inversion Hd as [|? ? Hdu Hdus]; subst. cbn [map concat] in *.
    destruct fuel as [|f]; [lia|]. cbn [au_loop].
    destruct (Hp u (concat (map src us)) Hdu) as [P1 P2]. rewrite P1.
    destruct (Z.eqb_spec (Z.of_N (len (src u))) 0); [lia|].
    destruct (Z.ltb_spec (Z.of_N (len (src u))) 0); [lia|].
    replace (Z.abs_nat (Z.of_N (len (src u)))) with (length (src u)) by (unfold len; lia).
    rewrite len_app. destruct (N.ltb_spec (len (src u) + len (concat (map src us))) (N.of_nat (length (src u))));
      [unfold len in *; lia|].
    rewrite skipn_app_len.
    destruct (retry_ok unparse ts tm Hu Hts 6 (len (concat (map src us))) cap (len out) u) as [cap1 [A [B1 B2]]];
      [assumption | lia | destruct Hu as [_ Hl]; specialize (Hl u); lia |].
    rewrite A. destruct (N.leb_spec (len out + len (unparse 4 u)) cap1); [|lia].
    destruct (IH Hdus f cap1 (out ++ unparse 4 u)) as [cap' [C1 C2]].
    + rewrite app_length in Hf. unfold len in P2. lia.
    + rewrite len_app. lia.
    + exists cap'. split; [lia|]. rewrite C2, <- app_assoc. reflexivity.
Qed.

Definition scalar_nz (u : N) : Prop := is_scalar u = true /\ u <> 0.
Definition enc8 (us : list N) : list N := concat (map (unicode_to_utf8 4) us).
Definition enc16s (be : bool) (us : list N) : list N := concat (map (unicode_to_utf16 be 4) us).

Definition flag_8_to_16 (be : bool) : N := N.lor SCONV_FROM_UTF8 (if be then SCONV_TO_UTF16BE else SCONV_TO_UTF16LE).
Definition flag_16_to_8 (be : bool) : N := N.lor (if be then SCONV_FROM_UTF16BE else SCONV_FROM_UTF16LE) SCONV_TO_UTF8.

Lemma utf8_len_pos : forall u, 1 <= len (unicode_to_utf8 4 u).
Proof. intros. destruct utf8_unparse_ok as [_ H]. apply H. Qed.
Lemma utf16_len_pos : forall be u, 1 <= len (unicode_to_utf16 be 4 u).
Proof. intros. destruct (utf16_unparse_ok be) as [_ H]. apply H. Qed.

Lemma scalar_nz_scalar : forall us, Forall scalar_nz us -> Forall (fun u => is_scalar u = true) us.
Proof. intros us H. eapply Forall_impl; [|exact H]. intros a [A _]. exact A. Qed.

(* UTF-8 -> UTF-16 through archive_string_append_unicode *)
Theorem append_unicode_8_to_16 : forall be a us, Forall scalar_nz us ->
  exists cap', append_unicode (flag_8_to_16 be) a (enc8 us) = (0%Z, mkAstr cap' (a_buf a ++ enc16s be us)).
Proof.
  intros be a us Hus. unfold append_unicode.
  assert (EU : au_unparser (flag_8_to_16 be) = (unicode_to_utf16 be, 2)) by (destruct be; reflexivity).
  rewrite EU.
  assert (EP : au_parser (flag_8_to_16 be) 2 = (cesu8_to_unicode, 2)) by (destruct be; reflexivity).
  rewrite EP.
  destruct (ensure_ge (a_cap a) (len (a_buf a) + len (enc8 us) * 2 + 2)) as [E1 E2].
  destruct (au_loop_rt cesu8_to_unicode (unicode_to_utf16 be) 2 2 (unicode_to_utf8 4) scalar_nz
              (utf16_unparse_ok be) ltac:(lia)) with (us := us) (fuel := S (length (enc8 us)))
              (cap := ensure (a_cap a) (len (a_buf a) + len (enc8 us) * 2 + 2)) (out := a_buf a) as [cap' [C1 C2]].
  - intros u tail [Hs Hz]. split; [apply cesu8_rt_tail; assumption|apply utf8_len_pos].
  - reflexivity.
  - assumption.
  - unfold enc8. lia.
  - lia.
  - exists cap'. exact C2.
Qed.

(* UTF-16 -> UTF-8 through archive_string_append_unicode (the retry loop is really used here:
   the first allocation is length + len + 1, a BMP character needs 3 bytes for 2) *)
Theorem append_unicode_16_to_8 : forall be a us, Forall (fun u => is_scalar u = true) us ->
  exists cap', append_unicode (flag_16_to_8 be) a (enc16s be us) = (0%Z, mkAstr cap' (a_buf a ++ enc8 us)).
Proof.
  intros be a us Hus. unfold append_unicode.
  assert (EU : au_unparser (flag_16_to_8 be) = (unicode_to_utf8, 1)) by (destruct be; reflexivity).
  rewrite EU.
  assert (EP : au_parser (flag_16_to_8 be) 1 = (utf16_to_unicode be, 1)) by (destruct be; reflexivity).
  rewrite EP.
  destruct (ensure_ge (a_cap a) (len (a_buf a) + len (enc16s be us) * 1 + 1)) as [E1 E2].
  destruct (au_loop_rt (utf16_to_unicode be) unicode_to_utf8 1 1 (unicode_to_utf16 be 4) (fun u => is_scalar u = true)
              utf8_unparse_ok ltac:(lia)) with (us := us) (fuel := S (length (enc16s be us)))
              (cap := ensure (a_cap a) (len (a_buf a) + len (enc16s be us) * 1 + 1)) (out := a_buf a) as [cap' [C1 C2]].
  - intros u tail Hs. split; [apply utf16_rt_tail; assumption|apply utf16_len_pos].
  - reflexivity.
  - assumption.
  - unfold enc16s. lia.
  - lia.
  - exists cap'. exact C2.
Qed.

(* UTF-8 -> UTF-16 -> UTF-8 is the identity with status 0 at both steps *)
Theorem string_round_trip : forall be us, Forall scalar_nz us ->
  exists c1 c2,
    append_unicode (flag_8_to_16 be) (mkAstr 0 []) (enc8 us) = (0%Z, mkAstr c1 (enc16s be us)) /\
    append_unicode (flag_16_to_8 be) (mkAstr 0 []) (enc16s be us) = (0%Z, mkAstr c2 (enc8 us)).
Proof.
  intros be us H.
  destruct (append_unicode_8_to_16 be (mkAstr 0 []) us H) as [c1 A].
  destruct (append_unicode_16_to_8 be (mkAstr 0 []) us (scalar_nz_scalar us H)) as [c2 B].
  exists c1, c2. split; assumption.
Qed.

(* ------------------------------------------------------------------ (d) strictness *)
Lemma body_pos_cont : forall cnt ch b1 b2 b3 n u, 1 <= cnt <= 4 ->
  utf8_body cnt ch b1 b2 b3 = (n, u) -> (0 < n)%Z ->
  n = Z.of_N cnt /\ (2 <= cnt -> is_cont b1 = true) /\ (3 <= cnt -> is_cont b2 = true) /\ (4 <= cnt -> is_cont b3 = true).
Proof.
  intros cnt ch b1 b2 b3 n u Hc. unfold utf8_body, check_max, invalid.
  assert (E : cnt = 1 \/ cnt = 2 \/ cnt = 3 \/ cnt = 4) by lia.
  destruct E as [-> | [-> | [-> | ->]]]; cbn [N.eqb Pos.eqb];
    destruct (is_cont b1); destruct (is_cont b2); destruct (is_cont b3); cbn [negb];
    repeat match goal with |- context [if ?c then _ else _] => destruct c end;
    intros Hq Hn; inversion Hq; subst; try lia; repeat split; auto; lia.
Qed.

Lemma cont_at : forall b, b < 256 -> is_cont b = true -> b = 128 + N.land b 63 /\ N.land b 63 < 64.
Proof.
  intros b Hb Hc. pose proof (forall_below_spec _ _ sweep_cont_form b Hb) as A. unfold cont_form in A.
  rewrite Hc in A. bool_hyps. split; assumption.
Qed.

Lemma class_lt : forall ch c, utf8_class ch = c -> c <> 0 -> ch < 256.
Proof. intros ch c H Hc. apply utf8_class_range. congruence. Qed.

Lemma strict1_at : forall ch, utf8_class ch = 1 -> ch <> 0 -> strict1 ch = true.
Proof. intros ch H _. apply (forall_below_spec _ _ sweep_strict1). apply (class_lt ch 1); [assumption|lia]. Qed.
Lemma strict2_at : forall ch x1, utf8_class ch = 2 -> x1 < 64 -> strict2 ch x1 = true.
Proof.
  intros ch x1 H H1. pose proof (forall_below_spec _ _ sweep_strict2 ch (class_lt ch 2 H ltac:(lia))) as A.
  cbv beta in A. rewrite H in A. change (2 =? 2) with true in A. cbv iota in A.
  exact (forall_below_spec _ _ A x1 H1).
Qed.
Lemma strict3_at : forall ch x1 x2, utf8_class ch = 3 -> x1 < 64 -> x2 < 64 -> strict3 ch x1 x2 = true.
Proof.
  intros ch x1 x2 H H1 H2. pose proof (forall_below_spec _ _ sweep_strict3 ch (class_lt ch 3 H ltac:(lia))) as A.
  cbv beta in A. rewrite H in A. change (3 =? 3) with true in A. cbv iota in A.
  exact (forall_below_spec _ _ (forall_below_spec _ _ A x1 H1) x2 H2).
Qed.
Lemma strict4_at : forall ch x1 x2 x3, utf8_class ch = 4 -> x1 < 64 -> x2 < 64 -> x3 < 64 -> strict4 ch x1 x2 x3 = true.
Proof.
  intros ch x1 x2 x3 H H1 H2 H3. pose proof (forall_below_spec _ _ sweep_strict4 ch (class_lt ch 4 H ltac:(lia))) as A.
  cbv beta in A. rewrite H in A. change (4 =? 4) with true in A. cbv iota in A.
  exact (forall_below_spec _ _ (forall_below_spec _ _ (forall_below_spec _ _ A x1 H1) x2 H2) x3 H3).
Qed.

Lemma body_indep : forall ch b1 b2 b3,
  utf8_body 1 ch b1 b2 b3 = utf8_body 1 ch 0 0 0 /\
  utf8_body 2 ch b1 b2 b3 = utf8_body 2 ch b1 0 0 /\
  utf8_body 3 ch b1 b2 b3 = utf8_body 3 ch b1 b2 0.
Proof. intros. repeat split; reflexivity. Qed.

(* what _utf8_to_unicode accepts is the shortest form of the code point it returns; the code point
   is a scalar value unless the sequence has three bytes (surrogates pass at this level) *)
Theorem utf8_raw_strict : forall s n u, bytes_ok s -> utf8_raw s = (n, u) -> (0 < n)%Z ->
  u <> 0 /\ u <= 1114111 /\ n = Z.of_N (len (unicode_to_utf8 4 u)) /\
  firstn (Z.to_nat n) s = unicode_to_utf8 4 u /\ (n <> 3%Z -> is_scalar u = true).
Proof.
  intros s n u Hb H Hn. rewrite utf8_raw_eq in H. cbv zeta in H.
  destruct (N.eqb_spec (len s) 0); [inversion H; lia|].
  destruct (N.eqb_spec (byte_at s 0) 0) as [|Hch]; [inversion H; lia|].
  destruct (N.ltb_spec (len s) (utf8_class (byte_at s 0))) as [|Hl]; [unfold invalid in H; inversion H; lia|].
  destruct (N.eqb_spec (utf8_class (byte_at s 0)) 0) as [|Hc0].
  { apply utf8_default_bounds in H; lia. }
  destruct (utf8_class_range _ Hc0) as [Hlt Hr].
  destruct (body_pos_cont _ _ _ _ _ _ _ Hr H Hn) as [En [C1 [C2 C3]]].
  pose proof (byte_at_lt s 1 Hb) as L1. pose proof (byte_at_lt s 2 Hb) as L2. pose proof (byte_at_lt s 3 Hb) as L3.
  assert (E : utf8_class (byte_at s 0) = 1 \/ utf8_class (byte_at s 0) = 2 \/ utf8_class (byte_at s 0) = 3 \/
              utf8_class (byte_at s 0) = 4) by lia.
  destruct (body_indep (byte_at s 0) (byte_at s 1) (byte_at s 2) (byte_at s 3)) as [I1 [I2 I3]].
  destruct E as [E|[E|[E|E]]]; rewrite E in *.
  - pose proof (strict1_at _ E Hch) as A. unfold strict1 in A. rewrite E in A.
    destruct (N.eqb_spec (byte_at s 0) 0); [tauto|]. cbn [N.eqb Pos.eqb negb andb] in A.
    rewrite I1 in H. rewrite H in A. cbn [fst snd] in A. bool_hyps. subst n.
    match goal with X : unicode_to_utf8 4 u = _ |- _ => rewrite X end.
    split; [assumption|]. split; [match goal with X : is_scalar u = true |- _ => apply is_scalar_iff in X; lia end|].
    split; [reflexivity|]. split; [apply firstn_1; unfold len in Hl; lia|intros; assumption].
  - destruct (cont_at _ L1 (C1 ltac:(lia))) as [F1 G1].
    pose proof (strict2_at _ _ E G1) as A. unfold strict2 in A. rewrite E in A. change (2 =? 2) with true in A. cbv iota zeta in A.
    rewrite <- F1 in A. rewrite I2 in H. rewrite H in A. cbn [fst snd] in A.
    destruct (Z.ltb_spec 0 n); [|lia]. bool_hyps. subst n.
    match goal with X : unicode_to_utf8 4 u = _ |- _ => rewrite X end.
    split; [assumption|]. split; [match goal with X : is_scalar u = true |- _ => apply is_scalar_iff in X; lia end|].
    split; [reflexivity|]. split; [apply firstn_2; unfold len in Hl; lia|intros; assumption].
  - destruct (cont_at _ L1 (C1 ltac:(lia))) as [F1 G1]. destruct (cont_at _ L2 (C2 ltac:(lia))) as [F2 G2].
    pose proof (strict3_at _ _ _ E G1 G2) as A. unfold strict3 in A. rewrite E in A. change (3 =? 3) with true in A. cbv iota zeta in A.
    rewrite <- F1, <- F2 in A. rewrite I3 in H. rewrite H in A. cbn [fst snd] in A.
    destruct (Z.ltb_spec 0 n); [|lia]. bool_hyps. subst n.
    match goal with X : unicode_to_utf8 4 u = _ |- _ => rewrite X end.
    split; [assumption|]. split; [lia|].
    split; [reflexivity|]. split; [apply firstn_3; unfold len in Hl; lia|intros; lia].
  - destruct (cont_at _ L1 (C1 ltac:(lia))) as [F1 G1]. destruct (cont_at _ L2 (C2 ltac:(lia))) as [F2 G2].
    destruct (cont_at _ L3 (C3 ltac:(lia))) as [F3 G3].
    pose proof (strict4_at _ _ _ _ E G1 G2 G3) as A. unfold strict4 in A. rewrite E in A. change (4 =? 4) with true in A. cbv iota zeta in A.
    rewrite <- F1, <- F2, <- F3 in A. rewrite H in A. cbn [fst snd] in A.
    destruct (Z.ltb_spec 0 n); [|lia]. bool_hyps. subst n.
    match goal with X : unicode_to_utf8 4 u = _ |- _ => rewrite X end.
    split; [lia|]. split; [match goal with X : is_scalar u = true |- _ => apply is_scalar_iff in X; lia end|].
    split; [reflexivity|]. split; [apply firstn_4; unfold len in Hl; lia|intros; assumption].
Qed.

(* utf8_to_unicode: a positive count means: the first n bytes are the shortest-form UTF-8 encoding of
   the Unicode scalar value u (so overlong forms, surrogates, values above 0x10FFFF, truncated
   sequences, stray continuation bytes and the bytes C0 C1 F5..FF all give n <= 0) *)
Theorem utf8_to_unicode_strict : forall s n u, bytes_ok s -> utf8_to_unicode s = (n, u) -> (0 < n)%Z ->
  is_scalar u = true /\ u <> 0 /\ n = Z.of_N (len (unicode_to_utf8 4 u)) /\
  firstn (Z.to_nat n) s = unicode_to_utf8 4 u.
Proof.
  intros s n u Hb H Hn. rewrite utf8_to_unicode_raw in H. destruct (utf8_raw s) as [c w] eqn:E.
  unfold surr_post in H. destruct ((c =? 3)%Z && is_surrogate w) eqn:E1; inversion H; subst; [lia|].
  destruct (utf8_raw_strict _ _ _ Hb E Hn) as [A1 [A2 [A3 [A4 A5]]]]. repeat split; try assumption.
  destruct (Z.eqb_spec n 3); [|auto]. cbn [andb] in E1. apply not_true_false in E1 || idtac.
  apply is_scalar_iff. split; [assumption|]. intros Hx. apply surrogate_iff in Hx. congruence.
Qed.

(* cesu8_to_unicode additionally accepts a surrogate pair written as two 3-byte sequences *)
Definition cesu_pair (hi lo u : N) : Prop :=
  is_high_surrogate hi = true /\ is_low_surrogate lo = true /\ u = combine_surrogate_pair hi lo.
Definition src8_form (piece : list N) (u : N) : Prop :=
  is_scalar u = true /\ u <> 0 /\
  (piece = unicode_to_utf8 4 u \/
   exists hi lo, cesu_pair hi lo u /\ piece = unicode_to_utf8 4 hi ++ unicode_to_utf8 4 lo).

Lemma bytes_ok_skipn : forall k s, bytes_ok s -> bytes_ok (skipn k s).
Proof.
  unfold bytes_ok. induction k; intros s H; cbn; [assumption|]. destruct s; [constructor|].
  inversion H; subst. auto.
Qed.

Lemma pair_scalar : forall hi lo, is_high_surrogate hi = true -> is_low_surrogate lo = true ->
  is_scalar (combine_surrogate_pair hi lo) = true /\ 65536 <= combine_surrogate_pair hi lo.
Proof.
  intros hi lo Hh Hl. apply high_iff in Hh. apply low_iff in Hl. unfold combine_surrogate_pair.
  split; [apply is_scalar_iff|]; lia.
Qed.

Theorem cesu8_strict : forall s n u, bytes_ok s -> cesu8_to_unicode s = (n, u) -> (0 < n)%Z ->
  src8_form (firstn (Z.to_nat n) s) u.
Proof.
  intros s n u Hb H Hn. unfold cesu8_to_unicode in H. destruct (utf8_raw s) as [c w] eqn:E.
  destruct ((c =? 3)%Z && is_high_surrogate w) eqn:E1.
  - bool_hyps. subst c.
    destruct (N.ltb_spec (len s - 3) 3); [inversion H; lia|].
    destruct (utf8_raw (skipn 3 s)) as [c2 w2] eqn:E2.
    destruct (negb (c2 =? 3)%Z || negb (is_low_surrogate w2)) eqn:E3.
    { inversion H; subst. destruct (0 <? c2)%Z eqn:E4; bool_hyps; lia. }
    apply orb_false_elim in E3. destruct E3 as [E3 E4]. bool_hyps. subst c2. inversion H; subst.
    destruct (utf8_raw_strict _ _ _ Hb E ltac:(lia)) as [_ [_ [_ [F1 _]]]].
    destruct (utf8_raw_strict _ _ _ (bytes_ok_skipn 3 s Hb) E2 ltac:(lia)) as [_ [_ [_ [F2 _]]]].
    destruct (pair_scalar w w2) as [P1 P2]; try assumption.
    split; [assumption|]. split; [lia|]. right. exists w, w2. split; [repeat split; assumption|].
    change (Z.to_nat 6) with (3 + 3)%nat. rewrite firstn_add. change (Z.to_nat 3) with 3%nat in *. rewrite F1, F2. reflexivity.
  - destruct ((c =? 3)%Z && is_low_surrogate w) eqn:E2; inversion H; subst; [lia|].
    destruct (utf8_raw_strict _ _ _ Hb E Hn) as [A1 [A2 [A3 [A4 A5]]]].
    split; [|split; [assumption|left; assumption]].
    destruct (Z.eqb_spec n 3); [|auto]. cbn [andb] in E1, E2.
    apply is_scalar_iff. split; [assumption|]. intros Hx.
    destruct (N.le_gt_cases u 56319).
    + assert (is_high_surrogate u = true) by (apply high_iff; lia). congruence.
    + assert (is_low_surrogate u = true) by (apply low_iff; lia). congruence.
Qed.

(* utf16_to_unicode: a positive count means: the first n bytes are the UTF-16 encoding (in that byte
   order) of the scalar value u - unpaired surrogates and a dangling byte give n < 0 *)
Lemma dec16_enc16 : forall be b0 b1, b0 < 256 -> b1 < 256 ->
  dec16 be b0 b1 < 65536 /\ enc16 be (dec16 be b0 b1) = [b0; b1].
Proof.
  intros be b0 b1 H0 H1. pose proof (unit_at be b0 b1 H0 H1) as U. unfold unit_rt in U. cbv zeta in U.
  bool_hyps. split; assumption.
Qed.

Lemma combine_inj : forall h l h' l', is_high_surrogate h = true -> is_low_surrogate l = true ->
  is_high_surrogate h' = true -> is_low_surrogate l' = true ->
  combine_surrogate_pair h l = combine_surrogate_pair h' l' -> h = h' /\ l = l'.
Proof.
  intros h l h' l' A B C D. apply high_iff in A, C. apply low_iff in B, D. unfold combine_surrogate_pair. lia.
Qed.

Theorem utf16_strict : forall be s n u, bytes_ok s -> utf16_to_unicode be s = (n, u) -> (0 < n)%Z ->
  is_scalar u = true /\ n = Z.of_N (len (unicode_to_utf16 be 4 u)) /\
  firstn (Z.to_nat n) s = unicode_to_utf16 be 4 u.
Proof.
  intros be s n u Hb H Hn. unfold utf16_to_unicode in H. cbv zeta in H.
  destruct (N.eqb_spec (len s) 0); [inversion H; lia|].
  destruct (N.eqb_spec (len s) 1); [inversion H; lia|].
  pose proof (byte_at_lt s 0 Hb) as L0. pose proof (byte_at_lt s 1 Hb) as L1.
  pose proof (byte_at_lt s 2 Hb) as L2. pose proof (byte_at_lt s 3 Hb) as L3.
  destruct (dec16_enc16 be _ _ L0 L1) as [V1 W1]. destruct (dec16_enc16 be _ _ L2 L3) as [V2 W2].
  set (hi := dec16 be (byte_at s 0) (byte_at s 1)) in *.
  destruct (is_high_surrogate hi) eqn:Eh.
  - destruct (N.leb_spec 4 (len s)) as [H4|H4].
    2:{ replace (is_low_surrogate 0) with false in H by reflexivity. inversion H; lia. }
    set (lo := dec16 be (byte_at s 2) (byte_at s 3)) in *.
    destruct (is_low_surrogate lo) eqn:El; [|inversion H; lia].
    destruct (is_surrogate (combine_surrogate_pair hi lo) || (UNICODE_MAX <? combine_surrogate_pair hi lo)); inversion H; subst; [lia|].
    destruct (pair_scalar hi lo Eh El) as [P1 P2]. split; [assumption|].
    pose proof (rt16_at be _ P1) as R. unfold rt16 in R. rewrite P1 in R.
    destruct (N.ltb_spec (combine_surrogate_pair hi lo) 65536); [lia|]. cbv zeta in R.
    apply andb_prop in R. destruct R as [R Hc]. apply andb_prop in R. destruct R as [Hh' Hl']. apply N.eqb_eq in Hc.
    destruct (combine_inj _ _ _ _ Hh' Hl' Eh El Hc) as [I1 I2].
    assert (EU : unicode_to_utf16 be 4 (combine_surrogate_pair hi lo) =
                 [byte_at s 0; byte_at s 1; byte_at s 2; byte_at s 3]).
    { unfold unicode_to_utf16. destruct (N.ltb_spec 65535 (combine_surrogate_pair hi lo)); [|lia].
      change (4 <? 4) with false. cbv iota zeta. rewrite I1, I2, W1, W2. reflexivity. }
    rewrite EU. split; [reflexivity|]. apply firstn_4. unfold len in H4. lia.
  - destruct (is_surrogate hi || (UNICODE_MAX <? hi)) eqn:E2; inversion H; subst; [lia|].
    apply orb_false_elim in E2. destruct E2 as [E2 E3]. bool_hyps.
    assert (Hsc : is_scalar hi = true).
    { apply is_scalar_iff. unfold UNICODE_MAX in *. split; [lia|]. intros Hx. apply surrogate_iff in Hx. congruence. }
    split; [assumption|].
    assert (EU : unicode_to_utf16 be 4 hi = [byte_at s 0; byte_at s 1]).
    { unfold unicode_to_utf16. destruct (N.ltb_spec 65535 hi); [lia|]. change (4 <? 2) with false. cbv iota. exact W1. }
    rewrite EU. split; [reflexivity|]. apply firstn_2.
    assert (len s <> 0 /\ len s <> 1) by auto. unfold len in *. lia.
Qed.

(* ------------------------------------------------------------------ status 0 of the driver loop
   implies the input was well formed and the output is the encoding of the same code points *)
Lemma au_loop_ret_neg : forall parse unparse ts tm fuel s cap out st a,
  au_loop fuel parse unparse ts tm s cap out (-1)%Z = (st, a) -> st <> 0%Z.
Proof.
  intros parse unparse ts tm. induction fuel as [|f IH]; intros s cap out st a; cbn [au_loop].
  - intros Hq. inversion Hq. unfold ERR_FUEL. lia.
  - destruct (parse s) as [n uc]. destruct (n =? 0)%Z.
    + destruct (_ <=? _); intros Hq; inversion Hq; unfold ERR_OVERFLOW; lia.
    + destruct (_ <? _); [intros Hq; inversion Hq; unfold ERR_OVERREAD; lia|].
      destruct (unparse_retry _ _ _ _ _ _ _ _) as [[c w]|]; [|intros Hq; inversion Hq; unfold ERR_FUEL; lia].
      destruct (_ <=? _); [|intros Hq; inversion Hq; unfold ERR_OVERFLOW; lia].
      replace (if (n <? 0)%Z then (-1)%Z else (-1)%Z) with (-1)%Z by (destruct (n <? 0)%Z; reflexivity).
      apply IH.
Qed.

Lemma au_loop_status0 : forall parse unparse ts tm (good : list N -> Prop) (R : list N -> N -> Prop),
  unparse_ok unparse ->
  (forall s n u, good s -> parse s = (n, u) -> (0 < n)%Z -> R (firstn (Z.to_nat n) s) u) ->
  (forall s u, good s -> parse s = (0%Z, u) -> s = []) ->
  (forall k s, good s -> good (skipn k s)) ->
  forall fuel s cap out a, good s ->
  au_loop fuel parse unparse ts tm s cap out 0%Z = (0%Z, a) ->
  exists pieces us, s = concat pieces /\ Forall2 R pieces us /\ a_buf a = out ++ concat (map (unparse 4) us).
Proof.
  intros parse unparse ts tm good R Hu HR Hz Hk. induction fuel as [|f IH]; intros s cap out a Hg; cbn [au_loop].
  - intros Hq. inversion Hq.
  - destruct (parse s) as [n uc] eqn:E. destruct (Z.eqb_spec n 0).
    + subst n. rewrite (Hz _ _ Hg E). destruct (_ <=? _); intros Hq; inversion Hq. cbn [a_buf].
      exists [], []. rewrite app_nil_r. repeat split; constructor.
    + destruct (_ <? _); [intros Hq; inversion Hq|].
      destruct (unparse_retry _ _ _ _ _ _ _ _) as [[c w]|] eqn:ER; [|intros Hq; inversion Hq].
      apply (retry_some _ _ _ Hu) in ER. subst w.
      destruct (_ <=? _); [|intros Hq; inversion Hq].
      destruct (Z.ltb_spec n 0).
      * intros Hq. apply au_loop_ret_neg in Hq. congruence.
      * intros Hq. apply IH in Hq; [|apply Hk; assumption].
        destruct Hq as [pieces [us [P1 [P2 P3]]]].
        exists (firstn (Z.abs_nat n) s :: pieces), (uc :: us). cbn [concat map]. repeat split.
        -- rewrite <- P1. symmetry. apply firstn_skipn.
        -- constructor; [|assumption]. replace (Z.abs_nat n) with (Z.to_nat n) by lia. apply (HR s n uc Hg E). lia.
        -- rewrite P3, app_assoc. reflexivity.
Qed.

Definition nul_free (s : list N) : Prop := ~ In 0 s.
Definition good8 (s : list N) : Prop := bytes_ok s /\ nul_free s.

Lemma in_skipn : forall k (s : list N) x, In x (skipn k s) -> In x s.
Proof. intros k s x H. rewrite <- (firstn_skipn k s). apply in_or_app. right. assumption. Qed.

Lemma good8_skipn : forall k s, good8 s -> good8 (skipn k s).
Proof. intros k s [A B]. split; [apply bytes_ok_skipn; assumption|]. intros H. apply B. eapply in_skipn. eassumption. Qed.

Lemma byte_at_0_in : forall s, s <> [] -> In (byte_at s 0) s.
Proof. intros [|a s] H; [congruence|]. left. reflexivity. Qed.

(* cesu8_to_unicode returns 0 only at the end of the input or at/before a NUL byte *)
Lemma cesu8_zero : forall s u, cesu8_to_unicode s = (0%Z, u) -> s = [] \/ In 0 s.
Proof.
  intros s u. unfold cesu8_to_unicode. destruct (utf8_raw s) as [c w] eqn:E.
  destruct ((c =? 3)%Z && is_high_surrogate w) eqn:E1.
  - destruct (N.ltb_spec (len s - 3) 3); [intros Hq; inversion Hq|].
    destruct (utf8_raw (skipn 3 s)) as [c2 w2] eqn:E2.
    destruct (negb (c2 =? 3)%Z || negb (is_low_surrogate w2)); intros Hq; inversion Hq as [[Hc Hw]].
    assert (c2 = 0%Z) by (destruct (0 <? c2)%Z; lia). subst c2.
    destruct (proj1 (utf8_raw_zero _ _ _ E2) eq_refl) as [Hn|Hn].
    + assert (len (skipn 3 s) = 0) by (rewrite Hn; reflexivity). rewrite len_skipn in *. lia.
    + right. apply (in_skipn 3). rewrite <- Hn. apply byte_at_0_in. intros Hx.
      assert (len (skipn 3 s) = 0) by (rewrite Hx; reflexivity). rewrite len_skipn in *. lia.
  - destruct ((c =? 3)%Z && is_low_surrogate w); intros Hq; inversion Hq. subst.
    destruct (proj1 (utf8_raw_zero _ _ _ E) eq_refl) as [Hn|Hn]; [left; assumption|].
    destruct s as [|a s]; [left; reflexivity|]. right. rewrite <- Hn. left. reflexivity.
Qed.

Lemma cesu8_zero_good : forall s u, good8 s -> cesu8_to_unicode s = (0%Z, u) -> s = [].
Proof. intros s u [_ B] H. destruct (cesu8_zero _ _ H); [assumption|]. contradiction. Qed.

Definition dst16_form (be : bool) (piece : list N) (u : N) : Prop :=
  is_scalar u = true /\ piece = unicode_to_utf16 be 4 u.

(* (d, consequence) UTF-8 -> UTF-16: status 0 on NUL-free bytes means the input is a sequence of
   shortest-form encodings of nonzero scalar values (supplementary ones possibly as CESU-8 pairs)
   and the output is the UTF-16 encoding of exactly these scalar values *)
Theorem status0_8_to_16 : forall be a s a', bytes_ok s -> nul_free s ->
  append_unicode (flag_8_to_16 be) a s = (0%Z, a') ->
  exists pieces us, s = concat pieces /\ Forall2 src8_form pieces us /\ a_buf a' = a_buf a ++ enc16s be us.
Proof.
  intros be a s a' Hb Hn. unfold append_unicode.
  assert (EU : au_unparser (flag_8_to_16 be) = (unicode_to_utf16 be, 2)) by (destruct be; reflexivity).
  rewrite EU.
  assert (EP : au_parser (flag_8_to_16 be) 2 = (cesu8_to_unicode, 2)) by (destruct be; reflexivity).
  rewrite EP. intros Hq.
  eapply (au_loop_status0 cesu8_to_unicode (unicode_to_utf16 be) 2 2 good8 src8_form) in Hq.
  - exact Hq.
  - apply utf16_unparse_ok.
  - intros s0 n u [Gb _] Hp Hpos. apply cesu8_strict; assumption.
  - intros s0 u G Hp. eapply cesu8_zero_good; eassumption.
  - apply good8_skipn.
  - split; assumption.
Qed.

Theorem status0_16_to_8 : forall be a s a', bytes_ok s ->
  append_unicode (flag_16_to_8 be) a s = (0%Z, a') ->
  exists pieces us, s = concat pieces /\ Forall2 (dst16_form be) pieces us /\ a_buf a' = a_buf a ++ enc8 us.
Proof.
  intros be a s a' Hb. unfold append_unicode.
  assert (EU : au_unparser (flag_16_to_8 be) = (unicode_to_utf8, 1)) by (destruct be; reflexivity).
  rewrite EU.
  assert (EP : au_parser (flag_16_to_8 be) 1 = (utf16_to_unicode be, 1)) by (destruct be; reflexivity).
  rewrite EP. intros Hq.
  eapply (au_loop_status0 (utf16_to_unicode be) unicode_to_utf8 1 1 bytes_ok (dst16_form be)) in Hq.
  - exact Hq.
  - apply utf8_unparse_ok.
  - intros s0 n u Gb Hp Hpos. destruct (utf16_strict be s0 n u Gb Hp Hpos) as [A [_ B]]. split; assumption.
  - intros s0 u G Hp. apply (utf16_zero be). rewrite Hp. reflexivity.
  - intros k s0. apply bytes_ok_skipn.
  - assumption.
Qed.

(* ------------------------------------------------------------------ strncat_from_utf8_to_utf8 *)
Lemma astr_append_some : forall a w, exists cap',
  astr_append a w = Some (mkAstr cap' (a_buf a ++ w)) /\ len (a_buf a ++ w) + 1 <= cap' /\ a_cap a <= cap'.
Proof.
  intros a w. unfold astr_append. destruct (ensure_ge (a_cap a) (len (a_buf a) + len w + 1)) as [E1 E2].
  destruct (N.leb_spec (len (a_buf a) + len w + 1) (ensure (a_cap a) (len (a_buf a) + len w + 1))); [|lia].
  eexists. split; [reflexivity|]. rewrite len_app. split; lia.
Qed.

Lemma utf8_raw_ge : forall s n u, utf8_raw s = (n, u) -> (-6 <= n)%Z.
Proof.
  intros s n u. rewrite utf8_raw_eq. cbv zeta.
  destruct (N.eqb_spec (len s) 0); [intros Hq; inversion Hq; lia|].
  destruct (N.eqb_spec (byte_at s 0) 0); [intros Hq; inversion Hq; lia|].
  destruct (N.ltb_spec (len s) (utf8_class (byte_at s 0))) as [Hl|Hl].
  - unfold invalid. intros Hq. inversion Hq. destruct (scan_invalid_bounds s (len s)); try lia.
    assert (utf8_class (byte_at s 0) <= 4) by (unfold utf8_class; ltb_cases; lia). lia.
  - destruct (N.eqb_spec (utf8_class (byte_at s 0)) 0).
    + unfold utf8_default, invalid. cbv zeta.
      match goal with |- context [len s <? ?c] => set (c1 := c) end.
      assert (1 <= c1 <= 6) by (unfold c1; repeat match goal with |- context [if ?b then _ else _] => destruct b end; lia).
      match goal with |- context [scan_invalid s ?c] => set (c0 := c) end.
      assert (1 <= c0 <= 6) by (unfold c0; destruct (N.ltb_spec (len s) c1); lia).
      intros Hq. inversion Hq. destruct (scan_invalid_bounds s c0); lia.
    + intros Hq. apply utf8_body_bounds in Hq; [|apply utf8_class_range; assumption].
      assert (utf8_class (byte_at s 0) <= 4) by (unfold utf8_class; ltb_cases; lia). lia.
Qed.

Lemma utf8_to_unicode_ge : forall s n u, utf8_to_unicode s = (n, u) -> (-6 <= n)%Z.
Proof.
  intros s n u H. rewrite utf8_to_unicode_raw in H. destruct (utf8_raw s) as [c w] eqn:E.
  apply utf8_raw_ge in E. unfold surr_post in H. destruct (_ && _); inversion H; lia.
Qed.

(* the inner while loop: splits off a prefix of well-formed sequences *)
Lemma u8_span_spec : forall fuel s acc, (length s < fuel)%nat ->
  exists pre rest n uc, u8_span fuel s acc = (acc ++ pre, rest, n, uc) /\ s = pre ++ rest /\
    (-6 <= n <= 0)%Z /\ utf8_to_unicode rest = (n, uc) /\
    (bytes_ok s -> exists us, pre = enc8 us /\ Forall scalar_nz us).
Proof.
  induction fuel as [|f IH]; intros s acc Hf; [lia|]. cbn [u8_span].
  destruct (utf8_to_unicode s) as [n uc] eqn:E.
  pose proof (utf8_to_unicode_bounds _ _ _ E) as B. pose proof (utf8_to_unicode_ge _ _ _ E) as G.
  destruct (Z.ltb_spec 0 n).
  - destruct (N.ltb_spec (len s) (N.of_nat (Z.abs_nat n))); [lia|].
    destruct (IH (skipn (Z.abs_nat n) s) (acc ++ firstn (Z.abs_nat n) s)) as [pre [rest [n' [uc' [A1 [A2 [A3 [A4 A5]]]]]]]].
    { rewrite skipn_length. unfold len in *. lia. }
    exists (firstn (Z.abs_nat n) s ++ pre), rest, n', uc'. rewrite A1, <- app_assoc. split; [reflexivity|].
    split; [rewrite <- app_assoc, <- A2; symmetry; apply firstn_skipn|]. split; [assumption|]. split; [assumption|].
    intros Hb. destruct (A5 (bytes_ok_skipn _ _ Hb)) as [us [U1 U2]].
    destruct (utf8_to_unicode_strict _ _ _ Hb E ltac:(lia)) as [S1 [S2 [_ S4]]].
    exists (uc :: us). split; [|constructor; [split; assumption|assumption]].
    unfold enc8. cbn [map concat]. fold (enc8 us). rewrite <- U1, <- S4. f_equal. f_equal. lia.
  - exists [], s, n, uc. rewrite app_nil_r. repeat split; try assumption; try lia.
    intros _. exists []. split; [reflexivity|constructor].
Qed.

Lemma nul_free_app_r : forall a b, nul_free (a ++ b) -> nul_free b.
Proof. intros a b H Hx. apply H. apply in_or_app. right. assumption. Qed.

Lemma abs_nat_of_N : forall x, Z.abs_nat (Z.of_N x) = N.to_nat x.
Proof. intros. lia. Qed.

(* (e)(f) for every NUL-free input the loop ends within its fuel, never reads beyond the input and
   never writes beyond buffer_length *)
Lemma u8u8_loop_safe : forall fuel s a ret, (length s < fuel)%nat -> nul_free s -> status_ok ret ->
  forall st a', u8u8_loop fuel s a ret = (st, a') ->
  status_ok st /\ (len (a_buf a) + 1 <= a_cap a -> len (a_buf a') + 1 <= a_cap a') /\ exists w, a_buf a' = a_buf a ++ w.
Proof.
  induction fuel as [|f IH]; intros s a ret Hf Hn Hr st a'; [lia|]. cbn [u8u8_loop].
  destruct (u8_span_spec (S (length s)) s [] ltac:(lia)) as [pre [rest [n [uc [A1 [A2 [A3 [A4 _]]]]]]]].
  rewrite A1. cbn [app]. unfold ERR_OVERFLOW. destruct (Z.leb_spec n (-100)); [lia|].
  assert (Ha1 : exists a1, (match pre with [] => Some a | _ :: _ => astr_append a pre end) = Some a1 /\
                (len (a_buf a) + 1 <= a_cap a -> len (a_buf a1) + 1 <= a_cap a1) /\ a_buf a1 = a_buf a ++ pre).
  { destruct pre as [|p0 pre'].
    - exists a. rewrite app_nil_r. auto.
    - destruct (astr_append_some a (p0 :: pre')) as [c [X1 [X2 X3]]]. eexists. split; [exact X1|]. cbn [a_buf a_cap]. auto. }
  destruct Ha1 as [a1 [B1 [B2 B3]]]. rewrite B1.
  destruct (Z.eqb_spec n 0).
  { intros Hq. inversion Hq; subst. repeat split; try assumption. exists pre. assumption. }
  assert (Hnr : nul_free rest) by (rewrite A2 in Hn; eapply nul_free_app_r; eassumption).
  assert (Hrest : rest <> []).
  { intros ->. rewrite utf8_to_unicode_raw in A4. cbn in A4. inversion A4. lia. }
  set (r2 := if (n =? -3)%Z && is_surrogate uc then cesu8_to_unicode rest else (n, uc)).
  assert (Hr2 : fst r2 <> 0%Z /\ (Z.abs (fst r2) <= Z.of_N (len rest))%Z).
  { unfold r2. destruct ((n =? -3)%Z && is_surrogate uc).
    - destruct (cesu8_to_unicode rest) as [n2 u2] eqn:E2. cbn [fst]. split.
      + intros ->. destruct (cesu8_zero _ _ E2); [congruence|contradiction].
      + eapply cesu8_bounds. eassumption.
    - cbn [fst]. split; [assumption|]. eapply utf8_to_unicode_bounds. eassumption. }
  destruct r2 as [n2 u2]. cbn [fst] in Hr2. destruct Hr2 as [R1 R2].
  destruct (N.ltb_spec (len rest) (N.of_nat (Z.abs_nat n2))); [lia|].
  destruct (astr_append_some a1 (unicode_to_utf8 4 u2)) as [c2 [X1 [X2 X3]]]. rewrite X1.
  intros Hq. apply IH in Hq.
  - destruct Hq as [S1 [S2 [w S3]]]. cbn [a_buf a_cap] in *. split; [assumption|]. split.
    + intros _. apply S2. assumption.
    + exists (pre ++ unicode_to_utf8 4 u2 ++ w). rewrite S3, B3, <- !app_assoc. reflexivity.
  - rewrite skipn_length. rewrite A2, app_length in Hf. unfold len in *. lia.
  - intros Hx. apply Hnr. eapply in_skipn. eassumption.
  - destruct (n2 <? 0)%Z; [right; reflexivity|assumption].
Qed.

Theorem strncat_utf8_utf8_safe : forall a s st a', nul_free s ->
  strncat_utf8_utf8 a s = (st, a') ->
  status_ok st /\ len (a_buf a') + 1 <= a_cap a' /\ exists w, a_buf a' = a_buf a ++ w.
Proof.
  intros a s st a' Hn. unfold strncat_utf8_utf8. intros Hq.
  apply u8u8_loop_safe in Hq; try assumption; try lia; [|left; reflexivity].
  cbn [a_buf a_cap] in Hq. destruct Hq as [S1 [S2 S3]]. repeat split; try assumption.
  apply S2. destruct (ensure_ge (a_cap a) (len (a_buf a) + len s + 1)). lia.
Qed.

(* on well-formed input the inner loop copies everything *)
Lemma enc8_cons : forall u us, enc8 (u :: us) = unicode_to_utf8 4 u ++ enc8 us.
Proof. reflexivity. Qed.
Lemma enc8_app : forall a b, enc8 (a ++ b) = enc8 a ++ enc8 b.
Proof. intros. unfold enc8. rewrite map_app, concat_app. reflexivity. Qed.
Lemma enc16s_app : forall be a b, enc16s be (a ++ b) = enc16s be a ++ enc16s be b.
Proof. intros. unfold enc16s. rewrite map_app, concat_app. reflexivity. Qed.

Lemma firstn_app_len : forall (a b : list N), firstn (length a) (a ++ b) = a.
Proof. induction a; intros; cbn; [reflexivity|]. f_equal. auto. Qed.

Lemma u8_span_valid : forall us, Forall scalar_nz us -> forall fuel acc, (length (enc8 us) < fuel)%nat ->
  u8_span fuel (enc8 us) acc = (acc ++ enc8 us, [], 0%Z, 0).
Proof.
  induction us as [|u us IH]; intros Hd fuel acc Hf.
  - destruct fuel; [cbn in Hf; lia|]. cbn. rewrite app_nil_r. reflexivity.
  - inversion Hd as [|? ? [Hs Hz] Hdus]; subst. destruct fuel as [|f]; [lia|].
    rewrite enc8_cons in *. cbn [u8_span]. rewrite (utf8_rt_tail u (enc8 us) Hs Hz).
    pose proof (utf8_len_pos u) as L.
    destruct (Z.ltb_spec 0 (Z.of_N (len (unicode_to_utf8 4 u)))); [|lia].
    rewrite abs_nat_of_N. replace (N.to_nat (len (unicode_to_utf8 4 u))) with (length (unicode_to_utf8 4 u)) by (unfold len; lia).
    rewrite len_app. destruct (N.ltb_spec (len (unicode_to_utf8 4 u) + len (enc8 us)) (N.of_nat (length (unicode_to_utf8 4 u))));
      [unfold len in *; lia|].
    rewrite skipn_app_len, firstn_app_len, IH; try assumption.
    + rewrite <- app_assoc. reflexivity.
    + rewrite app_length in Hf. unfold len in L. lia.
Qed.

(* UTF-8 -> UTF-8: well-formed input is copied unchanged with status 0 *)
Theorem strncat_utf8_utf8_valid : forall a us, Forall scalar_nz us ->
  exists cap', strncat_utf8_utf8 a (enc8 us) = (0%Z, mkAstr cap' (a_buf a ++ enc8 us)).
Proof.
  intros a us Hus. unfold strncat_utf8_utf8. cbn [u8u8_loop].
  rewrite (u8_span_valid us Hus) by lia. cbn [app]. unfold ERR_OVERFLOW. cbn [Z.leb Z.compare Z.eqb].
  destruct (enc8 us) as [|b0 t] eqn:E.
  - eexists. rewrite app_nil_r. reflexivity.
  - match goal with |- context [astr_append ?x ?w] => destruct (astr_append_some x w) as [c [X1 _]] end.
    rewrite X1. cbn [a_buf]. eexists. reflexivity.
Qed.

Lemma u8u8_ret_neg : forall fuel s a st a', u8u8_loop fuel s a (-1)%Z = (st, a') -> st <> 0%Z.
Proof.
  induction fuel as [|f IH]; intros s a st a'; cbn [u8u8_loop].
  - intros Hq. inversion Hq. unfold ERR_FUEL. lia.
  - destruct (u8_span _ s []) as [[[pre rest] n] uc].
    destruct (Z.leb_spec n ERR_OVERFLOW); [intros Hq; inversion Hq; subst; unfold ERR_OVERFLOW in *; lia|].
    destruct (match pre with [] => Some a | _ :: _ => astr_append a pre end); [|intros Hq; inversion Hq; unfold ERR_OVERFLOW; lia].
    destruct (n =? 0)%Z; [intros Hq; inversion Hq; lia|].
    destruct (if (n =? -3)%Z && is_surrogate uc then cesu8_to_unicode rest else (n, uc)) as [n2 u2].
    destruct (_ <? _); [intros Hq; inversion Hq; unfold ERR_OVERREAD; lia|].
    destruct (astr_append _ _); [|intros Hq; inversion Hq; unfold ERR_OVERFLOW; lia].
    replace (if (n2 <? 0)%Z then (-1)%Z else (-1)%Z) with (-1)%Z by (destruct (n2 <? 0)%Z; reflexivity).
    apply IH.
Qed.

Lemma src8_forms_of_scalars : forall us, Forall scalar_nz us ->
  Forall2 src8_form (map (unicode_to_utf8 4) us) us.
Proof.
  induction us as [|u us IH]; intros H; [constructor|]. inversion H as [|? ? [A B] C]; subst.
  constructor; [split; [assumption|split; [assumption|left; reflexivity]]|auto].
Qed.

Lemma Forall2_app' : forall (R : list N -> N -> Prop) l1 l2 m1 m2,
  Forall2 R l1 m1 -> Forall2 R l2 m2 -> Forall2 R (l1 ++ l2) (m1 ++ m2).
Proof. intros. apply Forall2_app; assumption. Qed.

(* (d, consequence) UTF-8 -> UTF-8: status 0 means the input was well formed (with the documented
   CESU-8 leniency) and the output is the canonical UTF-8 of the same scalar values *)
Lemma u8u8_loop_status0 : forall fuel s a a', good8 s ->
  u8u8_loop fuel s a 0%Z = (0%Z, a') ->
  exists pieces us, s = concat pieces /\ Forall2 src8_form pieces us /\ a_buf a' = a_buf a ++ enc8 us.
Proof.
  induction fuel as [|f IH]; intros s a a' Hg; cbn [u8u8_loop]; [intros Hq; inversion Hq|].
  destruct Hg as [Hb Hn].
  destruct (u8_span_spec (S (length s)) s [] ltac:(lia)) as [pre [rest [n [uc [A1 [A2 [A3 [A4 A5]]]]]]]].
  rewrite A1. cbn [app]. unfold ERR_OVERFLOW. destruct (Z.leb_spec n (-100)); [lia|].
  destruct (A5 Hb) as [us0 [U1 U2]].
  assert (Ha1 : exists a1, (match pre with [] => Some a | _ :: _ => astr_append a pre end) = Some a1 /\ a_buf a1 = a_buf a ++ pre).
  { destruct pre as [|p0 pre'].
    - exists a. rewrite app_nil_r. auto.
    - destruct (astr_append_some a (p0 :: pre')) as [c [X1 _]]. eexists. split; [exact X1|]. reflexivity. }
  destruct Ha1 as [a1 [B1 B3]]. rewrite B1.
  assert (Hgr : good8 rest).
  { split.
    - rewrite A2 in Hb. unfold bytes_ok in *. apply Forall_app in Hb. tauto.
    - rewrite A2 in Hn. eapply nul_free_app_r. eassumption. }
  destruct (Z.eqb_spec n 0).
  { intros Hq. inversion Hq; subst a1. subst n.
    assert (rest = []).
    { destruct Hgr as [_ Gn]. rewrite utf8_to_unicode_raw in A4. destruct (utf8_raw rest) as [c w] eqn:E.
      unfold surr_post in A4. destruct ((c =? 3)%Z && is_surrogate w); inversion A4; subst.
      destruct (proj1 (utf8_raw_zero _ _ _ E) eq_refl) as [|Hz]; [assumption|].
      destruct rest as [|r0 rest']; [reflexivity|]. exfalso. apply Gn. rewrite <- Hz. left. reflexivity. }
    subst rest. exists (map (unicode_to_utf8 4) us0), us0. rewrite app_nil_r in A2. repeat split.
    - rewrite A2, U1. reflexivity.
    - apply src8_forms_of_scalars. assumption.
    - rewrite B3, U1. reflexivity. }
  destruct (if (n =? -3)%Z && is_surrogate uc then cesu8_to_unicode rest else (n, uc)) as [n2 u2] eqn:E2.
  destruct (_ <? _); [intros Hq; inversion Hq|].
  destruct (astr_append_some a1 (unicode_to_utf8 4 u2)) as [c2 [X1 _]]. rewrite X1.
  destruct (Z.ltb_spec n2 0).
  { intros Hq. apply u8u8_ret_neg in Hq. congruence. }
  assert (Hc : cesu8_to_unicode rest = (n2, u2) /\ (0 < n2)%Z).
  { destruct ((n =? -3)%Z && is_surrogate uc).
    - split; [assumption|]. assert (n2 <> 0%Z); [|lia]. intros ->. destruct Hgr as [_ Gn].
      destruct (cesu8_zero _ _ E2) as [->|]; [|contradiction].
      rewrite utf8_to_unicode_raw in A4. cbn in A4. inversion A4. lia.
    - inversion E2; subst. lia. }
  destruct Hc as [Hc Hpos]. destruct Hgr as [Gb Gn].
  pose proof (cesu8_strict _ _ _ Gb Hc Hpos) as F.
  intros Hq. apply IH in Hq; [|apply good8_skipn; split; assumption].
  destruct Hq as [pieces [us [P1 [P2 P3]]]]. cbn [a_buf] in P3.
  exists (map (unicode_to_utf8 4) us0 ++ firstn (Z.abs_nat n2) rest :: pieces), (us0 ++ u2 :: us). repeat split.
  - rewrite concat_app. cbn [concat]. rewrite <- P1, firstn_skipn. rewrite A2, U1. reflexivity.
  - apply Forall2_app'; [apply src8_forms_of_scalars; assumption|]. constructor; [|assumption].
    replace (Z.abs_nat n2) with (Z.to_nat n2) by lia. assumption.
  - rewrite P3, B3, U1, enc8_app, enc8_cons, <- !app_assoc. reflexivity.
Qed.

Theorem status0_8_to_8 : forall a s a', bytes_ok s -> nul_free s ->
  strncat_utf8_utf8 a s = (0%Z, a') ->
  exists pieces us, s = concat pieces /\ Forall2 src8_form pieces us /\ a_buf a' = a_buf a ++ enc8 us.
Proof.
  intros a s a' Hb Hn. unfold strncat_utf8_utf8. intros Hq.
  apply u8u8_loop_status0 in Hq; [|split; assumption]. exact Hq.
Qed.

(* the loop of strncat_from_utf8_to_utf8 makes no progress when cesu8_to_unicode returns 0 on a
   high surrogate followed by NUL: ED A0 80 00 41 41 (never passed by archive_strncat_l) *)
Definition nul_witness : list N := [237; 160; 128; 0; 65; 65].
Lemma u8u8_no_progress : forall fuel a ret, fst (u8u8_loop fuel nul_witness a ret) = ERR_FUEL.
Proof.
  induction fuel as [|f IH]; intros a ret; [reflexivity|]. cbn [u8u8_loop].
  replace (u8_span (S (length nul_witness)) nul_witness []) with (@nil N, nul_witness, (-3)%Z, 55296) by (vm_compute; reflexivity).
  replace ((-3 <=? ERR_OVERFLOW)%Z) with false by reflexivity.
  replace ((-3 =? 0)%Z) with false by reflexivity.
  replace (((-3 =? -3)%Z && is_surrogate 55296)) with true by reflexivity.
  replace (cesu8_to_unicode nul_witness) with (0%Z, 65533) by (vm_compute; reflexivity).
  replace ((0 <? 0)%Z) with false by reflexivity.
  replace (len nul_witness <? N.of_nat (Z.abs_nat 0)) with false by reflexivity.
  change (skipn (Z.abs_nat 0) nul_witness) with nul_witness.
  destruct (astr_append_some a (unicode_to_utf8 4 65533)) as [c [X1 _]]. rewrite X1. apply IH.
Qed.

(* ------------------------------------------------------------------ the encoders produce the
   encodings of the Unicode Standard (written with div/mod in UtfBase.utf8_spec / utf16_spec) *)
Lemma land_mod : forall x k, N.land x (N.ones k) = x mod 2 ^ k.
Proof. intros. apply N.land_ones. Qed.
Lemma shiftr_div : forall x k, N.shiftr x k = x / 2 ^ k.
Proof. intros. apply N.shiftr_div_pow2. Qed.

Lemma lor_small : forall y,
  (y < 64 -> N.lor 128 y = 128 + y) /\ (y < 32 -> N.lor 192 y = 192 + y) /\
  (y < 16 -> N.lor 224 y = 224 + y) /\ (y < 8 -> N.lor 240 y = 240 + y).
Proof.
  intros y. destruct (N.lt_ge_cases y 64) as [H|H]; [|repeat split; intros; lia].
  pose proof (forall_below_spec 64 (fun y => (N.lor 128 y =? 128 + y) && ((32 <=? y) || (N.lor 192 y =? 192 + y)) &&
     ((16 <=? y) || (N.lor 224 y =? 224 + y)) && ((8 <=? y) || (N.lor 240 y =? 240 + y))) eq_refl y H) as A.
  cbv beta in A. bool_hyps. repeat split; intros; try assumption;
    match goal with X : (_ <=? y) || _ = true |- _ => apply orb_prop in X; destruct X; bool_hyps; [lia|assumption] end.
Qed.

Theorem utf8_enc_spec : forall u, u <= 1114111 -> unicode_to_utf8 4 u = utf8_spec u.
Proof.
  intros u Hu. unfold unicode_to_utf8, utf8_spec. cbv zeta.
  destruct (N.ltb_spec UNICODE_MAX u); [unfold UNICODE_MAX in *; lia|].
  change (4 =? 0) with false. change (4 <? 2) with false. change (4 <? 3) with false. change (4 <? 4) with false. cbv iota.
  change 63 with (N.ones 6). change 31 with (N.ones 5). change 15 with (N.ones 4). change 7 with (N.ones 3).
  rewrite !land_mod, !shiftr_div.
  change (2 ^ 6) with 64. change (2 ^ 5) with 32. change (2 ^ 4) with 16. change (2 ^ 3) with 8.
  change (2 ^ 12) with 4096. change (2 ^ 18) with 262144.
  assert (M64 : forall x, x mod 64 < 64) by (intros; apply N.mod_lt; lia).
  destruct (N.leb_spec u 127); [destruct (N.ltb_spec u 128); [reflexivity|lia]|].
  destruct (N.ltb_spec u 128); [lia|].
  destruct (N.leb_spec u 2047).
  { destruct (N.ltb_spec u 2048); [|lia].
    assert (u / 64 < 32) by (apply N.div_lt_upper_bound; lia).
    rewrite (N.mod_small (u / 64) 32) by assumption.
    rewrite (proj1 (proj2 (lor_small (u / 64)))) by assumption.
    rewrite (proj1 (lor_small (u mod 64))) by apply M64. reflexivity. }
  destruct (N.ltb_spec u 2048); [lia|].
  destruct (N.leb_spec u 65535).
  { destruct (N.ltb_spec u 65536); [|lia].
    assert (u / 4096 < 16) by (apply N.div_lt_upper_bound; lia).
    rewrite (N.mod_small (u / 4096) 16) by assumption.
    rewrite (proj1 (proj2 (proj2 (lor_small (u / 4096))))) by assumption.
    rewrite !(proj1 (lor_small (_ mod 64))) by apply M64. reflexivity. }
  destruct (N.ltb_spec u 65536); [lia|].
  assert (u / 262144 < 8) by (apply N.div_lt_upper_bound; lia).
  rewrite (N.mod_small (u / 262144) 8) by assumption.
  rewrite (proj2 (proj2 (proj2 (lor_small (u / 262144))))) by assumption.
  rewrite !(proj1 (lor_small (_ mod 64))) by apply M64. reflexivity.
Qed.

Lemma enc16_unit16 : forall be v, v < 65536 -> enc16 be v = unit16 be v.
Proof.
  intros be v Hv. unfold enc16, unit16. cbv zeta. change 255 with (N.ones 8).
  rewrite !land_mod, shiftr_div. change (2 ^ 8) with 256.
  assert (v / 256 < 256) by (apply N.div_lt_upper_bound; lia).
  rewrite (N.mod_small (v / 256) 256) by assumption. reflexivity.
Qed.

Theorem utf16_enc_spec : forall be u, u <= 1114111 -> unicode_to_utf16 be 4 u = utf16_spec be u.
Proof.
  intros be u Hu. unfold unicode_to_utf16, utf16_spec.
  change (4 <? 4) with false. change (4 <? 2) with false. cbv iota zeta.
  destruct (N.ltb_spec 65535 u); destruct (N.ltb_spec u 65536); try lia.
  - change 1023 with (N.ones 10). rewrite !land_mod, shiftr_div. change (2 ^ 10) with 1024.
    assert ((u - 65536) / 1024 < 1024) by (apply N.div_lt_upper_bound; lia).
    assert ((u - 65536) mod 1024 < 1024) by (apply N.mod_lt; lia).
    rewrite (N.mod_small ((u - 65536) / 1024) 1024) by assumption.
    rewrite !enc16_unit16 by lia. rewrite (N.add_comm _ 55296), (N.add_comm _ 56320). reflexivity.
  - apply enc16_unit16. assumption.
Qed.

(* the CESU-8 leniency: a surrogate pair written as two 3-byte sequences is not valid UTF-8, yet it
   is converted with status 0 (to the canonical form of the supplementary character) *)
Definition cesu_witness : list N := [237; 160; 128; 237; 176; 128].
Lemma cesu_witness_facts :
  utf8_to_unicode cesu_witness = ((-3)%Z, 55296) /\
  strncat_utf8_utf8 (mkAstr 0 []) cesu_witness = (0%Z, mkAstr 32 [240; 144; 128; 128]) /\
  append_unicode (flag_8_to_16 true) (mkAstr 0 []) cesu_witness = (0%Z, mkAstr 32 [216; 0; 220; 0]).
Proof. vm_compute. repeat split; reflexivity. Qed.

(* ------------------------------------------------------------------ archive_strncpy_l level *)
Lemma mbs_prefix_nul_free : forall s, nul_free (mbs_prefix s).
Proof.
  unfold nul_free. induction s as [|b t IH]; cbn; [tauto|].
  destruct (N.eqb_spec b 0); cbn; [tauto|]. intros [H|H]; [congruence|tauto].
Qed.

(* whatever bytes archive_strncpy_l is given, the modelled conversion ends with status 0 or -1:
   never out of fuel (termination), never beyond the input, never beyond buffer_length *)
Theorem strncpy_l_safe : forall fc cs s st a', strncpy_l fc cs s = (st, a') -> status_ok st.
Proof.
  intros fc cs s st a'. unfold strncpy_l. cbv zeta.
  set (flag := sconv_flag fc cs).
  set (s' := if has_flag flag (N.lor SCONV_FROM_UTF16BE SCONV_FROM_UTF16LE) then utf16_prefix s else mbs_prefix s).
  destruct s' as [|b0 t] eqn:Es; [intros Hq; inversion Hq; left; reflexivity|].
  destruct (has_flag flag (N.lor SCONV_TO_UTF16BE SCONV_TO_UTF16LE)) eqn:E1.
  { intros Hq. apply append_unicode_safe in Hq. tauto. }
  destruct fc.
  { intros Hq. apply append_unicode_safe in Hq. tauto. }
  intros Hq. apply strncat_utf8_utf8_safe in Hq; [tauto|].
  assert (Hf : has_flag flag (N.lor SCONV_FROM_UTF16BE SCONV_FROM_UTF16LE) = false).
  { unfold flag, sconv_flag. destruct (cs =? 1); [reflexivity|]. destruct (cs =? 2); reflexivity. }
  unfold s' in Es. rewrite Hf in Es. rewrite <- Es. apply mbs_prefix_nul_free.
Qed.

Corollary utf8_scalar_rt : forall u, is_scalar u = true -> u <> 0 ->
  utf8_to_unicode (unicode_to_utf8 4 u) = (Z.of_N (len (unicode_to_utf8 4 u)), u).
Proof. intros u A B. rewrite <- (app_nil_r (unicode_to_utf8 4 u)) at 1. apply utf8_rt_tail; assumption. Qed.
Corollary utf16_scalar_rt : forall be u, is_scalar u = true ->
  utf16_to_unicode be (unicode_to_utf16 be 4 u) = (Z.of_N (len (unicode_to_utf16 be 4 u)), u).
Proof. intros be u A. rewrite <- (app_nil_r (unicode_to_utf16 be 4 u)) at 1. apply utf16_rt_tail; assumption. Qed.

(* (e) per call: a non-zero count consumes between 1 and len bytes *)
Theorem decoders_progress :
  parse_ok utf8_raw /\ parse_ok utf8_to_unicode /\ parse_ok cesu8_to_unicode /\
  parse_ok (utf16_to_unicode true) /\ parse_ok (utf16_to_unicode false).
Proof. repeat split; auto using utf8_raw_bounds, utf8_to_unicode_bounds, cesu8_bounds, utf16_bounds. Qed.
