(* C18 - model of the hand-written UTF-8 / UTF-16 coders of libarchive/archive_string.c.
   Executable definitions only.  Bytes are [N] (< 256), code points are [N] (uint32_t), counts
   returned by the decoders are [Z] (C int: negative = "replaced by U+FFFD", 0 = end of string).
   Every function is a transcription of the C function named in its comment: same tests in the same
   order, same constants.  Assumption of the whole file: buffer lengths are < 2^31 (the C code
   casts size_t to int in `(int)n < cnt`) and no size_t computation wraps. *)
From Coq Require Import List ZArith NArith Bool.
From LA Require Import Gen.UtfTable.
Import ListNotations.
Local Open Scope N_scope.

Definition byte_at (s : list N) (i : nat) : N := nth i s 0.
Definition len (s : list N) : N := N.of_nat (length s).

(* static const char utf8_count[256]; an index >= 256 cannot occur for a byte *)
Definition utf8_count (ch : N) : N := nth (N.to_nat ch) utf8_count_table 0.

Definition is_high_surrogate (uc : N) : bool := (HIGH_SURROGATE_LO <=? uc) && (uc <=? HIGH_SURROGATE_HI).
Definition is_low_surrogate (uc : N) : bool := (LOW_SURROGATE_LO <=? uc) && (uc <=? LOW_SURROGATE_HI).
Definition is_surrogate (uc : N) : bool := (SURROGATE_LO <=? uc) && (uc <=? SURROGATE_HI).

(* (s[i] & 0xc0) == 0x80 *)
Definition is_cont (b : N) : bool := N.land b 192 =? 128.

(* for (i = 1; i < cnt; i++) if ((s[i] & 0xc0) != 0x80) { cnt = i; break; }
   [cont_run l k] = number of leading continuation bytes among the first k bytes of l *)
Fixpoint cont_run (l : list N) (k : nat) : nat :=
  match k with
  | O => O
  | S k' => match l with
            | b :: t => if is_cont b then S (cont_run t k') else O
            | [] => O
            end
  end.
(* cnt is already limited to n by the caller, so the scan never leaves the buffer *)
Definition scan_invalid (s : list N) (cnt : N) : N :=
  1 + N.of_nat (cont_run (tl s) (N.to_nat (cnt - 1))).

(* invalid_sequence: *pwc = UNICODE_R_CHAR; return (cnt * -1); *)
Definition invalid (cnt : N) : Z * N := ((- Z.of_N cnt)%Z, UNICODE_R_CHAR).

(* if (wc > UNICODE_MAX) goto invalid_sequence; *pwc = wc; return (cnt); *)
Definition check_max (cnt wc : N) : Z * N :=
  if UNICODE_MAX <? wc then invalid cnt else (Z.of_N cnt, wc).

(* _utf8_to_unicode(&wc, s, n) with n = length s.  When the C function returns 0 it leaves *pwc
   untouched; every caller either ignores it then or has initialised it to 0 (cesu8_to_unicode),
   and the harness initialises it to 0: the model returns 0. *)
Definition utf8_raw (s : list N) : Z * N :=
  let n := len s in
  if n =? 0 then (0%Z, 0) else
  let ch := byte_at s 0 in
  if ch =? 0 then (0%Z, 0) else
  let cnt := utf8_count ch in
  if n <? cnt then invalid (scan_invalid s n) else
  if cnt =? 1 then (1%Z, N.land ch 127) else
  if cnt =? 2 then
    if negb (is_cont (byte_at s 1)) then invalid 1 else
    (2%Z, N.lor (N.shiftl (N.land ch 31) 6) (N.land (byte_at s 1) 63)) else
  if cnt =? 3 then
    if negb (is_cont (byte_at s 1)) then invalid 1 else
    if negb (is_cont (byte_at s 2)) then invalid 2 else
    let wc := N.lor (N.lor (N.shiftl (N.land ch 15) 12) (N.shiftl (N.land (byte_at s 1) 63) 6))
                    (N.land (byte_at s 2) 63) in
    if wc <? 2048 then invalid 3 else check_max 3 wc else
  if cnt =? 4 then
    if negb (is_cont (byte_at s 1)) then invalid 1 else
    if negb (is_cont (byte_at s 2)) then invalid 2 else
    if negb (is_cont (byte_at s 3)) then invalid 3 else
    let wc := N.lor (N.lor (N.lor (N.shiftl (N.land ch 7) 18) (N.shiftl (N.land (byte_at s 1) 63) 12))
                           (N.shiftl (N.land (byte_at s 2) 63) 6))
                    (N.land (byte_at s 3) 63) in
    if wc <? 65536 then invalid 4 else check_max 4 wc
  else
    let c := if (ch =? 192) || (ch =? 193) then 2
             else if (245 <=? ch) && (ch <=? 247) then 4
             else if (248 <=? ch) && (ch <=? 251) then 5
             else if (ch =? 252) || (ch =? 253) then 6
             else 1 in
    let c := if n <? c then n else c in
    invalid (scan_invalid s c).

(* utf8_to_unicode: a 3-byte surrogate is refused with -3 and *pwc keeps the surrogate value *)
Definition utf8_to_unicode (s : list N) : Z * N :=
  let '(cnt, wc) := utf8_raw s in
  if (cnt =? 3)%Z && is_surrogate wc then ((-3)%Z, wc) else (cnt, wc).

(* combine_surrogate_pair (called only with uc in D800..DBFF and uc2 in DC00..DFFF: no wrap) *)
Definition combine_surrogate_pair (uc uc2 : N) : N :=
  (uc - 55296) * 1024 + (uc2 - 56320) + 65536.

(* cesu8_to_unicode *)
Definition cesu8_to_unicode (s : list N) : Z * N :=
  let n := len s in
  let '(cnt, wc) := utf8_raw s in
  if (cnt =? 3)%Z && is_high_surrogate wc then
    if n - 3 <? 3 then ((-3)%Z, UNICODE_R_CHAR) else
    let '(cnt2, wc2) := utf8_raw (skipn 3 s) in
    if negb (cnt2 =? 3)%Z || negb (is_low_surrogate wc2)
    then ((if (0 <? cnt2)%Z then - cnt2 else cnt2)%Z, UNICODE_R_CHAR)
    else (6%Z, combine_surrogate_pair wc wc2)
  else if (cnt =? 3)%Z && is_low_surrogate wc then ((-3)%Z, UNICODE_R_CHAR)
  else (cnt, wc).

(* unicode_to_utf8(p, remaining, uc): the bytes written; [] stands for "return 0" (no room) *)
Definition unicode_to_utf8 (remaining uc : N) : list N :=
  let uc := if UNICODE_MAX <? uc then UNICODE_R_CHAR else uc in
  if uc <=? 127 then
    if remaining =? 0 then [] else [uc]
  else if uc <=? 2047 then
    if remaining <? 2 then [] else
    [N.lor 192 (N.land (N.shiftr uc 6) 31); N.lor 128 (N.land uc 63)]
  else if uc <=? 65535 then
    if remaining <? 3 then [] else
    [N.lor 224 (N.land (N.shiftr uc 12) 15); N.lor 128 (N.land (N.shiftr uc 6) 63); N.lor 128 (N.land uc 63)]
  else
    if remaining <? 4 then [] else
    [N.lor 240 (N.land (N.shiftr uc 18) 7); N.lor 128 (N.land (N.shiftr uc 12) 63);
     N.lor 128 (N.land (N.shiftr uc 6) 63); N.lor 128 (N.land uc 63)].

(* archive_be16dec / archive_le16dec / archive_be16enc / archive_le16enc *)
Definition dec16 (be : bool) (b0 b1 : N) : N := if be then b0 * 256 + b1 else b1 * 256 + b0.
Definition enc16 (be : bool) (v : N) : list N :=
  let hi := N.land (N.shiftr v 8) 255 in
  let lo := N.land v 255 in
  if be then [hi; lo] else [lo; hi].

(* utf16_to_unicode(pwc, s, n, be) *)
Definition utf16_to_unicode (be : bool) (s : list N) : Z * N :=
  let n := len s in
  if n =? 0 then (0%Z, 0) else
  if n =? 1 then ((-1)%Z, UNICODE_R_CHAR) else
  let uc := dec16 be (byte_at s 0) (byte_at s 1) in
  if is_high_surrogate uc then
    let uc2 := if 4 <=? n then dec16 be (byte_at s 2) (byte_at s 3) else 0 in
    if is_low_surrogate uc2 then
      let uc := combine_surrogate_pair uc uc2 in
      if is_surrogate uc || (UNICODE_MAX <? uc) then ((-4)%Z, UNICODE_R_CHAR) else (4%Z, uc)
    else ((-2)%Z, UNICODE_R_CHAR)
  else
    if is_surrogate uc || (UNICODE_MAX <? uc) then ((-2)%Z, UNICODE_R_CHAR) else (2%Z, uc).

(* unicode_to_utf16be / unicode_to_utf16le; uc is a uint32_t, `uc -= 0x10000` cannot wrap in the
   branch uc > 0xffff; the (uint16_t) cast is the [mod 65536] inside enc16's masks *)
Definition unicode_to_utf16 (be : bool) (remaining uc : N) : list N :=
  if 65535 <? uc then
    if remaining <? 4 then [] else
    let uc := uc - 65536 in
    enc16 be (N.land (N.shiftr uc 10) 1023 + 55296) ++ enc16 be (N.land uc 1023 + 56320)
  else
    if remaining <? 2 then [] else enc16 be uc.

(* ------------------------------------------------------------------------------------------
   archive_string: { s, length, buffer_length }.  [a_cap] = buffer_length (0 <-> s == NULL),
   [a_buf] = the bytes s[0 .. length).  Allocation failure is not modelled. *)
Record astr := mkAstr { a_cap : N; a_buf : list N }.

(* archive_string_ensure(as, s): the new buffer_length *)
Definition ensure (cap req : N) : N :=
  if negb (cap =? 0) && (req <=? cap) then cap else
  let new_length := if cap <? 32 then 32
                    else if cap <? 8192 then cap + cap
                    else cap + cap / 4 in
  if new_length <? req then req else new_length.

(* error values of the modelled loops (never produced by the C code as a status) *)
Definition ERR_OVERFLOW : Z := (-100)%Z.   (* a write would end beyond buffer_length *)
Definition ERR_FUEL : Z := (-101)%Z.       (* loop did not finish within its fuel *)
Definition ERR_OVERREAD : Z := (-102)%Z.   (* a decoder claimed more bytes than are left *)

(* endp - p as a size_t: (buffer_length - ts) - pos; a negative difference wraps (sizes < 2^64) *)
Definition room (cap ts pos : N) : N :=
  if pos + ts <=? cap then cap - ts - pos else 18446744073709551616 - (pos + ts - cap).

(* while ((w = unparse(p, endp - p, uc)) == 0) { as->length = p - as->s;
       ensure(as, as->buffer_length + len * tm + ts); p = ...; endp = ...; }
   returns the new capacity and the bytes the successful call writes *)
Fixpoint unparse_retry (fuel : nat) (unparse : N -> N -> list N) (ts tm : N) (rest_len : N)
    (cap pos uc : N) : option (N * list N) :=
  match fuel with
  | O => None
  | S f =>
    match unparse (room cap ts pos) uc with
    | [] => unparse_retry f unparse ts tm rest_len (ensure cap (cap + rest_len * tm + ts)) pos uc
    | w => Some (cap, w)
    end
  end.

(* the main loop of archive_string_append_unicode.  [out] = as->s[0 .. p - as->s). *)
Fixpoint au_loop (fuel : nat) (parse : list N -> Z * N) (unparse : N -> N -> list N) (ts tm : N)
    (s : list N) (cap : N) (out : list N) (ret : Z) : Z * astr :=
  match fuel with
  | O => (ERR_FUEL, mkAstr cap out)
  | S f =>
    let '(n, uc) := parse s in
    if (n =? 0)%Z then
      (* as->length = p - as->s; as->s[as->length] = 0; if (ts == 2) as->s[as->length+1] = 0; *)
      if len out + ts <=? cap then (ret, mkAstr cap out) else (ERR_OVERFLOW, mkAstr cap out)
    else
      let ret := if (n <? 0)%Z then (-1)%Z else ret in
      let k := Z.abs_nat n in
      if len s <? N.of_nat k then (ERR_OVERREAD, mkAstr cap out) else
      let s := skipn k s in
      match unparse_retry 6 unparse ts tm (len s) cap (len out) uc with
      | None => (ERR_FUEL, mkAstr cap out)
      | Some (cap, w) =>
        if len out + len w <=? cap then au_loop f parse unparse ts tm s cap (out ++ w) ret
        else (ERR_OVERFLOW, mkAstr cap out)
      end
  end.

Definition has_flag (flag bit : N) : bool := negb (N.land flag bit =? 0).

(* archive_string_append_unicode(as, _p, len, sc): selection of parse/unparse/ts/tm from sc->flag *)
Definition au_unparser (flag : N) : (N -> N -> list N) * N :=
  if has_flag flag SCONV_TO_UTF16BE then (unicode_to_utf16 true, 2)
  else if has_flag flag SCONV_TO_UTF16LE then (unicode_to_utf16 false, 2)
  else if has_flag flag SCONV_TO_UTF8 then (unicode_to_utf8, 1)
  else if has_flag flag SCONV_FROM_UTF16BE then (unicode_to_utf16 true, 2)
  else if has_flag flag SCONV_FROM_UTF16LE then (unicode_to_utf16 false, 2)
  else (unicode_to_utf8, 1).

Definition au_parser (flag ts : N) : (list N -> Z * N) * N :=
  if has_flag flag SCONV_FROM_UTF16BE then (utf16_to_unicode true, 1)
  else if has_flag flag SCONV_FROM_UTF16LE then (utf16_to_unicode false, 1)
  else (cesu8_to_unicode, ts).

Definition append_unicode (flag : N) (a : astr) (s : list N) : Z * astr :=
  let '(unparse, ts) := au_unparser flag in
  let '(parse, tm) := au_parser flag ts in
  let cap := ensure (a_cap a) (len (a_buf a) + len s * tm + ts) in
  au_loop (S (length s)) parse unparse ts tm s cap (a_buf a) 0%Z.

(* archive_string_append(as, p, s): ensure(length + s + 1); memmove; as->s[length] = 0.
   None = the copy or the terminator would land beyond buffer_length *)
Definition astr_append (a : astr) (w : list N) : option astr :=
  let cap := ensure (a_cap a) (len (a_buf a) + len w + 1) in
  if len (a_buf a) + len w + 1 <=? cap then Some (mkAstr cap (a_buf a ++ w)) else None.

(* while ((n = utf8_to_unicode(&uc, e, len)) > 0) { e += n; len -= n; }
   returns (bytes src..e, bytes from e on, last n, last uc) *)
Fixpoint u8_span (fuel : nat) (s : list N) (acc : list N) : list N * list N * Z * N :=
  match fuel with
  | O => (acc, s, ERR_FUEL, 0)
  | S f =>
    let '(n, uc) := utf8_to_unicode s in
    if (0 <? n)%Z then
      let k := Z.abs_nat n in
      if len s <? N.of_nat k then (acc, s, ERR_OVERREAD, 0)
      else u8_span f (skipn k s) (acc ++ firstn k s)
    else (acc, s, n, uc)
  end.

(* the for(;;) loop of strncat_from_utf8_to_utf8 *)
Fixpoint u8u8_loop (fuel : nat) (s : list N) (a : astr) (ret : Z) : Z * astr :=
  match fuel with
  | O => (ERR_FUEL, a)
  | S f =>
    let '(pre, rest, n, uc) := u8_span (S (length s)) s [] in
    if (n <=? ERR_OVERFLOW)%Z then (n, a) else
    match (match pre with [] => Some a | _ => astr_append a pre end) with
    | None => (ERR_OVERFLOW, a)
    | Some a =>
      if (n =? 0)%Z then (ret, a) else
      let '(n, uc) := if (n =? -3)%Z && is_surrogate uc then cesu8_to_unicode rest else (n, uc) in
      let ret := if (n <? 0)%Z then (-1)%Z else ret in
      let k := Z.abs_nat n in
      if len rest <? N.of_nat k then (ERR_OVERREAD, a) else
      let rest := skipn k rest in
      (* char t[4]; w = unicode_to_utf8(t, sizeof(t), uc); archive_string_append(as, t, w) *)
      match astr_append a (unicode_to_utf8 4 uc) with
      | None => (ERR_OVERFLOW, a)
      | Some a => u8u8_loop f rest a ret
      end
    end
  end.

Definition strncat_utf8_utf8 (a : astr) (s : list N) : Z * astr :=
  (* Pre-extend the destination *)
  let a := mkAstr (ensure (a_cap a) (len (a_buf a) + len s + 1)) (a_buf a) in
  u8u8_loop (S (length s)) s a 0%Z.

(* ------------------------------------------------------------------------------------------
   archive_strncat_l on a conversion object made by archive_string_conversion_to_charset /
   _from_charset in a UTF-8 locale, for the charsets UTF-8, UTF-16BE, UTF-16LE. *)

(* mbsnbytes / utf16nbytes: the part of the input that is handed to the converter *)
Fixpoint mbs_prefix (s : list N) : list N :=
  match s with
  | [] => []
  | b :: t => if b =? 0 then [] else b :: mbs_prefix t
  end.
Fixpoint utf16_prefix (s : list N) : list N :=
  match s with
  | b0 :: b1 :: t => if (b0 =? 0) && (b1 =? 0) then [] else b0 :: b1 :: utf16_prefix t
  | _ => []
  end.

(* flag of the object for to_charset(cs) / from_charset(cs) when the locale charset is UTF-8;
   cs: 0 = UTF-8, 1 = UTF-16BE, 2 = UTF-16LE *)
Definition sconv_flag (from_charset : bool) (cs : N) : N :=
  let csflag (to : bool) := if cs =? 1 then (if to then SCONV_TO_UTF16BE else SCONV_FROM_UTF16BE)
                            else if cs =? 2 then (if to then SCONV_TO_UTF16LE else SCONV_FROM_UTF16LE)
                            else (if to then SCONV_TO_UTF8 else SCONV_FROM_UTF8) in
  if from_charset then N.lor (N.lor (csflag false) SCONV_TO_UTF8) SCONV_NORMALIZATION_C
  else N.lor (csflag true) SCONV_FROM_UTF8.

(* archive_strncpy_l(&as, p, n, sc) on an empty archive_string.  The converter installed by
   setup_converter is archive_string_append_unicode (to UTF-16), strncat_from_utf8_to_utf8 (to
   UTF-8), archive_string_normalize_C (from_charset: NOT modelled - this model answers with the
   non-normalising loop, which agrees with it only on NFC-inert input). *)
Definition strncpy_l (from_charset : bool) (cs : N) (s : list N) : Z * astr :=
  let flag := sconv_flag from_charset cs in
  let s := if has_flag flag (N.lor SCONV_FROM_UTF16BE SCONV_FROM_UTF16LE) then utf16_prefix s else mbs_prefix s in
  let a := mkAstr 0 [] in
  match s with
  | [] => (0%Z, mkAstr (ensure 0 (if has_flag flag (N.lor SCONV_TO_UTF16BE SCONV_TO_UTF16LE) then 2 else 1)) [])
  | _ =>
    if has_flag flag (N.lor SCONV_TO_UTF16BE SCONV_TO_UTF16LE) then append_unicode flag a s
    else if from_charset then append_unicode flag a s
    else strncat_utf8_utf8 a s
  end.
