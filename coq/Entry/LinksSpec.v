(* Refinement of the bucketed resolver table to a per-key counter specification (tar / mtree
   strategies): the i-th output is a function of the history of entries with the same (dev, ino). *)
From Coq Require Import List ZArith NArith Bool Lia Permutation.
From LA Require Import Base.Val Gen.Defines Entry.LinksDefs Entry.LinksProofs.
Import ListNotations.
Local Open Scope N_scope.

(* ---------------- keyed view of the table ---------------- *)
Definition kmatch (x : le) (d i : N) : bool := (edev (canon x) =? d) && (eino (canon x) =? i).

Fixpoint alookup (l : list le) (d i : N) : option le :=
  match l with
  | [] => None
  | x :: tl => if kmatch x d i then Some x else alookup tl d i
  end.

Definition les (t : table) : list le := concat (buckets t).

Lemma alookup_app l1 l2 d i :
  alookup (l1 ++ l2) d i = match alookup l1 d i with Some x => Some x | None => alookup l2 d i end.
Proof. induction l1 as [|x tl IH]; simpl; auto. destruct (kmatch x d i); auto. Qed.

Lemma alookup_none_iff l d i : alookup l d i = None <-> Forall (fun x => kmatch x d i = false) l.
Proof.
  induction l as [|x tl IH]; simpl; split; intros H; auto.
  - destruct (kmatch x d i) eqn:E; [discriminate|]. constructor; auto. apply IH; auto.
  - inversion H; subst. rewrite H2. apply IH; auto.
Qed.

Lemma alookup_some l d i x : alookup l d i = Some x -> In x l /\ kmatch x d i = true.
Proof.
  induction l as [|y tl IH]; simpl; intros H; [discriminate|].
  destruct (kmatch y d i) eqn:E.
  - inversion H; subst; auto.
  - destruct (IH H); auto.
Qed.

(* at most one entry per key *)
Fixpoint nodupk (l : list le) : Prop :=
  match l with
  | [] => True
  | x :: tl => alookup tl (edev (canon x)) (eino (canon x)) = None /\ nodupk tl
  end.

Lemma kmatch_self x : kmatch x (edev (canon x)) (eino (canon x)) = true.
Proof. unfold kmatch. rewrite !N.eqb_refl. reflexivity. Qed.

Lemma kmatch_keys x d i : kmatch x d i = true -> edev (canon x) = d /\ eino (canon x) = i.
Proof. unfold kmatch. intros H. apply andb_prop in H. destruct H as [A B]. apply N.eqb_eq in A, B. auto. Qed.

Lemma alookup_unique l d i x :
  nodupk l -> In x l -> kmatch x d i = true -> alookup l d i = Some x.
Proof.
  induction l as [|y tl IH]; simpl; intros Hn Hin Hk; [contradiction|].
  destruct Hn as [Hy Hn].
  destruct Hin as [->|Hin].
  - rewrite Hk. reflexivity.
  - destruct (kmatch y d i) eqn:E.
    + exfalso. apply kmatch_keys in E. destruct E as [<- <-].
      apply alookup_none_iff in Hy. rewrite Forall_forall in Hy. specialize (Hy x Hin).
      apply kmatch_keys in Hk. destruct Hk as [A B].
      unfold kmatch in Hy. rewrite A, B, !N.eqb_refl in Hy. discriminate.
    + apply IH; auto.
Qed.

Lemma nodupk_perm l l' : Permutation l l' -> nodupk l -> nodupk l'.
Proof.
  induction 1 as [|x l l' HP IH|x y l|l l' l'' H1 IH1 H2 IH2]; simpl; auto.
  - intros [A B]. split; auto.
    apply alookup_none_iff. apply alookup_none_iff in A.
    rewrite Forall_forall in *. intros z Hz. apply A. eapply Permutation_in; [symmetry; eauto|auto].
  - intros (A & B & C0). simpl in A.
    destruct (kmatch x (edev (canon y)) (eino (canon y))) eqn:E; [discriminate|].
    repeat split; auto. simpl.
    destruct (kmatch y (edev (canon x)) (eino (canon x))) eqn:E2; auto.
    exfalso. apply kmatch_keys in E2. destruct E2 as [P Q].
    unfold kmatch in E. rewrite <- P, <- Q, !N.eqb_refl in E. discriminate.
Qed.

Lemma alookup_perm l l' d i : Permutation l l' -> nodupk l -> alookup l d i = alookup l' d i.
Proof.
  intros HP Hn. pose proof (nodupk_perm _ _ HP Hn) as Hn'.
  destruct (alookup l d i) as [x|] eqn:E.
  - apply alookup_some in E. destruct E as [Hin Hk]. symmetry.
    apply alookup_unique; auto. eapply Permutation_in; eauto.
  - symmetry. apply alookup_none_iff. apply alookup_none_iff in E.
    rewrite Forall_forall in *. intros z Hz. apply E. eapply Permutation_in; [symmetry; eauto|auto].
Qed.

(* ---------------- every entry sits in the bucket its hash selects ---------------- *)
Definition khash (x : le) : N := N.lxor (edev (canon x)) (eino (canon x)) mod two64.

Definition slot_ok (nb : N) (b : nat) (x : le) : Prop :=
  lhash x = khash x /\ bucket_ix (lhash x) nb = b.

Definition WF (t : table) : Prop :=
  pow2len (buckets t) /\
  forall b bl, nth_error (buckets t) b = Some bl -> Forall (slot_ok (nbuckets t) b) bl.

Lemma le_matches_kmatch x e :
  lhash x = khash x ->
  le_matches x (hash_of e) (edev e) (eino e) = kmatch x (edev e) (eino e).
Proof.
  intros H. unfold le_matches, kmatch.
  destruct (edev (canon x) =? edev e) eqn:A; destruct (eino (canon x) =? eino e) eqn:B;
    rewrite ?andb_false_r, ?andb_true_r; auto.
  apply N.eqb_eq in A, B. rewrite H. unfold khash, hash_of. rewrite A, B. apply N.eqb_refl.
Qed.

Lemma go_alookup (l : list le) e :
  Forall (fun x => lhash x = khash x) l ->
  (fix go (l : list le) := match l with [] => None | x :: tl =>
     if le_matches x (hash_of e) (edev e) (eino e) then Some x else go tl end) l
  = alookup l (edev e) (eino e).
Proof.
  induction l as [|x tl IH]; intros H; simpl; auto.
  inversion H; subst. rewrite le_matches_kmatch by auto.
  destruct (kmatch x (edev e) (eino e)); auto.
Qed.

Lemma nth_error_split {A} (l : list A) n x :
  nth_error l n = Some x -> l = firstn n l ++ x :: skipn (S n) l /\ length (firstn n l) = n.
Proof.
  revert n; induction l as [|y tl IH]; intros [|n] H; simpl in *; try discriminate.
  - inversion H; subst; auto.
  - destruct (IH n H) as [HA HB]. split; [f_equal; exact HA|f_equal; exact HB].
Qed.

Lemma no_match_other_bucket nb b bl d i :
  Forall (slot_ok nb b) bl -> bucket_ix (N.lxor d i mod two64) nb <> b -> alookup bl d i = None.
Proof.
  intros H Hne. apply alookup_none_iff. rewrite Forall_forall in *. intros x Hx.
  destruct (kmatch x d i) eqn:E; auto. exfalso.
  destruct (H x Hx) as [H1 H2]. apply kmatch_keys in E. destruct E as [A B].
  apply Hne. rewrite <- H2, H1. unfold khash. rewrite A, B. reflexivity.
Qed.

Lemma alookup_concat_buckets nb (bs : list (list le)) d i : forall off,
  (forall b bl, nth_error bs b = Some bl -> Forall (slot_ok nb (off + b)) bl) ->
  forall j, (bucket_ix (N.lxor d i mod two64) nb = off + j)%nat ->
  alookup (concat bs) d i = alookup (nth j bs []) d i.
Proof.
  induction bs as [|b0 rest IH]; intros off H j Hj.
  - simpl. destruct j; reflexivity.
  - cbn [concat]. rewrite alookup_app. destruct j as [|j].
    + cbn [nth]. destruct (alookup b0 d i) eqn:E; auto.
      (* nothing in the later buckets can match *)
      apply alookup_none_iff. apply Forall_forall. intros x Hx.
      apply in_concat in Hx. destruct Hx as (bl & Hbl & Hx).
      apply In_nth_error in Hbl. destruct Hbl as [n Hn].
      pose proof (H (S n) bl Hn) as Hs.
      assert (HA : alookup bl d i = None).
      { eapply no_match_other_bucket; eauto. lia. }
      apply alookup_none_iff in HA. rewrite Forall_forall in HA. auto.
    + cbn [nth].
      assert (H0 : alookup b0 d i = None).
      { eapply (no_match_other_bucket nb (off + 0)); [apply (H 0%nat b0 eq_refl)|lia]. }
      rewrite H0. apply (IH (S off)).
      * intros b bl Hb. replace (S off + b)%nat with (off + S b)%nat by lia. apply (H (S b)). exact Hb.
      * lia.
Qed.

Lemma live_key_alookup t e : WF t -> live_key t e = alookup (les t) (edev e) (eino e).
Proof.
  intros [Hp Hs]. unfold live_key, les.
  set (j := bucket_ix (hash_of e) (nbuckets t)).
  assert (Hj : (j < length (buckets t))%nat) by (apply bucket_ix_in; exact Hp).
  destruct (nth_error (buckets t) j) as [bl|] eqn:E; [|apply nth_error_None in E; lia].
  assert (Hnth : nth j (buckets t) [] = bl) by (apply nth_error_nth; exact E).
  rewrite (alookup_concat_buckets (nbuckets t) (buckets t) (edev e) (eino e) 0 Hs j) by reflexivity.
  rewrite Hnth. apply go_alookup.
  specialize (Hs j bl E). rewrite Forall_forall in *. intros x Hx. apply (Hs x Hx).
Qed.

(* ---------------- WF is preserved ---------------- *)
Lemma nth_error_upd_nth {A} (l : list A) i x b :
  nth_error (upd_nth i x l) b =
  if Nat.eqb b i then (match nth_error l b with Some _ => Some x | None => None end) else nth_error l b.
Proof.
  revert i b; induction l as [|y tl IHl]; intros [|i] [|b]; simpl; auto;
    try (destruct (Nat.eqb _ _); reflexivity).
Qed.

Lemma WF_upd t i bl' cnt :
  WF t -> Forall (slot_ok (nbuckets t) i) bl' ->
  WF (mkTable (upd_nth i bl' (buckets t)) cnt (strategy t)).
Proof.
  intros [Hp Hs] Hb. split.
  - unfold pow2len in *. cbn [buckets]. rewrite upd_nth_length. exact Hp.
  - unfold nbuckets; cbn [buckets]. rewrite upd_nth_length. intros b bl H.
    rewrite nth_error_upd_nth in H. destruct (Nat.eqb b i) eqn:E.
    + apply Nat.eqb_eq in E; subst b. destruct (nth_error (buckets t) i); inversion H; subst. exact Hb.
    + apply (Hs b bl H).
Qed.

Lemma find_in_Forall (P : le -> Prop) l h d i upd x1 l' :
  Forall P l -> (forall x, P x -> P (upd (dec_links x))) ->
  find_in l h d i upd = Some (x1, l') -> Forall P l'.
Proof.
  revert l'; induction l as [|y tl IH]; intros l' HF Hu H; cbn [find_in] in H; [discriminate|].
  inversion HF; subst.
  destruct (le_matches y h d i).
  - cbv zeta in H. destruct (0 <? links (dec_links y)); inversion H; subst; auto.
  - destruct (find_in tl h d i upd) as [[r tl']|] eqn:F; [|discriminate].
    inversion H; subst. constructor; auto.
Qed.

Lemma slot_ok_dec nb b x : slot_ok nb b x -> slot_ok nb b (dec_links x).
Proof. unfold slot_ok, khash. simpl. auto. Qed.

Lemma slot_ok_set_held nb b e x : slot_ok nb b x -> slot_ok nb b (set_held e x).
Proof. unfold slot_ok, khash. simpl. auto. Qed.

Lemma find_entry_WF t e upd x1 t' :
  WF t -> (forall nb b x, slot_ok nb b x -> slot_ok nb b (upd x)) ->
  find_entry t e upd = Some (x1, t') -> WF t'.
Proof.
  intros HW Hu H. unfold find_entry in H.
  set (j := bucket_ix (hash_of e) (nbuckets t)) in *.
  destruct (find_in (nth j (buckets t) []) (hash_of e) (edev e) (eino e) upd) as [[r b']|] eqn:F; [|discriminate].
  inversion H; subst; clear H. apply WF_upd; auto.
  destruct HW as [Hp Hs].
  assert (Hj : (j < length (buckets t))%nat) by (apply bucket_ix_in; exact Hp).
  destruct (nth_error (buckets t) j) as [bl|] eqn:E; [|apply nth_error_None in E; lia].
  rewrite (nth_error_nth _ _ _ E) in F.
  eapply find_in_Forall; [apply (Hs j bl E)| |exact F].
  intros x Hx. apply Hu, slot_ok_dec, Hx.
Qed.

Lemma push_bucket_WF nb (bs : list (list le)) x :
  N.of_nat (length bs) = nb -> pow2len bs -> lhash x = khash x ->
  (forall b bl, nth_error bs b = Some bl -> Forall (slot_ok nb b) bl) ->
  forall b bl, nth_error (push_bucket nb bs x) b = Some bl -> Forall (slot_ok nb b) bl.
Proof.
  intros Hnb Hp Hx Hs b bl H. unfold push_bucket in H.
  set (j := bucket_ix (lhash x) nb) in *.
  rewrite nth_error_upd_nth in H. destruct (Nat.eqb b j) eqn:E.
  - apply Nat.eqb_eq in E; subst b.
    destruct (nth_error bs j) as [old|] eqn:EO; inversion H; subst.
    rewrite (nth_error_nth _ _ _ EO). constructor; [split; auto|apply (Hs j old EO)].
  - apply (Hs b bl H).
Qed.

Lemma fold_push_WF l : forall (acc : list (list le)) nb,
  N.of_nat (length acc) = nb -> pow2len acc -> Forall (fun x => lhash x = khash x) l ->
  (forall b bl, nth_error acc b = Some bl -> Forall (slot_ok nb b) bl) ->
  forall b bl, nth_error (fold_left (push_bucket nb) l acc) b = Some bl -> Forall (slot_ok nb b) bl.
Proof.
  induction l as [|x tl IH]; intros acc nb Hnb Hp HF Hs; simpl; auto.
  inversion HF; subst.
  apply IH; auto.
  - rewrite push_bucket_length. reflexivity.
  - unfold pow2len in *. rewrite push_bucket_length. exact Hp.
  - apply push_bucket_WF; auto.
Qed.

Lemma WF_hash_all t : WF t -> Forall (fun x => lhash x = khash x) (les t).
Proof.
  intros [_ Hs]. unfold les. apply Forall_forall. intros x Hx.
  apply in_concat in Hx. destruct Hx as (bl & Hbl & Hx). apply In_nth_error in Hbl. destruct Hbl as [n Hn].
  pose proof (Hs n bl Hn) as HF. rewrite Forall_forall in HF. apply (HF x Hx).
Qed.

Lemma nth_error_repeat_nil {A} n b (bl : list A) : nth_error (repeat [] n) b = Some bl -> bl = [].
Proof. revert b; induction n; intros [|b] H; simpl in H; try discriminate; [inversion H; auto|eauto]. Qed.

Lemma grow_WF (bs : list (list le)) :
  pow2len bs -> Forall (fun x => lhash x = khash x) (concat bs) ->
  (forall b bl, nth_error bs b = Some bl -> Forall (slot_ok (N.of_nat (length bs)) b) bl) ->
  forall b bl, nth_error (grow bs) b = Some bl -> Forall (slot_ok (N.of_nat (length (grow bs))) b) bl.
Proof.
  intros Hp HF Hs. unfold grow.
  destruct (2 * N.of_nat (length bs) mod two64 <? N.of_nat (length bs)); [exact Hs|].
  set (n := 2 * N.of_nat (length bs)).
  assert (Hacc : pow2len (repeat (@nil le) (N.to_nat n))).
  { destruct Hp as [k Hk]; exists (k + 1); rewrite repeat_length, N2Nat.id; unfold n.
    rewrite Hk, N.pow_add_r, N.pow_1_r; lia. }
  assert (Hlen : N.of_nat (length (repeat (@nil le) (N.to_nat n))) = n) by (rewrite repeat_length, N2Nat.id; reflexivity).
  pose proof (fold_push_perm (concat bs) _ Hacc) as HL. simpl in HL. rewrite Hlen in HL. destruct HL as [HL _].
  rewrite HL, Hlen.
  apply fold_push_WF; auto.
  intros b bl H. apply nth_error_repeat_nil in H. subst. constructor.
Qed.

Definition new_le (e : lentry) (h0 : option lentry) : le :=
  mkLe e h0 (hash_of e) ((enlink e + two32 - 1) mod two32).

Lemma insert_entry_WF t e h0 : WF t -> WF (insert_entry t e h0).
Proof.
  intros HW. pose proof (WF_hash_all t HW) as HH. destruct HW as [Hp Hs].
  unfold insert_entry.
  set (bs := if 2 * nbuckets t <? count t then grow (buckets t) else buckets t).
  assert (Hbs : pow2len bs /\ (forall b bl, nth_error bs b = Some bl -> Forall (slot_ok (N.of_nat (length bs)) b) bl)).
  { unfold bs. destruct (2 * nbuckets t <? count t).
    - split; [apply grow_spec, Hp|apply grow_WF; auto].
    - split; auto. }
  destruct Hbs as [Hp' Hs']. split.
  - unfold pow2len in *. cbn [buckets]. rewrite push_bucket_length. exact Hp'.
  - unfold nbuckets. cbn [buckets]. rewrite push_bucket_length.
    apply push_bucket_WF; auto.
Qed.

Lemma insert_entry_les t e h0 :
  pow2len (buckets t) -> Permutation (les (insert_entry t e h0)) (new_le e h0 :: les t).
Proof.
  intros Hp. unfold insert_entry, les. cbn [buckets].
  set (bs := if 2 * nbuckets t <? count t then grow (buckets t) else buckets t).
  assert (Hbs : pow2len bs /\ Permutation (concat bs) (concat (buckets t))).
  { unfold bs; destruct (2 * nbuckets t <? count t); [apply grow_spec, Hp|split; auto]. }
  destruct Hbs as [Hp' HP].
  etransitivity; [apply push_bucket_perm, Hp'|]. constructor. exact HP.
Qed.

(* ---------------- keyed view after find / insert ---------------- *)
Lemma alookup_mid_other P x Q d i : kmatch x d i = false ->
  alookup (P ++ x :: Q) d i = alookup (P ++ Q) d i.
Proof. intros H. rewrite !alookup_app. simpl. rewrite H. reflexivity. Qed.

Lemma nodupk_mid P x Q : nodupk (P ++ x :: Q) ->
  nodupk (P ++ Q) /\ alookup (P ++ Q) (edev (canon x)) (eino (canon x)) = None.
Proof.
  induction P as [|y P IH]; simpl.
  - intros [A B]; auto.
  - intros [A B]. destruct (IH B) as [C0 D]. rewrite alookup_app in A. simpl in A.
    destruct (alookup P (edev (canon y)) (eino (canon y))) eqn:E1; [discriminate|].
    destruct (kmatch x (edev (canon y)) (eino (canon y))) eqn:E2; [discriminate|].
    split; [split; auto; rewrite alookup_app, E1; exact A|].
    destruct (kmatch y (edev (canon x)) (eino (canon x))) eqn:E3; auto.
    exfalso. apply kmatch_keys in E3. destruct E3 as [K1 K2].
    unfold kmatch in E2. rewrite <- K1, <- K2, !N.eqb_refl in E2. discriminate.
Qed.

Lemma alookup_replace_none P x x' Q d i : canon x' = canon x ->
  alookup (P ++ x :: Q) d i = None -> alookup (P ++ x' :: Q) d i = None.
Proof.
  intros Hc. rewrite !alookup_app. simpl. unfold kmatch. rewrite Hc.
  destruct (alookup P d i); auto. destruct ((edev (canon x) =? d) && (eino (canon x) =? i)); auto. discriminate.
Qed.

Lemma nodupk_mid_replace P x x' Q : canon x' = canon x -> nodupk (P ++ x :: Q) -> nodupk (P ++ x' :: Q).
Proof.
  intros Hc. induction P as [|y P IH]; simpl.
  - rewrite Hc. auto.
  - intros [A B]. split; auto. eapply alookup_replace_none; eauto.
Qed.

(* ---------------- the per-key specification of the tar / mtree strategies ---------------- *)
Definition kstate := option (bytes * N).      (* first pathname of the live group, links not yet seen *)

Definition abs_k (t : table) (d i : N) : kstate :=
  match alookup (les t) d i with Some x => Some (epath (canon x), links x) | None => None end.

Definition same_key (d i : N) (e : lentry) : bool := (edev e =? d) && (eino e =? i).

Definition next_k (st : kstate) (e : lentry) : kstate :=
  match st with
  | None => Some (epath e, (enlink e + two32 - 1) mod two32)
  | Some (p, l) => let l' := (l + two32 - 1) mod two32 in if 0 <? l' then Some (p, l') else None
  end.

Definition out_k (unset : bool) (st : kstate) (e : lentry) : lentry :=
  match st with None => e | Some (p, _) => mark_hardlink unset e p end.

(* what comes out for the entries of ONE key, given only the history of that key *)
Fixpoint key_spec (unset : bool) (st : kstate) (es : list lentry) : list lentry * kstate :=
  match es with
  | [] => ([], st)
  | e :: r =>
    if is_passthrough e then let '(o, s) := key_spec unset st r in (e :: o, s)
    else let '(o, s) := key_spec unset (next_k st e) r in (out_k unset st e :: o, s)
  end.

Fixpoint push_all (t : table) (es : list lentry) : table * list (option lentry * option lentry) :=
  match es with
  | [] => (t, [])
  | e :: r => let '(t1, o) := linkify t e in let '(t2, os) := push_all t1 r in (t2, o :: os)
  end.

Definition tarlike (t : table) (unset : bool) : Prop :=
  (strategy t = LINKIFY_LIKE_TAR /\ unset = true) \/ (strategy t = LINKIFY_LIKE_MTREE /\ unset = false).

Definition Good (t : table) : Prop := WF t /\ nodupk (les t).

Lemma kmatch_dec x d i : kmatch (dec_links x) d i = kmatch x d i.
Proof. reflexivity. Qed.

Lemma find_entry_none_alookup t e upd :
  WF t -> find_entry t e upd = None -> alookup (les t) (edev e) (eino e) = None.
Proof.
  intros HW H. rewrite <- live_key_alookup by auto. unfold live_key, find_entry in *.
  destruct (find_in_live (nth (bucket_ix (hash_of e) (nbuckets t)) (buckets t) []) (hash_of e)
              (edev e) (eino e) upd) as [_ H2].
  destruct (find_in _ _ _ _ _) as [[x1 b']|]; [discriminate|]. apply H2; reflexivity.
Qed.

Lemma kmatch_self_e e h0 : kmatch (new_le e h0) (edev e) (eino e) = true.
Proof. unfold kmatch. simpl. rewrite !N.eqb_refl. reflexivity. Qed.

(* one push under a tar-like strategy *)
Lemma tarlike_push t unset e :
  Good t -> tarlike t unset -> is_passthrough e = false ->
  exists t', linkify t e = (t', (Some (out_k unset (abs_k t (edev e) (eino e)) e), None)) /\
    Good t' /\ strategy t' = strategy t /\
    abs_k t' (edev e) (eino e) = next_k (abs_k t (edev e) (eino e)) e /\
    (forall d i, same_key d i e = false -> abs_k t' d i = abs_k t d i).
Proof.
  intros [HW Hn] Htl Hp.
  assert (Hlink : linkify t e =
    match find_entry t e (fun x => x) with
    | Some (x, t') => (t', (Some (mark_hardlink unset e (epath (canon x))), None))
    | None => (insert_entry t e None, (Some e, None))
    end).
  { unfold linkify. rewrite Hp. destruct Htl as [[S ->]|[S ->]]; rewrite S; reflexivity. }
  rewrite Hlink.
  destruct (find_entry t e (fun x => x)) as [[x1 t1]|] eqn:F.
  - (* the key is live *)
    pose proof (find_entry_WF _ _ _ _ _ HW (fun _ _ _ H => H) F) as HW1.
    destruct HW as [Hpw Hs].
    destruct (find_entry_spec _ _ _ _ _ Hpw F) as (HS & HL & P & x0 & Q & H1 & -> & H2).
    fold (les t) in H1. fold (les t1) in H2.
    (* x0 is the entry alookup finds *)
    assert (Hk0 : kmatch x0 (edev e) (eino e) = true).
    { assert (HL0 : live_key t e = Some x0 \/ True) by auto.
      unfold find_entry in F.
      destruct (find_in_live (nth (bucket_ix (hash_of e) (nbuckets t)) (buckets t) []) (hash_of e)
                  (edev e) (eino e) (fun x => x)) as [G1 _].
      destruct (find_in _ _ _ _ _) as [[r b']|] eqn:FI; [|discriminate].
      inversion F; subst r.
      destruct (G1 _ _ eq_refl) as (y & Hy & Hdy).
      assert (Hlk : live_key t e = Some y) by exact Hy.
      rewrite live_key_alookup in Hlk by (split; auto).
      apply alookup_some in Hlk. destruct Hlk as [Hin Hky].
      (* y and x0 have the same key and both are in the table: they are the same entry *)
      assert (Hx0in : In x0 (les t)) by (rewrite H1; apply in_or_app; right; left; reflexivity).
      assert (Hkx0 : kmatch x0 (edev (canon y)) (eino (canon y)) = true).
      { assert (canon (dec_links y) = canon (dec_links x0)) by (rewrite Hdy; reflexivity).
        simpl in H. rewrite H. apply kmatch_self. }
      pose proof (alookup_unique _ _ _ _ Hn Hx0in Hkx0) as U1.
      pose proof (alookup_unique _ _ _ _ Hn Hin (kmatch_self y)) as U2.
      rewrite U1 in U2. inversion U2; subst. exact Hky. }
    assert (Hlook : alookup (les t) (edev e) (eino e) = Some x0).
    { apply alookup_unique; auto. rewrite H1; apply in_or_app; right; left; reflexivity. }
    exists t1. unfold abs_k at 1. rewrite Hlook. cbn [out_k].
    split; [reflexivity|]. rewrite H1 in Hn.
    split; [split; [exact HW1|]|split; [exact HS|split]].
    + rewrite H2. destruct (0 <? links (dec_links x0)).
      * cbn [app]. eapply nodupk_mid_replace; [|exact Hn]. reflexivity.
      * cbn [app]. apply (nodupk_mid _ _ _ Hn).
    + unfold abs_k. rewrite Hlook, H2. cbn [next_k].
      change ((links x0 + two32 - 1) mod two32) with (links (dec_links x0)).
      destruct (0 <? links (dec_links x0)) eqn:E.
      * cbn [app]. rewrite (alookup_unique (P ++ dec_links x0 :: Q) (edev e) (eino e) (dec_links x0)).
        -- reflexivity.
        -- eapply nodupk_mid_replace; [|exact Hn]. reflexivity.
        -- apply in_or_app; right; left; reflexivity.
        -- exact Hk0.
      * cbn [app]. destruct (nodupk_mid _ _ _ Hn) as [_ Hnone].
        apply kmatch_keys in Hk0. destruct Hk0 as [K1 K2]. rewrite K1, K2 in Hnone. rewrite Hnone. reflexivity.
    + intros d i Hsk. unfold abs_k. rewrite H1, H2.
      assert (Hko : kmatch x0 d i = false).
      { apply kmatch_keys in Hk0. destruct Hk0 as [K1 K2]. unfold kmatch. rewrite K1, K2.
        unfold same_key in Hsk. exact Hsk. }
      rewrite (alookup_mid_other P x0 Q d i Hko).
      destruct (0 <? links (dec_links x0)); cbn [app]; [|reflexivity].
      rewrite (alookup_mid_other P (dec_links x0) Q d i Hko). reflexivity.
  - (* first of a group: insert *)
    pose proof (find_entry_none_alookup _ _ _ HW F) as Hnone.
    exists (insert_entry t e None). unfold abs_k at 1. rewrite Hnone. cbn [out_k].
    split; [reflexivity|].
    destruct HW as [Hpw Hs].
    pose proof (insert_entry_les t e None Hpw) as HP.
    assert (Hn' : nodupk (new_le e None :: les t)) by (split; [exact Hnone|exact Hn]).
    split; [split; [apply insert_entry_WF; split; auto|]|split; [reflexivity|split]].
    + eapply nodupk_perm; [symmetry; exact HP|exact Hn'].
    + unfold abs_k. rewrite (alookup_perm _ _ (edev e) (eino e) HP).
      2:{ eapply nodupk_perm; [symmetry; exact HP|exact Hn']. }
      cbn [alookup]. change (canon (new_le e None)) with e. rewrite kmatch_self_e. rewrite Hnone. reflexivity.
    + intros d i Hsk. unfold abs_k. rewrite (alookup_perm _ _ d i HP).
      2:{ eapply nodupk_perm; [symmetry; exact HP|exact Hn']. }
      cbn [alookup]. unfold kmatch. change (canon (new_le e None)) with e.
      unfold same_key in Hsk. rewrite Hsk. reflexivity.
Qed.

(* ---------------- the refinement theorem ---------------- *)
Definition outs_for (d i : N) (es : list lentry) (os : list (option lentry * option lentry)) :=
  flat_map (fun p => if same_key d i (fst p) then [snd p] else []) (combine es os).

Lemma tarlike_strategy t t' unset : tarlike t unset -> strategy t' = strategy t -> tarlike t' unset.
Proof. unfold tarlike. intros H E. rewrite E. exact H. Qed.

Lemma same_key_eq d i e : same_key d i e = true -> edev e = d /\ eino e = i.
Proof. unfold same_key. intros H. apply andb_prop in H. destruct H as [A B]. apply N.eqb_eq in A, B. auto. Qed.

Theorem tarlike_refines : forall es t unset t' os,
  Good t -> tarlike t unset -> push_all t es = (t', os) ->
  Good t' /\ tarlike t' unset /\ length os = length es /\
  forall d i,
    outs_for d i es os =
      map (fun o => (Some o, None)) (fst (key_spec unset (abs_k t d i) (filter (same_key d i) es))) /\
    abs_k t' d i = snd (key_spec unset (abs_k t d i) (filter (same_key d i) es)).
Proof.
  induction es as [|e r IH]; intros t unset t' os HG HT H; cbn [push_all] in H.
  - inversion H; subst. split; [exact HG|]. split; [exact HT|]. split; [reflexivity|]. intros d i. split; reflexivity.
  - destruct (linkify t e) as [t1 o] eqn:EL. destruct (push_all t1 r) as [t2 os2] eqn:EP.
    inversion H; subst; clear H.
    destruct (is_passthrough e) eqn:EPass.
    + (* passes straight through, table untouched *)
      assert (Ht1 : t1 = t /\ o = (Some e, None)).
      { unfold linkify in EL. rewrite EPass in EL. inversion EL; auto. }
      destruct Ht1 as [-> ->].
      destruct (IH _ _ _ _ HG HT EP) as (G2 & T2 & L2 & K2).
      split; [exact G2|]. split; [exact T2|]. split; [simpl; f_equal; exact L2|].
      intros d i. destruct (K2 d i) as [KA KB].
      unfold outs_for in *. cbn [combine flat_map fst snd filter].
      destruct (same_key d i e) eqn:ES.
      * cbn [key_spec]. rewrite EPass.
        destruct (key_spec unset (abs_k t d i) (filter (same_key d i) r)) as [oo ss] eqn:EK.
        cbn [fst snd map app] in *. rewrite KA. split; [reflexivity|exact KB].
      * cbn [app]. split; [exact KA|exact KB].
    + destruct (tarlike_push t unset e HG HT EPass) as (t1' & EL' & G1 & S1 & A1 & F1).
      rewrite EL in EL'. inversion EL'; subst t1' o; clear EL'.
      pose proof (tarlike_strategy _ _ _ HT S1) as HT1.
      destruct (IH _ _ _ _ G1 HT1 EP) as (G2 & T2 & L2 & K2).
      split; [exact G2|]. split; [exact T2|]. split; [simpl; f_equal; exact L2|].
      intros d i. destruct (K2 d i) as [KA KB].
      unfold outs_for in *. cbn [combine flat_map fst snd filter].
      destruct (same_key d i e) eqn:ES.
      * apply same_key_eq in ES. destruct ES as [<- <-].
        cbn [key_spec]. rewrite EPass. rewrite A1 in KA, KB.
        destruct (key_spec unset (next_k (abs_k t (edev e) (eino e)) e) (filter (same_key (edev e) (eino e)) r)) as [oo ss] eqn:EK.
        cbn [fst snd map app] in *. rewrite KA. split; [reflexivity|exact KB].
      * cbn [app]. rewrite (F1 d i ES) in KA, KB. split; [exact KA|exact KB].
Qed.

(* the empty table is good, and abstracts to "no live group" for every key *)
Lemma init_Good strat : Good (init_table strat).
Proof.
  split; [split|].
  - destruct init_size_pow2 as [k Hk]. exists k. unfold init_table; cbn [buckets]. rewrite repeat_length, N2Nat.id. exact Hk.
  - intros b bl H. unfold init_table in H; cbn [buckets] in H. apply nth_error_repeat_nil in H. subst. constructor.
  - unfold les, init_table; cbn [buckets]. rewrite repeat_nil_concat. exact I.
Qed.

Lemma init_abs strat d i : abs_k (init_table strat) d i = None.
Proof. unfold abs_k, les, init_table; cbn [buckets]. rewrite repeat_nil_concat. reflexivity. Qed.

(* consequence: a complete group that starts on a key with no live group.  n entries with the same
   (dev, ino), none passing through, the first announcing link count n: the first comes out as it
   is (it carries the body), each of the others as a hard link to the first pathname (size unset
   under the tar strategy), and afterwards the key is free again. *)
Fixpoint marked (unset : bool) (p : bytes) (es : list lentry) : list lentry :=
  match es with [] => [] | e :: r => mark_hardlink unset e p :: marked unset p r end.

Lemma key_spec_group unset p : forall (rest : list lentry) l,
  Forall (fun e => is_passthrough e = false) rest ->
  l = N.of_nat (length rest) -> l < two32 ->
  key_spec unset (if 0 <? l then Some (p, l) else None) rest = (marked unset p rest, None).
Proof.
  induction rest as [|e r IH]; intros l HF Hl Hlt.
  - simpl in Hl. subst l. reflexivity.
  - inversion HF; subst. cbn [key_spec]. rewrite H1.
    assert (Hpos : 0 <? N.of_nat (length (e :: r)) = true) by (apply N.ltb_lt; simpl; lia).
    rewrite Hpos. cbn [next_k out_k].
    assert (Hdec : (N.of_nat (length (e :: r)) + two32 - 1) mod two32 = N.of_nat (length r)).
    { simpl length. rewrite Nat2N.inj_succ.
      replace (N.succ (N.of_nat (length r)) + two32 - 1) with (N.of_nat (length r) + 1 * two32) by lia.
      rewrite N.mod_add by (unfold two32; lia). apply N.mod_small. simpl length in Hlt. lia. }
    rewrite Hdec. rewrite (IH (N.of_nat (length r)) H2 eq_refl) by (simpl length in Hlt; lia).
    reflexivity.
Qed.

Theorem group_marking unset e1 (rest : list lentry) :
  is_passthrough e1 = false -> Forall (fun e => is_passthrough e = false) rest ->
  enlink e1 = N.of_nat (S (length rest)) -> enlink e1 < two32 ->
  key_spec unset None (e1 :: rest) = (e1 :: marked unset (epath e1) rest, None).
Proof.
  intros H1 HF Hn Hlt. cbn [key_spec]. rewrite H1. cbn [next_k out_k].
  assert (Hl : (enlink e1 + two32 - 1) mod two32 = N.of_nat (length rest)).
  { rewrite Hn, Nat2N.inj_succ.
    replace (N.succ (N.of_nat (length rest)) + two32 - 1) with (N.of_nat (length rest) + 1 * two32) by lia.
    rewrite N.mod_add by (unfold two32; lia). apply N.mod_small. rewrite Hn, Nat2N.inj_succ in Hlt. lia. }
  rewrite Hl.
  pose proof (key_spec_group unset (epath e1) rest (N.of_nat (length rest)) HF eq_refl) as HK.
  destruct rest as [|e2 r2].
  - (* a group of one would have link count 1, which passes through *)
    exfalso. unfold is_passthrough in H1. simpl in Hn. rewrite Hn in H1. cbn in H1. discriminate.
  - assert (Hpos : 0 <? N.of_nat (length (e2 :: r2)) = true) by (apply N.ltb_lt; simpl; lia).
    rewrite Hpos in HK. rewrite HK; [reflexivity|]. rewrite Hn, Nat2N.inj_succ in Hlt. lia.
Qed.

(* ---------------- the per-key specification of the new-cpio strategy ---------------- *)
Definition cstate := option (bytes * option lentry * N).   (* first pathname, deferred entry, links not yet seen *)

Definition abs_c (t : table) (d i : N) : cstate :=
  match alookup (les t) d i with Some x => Some (epath (canon x), held x, links x) | None => None end.

Definition out_c (st : cstate) (e : lentry) : (option lentry * option lentry) * cstate :=
  match st with
  | None => ((None, None), Some (epath e, Some e, (enlink e + two32 - 1) mod two32))
  | Some (p, h, l) =>
    let l' := (l + two32 - 1) mod two32 in
    let a := match h with Some o => Some (mark_hardlink true o p) | None => None end in
    if l' =? 0 then ((a, Some e), None) else ((a, None), Some (p, Some e, l'))
  end.

Fixpoint cpio_spec (st : cstate) (es : list lentry) : list (option lentry * option lentry) * cstate :=
  match es with
  | [] => ([], st)
  | e :: r =>
    if is_passthrough e then let '(o, s) := cpio_spec st r in ((Some e, None) :: o, s)
    else let '(x, st') := out_c st e in let '(o, s) := cpio_spec st' r in (x :: o, s)
  end.

Lemma newcpio_push t e :
  Good t -> strategy t = LINKIFY_LIKE_NEW_CPIO -> is_passthrough e = false ->
  exists t', linkify t e = (t', fst (out_c (abs_c t (edev e) (eino e)) e)) /\
    Good t' /\ strategy t' = strategy t /\
    abs_c t' (edev e) (eino e) = snd (out_c (abs_c t (edev e) (eino e)) e) /\
    (forall d i, same_key d i e = false -> abs_c t' d i = abs_c t d i).
Proof.
  intros [HW Hn] HS Hp.
  assert (Hlink : linkify t e =
    match find_entry t e (set_held e) with
    | Some (x, t') =>
      (t', (match held x with Some o => Some (mark_hardlink true o (epath (canon x))) | None => None end,
            if links x =? 0 then Some e else None))
    | None => (insert_entry t e (Some e), (None, None))
    end).
  { unfold linkify. rewrite Hp, HS. reflexivity. }
  rewrite Hlink.
  destruct (find_entry t e (set_held e)) as [[x1 t1]|] eqn:F.
  - pose proof (find_entry_WF _ _ _ _ _ HW (fun nb b x H => slot_ok_set_held nb b e x H) F) as HW1.
    destruct HW as [Hpw Hs].
    destruct (find_entry_spec _ _ _ _ _ Hpw F) as (HS1 & HL & P & x0 & Q & H1 & -> & H2).
    fold (les t) in H1. fold (les t1) in H2.
    assert (Hk0 : kmatch x0 (edev e) (eino e) = true).
    { unfold find_entry in F.
      destruct (find_in_live (nth (bucket_ix (hash_of e) (nbuckets t)) (buckets t) []) (hash_of e)
                  (edev e) (eino e) (set_held e)) as [G1 _].
      destruct (find_in _ _ _ _ _) as [[r b']|] eqn:FI; [|discriminate].
      inversion F; subst r.
      destruct (G1 _ _ eq_refl) as (y & Hy & Hdy).
      assert (Hlk : live_key t e = Some y) by exact Hy.
      rewrite live_key_alookup in Hlk by (split; auto).
      apply alookup_some in Hlk. destruct Hlk as [Hin Hky].
      assert (Hx0in : In x0 (les t)) by (rewrite H1; apply in_or_app; right; left; reflexivity).
      assert (Hkx0 : kmatch x0 (edev (canon y)) (eino (canon y)) = true).
      { assert (HC : canon (dec_links y) = canon (dec_links x0)) by (rewrite Hdy; reflexivity).
        simpl in HC. rewrite HC. apply kmatch_self. }
      pose proof (alookup_unique _ _ _ _ Hn Hx0in Hkx0) as U1.
      pose proof (alookup_unique _ _ _ _ Hn Hin (kmatch_self y)) as U2.
      rewrite U1 in U2. inversion U2; subst. exact Hky. }
    assert (Hlook : alookup (les t) (edev e) (eino e) = Some x0).
    { apply alookup_unique; auto. rewrite H1; apply in_or_app; right; left; reflexivity. }
    assert (Habs : abs_c t (edev e) (eino e) = Some (epath (canon x0), held x0, links x0)).
    { unfold abs_c. rewrite Hlook. reflexivity. }
    exists t1. rewrite Habs. cbn [out_c].
    change ((links x0 + two32 - 1) mod two32) with (links (dec_links x0)).
    change (held (dec_links x0)) with (held x0). change (canon (dec_links x0)) with (canon x0).
    assert (Hz : (0 <? links (dec_links x0)) = negb (links (dec_links x0) =? 0)).
    { destruct (N.eqb_spec (links (dec_links x0)) 0) as [E|E]; destruct (N.ltb_spec 0 (links (dec_links x0))); simpl; auto; lia. }
    rewrite H1 in Hn.
    destruct (links (dec_links x0) =? 0) eqn:EZ; cbn [fst snd]; rewrite Hz in H2; cbn [negb app] in H2.
    + split; [reflexivity|]. split; [split; [exact HW1|rewrite H2; apply (nodupk_mid _ _ _ Hn)]|].
      split; [exact HS1|]. split.
      * unfold abs_c. rewrite H2. destruct (nodupk_mid _ _ _ Hn) as [_ Hnone].
        apply kmatch_keys in Hk0. destruct Hk0 as [K1 K2]. rewrite K1, K2 in Hnone. rewrite Hnone. reflexivity.
      * intros d i Hsk. unfold abs_c. rewrite H1, H2.
        assert (Hko : kmatch x0 d i = false).
        { apply kmatch_keys in Hk0. destruct Hk0 as [K1 K2]. unfold kmatch. rewrite K1, K2. exact Hsk. }
        rewrite (alookup_mid_other P x0 Q d i Hko). reflexivity.
    + split; [reflexivity|].
      assert (Hn' : nodupk (P ++ set_held e (dec_links x0) :: Q)) by (eapply nodupk_mid_replace; [|exact Hn]; reflexivity).
      split; [split; [exact HW1|rewrite H2; exact Hn']|].
      split; [exact HS1|]. split.
      * unfold abs_c. rewrite H2.
        rewrite (alookup_unique (P ++ set_held e (dec_links x0) :: Q) (edev e) (eino e) (set_held e (dec_links x0))); auto.
        apply in_or_app; right; left; reflexivity.
      * intros d i Hsk. unfold abs_c. rewrite H1, H2.
        assert (Hko : kmatch x0 d i = false).
        { apply kmatch_keys in Hk0. destruct Hk0 as [K1 K2]. unfold kmatch. rewrite K1, K2. exact Hsk. }
        rewrite (alookup_mid_other P x0 Q d i Hko).
        rewrite (alookup_mid_other P (set_held e (dec_links x0)) Q d i Hko). reflexivity.
  - pose proof (find_entry_none_alookup _ _ _ HW F) as Hnone.
    assert (Habs : abs_c t (edev e) (eino e) = None) by (unfold abs_c; rewrite Hnone; reflexivity).
    exists (insert_entry t e (Some e)). rewrite Habs. cbn [out_c fst snd].
    split; [reflexivity|].
    destruct HW as [Hpw Hs].
    pose proof (insert_entry_les t e (Some e) Hpw) as HP.
    assert (Hn' : nodupk (new_le e (Some e) :: les t)) by (split; [exact Hnone|exact Hn]).
    split; [split; [apply insert_entry_WF; split; auto|]|split; [reflexivity|split]].
    + eapply nodupk_perm; [symmetry; exact HP|exact Hn'].
    + unfold abs_c. rewrite (alookup_perm _ _ (edev e) (eino e) HP).
      2:{ eapply nodupk_perm; [symmetry; exact HP|exact Hn']. }
      cbn [alookup]. rewrite kmatch_self_e. reflexivity.
    + intros d i Hsk. unfold abs_c. rewrite (alookup_perm _ _ d i HP).
      2:{ eapply nodupk_perm; [symmetry; exact HP|exact Hn']. }
      cbn [alookup]. unfold kmatch. change (canon (new_le e (Some e))) with e.
      unfold same_key in Hsk. rewrite Hsk. reflexivity.
Qed.

Theorem newcpio_refines : forall es t t' os,
  Good t -> strategy t = LINKIFY_LIKE_NEW_CPIO -> push_all t es = (t', os) ->
  Good t' /\ strategy t' = LINKIFY_LIKE_NEW_CPIO /\ length os = length es /\
  forall d i,
    outs_for d i es os = fst (cpio_spec (abs_c t d i) (filter (same_key d i) es)) /\
    abs_c t' d i = snd (cpio_spec (abs_c t d i) (filter (same_key d i) es)).
Proof.
  induction es as [|e r IH]; intros t t' os HG HS H; cbn [push_all] in H.
  - inversion H; subst. split; [exact HG|]. split; [exact HS|]. split; [reflexivity|]. intros d i. split; reflexivity.
  - destruct (linkify t e) as [t1 o] eqn:EL. destruct (push_all t1 r) as [t2 os2] eqn:EP.
    inversion H; subst; clear H.
    destruct (is_passthrough e) eqn:EPass.
    + assert (Ht1 : t1 = t /\ o = (Some e, None)).
      { unfold linkify in EL. rewrite EPass in EL. inversion EL; auto. }
      destruct Ht1 as [-> ->].
      destruct (IH _ _ _ HG HS EP) as (G2 & S2 & L2 & K2).
      split; [exact G2|]. split; [exact S2|]. split; [simpl; f_equal; exact L2|].
      intros d i. destruct (K2 d i) as [KA KB].
      unfold outs_for in *. cbn [combine flat_map fst snd filter].
      destruct (same_key d i e) eqn:ES.
      * cbn [cpio_spec]. rewrite EPass.
        destruct (cpio_spec (abs_c t d i) (filter (same_key d i) r)) as [oo ss] eqn:EK.
        cbn [fst snd app] in *. rewrite KA. split; [reflexivity|exact KB].
      * cbn [app]. split; [exact KA|exact KB].
    + destruct (newcpio_push t e HG HS EPass) as (t1' & EL' & G1 & S1 & A1 & F1).
      rewrite EL in EL'. inversion EL'; subst t1' o; clear EL'.
      assert (HS1 : strategy t1 = LINKIFY_LIKE_NEW_CPIO) by congruence.
      destruct (IH _ _ _ G1 HS1 EP) as (G2 & S2 & L2 & K2).
      split; [exact G2|]. split; [exact S2|]. split; [simpl; f_equal; exact L2|].
      intros d i. destruct (K2 d i) as [KA KB].
      unfold outs_for in *. cbn [combine flat_map fst snd filter].
      destruct (same_key d i e) eqn:ES.
      * apply same_key_eq in ES. destruct ES as [<- <-].
        cbn [cpio_spec]. rewrite EPass. rewrite A1 in KA, KB.
        destruct (out_c (abs_c t (edev e) (eino e)) e) as [x st'] eqn:EO. cbn [fst snd] in *.
        destruct (cpio_spec st' (filter (same_key (edev e) (eino e)) r)) as [oo ss] eqn:EK.
        cbn [fst snd app] in *. rewrite KA. split; [reflexivity|exact KB].
      * cbn [app]. rewrite (F1 d i ES) in KA, KB. split; [exact KA|exact KB].
Qed.

Lemma init_abs_c strat d i : abs_c (init_table strat) d i = None.
Proof. unfold abs_c, les, init_table; cbn [buckets]. rewrite repeat_nil_concat. reflexivity. Qed.
