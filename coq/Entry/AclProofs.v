(* C15 - lemmas about the ACL text model (Entry/AclDefs.v), collected:
   AclLen    - length bound of the serialiser (memory safety of archive_acl_to_text_l/_w)
   AclParse  - the parser is total and reads only inside its input (and where it is not)
   AclRound  - to_text followed by from_text gives the entries back, POSIX.1e
   AclRound4 - the same for NFSv4
   AclInv    - invariants of archive_acl_add_entry, round trip for every ACL the API can build *)
From LA Require Export Entry.AclLen Entry.AclParse Entry.AclRound Entry.AclRound4 Entry.AclInv.
