(* Executable model of the archive_entry object (libarchive/archive_entry.c, archive_entry_sparse.c,
   archive_entry_xattr.c, archive_entry_copy_stat.c, archive_entry_stat.c) for property C14, and the
   abstract "last relevant setter wins" specification it is proved to refine (EntryProofs.v).
   Definitions only.  Constants come from Gen/EntryConsts.v (regenerated from the tree on every run).

   Modelled calls (archive_entry_ prefix omitted):
     set_{a,birth,c,m}time unset_{a,birth,c,m}time; set_uid set_gid set_ino set_ino64 set_size
     unset_size set_nlink; set_mode set_perm set_filetype; acl_add_entry for the three entries that
     live in the mode (user::, group::, other::); set_dev set_devmajor set_devminor set_rdev
     set_rdevmajor set_rdevminor; set_symlink_type; set_is_data_encrypted set_is_metadata_encrypted;
     {set,set_*_utf8,copy,copy_*_w,update_*_utf8,_copy_*_l} for hardlink, symlink, link;
     set_link_to_hardlink set_link_to_symlink; the same six variants for pathname, uname, gname;
     copy_sourcepath(_w); copy_fflags_text(_w) (text only); sparse_add_entry sparse_clear;
     xattr_add_entry xattr_clear; copy_stat; clear; clone;
   and every getter of these fields incl. the *_is_set ones, sparse_reset/next, xattr_reset/next,
   archive_entry_stat (with its cache).  Not modelled: other ACL entries, fflags bitmaps and their
   text conversion, mac_metadata, digests, strmode, the *_l getters, copy_bhfi.

   The parameter [lg : bool] ("legacy") selects, in four places (do_hardlink, split, with_mode_acl,
   clone), the behaviour of the tree BEFORE the fixes fixes/C14-*.diff; [lg = false] is the
   behaviour of the fixed tree and is what the extracted runner executes.  The legacy variants
   exist so that the findings can be stated in Coq (Properties_C14.v, theorems *_legacy_*_refuted).
   (A fifth finding, the dangling iterator left by archive_entry_sparse_reset, is a memory-safety
   matter below the level of this model; the harness reports it.)

   Strings: every string field is an [option bytes] (None = NULL).  The three stored forms of an
   archive_mstring (mbs / wcs / utf8) and their lazy conversions are NOT part of the entry model: in
   the C.UTF-8 locale and for valid, NFC-stable UTF-8 input all setter variants store the same bytes
   and all views return them; the correspondence harness reports any disagreement of the views.
   (A separate small model of archive_mstring at the end of this file carries the views-agree theorem.)

   Platform: glibc x86-64 (64-bit time_t / long / dev_t / ino_t / nlink_t, 32-bit mode_t / uid_t /
   gid_t, gnu_dev_major / minor / makedev bit layout, struct stat with st_?tim.tv_nsec, no birthtime). *)
From Coq Require Import List ZArith Bool.
From LA Require Import Base.Val Gen.EntryConsts.
Import ListNotations.
Local Open Scope Z_scope.

(* ---------------------------------------------------------------- C integer conversions *)
Definition u32 (z : Z) : Z := z mod 2^32.
Definition u64 (z : Z) : Z := z mod 2^64.
Definition s64 (z : Z) : Z := (z + 2^63) mod 2^64 - 2^63.
Definition INT64_MAX : Z := 2^63 - 1.

(* ---------------------------------------------------------------- the ae_set bitmap *)
Definition fl_get (s f : Z) : Z := Z.land s f.                 (* s & F   (what *_is_set returns) *)
Definition fl_tst (s f : Z) : bool := negb (Z.land s f =? 0).  (* (s & F) != 0 *)
Definition fl_set (s f : Z) : Z := Z.lor s f.                  (* s |= F *)
Definition fl_clr (s f : Z) : Z := Z.land s (Z.lnot f).        (* s &= ~F *)

(* ---------------------------------------------------------------- FIX_NS *)
(* t += ns / D; ns %= D; if (ns < 0) { --t; ns += D; }   with C's truncating / and %, int64 wrap *)
Definition fix_ns (t ns : Z) : Z * Z :=
  let t1 := s64 (t + Z.quot ns FIX_NS_DIV) in
  let n1 := Z.rem ns FIX_NS_DIV in
  if n1 <? 0 then (s64 (t1 - 1), n1 + FIX_NS_DIV) else (t1, n1).

(* ---------------------------------------------------------------- glibc dev_t layout
   gnu_dev_major: bits 8..19 -> 0..11, bits 44..63 -> 12..31
   gnu_dev_minor: bits 0..7 -> 0..7,   bits 20..43 -> 8..31
   gnu_dev_makedev(unsigned major, unsigned minor): the inverse *)
Definition dev_major (d : Z) : Z := (d / 2^8) mod 2^12 + 2^12 * ((d / 2^44) mod 2^20).
Definition dev_minor (d : Z) : Z := d mod 2^8 + 2^8 * ((d / 2^20) mod 2^24).
Definition dev_make (ma mi : Z) : Z :=
  let a := u32 ma in let b := u32 mi in
  (a mod 2^12) * 2^8 + (a / 2^12) * 2^44 + b mod 2^8 + (b / 2^8) * 2^20.

(* ---------------------------------------------------------------- the object *)
Record tm := mkTm { sec : Z; nsec : Z }.
Record times := mkTimes { t_a : tm; t_b : tm; t_c : tm; t_m : tm }.
Record ids := mkIds { uid : Z; gid : Z; ino : Z; size : Z; nlink : Z }.
Record dv := mkDv { bd : bool; comb : Z; maj : Z; mnr : Z }.   (* is_broken_down, dev, devmajor, devminor *)
Record strs := mkStrs { linkname : option bytes; pathname : option bytes; uname : option bytes;
                        gname : option bytes; sourcepath : option bytes; fflags : option bytes }.

Record entry := mkEntry {
  tms : times;
  idv : ids;
  dev : dv;
  rdev : dv;
  mode : Z;                       (* acl.mode (mode_t) *)
  aset : Z;                       (* ae_set *)
  str : strs;
  symtype : Z;                    (* ae_symlink_type (int) *)
  enc : Z;                        (* encryption (char) *)
  sparse_r : list (Z * Z);        (* sparse list, TAIL FIRST (head of this list = sparse_tail) *)
  xattrs : list (bytes * bytes);  (* xattr list from xattr_head (most recently added first) *)
  stat_valid : bool;
  stat_c : list Z                 (* the cached struct stat (fields listed at stat_compute) *)
}.

Definition tm0 := mkTm 0 0.
Definition dv0 := mkDv false 0 0 0.
Definition init : entry :=
  mkEntry (mkTimes tm0 tm0 tm0 tm0) (mkIds 0 0 0 0 0) dv0 dv0 0 0
          (mkStrs None None None None None None) AE_SYMLINK_TYPE_UNDEFINED 0 [] [] false [].

(* field updates; every update of an aest field or of the mode also clears stat_valid *)
Definition with_tms (e : entry) v := mkEntry v (idv e) (dev e) (rdev e) (mode e) (aset e) (str e) (symtype e) (enc e) (sparse_r e) (xattrs e) false (stat_c e).
Definition with_idv (e : entry) v := mkEntry (tms e) v (dev e) (rdev e) (mode e) (aset e) (str e) (symtype e) (enc e) (sparse_r e) (xattrs e) false (stat_c e).
Definition with_dev (e : entry) v := mkEntry (tms e) (idv e) v (rdev e) (mode e) (aset e) (str e) (symtype e) (enc e) (sparse_r e) (xattrs e) false (stat_c e).
Definition with_rdev (e : entry) v := mkEntry (tms e) (idv e) (dev e) v (mode e) (aset e) (str e) (symtype e) (enc e) (sparse_r e) (xattrs e) false (stat_c e).
Definition with_mode (e : entry) v := mkEntry (tms e) (idv e) (dev e) (rdev e) v (aset e) (str e) (symtype e) (enc e) (sparse_r e) (xattrs e) false (stat_c e).
(* mode changed through the ACL code (acl_special): stat_valid is NOT cleared by the legacy tree *)
Definition with_mode_acl (lg : bool) (e : entry) v := mkEntry (tms e) (idv e) (dev e) (rdev e) v (aset e) (str e) (symtype e) (enc e) (sparse_r e) (xattrs e) (if lg then stat_valid e else false) (stat_c e).
Definition with_aset (e : entry) v := mkEntry (tms e) (idv e) (dev e) (rdev e) (mode e) v (str e) (symtype e) (enc e) (sparse_r e) (xattrs e) (stat_valid e) (stat_c e).
Definition with_str (e : entry) v := mkEntry (tms e) (idv e) (dev e) (rdev e) (mode e) (aset e) v (symtype e) (enc e) (sparse_r e) (xattrs e) (stat_valid e) (stat_c e).
Definition with_symtype (e : entry) v := mkEntry (tms e) (idv e) (dev e) (rdev e) (mode e) (aset e) (str e) v (enc e) (sparse_r e) (xattrs e) (stat_valid e) (stat_c e).
Definition with_enc (e : entry) v := mkEntry (tms e) (idv e) (dev e) (rdev e) (mode e) (aset e) (str e) (symtype e) v (sparse_r e) (xattrs e) (stat_valid e) (stat_c e).
Definition with_sparse (e : entry) v := mkEntry (tms e) (idv e) (dev e) (rdev e) (mode e) (aset e) (str e) (symtype e) (enc e) v (xattrs e) (stat_valid e) (stat_c e).
Definition with_xattrs (e : entry) v := mkEntry (tms e) (idv e) (dev e) (rdev e) (mode e) (aset e) (str e) (symtype e) (enc e) (sparse_r e) v (stat_valid e) (stat_c e).
Definition with_stat (e : entry) v := mkEntry (tms e) (idv e) (dev e) (rdev e) (mode e) (aset e) (str e) (symtype e) (enc e) (sparse_r e) (xattrs e) true v.

Definition flag_on (e : entry) (f : Z) := with_aset e (fl_set (aset e) f).
Definition flag_off (e : entry) (f : Z) := with_aset e (fl_clr (aset e) f).
Definition has (e : entry) (f : Z) : bool := fl_tst (aset e) f.

(* ---------------------------------------------------------------- operations *)
Inductive timek := KA | KB | KC | KM.                 (* atime birthtime ctime mtime *)
Inductive idk := KUid | KGid | KIno | KIno64 | KSize | KNlink.
Inductive devw := DDev | DRdev.
Inductive devp := PComb | PMaj | PMin.                (* set_dev / set_devmajor / set_devminor *)
Inductive linkfam := LHard | LSym | LLink.
(* setter variants: set (mbs) / set_utf8 / copy / copy_w / update_utf8 / _copy_l(sc = NULL) *)
Inductive svar := VSet | VSetUtf8 | VCopy | VCopyW | VUpdate | VCopyL.
Inductive sfield := FPath | FUname | FGname | FSource | FFflags.
Inductive acltag := TUserObj | TGroupObj | TOther.

Record statarg := mkStatarg {     (* the fields of a struct stat that archive_entry_copy_stat reads *)
  sa_atime : Z; sa_atime_ns : Z; sa_ctime : Z; sa_ctime_ns : Z; sa_mtime : Z; sa_mtime_ns : Z;
  sa_dev : Z; sa_gid : Z; sa_uid : Z; sa_ino : Z; sa_nlink : Z; sa_rdev : Z; sa_size : Z; sa_mode : Z }.

Inductive op :=
| OTime (k : timek) (t ns : Z)          (* archive_entry_set_{a,birth,c,m}time *)
| OUnsetTime (k : timek)                (* archive_entry_unset_{a,birth,c,m}time *)
| OId (k : idk) (v : Z)                 (* set_uid set_gid set_ino set_ino64 set_size set_nlink *)
| OUnsetSize
| OMode (m : Z) | OPerm (p : Z) | OFiletype (t : Z)
| OAclSpecial (tag : acltag) (permset : Z)   (* archive_entry_acl_add_entry(e, ACCESS, permset & 7, tag, -1, NULL) *)
| ODev (w : devw) (p : devp) (v : Z)
| OSymtype (v : Z)
| OEncData (v : Z) | OEncMeta (v : Z)   (* set_is_data_encrypted / set_is_metadata_encrypted (char) *)
| OLink (f : linkfam) (v : svar) (a : option bytes)
| OLinkTo (f : linkfam)                 (* set_link_to_hardlink / set_link_to_symlink (LLink: no-op, not generated) *)
| OStr (f : sfield) (v : svar) (a : option bytes)
| OSparseAdd (off len : Z) | OSparseClear
| OXattrAdd (name value : bytes) | OXattrClear
| OCopyStat (s : statarg)
| OClear.

Definition get_tm (k : timek) (t : times) : tm :=
  match k with KA => t_a t | KB => t_b t | KC => t_c t | KM => t_m t end.
Definition set_tm (k : timek) (t : times) (v : tm) : times :=
  match k with
  | KA => mkTimes v (t_b t) (t_c t) (t_m t) | KB => mkTimes (t_a t) v (t_c t) (t_m t)
  | KC => mkTimes (t_a t) (t_b t) v (t_m t) | KM => mkTimes (t_a t) (t_b t) (t_c t) v
  end.
Definition time_flag (k : timek) : Z :=
  match k with KA => AE_SET_ATIME | KB => AE_SET_BIRTHTIME | KC => AE_SET_CTIME | KM => AE_SET_MTIME end.

(* archive_entry_set_Xtime(entry, t, ns): t is time_t (int64), ns is long (int64) *)
Definition do_set_time (e : entry) (k : timek) (t ns : Z) : entry :=
  let '(t', n') := fix_ns (s64 t) (s64 ns) in
  flag_on (with_tms e (set_tm k (tms e) (mkTm t' (u32 n')))) (time_flag k).
Definition do_unset_time (e : entry) (k : timek) : entry :=
  flag_off (do_set_time e k 0 0) (time_flag k).

Definition clamp0 (v : Z) : Z := if v <? 0 then 0 else v.
Definition do_set_id (e : entry) (k : idk) (v : Z) : entry :=
  let i := idv e in
  match k with
  | KUid => flag_on (with_idv e (mkIds (clamp0 (s64 v)) (gid i) (ino i) (size i) (nlink i))) AE_SET_UID
  | KGid => flag_on (with_idv e (mkIds (uid i) (clamp0 (s64 v)) (ino i) (size i) (nlink i))) AE_SET_GID
  | KIno | KIno64 => flag_on (with_idv e (mkIds (uid i) (gid i) (clamp0 (s64 v)) (size i) (nlink i))) AE_SET_INO
  | KSize => flag_on (with_idv e (mkIds (uid i) (gid i) (ino i) (u64 (clamp0 (s64 v))) (nlink i))) AE_SET_SIZE
  | KNlink => with_idv e (mkIds (uid i) (gid i) (ino i) (size i) (u32 v))
  end.
Definition do_unset_size (e : entry) : entry := flag_off (do_set_id e KSize 0) AE_SET_SIZE.

(* ~AE_IFMT as a 32-bit mode_t *)
Definition PERM_MASK : Z := Z.land (Z.lnot AE_IFMT) (Z.ones 32).
Definition do_set_mode (e : entry) (m : Z) : entry :=
  flag_on (with_mode e (u32 m)) (Z.lor AE_SET_PERM AE_SET_FILETYPE).
Definition do_set_perm (e : entry) (p : Z) : entry :=
  flag_on (with_mode e (Z.lor (Z.land (mode e) AE_IFMT) (Z.land PERM_MASK (u32 p)))) AE_SET_PERM.
Definition do_set_filetype (e : entry) (t : Z) : entry :=
  flag_on (with_mode e (Z.lor (Z.land (mode e) PERM_MASK) (Z.land AE_IFMT (u32 t)))) AE_SET_FILETYPE.
(* acl_special(): acl->mode &= ~0700; acl->mode |= (permset & 7) << 6;  etc. *)
Definition acl_shift (t : acltag) : Z := match t with TUserObj => 6 | TGroupObj => 3 | TOther => 0 end.
Definition do_acl_special (lg : bool) (e : entry) (t : acltag) (permset : Z) : entry :=
  let sh := acl_shift t in
  with_mode_acl lg e (Z.lor (Z.land (mode e) (Z.land (Z.lnot (Z.shiftl 7 sh)) (Z.ones 32)))
                            (Z.shiftl (Z.land permset 7) sh)).

(* dev / rdev.  Fixed tree: set_devmajor / set_devminor first split a combined number. *)
Definition split (lg : bool) (d : dv) : dv :=
  if bd d then d else if lg then mkDv true (comb d) (maj d) (mnr d)
  else mkDv true (comb d) (dev_major (comb d)) (dev_minor (comb d)).
Definition do_set_dev (lg : bool) (e : entry) (p : devp) (v : Z) : entry :=
  let d := dev e in
  flag_on (with_dev e
    match p with
    | PComb => mkDv false (u64 v) (maj d) (mnr d)
    | PMaj => let d' := split lg d in mkDv true (comb d') (u64 v) (mnr d')
    | PMin => let d' := split lg d in mkDv true (comb d') (maj d') (u64 v)
    end) AE_SET_DEV.
Definition do_set_rdev (lg : bool) (e : entry) (p : devp) (v : Z) : entry :=
  let d := rdev e in
  flag_on (with_rdev e
    match p with
    | PComb => mkDv false (u64 v) 0 0
    | PMaj => let d' := split lg d in mkDv true 0 (u64 v) (mnr d')
    | PMin => let d' := split lg d in mkDv true 0 (maj d') (u64 v)
    end) AE_SET_RDEV.

(* encryption is a char; AE_ENCRYPTION_DATA = 1, AE_ENCRYPTION_METADATA = 2 *)
Definition char_nonzero (v : Z) : bool := negb (v mod 256 =? 0).
Definition do_enc (e : entry) (bit : Z) (v : Z) : entry :=
  with_enc e (if char_nonzero v then Z.lor (enc e) bit else Z.land (enc e) (Z.lnot bit)).

(* ---- the link name: one string, two flags *)
Definition set_linkname (e : entry) (a : option bytes) : entry :=
  let s := str e in with_str e (mkStrs a (pathname s) (uname s) (gname s) (sourcepath s) (fflags s)).
Definition is_some {A} (o : option A) : bool := match o with Some _ => true | None => false end.
Definition upd_ret (v : svar) : Z := match v with VUpdate => 1 | _ => 0 end.

Definition is_vset (v : svar) : bool := match v with VSet => true | _ => false end.
Definition do_hardlink (lg : bool) (e : entry) (v : svar) (a : option bytes) : entry * Z :=
  if is_vset v then                          (* archive_entry_set_hardlink *)
      match a with
      | None =>
          let e1 := flag_off e AE_SET_HARDLINK in
          if has e1 AE_SET_SYMLINK then (e1, 0)
          else (set_linkname (flag_off e1 AE_SET_SYMLINK) None, 0)
      | Some _ => (set_linkname (flag_off (flag_on e AE_SET_HARDLINK) AE_SET_SYMLINK) a, 0)
      end
  else                                       (* set_hardlink_utf8 copy_hardlink copy_hardlink_w update_hardlink_utf8 _copy_hardlink_l *)
      if negb (is_some a) && has e AE_SET_SYMLINK then (e, 0)
      else
        let e1 := if lg then e else flag_off e AE_SET_SYMLINK in
        let e2 := set_linkname e1 a in
        (if is_some a then flag_on e2 AE_SET_HARDLINK else flag_off e2 AE_SET_HARDLINK, upd_ret v).

Definition do_symlink (e : entry) (v : svar) (a : option bytes) : entry * Z :=
  if negb (is_some a) && has e AE_SET_HARDLINK then (e, 0)
  else
    let e2 := flag_off (set_linkname e a) AE_SET_HARDLINK in
    (if is_some a then flag_on e2 AE_SET_SYMLINK else flag_off e2 AE_SET_SYMLINK, upd_ret v).

Definition do_link (e : entry) (v : svar) (a : option bytes) : entry * Z :=
  let e1 := set_linkname e a in
  (if has e1 AE_SET_SYMLINK then e1 else flag_on e1 AE_SET_HARDLINK, upd_ret v).

Definition do_link_to (e : entry) (f : linkfam) : entry :=
  match f with
  | LHard => flag_on (if has e AE_SET_SYMLINK then flag_off e AE_SET_SYMLINK else e) AE_SET_HARDLINK
  | LSym => flag_on (if has e AE_SET_HARDLINK then flag_off e AE_SET_HARDLINK else e) AE_SET_SYMLINK
  | LLink => e
  end.

(* ---- plain strings *)
Definition do_str (e : entry) (f : sfield) (v : svar) (a : option bytes) : entry * Z :=
  let s := str e in
  match f with
  | FPath => (with_str e (mkStrs (linkname s) a (uname s) (gname s) (sourcepath s) (fflags s)), upd_ret v)
  | FUname => (with_str e (mkStrs (linkname s) (pathname s) a (gname s) (sourcepath s) (fflags s)), upd_ret v)
  | FGname => (with_str e (mkStrs (linkname s) (pathname s) (uname s) a (sourcepath s) (fflags s)), upd_ret v)
  | FSource => (with_str e (mkStrs (linkname s) (pathname s) (uname s) (gname s) a (fflags s)), 0)
  | FFflags =>       (* archive_entry_copy_fflags_text needs a non-NULL argument: NULL is skipped by the harness *)
      match a with
      | None => (e, 0)
      | Some _ => (with_str e (mkStrs (linkname s) (pathname s) (uname s) (gname s) (sourcepath s) a), 0)
      end
  end.

(* ---- sparse map (archive_entry_sparse.c) *)
Definition sparse_add (sz : Z) (l : list (Z * Z)) (off len : Z) : list (Z * Z) :=
  if (off <? 0) || (len <? 0) then l
  else if (off >? INT64_MAX - len) || (off + len >? sz) then l
  else match l with
       | (o, n) :: rest =>
           if o + n >? off then l
           else if o + n =? off then
                  (if s64 (o + n + len) <? 0 then l else (o, n + len) :: rest)
           else (off, len) :: l
       | [] => [(off, len)]
       end.
Definition do_sparse_add (e : entry) (off len : Z) : entry :=
  with_sparse e (sparse_add (s64 (size (idv e))) (sparse_r e) (s64 off) (s64 len)).
(* archive_entry_sparse_count: a single block that covers the whole file is removed *)
Definition sparse_norm (sz : Z) (l : list (Z * Z)) : list (Z * Z) :=
  match l with
  | [(o, n)] => if (o =? 0) && (n >=? sz) then [] else l
  | _ => l
  end.

Definition step1 (lg : bool) (e : entry) (o : op) : entry * Z :=
  match o with
  | OTime k t ns => (do_set_time e k t ns, 0)
  | OUnsetTime k => (do_unset_time e k, 0)
  | OId k v => (do_set_id e k v, 0)
  | OUnsetSize => (do_unset_size e, 0)
  | OMode m => (do_set_mode e m, 0)
  | OPerm p => (do_set_perm e p, 0)
  | OFiletype t => (do_set_filetype e t, 0)
  | OAclSpecial t p => (do_acl_special lg e t p, 0)
  | ODev DDev p v => (do_set_dev lg e p v, 0)
  | ODev DRdev p v => (do_set_rdev lg e p v, 0)
  | OSymtype v => (with_symtype e (s64 v mod 2^32 - (if s64 v mod 2^32 <? 2^31 then 0 else 2^32)), 0)
  | OEncData v => (do_enc e 1 v, 0)
  | OEncMeta v => (do_enc e 2 v, 0)
  | OLink LHard v a => do_hardlink lg e v a
  | OLink LSym v a => do_symlink e v a
  | OLink LLink v a => do_link e v a
  | OLinkTo f => (do_link_to e f, 0)
  | OStr f v a => do_str e f v a
  | OSparseAdd off len => (do_sparse_add e off len, 0)
  | OSparseClear => (with_sparse e [], 0)
  | OXattrAdd n v => (with_xattrs e ((n, v) :: xattrs e), 0)
  | OXattrClear => (with_xattrs e [], 0)
  | OCopyStat s => (e, 0)                        (* see step *)
  | OClear => (init, 0)
  end.

(* archive_entry_copy_stat is this sequence of setter calls (Linux: nanoseconds in st_?tim.tv_nsec, no
   st_birthtime; gid_t/uid_t/mode_t are unsigned 32 bit, ino_t/nlink_t unsigned 64 bit) *)
Definition copy_stat_ops (a : statarg) : list op :=
  [ OTime KA (sa_atime a) (sa_atime_ns a); OTime KC (sa_ctime a) (sa_ctime_ns a);
    OTime KM (sa_mtime a) (sa_mtime_ns a); OUnsetTime KB;
    ODev DDev PComb (sa_dev a); OId KGid (u32 (sa_gid a)); OId KUid (u32 (sa_uid a));
    OId KIno (u64 (sa_ino a)); OId KNlink (u64 (sa_nlink a)); ODev DRdev PComb (sa_rdev a);
    OId KSize (sa_size a); OMode (sa_mode a) ].

Definition step (lg : bool) (e : entry) (o : op) : entry * Z :=
  match o with
  | OCopyStat a => (fold_left (fun e o => fst (step1 lg e o)) (copy_stat_ops a) e, 0)
  | _ => step1 lg e o
  end.

(* archive_entry_clone: ae_stat, strings, ae_set, symlink type, encryption, mode (through
   archive_acl_copy) are copied; the xattr list is re-added from the head (so it comes out
   reversed); the stat cache is not copied.  Legacy tree: the sparse blocks are re-added through
   archive_entry_sparse_add_entry, i.e. validated again against the CURRENT size. *)
Definition clone (lg : bool) (e : entry) : entry :=
  let sp := if lg then fold_left (fun acc b => sparse_add (s64 (size (idv e))) acc (fst b) (snd b)) (rev (sparse_r e)) []
            else sparse_r e in
  mkEntry (tms e) (idv e) (dev e) (rdev e) (mode e) (aset e) (str e) (symtype e) (enc e)
          sp (rev (xattrs e)) false [].

(* ---------------------------------------------------------------- getters *)
Definition g_dev (d : dv) : Z := if bd d then dev_make (maj d) (mnr d) else comb d.
Definition g_major (d : dv) : Z := if bd d then maj d else dev_major (comb d).
Definition g_minor (d : dv) : Z := if bd d then mnr d else dev_minor (comb d).
Definition g_filetype (e : entry) : Z := Z.land AE_IFMT (mode e).
Definition g_perm (e : entry) : Z := Z.land PERM_MASK (mode e).
Definition g_hardlink (e : entry) : option bytes := if has e AE_SET_HARDLINK then linkname (str e) else None.
Definition g_symlink (e : entry) : option bytes := if has e AE_SET_SYMLINK then linkname (str e) else None.
Definition rdev_guard (e : entry) (v : Z) : Z := if has e AE_SET_RDEV then v else 0.

(* the fields of struct stat that archive_entry_stat fills, in the order the harness prints them:
   st_atime st_ctime st_mtime st_dev st_gid st_uid st_ino st_nlink st_rdev st_size st_mode
   st_atim.tv_nsec st_ctim.tv_nsec st_mtim.tv_nsec *)
Definition stat_compute (e : entry) : list Z :=
  [ sec (t_a (tms e)); sec (t_c (tms e)); sec (t_m (tms e)); g_dev (dev e);
    u32 (gid (idv e)); u32 (uid (idv e)); u64 (ino (idv e)); nlink (idv e);
    rdev_guard e (g_dev (rdev e)); s64 (size (idv e)); mode e;
    nsec (t_a (tms e)); nsec (t_c (tms e)); nsec (t_m (tms e)) ].
(* archive_entry_stat: returns the cached structure while stat_valid *)
Definition do_stat (e : entry) : entry * list Z :=
  if stat_valid e then (e, stat_c e) else let s := stat_compute e in (with_stat e s, s).

(* all getters of one object, as the harness prints them.  Reading the sparse map
   (archive_entry_sparse_reset) and the stat structure changes the object. *)
Record obs := mkObs {
  o_times : list (Z * Z * Z);            (* atime birthtime ctime mtime: sec, nsec, raw is_set value *)
  o_ids : list Z;                        (* uid uid_is_set gid gid_is_set ino ino64 ino_is_set size size_is_set nlink *)
  o_mode : list Z;                       (* mode perm perm_is_set filetype filetype_is_set *)
  o_dev : list Z;                        (* dev dev_is_set devmajor devminor rdev rdev_is_set rdevmajor rdevminor *)
  o_misc : list Z;                       (* symlink_type is_data_encrypted is_metadata_encrypted is_encrypted *)
  o_hardlink : option bytes; o_hardlink_is_set : Z; o_symlink : option bytes;
  o_strs : list (option bytes);          (* pathname uname gname sourcepath fflags_text *)
  o_sparse : list (Z * Z);               (* head to tail, after archive_entry_sparse_reset *)
  o_xattr : list (bytes * bytes);        (* in archive_entry_xattr_next order *)
  o_stat : list Z
}.

Definition b2z (b : bool) : Z := if b then 1 else 0.
Definition obs_time (e : entry) (k : timek) : Z * Z * Z :=
  (sec (get_tm k (tms e)), nsec (get_tm k (tms e)), fl_get (aset e) (time_flag k)).

Definition observe (e : entry) : entry * obs :=
  let e1 := with_sparse e (sparse_norm (s64 (size (idv e))) (sparse_r e)) in
  let '(e2, st) := do_stat e1 in
  let i := idv e in
  (e2, mkObs
    [obs_time e KA; obs_time e KB; obs_time e KC; obs_time e KM]
    [uid i; fl_get (aset e) AE_SET_UID; gid i; fl_get (aset e) AE_SET_GID; ino i; ino i;
     fl_get (aset e) AE_SET_INO; s64 (size i); fl_get (aset e) AE_SET_SIZE; nlink i]
    [mode e; g_perm e; fl_get (aset e) AE_SET_PERM; g_filetype e; fl_get (aset e) AE_SET_FILETYPE]
    [g_dev (dev e); fl_get (aset e) AE_SET_DEV; g_major (dev e); g_minor (dev e);
     rdev_guard e (g_dev (rdev e)); fl_get (aset e) AE_SET_RDEV;
     rdev_guard e (g_major (rdev e)); rdev_guard e (g_minor (rdev e))]
    [symtype e; b2z (Z.land (enc e) 1 =? 1); b2z (Z.land (enc e) 2 =? 2); Z.land (enc e) 3]
    (g_hardlink e) (b2z (has e AE_SET_HARDLINK)) (g_symlink e)
    [pathname (str e); uname (str e); gname (str e); sourcepath (str e); fflags (str e)]
    (rev (sparse_r e1)) (xattrs e) st).

(* ---------------------------------------------------------------- the machine the harness runs:
   an object, optionally a clone; after every step all getters of both are read *)
Inductive mop := MOp (o : op) | MClone | MSwap.
Definition mstate := (entry * option entry)%type.
Definition mstep (lg : bool) (s : mstate) (m : mop) : mstate * Z :=
  match m with
  | MOp o => let '(e', r) := step lg (fst s) o in ((e', snd s), r)
  | MClone => ((fst s, Some (clone lg (fst s))), 0)
  | MSwap => match snd s with Some c => ((c, Some (fst s)), 0) | None => (s, 0) end
  end.
Definition mobserve (s : mstate) : mstate * (obs * option obs) :=
  let '(e', oe) := observe (fst s) in
  match snd s with
  | None => ((e', None), (oe, None))
  | Some c => let '(c', oc) := observe c in ((e', Some c'), (oe, Some oc))
  end.
Fixpoint mrun (lg : bool) (s : mstate) (ms : list mop) : list (Z * obs * option obs) :=
  match ms with
  | [] => []
  | m :: rest =>
      let '(s1, r) := mstep lg s m in
      let '(s2, (oe, oc)) := mobserve s1 in
      (r, oe, oc) :: mrun lg s2 rest
  end.

(* ================================================================ the abstract specification
   Every observable has its own variable holding the value given by the last relevant setter. *)
Definition tval := (Z * Z * bool)%type.     (* seconds, nanoseconds in [0, 10^9), is set *)
Record stimes := mkSt { st_a : tval; st_b : tval; st_c : tval; st_m : tval }.
Record sstrs := mkSs { ss_path : option bytes; ss_uname : option bytes; ss_gname : option bytes;
                       ss_source : option bytes; ss_fflags : option bytes }.
Record spec := mkSpec {
  s_times : stimes;
  s_uid : Z * bool; s_gid : Z * bool; s_ino : Z * bool; s_size : Z * bool; s_nlink : Z;
  s_filetype : Z * bool; s_perm : Z * bool; (* two disjoint parts of the mode, each with its flag *)
  s_dev : Z * Z * bool;                     (* (major, minor), is set *)
  s_rdev : Z * Z * bool;
  s_symtype : Z; s_encdata : bool; s_encmeta : bool;
  s_hard : option (option bytes);           (* None: no hard link; Some t: hard link with target t (t = None only after set_link(NULL)) *)
  s_sym : option (option bytes);
  s_strs : sstrs;
  s_sparse : list (Z * Z);                  (* tail first, as in the object *)
  s_xattr : list (bytes * bytes)            (* a multiset: compared up to permutation *)
}.

Definition tv0 : tval := (0, 0, false).
Definition spec_init : spec :=
  mkSpec (mkSt tv0 tv0 tv0 tv0) (0, false) (0, false) (0, false) (0, false) 0 (0, false) (0, false)
         (0, 0, false) (0, 0, false) AE_SYMLINK_TYPE_UNDEFINED false false None None
         (mkSs None None None None None) [] [].

Definition st_get (k : timek) (t : stimes) : tval :=
  match k with KA => st_a t | KB => st_b t | KC => st_c t | KM => st_m t end.
Definition st_set (k : timek) (t : stimes) (v : tval) : stimes :=
  match k with
  | KA => mkSt v (st_b t) (st_c t) (st_m t) | KB => mkSt (st_a t) v (st_c t) (st_m t)
  | KC => mkSt (st_a t) (st_b t) v (st_m t) | KM => mkSt (st_a t) (st_b t) (st_c t) v
  end.
Definition ss_get (f : sfield) (t : sstrs) : option bytes :=
  match f with FPath => ss_path t | FUname => ss_uname t | FGname => ss_gname t | FSource => ss_source t
  | FFflags => ss_fflags t end.
Definition ss_set (f : sfield) (t : sstrs) (v : option bytes) : sstrs :=
  match f with
  | FPath => mkSs v (ss_uname t) (ss_gname t) (ss_source t) (ss_fflags t)
  | FUname => mkSs (ss_path t) v (ss_gname t) (ss_source t) (ss_fflags t)
  | FGname => mkSs (ss_path t) (ss_uname t) v (ss_source t) (ss_fflags t)
  | FSource => mkSs (ss_path t) (ss_uname t) (ss_gname t) v (ss_fflags t)
  | FFflags => mkSs (ss_path t) (ss_uname t) (ss_gname t) (ss_source t) v
  end.

(* spec of the time normalisation: floor division, seconds wrapped into int64 *)
Definition norm_time (t ns : Z) : Z * Z := (s64 (s64 t + s64 ns / FIX_NS_DIV), s64 ns mod FIX_NS_DIV).

Definition sp_times (s : spec) v := mkSpec v (s_uid s) (s_gid s) (s_ino s) (s_size s) (s_nlink s) (s_filetype s) (s_perm s) (s_dev s) (s_rdev s) (s_symtype s) (s_encdata s) (s_encmeta s) (s_hard s) (s_sym s) (s_strs s) (s_sparse s) (s_xattr s).
Definition sp_time (s : spec) k v := sp_times s (st_set k (s_times s) v).
Definition sp_uid (s : spec) v := mkSpec (s_times s) v (s_gid s) (s_ino s) (s_size s) (s_nlink s) (s_filetype s) (s_perm s) (s_dev s) (s_rdev s) (s_symtype s) (s_encdata s) (s_encmeta s) (s_hard s) (s_sym s) (s_strs s) (s_sparse s) (s_xattr s).
Definition sp_gid (s : spec) v := mkSpec (s_times s) (s_uid s) v (s_ino s) (s_size s) (s_nlink s) (s_filetype s) (s_perm s) (s_dev s) (s_rdev s) (s_symtype s) (s_encdata s) (s_encmeta s) (s_hard s) (s_sym s) (s_strs s) (s_sparse s) (s_xattr s).
Definition sp_ino (s : spec) v := mkSpec (s_times s) (s_uid s) (s_gid s) v (s_size s) (s_nlink s) (s_filetype s) (s_perm s) (s_dev s) (s_rdev s) (s_symtype s) (s_encdata s) (s_encmeta s) (s_hard s) (s_sym s) (s_strs s) (s_sparse s) (s_xattr s).
Definition sp_size (s : spec) v := mkSpec (s_times s) (s_uid s) (s_gid s) (s_ino s) v (s_nlink s) (s_filetype s) (s_perm s) (s_dev s) (s_rdev s) (s_symtype s) (s_encdata s) (s_encmeta s) (s_hard s) (s_sym s) (s_strs s) (s_sparse s) (s_xattr s).
Definition sp_nlink (s : spec) v := mkSpec (s_times s) (s_uid s) (s_gid s) (s_ino s) (s_size s) v (s_filetype s) (s_perm s) (s_dev s) (s_rdev s) (s_symtype s) (s_encdata s) (s_encmeta s) (s_hard s) (s_sym s) (s_strs s) (s_sparse s) (s_xattr s).
Definition sp_filetype (s : spec) v := mkSpec (s_times s) (s_uid s) (s_gid s) (s_ino s) (s_size s) (s_nlink s) v (s_perm s) (s_dev s) (s_rdev s) (s_symtype s) (s_encdata s) (s_encmeta s) (s_hard s) (s_sym s) (s_strs s) (s_sparse s) (s_xattr s).
Definition sp_perm (s : spec) v := mkSpec (s_times s) (s_uid s) (s_gid s) (s_ino s) (s_size s) (s_nlink s) (s_filetype s) v (s_dev s) (s_rdev s) (s_symtype s) (s_encdata s) (s_encmeta s) (s_hard s) (s_sym s) (s_strs s) (s_sparse s) (s_xattr s).
Definition sp_dev (s : spec) v := mkSpec (s_times s) (s_uid s) (s_gid s) (s_ino s) (s_size s) (s_nlink s) (s_filetype s) (s_perm s) v (s_rdev s) (s_symtype s) (s_encdata s) (s_encmeta s) (s_hard s) (s_sym s) (s_strs s) (s_sparse s) (s_xattr s).
Definition sp_rdev (s : spec) v := mkSpec (s_times s) (s_uid s) (s_gid s) (s_ino s) (s_size s) (s_nlink s) (s_filetype s) (s_perm s) (s_dev s) v (s_symtype s) (s_encdata s) (s_encmeta s) (s_hard s) (s_sym s) (s_strs s) (s_sparse s) (s_xattr s).
Definition sp_symtype (s : spec) v := mkSpec (s_times s) (s_uid s) (s_gid s) (s_ino s) (s_size s) (s_nlink s) (s_filetype s) (s_perm s) (s_dev s) (s_rdev s) v (s_encdata s) (s_encmeta s) (s_hard s) (s_sym s) (s_strs s) (s_sparse s) (s_xattr s).
Definition sp_encdata (s : spec) v := mkSpec (s_times s) (s_uid s) (s_gid s) (s_ino s) (s_size s) (s_nlink s) (s_filetype s) (s_perm s) (s_dev s) (s_rdev s) (s_symtype s) v (s_encmeta s) (s_hard s) (s_sym s) (s_strs s) (s_sparse s) (s_xattr s).
Definition sp_encmeta (s : spec) v := mkSpec (s_times s) (s_uid s) (s_gid s) (s_ino s) (s_size s) (s_nlink s) (s_filetype s) (s_perm s) (s_dev s) (s_rdev s) (s_symtype s) (s_encdata s) v (s_hard s) (s_sym s) (s_strs s) (s_sparse s) (s_xattr s).
Definition sp_links (s : spec) h y := mkSpec (s_times s) (s_uid s) (s_gid s) (s_ino s) (s_size s) (s_nlink s) (s_filetype s) (s_perm s) (s_dev s) (s_rdev s) (s_symtype s) (s_encdata s) (s_encmeta s) h y (s_strs s) (s_sparse s) (s_xattr s).
Definition sp_strs (s : spec) v := mkSpec (s_times s) (s_uid s) (s_gid s) (s_ino s) (s_size s) (s_nlink s) (s_filetype s) (s_perm s) (s_dev s) (s_rdev s) (s_symtype s) (s_encdata s) (s_encmeta s) (s_hard s) (s_sym s) v (s_sparse s) (s_xattr s).
Definition sp_str (s : spec) k v := sp_strs s (ss_set k (s_strs s) v).
Definition sp_sparse (s : spec) v := mkSpec (s_times s) (s_uid s) (s_gid s) (s_ino s) (s_size s) (s_nlink s) (s_filetype s) (s_perm s) (s_dev s) (s_rdev s) (s_symtype s) (s_encdata s) (s_encmeta s) (s_hard s) (s_sym s) (s_strs s) v (s_xattr s).
Definition sp_xattr (s : spec) v := mkSpec (s_times s) (s_uid s) (s_gid s) (s_ino s) (s_size s) (s_nlink s) (s_filetype s) (s_perm s) (s_dev s) (s_rdev s) (s_symtype s) (s_encdata s) (s_encmeta s) (s_hard s) (s_sym s) (s_strs s) (s_sparse s) v.

Definition sp_set_time (s : spec) (k : timek) (t ns : Z) : spec :=
  sp_time s k (fst (norm_time t ns), snd (norm_time t ns), true).
Definition sp_set_id (s : spec) (k : idk) (v : Z) : spec :=
  match k with
  | KUid => sp_uid s (Z.max 0 (s64 v), true)
  | KGid => sp_gid s (Z.max 0 (s64 v), true)
  | KIno | KIno64 => sp_ino s (Z.max 0 (s64 v), true)
  | KSize => sp_size s (Z.max 0 (s64 v), true)
  | KNlink => sp_nlink s (u32 v)
  end.
Definition sp_set_mode (s : spec) (m : Z) : spec :=
  sp_perm (sp_filetype s (Z.land AE_IFMT (u32 m), true)) (Z.land PERM_MASK (u32 m), true).
Definition sp_set_dev (d : Z * Z * bool) (p : devp) (v : Z) : Z * Z * bool :=
  match p with
  | PComb => (dev_major (u64 v), dev_minor (u64 v), true)
  | PMaj => (u64 v, snd (fst d), true)
  | PMin => (fst (fst d), u64 v, true)
  end.

Definition sp_step1 (s : spec) (o : op) : spec * Z :=
  match o with
  | OTime k t ns => (sp_set_time s k t ns, 0)
  | OUnsetTime k => (sp_time s k tv0, 0)
  | OId k v => (sp_set_id s k v, 0)
  | OUnsetSize => (sp_size s (0, false), 0)
  | OMode m => (sp_set_mode s m, 0)
  | OPerm p => (sp_perm s (Z.land PERM_MASK (u32 p), true), 0)
  | OFiletype t => (sp_filetype s (Z.land AE_IFMT (u32 t), true), 0)
  | OAclSpecial t p =>      (* three permission bits of the perm part are replaced; the flag is untouched *)
      let sh := acl_shift t in
      (sp_perm s (Z.lor (Z.land (fst (s_perm s)) (Z.land (Z.lnot (Z.shiftl 7 sh)) (Z.ones 32)))
                        (Z.shiftl (Z.land p 7) sh), snd (s_perm s)), 0)
  | ODev DDev p v => (sp_dev s (sp_set_dev (s_dev s) p v), 0)
  | ODev DRdev p v => (sp_rdev s (sp_set_dev (s_rdev s) p v), 0)
  | OSymtype v => (sp_symtype s (s64 v mod 2^32 - (if s64 v mod 2^32 <? 2^31 then 0 else 2^32)), 0)
  | OEncData v => (sp_encdata s (char_nonzero v), 0)
  | OEncMeta v => (sp_encmeta s (char_nonzero v), 0)
  | OLink LHard v a =>
      match a with
      | Some t => (sp_links s (Some (Some t)) None, if is_vset v then 0 else upd_ret v)
      | None =>       (* a NULL target removes the hard link and leaves a symlink alone *)
          if is_vset v then (sp_links s None (s_sym s), 0)
          else if is_some (s_sym s) then (s, 0) else (sp_links s None None, upd_ret v)
      end
  | OLink LSym v a =>
      match a with
      | Some t => (sp_links s None (Some (Some t)), upd_ret v)
      | None => if is_some (s_hard s) then (s, 0) else (sp_links s None None, upd_ret v)
      end
  | OLink LLink v a =>      (* "set symlink if symlink is already set, else set hardlink" *)
      (if is_some (s_sym s) then sp_links s (s_hard s) (Some a) else sp_links s (Some a) (s_sym s), upd_ret v)
  | OLinkTo LHard =>        (* whatever link there is becomes a hard link *)
      (sp_links s (match s_sym s with Some t => Some t | None =>
                   match s_hard s with Some t => Some t | None => Some None end end) None, 0)
  | OLinkTo LSym =>
      (sp_links s None (match s_hard s with Some t => Some t | None =>
                        match s_sym s with Some t => Some t | None => Some None end end), 0)
  | OLinkTo LLink => (s, 0)
  | OStr FFflags v a => (match a with None => s | Some _ => sp_str s FFflags a end, 0)
  | OStr FSource v a => (sp_str s FSource a, 0)
  | OStr f v a => (sp_str s f a, upd_ret v)
  | OSparseAdd off len => (sp_sparse s (sparse_add (fst (s_size s)) (s_sparse s) (s64 off) (s64 len)), 0)
  | OSparseClear => (sp_sparse s [], 0)
  | OXattrAdd n v => (sp_xattr s ((n, v) :: s_xattr s), 0)
  | OXattrClear => (sp_xattr s [], 0)
  | OCopyStat a => (s, 0)       (* see sp_step *)
  | OClear => (spec_init, 0)
  end.
Definition sp_step (s : spec) (o : op) : spec * Z :=
  match o with
  | OCopyStat a => (fold_left (fun s o => fst (sp_step1 s o)) (copy_stat_ops a) s, 0)
  | _ => sp_step1 s o
  end.

(* reading the sparse map normalises it (the single-block rule) *)
Definition sp_read (s : spec) : spec := sp_sparse s (sparse_norm (fst (s_size s)) (s_sparse s)).

Definition flagv (b : bool) (f : Z) : Z := if b then f else 0.
Definition sp_obs_time (s : spec) (k : timek) : Z * Z * Z :=
  (fst (fst (st_get k (s_times s))), snd (fst (st_get k (s_times s))), flagv (snd (st_get k (s_times s))) (time_flag k)).
Definition sp_mode (s : spec) : Z := Z.lor (fst (s_filetype s)) (fst (s_perm s)).
Definition sp_devnum (d : Z * Z * bool) : Z := dev_make (fst (fst d)) (snd (fst d)).
Definition sp_stat (s : spec) : list Z :=
  [ fst (fst (st_a (s_times s))); fst (fst (st_c (s_times s))); fst (fst (st_m (s_times s))); sp_devnum (s_dev s);
    u32 (fst (s_gid s)); u32 (fst (s_uid s)); fst (s_ino s); s_nlink s; sp_devnum (s_rdev s);
    fst (s_size s); sp_mode s;
    snd (fst (st_a (s_times s))); snd (fst (st_c (s_times s))); snd (fst (st_m (s_times s))) ].

(* the observables of the specification, in the shape of [obs] *)
Definition sp_observe (s0 : spec) : obs :=
  let s := sp_read s0 in
  mkObs
    [sp_obs_time s KA; sp_obs_time s KB; sp_obs_time s KC; sp_obs_time s KM]
    [fst (s_uid s); flagv (snd (s_uid s)) AE_SET_UID; fst (s_gid s); flagv (snd (s_gid s)) AE_SET_GID;
     fst (s_ino s); fst (s_ino s); flagv (snd (s_ino s)) AE_SET_INO;
     fst (s_size s); flagv (snd (s_size s)) AE_SET_SIZE; s_nlink s]
    [sp_mode s; fst (s_perm s); flagv (snd (s_perm s)) AE_SET_PERM;
     fst (s_filetype s); flagv (snd (s_filetype s)) AE_SET_FILETYPE]
    [sp_devnum (s_dev s); flagv (snd (s_dev s)) AE_SET_DEV; fst (fst (s_dev s)); snd (fst (s_dev s));
     sp_devnum (s_rdev s); flagv (snd (s_rdev s)) AE_SET_RDEV; fst (fst (s_rdev s)); snd (fst (s_rdev s))]
    [s_symtype s; b2z (s_encdata s); b2z (s_encmeta s);
     Z.lor (if s_encdata s then 1 else 0) (if s_encmeta s then 2 else 0)]
    (match s_hard s with Some t => t | None => None end) (b2z (is_some (s_hard s)))
    (match s_sym s with Some t => t | None => None end)
    [ss_path (s_strs s); ss_uname (s_strs s); ss_gname (s_strs s); ss_source (s_strs s); ss_fflags (s_strs s)]
    (rev (s_sparse s)) (s_xattr s) (sp_stat s).

(* the specification of the machine: a clone is a copy; reading normalises the sparse map *)
Definition sstate := (spec * option spec)%type.
Definition sp_mstep (s : sstate) (m : mop) : sstate * Z :=
  match m with
  | MOp o => let '(e', r) := sp_step (fst s) o in ((e', snd s), r)
  | MClone => ((fst s, Some (fst s)), 0)
  | MSwap => match snd s with Some c => ((c, Some (fst s)), 0) | None => (s, 0) end
  end.
Fixpoint sp_mrun (s : sstate) (ms : list mop) : list (Z * obs * option obs) :=
  match ms with
  | [] => []
  | m :: rest =>
      let '(s1, r) := sp_mstep s m in
      let s2 := (sp_read (fst s1), option_map sp_read (snd s1)) in
      (r, sp_observe (fst s1), option_map sp_observe (snd s1)) :: sp_mrun s2 rest
  end.

(* ================================================================ archive_mstring (archive_string.c, POSIX branch)
   Three stored forms (multibyte in the locale, UTF-8, wide) with flags saying which are valid; the
   getters convert lazily and cache.  The locale conversions are parameters.  This small model is
   used only for the theorem that the three views of a string agree (EntryProofs.v, views_agree);
   the entry model above keeps one byte string per field. *)
Record conv := mkConv {
  m2w : bytes -> option (list N);      (* archive_wstring_append_from_mbs  (mbstowcs) *)
  w2m : list N -> option bytes;        (* archive_string_append_from_wcs   (wcstombs) *)
  u2m : bytes -> option bytes;         (* archive_strncpy_l, UTF-8 -> locale *)
  m2u : bytes -> option bytes }.       (* archive_strncpy_l, locale -> UTF-8 *)
Record mstr := mkMstr { has_mbs : bool; has_utf8 : bool; has_wcs : bool;
                        f_mbs : bytes; f_utf8 : bytes; f_wcs : list N }.
Definition ms_copy_mbs (s : bytes) : mstr := mkMstr true false false s [] [].
Definition ms_copy_utf8 (s : bytes) : mstr := mkMstr false true false [] s [].
Definition ms_copy_wcs (w : list N) : mstr := mkMstr false false true [] [] w.

(* archive_mstring_get_mbs; result None = NULL or conversion failure *)
Definition ms_get_mbs (c : conv) (m : mstr) : mstr * option bytes :=
  if has_mbs m then (m, Some (f_mbs m))
  else
    match (if has_wcs m then w2m c (f_wcs m) else None) with
    | Some b => (mkMstr true (has_utf8 m) (has_wcs m) b (f_utf8 m) (f_wcs m), Some b)
    | None =>
        match (if has_utf8 m then u2m c (f_utf8 m) else None) with
        | Some b => (mkMstr true (has_utf8 m) (has_wcs m) b (f_utf8 m) (f_wcs m), Some b)
        | None => (m, None)
        end
    end.
(* archive_mstring_get_wcs: "try converting UTF8 to MBS first if MBS does not exist yet" *)
Definition ms_get_wcs (c : conv) (m : mstr) : mstr * option (list N) :=
  if has_wcs m then (m, Some (f_wcs m))
  else
    let m1 := if has_mbs m then m else fst (ms_get_mbs c m) in
    if has_mbs m1 then
      match m2w c (f_mbs m1) with
      | Some w => (mkMstr true (has_utf8 m1) true (f_mbs m1) (f_utf8 m1) w, Some w)
      | None => (m1, None)
      end
    else (m1, None).
(* archive_mstring_get_utf8 *)
Definition ms_get_utf8 (c : conv) (m : mstr) : mstr * option bytes :=
  if has_utf8 m then (m, Some (f_utf8 m))
  else
    let m1 := if has_mbs m then m else fst (ms_get_mbs c m) in
    if has_mbs m1 then
      match m2u c (f_mbs m1) with
      | Some u => (mkMstr true true (has_wcs m1) (f_mbs m1) u (f_wcs m1), Some u)
      | None => (m1, None)
      end
    else (m1, None).
(* archive_mstring_update_utf8: store the UTF-8 form, then eagerly convert to MBS and to WCS *)
Definition ms_update_utf8 (c : conv) (u : bytes) : mstr * bool :=
  match u2m c u with
  | None => (mkMstr false true false [] u [], false)
  | Some b =>
      match m2w c b with
      | None => (mkMstr true true false b u [], false)
      | Some w => (mkMstr true true true b u w, true)
      end
  end.

Inductive msget := GetMbs | GetWcs | GetUtf8.
