(* val -> val front end of the UTF coder model (correspondence protocol, family "utf").
   case = ( op args... ):
     (0 fn bytes)            one decoder call   fn: 0 _utf8_to_unicode 1 utf8_to_unicode 2 cesu8_to_unicode
                                                    3 utf16be_to_unicode 4 utf16le_to_unicode     -> (cnt uc)
     (1 fn remaining uc)     one encoder call   fn: 0 unicode_to_utf8 1 unicode_to_utf16be 2 unicode_to_utf16le
                                                                                                   -> (w bytes)
     (2 flag prefix bytes)   archive_string_append_unicode with sc->flag = flag on a string holding prefix
                                                                                   -> (status bytes buffer_length)
     (3 dir cs bytes)        archive_strncpy_l with to_charset (dir 0) / from_charset (dir 1) object,
                             cs: 0 UTF-8 1 UTF-16BE 2 UTF-16LE                                    -> (status bytes)
     (4 bytes)               archive_entry_copy_pathname + _utf8 / _w views        -> ((utf8)? (code points)?)
     (5 prefix bytes)        strncat_from_utf8_to_utf8                             -> (status bytes buffer_length)
     (6 fn lo hi)            for every uc in [lo,hi): encode with room 4, with exactly the room needed, with
                             one byte less, decode the result; fn: 0 UTF-8 1 UTF-16BE 2 UTF-16LE
                             -> (all encodings concatenated  ((uc code) ...)) code: 1 exact-room call differs,
                                2 call with one byte less wrote something, 4 decode is not (w, uc) *)
From Coq Require Import List ZArith NArith Bool.
From LA Require Import Base.Val Gen.UtfTable Entry.UtfDefs.
Import ListNotations.
Local Open Scope N_scope.

Definition val_dec (r : Z * N) : val := VL [VI (fst r); VN (snd r)].
Definition val_enc (w : list N) : val := VL [VN (len w); VB w].
Definition val_loop (r : Z * astr) : val := VL [VI (fst r); VB (a_buf (snd r)); VN (a_cap (snd r))].

Definition astr_of_prefix (p : list N) : astr :=
  match p with
  | [] => mkAstr 0 []
  | _ => match astr_append (mkAstr 0 []) p with Some a => a | None => mkAstr 0 [] end
  end.

(* ENVIRONMENT model (glibc, not libarchive): the wide-character view is made by mbrtowc in the
   C.UTF-8 locale, which accepts the 31-bit UTF-8 of ISO 10646:1993 (1..6 bytes, no overlong forms,
   no surrogates) and fails on anything else. *)
Definition wide_len (b : N) : N :=
  if b <? 128 then 1 else if b <? 194 then 0 else if b <? 224 then 2 else if b <? 240 then 3
  else if b <? 248 then 4 else if b <? 252 then 5 else if b <? 254 then 6 else 0.
Definition wide_min (l : N) : N :=
  match l with 1 => 0 | 2 => 128 | 3 => 2048 | 4 => 65536 | 5 => 2097152 | _ => 67108864 end.
Fixpoint wide_acc (k : nat) (s : list N) (acc : N) : option (N * list N) :=
  match k with
  | O => Some (acc, s)
  | S k' => match s with
            | b :: t => if is_cont b then wide_acc k' t (acc * 64 + N.land b 63) else None
            | [] => None
            end
  end.
Fixpoint decode_all (fuel : nat) (s : list N) : option (list N) :=
  match fuel with
  | O => None
  | S f =>
    match s with
    | [] => Some []
    | b :: t =>
      let l := wide_len b in
      if l =? 0 then None else
      let init := if l =? 1 then b else N.land b (N.shiftr 127 l) in
      match wide_acc (N.to_nat (l - 1)) t init with
      | None => None
      | Some (v, rest) =>
        if (v <? wide_min l) || is_surrogate v then None else
        match decode_all f rest with Some r => Some (v :: r) | None => None end
      end
    end
  end.

Definition sweep_one (fn uc : N) : list N * N :=
  let enc := match fn with 0 => unicode_to_utf8 | 1 => unicode_to_utf16 true | _ => unicode_to_utf16 false end in
  let dec := match fn with 0 => utf8_to_unicode | 1 => utf16_to_unicode true | _ => utf16_to_unicode false end in
  let r4 := enc 4 uc in
  let w := len r4 in
  let c1 := if list_eq_dec N.eq_dec (enc w uc) r4 then 0 else 1 in
  let c2 := match enc (w - 1) uc with [] => 0 | _ => 2 end in
  let '(n, u2) := dec r4 in
  let c4 := if (n =? Z.of_N w)%Z && (u2 =? uc) then 0 else 4 in
  (r4, c1 + c2 + c4).

Fixpoint sweep (k : nat) (fn uc : N) (accb : list (list N)) (accm : list val) : val :=
  match k with
  | O => VL [VB (concat (rev accb)); VL (rev accm)]
  | S k' =>
    let '(r4, code) := sweep_one fn uc in
    sweep k' fn (uc + 1) (r4 :: accb) (if code =? 0 then accm else VL [VN uc; VN code] :: accm)
  end.

Definition has_nul (s : list N) : bool := existsb (fun b => b =? 0) s.

Definition run (v : val) : val :=
  let l := lval v in
  match nval (vnth l 0) with
  | 0 =>
    let s := bval (vnth l 2) in
    match nval (vnth l 1) with
    | 0 => val_dec (utf8_raw s)
    | 1 => val_dec (utf8_to_unicode s)
    | 2 => val_dec (cesu8_to_unicode s)
    | 3 => val_dec (utf16_to_unicode true s)
    | _ => val_dec (utf16_to_unicode false s)
    end
  | 1 =>
    let rem := nval (vnth l 2) in
    let uc := nval (vnth l 3) in
    match nval (vnth l 1) with
    | 0 => val_enc (unicode_to_utf8 rem uc)
    | 1 => val_enc (unicode_to_utf16 true rem uc)
    | _ => val_enc (unicode_to_utf16 false rem uc)
    end
  | 2 => val_loop (append_unicode (nval (vnth l 1)) (astr_of_prefix (bval (vnth l 2))) (bval (vnth l 3)))
  | 3 =>
    let r := strncpy_l (negb (nval (vnth l 1) =? 0)) (nval (vnth l 2)) (bval (vnth l 3)) in
    VL [VI (fst r); VB (a_buf (snd r))]
  | 4 =>
    let s := mbs_prefix (bval (vnth l 1)) in
    let r := strncpy_l false 0 s in
    VL [ (if (fst r =? 0)%Z then VL [VB (a_buf (snd r))] else VL []);
         Vopt (fun us => VL (map VN us)) (decode_all (S (length s)) s) ]
  | 6 => sweep (N.to_nat (nval (vnth l 3) - nval (vnth l 2))) (nval (vnth l 1)) (nval (vnth l 2)) [] []
  | _ =>
    let s := bval (vnth l 2) in
    if has_nul s then VL [VB [78; 85; 76]]
    else val_loop (strncat_utf8_utf8 (astr_of_prefix (bval (vnth l 1))) s)
  end.
