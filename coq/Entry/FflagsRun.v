(* val -> val front end of the file-flags model.
   case = (ops)   op: (0 set clear) set_fflags | (1 text wide) copy_fflags_text(_w) | (2) fflags_text |
                      (3) fflags | (4) clone | (5) clear
   result = list of (0) | (1 offset-or-minus-1) | (2 (text)?) | (3 set clear) *)
From Coq Require Import List ZArith NArith Bool.
From LA Require Import Base.Val Entry.FflagsDefs.
Import ListNotations.

Definition fop_of (v : val) : fop :=
  match lval v with
  | VI 0%Z :: s :: c :: _ => SetFflags (nval s) (nval c)
  | VI 1%Z :: t :: _ => CopyText (bval t)
  | VI 2%Z :: _ => GetText
  | VI 3%Z :: _ => GetBits
  | VI 4%Z :: _ => Clone
  | _ => Clear
  end.
Definition val_of_fout (o : fout) : val :=
  match o with
  | ONone => VL [VI 0]
  | OFailed None => VL [VI 1; VI (-1)]
  | OFailed (Some n) => VL [VI 1; VN n]
  | OText t => VL [VI 2; Vopt VB t]
  | OBits s c => VL [VI 3; VN s; VN c]
  end.
Definition run (v : val) : val :=
  VL (map val_of_fout (snd (frun f0 (map fop_of (lval (vnth (lval v) 0)))))).
