(* Lemmas about the link-resolver model (LinksDefs.v): conservation of entries for every
   operation sequence, every strategy and every table size (growth included). *)
From Coq Require Import List ZArith NArith Bool Lia Permutation.
From LA Require Import Base.Val Gen.Defines Entry.LinksDefs.
Import ListNotations.
Local Open Scope N_scope.

Definition helds (l : list le) : list lentry := flat_map held_of l.
Definition C (l : list lentry) := map core l.

Lemma helds_app a b : helds (a ++ b) = helds a ++ helds b.
Proof. apply flat_map_app. Qed.

Lemma C_app a b : C (a ++ b) = C a ++ C b.
Proof. apply map_app. Qed.

Lemma held_entries_eq t : held_entries t = helds (concat (buckets t)).
Proof. reflexivity. Qed.

(* ---- upd_nth ---- *)
Lemma upd_nth_length {A} i (x : A) l : length (upd_nth i x l) = length l.
Proof. revert i; induction l as [|y tl IH]; intros [|j]; simpl; auto. Qed.

Lemma upd_nth_concat {A} (bs : list (list A)) i :
  (i < length bs)%nat ->
  exists P Q, concat bs = P ++ nth i bs [] ++ Q /\
              forall b', concat (upd_nth i b' bs) = P ++ b' ++ Q.
Proof.
  revert i; induction bs as [|b tl IH]; intros i Hi; simpl in Hi; [lia|].
  destruct i as [|j].
  - exists [], (concat tl); simpl; split; auto.
  - destruct (IH j ltac:(lia)) as (P & Q & H1 & H2).
    exists (b ++ P), Q; simpl; split.
    + rewrite H1, <- app_assoc; reflexivity.
    + intros b'; rewrite H2, <- app_assoc; reflexivity.
Qed.

(* ---- power-of-two bucket counts keep every index in range ---- *)
Definition pow2len {A} (l : list A) : Prop := exists k : N, N.of_nat (length l) = 2 ^ k.

Lemma bucket_ix_lt h nb : (exists k, nb = 2 ^ k) -> (bucket_ix h nb < N.to_nat nb)%nat.
Proof.
  intros [k ->]; unfold bucket_ix.
  assert (H : N.land h (2 ^ k - 1) = h mod 2 ^ k).
  { rewrite <- N.land_ones; f_equal; rewrite N.ones_equiv, N.pred_sub; reflexivity. }
  rewrite H.
  assert (0 < 2 ^ k) by (apply N.neq_0_lt_0, N.pow_nonzero; discriminate).
  pose proof (N.mod_lt h (2 ^ k)); lia.
Qed.

Lemma bucket_ix_in {A} h (bs : list A) :
  pow2len bs -> (bucket_ix h (N.of_nat (length bs)) < length bs)%nat.
Proof.
  intros Hp; pose proof (bucket_ix_lt h _ Hp) as H; rewrite Nat2N.id in H; exact H.
Qed.

(* ---- find_in ---- *)
Lemma dec_links_held x : held (dec_links x) = held x.
Proof. reflexivity. Qed.

Lemma find_in_spec l h d i upd x1 l' :
  find_in l h d i upd = Some (x1, l') ->
  exists pre x post, l = pre ++ x :: post /\ x1 = dec_links x /\
    l' = pre ++ (if 0 <? links x1 then [upd x1] else []) ++ post.
Proof.
  revert l'; induction l as [|y tl IH]; intros l' H; cbn [find_in] in H; [discriminate|].
  destruct (le_matches y h d i).
  - exists [], y, tl; simpl.
    cbv zeta in H.
    destruct (0 <? links (dec_links y)) eqn:E; inversion H; subst; rewrite ?E; auto.
  - destruct (find_in tl h d i upd) as [[r tl']|] eqn:F; [|discriminate].
    inversion H; subst.
    destruct (IH _ eq_refl) as (pre & x & post & -> & -> & ->).
    exists (y :: pre), x, post; auto.
Qed.

(* ---- push_bucket / grow ---- *)
Lemma push_bucket_length nb bs x : length (push_bucket nb bs x) = length bs.
Proof. unfold push_bucket; apply upd_nth_length. Qed.

Lemma push_bucket_perm bs x :
  pow2len bs ->
  Permutation (concat (push_bucket (N.of_nat (length bs)) bs x)) (x :: concat bs).
Proof.
  intros Hp; unfold push_bucket.
  destruct (upd_nth_concat bs _ (bucket_ix_in (lhash x) bs Hp)) as (P & Q & H1 & H2).
  rewrite H2, H1.
  change (x :: P ++ nth (bucket_ix (lhash x) (N.of_nat (length bs))) bs [] ++ Q)
    with ((x :: P) ++ nth (bucket_ix (lhash x) (N.of_nat (length bs))) bs [] ++ Q).
  simpl; symmetry; apply Permutation_middle.
Qed.

Lemma fold_push_perm l : forall acc,
  pow2len acc ->
  let r := fold_left (push_bucket (N.of_nat (length acc))) l acc in
  length r = length acc /\ Permutation (concat r) (l ++ concat acc).
Proof.
  induction l as [|x tl IH]; intros acc Hp; simpl.
  - split; auto.
  - pose proof (push_bucket_length (N.of_nat (length acc)) acc x) as HL.
    assert (Hp' : pow2len (push_bucket (N.of_nat (length acc)) acc x)).
    { unfold pow2len in *; rewrite HL; exact Hp. }
    specialize (IH _ Hp'); rewrite HL in IH; destruct IH as [IH1 IH2].
    split; [exact IH1|].
    etransitivity; [exact IH2|].
    etransitivity; [apply Permutation_app_head, push_bucket_perm, Hp|].
    symmetry; apply Permutation_middle.
Qed.

Lemma repeat_nil_concat {A} n : concat (repeat (@nil A) n) = [].
Proof. induction n; simpl; auto. Qed.

Lemma grow_spec bs :
  pow2len bs -> pow2len (grow bs) /\ Permutation (concat (grow bs)) (concat bs).
Proof.
  intros Hp; unfold grow.
  destruct (2 * N.of_nat (length bs) mod two64 <? N.of_nat (length bs)); [split; auto|].
  set (n := (2 * N.of_nat (length bs))).
  assert (Hacc : pow2len (repeat (@nil le) (N.to_nat n))).
  { destruct Hp as [k Hk]; exists (k + 1); rewrite repeat_length, N2Nat.id; unfold n.
    rewrite Hk, N.pow_add_r, N.pow_1_r; lia. }
  pose proof (fold_push_perm (concat bs) _ Hacc) as H; simpl in H.
  rewrite repeat_length, N2Nat.id in H; destruct H as [H1 H2].
  split.
  - unfold pow2len in *; rewrite H1; rewrite repeat_length in Hacc; exact Hacc.
  - rewrite H2, repeat_nil_concat, app_nil_r; reflexivity.
Qed.

(* ---- take_first ---- *)
Lemma take_first_spec p l x l' :
  take_first p l = Some (x, l') ->
  exists pre post, l = pre ++ x :: post /\ l' = pre ++ post /\ p x = true.
Proof.
  revert l'; induction l as [|y tl IH]; intros l' H; simpl in H; [discriminate|].
  destruct (p y) eqn:E.
  - inversion H; subst; exists [], l'; auto.
  - destruct (take_first p tl) as [[r tl']|]; [|discriminate]; inversion H; subst.
    destruct (IH _ eq_refl) as (pre & post & -> & -> & Hp).
    exists (y :: pre), post; auto.
Qed.

Lemma take_first_bucket_spec p bs x bs' :
  take_first_bucket p bs = Some (x, bs') ->
  length bs' = length bs /\
  exists P Q, concat bs = P ++ x :: Q /\ concat bs' = P ++ Q /\ p x = true.
Proof.
  revert bs'; induction bs as [|b rest IH]; intros bs' H; simpl in H; [discriminate|].
  destruct (take_first p b) as [[r b']|] eqn:E.
  - inversion H; subst; split; [reflexivity|].
    destruct (take_first_spec _ _ _ _ E) as (pre & post & -> & -> & Hp).
    exists pre, (post ++ concat rest); simpl; rewrite <- !app_assoc; auto.
  - destruct (take_first_bucket p rest) as [[r rest']|]; [|discriminate]; inversion H; subst.
    destruct (IH _ eq_refl) as (HL & P & Q & H1 & H2 & Hp).
    split; [simpl; congruence|].
    exists (b ++ P), Q; simpl; rewrite H1, H2, <- !app_assoc; auto.
Qed.

(* ---- invariant ---- *)
Definition Inv (t : table) : Prop :=
  pow2len (buckets t) /\ (strategy t <> LINKIFY_LIKE_NEW_CPIO -> held_entries t = []).

Lemma init_Inv strat : (exists k, links_cache_initial_size = 2 ^ k) -> Inv (init_table strat).
Proof.
  intros [k Hk]; split.
  - exists k; unfold init_table; cbn [buckets]; rewrite repeat_length, N2Nat.id; exact Hk.
  - intros _; unfold held_entries, init_table; cbn [buckets]; rewrite repeat_nil_concat; reflexivity.
Qed.

Lemma find_entry_spec t e upd x1 t' :
  pow2len (buckets t) ->
  find_entry t e upd = Some (x1, t') ->
  strategy t' = strategy t /\ length (buckets t') = length (buckets t) /\
  exists P x Q, concat (buckets t) = P ++ x :: Q /\ x1 = dec_links x /\
    concat (buckets t') = P ++ (if 0 <? links x1 then [upd x1] else []) ++ Q.
Proof.
  intros Hp H; unfold find_entry in H.
  set (i := bucket_ix (hash_of e) (nbuckets t)) in *.
  destruct (find_in (nth i (buckets t) []) (hash_of e) (edev e) (eino e) upd) as [[r b']|] eqn:F;
    [|discriminate].
  inversion H; subst; clear H; simpl.
  split; [reflexivity|]; split; [apply upd_nth_length|].
  destruct (find_in_spec _ _ _ _ _ _ _ F) as (pre & x & post & Hb & -> & ->).
  destruct (upd_nth_concat (buckets t) i (bucket_ix_in _ _ Hp)) as (P & Q & H1 & H2).
  exists (P ++ pre), x, (post ++ Q); split; [|split; [reflexivity|]].
  - rewrite H1; fold i; rewrite Hb, <- !app_assoc; reflexivity.
  - rewrite H2, <- !app_assoc; reflexivity.
Qed.

Lemma insert_entry_spec t e h0 :
  pow2len (buckets t) ->
  let t' := insert_entry t e h0 in
  strategy t' = strategy t /\ pow2len (buckets t') /\
  Permutation (C (held_entries t')) (C (match h0 with Some x => [x] | None => [] end ++ held_entries t)).
Proof.
  intros Hp; unfold insert_entry; simpl.
  set (bs := if 2 * nbuckets t <? count t then grow (buckets t) else buckets t).
  assert (Hbs : pow2len bs /\ Permutation (concat bs) (concat (buckets t))).
  { unfold bs; destruct (2 * nbuckets t <? count t); [apply grow_spec, Hp|split; auto]. }
  destruct Hbs as [Hp' Hperm].
  split; [reflexivity|]; split.
  - unfold pow2len in *; rewrite push_bucket_length; exact Hp'.
  - unfold held_entries; simpl.
    set (x := {| canon := e; held := h0; lhash := hash_of e; links := (enlink e + two32 - 1) mod two32 |}).
    assert (HP : Permutation (concat (push_bucket (N.of_nat (length bs)) bs x)) (x :: concat (buckets t))).
    { etransitivity; [apply push_bucket_perm, Hp'|]; constructor; exact Hperm. }
    apply Permutation_map.
    pose proof (Permutation_flat_map held_of HP) as HF; simpl in HF.
    unfold held_of at 2 in HF; simpl in HF.
    destruct h0; exact HF.
Qed.

Lemma core_mark b e tg : core (mark_hardlink b e tg) = core e.
Proof. reflexivity. Qed.

(* helper: removing / replacing one le in the middle *)
Lemma helds_mid P x Q : helds (P ++ x :: Q) = helds P ++ held_of x ++ helds Q.
Proof. unfold helds; rewrite flat_map_app; reflexivity. Qed.

Lemma helds_nil_mid P x Q : helds (P ++ x :: Q) = [] -> helds P = [] /\ held_of x = [] /\ helds Q = [].
Proof.
  rewrite helds_mid; intros H.
  apply app_eq_nil in H; destruct H as [H1 H2]; apply app_eq_nil in H2; tauto.
Qed.

Lemma helds_after_find_id P x0 Q (c : bool) :
  helds (P ++ x0 :: Q) = [] -> helds (P ++ (if c then [dec_links x0] else []) ++ Q) = [].
Proof.
  intros H; destruct (helds_nil_mid _ _ _ H) as (HP & Hx & HQ).
  rewrite !helds_app, HP, HQ; destruct c; simpl; [|reflexivity].
  rewrite !app_nil_r; exact Hx.
Qed.

Lemma perm_mid_swap {A} (a b : A) X Y : Permutation (a :: X ++ b :: Y) (b :: X ++ a :: Y).
Proof.
  etransitivity; [constructor; symmetry; apply Permutation_middle|].
  etransitivity; [apply perm_swap|]; constructor; apply Permutation_middle.
Qed.

(* ---- one push ---- *)
Lemma linkify_step t e t' a b :
  Inv t -> linkify t e = (t', (a, b)) ->
  Inv t' /\ strategy t' = strategy t /\
  Permutation (C (out_entries (OutPush a b) ++ held_entries t')) (C (e :: held_entries t)).
Proof.
  intros [Hp Hh] H; unfold linkify in H.
  destruct (is_passthrough e).
  { inversion H; subst; simpl; repeat split; auto. }
  destruct (strategy t =? LINKIFY_LIKE_TAR) eqn:ETAR.
  { destruct (find_entry t e (fun x => x)) as [[x t1]|] eqn:F.
    - inversion H; subst; clear H.
      destruct (find_entry_spec _ _ _ _ _ Hp F) as (HS & HL & P & x0 & Q & H1 & -> & H2).
      assert (Hne : strategy t <> LINKIFY_LIKE_NEW_CPIO).
      { apply N.eqb_eq in ETAR; rewrite ETAR; discriminate. }
      specialize (Hh Hne); unfold held_entries in Hh; rewrite H1 in Hh.
      destruct (helds_nil_mid _ _ _ Hh) as (HP & Hx & HQ).
      assert (HE : held_entries t' = []).
      { unfold held_entries; rewrite H2; apply helds_after_find_id; exact Hh. }
      repeat split.
      + unfold pow2len in *; rewrite HL; exact Hp.
      + intros _; exact HE.
      + exact HS.
      + rewrite HE; unfold held_entries; rewrite H1, Hh.
        simpl; rewrite core_mark; reflexivity.
    - inversion H; subst; clear H.
      destruct (insert_entry_spec t e None Hp) as (HS & Hp' & HPm).
      repeat split; auto.
      + intros Hne; rewrite HS in Hne; specialize (Hh Hne).
        simpl in HPm; rewrite Hh in HPm; apply Permutation_sym, Permutation_nil in HPm.
        apply map_eq_nil in HPm; exact HPm.
      + simpl in *; constructor; exact HPm. }
  destruct (strategy t =? LINKIFY_LIKE_MTREE) eqn:EMT.
  { destruct (find_entry t e (fun x => x)) as [[x t1]|] eqn:F.
    - inversion H; subst; clear H.
      destruct (find_entry_spec _ _ _ _ _ Hp F) as (HS & HL & P & x0 & Q & H1 & -> & H2).
      assert (Hne : strategy t <> LINKIFY_LIKE_NEW_CPIO).
      { apply N.eqb_eq in EMT; rewrite EMT; discriminate. }
      specialize (Hh Hne); unfold held_entries in Hh; rewrite H1 in Hh.
      destruct (helds_nil_mid _ _ _ Hh) as (HP & Hx & HQ).
      assert (HE : held_entries t' = []).
      { unfold held_entries; rewrite H2; apply helds_after_find_id; exact Hh. }
      repeat split.
      + unfold pow2len in *; rewrite HL; exact Hp.
      + intros _; exact HE.
      + exact HS.
      + rewrite HE; unfold held_entries; rewrite H1, Hh.
        simpl; rewrite core_mark; reflexivity.
    - inversion H; subst; clear H.
      destruct (insert_entry_spec t e None Hp) as (HS & Hp' & HPm).
      repeat split; auto.
      + intros Hne; rewrite HS in Hne; specialize (Hh Hne).
        simpl in HPm; rewrite Hh in HPm; apply Permutation_sym, Permutation_nil in HPm.
        apply map_eq_nil in HPm; exact HPm.
      + simpl in *; constructor; exact HPm. }
  destruct (strategy t =? LINKIFY_LIKE_NEW_CPIO) eqn:ENC.
  { apply N.eqb_eq in ENC.
    destruct (find_entry t e (set_held e)) as [[x t1]|] eqn:F.
    - inversion H; subst; clear H.
      destruct (find_entry_spec _ _ _ _ _ Hp F) as (HS & HL & P & x0 & Q & H1 & -> & H2).
      repeat split.
      + unfold pow2len in *; rewrite HL; exact Hp.
      + intros Hne; rewrite HS in Hne; contradiction.
      + exact HS.
      + unfold held_entries; rewrite H1, H2.
        fold (helds (P ++ (if 0 <? links (dec_links x0) then [set_held e (dec_links x0)] else []) ++ Q)).
        fold (helds (P ++ x0 :: Q)).
        rewrite helds_mid, !helds_app.
        assert (Hz : (links (dec_links x0) =? 0) = negb (0 <? links (dec_links x0))).
        { destruct (N.eqb_spec (links (dec_links x0)) 0) as [E|E]; destruct (N.ltb_spec 0 (links (dec_links x0))); simpl; auto; lia. }
        rewrite Hz, dec_links_held.
        unfold held_of.
        destruct (held x0) as [o|]; destruct (0 <? links (dec_links x0));
          cbn [negb out_entries helds flat_map held_of set_held held app]; unfold C;
          rewrite ?map_app; cbn [map app]; rewrite ?core_mark, ?map_app; cbn [map].
        * apply perm_mid_swap.
        * etransitivity; [apply perm_swap|]; constructor; apply Permutation_middle.
        * symmetry; apply Permutation_middle.
        * reflexivity.
    - inversion H; subst; clear H.
      destruct (insert_entry_spec t e (Some e) Hp) as (HS & Hp' & HPm).
      repeat split; auto.
      intros Hne; rewrite HS in Hne; contradiction. }
  inversion H; subst; simpl; repeat split; auto.
Qed.

(* ---- drain / partial ---- *)
Lemma next_entry_spec t d p x t' :
  next_entry t d p = Some (x, t') ->
  strategy t' = strategy t /\ length (buckets t') = length (buckets t) /\
  exists P Q, concat (buckets t) = P ++ x :: Q /\ concat (buckets t') = P ++ Q /\ mode_ok d p x = true.
Proof.
  unfold next_entry; intros H.
  destruct (take_first_bucket (mode_ok d p) (buckets t)) as [[r bs']|] eqn:E; [|discriminate].
  inversion H; subst; clear H; simpl.
  destruct (take_first_bucket_spec _ _ _ _ E) as (HL & P & Q & H1 & H2 & Hm).
  split; [reflexivity|]; split; [exact HL|]; exists P, Q; auto.
Qed.

Lemma Inv_remove t t' P x Q :
  Inv t -> strategy t' = strategy t -> length (buckets t') = length (buckets t) ->
  concat (buckets t) = P ++ x :: Q -> concat (buckets t') = P ++ Q -> Inv t'.
Proof.
  intros [Hp Hh] HS HL H1 H2; split.
  - unfold pow2len in *; rewrite HL; exact Hp.
  - intros Hne; rewrite HS in Hne; specialize (Hh Hne).
    unfold held_entries in *; rewrite H1 in Hh; rewrite H2.
    destruct (helds_nil_mid _ _ _ Hh) as (HP & _ & HQ).
    fold (helds (P ++ Q)); rewrite helds_app, HP, HQ; reflexivity.
Qed.

Lemma lstep_spec t o t' r :
  Inv t -> lstep t o = (t', r) ->
  Inv t' /\ strategy t' = strategy t /\
  Permutation (C (out_entries r ++ held_entries t'))
              (C (match o with Push e => [e] | _ => [] end ++ held_entries t)).
Proof.
  intros HI H; destruct o as [e| |]; simpl in H.
  - destruct (linkify t e) as [t1 [a b]] eqn:E; inversion H; subst.
    apply (linkify_step _ _ _ _ _ HI E).
  - unfold linkify_null in H.
    destruct (next_entry t true false) as [[x t1]|] eqn:E.
    + inversion H; subst; clear H.
      destruct (next_entry_spec _ _ _ _ _ E) as (HS & HL & P & Q & H1 & H2 & Hm).
      split; [eapply Inv_remove; eauto|]; split; [exact HS|].
      unfold held_entries; rewrite H1, H2.
      fold (helds (P ++ Q)); fold (helds (P ++ x :: Q)); rewrite helds_mid, helds_app.
      unfold mode_ok in Hm; unfold held_of.
      destruct (held x) as [h|]; [|discriminate]; simpl.
      unfold C; rewrite !map_app; simpl; apply Permutation_middle.
    + inversion H; subst; simpl; auto.
  - unfold partial_links in H.
    destruct (next_entry t false true) as [[x t1]|] eqn:E.
    + inversion H; subst; clear H.
      destruct (next_entry_spec _ _ _ _ _ E) as (HS & HL & P & Q & H1 & H2 & Hm).
      split; [eapply Inv_remove; eauto|]; split; [exact HS|].
      unfold held_entries; rewrite H1, H2.
      fold (helds (P ++ Q)); fold (helds (P ++ x :: Q)); rewrite helds_mid, helds_app.
      unfold mode_ok in Hm; unfold held_of.
      destruct (held x) as [h|]; [discriminate|]; simpl; reflexivity.
    + inversion H; subst; simpl; auto.
Qed.

Definition pushed (ops : list lop) : list lentry :=
  flat_map (fun o => match o with Push e => [e] | _ => [] end) ops.

Definition all_out (outs : list lout) : list lentry := flat_map out_entries outs.

(* every reachable state: induction over the operation list *)
Lemma lrun_conservation ops : forall t t' outs,
  Inv t -> lrun t ops = (t', outs) ->
  Inv t' /\ Permutation (C (all_out outs ++ held_entries t')) (C (pushed ops ++ held_entries t)).
Proof.
  induction ops as [|o rest IH]; intros t t' outs HI H; cbn [lrun] in H.
  - inversion H; subst; simpl; auto.
  - destruct (lstep t o) as [t1 r] eqn:E1.
    destruct (lrun t1 rest) as [t2 rs] eqn:E2.
    inversion H; subst; clear H.
    destruct (lstep_spec _ _ _ _ HI E1) as (HI1 & _ & HP1).
    destruct (IH _ _ _ HI1 E2) as (HI2 & HP2).
    split; [exact HI2|].
    unfold all_out, pushed in *; cbn [flat_map]; unfold C in *.
    rewrite <- !app_assoc, !map_app in *.
    etransitivity; [apply Permutation_app_head; exact HP2|].
    rewrite !app_assoc.
    etransitivity; [apply Permutation_app_tail, Permutation_app_comm|].
    rewrite <- !app_assoc.
    etransitivity; [apply Permutation_app_head; exact HP1|].
    rewrite !app_assoc.
    apply Permutation_app_tail, Permutation_app_comm.
Qed.

(* ---- full drain: repeated linkify(NULL) returns exactly the held entries, in table order ---- *)
Fixpoint drain_fuel (n : nat) (t : table) : table * list lentry :=
  match n with
  | O => (t, [])
  | S k => match linkify_null t with
           | (t', Some e) => let '(t2, es) := drain_fuel k t' in (t2, e :: es)
           | (t', None) => (t', [])
           end
  end.

Lemma take_first_none p l : take_first p l = None -> forall x, In x l -> p x = false.
Proof.
  induction l as [|y tl IH]; simpl; intros H x Hx; [contradiction|].
  destruct (p y) eqn:E; [discriminate|].
  destruct (take_first p tl) as [[r tl']|]; [discriminate|].
  destruct Hx as [->|Hx]; auto.
Qed.

Lemma take_first_bucket_none p bs :
  take_first_bucket p bs = None -> forall x, In x (concat bs) -> p x = false.
Proof.
  induction bs as [|b rest IH]; simpl; intros H x Hx; [contradiction|].
  destruct (take_first p b) as [[r b']|] eqn:E; [discriminate|].
  destruct (take_first_bucket p rest) as [[r rest']|]; [discriminate|].
  apply in_app_or in Hx; destruct Hx as [Hx|Hx]; [eapply take_first_none; eauto|auto].
Qed.

Lemma helds_none l : (forall x, In x l -> mode_ok true false x = false) -> helds l = [].
Proof.
  induction l as [|y tl IH]; intros H; simpl; auto.
  rewrite IH by (intros; apply H; right; auto).
  pose proof (H y (or_introl eq_refl)) as Hy; unfold mode_ok in Hy; unfold held_of.
  destruct (held y); [discriminate|reflexivity].
Qed.

Lemma drain_none_empty t : linkify_null t = (t, None) -> next_entry t true false = None -> held_entries t = [].
Proof.
  intros _ H; unfold next_entry in H.
  destruct (take_first_bucket (mode_ok true false) (buckets t)) as [[x bs]|] eqn:E; [discriminate|].
  apply helds_none, (take_first_bucket_none _ _ E).
Qed.

Lemma take_first_pre p l x l' :
  take_first p l = Some (x, l') ->
  exists pre post, l = pre ++ x :: post /\ l' = pre ++ post /\ p x = true /\
                   forall y, In y pre -> p y = false.
Proof.
  revert l'; induction l as [|y tl IH]; intros l' H; simpl in H; [discriminate|].
  destruct (p y) eqn:E.
  - inversion H; subst; exists [], l'; simpl; repeat split; auto; intros ? [].
  - destruct (take_first p tl) as [[r tl']|]; [|discriminate]; inversion H; subst.
    destruct (IH _ eq_refl) as (pre & post & -> & -> & Hp & Hpre).
    exists (y :: pre), post; repeat split; auto.
    intros z [<-|Hz]; auto.
Qed.

Lemma take_first_bucket_pre p bs x bs' :
  take_first_bucket p bs = Some (x, bs') ->
  exists P Q, concat bs = P ++ x :: Q /\ concat bs' = P ++ Q /\ p x = true /\
              forall y, In y P -> p y = false.
Proof.
  revert bs'; induction bs as [|b rest IH]; intros bs' H; simpl in H; [discriminate|].
  destruct (take_first p b) as [[r b']|] eqn:E.
  - inversion H; subst.
    destruct (take_first_pre _ _ _ _ E) as (pre & post & -> & -> & Hp & Hpre).
    exists pre, (post ++ concat rest); simpl; rewrite <- !app_assoc; auto.
  - destruct (take_first_bucket p rest) as [[r rest']|]; [|discriminate]; inversion H; subst.
    destruct (IH _ eq_refl) as (P & Q & H1 & H2 & Hp & Hpre).
    exists (b ++ P), Q; simpl; rewrite H1, H2, <- !app_assoc; repeat split; auto.
    intros y Hy; apply in_app_or in Hy; destruct Hy as [Hy|Hy]; auto.
    eapply take_first_none; eauto.
Qed.

Lemma drain_step_some t t' e :
  linkify_null t = (t', Some e) -> held_entries t = e :: held_entries t'.
Proof.
  unfold linkify_null, next_entry; intros H.
  destruct (take_first_bucket (mode_ok true false) (buckets t)) as [[x bs']|] eqn:E;
    [|inversion H].
  inversion H as [[Ht He]]; subst t'; clear H.
  destruct (take_first_bucket_pre _ _ _ _ E) as (P & Q & H1 & H2 & Hp & Hpre).
  unfold held_entries; cbn [buckets]; rewrite H1, H2.
  fold (helds (P ++ x :: Q)); fold (helds (P ++ Q)).
  rewrite helds_mid, helds_app, (helds_none P Hpre); unfold held_of; rewrite He; reflexivity.
Qed.

Lemma drain_step_none t t' :
  linkify_null t = (t', None) -> held_entries t = [] /\ t' = t.
Proof.
  unfold linkify_null, next_entry; intros H.
  destruct (take_first_bucket (mode_ok true false) (buckets t)) as [[x bs']|] eqn:E.
  - (* an entry selected by the DEFERRED mode holds something: the result is not None *)
    destruct (take_first_bucket_pre _ _ _ _ E) as (P & Q & _ & _ & Hp & _).
    unfold mode_ok in Hp; inversion H as [[Ht He]]; rewrite He in Hp; discriminate.
  - inversion H; subst t'; split; [|reflexivity]. apply helds_none, (take_first_bucket_none _ _ E).
Qed.

Lemma drain_complete n : forall t,
  (length (held_entries t) < n)%nat ->
  exists t', drain_fuel n t = (t', held_entries t) /\ held_entries t' = [].
Proof.
  induction n as [|k IH]; intros t Hn; [lia|]; cbn [drain_fuel].
  destruct (linkify_null t) as [t1 [e|]] eqn:E.
  - pose proof (drain_step_some _ _ _ E) as HS.
    destruct (IH t1) as (t2 & H2 & H3); [rewrite HS in Hn; simpl in Hn; lia|].
    rewrite H2, HS; exists t2; auto.
  - destruct (drain_step_none _ _ E) as [HE ->].
    rewrite HE; exists t; auto.
Qed.

(* ---- pass-through cases ---- *)
Lemma passthrough_unchanged t e :
  (strategy t = LINKIFY_LIKE_OLD_CPIO \/ enlink e = 1 \/ eftype e = AE_IFDIR \/
   eftype e = AE_IFBLK \/ eftype e = AE_IFCHR) ->
  linkify t e = (t, (Some e, None)).
Proof.
  intros H; unfold linkify.
  destruct (is_passthrough e) eqn:EP; [reflexivity|].
  unfold is_passthrough in EP.
  repeat (apply orb_false_iff in EP; destruct EP as [EP ?]).
  destruct H as [H|[H|[H|[H|H]]]].
  - rewrite H; reflexivity.
  - apply N.eqb_neq in EP; contradiction.
  - apply N.eqb_neq in H2; contradiction.
  - apply N.eqb_neq in H1; contradiction.
  - apply N.eqb_neq in H0; contradiction.
Qed.

(* ---- marking: what a push returns under the tar / mtree / new-cpio strategies ---- *)
Definition live_key (t : table) (e : lentry) : option le :=
  let h := hash_of e in
  let fix go (l : list le) :=
    match l with
    | [] => None
    | x :: tl => if le_matches x h (edev e) (eino e) then Some x else go tl
    end in
  go (nth (bucket_ix h (nbuckets t)) (buckets t) []).

Lemma find_in_live l h d i upd :
  (forall x1 l', find_in l h d i upd = Some (x1, l') ->
     exists x, (fix go (l : list le) := match l with [] => None | x :: tl =>
                  if le_matches x h d i then Some x else go tl end) l = Some x /\ x1 = dec_links x) /\
  (find_in l h d i upd = None ->
     (fix go (l : list le) := match l with [] => None | x :: tl =>
                  if le_matches x h d i then Some x else go tl end) l = None).
Proof.
  induction l as [|y tl [IH1 IH2]]; cbn [find_in]; split; intros; try discriminate; auto.
  - destruct (le_matches y h d i).
    + cbv zeta in H. exists y; destruct (0 <? links (dec_links y)); inversion H; auto.
    + destruct (find_in tl h d i upd) as [[r tl']|] eqn:F; [|discriminate].
      inversion H; subst. apply (IH1 _ _ eq_refl).
  - destruct (le_matches y h d i).
    + cbv zeta in H; destruct (0 <? links (dec_links y)); discriminate.
    + destruct (find_in tl h d i upd) as [[r tl']|] eqn:F; [discriminate|]. auto.
Qed.

(* tar strategy: the output is the input entry itself; it is turned into a hard link to the
   pathname recorded when the group was first seen iff the (dev,ino) key is live, and it keeps its
   body (size untouched) iff it is the first of its group instance. *)
Lemma tar_marking t e :
  strategy t = LINKIFY_LIKE_TAR -> is_passthrough e = false ->
  match live_key t e with
  | Some x => exists t', linkify t e = (t', (Some (mark_hardlink true e (epath (canon x))), None))
  | None => linkify t e = (insert_entry t e None, (Some e, None))
  end.
Proof.
  intros HS HP; unfold linkify, live_key, find_entry; rewrite HP, HS; simpl (_ =? _).
  destruct (find_in_live (nth (bucket_ix (hash_of e) (nbuckets t)) (buckets t) []) (hash_of e)
              (edev e) (eino e) (fun x => x)) as [H1 H2].
  destruct (find_in _ _ _ _ _) as [[x1 b']|] eqn:F.
  - destruct (H1 _ _ eq_refl) as (x & -> & ->). eexists; reflexivity.
  - rewrite (H2 eq_refl); reflexivity.
Qed.

Lemma newcpio_marking t e :
  strategy t = LINKIFY_LIKE_NEW_CPIO -> is_passthrough e = false ->
  match live_key t e with
  | Some x => exists t', linkify t e =
        (t', (match held x with Some o => Some (mark_hardlink true o (epath (canon x))) | None => None end,
              if links (dec_links x) =? 0 then Some e else None))
  | None => linkify t e = (insert_entry t e (Some e), (None, None))
  end.
Proof.
  intros HS HP; unfold linkify, live_key, find_entry; rewrite HP, HS; simpl (_ =? _).
  destruct (find_in_live (nth (bucket_ix (hash_of e) (nbuckets t)) (buckets t) []) (hash_of e)
              (edev e) (eino e) (set_held e)) as [H1 H2].
  destruct (find_in _ _ _ _ _) as [[x1 b']|] eqn:F.
  - destruct (H1 _ _ eq_refl) as (x & -> & ->). eexists; reflexivity.
  - rewrite (H2 eq_refl); reflexivity.
Qed.

Lemma mtree_marking t e :
  strategy t = LINKIFY_LIKE_MTREE -> is_passthrough e = false ->
  match live_key t e with
  | Some x => exists t', linkify t e = (t', (Some (mark_hardlink false e (epath (canon x))), None))
  | None => linkify t e = (insert_entry t e None, (Some e, None))
  end.
Proof.
  intros HS HP; unfold linkify, live_key, find_entry; rewrite HP, HS; simpl (_ =? _).
  destruct (find_in_live (nth (bucket_ix (hash_of e) (nbuckets t)) (buckets t) []) (hash_of e)
              (edev e) (eino e) (fun x => x)) as [H1 H2].
  destruct (find_in _ _ _ _ _) as [[x1 b']|] eqn:F.
  - destruct (H1 _ _ eq_refl) as (x & -> & ->). eexists; reflexivity.
  - rewrite (H2 eq_refl); reflexivity.
Qed.

(* obligation on the regenerated constant: the initial bucket count is a power of two
   (archive_entry_linkresolver_new refuses anything else) *)
Lemma init_size_pow2 : exists k, links_cache_initial_size = 2 ^ k.
Proof. exists (N.log2 links_cache_initial_size); vm_compute; reflexivity. Qed.

Lemma conservation_from_init strat ops t outs :
  lrun (init_table strat) ops = (t, outs) ->
  Permutation (map core (all_out outs ++ held_entries t)) (map core (pushed ops)).
Proof.
  intros H.
  destruct (lrun_conservation ops _ _ _ (init_Inv strat init_size_pow2) H) as [_ HP].
  assert (HE : held_entries (init_table strat) = []).
  { unfold held_entries, init_table; cbn [buckets]; rewrite repeat_nil_concat; reflexivity. }
  rewrite HE, app_nil_r in HP; exact HP.
Qed.

Lemma conservation_with_drain strat ops t outs :
  lrun (init_table strat) ops = (t, outs) ->
  exists t', drain_fuel (S (length (held_entries t))) t = (t', held_entries t) /\
             held_entries t' = [] /\
             Permutation (map core (all_out outs ++ held_entries t)) (map core (pushed ops)).
Proof.
  intros H; destruct (drain_complete (S (length (held_entries t))) t ltac:(lia)) as (t' & H1 & H2).
  exists t'; repeat split; auto. apply (conservation_from_init _ _ _ _ H).
Qed.
