(* C18 - exhaustive sweeps: everything the 2-, 3- and 4-byte cases of _utf8_to_unicode accept
   (lead byte of the right class, continuation bytes 0x80+x) is what unicode_to_utf8 produces;
   and the table. *)
From Coq Require Import List ZArith NArith Bool.
From LA Require Import Gen.UtfTable Entry.UtfDefs Entry.UtfBase.
Local Open Scope N_scope.

Lemma sweep_table : forall_below 256 (fun ch => utf8_count ch =? utf8_class ch) = true.
Proof. vm_cast_no_check (eq_refl true). Qed.

Lemma sweep_strict1 : forall_below 256 strict1 = true.
Proof. vm_cast_no_check (eq_refl true). Qed.

Lemma sweep_cont_form : forall_below 256 cont_form = true.
Proof. vm_cast_no_check (eq_refl true). Qed.

Lemma sweep_strict2 :
  forall_below 256 (fun ch => if utf8_class ch =? 2 then forall_below 64 (fun x1 => strict2 ch x1) else true) = true.
Proof. vm_cast_no_check (eq_refl true). Qed.

Lemma sweep_strict3 :
  forall_below 256 (fun ch => if utf8_class ch =? 3 then
     forall_below 64 (fun x1 => forall_below 64 (fun x2 => strict3 ch x1 x2)) else true) = true.
Proof. vm_cast_no_check (eq_refl true). Qed.

Lemma sweep_strict4 :
  forall_below 256 (fun ch => if utf8_class ch =? 4 then
     forall_below 64 (fun x1 => forall_below 64 (fun x2 => forall_below 64 (fun x3 => strict4 ch x1 x2 x3))) else true) = true.
Proof. vm_cast_no_check (eq_refl true). Qed.
