(* C15 - executable model of libarchive/archive_acl.c: the ACL list (archive_acl_add_entry, acl_special,
   acl_new_entry), the serialiser (archive_acl_text_want_type, archive_acl_text_len,
   archive_acl_to_text_l/_w, append_entry(_w), append_id(_w)) and the parser
   (archive_acl_from_text_nl/_l/_w, next_field(_w), isint, ismode, is_nfs4_perms, is_nfs4_flags).

   Characters are numbers: bytes for the char variant, code points for the wchar_t variant.  The two
   variants of the C code are one Gallina function with a flag [wide]; every place where the two C
   functions differ is an explicit [if wide].

   Three booleans [fxl], [fxw], [fxs] select, at the one place each, the code as it is in the pinned
   tree ([false]) or as it is after the repair proposed in /verif/fixes/C15-*.diff ([true]); which
   one the working tree contains is detected by translators/gen_acl.py (Gen/AclConsts.v) and the
   correspondence check runs the model with those values.
     fxl : archive_acl_text_len reserves room for the id that archive_acl_to_text_l prints a second
           time for a nameless NFSv4 user/group entry
     fxw : archive_acl_from_text_w has the "if (len == 0) { ret = ARCHIVE_WARN; continue; }" test
           that archive_acl_from_text_nl has
     fxs : next_field does not read **p when *l == 0
     fxm : ismode/ismode_w leave *permset = 0 when they fail *)
From Coq Require Import List ZArith NArith Bool.
From LA Require Import Base.Val Gen.Defines Gen.AclConsts.
Import ListNotations.
Local Open Scope N_scope.

Definition str := list N.

(* ---- characters and string literals (ASCII codes) *)
Definition c_nul : N := 0.   Definition c_tab : N := 9.    Definition c_nl : N := 10.
Definition c_sp : N := 32.   Definition c_hash : N := 35.  Definition c_comma : N := 44.
Definition c_dash : N := 45. Definition c_colon : N := 58. Definition c_0 : N := 48.
Definition c_9 : N := 57.    Definition c_d : N := 100.    Definition c_g : N := 103.
Definition c_m : N := 109.   Definition c_o : N := 111.    Definition c_r : N := 114.
Definition c_u : N := 117.   Definition c_w : N := 119.    Definition c_x : N := 120.

Definition s_user : str := [117; 115; 101; 114].
Definition s_group : str := [103; 114; 111; 117; 112].
Definition s_other : str := [111; 116; 104; 101; 114].
Definition s_mask : str := [109; 97; 115; 107].
Definition s_owner_at : str := [111; 119; 110; 101; 114; 64].
Definition s_group_at : str := [103; 114; 111; 117; 112; 64].
Definition s_everyone_at : str := [101; 118; 101; 114; 121; 111; 110; 101; 64].
Definition s_default_colon : str := [100; 101; 102; 97; 117; 108; 116; 58].
Definition s_efault : str := [101; 102; 97; 117; 108; 116].
Definition s_ser : str := [115; 101; 114].
Definition s_roup : str := [114; 111; 117; 112].
Definition s_ther : str := [116; 104; 101; 114].
Definition s_ask : str := [97; 115; 107].
Definition s_allow : str := [97; 108; 108; 111; 119].
Definition s_deny : str := [100; 101; 110; 121].
Definition s_audit : str := [97; 117; 100; 105; 116].
Definition s_alarm : str := [97; 108; 97; 114; 109].

Fixpoint str_eqb (a b : str) : bool :=
  match a, b with
  | [], [] => true
  | x :: a', y :: b' => (x =? y) && str_eqb a' b'
  | _, _ => false
  end.

(* a C string stops at the first NUL *)
Fixpoint cstr (s : str) : str :=
  match s with
  | [] => []
  | c :: r => if c =? 0 then [] else c :: cstr r
  end.

Definition bit (x m : N) : bool := negb (N.land x m =? 0).      (* (x & m) != 0 *)
Definition within (x m : N) : bool := N.ldiff x m =? 0.           (* (x & ~m) == 0 *)

(* ================================================================ the ACL *)
Record aentry := mkE { etype : N; etag : N; eperm : N; eid : Z; ename : str (* [] = no name *) }.
Record acl := mkAcl { amode : N; aents : list aentry; atypes : N }.

Definition acl_empty (mode : N) : acl := mkAcl mode [] 0.
Definition set_mode (a : acl) (m : N) : acl := mkAcl m (aents a) (atypes a).

(* acl_special: Some a' = "stored in the mode, return 0" *)
Definition acl_special (a : acl) (type perm tag : N) : option acl :=
  if (type =? ACL_TYPE_ACCESS) && within perm 7 then
    if tag =? ACL_USER_OBJ then
      Some (set_mode a (N.lor (N.ldiff (amode a) 448) (N.shiftl (N.land perm 7) 6)))
    else if tag =? ACL_GROUP_OBJ then
      Some (set_mode a (N.lor (N.ldiff (amode a) 56) (N.shiftl (N.land perm 7) 3)))
    else if tag =? ACL_OTHER then
      Some (set_mode a (N.lor (N.ldiff (amode a) 7) (N.land perm 7)))
    else None
  else None.

Definition type_ok (a : acl) (type perm : N) : bool :=
  if bit type ACL_TYPE_NFS4 then
    within (atypes a) ACL_TYPE_NFS4 && within perm (N.lor ACL_PERMS_NFS4 ACL_INHERITANCE_NFS4)
  else if bit type ACL_TYPE_POSIX1E then
    within (atypes a) ACL_TYPE_POSIX1E && within perm ACL_PERMS_POSIX1E
  else false.

Definition tag_known (tag : N) : bool :=
  (tag =? ACL_USER) || (tag =? ACL_USER_OBJ) || (tag =? ACL_GROUP) || (tag =? ACL_GROUP_OBJ) ||
  (tag =? ACL_MASK) || (tag =? ACL_OTHER) || (tag =? ACL_EVERYONE).

Definition tag_ok_for (type tag : N) : bool :=
  if (tag =? ACL_USER) || (tag =? ACL_USER_OBJ) || (tag =? ACL_GROUP) || (tag =? ACL_GROUP_OBJ) then true
  else if (tag =? ACL_MASK) || (tag =? ACL_OTHER) then within type ACL_TYPE_POSIX1E
  else if tag =? ACL_EVERYONE then within type ACL_TYPE_NFS4
  else false.

Definition is_ug (tag : N) : bool := (tag =? ACL_USER) || (tag =? ACL_GROUP).

(* the "matching entry already in the list" test of acl_new_entry *)
Definition same_slot (type tag : N) (id : Z) (e : aentry) : bool :=
  negb (bit type ACL_TYPE_NFS4) && (etype e =? type) && (etag e =? tag) && (eid e =? id)%Z &&
  (negb (id =? -1)%Z || negb (is_ug tag)).

Fixpoint overwrite (type tag : N) (id : Z) (perm : N) (name : str) (l : list aentry) : option (list aentry) :=
  match l with
  | [] => None
  | e :: r =>
    if same_slot type tag id e then Some (mkE (etype e) (etag e) perm (eid e) name :: r)
    else match overwrite type tag id perm name r with
         | Some r' => Some (e :: r')
         | None => None
         end
  end.

(* acl_new_entry followed by the caller's copy/clean of the name; None = NULL *)
Definition new_entry (a : acl) (type perm tag : N) (id : Z) (name : str) : option acl :=
  if type_ok a type perm && tag_ok_for type tag then
    match overwrite type tag id perm name (aents a) with
    | Some l => Some (mkAcl (amode a) l (atypes a))
    | None => Some (mkAcl (amode a) (aents a ++ [mkE type tag perm id name]) (N.lor (atypes a) type))
    end
  else None.

(* archive_acl_add_entry / _w_len / _len_l : status and new ACL *)
Definition add_entry (a : acl) (type perm tag : N) (id : Z) (name : str) : Z * acl :=
  match acl_special a type perm tag with
  | Some a' => (ARCHIVE_OK, a')
  | None =>
    match new_entry a type perm tag id name with
    | Some a' => (ARCHIVE_OK, a')
    | None => (ARCHIVE_FAILED, a)
    end
  end.

(* ================================================================ to_text *)
Definition text_want_type (a : acl) (flags : N) : N :=
  if bit (atypes a) ACL_TYPE_NFS4 then
    if bit (atypes a) ACL_TYPE_POSIX1E then 0 else ACL_TYPE_NFS4
  else
    let w := N.lor (if bit flags ACL_TYPE_ACCESS then ACL_TYPE_ACCESS else 0)
                   (if bit flags ACL_TYPE_DEFAULT then ACL_TYPE_DEFAULT else 0) in
    if w =? 0 then ACL_TYPE_POSIX1E else w.

(* append_id: decimal digits of max(id,0).  The C recursion depth is at most 10 for an int; the
   fuel 9 gives at most 10 digits, so the model is exact for id < 10^10. *)
Fixpoint append_id_fuel (fuel : nat) (id : Z) : str :=
  match fuel with
  | O => [c_0 + Z.to_N (id mod 10)]
  | S f => (if (9 <? id)%Z then append_id_fuel f (id / 10) else []) ++ [c_0 + Z.to_N (id mod 10)]
  end.
Definition append_id (id : Z) : str := append_id_fuel 9 (if (id <? 0)%Z then 0%Z else id).

(* "ID digit count" loop of archive_acl_text_len (same depth bound) *)
Fixpoint idlen_fuel (fuel : nat) (tmp : Z) : N :=
  match fuel with
  | O => 0
  | S f => if (9 <? tmp)%Z then 1 + idlen_fuel f (tmp / 10) else 0
  end.
Definition idlen (id : Z) : N := 1 + idlen_fuel 9 id.

Definition uid_field : N := 13.      (* sizeof(uid_t) * 3 + 1 *)

(* entries that neither archive_acl_text_len nor archive_acl_to_text_* look at *)
Definition skipped (want : N) (e : aentry) : bool :=
  negb (bit (etype e) want) ||
  ((etype e =? ACL_TYPE_ACCESS) &&
   ((etag e =? ACL_USER_OBJ) || (etag e =? ACL_GROUP_OBJ) || (etag e =? ACL_OTHER))).

(* one iteration of the loop of archive_acl_text_len on the running [length] *)
Definition tl_entry (fxl wide : bool) (want flags : N) (e : aentry) (length : N) : N :=
  let nfs := want =? ACL_TYPE_NFS4 in
  let tag := etag e in
  let length := if bit want ACL_TYPE_DEFAULT && bit (etype e) ACL_TYPE_DEFAULT then length + 8 else length in
  let length :=
    if tag =? ACL_USER_OBJ then (if nfs then length + 6 else length + 4)
    else if (tag =? ACL_USER) || (tag =? ACL_MASK) then length + 4
    else if tag =? ACL_GROUP_OBJ then (if nfs then length + 6 else length + 5)
    else if (tag =? ACL_GROUP) || (tag =? ACL_OTHER) then length + 5
    else if tag =? ACL_EVERYONE then length + 9
    else length in
  let length := length + 1 in
  let length :=
    if is_ug tag then
      (match ename e with
       | [] => length + uid_field + (if fxl && negb wide && nfs then uid_field else 0)
       | n => length + N.of_nat (List.length n)
       end) + 1
    else if negb nfs then length + 1 else length in
  let length :=
    if bit flags ACL_STYLE_SOLARIS && bit want ACL_TYPE_POSIX1E && ((tag =? ACL_OTHER) || (tag =? ACL_MASK))
    then length - 1 else length in
  let length :=
    if nfs then length + 27 + (if bit (etype e) ACL_TYPE_DENY then 0 else 1) else length + 3 in
  let length :=
    if is_ug tag && bit flags ACL_STYLE_EXTRA_ID then length + 1 + idlen (eid e) else length in
  length + 1.

Fixpoint tl_loop (fxl wide : bool) (want flags : N) (l : list aentry) (count length : N) : N * N :=
  match l with
  | [] => (count, length)
  | e :: r =>
    if skipped want e then tl_loop fxl wide want flags r count length
    else tl_loop fxl wide want flags r (count + 1) (tl_entry fxl wide want flags e length)
  end.

Definition text_len (fxl wide : bool) (a : acl) (want flags : N) : N :=
  let '(count, length) := tl_loop fxl wide want flags (aents a) 0 0 in
  if bit want ACL_TYPE_ACCESS then
    (if bit flags ACL_STYLE_SOLARIS then length + 31 else length + 32)
  else if count =? 0 then 0 else length.

Definition perm_letters (wide compact : bool) (table : list (N * N * N)) (perm : N) : str :=
  flat_map (fun row => let '(b, c, wc) := row in
              if bit perm b then [if wide then wc else c]
              else if compact then [] else [c_dash]) table.

Definition type_word (type : N) : str :=
  if type =? ACL_TYPE_ALLOW then s_allow
  else if type =? ACL_TYPE_DENY then s_deny
  else if type =? ACL_TYPE_AUDIT then s_audit
  else if type =? ACL_TYPE_ALARM then s_alarm
  else [].       (* C: nothing copied, strlen of a stale buffer; not a valid NFSv4 entry type *)

(* the permission part written by append_entry *)
Definition perm_text (wide : bool) (type flags perm : N) : str :=
  if bit type ACL_TYPE_POSIX1E then
    [(if bit perm 292 then c_r else c_dash); (if bit perm 146 then c_w else c_dash);
     (if bit perm 73 then c_x else c_dash)]
  else
    let compact := bit flags ACL_STYLE_COMPACT in
    perm_letters wide compact nfsv4_perm_map perm ++ [c_colon] ++
    perm_letters wide compact nfsv4_flag_map perm ++ [c_colon] ++ type_word type.

Definition id_text (id : Z) : str := if (id =? -1)%Z then [] else c_colon :: append_id id.

(* the switch (tag) of append_entry: tag word, and name / id as left by the switch *)
Definition tag_select (type tag : N) (name : option str) (id : Z) : str * option str * Z :=
  let nfs := bit type ACL_TYPE_NFS4 in
  if tag =? ACL_USER_OBJ then ((if nfs then s_owner_at else s_user), None, (-1)%Z)
  else if tag =? ACL_USER then (s_user, name, id)
  else if tag =? ACL_GROUP_OBJ then ((if nfs then s_group_at else s_group), None, (-1)%Z)
  else if tag =? ACL_GROUP then (s_group, name, id)
  else if tag =? ACL_MASK then (s_mask, None, (-1)%Z)
  else if tag =? ACL_OTHER then (s_other, None, (-1)%Z)
  else if tag =? ACL_EVERYONE then (s_everyone_at, None, (-1)%Z)
  else ([], name, id).     (* C: nothing copied, strlen of a stale buffer; excluded by tag_known *)

(* the name / id field and the colon after it; returns the id as left for the trailing id field *)
Definition mid_text (type tag flags : N) (name : option str) (id : Z) : str * Z :=
  let ug := is_ug tag in
  if bit type ACL_TYPE_POSIX1E || ug then
    let '(nm, id) :=
      match name with
      | Some n => (n, id)
      | None => if ug then (append_id id, if bit type ACL_TYPE_NFS4 then id else (-1)%Z) else ([], id)
      end in
    (nm ++ (if negb (bit flags ACL_STYLE_SOLARIS) || (negb (tag =? ACL_OTHER) && negb (tag =? ACL_MASK))
            then [c_colon] else []), id)
  else ([], id).

(* append_entry / append_entry_w.  [name = None] is the NULL pointer. *)
Definition append_entry (wide : bool) (prefix : str) (type tag flags : N) (name : option str) (perm : N) (id : Z) : str :=
  let '(tagstr, name, id) := tag_select type tag name id in
  let '(mid, id) := mid_text type tag flags name id in
  prefix ++ tagstr ++ [c_colon] ++ mid ++ perm_text wide type flags perm ++ id_text id.

Definition name_opt (e : aentry) : option str := match ename e with [] => None | n => Some n end.

Definition e_prefix (flags : N) (e : aentry) : str :=
  if (etype e =? ACL_TYPE_DEFAULT) && bit flags ACL_STYLE_MARK_DEFAULT then s_default_colon else [].
(* the id handed to append_entry: the two C functions differ here *)
Definition e_id (wide : bool) (flags : N) (e : aentry) : Z :=
  if wide then (if bit flags ACL_STYLE_EXTRA_ID then eid e else (-1)%Z)
  else match name_opt e with
       | None => eid e
       | Some _ => if bit flags ACL_STYLE_EXTRA_ID then eid e else (-1)%Z
       end.
Definition e_text (wide : bool) (flags : N) (e : aentry) : str :=
  append_entry wide (e_prefix flags e) (etype e) (etag e) flags (name_opt e) (eperm e) (e_id wide flags e).

(* the loop over acl_head of archive_acl_to_text_l/_w; [some] is "count > 0" *)
Fixpoint tt_loop (wide : bool) (want flags sep : N) (l : list aentry) (some : bool) : str :=
  match l with
  | [] => []
  | e :: r =>
    if skipped want e then tt_loop wide want flags sep r some
    else (if some then [sep] else []) ++ e_text wide flags e ++ tt_loop wide want flags sep r true
  end.

(* flags as modified at the top of archive_acl_to_text_* *)
Definition tt_flags (want flags : N) : N :=
  if want =? ACL_TYPE_POSIX1E then N.lor flags ACL_STYLE_MARK_DEFAULT else flags.

(* the value of [length] that archive_acl_to_text_* allocates (0 = returns NULL) *)
Definition text_len_of (fxl wide : bool) (a : acl) (flags : N) : N :=
  let want := text_want_type a flags in
  if want =? 0 then 0 else text_len fxl wide a want (tt_flags want flags).

(* the characters written before the terminating NUL *)
Definition to_text_body (wide : bool) (a : acl) (flags0 : N) : str :=
  let want := text_want_type a flags0 in
  let flags := tt_flags want flags0 in
  let sep := if bit flags ACL_STYLE_SEPARATOR_COMMA then c_comma else c_nl in
  let base := bit want ACL_TYPE_ACCESS in
  (if base then
     append_entry wide [] ACL_TYPE_ACCESS ACL_USER_OBJ flags None (N.land (amode a) 448) (-1) ++ [sep] ++
     append_entry wide [] ACL_TYPE_ACCESS ACL_GROUP_OBJ flags None (N.land (amode a) 56) (-1) ++ [sep] ++
     append_entry wide [] ACL_TYPE_ACCESS ACL_OTHER flags None (N.land (amode a) 7) (-1)
   else []) ++
  tt_loop wide want flags sep (aents a) base.

(* archive_acl_to_text_l / _w : None = NULL.  (Failing character-set conversion of a name and
   ENOMEM are not modelled.) *)
Definition to_text (fxl wide : bool) (a : acl) (flags : N) : option str :=
  if text_len_of fxl wide a flags =? 0 then None else Some (to_text_body wide a flags).

(* ================================================================ the parser *)
(* A field is the pair of pointers (start, end) of the C code: [fsuf] is the text from [start] to
   the end of the input (so that the character AT start can be looked at even when the field is
   empty), [flen] = end - start.  A NULL field is [None]. *)
Record field := mkF { fsuf : str; flen : nat }.
Definition fbody (f : field) : str := firstn (flen f) (fsuf f).
Definition fbody_o (f : option field) : str := match f with Some f => fbody f | None => [] end.
Definition fnonempty (f : option field) : bool := match f with Some f => negb (Nat.eqb (flen f) 0) | None => false end.

(* the character at the head of the remaining input; at the end of the input this is the
   character at index [length text]: the terminating NUL for archive_acl_from_text_l/_w, whatever
   follows the [length] bytes for archive_acl_from_text_nl ([sent]) *)
Definition peek (sent : N) (p : str) : N := match p with [] => sent | c :: _ => c end.

Definition is_ws (c : N) : bool := (c =? c_sp) || (c =? c_tab) || (c =? c_nl).
Definition is_sepc (c : N) : bool := (c =? c_comma) || (c =? c_colon) || (c =? c_nl) || (c =? c_hash).

Fixpoint skip_ws (p : str) : str :=
  match p with c :: r => if is_ws c then skip_ws r else p | [] => [] end.
(* number of characters up to the first white space or separator, and the rest *)
Fixpoint scan_body (p : str) : nat * str :=
  match p with
  | c :: r => if is_ws c || is_sepc c then (O, p) else let '(n, q) := scan_body r in (S n, q)
  | [] => (O, [])
  end.
Fixpoint scan_sep (p : str) : str :=
  match p with c :: r => if is_sepc c then p else scan_sep r | [] => [] end.
Fixpoint scan_comment (p : str) : str :=
  match p with c :: r => if (c =? c_comma) || (c =? c_nl) then p else scan_comment r | [] => [] end.

(* next_field (char).  With [fxs = false] the two "*sep = **p" read the character at index
   [length] when the input is exhausted. *)
Definition next_field_n (fxs : bool) (sent : N) (p : str) : field * N * str :=
  let sent := if fxs then 0 else sent in
  let s := skip_ws p in
  let '(n, p1) := scan_body s in
  let p2 := scan_sep p1 in
  let sep := peek sent p2 in
  let '(p3, sep) := if sep =? c_hash then (let q := scan_comment p2 in (q, peek sent q)) else (p2, sep) in
  (mkF s n, sep, tl p3).

(* next_field_w (wchar_t): the field runs to the separator, trailing white space trimmed *)
Definition rstrip (s : str) : str := rev (skip_ws (rev s)).
Definition next_field_w (p : str) : field * N * str :=
  let s := skip_ws p in
  let p1 := scan_sep s in
  let sep := peek 0 p1 in
  let region := firstn (List.length s - List.length p1) s in
  let n := List.length (rstrip region) in
  let '(p3, sep) := if sep =? c_hash then (let q := scan_comment p1 in (q, peek 0 q)) else (p1, sep) in
  (mkF s n, sep, tl p3).

Definition next_field (wide fxs : bool) (sent : N) (p : str) : field * N * str :=
  if wide then next_field_w p else next_field_n fxs sent p.

(* the do { next_field ... } while (sep == ':') loop; None = the loop does not terminate *)
Fixpoint collect (fuel : nat) (wide fxs : bool) (sent : N) (numfields : nat) (p : str)
                 (fields : nat) (acc : list field) : option (list field * nat * str) :=
  match fuel with
  | O => None
  | S fuel' =>
    let '(f, sep, p') := next_field wide fxs sent p in
    let acc' := if Nat.ltb fields numfields then acc ++ [f] else acc in
    if sep =? c_colon then collect fuel' wide fxs sent numfields p' (S fields) acc'
    else Some (acc', S fields, p')
  end.

Fixpoint lookup (c : N) (l : list (N * N)) : option N :=
  match l with
  | [] => None
  | (k, v) :: r => if c =? k then Some v else lookup c r
  end.

(* the switch loops of ismode / is_nfs4_perms / is_nfs4_flags: returns the truth value and the
   permset as left behind (also on failure) *)
Fixpoint perm_loop (cases : list (N * N)) (b : str) (perm : N) : bool * N :=
  match b with
  | [] => (true, perm)
  | c :: r => match lookup c cases with
              | Some v => perm_loop cases r (N.lor perm v)
              | None => (false, perm)
              end
  end.

Definition ismode (fxm wide : bool) (f : option field) (perm : N) : bool * N :=
  match fbody_o f with
  | [] => (false, perm)
  | b => let '(ok, p) := perm_loop (if wide then ismode_w_cases else ismode_cases) b 0 in
         (ok, if fxm && negb ok then 0 else p)
  end.
Definition is_nfs4_perms (wide : bool) (f : option field) (perm : N) : bool * N :=
  perm_loop (if wide then is_nfs4_perms_w_cases else is_nfs4_perms_cases) (fbody_o f) perm.
Definition is_nfs4_flags (wide : bool) (f : option field) (perm : N) : bool * N :=
  perm_loop (if wide then is_nfs4_flags_w_cases else is_nfs4_flags_cases) (fbody_o f) perm.

Definition INT_MAX : Z := 2147483647.
Fixpoint isint_loop (b : str) (n : Z) : option Z :=
  match b with
  | [] => Some n
  | c :: r =>
    if (c <? c_0) || (c_9 <? c) then None
    else
      let d := Z.of_N (c - c_0) in
      isint_loop r (if (214748364 <? n)%Z || ((n =? 214748364)%Z && (7 <? d)%Z) then INT_MAX
                    else n * 10 + d)%Z
  end.
(* isint(start, end, &id): the new value of id (all callers ignore the return value) *)
Definition isint (f : option field) (id : Z) : Z :=
  match fbody_o f with
  | [] => id
  | b => match isint_loop b 0 with Some n => n | None => id end
  end.

(* memcmp(start + off, w, |w|) == 0 *)
Definition at_is (f : field) (off : nat) (w : str) : bool :=
  str_eqb (firstn (List.length w) (skipn off (fsuf f))) w.

Definition fld (fs : list field) (k : nat) : option field := nth_error fs k.

Inductive eres :=
| ENext (a : acl) (ret : Z) (types : N)      (* go on with the next entry *)
| ECrash                                     (* NULL pointer dereference *)
| EReturn (r : Z) (a : acl).                 (* return r at once *)

Definition add_parsed (a : acl) (ret : Z) (types : N) (type perm tag : N) (id : Z) (name : option field) : eres :=
  let '(r, a') := add_entry a type perm tag id (fbody_o name) in
  if (r <? ARCHIVE_WARN)%Z then EReturn r a'
  else ENext a' (if (r =? ARCHIVE_OK)%Z then ret else ARCHIVE_WARN) (N.lor types type).

(* the POSIX.1e branch of the loop body, in three stages *)

(* "default" / "d" prefix: entry type, the fields (field[0].start += 7 for "defaultuser") and n *)
Definition posix_prologue (sent want : N) (f0 : field) (rest : list field) : N * list field * nat :=
  let len0 := flen f0 in
  let isdef := (peek sent (fsuf f0) =? c_d) &&
               (Nat.eqb len0 1 || (Nat.leb 7 len0 && at_is f0 1 s_efault)) in
  if isdef then
    (if Nat.ltb 7 len0 then (ACL_TYPE_DEFAULT, mkF (skipn 7 (fsuf f0)) (len0 - 7) :: rest, O)
     else (ACL_TYPE_DEFAULT, f0 :: rest, 1%nat))
  else (want, f0 :: rest, O).

(* the switch on the first character of the tag field *)
Definition posix_tag (sent : N) (fn : field) : N :=
  let len := flen fn in
  let c := peek sent (fsuf fn) in
  if c =? c_u then (if Nat.eqb len 1 || (Nat.eqb len 4 && at_is fn 1 s_ser) then ACL_USER_OBJ else 0)
  else if c =? c_g then (if Nat.eqb len 1 || (Nat.eqb len 5 && at_is fn 1 s_roup) then ACL_GROUP_OBJ else 0)
  else if c =? c_o then (if Nat.eqb len 1 || (Nat.eqb len 5 && at_is fn 1 s_ther) then ACL_OTHER else 0)
  else if c =? c_m then (if Nat.eqb len 1 || (Nat.eqb len 4 && at_is fn 1 s_ask) then ACL_MASK else 0)
  else 0.

(* switch (tag) and the mode field *)
Definition posix_tail (fxm wide : bool) (fs : list field) (fields n : nat) (type tag : N) (id : Z)
                      (a : acl) (ret : Z) (types : N) : eres :=
  let f1 := fld fs (n + 1) in
  if (tag =? ACL_OTHER) || (tag =? ACL_MASK) then
    let '(sol, perm, bad) :=
      if Nat.eqb fields (n + 2) && fnonempty f1 then
        (let '(ok, perm) := ismode fxm wide f1 0 in (ok, perm, false))
      else if Nat.eqb fields (n + 3) && fnonempty f1 then (false, 0, true)
      else (false, 0, false) in
    if bad then ENext a ARCHIVE_WARN types else
    let '(ok, perm) :=
      if perm =? 0 then ismode fxm wide (fld fs (if sol then n + 1 else n + 2)) perm else (true, perm) in
    if negb ok then ENext a ARCHIVE_WARN types
    else add_parsed a ret types type perm tag id None
  else if (tag =? ACL_USER_OBJ) || (tag =? ACL_GROUP_OBJ) then
    let '(tag, name) :=
      if negb (id =? -1)%Z || fnonempty f1 then
        ((if tag =? ACL_USER_OBJ then ACL_USER else ACL_GROUP), f1)
      else (tag, None) in
    let '(ok, perm) := ismode fxm wide (fld fs (n + 2)) 0 in
    if negb ok then ENext a ARCHIVE_WARN types
    else add_parsed a ret types type perm tag id name
  else ENext a ARCHIVE_WARN types.

Definition parse_posix (wide fxw fxm : bool) (sent : N) (want : N) (fs : list field) (fields : nat)
                       (a : acl) (ret : Z) (types : N) : eres :=
  match fs with
  | [] => ENext a ret types          (* unreachable: at least one field is stored *)
  | f0 :: rest =>
    let '(type, fs, n) := posix_prologue sent want f0 rest in
    let id := isint (fld fs (n + 1)) (-1) in
    let id := if (id =? -1)%Z && Nat.ltb (n + 3) fields then isint (fld fs (n + 3)) id else id in
    match fld fs n with
    | None =>
      (* field[n] is NULL: len = 0 in the char variant; the wchar_t variant evaluates *s *)
      if wide && negb fxw then ECrash else ENext a ARCHIVE_WARN types
    | Some fn =>
      if (negb wide || fxw) && Nat.eqb (flen fn) 0 then ENext a ARCHIVE_WARN types
      else posix_tail fxm wide fs fields n type (posix_tag sent fn) id a ret types
    end
  end.

(* the NFSv4 branch of the loop body *)
Definition parse_nfs4 (wide : bool) (fs : list field) (a : acl) (ret : Z) (types : N) : eres :=
  let f0 := fld fs 0 in
  let b := fbody_o f0 in
  let tag :=
    if str_eqb b s_user then ACL_USER
    else if str_eqb b s_group then ACL_GROUP
    else if str_eqb b s_owner_at then ACL_USER_OBJ
    else if str_eqb b s_group_at then ACL_GROUP_OBJ
    else if str_eqb b s_everyone_at then ACL_EVERYONE
    else 0 in
  if tag =? 0 then ENext a ARCHIVE_WARN types else
  let '(n, name, id) :=
    if is_ug tag then (1%nat, fld fs 1, isint (fld fs 1) (-1)) else (O, None, (-1)%Z) in
  let '(ok, perm) := is_nfs4_perms wide (fld fs (1 + n)) 0 in
  if negb ok then ENext a ARCHIVE_WARN types else
  let '(ok, perm) := is_nfs4_flags wide (fld fs (2 + n)) perm in
  if negb ok then ENext a ARCHIVE_WARN types else
  let tb := fbody_o (fld fs (3 + n)) in
  let type :=
    if str_eqb tb s_deny then ACL_TYPE_DENY
    else if str_eqb tb s_allow then ACL_TYPE_ALLOW
    else if str_eqb tb s_audit then ACL_TYPE_AUDIT
    else if str_eqb tb s_alarm then ACL_TYPE_ALARM
    else 0 in
  if type =? 0 then ENext a ARCHIVE_WARN types else
  let id := isint (fld fs (4 + n)) id in
  add_parsed a ret types type perm tag id name.

Inductive presult :=
| PRet (status : Z) (a : acl)
| PCrash                    (* NULL pointer dereference *)
| PHang.                    (* the field loop never ends (in C: until [fields] overflows) *)

(* the while loop of archive_acl_from_text_nl / _w *)
Fixpoint parse_loop (fuel : nat) (wide fxw fxs fxm : bool) (sent : N) (want : N) (numfields : nat)
                    (p : str) (a : acl) (ret : Z) (types : N) : presult :=
  match p with
  | [] => PRet ret a           (* archive_acl_reset(acl, types) does not change the entries *)
  | c0 :: _ =>
    if c0 =? 0 then PRet ret a else      (* *text == '\0' *)
    match fuel with
    | O => PHang
    | S fuel' =>
      match collect (List.length p + 2) wide fxs sent numfields p 0 [] with
      | None => PHang
      | Some (fs, fields, p') =>
        let iscomment := match fs with f0 :: _ => peek (if wide then 0 else sent) (fsuf f0) =? c_hash | [] => false end in
        if iscomment then parse_loop fuel' wide fxw fxs fxm sent want numfields p' a ret types
        else
          match (if want =? ACL_TYPE_NFS4 then parse_nfs4 wide fs a ret types
                 else parse_posix wide fxw fxm (if wide then 0 else sent) want fs fields a ret types) with
          | ENext a' ret' types' => parse_loop fuel' wide fxw fxs fxm sent want numfields p' a' ret' types'
          | ECrash => PCrash
          | EReturn r a' => PRet r a'
          end
      end
    end
  end.

(* archive_acl_from_text_nl(acl, text, length, want_type): [text] are the [length] characters,
   [sent] the character that follows them in memory.  wide = archive_acl_from_text_w (sent = 0). *)
Definition from_text_nl (wide fxw fxs fxm : bool) (sent : N) (text : str) (want : N) (a : acl) : presult :=
  let go (want : N) (numfields : nat) :=
    parse_loop (S (List.length text)) wide fxw fxs fxm sent want numfields text a ARCHIVE_OK 0 in
  if want =? ACL_TYPE_POSIX1E then go ACL_TYPE_ACCESS 5%nat
  else if (want =? ACL_TYPE_ACCESS) || (want =? ACL_TYPE_DEFAULT) then go want 5%nat
  else if want =? ACL_TYPE_NFS4 then go want 6%nat
  else PRet ARCHIVE_FATAL a.

(* archive_acl_from_text_l / archive_entry_acl_from_text(_w): NUL-terminated text *)
Definition from_text (wide fxw fxs fxm : bool) (text : str) (want : N) (a : acl) : presult :=
  from_text_nl wide fxw fxs fxm 0 (cstr text) want a.
