(* C14 - file flags: proofs about Entry/FflagsDefs.v.
   1. entry level: set_fflags discards any stored text; copy_fflags_text stores the text and the bitmaps it
      parses to; the text getter's cache changes nothing observable; clone and clear.
   2. ae_fflagstostr never writes more than it allocated (any table).
   3. round trip: for a table that passes the decidable check [wf_table] (checked on the regenerated table in
      Properties_C14.v), disjoint bitmaps made of known bits print to a text that parses back to exactly them,
      with no unrecognised token. *)
From Coq Require Import List ZArith NArith Bool Lia.
From LA Require Import Base.Val Gen.FflagsTable Entry.FflagsDefs.
Import ListNotations.
Local Open Scope N_scope.

(* ---------------------------------------------------------------- 1. entry level *)
Lemma text_after_set_fflags : forall st s c,
  snd (fstep (fst (fstep st (SetFflags s c))) GetText) =
  OText (if (ulong s =? 0) && (ulong c =? 0) then None else fflagstostr (ulong s) (ulong c)).
Proof.
  intros st s c. cbn [fstep fst snd ftext fset fclear].
  destruct ((ulong s =? 0) && (ulong c =? 0)); [reflexivity |].
  destruct (fflagstostr (ulong s) (ulong c)); reflexivity.
Qed.

Lemma bits_after_set_fflags : forall st s c,
  snd (fstep (fst (fstep st (SetFflags s c))) GetBits) = OBits (ulong s) (ulong c).
Proof. reflexivity. Qed.

Lemma after_copy_text : forall st t,
  let st1 := fst (fstep st (CopyText t)) in
  snd (fstep st1 GetText) = OText (Some t) /\
  snd (fstep st1 GetBits) = OBits (fst (fst (strtofflags t))) (snd (fst (strtofflags t))) /\
  snd (fstep st (CopyText t)) = OFailed (snd (strtofflags t)).
Proof.
  intros st t. cbn [fstep]. destruct (strtofflags t) as [[s c] f]. cbn. repeat split; reflexivity.
Qed.

(* reading the text twice gives the same text, and reading it never changes the bitmaps *)
Lemma get_text_stable : forall st,
  let st1 := fst (fstep st GetText) in
  fstep st1 GetText = (st1, snd (fstep st GetText)) /\ fset st1 = fset st /\ fclear st1 = fclear st.
Proof.
  intros [s c t]. cbn [fstep ftext fset fclear]. destruct t as [t |].
  - cbn. repeat split; reflexivity.
  - destruct ((s =? 0) && (c =? 0)) eqn:E.
    + cbn [fst snd fstep ftext fset fclear]. rewrite E. repeat split; reflexivity.
    + destruct (fflagstostr s c) as [p |] eqn:F.
      * cbn. repeat split; reflexivity.
      * cbn [fst snd fstep ftext fset fclear]. rewrite E, F. repeat split; reflexivity.
Qed.

Lemma clone_keeps : forall st, fstep st Clone = (st, ONone).
Proof. reflexivity. Qed.
Lemma clear_resets : forall st, fst (fstep st Clear) = f0.
Proof. reflexivity. Qed.

(* ---------------------------------------------------------------- bit lemmas *)
Lemma hits_false : forall a b, hits a b = false <-> N.land a b = 0.
Proof. intros a b. unfold hits. rewrite negb_false_iff. apply N.eqb_eq. Qed.
Lemma hits_true : forall a b, hits a b = true <-> N.land a b <> 0.
Proof. intros a b. unfold hits. rewrite negb_true_iff. apply N.eqb_neq. Qed.
Lemma hits_0_r : forall a, hits a 0 = false.
Proof. intro a. apply hits_false. apply N.land_0_r. Qed.

Ltac bitwise :=
  apply N.bits_inj; intro i;
  repeat first [rewrite N.lor_spec | rewrite N.land_spec | rewrite N.ldiff_spec | rewrite N.bits_0].

Lemma land_lor_4 : forall a b c d,
  N.land (N.lor a b) (N.lor c d) = N.lor (N.lor (N.land a c) (N.land a d)) (N.lor (N.land b c) (N.land b d)).
Proof. intros. bitwise. destruct (N.testbit a i), (N.testbit b i), (N.testbit c i), (N.testbit d i); reflexivity. Qed.

Lemma hits_lor : forall bs bc rs rc,
  hits (N.lor bs bc) (N.lor rs rc) = (hits bs rs || hits bc rc) || (hits bs rc || hits bc rs).
Proof.
  intros. unfold hits. rewrite land_lor_4.
  destruct (N.land bs rs =? 0) eqn:A, (N.land bs rc =? 0) eqn:B, (N.land bc rs =? 0) eqn:C, (N.land bc rc =? 0) eqn:D;
    rewrite ?N.eqb_eq, ?N.eqb_neq in *; cbn;
    try (apply negb_true_iff; apply N.eqb_neq; intro H; apply N.lor_eq_0_iff in H; destruct H as [H1 H2];
         apply N.lor_eq_0_iff in H1; apply N.lor_eq_0_iff in H2; destruct H1, H2; congruence).
  apply negb_false_iff. apply N.eqb_eq. rewrite A, B, C, D. reflexivity.
Qed.

Lemma ldiff_lor : forall a b m, N.ldiff (N.lor a b) m = N.lor (N.ldiff a m) (N.ldiff b m).
Proof. intros. bitwise. destruct (N.testbit a i), (N.testbit b i), (N.testbit m i); reflexivity. Qed.

(* ---------------------------------------------------------------- 2. the buffer of ae_fflagstostr *)
Lemma length_strip2 : forall n : bytes, (length (strip2 n) <= length n)%nat.
Proof. intro n. unfold strip2. rewrite skipn_length. lia. Qed.

Lemma length_join_cons : forall x l,
  length (join (x :: l)) = (length x + match l with [] => 0 | _ => 1 + length (join l) end)%nat.
Proof.
  intros x l. destruct l as [| y l]; cbn [join].
  - lia.
  - rewrite app_length. cbn [length]. lia.
Qed.

(* bytes written (text, commas, NUL) never exceed the bytes allocated *)
Lemma written_fits : forall tbl bs bc,
  emit tbl bs bc <> [] ->
  N.of_nat (length (join (emit tbl bs bc))) + 1 <= alloc_len tbl (N.lor bs bc).
Proof.
  induction tbl as [| r rest IH]; intros bs bc Hne; cbn [emit alloc_len] in *; [congruence |].
  unfold r_bits. rewrite hits_lor.
  destruct (hits bs (r_set r) || hits bc (r_clear r)) eqn:A.
  - cbn [orb]. rewrite length_join_cons. unfold r_bits. rewrite ldiff_lor.
    pose proof (length_strip2 (r_name r)) as L.
    destruct (emit rest (N.ldiff bs (N.lor (r_set r) (r_clear r))) (N.ldiff bc (N.lor (r_set r) (r_clear r)))) eqn:E.
    + lia.
    + assert (Hn : emit rest (N.ldiff bs (N.lor (r_set r) (r_clear r))) (N.ldiff bc (N.lor (r_set r) (r_clear r))) <> [])
        by (rewrite E; discriminate).
      specialize (IH _ _ Hn). rewrite E in IH. lia.
  - cbn [orb]. destruct (hits bs (r_clear r) || hits bc (r_set r)) eqn:B.
    + rewrite length_join_cons. unfold r_bits. rewrite ldiff_lor.
      destruct (emit rest (N.ldiff bs (N.lor (r_set r) (r_clear r))) (N.ldiff bc (N.lor (r_set r) (r_clear r)))) eqn:E.
      * lia.
      * assert (Hn : emit rest (N.ldiff bs (N.lor (r_set r) (r_clear r))) (N.ldiff bc (N.lor (r_set r) (r_clear r))) <> [])
          by (rewrite E; discriminate).
        specialize (IH _ _ Hn). rewrite E in IH. lia.
    + apply IH. exact Hne.
Qed.

(* the text is NULL exactly when nothing is emitted *)
Lemma alloc_zero_iff : forall tbl bs bc, alloc_len tbl (N.lor bs bc) = 0 <-> emit tbl bs bc = [].
Proof.
  induction tbl as [| r rest IH]; intros bs bc; cbn [emit alloc_len]; [tauto |].
  unfold r_bits. rewrite hits_lor.
  destruct (hits bs (r_set r) || hits bc (r_clear r)) eqn:A; cbn [orb].
  - split; [lia | discriminate].
  - destruct (hits bs (r_clear r) || hits bc (r_set r)) eqn:B.
    + split; [lia | discriminate].
    + apply IH.
Qed.

(* ---------------------------------------------------------------- 3. round trip *)
(* token names only (offsets dropped) *)
Definition od (cur : option bytes) : bytes := match cur with Some t => t | None => [] end.
Fixpoint tk (s : bytes) (cur : option bytes) : list bytes :=
  match s with
  | [] => match cur with Some t => [rev t] | None => [] end
  | b :: r => if is_sep b then match cur with Some t => rev t :: tk r None | None => tk r None end
              else tk r (Some (b :: od cur))
  end.

Lemma toks_tk : forall s pos cur, map snd (toks s pos cur) = tk s (option_map snd cur).
Proof.
  induction s as [| b r IH]; intros pos cur.
  - destruct cur as [[st t] |]; reflexivity.
  - cbn [toks tk]. destruct (is_sep b).
    + destruct cur as [[st t] |]; cbn [option_map snd map]; rewrite IH; reflexivity.
    + rewrite IH. destruct cur as [[st t] |]; reflexivity.
Qed.

Definition sepfree (n : bytes) : bool := forallb (fun b => negb (is_sep b)) n.

Lemma tk_app_ne : forall rest n' b cur, sepfree (b :: n') = true ->
  tk ((b :: n') ++ rest) cur = tk rest (Some (rev (b :: n') ++ od cur)).
Proof.
  intros rest. induction n' as [| b' n' IH]; intros b cur H.
  - cbn in H. rewrite andb_true_r in H. apply negb_true_iff in H. cbn [app tk]. rewrite H. reflexivity.
  - cbn [sepfree forallb] in H. apply andb_true_iff in H as [Hb H].
    apply negb_true_iff in Hb.
    change ((b :: b' :: n') ++ rest) with (b :: ((b' :: n') ++ rest)). cbn [tk]. rewrite Hb.
    rewrite (IH b' (Some (b :: od cur)) H). cbn [od].
    f_equal. f_equal. cbn [rev]. rewrite <- !app_assoc. reflexivity.
Qed.

Definition good_name (n : bytes) : Prop := n <> [] /\ sepfree n = true.

Lemma tk_join : forall l, Forall good_name l -> tk (join l) None = l.
Proof.
  induction l as [| x l IH]; intro H; [reflexivity |].
  inversion H as [| ? ? [Hx Hs] Hl]; subst.
  destruct x as [| b x']; [congruence |].
  destruct l as [| y l'].
  - cbn [join]. assert (E : tk ((b :: x') ++ []) None = [b :: x']).
    { rewrite tk_app_ne by exact Hs. cbn [tk od]. rewrite app_nil_r, rev_involutive. reflexivity. }
    rewrite app_nil_r in E. exact E.
  - change (join ((b :: x') :: y :: l')) with ((b :: x') ++ 44 :: join (y :: l')).
    rewrite tk_app_ne by exact Hs. cbn [od]. rewrite app_nil_r.
    change (tk (44 :: join (y :: l')) (Some (rev (b :: x')))) with (rev (rev (b :: x')) :: tk (join (y :: l')) None).
    rewrite rev_involutive, (IH Hl). reflexivity.
Qed.

Definition eff_step (tbl : list row) (acc : N * N) (t : bytes) : N * N :=
  match lookup tbl t with Some (s, c) => (N.lor (fst acc) s, N.lor (snd acc) c) | None => acc end.
Definition eff_fold (tbl : list row) (names : list bytes) (S C : N) : N * N := fold_left (eff_step tbl) names (S, C).

Lemma parse_known : forall tbl ts S C, Forall (fun t => lookup tbl t <> None) (map snd ts) ->
  parse_toks tbl ts S C None = (eff_fold tbl (map snd ts) S C, None).
Proof.
  intros tbl. induction ts as [| [st t] ts IH]; intros S C H; [reflexivity |].
  cbn [map snd] in H. inversion H as [| ? ? Ht Hr]; subst.
  cbn [parse_toks map snd]. unfold eff_fold. cbn [fold_left]. unfold eff_step at 2. cbn [fst snd].
  destruct (lookup tbl t) as [[s c] |]; [| congruence].
  apply IH. exact Hr.
Qed.

(* --- the decidable conditions on a table *)
Definition pow2b (m : N) : bool := negb (m =? 0) && (m =? 2 ^ N.log2 m).
Definition row_ok (full : list row) (r : row) : bool :=
  (((r_set r =? 0) && pow2b (r_clear r)) || ((r_clear r =? 0) && pow2b (r_set r))) &&
  (3 <=? N.of_nat (length (r_name r))) && sepfree (r_name r) &&
  match lookup full (r_name r) with Some (a, b) => (a =? r_clear r) && (b =? r_set r) | None => false end &&
  match lookup full (strip2 (r_name r)) with Some (a, b) => (a =? r_set r) && (b =? r_clear r) | None => false end.
Definition wf_table (tbl : list row) : bool := forallb (row_ok tbl) tbl.
Definition known (tbl : list row) : N := fold_right (fun r a => N.lor (r_bits r) a) 0 tbl.

Lemma pow2_atomic : forall m, pow2b m = true -> forall x, N.land x m = m \/ N.land x m = 0.
Proof.
  intros m H x. unfold pow2b in H. apply andb_true_iff in H as [_ H]. apply N.eqb_eq in H.
  remember (N.log2 m) as k eqn:Hk. clear Hk. rewrite H.
  destruct (N.testbit x k) eqn:T; [left | right]; apply N.bits_inj; intro i;
    rewrite N.land_spec, N.pow2_bits_eqb, ?N.bits_0;
    destruct (N.eqb_spec k i) as [E | E]; subst; rewrite ?T, ?andb_false_r; reflexivity.
Qed.

Ltac bit_hyp H i :=
  let A := fresh "A" in
  pose proof (f_equal (fun x => N.testbit x i) H) as A; cbn beta in A;
  rewrite ?N.land_spec, ?N.lor_spec, ?N.ldiff_spec, ?N.bits_0 in A.

Lemma acc_hit : forall S bs m K, N.land bs m = m ->
  N.lor (N.lor S m) (N.land (N.ldiff bs m) K) = N.lor S (N.land bs (N.lor m K)).
Proof.
  intros S bs m K H. bitwise. bit_hyp H i.
  destruct (N.testbit S i), (N.testbit bs i), (N.testbit m i), (N.testbit K i); cbn in *; congruence.
Qed.
Lemma acc_miss : forall C bc m K, N.land bc m = 0 ->
  N.lor (N.lor C 0) (N.land (N.ldiff bc m) K) = N.lor C (N.land bc (N.lor m K)).
Proof.
  intros C bc m K H. bitwise. bit_hyp H i.
  destruct (N.testbit C i), (N.testbit bc i), (N.testbit m i), (N.testbit K i); cbn in *; congruence.
Qed.
Lemma skip_row : forall bs m K, N.land bs m = 0 -> N.land bs (N.lor m K) = N.land bs K.
Proof.
  intros bs m K H. bitwise. bit_hyp H i.
  destruct (N.testbit bs i), (N.testbit m i), (N.testbit K i); cbn in *; congruence.
Qed.
Lemma disjoint_other : forall bs bc m, N.land bs bc = 0 -> N.land bs m = m -> N.land bc m = 0.
Proof.
  intros bs bc m D H. bitwise. bit_hyp D i. bit_hyp H i.
  destruct (N.testbit bs i), (N.testbit bc i), (N.testbit m i); cbn in *; congruence.
Qed.
Lemma disjoint_ldiff : forall bs bc m, N.land bs bc = 0 -> N.land (N.ldiff bs m) (N.ldiff bc m) = 0.
Proof.
  intros bs bc m D. bitwise. bit_hyp D i.
  destruct (N.testbit bs i), (N.testbit bc i), (N.testbit m i); cbn in *; congruence.
Qed.
Lemma land_comm_0 : forall a b, N.land a b = 0 -> N.land b a = 0.
Proof. intros a b H. rewrite N.land_comm. exact H. Qed.

Lemma sepfree_skipn : forall k n, sepfree n = true -> sepfree (skipn k n) = true.
Proof.
  induction k as [| k IH]; intros n H; [exact H |].
  destruct n as [| b n]; [reflexivity |]. cbn [skipn]. cbn [sepfree forallb] in H.
  apply andb_true_iff in H as [_ H]. apply IH. exact H.
Qed.

Lemma row_ok_parts : forall full r, row_ok full r = true ->
  ((r_set r = 0 /\ pow2b (r_clear r) = true) \/ (r_clear r = 0 /\ pow2b (r_set r) = true)) /\
  good_name (r_name r) /\ good_name (strip2 (r_name r)) /\
  lookup full (r_name r) = Some (r_clear r, r_set r) /\
  lookup full (strip2 (r_name r)) = Some (r_set r, r_clear r).
Proof.
  intros full r H. unfold row_ok in H.
  apply andb_true_iff in H as [H H5]. apply andb_true_iff in H as [H H4].
  apply andb_true_iff in H as [H H3]. apply andb_true_iff in H as [H1 H2].
  apply N.leb_le in H2.
  split.
  { apply orb_true_iff in H1 as [H1 | H1]; apply andb_true_iff in H1 as [A B]; apply N.eqb_eq in A; [left | right]; split; assumption. }
  split.
  { split; [| exact H3]. intro E. rewrite E in H2. cbn in H2. lia. }
  split.
  { split; [| apply sepfree_skipn; exact H3].
    unfold strip2. intro E. assert (L : length (skipn 2 (r_name r)) = 0%nat) by (rewrite E; reflexivity).
    rewrite skipn_length in L. lia. }
  split.
  - destruct (lookup full (r_name r)) as [[a b] |]; [| discriminate].
    apply andb_true_iff in H4 as [A B]. apply N.eqb_eq in A. apply N.eqb_eq in B. subst. reflexivity.
  - destruct (lookup full (strip2 (r_name r))) as [[a b] |]; [| discriminate].
    apply andb_true_iff in H5 as [A B]. apply N.eqb_eq in A. apply N.eqb_eq in B. subst. reflexivity.
Qed.

Lemma eff_fold_cons : forall full x l S C a b, lookup full x = Some (a, b) ->
  eff_fold full (x :: l) S C = eff_fold full l (N.lor S a) (N.lor C b).
Proof. intros. unfold eff_fold. cbn [fold_left]. unfold eff_step at 2. rewrite H. reflexivity. Qed.

Lemma atomic_hit : forall m x, pow2b m = true -> hits x m = true -> N.land x m = m.
Proof. intros m x P H. apply hits_true in H. destruct (pow2_atomic m P x) as [E | E]; [exact E | congruence]. Qed.

(* what the emitted spellings add up to when they are parsed with the whole table *)
Lemma emit_effects : forall full tbl, (forall r, In r tbl -> row_ok full r = true) ->
  forall bs bc S C, N.land bs bc = 0 ->
  eff_fold full (emit tbl bs bc) S C = (N.lor S (N.land bs (known tbl)), N.lor C (N.land bc (known tbl))).
Proof.
  intros full. induction tbl as [| r rest IH]; intros Hok bs bc S C D.
  - cbn. rewrite !N.land_0_r, !N.lor_0_r. reflexivity.
  - assert (Hrest : forall r0, In r0 rest -> row_ok full r0 = true) by (intros r0 Hi; apply Hok; right; exact Hi).
    destruct (row_ok_parts full r (Hok r (or_introl eq_refl))) as (Hkind & _ & _ & Lname & Lstrip).
    cbn [emit known fold_right]. fold (known rest). unfold r_bits.
    destruct Hkind as [[Z P] | [Z P]]; rewrite Z in *.
    + (* set = 0, clear = one bit *)
      rewrite !hits_0_r, N.lor_0_l. cbn [orb]. rewrite orb_false_r.
      destruct (hits bc (r_clear r)) eqn:H1.
      * pose proof (atomic_hit _ _ P H1) as E1.
        pose proof (disjoint_other bc bs _ (land_comm_0 _ _ D) E1) as E2.
        rewrite (eff_fold_cons _ _ _ _ _ _ _ Lstrip).
        rewrite (IH Hrest _ _ _ _ (disjoint_ldiff _ _ _ D)).
        f_equal; [apply acc_miss; exact E2 | apply acc_hit; exact E1].
      * apply hits_false in H1. destruct (hits bs (r_clear r)) eqn:H2.
        -- pose proof (atomic_hit _ _ P H2) as E1.
           rewrite (eff_fold_cons _ _ _ _ _ _ _ Lname).
           rewrite (IH Hrest _ _ _ _ (disjoint_ldiff _ _ _ D)).
           f_equal; [apply acc_hit; exact E1 | apply acc_miss; exact H1].
        -- apply hits_false in H2. rewrite (IH Hrest _ _ _ _ D).
           rewrite (skip_row _ _ _ H1), (skip_row _ _ _ H2). reflexivity.
    + (* clear = 0, set = one bit *)
      rewrite !hits_0_r, N.lor_0_r. cbn [orb]. rewrite orb_false_r.
      destruct (hits bs (r_set r)) eqn:H1.
      * pose proof (atomic_hit _ _ P H1) as E1.
        pose proof (disjoint_other bs bc _ D E1) as E2.
        rewrite (eff_fold_cons _ _ _ _ _ _ _ Lstrip).
        rewrite (IH Hrest _ _ _ _ (disjoint_ldiff _ _ _ D)).
        f_equal; [apply acc_hit; exact E1 | apply acc_miss; exact E2].
      * apply hits_false in H1. destruct (hits bc (r_set r)) eqn:H2.
        -- pose proof (atomic_hit _ _ P H2) as E1.
           rewrite (eff_fold_cons _ _ _ _ _ _ _ Lname).
           rewrite (IH Hrest _ _ _ _ (disjoint_ldiff _ _ _ D)).
           f_equal; [apply acc_miss; exact H1 | apply acc_hit; exact E1].
        -- apply hits_false in H2. rewrite (IH Hrest _ _ _ _ D).
           rewrite (skip_row _ _ _ H1), (skip_row _ _ _ H2). reflexivity.
Qed.

Lemma emit_names : forall full tbl, (forall r, In r tbl -> row_ok full r = true) ->
  forall bs bc, Forall (fun t => good_name t /\ lookup full t <> None) (emit tbl bs bc).
Proof.
  intros full. induction tbl as [| r rest IH]; intros Hok bs bc; [constructor |].
  assert (Hrest : forall r0, In r0 rest -> row_ok full r0 = true) by (intros r0 Hi; apply Hok; right; exact Hi).
  destruct (row_ok_parts full r (Hok r (or_introl eq_refl))) as (_ & G1 & G2 & Lname & Lstrip).
  cbn [emit].
  destruct (hits bs (r_set r) || hits bc (r_clear r)).
  - constructor; [split; [exact G2 | rewrite Lstrip; discriminate] | apply IH; exact Hrest].
  - destruct (hits bs (r_clear r) || hits bc (r_set r)).
    + constructor; [split; [exact G1 | rewrite Lname; discriminate] | apply IH; exact Hrest].
    + apply IH; exact Hrest.
Qed.

(* the text of disjoint bitmaps made of known bits parses back to exactly these bitmaps, every token recognised;
   no text (NULL) is printed only for the empty bitmaps *)
Theorem fflags_text_roundtrip : forall tbl s c,
  wf_table tbl = true -> N.land s c = 0 -> N.land s (known tbl) = s -> N.land c (known tbl) = c ->
  match fflagstostr_t tbl s c with
  | Some t => strtofflags_t tbl t = (s, c, None)
  | None => s = 0 /\ c = 0
  end.
Proof.
  intros tbl s c W D Ks Kc.
  assert (Hok : forall r, In r tbl -> row_ok tbl r = true) by (apply forallb_forall; exact W).
  pose proof (emit_effects tbl tbl Hok s c 0 0 D) as E. rewrite Ks, Kc, !N.lor_0_l in E.
  unfold fflagstostr_t. destruct (alloc_len tbl (N.lor s c) =? 0) eqn:A.
  - apply N.eqb_eq in A. apply alloc_zero_iff in A. rewrite A in E. cbn in E. inversion E. split; reflexivity.
  - pose proof (emit_names tbl tbl Hok s c) as Hn.
    unfold strtofflags_t, tokens.
    assert (T : map snd (toks (join (emit tbl s c)) 0 None) = emit tbl s c).
    { rewrite toks_tk. cbn [option_map]. apply tk_join.
      eapply Forall_impl; [| exact Hn]. intros a [G _]. exact G. }
    rewrite parse_known.
    + rewrite T, E. reflexivity.
    + rewrite T. eapply Forall_impl; [| exact Hn]. intros a [_ L]. exact L.
Qed.

(* a state where the hypotheses hold and something is printed (checked on the regenerated table in Properties_C14.v) *)
