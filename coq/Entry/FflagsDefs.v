(* C14 - file flags of an archive_entry: the two bitmaps and their text form.
   Model of (libarchive/archive_entry.c)
     ae_strtofflags / ae_wcstofflags   text -> (set, clear, first unknown token)
     ae_fflagstostr                    (set, clear) -> text
     archive_entry_set_fflags, archive_entry_copy_fflags_text(_w), archive_entry_fflags,
     archive_entry_fflags_text (which caches the text it builds), archive_entry_clone, archive_entry_clear
   over the table fileflags[] regenerated from the build (Gen/FflagsTable.v).  Definitions only. *)
From Coq Require Import List ZArith NArith Bool.
From LA Require Import Base.Val Gen.FflagsTable.
Import ListNotations.
Local Open Scope N_scope.

Definition row := (bytes * N * N)%type.
Definition r_name (r : row) : bytes := fst (fst r).
Definition r_set (r : row) : N := snd (fst r).
Definition r_clear (r : row) : N := snd r.
Definition r_bits (r : row) : N := N.lor (r_set r) (r_clear r).

Fixpoint beq (a b : bytes) : bool :=
  match a, b with
  | [], [] => true
  | x :: a', y :: b' => (x =? y) && beq a' b'
  | _, _ => false
  end.

(* name + 2 : the spelling without the leading "no" *)
Definition strip2 (n : bytes) : bytes := skipn 2 n.

(* ---------------------------------------------------------------- text -> bitmaps *)
Definition is_sep (b : N) : bool := (b =? 9) || (b =? 32) || (b =? 44).     (* '\t' ' ' ',' *)

(* tokens with the offset of their first byte; [cur] = the token being collected (reversed) *)
Fixpoint toks (s : bytes) (pos : N) (cur : option (N * bytes)) : list (N * bytes) :=
  match s with
  | [] => match cur with Some (st, t) => [(st, rev t)] | None => [] end
  | b :: r =>
    if is_sep b then
      match cur with
      | Some (st, t) => (st, rev t) :: toks r (pos + 1) None
      | None => toks r (pos + 1) None
      end
    else toks r (pos + 1) (match cur with Some (st, t) => Some (st, b :: t) | None => Some (pos, [b]) end)
  end.
Definition tokens (s : bytes) : list (N * bytes) := toks s 0 None.

(* the row loop of ae_strtofflags for one token: the first row whose full name ("noXXXX": reversed sense) or
   whose name without "no" ("XXXX") equals the token; result = bits to add to (set, clear) *)
Fixpoint lookup (tbl : list row) (t : bytes) : option (N * N) :=
  match tbl with
  | [] => None
  | r :: rest =>
    if beq t (r_name r) then Some (r_clear r, r_set r)
    else if (N.of_nat (length t) + 2 =? N.of_nat (length (r_name r))) && beq t (strip2 (r_name r)) then Some (r_set r, r_clear r)
    else lookup rest t
  end.

Fixpoint parse_toks (tbl : list row) (ts : list (N * bytes)) (set clear : N) (failed : option N) : N * N * option N :=
  match ts with
  | [] => (set, clear, failed)
  | (st, t) :: rest =>
    match lookup tbl t with
    | Some (s, c) => parse_toks tbl rest (N.lor set s) (N.lor clear c) failed
    | None => parse_toks tbl rest set clear (match failed with Some _ => failed | None => Some st end)
    end
  end.

Definition strtofflags_t (tbl : list row) (s : bytes) : N * N * option N := parse_toks tbl (tokens s) 0 0 None.
Definition strtofflags := strtofflags_t fileflags.

(* ---------------------------------------------------------------- bitmaps -> text *)
Definition hits (a b : N) : bool := negb (N.land a b =? 0).

(* second loop of ae_fflagstostr: the spellings emitted, in table order *)
Fixpoint emit (tbl : list row) (bitset bitclear : N) : list bytes :=
  match tbl with
  | [] => []
  | r :: rest =>
    let m := r_bits r in
    if hits bitset (r_set r) || hits bitclear (r_clear r) then
      strip2 (r_name r) :: emit rest (N.ldiff bitset m) (N.ldiff bitclear m)
    else if hits bitset (r_clear r) || hits bitclear (r_set r) then
      r_name r :: emit rest (N.ldiff bitset m) (N.ldiff bitclear m)
    else emit rest bitset bitclear
  end.

(* first loop: the number of bytes allocated *)
Fixpoint alloc_len (tbl : list row) (bits : N) : N :=
  match tbl with
  | [] => 0
  | r :: rest =>
    if hits bits (r_bits r) then N.of_nat (length (r_name r)) + 1 + alloc_len rest (N.ldiff bits (r_bits r))
    else alloc_len rest bits
  end.

Fixpoint join (l : list bytes) : bytes :=
  match l with
  | [] => []
  | [x] => x
  | x :: rest => x ++ 44 :: join rest
  end.

(* None = NULL (nothing to say) *)
Definition fflagstostr_t (tbl : list row) (bitset bitclear : N) : option bytes :=
  if alloc_len tbl (N.lor bitset bitclear) =? 0 then None else Some (join (emit tbl bitset bitclear)).
Definition fflagstostr := fflagstostr_t fileflags.

(* bytes written including the terminating NUL *)
Definition written_len (tbl : list row) (bitset bitclear : N) : N := N.of_nat (length (join (emit tbl bitset bitclear))) + 1.

(* ---------------------------------------------------------------- the entry's three fields *)
Record fst8 := mkF { fset : N; fclear : N; ftext : option bytes }.
Definition f0 : fst8 := mkF 0 0 None.
Definition ulong (n : N) : N := n mod (2 ^ ULONG_BITS).

Inductive fop :=
| SetFflags (s c : N)
| CopyText (t : bytes)          (* archive_entry_copy_fflags_text / _w (ASCII text) *)
| GetText
| GetBits
| Clone                         (* continue with archive_entry_clone(e), the original is freed *)
| Clear.

Inductive fout :=
| ONone
| OFailed (o : option N)        (* offset of the first unrecognised token *)
| OText (t : option bytes)
| OBits (s c : N).

Definition fstep (st : fst8) (o : fop) : fst8 * fout :=
  match o with
  | SetFflags s c => (mkF (ulong s) (ulong c) None, ONone)
  | CopyText t => let '(s, c, f) := strtofflags t in (mkF s c (Some t), OFailed f)
  | GetText =>
    match ftext st with
    | Some t => (st, OText (Some t))
    | None =>
      if (fset st =? 0) && (fclear st =? 0) then (st, OText None)
      else match fflagstostr (fset st) (fclear st) with
           | None => (st, OText None)
           | Some p => (mkF (fset st) (fclear st) (Some p), OText (Some p))
           end
    end
  | GetBits => (st, OBits (fset st) (fclear st))
  | Clone => (st, ONone)
  | Clear => (f0, ONone)
  end.

Fixpoint frun (st : fst8) (ops : list fop) : fst8 * list fout :=
  match ops with
  | [] => (st, [])
  | o :: rest => let '(st1, x) := fstep st o in let '(st2, xs) := frun st1 rest in (st2, x :: xs)
  end.
