(* C15 - round trip: parsing the text written by to_text gives the entries back. *)
From Coq Require Import List ZArith NArith Bool Lia.
From LA Require Import Base.Val Gen.Defines Gen.AclConsts Entry.AclDefs Entry.AclBits Entry.AclParse.
Import ListNotations.
Local Open Scope N_scope.

(* ------------------------------------------------------------------ clean words *)
(* a character that is neither NUL, white space nor one of  , : newline #  *)
Definition cleanc (c : N) : bool := negb (c =? 0) && negb (is_ws c) && negb (is_sepc c).
Definition clean (w : str) : bool := forallb cleanc w.
Definition is_digit (c : N) : bool := negb ((c <? c_0) || (c_9 <? c)).

Lemma cleanc_not_ws : forall c, cleanc c = true -> is_ws c = false.
Proof. unfold cleanc. intros c H. destruct (is_ws c); [|reflexivity]. rewrite andb_false_r in H. discriminate. Qed.
Lemma cleanc_not_sep : forall c, cleanc c = true -> is_sepc c = false.
Proof. unfold cleanc. intros c H. destruct (is_sepc c); [|reflexivity]. rewrite andb_false_r in H. discriminate. Qed.
Lemma cleanc_not_nul : forall c, cleanc c = true -> (c =? 0) = false.
Proof. unfold cleanc. intros c H. destruct (c =? 0); [discriminate|reflexivity]. Qed.

(* the characters that end a field in the generated text *)
Definition is_term (c : N) : bool := (c =? c_colon) || (c =? c_comma) || (c =? c_nl).

Lemma term_sepc : forall c, is_term c = true -> is_sepc c = true.
Proof.
  unfold is_term, is_sepc. intros c H.
  destruct (c =? c_colon); destruct (c =? c_comma); destruct (c =? c_nl); try reflexivity; discriminate.
Qed.
Lemma term_not_hash : forall c, is_term c = true -> (c =? c_hash) = false.
Proof.
  unfold is_term. intros c H. destruct (c =? c_hash) eqn:E; [|reflexivity]. apply N.eqb_eq in E. subst. discriminate.
Qed.

Lemma skip_ws_clean : forall w c rest, clean w = true -> (w <> [] \/ is_ws c = false) ->
  skip_ws (w ++ c :: rest) = w ++ c :: rest.
Proof.
  intros [|x w] c rest Hc H; cbn [app skip_ws].
  - destruct H as [H|H]; [congruence|]. rewrite H. reflexivity.
  - cbn [clean forallb] in Hc. apply andb_true_iff in Hc. rewrite (cleanc_not_ws x (proj1 Hc)). reflexivity.
Qed.
Lemma skip_ws_clean_end : forall w, clean w = true -> skip_ws w = w.
Proof.
  intros [|x w] Hc; [reflexivity|]. cbn [skip_ws]. cbn [clean forallb] in Hc. apply andb_true_iff in Hc.
  rewrite (cleanc_not_ws x (proj1 Hc)). reflexivity.
Qed.

Lemma scan_body_clean : forall w q, clean w = true ->
  (match q with [] => True | c :: _ => is_ws c || is_sepc c = true end) ->
  scan_body (w ++ q) = (length w, q).
Proof.
  induction w as [|x w IH]; intros q Hc Hq; cbn [app].
  - destruct q as [|c r]; [reflexivity|]. cbn [scan_body]. rewrite Hq. reflexivity.
  - cbn [clean forallb] in Hc. apply andb_true_iff in Hc. destruct Hc as [Hx Hw].
    cbn [scan_body]. rewrite (cleanc_not_ws x Hx), (cleanc_not_sep x Hx). cbn [orb].
    rewrite (IH q Hw Hq). reflexivity.
Qed.
Lemma scan_sep_clean : forall w q, clean w = true ->
  (match q with [] => True | c :: _ => is_sepc c = true end) ->
  scan_sep (w ++ q) = q.
Proof.
  induction w as [|x w IH]; intros q Hc Hq; cbn [app].
  - destruct q as [|c r]; [reflexivity|]. cbn [scan_sep]. rewrite Hq. reflexivity.
  - cbn [clean forallb] in Hc. apply andb_true_iff in Hc. destruct Hc as [Hx Hw].
    cbn [scan_sep]. rewrite (cleanc_not_sep x Hx). apply IH; assumption.
Qed.

Lemma rstrip_clean : forall w, clean w = true -> rstrip w = w.
Proof.
  intros w Hc. unfold rstrip.
  assert (H : skip_ws (rev w) = rev w).
  { apply skip_ws_clean_end. unfold clean in *. rewrite forallb_forall in *. intros x Hx. apply Hc. apply in_rev. exact Hx. }
  rewrite H. apply rev_involutive.
Qed.

Lemma firstn_app_exact : forall (w q : str), firstn (length w) (w ++ q) = w.
Proof. intros. rewrite firstn_app. rewrite Nat.sub_diag. cbn [firstn]. rewrite firstn_all. apply app_nil_r. Qed.

(* one field followed by a terminator *)
Lemma next_field_clean : forall wide fxs sent w c rest,
  clean w = true -> is_term c = true -> (w <> [] \/ c <> c_nl) ->
  next_field wide fxs sent (w ++ c :: rest) = (mkF (w ++ c :: rest) (length w), c, rest).
Proof.
  intros wide fxs sent w c rest Hc Ht Hne.
  pose proof (term_sepc c Ht) as Hs. pose proof (term_not_hash c Ht) as Hh.
  assert (Hws : w <> [] \/ is_ws c = false).
  { destruct Hne as [A|A]; [left; exact A|right].
    unfold is_term in Ht. unfold is_ws.
    destruct (c =? c_nl) eqn:E; [apply N.eqb_eq in E; congruence|].
    destruct (c =? c_colon) eqn:E1; [apply N.eqb_eq in E1; subst; reflexivity|].
    destruct (c =? c_comma) eqn:E2; [apply N.eqb_eq in E2; subst; reflexivity|discriminate]. }
  destruct wide; unfold next_field.
  - unfold next_field_w. rewrite (skip_ws_clean w c rest Hc Hws).
    rewrite (scan_sep_clean w (c :: rest) Hc Hs). cbn [peek]. rewrite Hh.
    rewrite app_length. replace (length w + length (c :: rest) - length (c :: rest))%nat with (length w) by lia.
    rewrite firstn_app_exact. rewrite (rstrip_clean w Hc). reflexivity.
  - unfold next_field_n. rewrite (skip_ws_clean w c rest Hc Hws).
    rewrite (scan_body_clean w (c :: rest) Hc) by (rewrite Hs; apply orb_true_r).
    cbn [scan_sep]. rewrite Hs. cbn [peek]. rewrite Hh. reflexivity.
Qed.

(* the last field of the text (NUL-terminated input: the character after the text is 0) *)
Lemma next_field_clean_end : forall wide fxs w,
  clean w = true ->
  next_field wide fxs 0 w = (mkF w (length w), 0, []).
Proof.
  intros wide fxs w Hc.
  destruct wide; unfold next_field.
  - unfold next_field_w. rewrite (skip_ws_clean_end w Hc).
    pose proof (scan_sep_clean w [] Hc I) as H. rewrite app_nil_r in H. rewrite H.
    cbn [peek length]. change (0 =? c_hash) with false. cbv iota.
    rewrite Nat.sub_0_r. rewrite firstn_all. rewrite (rstrip_clean w Hc). reflexivity.
  - unfold next_field_n. rewrite (skip_ws_clean_end w Hc).
    pose proof (scan_body_clean w [] Hc I) as H. rewrite app_nil_r in H. rewrite H.
    cbn [scan_sep peek]. destruct fxs; reflexivity.
Qed.

(* ------------------------------------------------------------------ an entry = words joined by colons *)
Fixpoint join (ws : list str) : str :=
  match ws with
  | [] => []
  | w :: r => match r with [] => w | _ :: _ => w ++ c_colon :: join r end
  end.

(* the pointer pairs that the field loop produces for the words of one entry; [tail] is the text
   after the entry (empty, or the separator and the following entries) *)
Fixpoint fields_of (ws : list str) (tail : str) : list field :=
  match ws with
  | [] => []
  | w :: r => mkF (join ws ++ tail) (length w) :: fields_of r tail
  end.

Lemma join_cons2 : forall w w' r, join (w :: w' :: r) = w ++ c_colon :: join (w' :: r).
Proof. reflexivity. Qed.
Lemma fields_of_cons : forall w r tail, fields_of (w :: r) tail = mkF (join (w :: r) ++ tail) (length w) :: fields_of r tail.
Proof. reflexivity. Qed.

Definition tail_ok (tail : str) : Prop :=
  tail = [] \/ exists c rest, tail = c :: rest /\ (c = c_comma \/ c = c_nl).

Lemma collect_words : forall wide fxs numfields tail, tail_ok tail ->
  forall ws fuel k acc,
  ws <> [] -> Forall (fun w => clean w = true) ws -> last ws [c_0] <> [] ->
  (length ws < fuel)%nat -> (k + length ws <= numfields)%nat ->
  collect fuel wide fxs 0 numfields (join ws ++ tail) k acc =
  Some (acc ++ fields_of ws tail, (k + length ws)%nat, tl tail).
Proof.
  intros wide fxs numfields tail Htail. induction ws as [|w r IH]; intros fuel k acc Hne Hcl Hlast Hf Hk; [congruence|].
  destruct fuel as [|fuel]; [lia|]. cbn [collect].
  inversion Hcl as [|? ? Hw Hr]; subst.
  assert (Hlt : Nat.ltb k numfields = true) by (apply Nat.ltb_lt; cbn [length] in Hk; lia).
  destruct r as [|w' r'].
  - (* last word *)
    cbn [join fields_of length]. cbn [last] in Hlast.
    destruct Htail as [Ht|(c & rest & Ht & Hc)]; subst tail.
    + rewrite app_nil_r. rewrite (next_field_clean_end wide fxs w Hw). rewrite Hlt.
      change (0 =? c_colon) with false. cbv iota. cbn [tl]. repeat f_equal; lia.
    + assert (Hterm : is_term c = true) by (destruct Hc; subst; reflexivity).
      rewrite (next_field_clean wide fxs 0 w c rest Hw Hterm (or_introl Hlast)). rewrite Hlt.
      assert (Hnc : (c =? c_colon) = false) by (destruct Hc; subst; reflexivity).
      rewrite Hnc. cbn [tl]. repeat f_equal; lia.
  - rewrite join_cons2. rewrite <- app_assoc. rewrite <- app_comm_cons.
    rewrite (next_field_clean wide fxs 0 w c_colon (join (w' :: r') ++ tail) Hw eq_refl)
      by (right; discriminate).
    rewrite Hlt. change (c_colon =? c_colon) with true. cbv iota.
    rewrite (IH fuel (S k) (acc ++ [mkF (w ++ c_colon :: join (w' :: r') ++ tail) (length w)]));
      [|discriminate|exact Hr|exact Hlast|cbn [length] in *; lia|cbn [length] in *; lia].
    rewrite (fields_of_cons w (w' :: r')). rewrite join_cons2. rewrite <- !app_assoc.
    replace (S k + length (w' :: r'))%nat with (k + length (w :: w' :: r'))%nat by (cbn [length]; lia).
    reflexivity.
Qed.

Lemma fbody_word : forall w q, fbody (mkF (w ++ q) (length w)) = w.
Proof. intros. unfold fbody. cbn [fsuf flen]. apply firstn_app_exact. Qed.

(* ------------------------------------------------------------------ numbers *)
Lemma isint_loop_app : forall a b n,
  isint_loop (a ++ b) n = match isint_loop a n with Some m => isint_loop b m | None => None end.
Proof.
  induction a as [|c a IH]; intros b n; cbn [app isint_loop]; [reflexivity|].
  destruct ((c <? c_0) || (c_9 <? c)); [reflexivity|]. apply IH.
Qed.

Lemma digit_char : forall d, (0 <= d <= 9)%Z ->
  let c := c_0 + Z.to_N d in
  ((c <? c_0) || (c_9 <? c)) = false /\ Z.of_N (c - c_0) = d.
Proof.
  intros d Hd c. subst c. unfold c_0, c_9. split.
  - apply orb_false_iff. split; [apply N.ltb_ge|apply N.ltb_ge]; lia.
  - lia.
Qed.

Lemma isint_append_id_fuel : forall f id,
  (0 <= id <= INT_MAX)%Z -> (id < 10 ^ Z.of_nat (S f))%Z ->
  isint_loop (append_id_fuel f id) 0 = Some id.
Proof.
  unfold INT_MAX. induction f as [|f IH]; intros id Hr Hf.
  - cbn [append_id_fuel]. change (10 ^ Z.of_nat 1)%Z with 10%Z in Hf.
    assert (Hm : (id mod 10 = id)%Z) by (apply Z.mod_small; lia). rewrite Hm.
    destruct (digit_char id ltac:(lia)) as [A B]. cbn [isint_loop]. rewrite A. rewrite B.
    cbn. f_equal.
  - cbn [append_id_fuel]. rewrite isint_loop_app.
    assert (Hd : (0 <= id mod 10 <= 9)%Z) by (pose proof (Z.mod_pos_bound id 10 ltac:(lia)); lia).
    destruct (digit_char (id mod 10) Hd) as [A B].
    destruct (9 <? id)%Z eqn:E9.
    + apply Z.ltb_lt in E9.
      assert (Hq : (0 <= id / 10 <= 214748364)%Z).
      { split; [apply Z.div_pos; lia|].
        assert (id / 10 < 214748365)%Z by (apply Z.div_lt_upper_bound; lia). lia. }
      rewrite IH; [|lia|].
      * cbn [isint_loop]. rewrite A. rewrite B.
        pose proof (Z.div_mod id 10 ltac:(lia)) as DM.
        destruct (214748364 <? id / 10)%Z eqn:E1; [apply Z.ltb_lt in E1; lia|].
        destruct ((id / 10 =? 214748364)%Z && (7 <? id mod 10)%Z) eqn:E2.
        { apply andb_true_iff in E2. destruct E2 as [E2 E3]. apply Z.eqb_eq in E2. apply Z.ltb_lt in E3. lia. }
        cbn [orb]. f_equal. lia.
      * apply Z.div_lt_upper_bound; [lia|].
        replace (Z.of_nat (S (S f))) with (Z.succ (Z.of_nat (S f))) in Hf by lia.
        rewrite Z.pow_succ_r in Hf by lia. exact Hf.
    + apply Z.ltb_ge in E9. cbn [isint_loop].
      assert (Hm : (id mod 10 = id)%Z) by (apply Z.mod_small; lia). rewrite Hm in *.
      rewrite A. rewrite B. cbn. f_equal.
Qed.

Lemma isint_append_id : forall id, (0 <= id <= INT_MAX)%Z -> isint_loop (append_id id) 0 = Some id.
Proof.
  intros id H. unfold append_id. destruct (id <? 0)%Z eqn:E; [apply Z.ltb_lt in E; lia|].
  apply isint_append_id_fuel; [exact H|]. unfold INT_MAX in H. change (10 ^ Z.of_nat 10)%Z with 10000000000%Z. lia.
Qed.

Lemma append_id_nonempty : forall id, append_id id <> [].
Proof.
  intros id. unfold append_id. set (x := if (id <? 0)%Z then 0%Z else id). cbn [append_id_fuel].
  intro H. apply app_eq_nil in H. destruct H as [_ H]. discriminate.
Qed.

(* digits are clean characters *)
Lemma append_id_fuel_clean : forall f id, (0 <= id)%Z -> clean (append_id_fuel f id) = true.
Proof.
  assert (D : forall id, (0 <= id)%Z -> cleanc (c_0 + Z.to_N (id mod 10)) = true).
  { intros id H. pose proof (Z.mod_pos_bound id 10 ltac:(lia)) as B.
    assert (E : exists k, (k < 10)%nat /\ Z.to_N (id mod 10) = N.of_nat k).
    { exists (Z.to_nat (id mod 10)). split; [lia|lia]. }
    destruct E as (k & Hk & Ek). rewrite Ek.
    do 10 (destruct k as [|k]; [vm_compute; reflexivity|]). lia. }
  induction f as [|f IH]; intros id H; cbn [append_id_fuel].
  - cbn [clean forallb]. rewrite (D id H). reflexivity.
  - unfold clean. rewrite forallb_app. fold (clean (if (9 <? id)%Z then append_id_fuel f (id / 10) else [])).
    cbn [forallb]. rewrite (D id H). rewrite andb_true_r.
    destruct (9 <? id)%Z; [|reflexivity]. apply IH. apply Z.div_pos; lia.
Qed.
Lemma append_id_clean : forall id, clean (append_id id) = true.
Proof.
  intros id. unfold append_id. apply append_id_fuel_clean. destruct (id <? 0)%Z eqn:E; [lia|apply Z.ltb_ge in E; exact E].
Qed.

(* a word with a character that is not a digit is not a number *)
Definition numeric (w : str) : bool := forallb is_digit w.
Lemma isint_loop_nonnumeric : forall w n, numeric w = false -> isint_loop w n = None.
Proof.
  induction w as [|c w IH]; intros n H; [discriminate|].
  cbn [numeric forallb] in H. cbn [isint_loop]. unfold is_digit in H.
  destruct ((c <? c_0) || (c_9 <? c)); [reflexivity|]. cbn [negb andb] in H. apply IH. exact H.
Qed.

(* ------------------------------------------------------------------ fields of a word list *)
Lemma join_head : forall w r, exists q, join (w :: r) = w ++ q.
Proof. intros w [|w' r]; [exists []; cbn; rewrite app_nil_r; reflexivity|exists (c_colon :: join (w' :: r)); reflexivity]. Qed.

Lemma fld_fields_body : forall ws tail k, fbody_o (fld (fields_of ws tail) k) = nth k ws [].
Proof.
  induction ws as [|w r IH]; intros tail k.
  - destruct k; reflexivity.
  - destruct k as [|k].
    + cbn [fields_of fld nth_error fbody_o nth]. destruct (join_head w r) as [q Hq]. rewrite Hq.
      rewrite <- app_assoc. apply fbody_word.
    + cbn [fld nth_error nth fields_of]. apply (IH tail k).
Qed.

Lemma fld_fields_nonempty : forall ws tail k,
  fnonempty (fld (fields_of ws tail) k) = negb (Nat.eqb (length (nth k ws [])) 0).
Proof.
  induction ws as [|w r IH]; intros tail k.
  - destruct k; reflexivity.
  - destruct k as [|k].
    + reflexivity.
    + cbn [fld nth_error nth fields_of]. apply (IH tail k).
Qed.

(* isint / ismode / is_nfs4_* only look at the body of a field *)
Definition isint_b (b : str) (id : Z) : Z :=
  match b with [] => id | _ => match isint_loop b 0 with Some n => n | None => id end end.
Lemma isint_fields : forall ws tail k id, isint (fld (fields_of ws tail) k) id = isint_b (nth k ws []) id.
Proof. intros. unfold isint, isint_b. rewrite fld_fields_body. destruct (nth k ws []); reflexivity. Qed.

Definition ismode_b (fxm wide : bool) (b : str) (perm : N) : bool * N :=
  match b with
  | [] => (false, perm)
  | _ => let '(ok, p) := perm_loop (if wide then ismode_w_cases else ismode_cases) b 0 in
         (ok, if fxm && negb ok then 0 else p)
  end.
Lemma ismode_fields : forall fxm wide ws tail k perm,
  ismode fxm wide (fld (fields_of ws tail) k) perm = ismode_b fxm wide (nth k ws []) perm.
Proof. intros. unfold ismode, ismode_b. rewrite fld_fields_body. destruct (nth k ws []); reflexivity. Qed.

Lemma isint_b_nonnumeric : forall w id, numeric w = false -> isint_b w id = id.
Proof. intros w id H. unfold isint_b. destruct w; [reflexivity|]. rewrite (isint_loop_nonnumeric _ 0 H). reflexivity. Qed.
Lemma isint_b_digits : forall i id, (0 <= i <= INT_MAX)%Z -> isint_b (append_id i) id = i.
Proof.
  intros i id H. unfold isint_b. pose proof (append_id_nonempty i) as Hne.
  destruct (append_id i) eqn:E; [congruence|]. rewrite <- E. rewrite (isint_append_id i H). reflexivity.
Qed.

(* the three permission letters of a POSIX.1e entry *)
Definition perm3 (perm : N) : str :=
  [(if bit perm 292 then c_r else c_dash); (if bit perm 146 then c_w else c_dash); (if bit perm 73 then c_x else c_dash)].
Definition perm3_value (perm : N) : N :=
  N.lor (N.lor (if bit perm 292 then ACL_READ else 0) (if bit perm 146 then ACL_WRITE else 0))
        (if bit perm 73 then ACL_EXECUTE else 0).

(* what the generated switch tables of ismode / ismode_w must satisfy *)
Definition ismode_tables_ok : bool :=
  forallb (fun cases =>
    match lookup c_r cases, lookup c_w cases, lookup c_x cases, lookup c_dash cases with
    | Some r, Some w, Some x, Some d => (r =? ACL_READ) && (w =? ACL_WRITE) && (x =? ACL_EXECUTE) && (d =? 0)
    | _, _, _, _ => false
    end) [ismode_cases; ismode_w_cases].
Lemma ismode_tables_ok_true : ismode_tables_ok = true.
Proof. vm_compute. reflexivity. Qed.

Lemma ismode_b_perm3 : forall fxm wide perm x,
  ismode_b fxm wide (perm3 perm) x = (true, perm3_value perm).
Proof.
  intros fxm wide perm x.
  pose proof ismode_tables_ok_true as HT. unfold ismode_tables_ok in HT. cbn [forallb] in HT.
  apply andb_true_iff in HT. destruct HT as [H1 HT]. apply andb_true_iff in HT. destruct HT as [H2 _].
  unfold ismode_b, perm3, perm3_value.
  assert (G : forall cases,
    match lookup c_r cases, lookup c_w cases, lookup c_x cases, lookup c_dash cases with
    | Some r, Some w, Some x, Some d => (r =? ACL_READ) && (w =? ACL_WRITE) && (x =? ACL_EXECUTE) && (d =? 0)
    | _, _, _, _ => false
    end = true ->
    perm_loop cases [(if bit perm 292 then c_r else c_dash); (if bit perm 146 then c_w else c_dash);
                     (if bit perm 73 then c_x else c_dash)] 0 =
    (true, N.lor (N.lor (if bit perm 292 then ACL_READ else 0) (if bit perm 146 then ACL_WRITE else 0))
                 (if bit perm 73 then ACL_EXECUTE else 0))).
  { intros cases H.
    destruct (lookup c_r cases) as [r|] eqn:Er; [|discriminate].
    destruct (lookup c_w cases) as [w|] eqn:Ew; [|discriminate].
    destruct (lookup c_x cases) as [xx|] eqn:Ex; [|discriminate].
    destruct (lookup c_dash cases) as [d|] eqn:Ed; [|discriminate].
    apply andb_true_iff in H. destruct H as [H Q4]. apply andb_true_iff in H. destruct H as [H Q3].
    apply andb_true_iff in H. destruct H as [Q1 Q2].
    apply N.eqb_eq in Q1, Q2, Q3, Q4. subst r w xx d.
    destruct (bit perm 292); destruct (bit perm 146); destruct (bit perm 73);
    cbn [perm_loop]; rewrite ?Er, ?Ew, ?Ex, ?Ed; reflexivity. }
  cbv iota.
  destruct wide; [rewrite (G ismode_w_cases H2)|rewrite (G ismode_cases H1)]; cbn [negb andb]; rewrite andb_false_r; reflexivity.
Qed.

(* ------------------------------------------------------------------ the stages of parse_posix on generated words *)
Definition s_default : str := [100; 101; 102; 97; 117; 108; 116].

Definition tagword (w : str) : Prop := w = s_user \/ w = s_group \/ w = s_other \/ w = s_mask.

Lemma prologue_plain : forall want w r tail rest, tagword w ->
  posix_prologue 0 want (mkF (join (w :: r) ++ tail) (length w)) rest =
  (want, mkF (join (w :: r) ++ tail) (length w) :: rest, O).
Proof.
  intros want w r tail rest H. destruct (join_head w r) as [q Hq]. rewrite Hq. rewrite <- app_assoc.
  unfold posix_prologue. cbn [fsuf flen].
  destruct H as [H|[H|[H|H]]]; subst w; reflexivity.
Qed.

Lemma prologue_default : forall want w r tail rest,
  posix_prologue 0 want (mkF (join (s_default :: w :: r) ++ tail) (length s_default)) rest =
  (ACL_TYPE_DEFAULT, mkF (join (s_default :: w :: r) ++ tail) (length s_default) :: rest, 1%nat).
Proof.
  intros want w r tail rest. rewrite join_cons2. rewrite <- app_assoc.
  unfold posix_prologue. cbn [fsuf flen]. reflexivity.
Qed.

Definition tag_of_word (w : str) : N :=
  if str_eqb w s_user then ACL_USER_OBJ else if str_eqb w s_group then ACL_GROUP_OBJ
  else if str_eqb w s_other then ACL_OTHER else ACL_MASK.

Lemma posix_tag_word : forall w r tail, tagword w ->
  posix_tag 0 (mkF (join (w :: r) ++ tail) (length w)) = tag_of_word w.
Proof.
  intros w r tail H. destruct (join_head w r) as [q Hq]. rewrite Hq. rewrite <- app_assoc.
  unfold posix_tag. cbn [fsuf flen].
  destruct H as [H|[H|[H|H]]]; subst w; reflexivity.
Qed.

(* add_parsed with the name given as characters *)
Definition add_parsed_b (a : acl) (ret : Z) (types : N) (type perm tag : N) (id : Z) (nb : str) : eres :=
  let '(r, a') := add_entry a type perm tag id nb in
  if (r <? ARCHIVE_WARN)%Z then EReturn r a'
  else ENext a' (if (r =? ARCHIVE_OK)%Z then ret else ARCHIVE_WARN) (N.lor types type).
Lemma add_parsed_eq : forall a ret types type perm tag id name,
  add_parsed a ret types type perm tag id name = add_parsed_b a ret types type perm tag id (fbody_o name).
Proof. reflexivity. Qed.

(* posix_tail as a function of the words of the entry *)
Definition posix_tail_w (fxm wide : bool) (ws : list str) (fields n : nat) (type tag : N) (id : Z)
                        (a : acl) (ret : Z) (types : N) : eres :=
  let w1 := nth (n + 1) ws [] in
  let ne1 := negb (Nat.eqb (length w1) 0) in
  if (tag =? ACL_OTHER) || (tag =? ACL_MASK) then
    let '(sol, perm, bad) :=
      if Nat.eqb fields (n + 2) && ne1 then
        (let '(ok, perm) := ismode_b fxm wide w1 0 in (ok, perm, false))
      else if Nat.eqb fields (n + 3) && ne1 then (false, 0, true)
      else (false, 0, false) in
    if bad then ENext a ARCHIVE_WARN types else
    let '(ok, perm) :=
      if perm =? 0 then ismode_b fxm wide (nth (if sol then n + 1 else n + 2)%nat ws []) perm else (true, perm) in
    if negb ok then ENext a ARCHIVE_WARN types
    else add_parsed_b a ret types type perm tag id []
  else if (tag =? ACL_USER_OBJ) || (tag =? ACL_GROUP_OBJ) then
    let '(tag, name) :=
      if negb (id =? -1)%Z || ne1 then
        ((if tag =? ACL_USER_OBJ then ACL_USER else ACL_GROUP), w1)
      else (tag, []) in
    let '(ok, perm) := ismode_b fxm wide (nth (n + 2) ws []) 0 in
    if negb ok then ENext a ARCHIVE_WARN types
    else add_parsed_b a ret types type perm tag id name
  else ENext a ARCHIVE_WARN types.

Lemma posix_tail_words : forall fxm wide ws tail fields n type tag id a ret types,
  posix_tail fxm wide (fields_of ws tail) fields n type tag id a ret types =
  posix_tail_w fxm wide ws fields n type tag id a ret types.
Proof.
  intros. unfold posix_tail, posix_tail_w.
  rewrite !fld_fields_nonempty.
  destruct ((tag =? ACL_OTHER) || (tag =? ACL_MASK)).
  - destruct (Nat.eqb fields (n + 2) && negb (Nat.eqb (length (nth (n + 1) ws [])) 0)).
    + rewrite ismode_fields.
      destruct (ismode_b fxm wide (nth (n + 1) ws []) 0) as [ok perm].
      destruct (perm =? 0); [|reflexivity]. destruct ok; rewrite ismode_fields; reflexivity.
    + destruct (Nat.eqb fields (n + 3) && negb (Nat.eqb (length (nth (n + 1) ws [])) 0)); [reflexivity|].
      cbn [N.eqb]. rewrite ismode_fields. reflexivity.
  - destruct ((tag =? ACL_USER_OBJ) || (tag =? ACL_GROUP_OBJ)); [|reflexivity].
    rewrite ismode_fields.
    destruct (negb (id =? -1)%Z || negb (Nat.eqb (length (nth (n + 1) ws [])) 0)).
    + destruct (ismode_b fxm wide (nth (n + 2) ws []) 0) as [ok perm]. destruct ok; [|reflexivity].
      cbn [negb]. rewrite add_parsed_eq. rewrite fld_fields_body. reflexivity.
    + reflexivity.
Qed.

(* the whole loop body on the words of a generated entry: [pre] is the optional "default" word *)
Definition pre_ok (pre : list str) : Prop := pre = [] \/ pre = [s_default].

Definition parse_posix_w (fxm wide : bool) (want : N) (pre : list str) (tw : str) (rw : list str)
                         (a : acl) (ret : Z) (types : N) : eres :=
  let ws := pre ++ tw :: rw in
  let n := length pre in
  let fields := length ws in
  let type := match pre with [] => want | _ => ACL_TYPE_DEFAULT end in
  let id := isint_b (nth (n + 1) ws []) (-1) in
  let id := if (id =? -1)%Z && Nat.ltb (n + 3) fields then isint_b (nth (n + 3) ws []) id else id in
  posix_tail_w fxm wide ws fields n type (tag_of_word tw) id a ret types.

Lemma parse_posix_words : forall wide fxw fxm want pre tw rw tail a ret types,
  pre_ok pre -> tagword tw ->
  parse_posix wide fxw fxm 0 want (fields_of (pre ++ tw :: rw) tail) (length (pre ++ tw :: rw)) a ret types =
  parse_posix_w fxm wide want pre tw rw a ret types.
Proof.
  intros wide fxw fxm want pre tw rw tail a ret types Hpre Htw.
  assert (Hlen : Nat.eqb (length tw) 0 = false) by (destruct Htw as [H|[H|[H|H]]]; subst tw; reflexivity).
  unfold parse_posix_w.
  destruct Hpre as [Hp|Hp]; subst pre; cbn [app length].
  - rewrite fields_of_cons. unfold parse_posix.
    rewrite (prologue_plain want tw rw tail _ Htw). rewrite <- fields_of_cons.
    rewrite !isint_fields.
    rewrite fields_of_cons at 1. cbn [fld nth_error flen].
    rewrite Hlen. rewrite andb_false_r.
    rewrite (posix_tag_word tw rw tail Htw). rewrite posix_tail_words. reflexivity.
  - rewrite (fields_of_cons s_default (tw :: rw)). unfold parse_posix.
    rewrite (prologue_default want tw rw tail). rewrite <- (fields_of_cons s_default (tw :: rw)).
    rewrite !isint_fields.
    rewrite (fields_of_cons s_default (tw :: rw)) at 1. rewrite (fields_of_cons tw rw) at 1.
    cbn [fld nth_error flen].
    rewrite Hlen. rewrite andb_false_r.
    rewrite (posix_tag_word tw rw tail Htw). rewrite posix_tail_words. reflexivity.
Qed.

(* ------------------------------------------------------------------ the words of a POSIX.1e entry *)
Definition posix_tag_ok (tag : N) : Prop :=
  tag = ACL_USER \/ tag = ACL_USER_OBJ \/ tag = ACL_GROUP \/ tag = ACL_GROUP_OBJ \/ tag = ACL_MASK \/ tag = ACL_OTHER.

Definition word_of_tag (tag : N) : str :=
  if (tag =? ACL_USER) || (tag =? ACL_USER_OBJ) then s_user
  else if (tag =? ACL_GROUP) || (tag =? ACL_GROUP_OBJ) then s_group
  else if tag =? ACL_MASK then s_mask else s_other.

Definition e_pre (flags : N) (e : aentry) : list str :=
  if (etype e =? ACL_TYPE_DEFAULT) && bit flags ACL_STYLE_MARK_DEFAULT then [s_default] else [].

(* the words after the tag word *)
Definition e_rest (wide : bool) (flags : N) (e : aentry) : list str :=
  let tag := etag e in
  let id := e_id wide flags e in
  (if is_ug tag then [match ename e with [] => append_id id | n => n end]
   else if bit flags ACL_STYLE_SOLARIS && ((tag =? ACL_OTHER) || (tag =? ACL_MASK)) then [] else [[]]) ++
  [perm3 (eperm e)] ++
  (if is_ug tag && negb (match ename e with [] => true | _ => false end) && negb (id =? -1)%Z
   then [append_id id] else []).

Definition posix_type (t : N) : Prop := t = ACL_TYPE_ACCESS \/ t = ACL_TYPE_DEFAULT.

Lemma e_text_words : forall wide flags e,
  posix_type (etype e) -> posix_tag_ok (etag e) ->
  e_text wide flags e = join (e_pre flags e ++ word_of_tag (etag e) :: e_rest wide flags e).
Proof.
  intros wide flags e Ht Htag.
  unfold e_text, append_entry, e_prefix, e_pre, e_rest, word_of_tag.
  assert (Hn : bit (etype e) ACL_TYPE_NFS4 = false) by (destruct Ht as [H|H]; rewrite H; reflexivity).
  assert (Hp : bit (etype e) ACL_TYPE_POSIX1E = true) by (destruct Ht as [H|H]; rewrite H; reflexivity).
  set (id := e_id wide flags e).
  assert (Hpre : forall x, (if (etype e =? ACL_TYPE_DEFAULT) && bit flags ACL_STYLE_MARK_DEFAULT then s_default_colon else []) ++ x =
                      join ((if (etype e =? ACL_TYPE_DEFAULT) && bit flags ACL_STYLE_MARK_DEFAULT then [s_default] else []) ++ [x])).
  { intros x. destruct ((etype e =? ACL_TYPE_DEFAULT) && bit flags ACL_STYLE_MARK_DEFAULT); reflexivity. }
  unfold tag_select, mid_text, perm_text, id_text, name_opt. rewrite Hn, Hp.
  destruct Htag as [T|[T|[T|[T|[T|T]]]]]; rewrite T; unfold is_ug; eval_eqb; cbn [orb andb negb];
  destruct ((etype e =? ACL_TYPE_DEFAULT) && bit flags ACL_STYLE_MARK_DEFAULT);
  try (destruct (bit flags ACL_STYLE_SOLARIS));
  try (destruct (ename e) as [|c0 nm]);
  cbn [orb andb negb app];
  try (destruct (id =? -1)%Z);
  cbn [join app negb orb andb s_user s_group s_mask s_other s_default s_default_colon perm3];
  rewrite <- ?app_assoc; reflexivity.
Qed.

Lemma numeric_perm3 : forall p, numeric (perm3 p) = false.
Proof. intros p. unfold perm3. destruct (bit p 292); reflexivity. Qed.

(* the hypothesis of the round trip on one entry: a name, if given, has no NUL / white space /
   separator / '#' and is not a number; ids are those of the property's quantifier (0 .. 2^31-1),
   or absent (-1) next to a name *)
Definition id_ok (id : Z) : Prop := (0 <= id <= INT_MAX)%Z.
Definition rt_entry_ok (e : aentry) : Prop :=
  if is_ug (etag e) then
    match ename e with
    | [] => id_ok (eid e)
    | n => clean n = true /\ numeric n = false /\ (eid e = (-1)%Z \/ id_ok (eid e))
    end
  else True.

Lemma e_id_extra : forall wide flags e, bit flags ACL_STYLE_EXTRA_ID = true -> e_id wide flags e = eid e.
Proof. intros wide flags e H. unfold e_id, name_opt. rewrite H. destruct wide; [reflexivity|]. destruct (ename e); reflexivity. Qed.

Definition parsed_id (e : aentry) : Z := if is_ug (etag e) then eid e else (-1)%Z.
Definition parsed_name (e : aentry) : str :=
  if is_ug (etag e) then (match ename e with [] => append_id (eid e) | n => n end) else [].

Ltac eval_eqb_in H :=
  repeat match type of H with
  | context [N.eqb ?a ?b] =>
    let v := eval vm_compute in (N.eqb a b) in
    match v with
    | true => change (N.eqb a b) with true in H
    | false => change (N.eqb a b) with false in H
    end
  end.

Lemma parse_entry_words : forall fxm wide want flags e a ret types,
  posix_tag_ok (etag e) -> rt_entry_ok e -> bit flags ACL_STYLE_EXTRA_ID = true ->
  parse_posix_w fxm wide want (e_pre flags e) (word_of_tag (etag e)) (e_rest wide flags e) a ret types =
  add_parsed_b a ret types (match e_pre flags e with [] => want | _ => ACL_TYPE_DEFAULT end)
               (perm3_value (eperm e)) (etag e) (parsed_id e) (parsed_name e).
Proof.
  intros fxm wide want flags e a ret types Htag Hok Hx.
  unfold parse_posix_w, posix_tail_w, e_rest, parsed_id, parsed_name, rt_entry_ok, word_of_tag in *.
  rewrite (e_id_extra wide flags e Hx).
  pose proof (numeric_perm3 (eperm e)) as Hnp.
  pose proof (isint_b_nonnumeric (perm3 (eperm e)) (-1) Hnp) as Hip.
  assert (Hpl : forall x, length (perm3 x) = 3%nat) by reflexivity.
  destruct Htag as [T|[T|[T|[T|[T|T]]]]]; rewrite T in *; unfold is_ug in *; eval_eqb; eval_eqb_in Hok; cbn [orb andb negb] in *;
  destruct (e_pre flags e) as [|d0 [|d1 dr]] eqn:EP;
  try (unfold e_pre in EP; destruct ((etype e =? ACL_TYPE_DEFAULT) && bit flags ACL_STYLE_MARK_DEFAULT); discriminate);
  try (destruct (bit flags ACL_STYLE_SOLARIS));
  try (destruct (ename e) as [|c0 nm] eqn:EN);
  cbn [orb andb negb app length nth Nat.add Nat.ltb Nat.leb Nat.eqb tag_of_word str_eqb s_user s_group s_other s_mask N.eqb Pos.eqb] in *.
  all: rewrite ?ismode_b_perm3, ?Hip; cbn [negb andb orb].
  (* nameless user/group: the id is read back from the name field *)
  all: try (match type of Hok with id_ok _ =>
         rewrite !(isint_b_digits (eid e) (-1) Hok);
         assert (Hneg : (eid e =? -1)%Z = false) by (apply Z.eqb_neq; unfold id_ok in Hok; lia);
         repeat first [rewrite Hneg | progress cbn [negb andb orb]]; reflexivity end).
  (* named user/group *)
  all: try (destruct Hok as (Hcl & Hnum & [Hid|Hid]);
            rewrite !(isint_b_nonnumeric _ (-1) Hnum);
            [rewrite Hid; change ((-1 =? -1)%Z) with true; cbn [negb andb orb length nth]; reflexivity
            |assert (Hneg : (eid e =? -1)%Z = false) by (apply Z.eqb_neq; unfold id_ok in Hid; lia);
             rewrite Hneg; change ((-1 =? -1)%Z) with true; cbn [negb andb orb length nth];
             rewrite !(isint_b_digits (eid e) (-1) Hid);
             repeat first [rewrite Hneg | progress cbn [negb andb orb]]; reflexivity]).
  all: try reflexivity.
  all: rewrite Hpl; cbn [Nat.eqb negb]; cbv iota beta;
       destruct (perm3_value (eperm e) =? 0); [rewrite ismode_b_perm3|]; reflexivity.
Qed.

(* ------------------------------------------------------------------ the text as a list of entries *)
Fixpoint sepjoin (sep : N) (ts : list str) : str :=
  match ts with
  | [] => []
  | t :: r => match r with [] => t | _ :: _ => t ++ sep :: sepjoin sep r end
  end.
Lemma sepjoin_cons2 : forall sep t t' r, sepjoin sep (t :: t' :: r) = t ++ sep :: sepjoin sep (t' :: r).
Proof. reflexivity. Qed.

(* the three entries that to_text makes up from the mode *)
Definition base_entries (mode : N) : list aentry :=
  [mkE ACL_TYPE_ACCESS ACL_USER_OBJ (N.land mode 448) (-1) [];
   mkE ACL_TYPE_ACCESS ACL_GROUP_OBJ (N.land mode 56) (-1) [];
   mkE ACL_TYPE_ACCESS ACL_OTHER (N.land mode 7) (-1) []].

Definition emitted (want : N) (a : acl) : list aentry := filter (fun e => negb (skipped want e)) (aents a).

Definition items (want : N) (a : acl) : list aentry :=
  (if bit want ACL_TYPE_ACCESS then base_entries (amode a) else []) ++ emitted want a.

Lemma sepjoin_flat : forall sep t ts,
  t ++ flat_map (fun x => sep :: x) ts = sepjoin sep (t :: ts).
Proof.
  intros sep t ts. revert t. induction ts as [|t' r IH]; intros t; cbn [flat_map].
  - cbn. apply app_nil_r.
  - rewrite sepjoin_cons2. cbn [app]. f_equal. f_equal. apply IH.
Qed.

Lemma sepjoin_three : forall sep (T1 T2 T3 : str) ts,
  (T1 ++ sep :: T2 ++ sep :: T3) ++ flat_map (fun x => sep :: x) ts = sepjoin sep (T1 :: T2 :: T3 :: ts).
Proof.
  intros. rewrite (sepjoin_cons2 sep T1 T2), (sepjoin_cons2 sep T2 T3).
  pose proof (sepjoin_flat sep T3 ts) as H.
  rewrite <- app_assoc. cbn [app]. f_equal. f_equal. rewrite <- app_assoc. cbn [app]. f_equal. f_equal. exact H.
Qed.

Lemma tt_loop_sepjoin : forall wide want flags sep l,
  let ts := map (e_text wide flags) (filter (fun e => negb (skipped want e)) l) in
  tt_loop wide want flags sep l false = sepjoin sep ts /\
  tt_loop wide want flags sep l true = flat_map (fun x => sep :: x) ts.
Proof.
  intros wide want flags sep. induction l as [|e r IH]; [split; reflexivity|].
  cbv zeta in *. destruct IH as [IH1 IH2].
  cbn [tt_loop filter]. destruct (skipped want e); cbn [negb]; [split; assumption|].
  cbn [map flat_map app]. rewrite IH2. split; [apply sepjoin_flat|reflexivity].
Qed.

Lemma base_text : forall wide flags tag perm,
  append_entry wide [] ACL_TYPE_ACCESS tag flags None perm (-1) =
  e_text wide flags (mkE ACL_TYPE_ACCESS tag perm (-1) []).
Proof.
  intros. unfold e_text, e_prefix, e_id, name_opt. cbn [etype etag eperm eid ename].
  change (ACL_TYPE_ACCESS =? ACL_TYPE_DEFAULT) with false. cbn [andb].
  destruct wide; [destruct (bit flags ACL_STYLE_EXTRA_ID)|]; reflexivity.
Qed.

(* to_text_body is the entries, made up and stored, separated by [sep] *)
Lemma body_items : forall wide a flags0,
  let want := text_want_type a flags0 in
  let flags := tt_flags want flags0 in
  let sep := if bit flags ACL_STYLE_SEPARATOR_COMMA then c_comma else c_nl in
  to_text_body wide a flags0 = sepjoin sep (map (e_text wide flags) (items want a)).
Proof.
  intros wide a flags0 want flags sep. unfold to_text_body, items, emitted. fold want. fold flags. fold sep.
  destruct (tt_loop_sepjoin wide want flags sep (aents a)) as [H1 H2].
  destruct (bit want ACL_TYPE_ACCESS).
  - cbv zeta in H2. rewrite H2. rewrite !base_text. unfold base_entries. cbn [map app].
    set (ts := map (e_text wide flags) (filter (fun e => negb (skipped want e)) (aents a))).
    set (T1 := e_text wide flags _). set (T2 := e_text wide flags _). set (T3 := e_text wide flags _).
    apply sepjoin_three.
  - cbn [app]. exact H1.
Qed.

(* ------------------------------------------------------------------ the words of an entry are well-behaved *)
Lemma clean_perm3 : forall p, clean (perm3 p) = true.
Proof. intros p. unfold perm3. destruct (bit p 292); destruct (bit p 146); destruct (bit p 73); reflexivity. Qed.

Definition e_words (wide : bool) (flags : N) (e : aentry) : list str :=
  e_pre flags e ++ word_of_tag (etag e) :: e_rest wide flags e.

Lemma e_words_ok : forall wide flags e,
  posix_tag_ok (etag e) -> rt_entry_ok e ->
  Forall (fun w => clean w = true) (e_words wide flags e) /\
  last (e_words wide flags e) [c_0] <> [] /\ (length (e_words wide flags e) <= 5)%nat /\
  (exists c r, join (e_words wide flags e) = c :: r /\ (c =? 0) = false /\ (c =? c_hash) = false).
Proof.
  intros wide flags e Htag Hok.
  unfold e_words, e_pre, e_rest, word_of_tag, rt_entry_ok in *.
  pose proof (clean_perm3 (eperm e)) as Hcp.
  pose proof (append_id_clean (e_id wide flags e)) as Hci.
  pose proof (append_id_nonempty (e_id wide flags e)) as Hni.
  assert (Hp3 : perm3 (eperm e) <> []) by discriminate.
  destruct Htag as [T|[T|[T|[T|[T|T]]]]]; rewrite T in *; unfold is_ug in *; eval_eqb; eval_eqb_in Hok;
  cbn [orb andb negb] in *;
  destruct ((etype e =? ACL_TYPE_DEFAULT) && bit flags ACL_STYLE_MARK_DEFAULT);
  try (destruct (bit flags ACL_STYLE_SOLARIS));
  try (destruct (ename e) as [|c0 nm] eqn:EN; [|destruct Hok as (Hcl & _ & _)]);
  cbn [orb andb negb app] in *;
  try (destruct (e_id wide flags e =? -1)%Z);
  cbn [app last length negb];
  (split; [repeat (first [apply Forall_nil | apply Forall_cons]); first [assumption | reflexivity]|]);
  (split; [assumption|]);
  (split; [lia|]);
  eexists; eexists; (split; [reflexivity|split; reflexivity]).
Qed.

Lemma join_length : forall ws, (length ws <= length (join ws) + 1)%nat.
Proof.
  induction ws as [|w r IH]; [cbn; lia|].
  destruct r as [|w' r']; [cbn; lia|]. rewrite join_cons2. rewrite app_length. cbn [length] in *. lia.
Qed.

(* ------------------------------------------------------------------ parsing the entries one after the other *)
Definition parsed_type (want flags : N) (e : aentry) : N :=
  match e_pre flags e with [] => want | _ => ACL_TYPE_DEFAULT end.

(* what the parser adds for the entries of the text, in order *)
Fixpoint readd (want flags : N) (l : list aentry) (a : acl) : option acl :=
  match l with
  | [] => Some a
  | e :: r =>
    let '(st, a') := add_entry a (parsed_type want flags e) (perm3_value (eperm e)) (etag e)
                               (parsed_id e) (parsed_name e) in
    if (st =? ARCHIVE_OK)%Z then readd want flags r a' else None
  end.

Definition entry_rt (e : aentry) : Prop := posix_type (etype e) /\ posix_tag_ok (etag e) /\ rt_entry_ok e.

Lemma parse_loop_step : forall fuel wide fxw fxs fxm sent want numfields p c q a ret types,
  p = c :: q -> (c =? 0) = false ->
  parse_loop (S fuel) wide fxw fxs fxm sent want numfields p a ret types =
  match collect (length p + 2) wide fxs sent numfields p 0 [] with
  | None => PHang
  | Some (fs, fields, p') =>
    let iscomment := match fs with f0 :: _ => peek (if wide then 0 else sent) (fsuf f0) =? c_hash | [] => false end in
    if iscomment then parse_loop fuel wide fxw fxs fxm sent want numfields p' a ret types
    else
      match (if want =? ACL_TYPE_NFS4 then parse_nfs4 wide fs a ret types
             else parse_posix wide fxw fxm (if wide then 0 else sent) want fs fields a ret types) with
      | ENext a' ret' types' => parse_loop fuel wide fxw fxs fxm sent want numfields p' a' ret' types'
      | ECrash => PCrash
      | EReturn r a' => PRet r a'
      end
  end.
Proof. intros. subst p. cbn [parse_loop]. rewrite H0. reflexivity. Qed.

Lemma parse_items : forall wide fxw fxs fxm want flags sep,
  sep = c_comma \/ sep = c_nl -> (want =? ACL_TYPE_NFS4) = false -> bit flags ACL_STYLE_EXTRA_ID = true ->
  forall l, Forall entry_rt l ->
  forall fuel a a' ret types,
  readd want flags l a = Some a' ->
  (length (sepjoin sep (map (e_text wide flags) l)) < fuel)%nat ->
  parse_loop fuel wide fxw fxs fxm 0 want 5 (sepjoin sep (map (e_text wide flags) l)) a ret types = PRet ret a'.
Proof.
  intros wide fxw fxs fxm want flags sep Hsep Hwant Hx. induction l as [|e r IH]; intros Hall fuel a a' ret types Hre Hf.
  - cbn in Hre. injection Hre as Hre. subst a'. destruct fuel; reflexivity.
  - inversion Hall as [|? ? He Hr]; subst. destruct He as (Hty & Htag & Hok).
    cbn [readd] in Hre.
    destruct (add_entry a (parsed_type want flags e) (perm3_value (eperm e)) (etag e) (parsed_id e) (parsed_name e))
      as [st a1] eqn:EA.
    destruct (st =? ARCHIVE_OK)%Z eqn:ES; [|discriminate]. apply Z.eqb_eq in ES. subst st.
    set (tail := match r with [] => [] | _ :: _ => sep :: sepjoin sep (map (e_text wide flags) r) end).
    assert (Htext : sepjoin sep (map (e_text wide flags) (e :: r)) = join (e_words wide flags e) ++ tail).
    { cbn [map]. rewrite (e_text_words wide flags e Hty Htag). fold (e_words wide flags e).
      unfold tail. destruct r as [|e' r']; [cbn; rewrite app_nil_r; reflexivity|].
      cbn [map]. rewrite sepjoin_cons2. reflexivity. }
    assert (Htl : tl tail = sepjoin sep (map (e_text wide flags) r)).
    { unfold tail. destruct r; reflexivity. }
    assert (Htok : tail_ok tail).
    { unfold tail, tail_ok. destruct r; [left; reflexivity|right]. eexists; eexists. split; [reflexivity|exact Hsep]. }
    rewrite Htext in *.
    destruct (e_words_ok wide flags e Htag Hok) as (Hcl & Hlast & Hlen & c & q & Hj & Hc0 & Hch).
    destruct fuel as [|fuel]; [lia|].
    assert (Hp : join (e_words wide flags e) ++ tail = c :: (q ++ tail)) by (rewrite Hj; reflexivity).
    rewrite (parse_loop_step fuel wide fxw fxs fxm 0 want 5 _ c (q ++ tail) a ret types Hp Hc0).
    assert (Hne : e_words wide flags e <> []) by (unfold e_words; destruct (e_pre flags e); discriminate).
    pose proof (join_length (e_words wide flags e)) as HJL.
    rewrite (collect_words wide fxs 5 tail Htok (e_words wide flags e) _ 0 [] Hne Hcl Hlast)
      by (rewrite ?app_length; lia).
    cbn [app Nat.add].
    assert (Hcm : match fields_of (e_words wide flags e) tail with
                  | f0 :: _ => peek (if wide then 0 else 0) (fsuf f0) =? c_hash | [] => false end = false).
    { destruct (e_words wide flags e) as [|w0 wr] eqn:EW; [congruence|]. rewrite fields_of_cons. cbn [fsuf].
      rewrite Hp. cbn [peek]. destruct wide; exact Hch. }
    rewrite Hcm. cbv zeta. cbv iota. rewrite Hwant.
    assert (H00 : (if wide then 0 else 0) = 0) by (destruct wide; reflexivity). rewrite H00.
    unfold e_words in *.
    rewrite (parse_posix_words wide fxw fxm want (e_pre flags e) (word_of_tag (etag e)) (e_rest wide flags e) tail a ret types).
    + rewrite (parse_entry_words fxm wide want flags e a ret types Htag Hok Hx).
      unfold add_parsed_b. fold (parsed_type want flags e). rewrite EA.
      change (ARCHIVE_OK <? ARCHIVE_WARN)%Z with false. cbv iota.
      change (ARCHIVE_OK =? ARCHIVE_OK)%Z with true. cbv iota.
      rewrite Htl. apply IH; [exact Hr|exact Hre|].
      rewrite <- Htl. rewrite app_length in Hf. rewrite Hj in Hf. destruct tail; cbn [tl length] in *; lia.
    + unfold pre_ok, e_pre. destruct ((etype e =? ACL_TYPE_DEFAULT) && bit flags ACL_STYLE_MARK_DEFAULT); auto.
    + unfold tagword, word_of_tag. destruct Htag as [T|[T|[T|[T|[T|T]]]]]; rewrite T; vm_compute; auto.
Qed.

(* ------------------------------------------------------------------ what the re-added entries are *)
Definition norm (e : aentry) : aentry :=
  mkE (etype e) (etag e) (perm3_value (eperm e)) (parsed_id e) (parsed_name e).

(* no later entry falls into the slot of an earlier one (invariant of acl_new_entry) *)
Fixpoint distinct_slots (l : list aentry) : bool :=
  match l with
  | [] => true
  | x :: r => forallb (fun y => negb (same_slot (etype y) (etag y) (eid y) x)) r && distinct_slots r
  end.

Lemma overwrite_none : forall type tag id perm name l,
  (forall x, In x l -> same_slot type tag id x = false) -> overwrite type tag id perm name l = None.
Proof.
  intros type tag id perm name. induction l as [|x r IH]; intros H; [reflexivity|].
  cbn [overwrite]. rewrite (H x (or_introl eq_refl)). rewrite IH; [reflexivity|].
  intros y Hy. apply H. right. exact Hy.
Qed.

Lemma distinct_app_mid : forall l1 y l2,
  distinct_slots (l1 ++ y :: l2) = true ->
  forall x, In x l1 -> same_slot (etype y) (etag y) (eid y) x = false.
Proof.
  induction l1 as [|x0 r IH]; intros y l2 H x Hin; [destruct Hin|].
  cbn [app distinct_slots] in H. apply andb_true_iff in H. destruct H as [H1 H2].
  destruct Hin as [Hx|Hx].
  - subst x0. rewrite forallb_forall in H1.
    assert (Hy : In y (r ++ y :: l2)) by (apply in_or_app; right; left; reflexivity).
    specialize (H1 y Hy).
    apply negb_true_iff in H1. exact H1.
  - exact (IH y l2 H2 x Hx).
Qed.

Lemma perm3_value_within : forall p, within (perm3_value p) 7 = true.
Proof. intros p. unfold perm3_value. destruct (bit p 292); destruct (bit p 146); destruct (bit p 73); reflexivity. Qed.

Lemma within7_lt : forall p, within p 7 = true -> p < 8.
Proof.
  intros p H. rewrite <- (within_land p 7 H). change 7 with (N.ones 3). rewrite N.land_ones.
  apply N.mod_lt. discriminate.
Qed.
Lemma perm3_value_small : forall p, within p 7 = true -> perm3_value p = p.
Proof.
  intros p H. apply within7_lt in H.
  assert (E : exists k, (k < 8)%nat /\ p = N.of_nat k) by (exists (N.to_nat p); split; lia).
  destruct E as (k & Hk & Ek). subst p.
  do 8 (destruct k as [|k]; [reflexivity|]). lia.
Qed.

Definition not_special (e : aentry) : bool :=
  negb ((etype e =? ACL_TYPE_ACCESS) && ((etag e =? ACL_USER_OBJ) || (etag e =? ACL_GROUP_OBJ) || (etag e =? ACL_OTHER))).

Lemma acl_special_none : forall a type perm tag,
  negb ((type =? ACL_TYPE_ACCESS) && ((tag =? ACL_USER_OBJ) || (tag =? ACL_GROUP_OBJ) || (tag =? ACL_OTHER))) = true ->
  acl_special a type perm tag = None.
Proof.
  intros a type perm tag H. unfold acl_special. apply negb_true_iff in H.
  destruct (type =? ACL_TYPE_ACCESS); [|reflexivity]. cbn [andb] in *.
  destruct (within perm 7); [|reflexivity].
  destruct (tag =? ACL_USER_OBJ); [discriminate|]. destruct (tag =? ACL_GROUP_OBJ); [discriminate|].
  destruct (tag =? ACL_OTHER); [discriminate|reflexivity].
Qed.

Lemma tag_ok_posix : forall type tag, posix_type type -> posix_tag_ok tag -> tag_ok_for type tag = true.
Proof.
  intros type tag [T|T] [G|[G|[G|[G|[G|G]]]]]; subst; reflexivity.
Qed.

Fixpoint lor_types (l : list aentry) : N :=
  match l with [] => 0 | e :: r => N.lor (etype e) (lor_types r) end.

Lemma within_lor : forall x y m, within x m = true -> within y m = true -> within (N.lor x y) m = true.
Proof.
  unfold within. intros x y m Hx Hy. apply N.eqb_eq in Hx, Hy. apply N.eqb_eq.
  apply N.bits_inj_0. intros n. rewrite N.ldiff_spec, N.lor_spec.
  assert (Ax := f_equal (fun z => N.testbit z n) Hx). assert (Ay := f_equal (fun z => N.testbit z n) Hy).
  cbn beta in Ax, Ay. rewrite N.ldiff_spec, N.bits_0 in Ax, Ay.
  destruct (N.testbit x n); destruct (N.testbit y n); destruct (N.testbit m n); cbn in *; congruence.
Qed.

(* re-adding entries that are not stored in the mode and whose slots are distinct appends them *)
Lemma readd_append : forall want flags l a,
  (forall e, In e l -> posix_type (etype e) /\ posix_tag_ok (etag e) /\ not_special e = true /\
                       parsed_type want flags e = etype e) ->
  within (atypes a) ACL_TYPE_POSIX1E = true ->
  distinct_slots (aents a ++ map norm l) = true ->
  readd want flags l a =
  Some (mkAcl (amode a) (aents a ++ map norm l) (N.lor (atypes a) (lor_types l))).
Proof.
  intros want flags. induction l as [|e r IH]; intros a Hall Hty Hd.
  - cbn [readd map lor_types]. rewrite app_nil_r. rewrite N.lor_0_r. destruct a; reflexivity.
  - destruct (Hall e (or_introl eq_refl)) as (Ht & Htag & Hns & Hpt).
    cbn [readd]. rewrite Hpt. unfold add_entry.
    rewrite (acl_special_none a (etype e) _ (etag e) Hns).
    unfold new_entry, type_ok.
    assert (Hb4 : bit (etype e) ACL_TYPE_NFS4 = false) by (destruct Ht as [H|H]; rewrite H; reflexivity).
    assert (Hbp : bit (etype e) ACL_TYPE_POSIX1E = true) by (destruct Ht as [H|H]; rewrite H; reflexivity).
    rewrite Hb4, Hbp, Hty.
    change ACL_PERMS_POSIX1E with 7. rewrite perm3_value_within. rewrite (tag_ok_posix _ _ Ht Htag). cbn [andb].
    cbn [map] in Hd.
    rewrite overwrite_none.
    2:{ intros x Hx. exact (distinct_app_mid (aents a) (norm e) (map norm r) Hd x Hx). }
    change (ARCHIVE_OK =? ARCHIVE_OK)%Z with true. cbv iota.
    rewrite IH.
    + cbn [amode aents atypes map lor_types]. rewrite <- app_assoc. cbn [app]. rewrite N.lor_assoc. reflexivity.
    + intros e' He'. apply Hall. right. exact He'.
    + cbn [atypes]. apply within_lor; [exact Hty|]. destruct Ht as [H|H]; rewrite H; reflexivity.
    + cbn [aents]. rewrite <- app_assoc. exact Hd.
Qed.

Lemma readd_app : forall want flags l1 l2 a,
  readd want flags (l1 ++ l2) a =
  match readd want flags l1 a with Some a1 => readd want flags l2 a1 | None => None end.
Proof.
  intros want flags. induction l1 as [|e r IH]; intros l2 a; [reflexivity|].
  cbn [app readd].
  destruct (add_entry a (parsed_type want flags e) (perm3_value (eperm e)) (etag e) (parsed_id e) (parsed_name e)) as [st a1].
  destruct (st =? ARCHIVE_OK)%Z; [apply IH|reflexivity].
Qed.

(* the mode after the three made-up entries have been parsed back into an entry with mode 0 *)
Definition mode_rt (m : N) : N :=
  let m1 := N.lor (N.ldiff 0 448) (N.shiftl (N.land (perm3_value (N.land m 448)) 7) 6) in
  let m2 := N.lor (N.ldiff m1 56) (N.shiftl (N.land (perm3_value (N.land m 56)) 7) 3) in
  N.lor (N.ldiff m2 7) (N.land (perm3_value (N.land m 7)) 7).

Lemma readd_base : forall flags m,
  readd ACL_TYPE_ACCESS flags (base_entries m) (acl_empty 0) = Some (mkAcl (mode_rt m) [] 0).
Proof.
  intros flags m. unfold base_entries. cbn [readd].
  unfold parsed_type, e_pre, parsed_id, parsed_name, is_ug. cbn [etype etag eperm eid ename].
  eval_eqb. cbn [andb orb].
  unfold add_entry, acl_special. eval_eqb. cbn [andb]. rewrite !perm3_value_within.
  change (ARCHIVE_OK =? ARCHIVE_OK)%Z with true. cbv iota. reflexivity.
Qed.

Lemma mode_rt_low : forall m, mode_rt m = mode_rt (N.land m 511).
Proof.
  intros m. unfold mode_rt.
  rewrite <- !(N.land_assoc m 511).
  change (N.land 511 448) with 448. change (N.land 511 56) with 56. change (N.land 511 7) with 7. reflexivity.
Qed.

Lemma mode_rt_id : forall m, mode_rt m = N.land m 511.
Proof.
  intros m. rewrite mode_rt_low.
  assert (H : N.land m 511 < 512).
  { change 511 with (N.ones 9). rewrite N.land_ones. apply N.mod_lt. discriminate. }
  set (k := N.land m 511) in *. clearbody k.
  assert (G : forallb (fun i => mode_rt (N.of_nat i) =? N.of_nat i) (seq 0 512) = true) by (vm_compute; reflexivity).
  rewrite forallb_forall in G. specialize (G (N.to_nat k)).
  rewrite N2Nat.id in G. apply N.eqb_eq. apply G. apply in_seq. lia.
Qed.

(* ------------------------------------------------------------------ no NUL in the generated text *)
Definition nonzero (s : str) : bool := forallb (fun c => negb (c =? 0)) s.
Lemma cstr_nonzero : forall s, nonzero s = true -> cstr s = s.
Proof.
  induction s as [|c r IH]; intros H; [reflexivity|]. cbn [nonzero forallb] in H.
  apply andb_true_iff in H. destruct H as [Hc Hr]. cbn [cstr]. apply negb_true_iff in Hc. rewrite Hc.
  f_equal. apply IH. exact Hr.
Qed.
Lemma clean_nonzero : forall w, clean w = true -> nonzero w = true.
Proof.
  unfold clean, nonzero. intros w H. rewrite forallb_forall in *. intros c Hc. specialize (H c Hc).
  rewrite (cleanc_not_nul c H). reflexivity.
Qed.
Lemma nonzero_app : forall a b, nonzero (a ++ b) = nonzero a && nonzero b.
Proof. intros. unfold nonzero. apply forallb_app. Qed.
Lemma join_nonzero : forall ws, Forall (fun w => clean w = true) ws -> nonzero (join ws) = true.
Proof.
  induction ws as [|w r IH]; intros H; [reflexivity|]. inversion H as [|? ? Hw Hr]; subst.
  destruct r as [|w' r']; [cbn [join]; apply clean_nonzero; exact Hw|].
  rewrite join_cons2. rewrite nonzero_app. rewrite (clean_nonzero w Hw). cbn [andb nonzero forallb].
  change (negb (c_colon =? 0)) with true. cbn [andb]. apply IH. exact Hr.
Qed.
Lemma sepjoin_nonzero : forall sep ts, (sep =? 0) = false -> Forall (fun t => nonzero t = true) ts ->
  nonzero (sepjoin sep ts) = true.
Proof.
  intros sep ts Hs. induction ts as [|t r IH]; intros H; [reflexivity|]. inversion H as [|? ? Ht Hr]; subst.
  destruct r as [|t' r']; [exact Ht|].
  rewrite sepjoin_cons2. rewrite nonzero_app. rewrite Ht. cbn [andb nonzero forallb]. rewrite Hs. cbn [negb andb].
  apply IH. exact Hr.
Qed.

(* ------------------------------------------------------------------ the round trip, POSIX.1e *)
(* hypotheses on the ACL: POSIX.1e entries (access and default) with the six POSIX.1e tags;
   names and ids as in [rt_entry_ok] *)
Definition acl_rt (a : acl) : Prop := forall e, In e (aents a) -> entry_rt e.

Lemma skipped_not_special : forall want e, skipped want e = false -> not_special e = true.
Proof.
  intros want e H. unfold skipped in H. apply orb_false_iff in H. destruct H as [_ H].
  unfold not_special. rewrite H. reflexivity.
Qed.

Theorem roundtrip_posix_gen : forall wide fxl fxw fxs fxm a flags t,
  acl_rt a -> within (atypes a) ACL_TYPE_POSIX1E = true ->
  distinct_slots (map norm (emitted ACL_TYPE_POSIX1E a)) = true ->
  bit flags ACL_TYPE_ACCESS = false -> bit flags ACL_TYPE_DEFAULT = false ->
  bit flags ACL_STYLE_EXTRA_ID = true ->
  to_text fxl wide a flags = Some t ->
  from_text wide fxw fxs fxm t ACL_TYPE_ACCESS (acl_empty 0) =
  PRet ARCHIVE_OK (mkAcl (N.land (amode a) 511) (map norm (emitted ACL_TYPE_POSIX1E a))
                         (lor_types (emitted ACL_TYPE_POSIX1E a))).
Proof.
  intros wide fxl fxw fxs fxm a flags t Hrt Hty Hdist HfA HfD Hx Ht.
  assert (Hwant : text_want_type a flags = ACL_TYPE_POSIX1E).
  { unfold text_want_type. assert (H4 : bit (atypes a) ACL_TYPE_NFS4 = false).
    { apply (within_disjoint _ _ _ Hty). reflexivity. }
    rewrite H4, HfA, HfD. reflexivity. }
  unfold to_text in Ht. destruct (text_len_of fxl wide a flags =? 0); [discriminate|]. injection Ht as Ht. subst t.
  pose proof (body_items wide a flags) as HB. cbv zeta in HB. rewrite Hwant in HB.
  set (fl := tt_flags ACL_TYPE_POSIX1E flags) in *.
  set (sep := if bit fl ACL_STYLE_SEPARATOR_COMMA then c_comma else c_nl) in *.
  assert (Hsep : sep = c_comma \/ sep = c_nl) by (unfold sep; destruct (bit fl ACL_STYLE_SEPARATOR_COMMA); auto).
  assert (Hflx : bit fl ACL_STYLE_EXTRA_ID = true).
  { unfold fl, tt_flags. change (ACL_TYPE_POSIX1E =? ACL_TYPE_POSIX1E) with true. cbv iota.
    unfold bit. rewrite N.land_lor_distr_l. change (N.land ACL_STYLE_MARK_DEFAULT ACL_STYLE_EXTRA_ID) with 0.
    rewrite N.lor_0_r. exact Hx. }
  assert (Hflm : bit fl ACL_STYLE_MARK_DEFAULT = true).
  { unfold fl, tt_flags. change (ACL_TYPE_POSIX1E =? ACL_TYPE_POSIX1E) with true. cbv iota.
    unfold bit. rewrite N.land_lor_distr_l. change (N.land ACL_STYLE_MARK_DEFAULT ACL_STYLE_MARK_DEFAULT) with 2.
    apply negb_true_iff. apply N.eqb_neq. intro H0. apply N.lor_eq_0_iff in H0. destruct H0 as [_ H0]. discriminate. }
  unfold items in HB. change (bit ACL_TYPE_POSIX1E ACL_TYPE_ACCESS) with true in HB. cbv iota in HB.
  set (its := base_entries (amode a) ++ emitted ACL_TYPE_POSIX1E a) in *.
  assert (Hits : Forall entry_rt its).
  { unfold its. apply Forall_app. split.
    - unfold base_entries. repeat constructor; unfold posix_type, posix_tag_ok; cbn; tauto.
    - apply Forall_forall. intros e He. unfold emitted in He. apply filter_In in He. apply Hrt. exact (proj1 He). }
  (* the text has no NUL *)
  assert (Hnz : nonzero (to_text_body wide a flags) = true).
  { rewrite HB. apply sepjoin_nonzero; [destruct Hsep as [H|H]; rewrite H; reflexivity|].
    apply Forall_forall. intros x Hin. apply in_map_iff in Hin. destruct Hin as (e & Hx' & He). subst x.
    rewrite Forall_forall in Hits. destruct (Hits e He) as (A & B & C).
    rewrite (e_text_words wide fl e A B). apply join_nonzero.
    exact (proj1 (e_words_ok wide fl e B C)). }
  unfold from_text. rewrite (cstr_nonzero _ Hnz). unfold from_text_nl.
  change (ACL_TYPE_ACCESS =? ACL_TYPE_POSIX1E) with false.
  change ((ACL_TYPE_ACCESS =? ACL_TYPE_ACCESS) || (ACL_TYPE_ACCESS =? ACL_TYPE_DEFAULT)) with true. cbv iota.
  rewrite HB.
  apply (parse_items wide fxw fxs fxm ACL_TYPE_ACCESS fl sep Hsep eq_refl Hflx its Hits); [|lia].
  (* what is added *)
  unfold its. rewrite readd_app. rewrite readd_base.
  rewrite readd_append.
  - cbn [amode aents atypes app]. rewrite mode_rt_id. rewrite N.lor_0_l. reflexivity.
  - intros e He. unfold emitted in He. apply filter_In in He. destruct He as [Hin Hsk].
    apply negb_true_iff in Hsk. destruct (Hrt e Hin) as (A & B & C).
    split; [exact A|]. split; [exact B|]. split; [exact (skipped_not_special _ _ Hsk)|].
    unfold parsed_type, e_pre. rewrite Hflm. rewrite andb_true_r.
    destruct A as [A|A]; rewrite A; reflexivity.
  - reflexivity.
  - cbn [aents app]. exact Hdist.
Qed.
