(* C05 - Results do not depend on read block sizes or on the byte source (I/O core).
   Property theorems only; proofs are in IO/ReadCoreProofs.v. *)
From Coq Require Import List ZArith NArith Bool.
From LA Require Import Base.Val Gen.Defines IO.ReadCoreDefs IO.ReadCoreProofs.
Import ListNotations.
Local Open Scope N_scope.

(* Refinement to the abstract stream: read-ahead returns a prefix of the bytes still to come, at
   least [m] of them, or NULL with *avail = bytes left (< m) - and changes nothing observable. *)
Theorem C05_ahead_abs : forall s m r s',
  Inv s -> ffatal s = false -> m <= two63 -> ahead s m = (r, s') ->
  (Inv s' /\ rest s' = rest s /\ fpos s' = fpos s /\ ffatal s' = false /\
   same_client_cfg (cl s) (cl s') /\ (length (rplan (cl s')) <= length (rplan (cl s)))%nat) /\
  match r with
  | Win w => prefix w (rest s) /\ m <= len w /\ (0 < len w \/ m = 0)
  | Null a => a = Z.of_N (len (rest s)) /\ len (rest s) < m
  end.
Proof. exact ahead_spec. Qed.
Print Assumptions C05_ahead_abs.

(* consume n drops exactly n bytes of the abstract stream and advances the position by n, or
   reports FATAL when fewer than n bytes are left - for a client without a seek callback whose skip
   callback, if offered, is honest (skips at most what it is asked, possibly less or nothing, and
   reports it truthfully; any plan of such answers). *)
Theorem C05_consume_abs : forall s req r s',
  Inv s -> ffatal s = false -> skippable (cl s) -> consume s req = (r, s') ->
  Inv s' /\ ffatal s' = false /\ same_client_cfg (cl s) (cl s') /\
  ((req < 0)%Z /\ r = ARCHIVE_FATAL /\ s' = s \/
   (0 <= req <= Z.of_N (len (rest s)))%Z /\ r = req /\
       rest s' = drop (Z.to_N req) (rest s) /\ fpos s' = (fpos s + req)%Z \/
   (Z.of_N (len (rest s)) < req)%Z /\ r = ARCHIVE_FATAL /\ rest s' = []).
Proof. exact consume_spec. Qed.
Print Assumptions C05_consume_abs.

(* Headline: ANY deterministic client program over windows (a format parser: arbitrary Coq
   continuations of the first [m] bytes / the NULL count / the consume results) computes the same
   result whatever partition of the same byte string the read callback delivers - down to one byte
   at a time.  No bound on the data, the partitions or the program. *)
Theorem C05_partition_independent : forall (R : Type) (p : parser R) data plan1 plan2,
  wf_parser p -> Forall good_ract plan1 -> Forall good_ract plan2 ->
  fst (prun p (init_filt (mk_plain_client data plan1))) =
  fst (prun p (init_filt (mk_plain_client data plan2))).
Proof. exact @partition_independent. Qed.
Print Assumptions C05_partition_independent.

(* the same from any two reachable core states that abstract to the same stream; the two clients may
   differ in their partitions AND in how their (honest) skip callbacks answer *)
Theorem C05_parser_independent : forall (R : Type) (p : parser R), wf_parser p -> forall s1 s2,
  good s1 -> good s2 -> rest s1 = rest s2 -> fst (prun p s1) = fst (prun p s2).
Proof. exact @parser_independent. Qed.
Print Assumptions C05_parser_independent.

(* a client offering an honest skip callback with an arbitrary plan of short skips observes the same
   as one without *)
Theorem C05_skip_capability_transparent : forall (R : Type) (p : parser R) data plan1 plan2 sk,
  wf_parser p -> Forall good_ract plan1 -> Forall good_ract plan2 -> Forall honest_sact sk ->
  fst (prun p (init_filt (mkClient data 0 plan1 sk [] true false))) =
  fst (prun p (init_filt (mk_plain_client data plan2))).
Proof. exact @skip_transparent. Qed.
Print Assumptions C05_skip_capability_transparent.

(* non-vacuity: a 3-block and a 20-block partition of the same 20 bytes, a request spanning blocks *)
Definition ex_data : bytes := map N.of_nat (seq 65 20).
Definition ex_parser : parser (list (bytes + Z)) :=
  PAhead 3 (fun a => PConsume 2 (fun _ => PAhead 9 (fun b => PConsume 9 (fun _ =>
  PAhead 30 (fun c => PDone [a; b; c]))))).
Example C05_nonvacuous :
  fst (prun ex_parser (init_filt (mk_plain_client ex_data [RSize 7; RSize 7; RSize 7]))) =
    [inl [65; 66; 67]; inl [67; 68; 69; 70; 71; 72; 73; 74; 75]; inr 9%Z] /\
  fst (prun ex_parser (init_filt (mk_plain_client ex_data (repeat (RSize 1) 20)))) =
    [inl [65; 66; 67]; inl [67; 68; 69; 70; 71; 72; 73; 74; 75]; inr 9%Z].
Proof. vm_compute. split; reflexivity. Qed.
