(* C05 - Results do not depend on read block sizes or on the byte source (I/O core).
   Property theorems only; proofs are in IO/ReadCoreProofs.v. *)
From Coq Require Import List ZArith NArith Bool.
From LA Require Import Base.Val Gen.Defines IO.ReadCoreDefs IO.ReadCoreProofs.
Import ListNotations.
Local Open Scope N_scope.

(* Refinement to the abstract stream: read-ahead returns a prefix of the bytes still to come, at
   least [m] of them, or NULL with *avail = bytes left (< m) - and changes nothing observable. *)
Theorem C05_ahead_abs : forall s m r s',
  Inv s -> ffatal s = false -> m <= two63 -> ahead s m = (r, s') ->
  (Inv s' /\ rest s' = rest s /\ fpos s' = fpos s /\ ffatal s' = false /\
   same_client_cfg (cl s) (cl s') /\ (length (rplan (cl s')) <= length (rplan (cl s)))%nat) /\
  match r with
  | Win w => prefix w (rest s) /\ m <= len w /\ (0 < len w \/ m = 0)
  | Null a => a = Z.of_N (len (rest s)) /\ len (rest s) < m
  end.
Proof. exact ahead_spec. Qed.
Print Assumptions C05_ahead_abs.

(* consume n drops exactly n bytes of the abstract stream and advances the position by n, or
   reports FATAL when fewer than n bytes are left - for a client without a seek callback whose skip
   callback, if offered, is honest (skips at most what it is asked, possibly less or nothing, and
   reports it truthfully; any plan of such answers). *)
Theorem C05_consume_abs : forall s req r s',
  Inv s -> ffatal s = false -> skippable (cl s) -> consume s req = (r, s') ->
  Inv s' /\ ffatal s' = false /\ same_client_cfg (cl s) (cl s') /\
  ((req < 0)%Z /\ r = ARCHIVE_FATAL /\ s' = s \/
   (0 <= req <= Z.of_N (len (rest s)))%Z /\ r = req /\
       rest s' = drop (Z.to_N req) (rest s) /\ fpos s' = (fpos s + req)%Z \/
   (Z.of_N (len (rest s)) < req)%Z /\ r = ARCHIVE_FATAL /\ rest s' = []).
Proof. exact consume_spec. Qed.
Print Assumptions C05_consume_abs.

(* Headline: ANY deterministic client program over windows (a format parser: arbitrary Coq
   continuations of the first [m] bytes / the NULL count / the consume results) computes the same
   result whatever partition of the same byte string the read callback delivers - down to one byte
   at a time.  No bound on the data, the partitions or the program. *)
Theorem C05_partition_independent : forall (R : Type) (p : parser R) data plan1 plan2,
  wf_parser p -> Forall good_ract plan1 -> Forall good_ract plan2 ->
  fst (prun p (init_filt (mk_plain_client data plan1))) =
  fst (prun p (init_filt (mk_plain_client data plan2))).
Proof. exact @partition_independent. Qed.
Print Assumptions C05_partition_independent.

(* the same from any two reachable core states that abstract to the same stream; the two clients may
   differ in their partitions AND in how their (honest) skip callbacks answer *)
Theorem C05_parser_independent : forall (R : Type) (p : parser R), wf_parser p -> forall s1 s2,
  good s1 -> good s2 -> rest s1 = rest s2 -> fst (prun p s1) = fst (prun p s2).
Proof. exact @parser_independent. Qed.
Print Assumptions C05_parser_independent.

(* a client offering an honest skip callback with an arbitrary plan of short skips observes the same
   as one without *)
Theorem C05_skip_capability_transparent : forall (R : Type) (p : parser R) data plan1 plan2 sk,
  wf_parser p -> Forall good_ract plan1 -> Forall good_ract plan2 -> Forall honest_sact sk ->
  fst (prun p (init_filt (mkClient data 0 plan1 sk [] true false))) =
  fst (prun p (init_filt (mk_plain_client data plan2))).
Proof. exact @skip_transparent. Qed.
Print Assumptions C05_skip_capability_transparent.

(* non-vacuity: a 3-block and a 20-block partition of the same 20 bytes, a request spanning blocks *)
Definition ex_data : bytes := map N.of_nat (seq 65 20).
Definition ex_parser : parser (list (bytes + Z)) :=
  PAhead 3 (fun a => PConsume 2 (fun _ => PAhead 9 (fun b => PConsume 9 (fun _ =>
  PAhead 30 (fun c => PDone [a; b; c]))))).
Example C05_nonvacuous :
  fst (prun ex_parser (init_filt (mk_plain_client ex_data [RSize 7; RSize 7; RSize 7]))) =
    [inl [65; 66; 67]; inl [67; 68; 69; 70; 71; 72; 73; 74; 75]; inr 9%Z] /\
  fst (prun ex_parser (init_filt (mk_plain_client ex_data (repeat (RSize 1) 20)))) =
    [inl [65; 66; 67]; inl [67; 68; 69; 70; 71; 72; 73; 74; 75]; inr 9%Z].
Proof. vm_compute. split; reflexivity. Qed.

(* ---- the multi-volume layer (IO/MultiNodeDefs.v): data nodes, dataset table, seeks across nodes ---- *)
From LA Require IO.MultiNodeDefs IO.MultiNodeProofs.
Module MultiNode.
Import MultiNodeDefs MultiNodeProofs.
Local Open Scope Z_scope.

(* opening a non-empty set of nodes establishes the stream invariant at position 0 *)
Theorem C05_multinode_open : forall ns bs, ns <> [] -> (0 < bs)%nat ->
  SInv (mopen ns bs) /\ fpos (mopen ns bs) = 0 /\ nodes (mopen ns bs) = ns /\ bsz (mopen ns bs) = bs.
Proof. exact mopen_spec. Qed.
Print Assumptions C05_multinode_open.

(* Refinement to the concatenated stream: for every script whose seeks stay inside the archive, each
   read returns the bytes of the concatenation at the current position (a non-empty block unless the
   position is the end), each seek - SEEK_SET, SEEK_CUR or SEEK_END - returns and establishes exactly
   the requested offset; nothing an observer sees depends on how the bytes are cut into nodes or on
   the block size, except the lengths of the blocks. *)
Theorem C05_multinode_refines_stream : forall ops s,
  SInv s -> ok_run s ops ->
  SInv (fst (mrun s ops)) /\ outs_ok (flat s) (fpos s) ops (snd (mrun s ops)).
Proof. exact mrun_refines. Qed.
Print Assumptions C05_multinode_refines_stream.

(* the same bytes cut into two different node lists, read with two different block sizes: a seek
   followed by reading to the end delivers the same bytes *)
Theorem C05_multinode_split_independent : forall ns1 ns2 bs1 bs2 off wh t fuel,
  concat ns1 = concat ns2 -> ns1 <> [] -> ns2 <> [] -> (0 < bs1)%nat -> (0 < bs2)%nat ->
  match wh with 0 => Some off | 1 => Some off | 2 => Some (zlen (concat ns1) + off) | _ => None end = Some t ->
  0 <= t <= zlen (concat ns1) -> (length (concat ns1) < fuel)%nat ->
  fst (mseek (mopen ns1 bs1) off wh) = t /\ fst (mseek (mopen ns2 bs2) off wh) = t /\
  concat (read_all fuel (snd (mseek (mopen ns1 bs1) off wh))) = skipn (Z.to_nat t) (concat ns1) /\
  concat (read_all fuel (snd (mseek (mopen ns2 bs2) off wh))) = skipn (Z.to_nat t) (concat ns1).
Proof. exact seek_read_split_independent. Qed.
Print Assumptions C05_multinode_split_independent.

(* a SEEK_SET outside the archive is refused *)
Theorem C05_multinode_seek_outside_refused : forall s off,
  SInv s -> off < 0 \/ total (nodes s) < off -> fst (seek_set s off) = M_FATAL.
Proof. exact seek_set_refused. Qed.
Print Assumptions C05_multinode_seek_outside_refused.

(* SEEK_END outside the archive is refused too (false of the pinned code, which landed on an arbitrary
   offset of the first node for a target before the first byte and accepted targets beyond the end) *)
Theorem C05_multinode_seek_end_outside_refused : forall s off,
  SInv s -> 0 < off \/ off < - total (nodes s) -> fst (seek_end s off) = M_FATAL.
Proof. exact seek_end_refused. Qed.
Print Assumptions C05_multinode_seek_end_outside_refused.

(* consume(n) - also through the seek callback used as a skip callback for requests over 64k, and across
   any number of node borders - advances the stream by exactly n when n bytes are left, and is refused
   (ARCHIVE_FATAL) when fewer are left.  False of the pinned code for every node but the first. *)
Theorem C05_multinode_consume : forall s n,
  SInv s ->
  SInv (snd (consume s n)) /\ same_cfg s (snd (consume s n)) /\
  (0 <= n <= zlen (pending s) + zlen (rest s) ->
     fst (consume s n) = n /\ fpos (snd (consume s n)) = fpos s + n) /\
  (n < 0 \/ zlen (pending s) + zlen (rest s) < n -> fst (consume s n) = M_FATAL).
Proof. exact consume_spec. Qed.
Print Assumptions C05_multinode_consume.

(* non-vacuity: three nodes with an empty one in the middle of the set, a seek into the last node, a
   relative seek back across a border and a seek from the end *)
Example C05_multinode_nonvacuous :
  let s0 := mopen [[1;2;3]; []; [4;5]; [6]]%N 2 in
  ok_run s0 [MSeek 4 0; MRead; MSeek (-3) 1; MRead; MSeek (-1) 2; MRead; MRead; MSeek 1 0; MConsume 4; MRead] /\
  snd (mrun s0 [MSeek 4 0; MRead; MSeek (-3) 1; MRead; MSeek (-1) 2; MRead; MRead; MSeek 1 0; MConsume 4; MRead]) =
    [MPos 4 4; MBlk [5]%N 5; MPos 2 2; MBlk [3]%N 3; MPos 5 5; MBlk [6]%N 6; MBlk [] 6; MPos 1 1; MCons 4 5; MBlk [6]%N 6].
Proof.
  split; [|vm_compute; reflexivity].
  cbn [ok_run]. repeat split; try (eexists; split; [vm_compute; reflexivity|vm_compute; split; discriminate]);
    try (vm_compute; discriminate).
Qed.
End MultiNode.
