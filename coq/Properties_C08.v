(* C08 - Truncated or failing input is reported and never invents data: the I/O core part. *)
From Coq Require Import List ZArith NArith Bool.
From LA Require Import Base.Val Gen.Defines IO.ReadCoreDefs IO.ReadCoreProofs.
Import ListNotations.
Local Open Scope N_scope.

(* a truncated stream: asking for more than is left yields NULL with the exact count of bytes left,
   never a window with invented bytes (a window is always a prefix of the real stream) *)
Theorem C08_short_input_ahead : forall s m r s',
  Inv s -> ffatal s = false -> m <= two63 -> ahead s m = (r, s') -> len (rest s) < m ->
  r = Null (Z.of_N (len (rest s))) /\ rest s' = rest s.
Proof. exact short_input_ahead. Qed.
Print Assumptions C08_short_input_ahead.

(* consuming past the end of a truncated stream is FATAL ("Truncated input file"), not a short
   success; consuming within it is exact *)
Theorem C08_short_input_consume : forall s req r s',
  Inv s -> ffatal s = false -> skippable (cl s) -> consume s req = (r, s') ->
  (Z.of_N (len (rest s)) < req)%Z -> r = ARCHIVE_FATAL.
Proof. exact short_input_consume. Qed.
Print Assumptions C08_short_input_consume.

(* a failing read callback met by read-ahead is reported as FATAL and makes the filter fatal *)
Theorem C08_read_error_reported : forall s m tl,
  ffatal s = false -> copy s = [] -> cavail s = 0 -> feof s = false -> 0 < m ->
  rplan (cl s) = RErr :: tl ->
  exists s', ahead s m = (Null ARCHIVE_FATAL, s') /\ ffatal s' = true.
Proof. exact ahead_read_error. Qed.
Print Assumptions C08_read_error_reported.

(* ... and the failure is sticky: every later read-ahead, consume and seek reports failure and the
   state no longer changes (so no further data is ever delivered) *)
Theorem C08_fatal_sticky : forall s, ffatal s = true ->
  (forall m, ahead s m = (Null ARCHIVE_FATAL, s)) /\
  (forall n, (0 < n)%Z -> consume s n = (ARCHIVE_FATAL, s)) /\
  (forall o w, seek s o w = (ARCHIVE_FATAL, s)).
Proof. exact fatal_sticky. Qed.
Print Assumptions C08_fatal_sticky.

(* skip accounting, after the repair of client_skip_proxy: a negative result of the skip callback is
   returned as it is (the loop neither adds it to the total nor enlarges the request) *)
Theorem C08_skip_error_returned : forall c request v tl fuel,
  splan c = SkRet v :: tl -> (v < 0)%Z -> skip_loop (S fuel) c request 0 = (v, snd (client_skip c request)).
Proof. exact skip_error_returned. Qed.
Print Assumptions C08_skip_error_returned.

Example C08_nonvacuous :
  let c := mkClient (map N.of_nat (seq 0 10)) 0 [RSize 4; RErr] [] [] false false in
  let s0 := init_filt c in
  let '(r1, s1) := ahead s0 4 in
  let '(_, s2) := consume s1 4 in
  let '(r3, s3) := ahead s2 2 in
  r1 = Win [0;1;2;3] /\ r3 = Null ARCHIVE_FATAL /\ ffatal s3 = true /\
  fst (ahead s3 1) = Null ARCHIVE_FATAL.
Proof. vm_compute. repeat split; reflexivity. Qed.

(* "never invents data", for ANY format parser written against the read core (a deterministic program that looks at
   the first m bytes of each window it asks for and at the results of its consume calls), any two reachable core
   states whose streams are a prefix of one another: the run on the shorter stream sees, event by event, exactly
   what the run on the longer one sees - the same window bytes, the same consume results - until it is TOLD that
   the input ended (NULL with the number of bytes left, fewer than asked for; or ARCHIVE_FATAL from consume) *)
Theorem C08_truncation_delivers_prefix : forall (R : Type) (p : parser R), wf_parser p -> forall s1 s2,
  good s1 -> good s2 -> prefix (rest s1) (rest s2) ->
  same_until_short (ptrace p s1) (ptrace p s2).
Proof. exact @truncation_prefix. Qed.
Print Assumptions C08_truncation_delivers_prefix.

(* the same for an input cut at any offset, whatever the two read-callback partitions are *)
Theorem C08_cut_input_delivers_prefix : forall (R : Type) (p : parser R) data cut plan1 plan2,
  wf_parser p -> Forall good_ract plan1 -> Forall good_ract plan2 ->
  same_until_short (ptrace p (init_filt (mk_plain_client (take cut data) plan1)))
                   (ptrace p (init_filt (mk_plain_client data plan2))).
Proof. exact @truncated_input_prefix. Qed.
Print Assumptions C08_cut_input_delivers_prefix.

(* non-vacuity: a parser of 4-byte records (look at 4, consume 4, three times) on 10 of 12 bytes, 3-byte blocks:
   two records as on the whole input, then NULL with 2 bytes left; the whole input gives three records *)
Example C08_truncation_nonvacuous :
  let rec3 := PAhead 4 (fun _ => PConsume 4 (fun _ => PAhead 4 (fun _ => PConsume 4 (fun _ =>
              PAhead 4 (fun _ => PConsume 4 (fun _ => PDone tt)))))) in
  let d := map N.of_nat (seq 0 12) in
  ptrace rec3 (init_filt (mk_plain_client (take 10 d) [RSize 3; RSize 3; RSize 3; RSize 3])) =
    [EvAhead 4 (inl [0;1;2;3]); EvConsume 4 4; EvAhead 4 (inl [4;5;6;7]); EvConsume 4 4;
     EvAhead 4 (inr 2%Z); EvConsume 4 ARCHIVE_FATAL] /\
  ptrace rec3 (init_filt (mk_plain_client d [])) =
    [EvAhead 4 (inl [0;1;2;3]); EvConsume 4 4; EvAhead 4 (inl [4;5;6;7]); EvConsume 4 4;
     EvAhead 4 (inl [8;9;10;11]); EvConsume 4 4].
Proof. vm_compute. split; reflexivity. Qed.

(* ---- multi-volume input (IO/MultiNodeDefs.v) ---- *)
From LA Require IO.MultiNodeDefs IO.MultiNodeProofs.
Module MultiNode.
Import MultiNodeDefs MultiNodeProofs.
Local Open Scope Z_scope.
(* a set of data nodes that ends early: skipping more than is left - through the buffered block, the
   seek callback used as a skip callback (never beyond the end of a node) and the read loop over the
   remaining nodes - is reported as ARCHIVE_FATAL, whatever the split into nodes.  False of the pinned
   code, which let the seek land beyond the end of the node and reported the skip as complete. *)
Theorem C08_multinode_short_stream_is_error : forall s n,
  SInv s -> zlen (pending s) + zlen (rest s) < n -> fst (consume s n) = M_FATAL.
Proof. intros s n HI H. destruct (consume_spec s n HI) as (_ & _ & _ & A). apply A. right. exact H. Qed.
Print Assumptions C08_multinode_short_stream_is_error.
End MultiNode.
