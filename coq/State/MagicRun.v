(* val -> val front end of the C07 model (correspondence protocol).
   case = ( mode kind ops )
     mode 0 (scripted backends): ops = ( op ... );  result = ( (status state) ... (ropens rcloses wopens wcloses wfrees fixups) 0 0 )
            (the two zeros: the model predicts no leaked heap bytes and no leaked descriptors)
     mode 1 (real backends):     ops = ( ( (cand ...) status state ) ... ); result = ( 1|0 ... ) - 1 when some
            candidate oracle makes the model produce exactly the observed status and state *)
From Coq Require Import List ZArith NArith Bool String Ascii.
From LA Require Import Base.Val Gen.Defines Gen.MagicTable State.MagicDefs.
Import ListNotations.
Local Open Scope Z_scope.

Fixpoint str_of_bytes (l : list N) : string :=
  match l with [] => EmptyString | b :: r => String (ascii_of_N b) (str_of_bytes r) end.

Definition blk_of_val (v : val) : Z * Z * Z :=
  let l := lval v in (zval (vnth l 0), zval (vnth l 1), zval (vnth l 2)).

Definition op_of_val (v : val) : op :=
  let l := lval v in
  let z (i : nat) := zval (vnth l i) in
  let b (i : nat) := boolval (vnth l i) in
  match Z.to_nat (z 0%nat) with
  | 0%nat => OQuery (str_of_bytes (bval (vnth l 1))) (nval (vnth l 2)) (z 3%nat)
  | 1%nat => ONoCheck (z 1%nat)
  | 2%nat => OFail
  | 3%nat => RSetReadCb
  | 4%nat => ROpen1 (z 1%nat) (z 2%nat) (b 3%nat)
  | 5%nat => ROpenMem (z 1%nat) (z 2%nat) (b 3%nat)
  | 6%nat => RNextHeader (z 1%nat) (z 2%nat)
  | 7%nat => RDataBlock (z 1%nat)
  | 8%nat => RReadData (z 1%nat) (map blk_of_val (lval (vnth l 2)))
  | 9%nat => RReadDataObs (nval (vnth l 1)) (b 2%nat) (z 3%nat)
  | 10%nat => RDataSkip (z 1%nat)
  | 11%nat => RSeekData (b 1%nat) (z 2%nat)
  | 12%nat => RClose (z 1%nat)
  | 13%nat => RFree (z 1%nat)
  | 14%nat => WSetFormat (str_of_bytes (bval (vnth l 1))) (z 2%nat)
  | 15%nat => WOpen (z 1%nat) (z 2%nat)
  | 16%nat => WHeader (z 1%nat) (z 2%nat) (z 3%nat)
  | 17%nat => WData (z 1%nat)
  | 18%nat => WFinishEntry (z 1%nat)
  | 19%nat => WClose (z 1%nat) (z 2%nat) (z 3%nat)
  | 20%nat => WFree (z 1%nat) (z 2%nat) (z 3%nat) (z 4%nat)
  | 21%nat => DROpen (b 1%nat)
  | 22%nat => DRNextHeader (z 1%nat) (b 2%nat)
  | 23%nat => DRDataBlock (z 1%nat)
  | 24%nat => DRClose
  | 25%nat => DRFree
  | 26%nat => DWHeader (z 1%nat) (b 2%nat) (b 3%nat) (z 4%nat) (b 5%nat) (b 6%nat)
  | 27%nat => DWData (z 1%nat)
  | 28%nat => DWDataBlock (z 1%nat)
  | 29%nat => DWFinishEntry (z 1%nat) (b 2%nat)
  | 30%nat => DWClose (z 1%nat) (b 2%nat)
  | 31%nat => DWFree (z 1%nat) (b 2%nat)
  | 32%nat => MFree
  | 34%nat => WOpenMem (z 1%nat) (z 2%nat)
  | 33%nat => OPair (str_of_bytes (bval (vnth l 1))) (str_of_bytes (bval (vnth l 2))) (nval (vnth l 3))
  | _ => ONoCheck (-9996)
  end.

Definition handle_of_kind (k : Z) : handle :=
  match Z.to_nat k with
  | 0%nat => new_read | 1%nat => new_write | 2%nat => new_read_disk | 3%nat => new_write_disk
  | _ => new_match
  end.

(* what the harness prints for the state: 0 once the handle has been freed *)
Definition obs_state (h : handle) : N := if (hmagic h =? 0)%N then 0%N else hstate h.

Definition ANY_STATE : N := 4294967295%N.

Fixpoint find_match (t : list site) (h : handle) (cands : list op) (st : Z) (s' : N) : option handle :=
  match cands with
  | [] => None
  | o :: r =>
    match step t h o with
    | RRet st1 h1 =>
      if (st1 =? st) && ((s' =? ANY_STATE)%N || (obs_state h1 =? s')%N) then Some h1
      else find_match t h r st s'
    | _ => find_match t h r st s'
    end
  end.

Fixpoint run_real (t : list site) (h : handle) (steps : list (list op * Z * N)) : list Z :=
  match steps with
  | [] => []
  | (c, st, s') :: r =>
    match find_match t h c st s' with
    | Some h1 => 1 :: run_real t h1 r
    | None => 0 :: run_real t (set_state h s') r       (* resynchronise on the observed state *)
    end
  end.

Definition step_of_val (v : val) : list op * Z * N :=
  let l := lval v in (map op_of_val (lval (vnth l 0)), zval (vnth l 1), nval (vnth l 2)).

Fixpoint last_handle (h : handle) (l : list (op * Z * handle)) : handle :=
  match l with [] => h | (_, _, h') :: r => last_handle h' r end.

Definition run (v : val) : val :=
  let l := lval v in
  let mode := zval (vnth l 0) in
  let h0 := handle_of_kind (zval (vnth l 1)) in
  if mode =? 0 then
    let outs := run_ops magic_table h0 (map op_of_val (lval (vnth l 2))) in
    let hf := last_handle h0 outs in
    VL (map (fun p : op * Z * handle => VL [VI (snd (fst p)); VN (obs_state (snd p))]) outs ++
        [VL [VN (r_opens (rd hf)); VN (r_closes (rd hf)); VN (w_opens (wr hf)); VN (w_closes (wr hf));
             VN (w_frees (wr hf)); VN (fixups hf)]; VI 0; VI 0])
  else
    VL (map VI (run_real magic_table h0 (map step_of_val (lval (vnth l 2))))).
