(* C13 - independent handles on different threads: the footprint model.

   A thread is a straight-line list of atomic steps (one control-flow path of the code it runs; the
   branch conditions taken are recorded as guards).  A step reads some locations, computes, writes
   some locations.  Locations are private to a thread (its handles, its stack) or shared (objects
   with static storage duration in the library).  A step may be marked as executed inside the
   critical section of a lock; steps are atomic, so a critical section is modelled as one step.
   What this abstraction cannot express is the C11 memory model: unsynchronised conflicting accesses
   are undefined behaviour in C whatever values are stored; here they are merely "races". *)
From Coq Require Import List ZArith NArith Bool String Arith.
From LA Require Import Gen.Statics.
Import ListNotations.
Open Scope string_scope.

(* ---------------------------------------------------------------- locations and stores *)
Inductive loc : Type :=
| Private (t : nat) (l : string)
| Shared (n : string).

Definition loc_eqb (a b : loc) : bool :=
  match a, b with
  | Private t l, Private t' l' => Nat.eqb t t' && String.eqb l l'
  | Shared n, Shared n' => String.eqb n n'
  | _, _ => false
  end.

Definition store := loc -> Z.
Definition upd (s : store) (l : loc) (v : Z) : store :=
  fun l' => if loc_eqb l' l then v else s l'.

(* i-th computed value goes to the i-th written location (0 when the function returns too few) *)
Fixpoint write_all (ls : list loc) (vs : list Z) (s : store) : store :=
  match ls with
  | [] => s
  | l :: ls' => write_all ls' (tl vs) (upd s l (hd 0%Z vs))
  end.

(* ---------------------------------------------------------------- steps, threads, programs *)
Record step : Type := mkStep {
  rd : list loc;                 (* read footprint *)
  wr : list loc;                 (* write footprint *)
  lk : option string;            (* Some L: the step is the critical section of lock L *)
  fn : list Z -> list Z;         (* values read (in order of rd) -> values written (in order of wr) *)
  grd : list Z -> bool           (* branch condition under which this path is the one executed *)
}.

Definition thread := list step.
Definition prog := list thread.          (* thread t = t-th element *)

Definition exec (st : step) (s : store) : store :=
  write_all (wr st) (fn st (map s (rd st))) s.
Definition guard_holds (st : step) (s : store) : bool := grd st (map s (rd st)).

Definition exec_thread (th : thread) (s : store) : store :=
  fold_left (fun s st => exec st s) th s.

Definition trace := list (nat * step).
Definition exec_trace (tr : trace) (s : store) : store :=
  fold_left (fun s x => exec (snd x) s) tr s.

Fixpoint set_nth {A} (n : nat) (x : A) (l : list A) : list A :=
  match l, n with
  | [], _ => []
  | _ :: r, O => x :: r
  | a :: r, S n' => a :: set_nth n' x r
  end.

(* all interleavings of the threads of p: at each point any thread that still has a step may move *)
Inductive interleaving : prog -> trace -> Prop :=
| il_nil : forall p, Forall (fun th => th = []) p -> interleaving p []
| il_cons : forall p t st more tr,
    nth_error p t = Some (st :: more) ->
    interleaving (set_nth t more p) tr ->
    interleaving p ((t, st) :: tr).

(* the sequential run: thread 0 to completion, then thread 1, ... *)
Fixpoint seq_from (i : nat) (p : prog) : trace :=
  match p with
  | [] => []
  | th :: rest => (map (pair i) th ++ seq_from (S i) rest)%list
  end.
Definition seq_trace (p : prog) : trace := seq_from 0 p.

(* ---------------------------------------------------------------- schedules (executable) *)
(* a schedule names the thread that moves next; a named thread with no step left does not move *)
Fixpoint advance (sched : list nat) (p : prog) : prog :=
  match sched with
  | [] => p
  | t :: rest => match nth_error p t with
                 | Some (_ :: more) => advance rest (set_nth t more p)
                 | _ => advance rest p
                 end
  end.

Fixpoint trace_of (sched : list nat) (p : prog) : option trace :=
  match sched with
  | [] => Some []
  | t :: rest => match nth_error p t with
                 | Some (st :: more) =>
                     match trace_of rest (set_nth t more p) with
                     | Some tr => Some ((t, st) :: tr)
                     | None => None
                     end
                 | _ => None
                 end
  end.

Definition all_done (p : prog) : bool := forallb (fun th => match th with [] => true | _ => false end) p.

(* every guard of the path holds in the store in which its step is executed *)
Fixpoint guards_ok (tr : trace) (s : store) : bool :=
  match tr with
  | [] => true
  | (_, st) :: rest => guard_holds st s && guards_ok rest (exec st s)
  end.

(* ---------------------------------------------------------------- races *)
Definition accesses (st : step) : list loc := (rd st ++ wr st)%list.

Definition mem_loc (l : loc) (ls : list loc) : bool := existsb (loc_eqb l) ls.

Definition conflict_onb (n : string) (a b : step) : bool :=
  (mem_loc (Shared n) (wr a) && mem_loc (Shared n) (accesses b)) ||
  (mem_loc (Shared n) (wr b) && mem_loc (Shared n) (accesses a)).

Definition common_lockb (a b : step) : bool :=
  match lk a, lk b with
  | Some x, Some y => String.eqb x y
  | _, _ => false
  end.

Definition conflict_on (n : string) (a b : step) : Prop :=
  (In (Shared n) (wr a) /\ In (Shared n) (accesses b)) \/
  (In (Shared n) (wr b) /\ In (Shared n) (accesses a)).

Definition common_lock (a b : step) : Prop :=
  exists L, lk a = Some L /\ lk b = Some L.

(* a data race on shared object n: after the schedule, two different threads are both about to
   perform accesses to n, at least one a write, not inside critical sections of one common lock *)
Definition race_after (p : prog) (sched : list nat) (n : string) : Prop :=
  exists t1 t2 a b r1 r2,
    t1 <> t2 /\
    nth_error (advance sched p) t1 = Some (a :: r1) /\
    nth_error (advance sched p) t2 = Some (b :: r2) /\
    conflict_on n a b /\ ~ common_lock a b.

Definition head_of (p : prog) (t : nat) : option step :=
  match nth_error p t with Some (a :: _) => Some a | _ => None end.

Definition race_afterb (p : prog) (sched : list nat) (n : string) : bool :=
  let q := advance sched p in
  existsb (fun t1 => existsb (fun t2 =>
    negb (Nat.eqb t1 t2) &&
    match head_of q t1, head_of q t2 with
    | Some a, Some b => conflict_onb n a b && negb (common_lockb a b)
    | _, _ => false
    end) (seq 0 (List.length q))) (seq 0 (List.length q)).

(* the same with the path made explicit: the schedule is executable from store s0 with every branch
   condition of the executed prefix true, and the two racing steps are the ones really taken there *)
Definition race_witness (p : prog) (s0 : store) (sched : list nat) (n : string) : Prop :=
  exists tr t1 t2 a b r1 r2,
    trace_of sched p = Some tr /\ guards_ok tr s0 = true /\
    t1 <> t2 /\
    nth_error (advance sched p) t1 = Some (a :: r1) /\
    nth_error (advance sched p) t2 = Some (b :: r2) /\
    conflict_on n a b /\ ~ common_lock a b /\
    guard_holds a (exec_trace tr s0) = true /\ guard_holds b (exec_trace tr s0) = true.

Definition race_witnessb (p : prog) (s0 : store) (sched : list nat) (n : string) : bool :=
  match trace_of sched p with
  | None => false
  | Some tr =>
      let q := advance sched p in
      let s := exec_trace tr s0 in
      guards_ok tr s0 &&
      existsb (fun t1 => existsb (fun t2 =>
        negb (Nat.eqb t1 t2) &&
        match head_of q t1, head_of q t2 with
        | Some a, Some b => conflict_onb n a b && negb (common_lockb a b) && guard_holds a s && guard_holds b s
        | _, _ => false
        end) (seq 0 (List.length q))) (seq 0 (List.length q))
  end.

Definition zero_store : store := fun _ => 0%Z.      (* statics in .bss start as zero *)

(* ---------------------------------------------------------------- access policy *)
Inductive access : Type :=
| RO                       (* never written by any thread *)
| LockedBy (m : string).   (* every access inside a critical section of m *)

Definition policy := string -> option access.     (* None: must not be touched at all *)

Definition tainted (pol : policy) (l : loc) : bool :=
  match l with
  | Private _ _ => false
  | Shared n => match pol n with Some (LockedBy _) => true | _ => false end
  end.

Definition is_mine (t : nat) (l : loc) : bool :=
  match l with Private t' _ => Nat.eqb t' t | Shared _ => true end.

Definition opt_string_eqb (a b : option string) : bool :=
  match a, b with
  | Some x, Some y => String.eqb x y
  | None, None => true
  | _, _ => false
  end.

(* what one step of thread t must satisfy:
   1. it touches only its own private locations and shared ones;
   2. every shared location it touches has a policy; a written one is LockedBy;
   3. every access to a LockedBy m location is made by a step that is a critical section of m;
   4. a step that reads a LockedBy location writes only LockedBy locations: values of lock-protected
      shared state (whose content depends on the order in which threads took the lock) never flow
      into a thread's private results.  *)
Definition ok_stepb (pol : policy) (t : nat) (st : step) : bool :=
  forallb (is_mine t) (accesses st) &&
  forallb (fun l => match l with
                    | Shared n => match pol n with
                                  | Some RO => true
                                  | Some (LockedBy m) => opt_string_eqb (lk st) (Some m)
                                  | None => false
                                  end
                    | Private _ _ => true
                    end) (accesses st) &&
  forallb (fun l => match l with Shared _ => tainted pol l | Private _ _ => true end) (wr st) &&
  (negb (existsb (tainted pol) (rd st)) || forallb (tainted pol) (wr st)).

Fixpoint ok_from (pol : policy) (i : nat) (p : prog) : bool :=
  match p with
  | [] => true
  | th :: rest => forallb (ok_stepb pol i) th && ok_from pol (S i) rest
  end.
Definition policy_okb (pol : policy) (p : prog) : bool := ok_from pol 0 p.

Definition policy_ok (pol : policy) (p : prog) : Prop :=
  forall t th, nth_error p t = Some th -> forallb (ok_stepb pol t) th = true.

(* ---------------------------------------------------------------- the statics table *)
Inductive sclass : Type :=
| Locked (m : string)
| InitOnceIdempotent
| ThreadUnsafeDocumented
| Unsynchronised.

Definition decode_class (c : N) (m : string) : option sclass :=
  match c with
  | 0%N => Some (Locked m)
  | 1%N => Some InitOnceIdempotent
  | 2%N => Some ThreadUnsafeDocumented
  | 3%N => Some Unsynchronised
  | _ => None
  end.

Definition cl_table := list (string * string * (N * string)).

(* exact (object, symbol) match first; object "*" (static defined in a header) matches any object *)
Fixpoint lookup_exact (cl : cl_table) (obj sym : string) : option sclass :=
  match cl with
  | [] => None
  | (o, s, (c, m)) :: rest =>
      if String.eqb o obj && String.eqb s sym then decode_class c m else lookup_exact rest obj sym
  end.
Fixpoint lookup_any (cl : cl_table) (sym : string) : option sclass :=
  match cl with
  | [] => None
  | (o, s, (c, m)) :: rest =>
      if String.eqb o "*" && String.eqb s sym then decode_class c m else lookup_any rest sym
  end.
Definition lookup_class (cl : cl_table) (obj sym : string) : option sclass :=
  match lookup_exact cl obj sym with
  | Some c => Some c
  | None => lookup_any cl sym
  end.

Definition centry := (string * string * N * option sclass)%type.
Definition ce_obj (e : centry) : string := fst (fst (fst e)).
Definition ce_sym (e : centry) : string := snd (fst (fst e)).
Definition ce_class (e : centry) : option sclass := snd e.
(* the name of the shared location that stands for a static *)
Definition sname (obj sym : string) : string := obj ++ "/" ++ sym.
Definition ce_name (e : centry) : string := sname (ce_obj e) (ce_sym e).

Definition classify (cl : cl_table) (e : string * string * N) : centry :=
  (e, lookup_class cl (fst (fst e)) (snd (fst e))).

Definition join (cl : cl_table) (tbl : list (string * string * N)) : list centry := map (classify cl) tbl.

(* the regenerated table joined with the committed classification *)
Definition statics_classified : list centry := join classification statics.

Definition is_classified (e : centry) : bool :=
  match ce_class e with Some _ => true | None => false end.

Definition synchronised (e : centry) : bool :=
  match ce_class e with
  | Some (Locked _) | Some InitOnceIdempotent | Some ThreadUnsafeDocumented => true
  | Some Unsynchronised | None => false
  end.

Definition statics_ok (tbl : list centry) : bool := forallb synchronised tbl.

Definition unsynchronised_in (tbl : list centry) : list string :=
  map ce_sym (filter (fun e => negb (synchronised e)) tbl).

Fixpoint find_entry (tbl : list centry) (n : string) : option centry :=
  match tbl with
  | [] => None
  | e :: rest => if String.eqb (ce_name e) n then Some e else find_entry rest n
  end.

(* the access policy a table induces: a shared object that is NOT in the table of writable statics is
   constant data (.rodata / .data.rel.ro): read-only.  One that is in the table may be touched only
   as its class allows. *)
Definition policy_of_table (tbl : list centry) : policy :=
  fun n => match find_entry tbl n with
           | None => Some RO
           | Some e => match ce_class e with
                       | Some (Locked m) => Some (LockedBy m)
                       | Some InitOnceIdempotent => Some RO
                       | _ => None
                       end
           end.

(* ---------------------------------------------------------------- step constructors *)
Definition always (_ : list Z) : bool := true.
Definition plain (r w : list loc) (f : list Z -> list Z) : step := mkStep r w None f always.
Definition guarded (r w : list loc) (f : list Z -> list Z) (g : list Z -> bool) : step := mkStep r w None f g.
Definition locked (L : string) (r w : list loc) (f : list Z -> list Z) : step := mkStep r w (Some L) f always.
Definition z0 (l : list Z) : Z := hd 0%Z l.
Definition z1 (l : list Z) : Z := hd 0%Z (tl l).

(* ---------------------------------------------------------------- models of the code sites AS THEY WERE
   before the fix commits in /repo removed these statics (a4d882c, 48a9f22, 2cfbe59, 25b3584, 311cdc5,
   f540a5a, 19fe657, 59d75c0).  props/C13_statics.json keeps the symbols classified unsynchronised, so a
   re-introduction is judged by these models.  Each is the path one call takes, with the non-atomic C
   accesses as separate steps.  The models of the CURRENT code follow further down (prog_fixed). *)
Local Open Scope Z_scope.

(* archive_read_format_tar_read_header: for the k-th header read by thread t
     archive_entry_set_dev(entry, 1 + default_dev);
     archive_entry_set_ino(entry, ++default_inode);
     if (default_inode >= 0xffff) { ++default_dev; default_inode = 0; }          (path: not taken) *)
Definition S_default_inode := sname "archive_read_support_format_tar.c" "default_inode".
Definition S_default_dev := sname "archive_read_support_format_tar.c" "default_dev".

Definition tar_header (t : nat) (k : string) : thread :=
  [ plain [Shared S_default_dev] [Private t ("dev" ++ k)] (fun v => [1 + z0 v]);
    plain [Shared S_default_inode] [Private t "tmp"] (fun v => [z0 v + 1]);            (* load, add *)
    plain [Private t "tmp"] [Shared S_default_inode; Private t ("ino" ++ k)] (fun v => [z0 v; z0 v]);  (* store *)
    guarded [Shared S_default_inode] [] (fun _ => []) (fun v => z0 v <? 65535) ].

(* the same with the wrap branch taken *)
Definition tar_header_wrap (t : nat) (k : string) : thread :=
  [ plain [Shared S_default_dev] [Private t ("dev" ++ k)] (fun v => [1 + z0 v]);
    plain [Shared S_default_inode] [Private t "tmp"] (fun v => [z0 v + 1]);
    plain [Private t "tmp"] [Shared S_default_inode; Private t ("ino" ++ k)] (fun v => [z0 v; z0 v]);
    guarded [Shared S_default_inode; Shared S_default_dev] [Shared S_default_inode; Shared S_default_dev]
            (fun v => [0; z1 v + 1]) (fun v => 65535 <=? z0 v) ].

(* a handle reading two headers, then the per-handle observable used by the harness digest:
   the distance of the second entry's ino from the first *)
Definition tar_two_headers (t : nat) : thread :=
  (tar_header t "1" ++ tar_header t "2" ++
   [ plain [Private t "ino1"; Private t "ino2"] [Private t "delta"] (fun v => [z1 v - z0 v]) ])%list.

Definition prog_tar : prog := [tar_two_headers 0; tar_two_headers 1].
Definition prog_tar_wrap : prog := [tar_header_wrap 0 "1"; tar_header 1 "1"].

(* base64_decode: if (decode_table[digits[1]] != 1) { memset(0xff); fill }; ... decode_table[*src]
   two cells of the table: the probe cell ['B'] and one other cell ['A'] *)
Definition S_decode_B := sname "archive_read_support_format_tar.c" "decode_table".
Definition base64_first_use (t : nat) : thread :=
  [ plain [Shared S_decode_B] [Private t "probe"] (fun v => [z0 v]);
    guarded [Private t "probe"] [Shared S_decode_B] (fun _ => [255]) (fun v => negb (z0 v =? 1));   (* memset *)
    plain [] [Shared S_decode_B] (fun _ => [1]);                                                      (* fill *)
    plain [Shared S_decode_B] [Private t "decoded"] (fun v => [z0 v]) ].
Definition base64_later_use (t : nat) : thread :=
  [ plain [Shared S_decode_B] [Private t "probe"] (fun v => [z0 v]);
    guarded [Private t "probe"] [] (fun _ => []) (fun v => z0 v =? 1);
    plain [Shared S_decode_B] [Private t "decoded"] (fun v => [z0 v]) ].
Definition prog_base64 : prog := [base64_first_use 0; base64_first_use 1].

(* lha_crc16_init: if (crc16init) return; crc16init = 1; fill crc16tbl;  then lha_crc16 reads it *)
Definition S_crc16init := sname "archive_read_support_format_lha.c" "crc16init".
Definition S_crc16tbl := sname "archive_read_support_format_lha.c" "crc16tbl".
Definition crc16_entry : Z := 49345.     (* crc16tbl[0][1] = 0xC0C1 *)
Definition lha_first (t : nat) : thread :=
  [ plain [Shared S_crc16init] [Private t "inited"] (fun v => [z0 v]);
    guarded [Private t "inited"] [Shared S_crc16init] (fun _ => [1]) (fun v => z0 v =? 0);
    plain [] [Shared S_crc16tbl] (fun _ => [crc16_entry]);
    plain [Shared S_crc16tbl] [Private t "crc"] (fun v => [z0 v]) ].
Definition lha_second (t : nat) : thread :=
  [ plain [Shared S_crc16init] [Private t "inited"] (fun v => [z0 v]);
    guarded [Private t "inited"] [] (fun _ => []) (fun v => negb (z0 v =? 0));      (* return *)
    plain [Shared S_crc16tbl] [Private t "crc"] (fun v => [z0 v]) ].
Definition prog_lha : prog := [lha_first 0; lha_second 1].
Definition prog_lha_both_first : prog := [lha_first 0; lha_first 1].

(* compress filter next_code: debug_buff[debug_index++] = code; if (debug_index >= 1024) debug_index = 0; *)
Definition S_debug_index := sname "archive_read_support_filter_compress.c" "debug_index".
Definition next_code (t : nat) : thread :=
  [ plain [Shared S_debug_index] [Private t "idx"] (fun v => [z0 v]);
    plain [Private t "idx"] [Shared S_debug_index] (fun v => [z0 v + 1]);
    guarded [Shared S_debug_index] [] (fun _ => []) (fun v => z0 v <? 1024) ].
Definition prog_compress : prog := [next_code 0; next_code 1].

(* tree_current_is_symblic_link_target: static const struct stat *lst, *st;
     lst = tree_current_lstat(t); st = tree_current_stat(t); return (st != NULL && lst != NULL && ... lst->st_dev)
   the pointer stored is the address of the caller's own tree (Private "my_lst") *)
Definition S_lst := sname "archive_read_disk_posix.c" "lst".
Definition symlink_target (t : nat) : thread :=
  [ plain [Private t "my_lst"] [Shared S_lst] (fun v => [z0 v]);
    plain [Shared S_lst] [Private t "lst_used"] (fun v => [z0 v]) ].
Definition prog_disk : prog := [symlink_target 0; symlink_target 1].
(* every handle's own stat buffer has its own address *)
Definition disk_store : store :=
  fun l => match l with Private t "my_lst" => 1000 + Z.of_nat t | _ => 0 end.

(* tree_dup on a kernel where fcntl(F_DUPFD_CLOEXEC) fails: if (can_dupfd_cloexec) { ...; can_dupfd_cloexec = 0; } *)
Definition S_can_dupfd := sname "archive_read_disk_posix.c" "can_dupfd_cloexec".
Definition tree_dup_old_kernel (t : nat) : thread :=
  [ plain [Shared S_can_dupfd] [Private t "can"] (fun v => [z0 v]);
    guarded [Private t "can"] [Shared S_can_dupfd] (fun _ => [0]) (fun v => negb (z0 v =? 0)) ].
Definition prog_dup : prog := [tree_dup_old_kernel 0; tree_dup_old_kernel 1].
Definition dup_store : store := fun l => match l with Shared _ => 1 | _ => 0 end.

(* unix_to_dos: if (!dos_initialised) { dos_max_unix = ..; dos_min_unix = ..; dos_initialised = 1; }
                if (unix_time >= dos_max_unix) ... else if (unix_time <= dos_min_unix) ... *)
Definition S_dos_init := sname "archive_time.c" "dos_initialised".
Definition S_dos_max := sname "archive_time.c" "dos_max_unix".
Definition S_dos_min := sname "archive_time.c" "dos_min_unix".
Definition unix_to_dos_first (t : nat) : thread :=
  [ plain [Shared S_dos_init] [Private t "init"] (fun v => [z0 v]);
    guarded [Private t "init"] [Shared S_dos_max] (fun _ => [4354819198]) (fun v => z0 v =? 0);
    plain [] [Shared S_dos_min] (fun _ => [315532800]);
    plain [] [Shared S_dos_init] (fun _ => [1]);
    plain [Shared S_dos_max] [Private t "max"] (fun v => [z0 v]);
    plain [Shared S_dos_min] [Private t "min"] (fun v => [z0 v]) ].
Definition prog_dos : prog := [unix_to_dos_first 0; unix_to_dos_first 1].

(* archive_version_details: `init` is never set, so every call does
     archive_string_init(&str); archive_strcat(&str, ...) ...; return str.s
   str.length is the cell modelled: init stores 0, each strcat is load / store length+n *)
Definition S_str := sname "archive_version_details.c" "str".
Definition version_details (t : nat) : thread :=
  [ plain [] [Shared S_str] (fun _ => [0]);
    plain [Shared S_str] [Private t "len"] (fun v => [z0 v]);
    plain [Private t "len"] [Shared S_str] (fun v => [z0 v + 5]);
    plain [Shared S_str] [Private t "result_len"] (fun v => [z0 v]) ].
Definition prog_version : prog := [version_details 0; version_details 1].

(* ---------------------------------------------------------------- models of the code sites as they are NOW
   tar reader: the counters live in struct tar (private to the handle) *)
Definition tar_header_fixed (t : nat) (k : string) : thread :=
  [ plain [Private t "tar.default_dev"] [Private t ("dev" ++ k)] (fun v => [1 + z0 v]);
    plain [Private t "tar.default_inode"] [Private t "tar.default_inode"; Private t ("ino" ++ k)] (fun v => [z0 v + 1; z0 v + 1]);
    guarded [Private t "tar.default_inode"] [] (fun _ => []) (fun v => z0 v <? 65535) ].
(* lha reader / base64: constant tables (.rodata, not in the table of writable statics) *)
Definition S_crc16tbl_const := sname "archive_read_support_format_lha.c" "crc16tbl".
Definition lha_crc_fixed (t : nat) : thread :=
  [ plain [Shared S_crc16tbl_const; Private t "byte"] [Private t "crc"] (fun v => [z0 v + z1 v]) ].
(* disk reader: lst/st automatic *)
Definition symlink_target_fixed (t : nat) : thread :=
  [ plain [Private t "my_lst"] [Private t "lst"] (fun v => [z0 v]);
    plain [Private t "lst"] [Private t "lst_used"] (fun v => [z0 v]) ].
(* archive_version_details: lock(mtx); if (!init) { build str; init = 1; } unlock(mtx); return str.s;
   str is initialised once and constant afterwards (class init_once_idempotent: the model treats it as
   read-only, i.e. abstracts the one initialisation away); init is touched only in the critical section *)
Definition S_vd_init := sname "archive_version_details.c" "init".
Definition version_details_fixed (t : nat) : thread :=
  [ locked "archive_version_details.mtx" [Shared S_vd_init] [Shared S_vd_init] (fun _ => [1]);
    plain [Shared S_str] [Private t "version"] (fun v => [z0 v]) ].
Definition fixed_thread (t : nat) : thread :=
  (tar_header_fixed t "1" ++ version_details_fixed t ++ tar_header_fixed t "2" ++ lha_crc_fixed t ++
   symlink_target_fixed t ++
   [ plain [Private t "ino1"; Private t "ino2"] [Private t "delta"] (fun v => [z1 v - z0 v]) ])%list.
Definition prog_fixed : prog := [fixed_thread 0; fixed_thread 1; fixed_thread 2].

(* ---------------------------------------------------------------- a well-synchronised program
   (non-vacuity of the theorem): three threads, each reads a constant table, computes privately and
   bumps a lock-protected statistics counter whose value never reaches its private results *)
Definition S_table := "archive_ppmd7.c/kExpEscape".      (* some .rodata object: not in the statics table *)
Definition S_counter := "example.c/stats".
Definition good_thread (t : nat) : thread :=
  [ plain [Shared S_table; Private t "in"] [Private t "acc"] (fun v => [z0 v * 3 + z1 v]);
    locked "stats_mtx" [Shared S_counter] [Shared S_counter] (fun v => [z0 v + 1]);
    plain [Private t "acc"; Shared S_table] [Private t "out"] (fun v => [z0 v + z1 v + Z.of_nat t]);
    locked "stats_mtx" [Shared S_counter; Private t "acc"] [Shared S_counter] (fun v => [z0 v + z1 v]) ].
Definition prog_good : prog := [good_thread 0; good_thread 1; good_thread 2].
Definition good_table : list centry :=
  [ (("example.c", "stats", 8%N), Some (Locked "stats_mtx")) ].
Definition good_store : store :=
  fun l => match l with Shared _ => 7 | Private t _ => Z.of_nat t + 10 end.

(* a C library function that keeps its state in a hidden object of the process: the restartable
   conversion mbrtowc(wcs, mbs, n, NULL) (likewise wcrtomb, mbrlen, ... with a NULL state, and
   mbtowc/wctomb/strtok/localtime/...).  gen_statics.py lists every such call of the build as a row
   "libc:<function>" of the statics table.  The hidden state of a UTF-8 decoder is the number of
   continuation bytes still expected; one call = one atomic step (the C library does not lock it):
     state 0, byte < 0x80       -> that character, state 0
     state 0, lead byte >= 0xC0 -> -2 (incomplete), state 1
     state > 0, continuation    -> state - 1
     state > 0, anything else   -> -1 (EILSEQ), state 0
   archive_wstring_append_from_mbs converts a name byte by byte like this. *)
Definition S_mbstate := sname "archive_string.c" "libc:mbrtowc(NULL)".
Definition mbr_fn (v : list Z) : list Z :=
  let st := z0 v in let b := z1 v in
  if st =? 0 then (if b <? 128 then [0; b] else if 192 <=? b then [1; -2] else [0; -1])
  else (if (128 <=? b) && (b <? 192) then [st - 1; (if st =? 1 then 1000 + b else -2)] else [0; -1]).
Definition mbr_call (t : nat) (k : string) : step :=
  plain [Shared S_mbstate; Private t ("in" ++ k)] [Shared S_mbstate; Private t ("out" ++ k)] mbr_fn.
(* handle 0 converts a two-character ASCII name; handle 1 converts a name that ends in a lead byte *)
Definition prog_mbstate : prog := [ [mbr_call 0 "1"; mbr_call 0 "2"]; [mbr_call 1 "1"] ].
Definition mbstate_store : store :=
  fun l => match l with
           | Private 0%nat "in1" => 98 | Private 0%nat "in2" => 99     (* "bc" *)
           | Private 1%nat "in1" => 195                               (* "\xc3" and nothing after it *)
           | _ => 0 end.

(* the shared objects for which ThreadsProofs.v exhibits a racing schedule *)
Definition witnessed : list string :=
  [ S_default_inode; S_default_dev; S_decode_B; S_crc16init; S_crc16tbl; S_debug_index; S_lst;
    S_can_dupfd; S_dos_init; S_dos_max; S_dos_min; S_str; S_mbstate ].
Definition has_witness (e : centry) : bool := existsb (String.eqb (ce_name e)) witnessed.
