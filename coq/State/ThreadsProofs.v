(* C13 - lemmas about the footprint model of State/ThreadsDefs.v *)
From Coq Require Import List ZArith NArith Bool String Arith Lia.
From LA Require Import Gen.Statics State.ThreadsDefs.
Import ListNotations.
Open Scope list_scope.

(* ---------------------------------------------------------------- locations *)
Lemma loc_eqb_eq : forall a b, loc_eqb a b = true <-> a = b.
Proof.
  destruct a as [t l | n], b as [t' l' | n']; simpl; split; intro H; try discriminate.
  - apply andb_true_iff in H. destruct H as [H1 H2].
    apply Nat.eqb_eq in H1. apply String.eqb_eq in H2. subst. reflexivity.
  - inversion H; subst. rewrite Nat.eqb_refl, String.eqb_refl. reflexivity.
  - apply String.eqb_eq in H. subst. reflexivity.
  - inversion H; subst. apply String.eqb_refl.
Qed.

Lemma loc_eqb_refl : forall a, loc_eqb a a = true.
Proof. intro a. apply loc_eqb_eq. reflexivity. Qed.

Lemma loc_eq_dec : forall a b : loc, {a = b} + {a <> b}.
Proof.
  intros a b. destruct (loc_eqb a b) eqn:E.
  - left. apply loc_eqb_eq. exact E.
  - right. intro H. apply loc_eqb_eq in H. congruence.
Qed.

Lemma mem_loc_In : forall l ls, mem_loc l ls = true -> In l ls.
Proof.
  intros l ls H. unfold mem_loc in H. apply existsb_exists in H.
  destruct H as [x [Hin Hx]]. apply loc_eqb_eq in Hx. subst. exact Hin.
Qed.

(* ---------------------------------------------------------------- stores *)
Lemma write_all_notin : forall ls vs s l, ~ In l ls -> write_all ls vs s l = s l.
Proof.
  induction ls as [|a ls IH]; intros vs s l Hn; simpl.
  - reflexivity.
  - rewrite IH.
    + unfold upd. destruct (loc_eqb l a) eqn:E.
      * apply loc_eqb_eq in E. subst. exfalso. apply Hn. left. reflexivity.
      * reflexivity.
    + intro H. apply Hn. right. exact H.
Qed.

Lemma write_all_in_same : forall ls vs s s' l, In l ls -> write_all ls vs s l = write_all ls vs s' l.
Proof.
  induction ls as [|a ls IH]; intros vs s s' l Hin; simpl.
  - destruct Hin.
  - destruct (in_dec loc_eq_dec l ls) as [Hl | Hl].
    + apply IH. exact Hl.
    + destruct Hin as [Ha | Hin]; [| contradiction].
      subst. rewrite !write_all_notin by exact Hl.
      unfold upd. rewrite loc_eqb_refl. reflexivity.
Qed.

Definition agree (V : loc -> Prop) (s s' : store) : Prop := forall l, V l -> s l = s' l.

(* a step whose reads all lie in the view: equal views stay equal *)
Lemma exec_agree_reads : forall (V : loc -> Prop) st s s',
  (forall l, In l (rd st) -> V l) -> agree V s s' -> agree V (exec st s) (exec st s').
Proof.
  intros V st s s' Hr Hag l Hl. unfold exec.
  assert (E : map s (rd st) = map s' (rd st)).
  { apply map_ext_in. intros x Hx. apply Hag. apply Hr. exact Hx. }
  rewrite E.
  destruct (in_dec loc_eq_dec l (wr st)) as [Hw | Hw].
  - apply write_all_in_same. exact Hw.
  - rewrite !write_all_notin by exact Hw. apply Hag. exact Hl.
Qed.

(* a step whose writes all lie outside the view leaves the view unchanged *)
Lemma exec_outside : forall (V : loc -> Prop) st s,
  (forall l, In l (wr st) -> ~ V l) -> forall l, V l -> exec st s l = s l.
Proof.
  intros V st s Hw l Hl. unfold exec. apply write_all_notin.
  intro Hin. exact (Hw l Hin Hl).
Qed.

(* ---------------------------------------------------------------- lists *)
Lemma nth_error_set_nth_eq : forall A (l : list A) n x a,
  nth_error l n = Some a -> nth_error (set_nth n x l) n = Some x.
Proof.
  induction l as [|b l IH]; intros n x a H; destruct n; simpl in *; try discriminate.
  - reflexivity.
  - eapply IH. exact H.
Qed.

Lemma nth_error_set_nth_neq : forall A (l : list A) n m x,
  n <> m -> nth_error (set_nth n x l) m = nth_error l m.
Proof.
  induction l as [|b l IH]; intros n m x H; destruct n, m; simpl; try reflexivity.
  - congruence.
  - apply IH. congruence.
Qed.

Lemma nth_of_nth_error : forall A (l : list A) n d a, nth_error l n = Some a -> nth n l d = a.
Proof.
  induction l as [|b l IH]; intros n d a H; destruct n; simpl in *; try discriminate.
  - congruence.
  - apply IH. exact H.
Qed.

Lemma nth_set_nth_neq : forall A (l : list A) n m x d, n <> m -> nth m (set_nth n x l) d = nth m l d.
Proof.
  induction l as [|b l IH]; intros n m x d H; destruct n, m; simpl; try reflexivity.
  - congruence.
  - apply IH. congruence.
Qed.

Lemma nth_all_nil : forall (p : list (list step)) t,
  Forall (fun th : list step => th = []) p -> @nth (list step) t p [] = [].
Proof.
  intros p t H. destruct (nth_in_or_default t p []) as [Hin | Hd].
  - rewrite Forall_forall in H. apply H. exact Hin.
  - exact Hd.
Qed.

Lemma exec_trace_cons : forall u st tr s, exec_trace ((u, st) :: tr) s = exec_trace tr (exec st s).
Proof. reflexivity. Qed.
Lemma exec_thread_cons : forall st th s, exec_thread (st :: th) s = exec_thread th (exec st s).
Proof. reflexivity. Qed.

(* ---------------------------------------------------------------- what the policy gives per step *)
Definition viewb (pol : policy) (t : nat) (l : loc) : bool :=
  match l with
  | Private t' _ => Nat.eqb t' t
  | Shared _ => negb (tainted pol l)
  end.
Definition view (pol : policy) (t : nat) (l : loc) : Prop := viewb pol t l = true.

Lemma ok_step_parts : forall pol t st, ok_stepb pol t st = true ->
  forallb (is_mine t) (accesses st) = true /\
  forallb (fun l => match l with
                    | Shared n => match pol n with
                                  | Some RO => true
                                  | Some (LockedBy m) => opt_string_eqb (lk st) (Some m)
                                  | None => false
                                  end
                    | Private _ _ => true
                    end) (accesses st) = true /\
  forallb (fun l => match l with Shared _ => tainted pol l | Private _ _ => true end) (wr st) = true /\
  (negb (existsb (tainted pol) (rd st)) || forallb (tainted pol) (wr st)) = true.
Proof.
  intros pol t st H. unfold ok_stepb in H.
  apply andb_true_iff in H. destruct H as [H H4].
  apply andb_true_iff in H. destruct H as [H H3].
  apply andb_true_iff in H. destruct H as [H1 H2].
  repeat split; assumption.
Qed.

Lemma wr_in_accesses : forall st l, In l (wr st) -> In l (accesses st).
Proof. intros. unfold accesses. apply in_or_app. right. assumption. Qed.
Lemma rd_in_accesses : forall st l, In l (rd st) -> In l (accesses st).
Proof. intros. unfold accesses. apply in_or_app. left. assumption. Qed.

Lemma other_step_outside : forall pol u t st, ok_stepb pol u st = true -> u <> t ->
  forall l, In l (wr st) -> ~ view pol t l.
Proof.
  intros pol u t st Hok Hne l Hl Hv. apply ok_step_parts in Hok.
  destruct Hok as (H1 & _ & H3 & _).
  rewrite forallb_forall in H1, H3.
  specialize (H1 l (wr_in_accesses _ _ Hl)). specialize (H3 l Hl).
  unfold view, viewb in Hv. destruct l as [t' x | n].
  - simpl in H1. apply Nat.eqb_eq in H1. apply Nat.eqb_eq in Hv. congruence.
  - rewrite H3 in Hv. discriminate.
Qed.

Lemma own_step : forall pol t st, ok_stepb pol t st = true ->
  (forall l, In l (rd st) -> view pol t l) \/ (forall l, In l (wr st) -> ~ view pol t l).
Proof.
  intros pol t st Hok. apply ok_step_parts in Hok.
  destruct Hok as (H1 & _ & _ & H4).
  rewrite forallb_forall in H1.
  apply orb_true_iff in H4. destruct H4 as [H4 | H4].
  - left. intros l Hl. unfold view, viewb.
    specialize (H1 l (rd_in_accesses _ _ Hl)).
    destruct l as [t' x | n].
    + exact H1.
    + apply negb_true_iff in H4. destruct (tainted pol (Shared n)) eqn:E; [| reflexivity].
      exfalso. assert (X : existsb (tainted pol) (rd st) = true).
      { apply existsb_exists. exists (Shared n). split; assumption. }
      congruence.
  - right. intros l Hl Hv. rewrite forallb_forall in H4. specialize (H4 l Hl).
    unfold view, viewb in Hv. destruct l as [t' x | n].
    + simpl in H4. discriminate.
    + rewrite H4 in Hv. discriminate.
Qed.

Lemma policy_ok_step : forall pol p t st more,
  policy_ok pol p -> nth_error p t = Some (st :: more) ->
  ok_stepb pol t st = true /\ policy_ok pol (set_nth t more p).
Proof.
  intros pol p t st more Hok Hnth. pose proof (Hok t _ Hnth) as H. simpl in H.
  apply andb_true_iff in H. destruct H as [Hst Hmore]. split; [exact Hst |].
  intros t' th Hth. destruct (Nat.eq_dec t t') as [E | E].
  - subst. rewrite (nth_error_set_nth_eq _ _ _ _ _ Hnth) in Hth. inversion Hth; subst. exact Hmore.
  - rewrite nth_error_set_nth_neq in Hth by exact E. apply (Hok t' th Hth).
Qed.

(* ---------------------------------------------------------------- the main induction *)
Lemma interleave_agree : forall pol t p tr,
  interleaving p tr -> policy_ok pol p ->
  forall s s', agree (view pol t) s s' ->
  agree (view pol t) (exec_trace tr s) (exec_thread (nth t p []) s').
Proof.
  intros pol t p tr Hil. induction Hil as [p Hall | p u st more tr Hnth Hil IH]; intros Hok s s' Hag;
    unfold thread, prog in *.
  - rewrite (nth_all_nil p t Hall). simpl. exact Hag.
  - rewrite exec_trace_cons.
    destruct (policy_ok_step _ _ _ _ _ Hok Hnth) as [Hst Hok'].
    destruct (Nat.eq_dec u t) as [E | E].
    + subst u. rewrite (nth_of_nth_error _ _ _ [] _ Hnth). rewrite exec_thread_cons.
      assert (Hm : nth t (set_nth t more p) [] = more).
      { apply nth_of_nth_error. eapply nth_error_set_nth_eq. exact Hnth. }
      specialize (IH Hok' (exec st s) (exec st s')). rewrite Hm in IH. apply IH.
      destruct (own_step _ _ _ Hst) as [Hr | Hw].
      * apply exec_agree_reads; assumption.
      * intros l Hl. rewrite (exec_outside (view pol t) st s Hw l Hl).
        rewrite (exec_outside (view pol t) st s' Hw l Hl). apply Hag. exact Hl.
    + specialize (IH Hok' (exec st s) s').
      rewrite (nth_set_nth_neq _ p u t more [] E) in IH. apply IH.
      intros l Hl.
      rewrite (exec_outside (view pol t) st s (other_step_outside _ _ _ _ Hst E) l Hl).
      apply Hag. exact Hl.
Qed.

(* every interleaving gives each thread the private results it gets when it runs alone *)
Theorem interleave_equiv_alone : forall pol p tr,
  policy_ok pol p -> interleaving p tr ->
  forall s t l, exec_trace tr s (Private t l) = exec_thread (nth t p []) s (Private t l).
Proof.
  intros pol p tr Hok Hil s t l.
  apply (interleave_agree pol t p tr Hil Hok s s).
  - intros x _. reflexivity.
  - unfold view, viewb. apply Nat.eqb_refl.
Qed.

(* ---------------------------------------------------------------- the sequential run is one interleaving *)
Lemma nth_error_app_len : forall A (done : list A) y rest, nth_error (done ++ y :: rest) (List.length done) = Some y.
Proof. induction done as [|a done IH]; intros; simpl; [reflexivity | apply IH]. Qed.

Lemma set_nth_app_len : forall A (done : list A) x y rest,
  set_nth (List.length done) x (done ++ y :: rest) = done ++ x :: rest.
Proof. induction done as [|a done IH]; intros; simpl; [reflexivity | rewrite IH; reflexivity]. Qed.

Lemma seq_one_thread : forall th done rest tr,
  interleaving (done ++ [] :: rest) tr ->
  interleaving (done ++ th :: rest) (map (pair (List.length done)) th ++ tr).
Proof.
  induction th as [|st more IH]; intros done rest tr H; simpl.
  - exact H.
  - eapply il_cons with (more := more).
    + apply nth_error_app_len.
    + rewrite set_nth_app_len. apply IH. exact H.
Qed.

Lemma seq_from_interleaving : forall rest done,
  Forall (fun th : thread => th = []) done ->
  interleaving (done ++ rest) (seq_from (List.length done) rest).
Proof.
  induction rest as [|th rest IH]; intros done Hd; simpl.
  - apply il_nil. rewrite app_nil_r. exact Hd.
  - apply seq_one_thread.
    assert (Hd' : Forall (fun th : thread => th = []) (done ++ [[]])).
    { apply Forall_forall. intros x Hx. apply in_app_or in Hx. destruct Hx as [Hx | Hx].
      - rewrite Forall_forall in Hd. apply Hd. exact Hx.
      - destruct Hx as [Hx | []]. symmetry. exact Hx. }
    pose proof (IH (done ++ [[]]) Hd') as H.
    rewrite <- app_assoc in H. simpl in H. rewrite app_length in H. simpl in H.
    rewrite Nat.add_1_r in H. exact H.
Qed.

Theorem seq_is_interleaving : forall p, interleaving p (seq_trace p).
Proof. intro p. apply (seq_from_interleaving p []). constructor. Qed.

Theorem interleave_equiv : forall pol p tr,
  policy_ok pol p -> interleaving p tr ->
  forall s t l, exec_trace tr s (Private t l) = exec_trace (seq_trace p) s (Private t l).
Proof.
  intros pol p tr Hok Hil s t l.
  rewrite (interleave_equiv_alone pol p tr Hok Hil).
  rewrite (interleave_equiv_alone pol p (seq_trace p) Hok (seq_is_interleaving p)).
  reflexivity.
Qed.

(* ---------------------------------------------------------------- race freedom under the policy *)
Lemma advance_policy_ok : forall pol sched p, policy_ok pol p -> policy_ok pol (advance sched p).
Proof.
  induction sched as [|t rest IH]; intros p Hok; simpl.
  - exact Hok.
  - destruct (nth_error p t) as [[|st more] |] eqn:E; try (apply IH; exact Hok).
    apply IH. apply (policy_ok_step _ _ _ _ _ Hok E).
Qed.

Lemma ok_step_written_locked : forall pol t st n,
  ok_stepb pol t st = true -> In (Shared n) (wr st) -> exists m, pol n = Some (LockedBy m).
Proof.
  intros pol t st n Hok Hin. apply ok_step_parts in Hok. destruct Hok as (_ & _ & H3 & _).
  rewrite forallb_forall in H3. specialize (H3 _ Hin). simpl in H3.
  destruct (pol n) as [[| m] |]; try discriminate. exists m. reflexivity.
Qed.

Lemma ok_step_holds_lock : forall pol t st n m,
  ok_stepb pol t st = true -> In (Shared n) (accesses st) -> pol n = Some (LockedBy m) -> lk st = Some m.
Proof.
  intros pol t st n m Hok Hin Hp. apply ok_step_parts in Hok. destruct Hok as (_ & H2 & _ & _).
  rewrite forallb_forall in H2. specialize (H2 _ Hin). simpl in H2. rewrite Hp in H2.
  destruct (lk st) as [x |]; simpl in H2; try discriminate.
  apply String.eqb_eq in H2. subst. reflexivity.
Qed.

Theorem policy_race_free : forall pol p, policy_ok pol p -> forall sched n, ~ race_after p sched n.
Proof.
  intros pol p Hok sched n (t1 & t2 & a & b & r1 & r2 & Hne & H1 & H2 & Hc & Hnl).
  apply Hnl. pose proof (advance_policy_ok pol sched p Hok) as Hq.
  pose proof (Hq t1 _ H1) as Ha. pose proof (Hq t2 _ H2) as Hb. simpl in Ha, Hb.
  apply andb_true_iff in Ha. destruct Ha as [Ha _].
  apply andb_true_iff in Hb. destruct Hb as [Hb _].
  destruct Hc as [[Hw Hacc] | [Hw Hacc]].
  - destruct (ok_step_written_locked _ _ _ _ Ha Hw) as [m Hm]. exists m. split.
    + exact (ok_step_holds_lock _ _ _ _ _ Ha (wr_in_accesses _ _ Hw) Hm).
    + exact (ok_step_holds_lock _ _ _ _ _ Hb Hacc Hm).
  - destruct (ok_step_written_locked _ _ _ _ Hb Hw) as [m Hm]. exists m. split.
    + exact (ok_step_holds_lock _ _ _ _ _ Ha Hacc Hm).
    + exact (ok_step_holds_lock _ _ _ _ _ Hb (wr_in_accesses _ _ Hw) Hm).
Qed.

(* ---------------------------------------------------------------- boolean checkers are sound *)
Lemma ok_from_ok : forall pol p i, ok_from pol i p = true ->
  forall t th, nth_error p t = Some th -> forallb (ok_stepb pol (i + t)) th = true.
Proof.
  induction p as [|a p IH]; intros i H t th Hth.
  - destruct t; discriminate.
  - simpl in H. apply andb_true_iff in H. destruct H as [Ha Hp]. destruct t; simpl in Hth.
    + inversion Hth; subst. rewrite Nat.add_0_r. exact Ha.
    + replace (i + S t) with (S i + t) by lia. apply (IH (S i) Hp t th Hth).
Qed.

Lemma policy_okb_ok : forall pol p, policy_okb pol p = true -> policy_ok pol p.
Proof. intros pol p H t th Hth. apply (ok_from_ok pol p 0 H t th Hth). Qed.

Lemma head_of_some : forall p t a, head_of p t = Some a -> exists r, nth_error p t = Some (a :: r).
Proof.
  intros p t a H. unfold head_of in H. destruct (nth_error p t) as [[|x r] |]; try discriminate.
  inversion H; subst. exists r. reflexivity.
Qed.

Lemma conflict_onb_sound : forall n a b, conflict_onb n a b = true -> conflict_on n a b.
Proof.
  intros n a b H. unfold conflict_onb in H. apply orb_true_iff in H.
  destruct H as [H | H]; apply andb_true_iff in H; destruct H as [H1 H2];
    apply mem_loc_In in H1; apply mem_loc_In in H2; [left | right]; split; assumption.
Qed.

Lemma common_lockb_complete : forall a b, common_lock a b -> common_lockb a b = true.
Proof.
  intros a b [L [Ha Hb]]. unfold common_lockb. rewrite Ha, Hb. apply String.eqb_refl.
Qed.

Lemma race_witnessb_sound : forall p s0 sched n, race_witnessb p s0 sched n = true -> race_witness p s0 sched n.
Proof.
  intros p s0 sched n H. unfold race_witnessb in H.
  destruct (trace_of sched p) as [tr |] eqn:Etr; [| discriminate].
  apply andb_true_iff in H. destruct H as [Hg H].
  apply existsb_exists in H. destruct H as [t1 [_ H]].
  apply existsb_exists in H. destruct H as [t2 [_ H]].
  apply andb_true_iff in H. destruct H as [Hne H].
  destruct (head_of (advance sched p) t1) as [a |] eqn:E1; [| discriminate].
  destruct (head_of (advance sched p) t2) as [b |] eqn:E2; [| discriminate].
  apply andb_true_iff in H. destruct H as [H Hgb].
  apply andb_true_iff in H. destruct H as [H Hga].
  apply andb_true_iff in H. destruct H as [Hc Hl].
  destruct (head_of_some _ _ _ E1) as [r1 N1]. destruct (head_of_some _ _ _ E2) as [r2 N2].
  exists tr, t1, t2, a, b, r1, r2. repeat split; try assumption.
  - intro E. subst. rewrite Nat.eqb_refl in Hne. discriminate.
  - apply conflict_onb_sound. exact Hc.
  - intro Hcl. apply common_lockb_complete in Hcl. rewrite Hcl in Hl. discriminate.
Qed.

Lemma race_witness_race_after : forall p s0 sched n, race_witness p s0 sched n -> race_after p sched n.
Proof.
  intros p s0 sched n (tr & t1 & t2 & a & b & r1 & r2 & _ & _ & Hne & H1 & H2 & Hc & Hl & _ & _).
  exists t1, t2, a, b, r1, r2. repeat split; assumption.
Qed.

Lemma trace_of_interleaving : forall sched p tr,
  trace_of sched p = Some tr -> all_done (advance sched p) = true -> interleaving p tr.
Proof.
  induction sched as [|t rest IH]; intros p tr Htr Hdone; simpl in *.
  - inversion Htr; subst. apply il_nil. apply Forall_forall. intros th Hth.
    unfold all_done in Hdone. rewrite forallb_forall in Hdone. specialize (Hdone th Hth).
    destruct th; [reflexivity | discriminate].
  - destruct (nth_error p t) as [[|st more] |] eqn:E; try discriminate.
    destruct (trace_of rest (set_nth t more p)) as [tr' |] eqn:E'; [| discriminate].
    inversion Htr; subst. eapply il_cons; [exact E |]. apply IH; assumption.
Qed.

(* ---------------------------------------------------------------- the statics table *)
Theorem statics_ok_characterised : forall tbl, statics_ok tbl = true <-> unsynchronised_in tbl = [].
Proof.
  unfold statics_ok, unsynchronised_in. induction tbl as [|e tbl IH]; simpl.
  - split; reflexivity.
  - destruct (synchronised e); simpl.
    + exact IH.
    + split; intro H; discriminate.
Qed.

Lemma find_entry_in : forall tbl n e, find_entry tbl n = Some e -> In e tbl /\ ce_name e = n.
Proof.
  induction tbl as [|x tbl IH]; intros n e H; simpl in H.
  - discriminate.
  - destruct (String.eqb (ce_name x) n) eqn:E.
    + inversion H; subst. split; [left; reflexivity | apply String.eqb_eq; exact E].
    + destruct (IH n e H) as [Hin Hn]. split; [right; exact Hin | exact Hn].
Qed.

(* with statics_ok, the only shared objects a policy-abiding program may not touch are the
   documented exceptions; every other writable static has an access policy *)
Theorem statics_ok_policy_total : forall tbl n,
  statics_ok tbl = true -> policy_of_table tbl n = None ->
  exists e, In e tbl /\ ce_name e = n /\ ce_class e = Some ThreadUnsafeDocumented.
Proof.
  intros tbl n Hok Hp. unfold policy_of_table in Hp.
  destruct (find_entry tbl n) as [e |] eqn:E; [| discriminate].
  destruct (find_entry_in _ _ _ E) as [Hin Hn]. exists e. split; [exact Hin | split; [exact Hn |]].
  unfold statics_ok in Hok. rewrite forallb_forall in Hok. specialize (Hok e Hin).
  unfold synchronised in Hok.
  destruct (ce_class e) as [[m | | |] |]; try discriminate; try reflexivity.
Qed.

Theorem table_equiv : forall tbl p,
  statics_ok tbl = true -> policy_ok (policy_of_table tbl) p ->
  (forall tr, interleaving p tr ->
     forall s t l, exec_trace tr s (Private t l) = exec_trace (seq_trace p) s (Private t l)) /\
  (forall sched n, ~ race_after p sched n).
Proof.
  intros tbl p _ Hok. split.
  - intros tr Hil. apply (interleave_equiv _ p tr Hok Hil).
  - apply (policy_race_free _ p Hok).
Qed.

(* an unsynchronised or unclassified static cannot be touched by any policy-abiding program *)
Theorem unsynchronised_not_allowed : forall tbl e t st,
  find_entry tbl (ce_name e) = Some e -> synchronised e = false ->
  In (Shared (ce_name e)) (accesses st) -> ok_stepb (policy_of_table tbl) t st = false.
Proof.
  intros tbl e t st Hf Hs Hin. destruct (ok_stepb (policy_of_table tbl) t st) eqn:E; [| reflexivity].
  exfalso. apply ok_step_parts in E. destruct E as (_ & H2 & _ & _).
  rewrite forallb_forall in H2. specialize (H2 _ Hin). simpl in H2.
  unfold policy_of_table in H2. rewrite Hf in H2. unfold synchronised in Hs.
  destruct (ce_class e) as [[m | | |] |]; discriminate.
Qed.

(* ---------------------------------------------------------------- racing schedules of the site models *)
Ltac witness sched := exists sched; apply race_witnessb_sound; vm_compute; reflexivity.

Lemma race_default_inode : exists sched, race_witness prog_tar zero_store sched S_default_inode.
Proof. witness [0; 0; 1]%nat. Qed.     (* both threads between load and store of ++default_inode *)

Lemma race_default_dev : exists sched, race_witness prog_tar_wrap
  (fun l => match l with Shared n => if String.eqb n S_default_inode then 65534%Z else 0%Z | _ => 0%Z end)
  sched S_default_dev.
Proof. witness [0; 0; 0]%nat. Qed.     (* thread 0 about to ++default_dev, thread 1 about to read it *)

Lemma race_decode_table : exists sched, race_witness prog_base64 zero_store sched S_decode_B.
Proof. witness [0; 1; 0]%nat. Qed.     (* thread 0 fills while thread 1 memsets *)

Lemma race_crc16init : exists sched, race_witness prog_lha zero_store sched S_crc16init.
Proof. witness [0]%nat. Qed.           (* thread 0 about to set the guard, thread 1 about to read it *)

Lemma race_crc16tbl : exists sched, race_witness prog_lha zero_store sched S_crc16tbl.
Proof. witness [0; 0; 1; 1]%nat. Qed.  (* thread 0 about to fill, thread 1 (guard already 1) about to read *)

Lemma race_debug_index : exists sched, race_witness prog_compress zero_store sched S_debug_index.
Proof. witness [0]%nat. Qed.

Lemma race_lst : exists sched, race_witness prog_disk disk_store sched S_lst.
Proof. witness [0]%nat. Qed.

Lemma race_can_dupfd_cloexec : exists sched, race_witness prog_dup dup_store sched S_can_dupfd.
Proof. witness [0]%nat. Qed.

Lemma race_dos_initialised : exists sched, race_witness prog_dos zero_store sched S_dos_init.
Proof. witness [0; 0; 0]%nat. Qed.

Lemma race_dos_max_unix : exists sched, race_witness prog_dos zero_store sched S_dos_max.
Proof. witness [0; 1]%nat. Qed.

Lemma race_dos_min_unix : exists sched, race_witness prog_dos zero_store sched S_dos_min.
Proof. witness [0; 0; 1; 1]%nat. Qed.

Lemma race_str : exists sched, race_witness prog_version zero_store sched S_str.
Proof. witness [0]%nat. Qed.

Lemma race_mbstate : exists sched, race_witness prog_mbstate mbstate_store sched S_mbstate.
Proof. witness [0]%nat. Qed.           (* both handles about to call mbrtowc(..., NULL) *)

Lemma witnessed_all : Forall (fun n => exists p s0 sched, race_witness p s0 sched n) witnessed.
Proof.
  unfold witnessed. repeat constructor.
  - destruct race_default_inode as [x H]. eauto.
  - destruct race_default_dev as [x H]. eauto.
  - destruct race_decode_table as [x H]. eauto.
  - destruct race_crc16init as [x H]. eauto.
  - destruct race_crc16tbl as [x H]. eauto.
  - destruct race_debug_index as [x H]. eauto.
  - destruct race_lst as [x H]. eauto.
  - destruct race_can_dupfd_cloexec as [x H]. eauto.
  - destruct race_dos_initialised as [x H]. eauto.
  - destruct race_dos_max_unix as [x H]. eauto.
  - destruct race_dos_min_unix as [x H]. eauto.
  - destruct race_str as [x H]. eauto.
  - destruct race_mbstate as [x H]. eauto.
Qed.

(* for ANY table: an entry that is not synchronised and whose site is modelled here makes the
   obligation fail and has a racing schedule *)
Theorem table_with_witnessed_static_races : forall tbl e,
  In e tbl -> synchronised e = false -> has_witness e = true ->
  statics_ok tbl = false /\ exists p s0 sched, race_witness p s0 sched (ce_name e).
Proof.
  intros tbl e Hin Hs Hw. split.
  - destruct (statics_ok tbl) eqn:E; [| reflexivity].
    unfold statics_ok in E. rewrite forallb_forall in E. rewrite (E e Hin) in Hs. discriminate.
  - unfold has_witness in Hw. apply existsb_exists in Hw. destruct Hw as [n [Hn Heq]].
    apply String.eqb_eq in Heq. rewrite Heq.
    pose proof witnessed_all as W. rewrite Forall_forall in W. apply W. exact Hn.
Qed.

(* ---------------------------------------------------------------- observable differences *)
(* an interleaving (all branch conditions of the paths true in it AND in the sequential run) after
   which a thread's private result differs from the sequential run *)
Definition differs (p : prog) (s0 : store) (l : loc) : Prop :=
  exists tr, interleaving p tr /\ guards_ok tr s0 = true /\ guards_ok (seq_trace p) s0 = true /\
             exec_trace tr s0 l <> exec_trace (seq_trace p) s0 l.

Definition trace_by (sched : list nat) (p : prog) : trace :=
  match trace_of sched p with Some t => t | None => [] end.
Definition is_some {A} (o : option A) : bool := match o with Some _ => true | None => false end.
Lemma trace_by_ok : forall sched p, is_some (trace_of sched p) = true -> trace_of sched p = Some (trace_by sched p).
Proof. intros sched p H. unfold trace_by. destruct (trace_of sched p); [reflexivity | discriminate]. Qed.

(* the trace is never expanded in the proof term: only closed boolean / integer facts are computed *)
Ltac differ sched :=
  match goal with |- differs ?p ?s0 ?l =>
    exists (trace_by sched p); split;
    [ apply (trace_of_interleaving sched); [apply trace_by_ok; vm_compute; reflexivity | vm_compute; reflexivity]
    | split; [vm_compute; reflexivity | split; [vm_compute; reflexivity | vm_compute; discriminate]] ]
  end.

(* header-granular interleaving of two handles: thread 0 gets inodes 1 and 3 instead of 1 and 2 *)
Definition sched_tar : list nat := [0;0;0;0; 1;1;1;1; 0;0;0;0;0; 1;1;1;1;1]%nat.
Lemma default_inode_ino_differs : differs prog_tar zero_store (Private 0 "ino2").
Proof. differ sched_tar. Qed.
Lemma default_inode_delta_differs : differs prog_tar zero_store (Private 0 "delta").
Proof. differ sched_tar. Qed.
(* torn increment: both handles' first entries get the same inode number *)
Definition sched_tar_torn : list nat := [0;0; 1;1; 0;0; 1;1; 0;0;0;0;0; 1;1;1;1;1]%nat.
Lemma default_inode_duplicate : exists tr, interleaving prog_tar tr /\ guards_ok tr zero_store = true /\
  exec_trace tr zero_store (Private 0 "ino1") = exec_trace tr zero_store (Private 1 "ino1").
Proof.
  exists (trace_by sched_tar_torn prog_tar). split.
  - apply (trace_of_interleaving sched_tar_torn); [apply trace_by_ok; vm_compute; reflexivity | vm_compute; reflexivity].
  - split; vm_compute; reflexivity.
Qed.

(* the second LHA reader sees crc16init = 1 while the table is still zero *)
Lemma crc16_result_differs : differs prog_lha zero_store (Private 1 "crc").
Proof. differ [0;0;1;1;1;0;0]%nat. Qed.

(* a disk reader compares through the OTHER handle's stat pointer *)
Lemma lst_pointer_differs : differs prog_disk disk_store (Private 0 "lst_used").
Proof. differ [0;1;0;1]%nat. Qed.

(* the ASCII name of handle 0 fails to convert (-1) when handle 1's incomplete character is decoded between
   its two characters; alone, or one handle after the other, it converts to 'c' = 99 *)
Lemma mbstate_result_differs : differs prog_mbstate mbstate_store (Private 0 "out2").
Proof. differ [0;1;0]%nat. Qed.

(* ---------------------------------------------------------------- non-vacuity *)
Lemma good_policy_ok : policy_okb (policy_of_table good_table) prog_good = true.
Proof. vm_compute. reflexivity. Qed.

Definition sched_good : list nat := [2;0;1;1;0;2;2;1;0;0;1;2]%nat.
Definition trace_good : trace :=
  match trace_of sched_good prog_good with Some t => t | None => [] end.
Lemma good_example :
  statics_ok good_table = true /\
  policy_ok (policy_of_table good_table) prog_good /\
  trace_of sched_good prog_good = Some trace_good /\ interleaving prog_good trace_good /\
  map fst trace_good <> map fst (seq_trace prog_good) /\
  map (fun t => exec_trace trace_good good_store (Private t "out")) [0;1;2]%nat = [38; 40; 42]%Z /\
  map (fun t => exec_trace (seq_trace prog_good) good_store (Private t "out")) [0;1;2]%nat = [38; 40; 42]%Z /\
  (* the lock-protected counter is written by all three threads; nothing private depends on it *)
  exec_trace trace_good good_store (Shared S_counter) = 106%Z.
Proof.
  assert (E : trace_of sched_good prog_good = Some trace_good) by (vm_compute; reflexivity).
  split; [vm_compute; reflexivity |]. split; [apply policy_okb_ok; exact good_policy_ok |].
  split; [exact E |].
  split; [apply (trace_of_interleaving sched_good); [exact E | vm_compute; reflexivity] |].
  split; [intro H; vm_compute in H; discriminate |].
  repeat split; vm_compute; reflexivity.
Qed.
