(* C07 - lemmas about the model of State/MagicDefs.v. *)
From Coq Require Import List ZArith NArith Bool String Lia.
From LA Require Import Gen.Defines State.MagicDefs.
Import ListNotations.
Local Open Scope Z_scope.

(* ------------------------------------------------------------------ __archive_check_magic *)
Lemma check_magic_illegal : forall hm st magic mask,
  is_handle_magic hm = true -> hm = magic -> N.land st mask = 0%N ->
  check_magic hm st magic mask = Ret ARCHIVE_FATAL ARCHIVE_STATE_FATAL.
Proof.
  intros hm st magic mask Hh He Hl. unfold check_magic. rewrite Hh. subst magic.
  rewrite N.eqb_refl. rewrite Hl. reflexivity.
Qed.

Lemma check_magic_foreign : forall hm st magic mask,
  is_handle_magic hm = true -> hm <> magic ->
  check_magic hm st magic mask = Ret ARCHIVE_FATAL ARCHIVE_STATE_FATAL.
Proof.
  intros hm st magic mask Hh Hn. unfold check_magic. rewrite Hh.
  apply N.eqb_neq in Hn. rewrite Hn. reflexivity.
Qed.

Lemma check_magic_not_a_handle : forall hm st magic mask,
  is_handle_magic hm = false -> check_magic hm st magic mask = Abort.
Proof. intros. unfold check_magic. rewrite H. reflexivity. Qed.

Lemma check_magic_legal : forall hm st magic mask,
  is_handle_magic hm = true -> hm = magic -> N.land st mask <> 0%N ->
  check_magic hm st magic mask = Ret ARCHIVE_OK st.
Proof.
  intros hm st magic mask Hh He Hl. unfold check_magic. rewrite Hh. subst magic.
  rewrite N.eqb_refl. apply N.eqb_neq in Hl. rewrite Hl. reflexivity.
Qed.

(* abort() is reachable only with something that is not a live handle *)
Lemma check_magic_abort_iff : forall hm st magic mask,
  check_magic hm st magic mask = Abort <-> is_handle_magic hm = false.
Proof.
  intros. unfold check_magic. destruct (is_handle_magic hm); simpl.
  - split; [|discriminate]. destruct (negb (hm =? magic)%N); [discriminate|].
    destruct (N.land st mask =? 0)%N; discriminate.
  - split; reflexivity.
Qed.

(* ------------------------------------------------------------------ the table *)
Lemma site_mask_In : forall t f m mask, site_mask t f m = Some mask -> In (f, m, mask) t.
Proof.
  induction t as [|[[g m'] mask'] r IH]; intros f m mask H; simpl in H; [discriminate|].
  destruct (String.eqb f g && (m' =? m)%N) eqn:E.
  - apply andb_true_iff in E. destruct E as [E1 E2]. apply String.eqb_eq in E1. apply N.eqb_eq in E2.
    inversion H. subst. left. reflexivity.
  - right. apply IH. exact H.
Qed.

Lemma mem_str_In : forall f l, mem_str f l = true <-> In f l.
Proof.
  intros f l. unfold mem_str. rewrite existsb_exists. split.
  - intros [x [Hx He]]. apply String.eqb_eq in He. subst. exact Hx.
  - intros H. exists f. split; [exact H|apply String.eqb_refl].
Qed.

Lemma well_formed_spec : forall t allow, well_formed t allow = true ->
  forall f m mask, In (f, m, mask) t -> has_bit mask ARCHIVE_STATE_FATAL = true -> In f allow.
Proof.
  intros t allow H f m mask Hin Hb. unfold well_formed in H. rewrite forallb_forall in H.
  specialize (H _ Hin). simpl in H. rewrite Hb in H. simpl in H. apply mem_str_In. exact H.
Qed.

(* ------------------------------------------------------------------ handles *)
Lemma set_state_same : forall h, set_state h (hstate h) = h.
Proof. destruct h; reflexivity. Qed.

Lemma hstate_set_state : forall h s, hstate (set_state h s) = s.
Proof. reflexivity. Qed.
Lemma hmagic_set_state : forall h s, hmagic (set_state h s) = hmagic h.
Proof. reflexivity. Qed.

(* ------------------------------------------------------------------ the macro *)
Lemma fatal_eqb_fatal : (ARCHIVE_FATAL =? ARCHIVE_FATAL) = true.
Proof. reflexivity. Qed.
Lemma ok_eqb_fatal : (ARCHIVE_OK =? ARCHIVE_FATAL) = false.
Proof. reflexivity. Qed.

Lemma with_check_ret : forall t f m h body st h',
  with_check t f m h body = RRet st h' ->
  (st = ARCHIVE_FATAL /\ h' = set_state h ARCHIVE_STATE_FATAL) \/
  (hmagic h = m /\ (exists mask, site_mask t f m = Some mask /\ N.land (hstate h) mask <> 0%N) /\
   body h = RRet st h').
Proof.
  intros t f m h body st h' H. unfold with_check in H.
  destruct (site_mask t f m) as [mask|] eqn:Em; [|discriminate].
  unfold check_magic in H.
  destruct (is_handle_magic (hmagic h)); simpl in H; [|discriminate].
  destruct (hmagic h =? m)%N eqn:E1; simpl in H.
  - destruct (N.land (hstate h) mask =? 0)%N eqn:E2.
    + try rewrite fatal_eqb_fatal in H. inversion H. left. split; reflexivity.
    + try rewrite ok_eqb_fatal in H. right. apply N.eqb_eq in E1. apply N.eqb_neq in E2.
      split; [exact E1|]. split; [exists mask; split; [reflexivity|exact E2]|exact H].
  - try rewrite fatal_eqb_fatal in H. inversion H. left. split; reflexivity.
Qed.

Lemma with_check_illegal : forall t f m h body mask,
  site_mask t f m = Some mask -> is_handle_magic (hmagic h) = true -> hmagic h = m ->
  N.land (hstate h) mask = 0%N ->
  with_check t f m h body = RRet ARCHIVE_FATAL (set_state h ARCHIVE_STATE_FATAL).
Proof.
  intros. unfold with_check. rewrite H.
  rewrite (check_magic_illegal _ _ _ _ H0 H1 H2). rewrite fatal_eqb_fatal. reflexivity.
Qed.

Lemma with_check_legal : forall t f m h body mask,
  site_mask t f m = Some mask -> is_handle_magic (hmagic h) = true -> hmagic h = m ->
  N.land (hstate h) mask <> 0%N ->
  with_check t f m h body = body h.
Proof.
  intros. unfold with_check. rewrite H.
  rewrite (check_magic_legal _ _ _ _ H0 H1 H2). rewrite ok_eqb_fatal. reflexivity.
Qed.

(* every operation with an entry site is "the macro, then something" *)
Lemma step_is_with_check : forall t h o f m,
  entry_site o = Some (f, m) -> exists body, step t h o = with_check t f m h body.
Proof.
  intros t h o f m H.
  destruct o; simpl in H; inversion H; subst; eexists; reflexivity.
Qed.

(* (a) a call that is illegal in the current state returns FATAL and leaves the handle failed *)
Theorem step_illegal_is_fatal : forall t h o f m mask,
  entry_site o = Some (f, m) -> hmagic h = m -> is_handle_magic m = true ->
  site_mask t f m = Some mask -> N.land (hstate h) mask = 0%N ->
  step t h o = RRet ARCHIVE_FATAL (set_state h ARCHIVE_STATE_FATAL).
Proof.
  intros t h o f m mask He Hm Hh Hs Hl.
  destruct (step_is_with_check t h o f m He) as [body Hb]. rewrite Hb.
  apply with_check_illegal with (mask := mask); try assumption. rewrite Hm. exact Hh.
Qed.

Lemma has_bit_false : forall s b, has_bit s b = false -> N.land s b = 0%N.
Proof. intros s b H. unfold has_bit in H. apply negb_false_iff in H. apply N.eqb_eq in H. exact H. Qed.
Lemma has_bit_true : forall s b, has_bit s b = true -> N.land s b <> 0%N.
Proof. intros s b H. unfold has_bit in H. apply negb_true_iff in H. apply N.eqb_neq in H. exact H. Qed.

(* (b) on a failed handle every entry point that is not on the allow list returns FATAL and the
   handle stays as it is (failed) *)
Theorem fatal_absorbing : forall t allow, well_formed t allow = true ->
  forall h o f m mask, entry_site o = Some (f, m) -> hmagic h = m -> is_handle_magic m = true ->
  site_mask t f m = Some mask -> hstate h = ARCHIVE_STATE_FATAL -> ~ In f allow ->
  step t h o = RRet ARCHIVE_FATAL h.
Proof.
  intros t allow Hwf h o f m mask He Hm Hh Hs Hst Hn.
  assert (Hl : N.land (hstate h) mask = 0%N).
  { rewrite Hst. rewrite N.land_comm. apply has_bit_false.
    destruct (has_bit mask ARCHIVE_STATE_FATAL) eqn:Eb; [|reflexivity].
    exfalso. apply Hn. apply (well_formed_spec t allow Hwf f m mask); [apply site_mask_In; exact Hs|exact Eb]. }
  rewrite (step_illegal_is_fatal t h o f m mask He Hm Hh Hs Hl).
  rewrite <- Hst. rewrite set_state_same. reflexivity.
Qed.

(* the same along a whole program: as long as only non-allow-listed entry points are called, every
   call returns FATAL and the handle does not change *)
Definition not_allowed (t : list site) (allow : list string) (m : N) (o : op) : Prop :=
  exists f mask, entry_site o = Some (f, m) /\ site_mask t f m = Some mask /\ ~ In f allow.

Theorem fatal_absorbing_run : forall t allow, well_formed t allow = true ->
  forall ops h, is_handle_magic (hmagic h) = true -> hstate h = ARCHIVE_STATE_FATAL ->
  Forall (not_allowed t allow (hmagic h)) ops ->
  run_ops t h ops = map (fun o => (o, ARCHIVE_FATAL, h)) ops.
Proof.
  intros t allow Hwf ops. induction ops as [|o r IH]; intros h Hh Hst Hall; [reflexivity|].
  inversion Hall as [|? ? Ho Hr]; subst. destruct Ho as [f [mask [He [Hs Hn]]]].
  simpl. rewrite (fatal_absorbing t allow Hwf h o f (hmagic h) mask He eq_refl Hh Hs Hst Hn).
  rewrite (IH h Hh Hst Hr). reflexivity.
Qed.

(* ------------------------------------------------------------------ (c) the reader never yields an
   entry again after end-of-archive or failure *)
Definition sticky (s : N) : Prop :=
  s = ARCHIVE_STATE_EOF \/ s = ARCHIVE_STATE_CLOSED \/ s = ARCHIVE_STATE_FATAL.
(* a reader handle (or what is left of it after free) whose state is EOF, CLOSED or FATAL *)
Definition inv (h : handle) : Prop := (hmagic h = RM \/ hmagic h = 0%N) /\ sticky (hstate h).

Lemma sticky_refused : forall s mask, sticky s -> N.land mask STICKY = 0%N -> N.land s mask = 0%N.
Proof.
  intros s mask Hs H. unfold STICKY in H. rewrite !N.land_lor_distr_r in H.
  apply N.lor_eq_0_iff in H. destruct H as [H1 H2]. apply N.lor_eq_0_iff in H2. destruct H2 as [H2 H3].
  rewrite N.land_comm. destruct Hs as [Hs|[Hs|Hs]]; subst s; assumption.
Qed.

Lemma refuses_sticky_spec : forall t f mask s, refuses_sticky t f = true -> site_mask t f RM = Some mask ->
  sticky s -> N.land s mask = 0%N.
Proof.
  intros t f mask s H Hs Hst. unfold refuses_sticky in H. rewrite Hs in H. apply N.eqb_eq in H.
  apply sticky_refused; assumption.
Qed.

Lemma inv_ext : forall h h', hmagic h' = hmagic h -> hstate h' = hstate h -> inv h -> inv h'.
Proof. intros h h' Hm Hs [H1 H2]. split; [rewrite Hm|rewrite Hs]; assumption. Qed.

Lemma inv_fatal : forall h, inv h -> inv (set_state h ARCHIVE_STATE_FATAL).
Proof. intros h [H1 H2]. split; [exact H1|]. right. right. reflexivity. Qed.

Lemma inv_kill : forall h, inv h -> inv (kill h).
Proof. intros h [H1 H2]. split; [right; reflexivity|exact H2]. Qed.

Lemma magic_ne_WM : WM <> RM /\ WM <> 0%N. Proof. split; intro H; vm_compute in H; discriminate. Qed.
Lemma magic_ne_RDM : RDM <> RM /\ RDM <> 0%N. Proof. split; intro H; vm_compute in H; discriminate. Qed.
Lemma magic_ne_WDM : WDM <> RM /\ WDM <> 0%N. Proof. split; intro H; vm_compute in H; discriminate. Qed.
Lemma magic_ne_MM : ARCHIVE_MATCH_MAGIC <> RM /\ ARCHIVE_MATCH_MAGIC <> 0%N.
Proof. split; intro H; vm_compute in H; discriminate. Qed.

(* a check for another handle kind cannot pass on a reader handle *)
Lemma other_kind : forall h m, inv h -> hmagic h = m -> m <> RM -> m <> 0%N -> False.
Proof. intros h m [[H|H] _] Hm H1 H2; congruence. Qed.

Lemma wc_other_inv : forall t f m h body st h', inv h -> m <> RM -> m <> 0%N ->
  with_check t f m h body = RRet st h' -> st = ARCHIVE_FATAL /\ inv h'.
Proof.
  intros t f m h body st h' Hi H1 H2 H. apply with_check_ret in H.
  destruct H as [[Hs Hh]|[Hm _]].
  - subst. split; [reflexivity|apply inv_fatal; exact Hi].
  - exfalso. eapply other_kind; eauto.
Qed.

Lemma query_inv : forall t f m h r st h', inv h -> op_query t f m h r = RRet st h' -> inv h'.
Proof.
  intros t f m h r st h' Hi H. unfold op_query in H. apply with_check_ret in H.
  destruct H as [[Hs Hh]|[_ [_ Hb]]].
  - subst. apply inv_fatal; exact Hi.
  - inversion Hb. subst. exact Hi.
Qed.

Lemma set_read_cb_inv : forall t h st h', inv h -> rd_set_read_cb t h = RRet st h' -> inv h'.
Proof.
  intros t h st h' Hi H. unfold rd_set_read_cb in H. apply with_check_ret in H.
  destruct H as [[Hs Hh]|[_ [_ Hb]]].
  - subst. apply inv_fatal; exact Hi.
  - inversion Hb. subst. eapply inv_ext; [| |exact Hi]; reflexivity.
Qed.

Lemma reader_ok_open1 : forall t, reader_sites_ok t = true -> refuses_sticky t "archive_read_open1" = true.
Proof. intros t H. unfold reader_sites_ok in H. apply andb_true_iff in H. destruct H as [H _].
  apply andb_true_iff in H. destruct H as [H _]. exact H. Qed.
Lemma reader_ok_next : forall t, reader_sites_ok t = true -> refuses_sticky t "_archive_read_next_header2" = true.
Proof. intros t H. unfold reader_sites_ok in H. apply andb_true_iff in H. destruct H as [H _].
  apply andb_true_iff in H. destruct H as [_ H]. exact H. Qed.
Lemma reader_ok_skip : forall t, reader_sites_ok t = true -> refuses_sticky t "archive_read_data_skip" = true.
Proof. intros t H. unfold reader_sites_ok in H. apply andb_true_iff in H. destruct H as [_ H]. exact H. Qed.

(* an entry point that refuses EOF/CLOSED/FATAL can only answer FATAL on such a handle *)
Lemma wc_refused : forall t f h body st h', refuses_sticky t f = true -> inv h ->
  with_check t f RM h body = RRet st h' -> st = ARCHIVE_FATAL /\ inv h'.
Proof.
  intros t f h body st h' Hr Hi H. apply with_check_ret in H.
  destruct H as [[Hs Hh]|[_ [[mask [Hs Hl]] _]]].
  - subst. split; [reflexivity|apply inv_fatal; exact Hi].
  - exfalso. apply Hl. eapply refuses_sticky_spec; eauto. destruct Hi as [_ Hi]. exact Hi.
Qed.

Lemma open1_inv : forall t h a b c st h', reader_sites_ok t = true -> inv h ->
  rd_open1 t h a b c = RRet st h' -> inv h'.
Proof. intros. unfold rd_open1 in H1. eapply wc_refused in H1; [tauto|apply reader_ok_open1; assumption|assumption]. Qed.

Lemma data_skip_inv : forall t h r st h', reader_sites_ok t = true -> inv h ->
  rd_data_skip t h r = RRet st h' -> st = ARCHIVE_FATAL /\ inv h'.
Proof. intros. unfold rd_data_skip in H1. eapply wc_refused in H1; [eassumption|apply reader_ok_skip; assumption|assumption]. Qed.

Lemma next_header_inv : forall t h r1 r2 st h', reader_sites_ok t = true -> inv h ->
  rd_next_header t h r1 r2 = RRet st h' -> st = ARCHIVE_FATAL /\ inv h'.
Proof. intros. unfold rd_next_header in H1. eapply wc_refused in H1; [eassumption|apply reader_ok_next; assumption|assumption]. Qed.

Lemma ignore_status_inv : forall (P : handle -> Prop) r k st h',
  (forall s h1, r = RRet s h1 -> P h1) -> (forall h1 s h2, P h1 -> k h1 = RRet s h2 -> P h2) ->
  ignore_status r k = RRet st h' -> P h'.
Proof.
  intros P r k st h' H1 H2 H. unfold ignore_status in H. destruct r as [| |s h1]; try discriminate.
  eapply H2; [eapply H1; reflexivity|exact H].
Qed.

Lemma open_memory_inv : forall t h a b c st h', reader_sites_ok t = true -> inv h ->
  rd_open_memory t h a b c = RRet st h' -> inv h'.
Proof.
  intros t h a b c st h' Ht Hi H. unfold rd_open_memory in H.
  repeat (match type of H with
    | ignore_status (op_query _ _ _ ?h0 _) _ = _ =>
        let s := fresh "s" in let h1 := fresh "h" in let E := fresh "E" in
        destruct (op_query t _ RM h0 ARCHIVE_OK) as [| |s h1] eqn:E; simpl in H; try discriminate;
        apply query_inv in E; [|assumption]
    | ignore_status (rd_set_read_cb _ ?h0) _ = _ =>
        let s := fresh "s" in let h1 := fresh "h" in let E := fresh "E" in
        destruct (rd_set_read_cb t h0) as [| |s h1] eqn:E; simpl in H; try discriminate;
        apply set_read_cb_inv in E; [|assumption]
    end).
  unfold bind in H.
  match type of H with
  | match op_query t ?f RM ?h0 ARCHIVE_OK with _ => _ end = _ =>
      destruct (op_query t f RM h0 ARCHIVE_OK) as [| |s6 h6] eqn:E6; try discriminate;
      apply query_inv in E6; [|assumption]
  end.
  destruct (negb (s6 =? ARCHIVE_OK)); [inversion H; subst; exact E6|eapply open1_inv; eauto].
Qed.

Lemma pair_inv : forall t f1 f2 m h st h', inv h -> op_pair t f1 f2 m h = RRet st h' -> inv h'.
Proof.
  intros t f1 f2 m h st h' Hi H. unfold op_pair, bind in H.
  destruct (op_query t f1 m h ARCHIVE_OK) as [| |s1 h1] eqn:E1; try discriminate.
  apply query_inv in E1; [|assumption].
  destruct (negb (s1 =? ARCHIVE_OK)); [inversion H; subst; exact E1|].
  destruct (op_query t f2 m h1 ARCHIVE_OK) as [| |s2 h2] eqn:E2; try discriminate.
  apply query_inv in E2; [|assumption].
  destruct (negb (s2 =? ARCHIVE_OK)); inversion H; subst; exact E2.
Qed.

Lemma block_into_inv : forall t m h blk st h', inv h -> rd_block_into t m h blk = RRet st h' -> inv h'.
Proof.
  intros t m h [[r sz] off] st h' Hi H. unfold rd_block_into in H. apply with_check_ret in H.
  destruct H as [[Hs Hh]|[_ [_ Hb]]].
  - subst. apply inv_fatal; exact Hi.
  - inversion Hb. subst. eapply inv_ext; [| |exact Hi]; reflexivity.
Qed.

Lemma pad_copy_same : forall h s got h2 s2 g2, rd_pad_copy h s got = (h2, s2, g2) ->
  hmagic h2 = hmagic h /\ hstate h2 = hstate h.
Proof. intros. unfold rd_pad_copy in H. inversion H. split; reflexivity. Qed.

Lemma read_data_loop_inv : forall fuel t m h s got bl st h', inv h ->
  rd_read_data_loop fuel t m h s got bl = RRet st h' -> inv h'.
Proof.
  induction fuel as [|k IH]; intros t m h s got bl st h' Hi H; simpl in H.
  - inversion H. subst. exact Hi.
  - destruct (s <=? 0); [inversion H; subst; exact Hi|].
    destruct ((r_off (rd h) =? r_out (rd h)) && (r_rem (rd h) =? 0)).
    + unfold bind in H.
      destruct (rd_block_into t m h match bl with [] => (ARCHIVE_EOF, 0, r_off (rd h)) | b :: _ => b end)
        as [| |s1 h1] eqn:E; try discriminate.
      apply block_into_inv in E; [|exact Hi].
      destruct ((s1 =? ARCHIVE_EOF) && (r_off (rd h1) <=? r_out (rd h1))); [inversion H; subst; exact E|].
      destruct (s1 <? ARCHIVE_OK); [inversion H; subst; exact E|].
      destruct (r_off (rd h1) <? r_out (rd h1)); [inversion H; subst; exact E|].
      destruct (rd_pad_copy h1 s got) as [[h2 s2] g2] eqn:Ep.
      apply pad_copy_same in Ep. destruct Ep as [Ep1 Ep2].
      eapply IH; [|exact H]. eapply inv_ext; eauto.
    + destruct (r_off (rd h) <? r_out (rd h)); [inversion H; subst; exact Hi|].
      destruct (rd_pad_copy h s got) as [[h2 s2] g2] eqn:Ep.
      apply pad_copy_same in Ep. destruct Ep as [Ep1 Ep2].
      eapply IH; [|exact H]. eapply inv_ext; eauto.
Qed.

Lemma forget_stale_same : forall h, hmagic (rd_forget_stale h) = hmagic h /\ hstate (rd_forget_stale h) = hstate h /\
  r_filter (rd (rd_forget_stale h)) = r_filter (rd h) /\ r_opens (rd (rd_forget_stale h)) = r_opens (rd h) /\
  r_closes (rd (rd_forget_stale h)) = r_closes (rd h).
Proof. intros. unfold rd_forget_stale. destruct (hstate h =? ARCHIVE_STATE_DATA)%N; repeat split; reflexivity. Qed.

Lemma close_filters_same : forall h rc, hmagic (snd (rd_close_filters h rc)) = hmagic h /\
  hstate (snd (rd_close_filters h rc)) = hstate h.
Proof. intros. unfold rd_close_filters. destruct (r_filter (rd h) =? 1)%N; split; reflexivity. Qed.

Lemma free_filters_same : forall h rc, hmagic (rd_free_filters h rc) = hmagic h /\
  hstate (rd_free_filters h rc) = hstate h.
Proof.
  intros. unfold rd_free_filters. simpl. destruct (close_filters_same h rc) as [A B]. split; assumption.
Qed.

Lemma close_inv : forall t h rc st h', inv h -> rd_close t h rc = RRet st h' -> inv h'.
Proof.
  intros t h rc st h' Hi H. unfold rd_close in H. apply with_check_ret in H.
  destruct H as [[Hs Hh]|[_ [_ Hb]]].
  - subst. apply inv_fatal; exact Hi.
  - destruct (hstate h =? ARCHIVE_STATE_CLOSED)%N; [inversion Hb; subst; exact Hi|].
    destruct (rd_close_filters (set_state h ARCHIVE_STATE_CLOSED) rc) as [r1 h1] eqn:E.
    inversion Hb. subst.
    destruct (close_filters_same (set_state h ARCHIVE_STATE_CLOSED) rc) as [A B].
    rewrite E in A, B. simpl in A, B. destruct Hi as [Hm _].
    split; [rewrite A; exact Hm|rewrite B; right; left; reflexivity].
Qed.

Lemma free_inv : forall t h rc st h', inv h -> rd_free t h rc = RRet st h' -> inv h'.
Proof.
  intros t h rc st h' Hi H. unfold rd_free in H. apply with_check_ret in H.
  destruct H as [[Hs Hh]|[_ [_ Hb]]].
  - subst. apply inv_fatal; exact Hi.
  - assert (Hfin : forall h0, inv h0 -> inv (kill (rd_free_filters h0 rc))).
    { intros h0 H0. apply inv_kill. destruct (free_filters_same h0 rc) as [A B].
      eapply inv_ext; [exact A|exact B|exact H0]. }
    destruct (negb (hstate h =? ARCHIVE_STATE_CLOSED)%N && negb (hstate h =? ARCHIVE_STATE_FATAL)%N).
    + unfold bind in Hb. destruct (rd_close t h rc) as [| |s1 h1] eqn:E; try discriminate.
      apply close_inv in E; [|exact Hi]. inversion Hb. subst. apply Hfin; exact E.
    + inversion Hb. subst. apply Hfin; exact Hi.
Qed.

Definition is_next_header (o : op) : bool := match o with RNextHeader _ _ => true | _ => false end.

(* every operation keeps a reader in {EOF, CLOSED, FATAL}; next_header can only answer FATAL there *)
Lemma step_inv : forall t, reader_sites_ok t = true -> forall h o st h', inv h ->
  step t h o = RRet st h' -> inv h' /\ (is_next_header o = true -> st = ARCHIVE_FATAL).
Proof.
  intros t Ht h o st h' Hi H.
  destruct (magic_ne_WM) as [W1 W2]. destruct (magic_ne_RDM) as [D1 D2].
  destruct (magic_ne_WDM) as [X1 X2]. destruct (magic_ne_MM) as [M1 M2].
  destruct o; simpl in H; (split; [|try discriminate]).
  - eapply query_inv; eauto.
  - inversion H; subst; exact Hi.
  - unfold op_fail in H. inversion H. subst. apply inv_fatal; exact Hi.
  - eapply pair_inv; eauto.
  - eapply set_read_cb_inv; eauto.
  - eapply open1_inv; eauto.
  - eapply open_memory_inv; eauto.
  - eapply next_header_inv in H; [tauto|assumption|assumption].
  - intros _. eapply next_header_inv in H; [tauto|assumption|assumption].
  - unfold rd_data_block in H. eapply query_inv; eauto.
  - unfold rd_read_data in H. eapply read_data_loop_inv; [|exact H].
    destruct (forget_stale_same h) as [A [B _]]. eapply inv_ext; eauto.
  - unfold rd_read_data_obs in H. destruct reach.
    + change (op_query t "_archive_read_data_block" magic h r = RRet st h') in H. eapply query_inv; eauto.
    + inversion H; subst; exact Hi.
  - eapply data_skip_inv in H; [tauto|assumption|assumption].
  - unfold rd_seek_data in H. apply with_check_ret in H. destruct H as [[Hs Hh]|[_ [_ Hb]]].
    + subst. apply inv_fatal; exact Hi.
    + destruct has_seek; inversion Hb; subst; exact Hi.
  - eapply close_inv; eauto.
  - eapply free_inv; eauto.
  - unfold wr_set_format in H. eapply wc_other_inv in H; [tauto|assumption|exact W1|exact W2].
  - unfold wr_open in H. eapply wc_other_inv in H; [tauto|assumption|exact W1|exact W2].
  - unfold wr_open_memory in H. eapply wc_other_inv in H; [tauto|assumption|exact W1|exact W2].
  - unfold wr_header in H. eapply wc_other_inv in H; [tauto|assumption|exact W1|exact W2].
  - unfold wr_data in H. eapply wc_other_inv in H; [tauto|assumption|exact W1|exact W2].
  - unfold wr_finish_entry in H. eapply wc_other_inv in H; [tauto|assumption|exact W1|exact W2].
  - unfold wr_close in H. eapply wc_other_inv in H; [tauto|assumption|exact W1|exact W2].
  - unfold wr_free in H. eapply wc_other_inv in H; [tauto|assumption|exact W1|exact W2].
  - unfold dr_open in H. eapply wc_other_inv in H; [tauto|assumption|exact D1|exact D2].
  - unfold dr_next_header in H. eapply wc_other_inv in H; [tauto|assumption|exact D1|exact D2].
  - unfold dr_data_block in H. eapply wc_other_inv in H; [tauto|assumption|exact D1|exact D2].
  - unfold dr_close in H. eapply wc_other_inv in H; [tauto|assumption|exact D1|exact D2].
  - unfold dr_free in H. eapply wc_other_inv in H; [tauto|assumption|exact D1|exact D2].
  - unfold dw_header in H. eapply wc_other_inv in H; [tauto|assumption|exact X1|exact X2].
  - unfold dw_data in H. eapply wc_other_inv in H; [tauto|assumption|exact X1|exact X2].
  - unfold dw_data_block in H. eapply wc_other_inv in H; [tauto|assumption|exact X1|exact X2].
  - unfold dw_finish_entry in H. eapply wc_other_inv in H; [tauto|assumption|exact X1|exact X2].
  - unfold dw_close in H. eapply wc_other_inv in H; [tauto|assumption|exact X1|exact X2].
  - unfold dw_free in H. eapply wc_other_inv in H; [tauto|assumption|exact X1|exact X2].
  - unfold m_free in H. eapply wc_other_inv in H; [tauto|assumption|exact M1|exact M2].
Qed.

(* a call "yields an entry" when it is next_header and answers OK or WARN *)
Definition is_entry (x : op * Z * handle) : bool :=
  match x with
  | (RNextHeader _ _, st, _) => (st =? ARCHIVE_OK) || (st =? ARCHIVE_WARN)
  | _ => false
  end.

Theorem sticky_no_entry : forall t, reader_sites_ok t = true -> forall ops h, inv h ->
  forallb (fun x => negb (is_entry x)) (run_ops t h ops) = true.
Proof.
  intros t Ht ops. induction ops as [|o r IH]; intros h Hi; [reflexivity|].
  simpl. destruct (step t h o) as [| |st h'] eqn:E.
  - simpl. destruct o; reflexivity.
  - simpl. destruct o; reflexivity.
  - destruct (step_inv t Ht h o st h' Hi E) as [Hi' Hn]. simpl. rewrite (IH h' Hi'). rewrite andb_true_r.
    destruct o; try reflexivity. simpl. rewrite (Hn eq_refl). reflexivity.
Qed.

(* after next_header has answered EOF or FATAL the reader is in {EOF, FATAL} *)
Lemma next_header_end_is_sticky : forall t h r1 r2 st h', hmagic h = RM ->
  rd_next_header t h r1 r2 = RRet st h' -> st = ARCHIVE_EOF \/ st = ARCHIVE_FATAL -> inv h'.
Proof.
  intros t h r1 r2 st h' Hm H Hst. unfold rd_next_header in H. apply with_check_ret in H.
  destruct H as [[Hs Hh]|[_ [_ Hb]]].
  - subst. split; [left; exact Hm|right; right; reflexivity].
  - assert (Hcont : forall h0 r1', hmagic h0 = RM -> r1' <> ARCHIVE_EOF -> r1' <> ARCHIVE_FATAL ->
        RRet (if (r2 <? r1') || (r2 =? ARCHIVE_EOF) then r2 else r1')
          (reset_read_data
             (if r2 =? ARCHIVE_EOF then set_state h0 ARCHIVE_STATE_EOF
              else if r2 =? ARCHIVE_OK then set_state h0 ARCHIVE_STATE_DATA
              else if r2 =? ARCHIVE_WARN then set_state h0 ARCHIVE_STATE_DATA
              else if r2 =? ARCHIVE_RETRY then h0
              else if r2 =? ARCHIVE_FATAL then set_state h0 ARCHIVE_STATE_FATAL else h0)) = RRet st h' -> inv h').
    { intros h0 r1' Hm0 Hne Hnf Hc. inversion Hc as [[Hst' Hh']]. clear Hc Hh'.
      destruct (r2 =? ARCHIVE_EOF) eqn:E1.
      - split; [left; exact Hm0|left; reflexivity].
      - rewrite orb_false_r in Hst'. apply Z.eqb_neq in E1.
        assert (Hr2 : r2 = ARCHIVE_FATAL).
        { destruct (r2 <? r1') eqn:E2.
          - destruct Hst as [Hx|Hx]; rewrite Hx in Hst'; [contradiction|exact Hst'].
          - destruct Hst as [Hx|Hx]; rewrite Hx in Hst'; contradiction. }
        rewrite Hr2. simpl. split; [left; exact Hm0|right; right; reflexivity]. }
    destruct (hstate h =? ARCHIVE_STATE_DATA)%N.
    + unfold bind in Hb. destruct (rd_data_skip t h r1) as [| |s1 h1] eqn:E; try discriminate.
      assert (Hm1 : hmagic h1 = RM).
      { unfold rd_data_skip in E. apply with_check_ret in E. destruct E as [[_ Hh]|[_ [_ Hb']]].
        - subst. exact Hm. - inversion Hb'. subst. exact Hm. }
      destruct ((s1 =? ARCHIVE_EOF) || (s1 =? ARCHIVE_FATAL)) eqn:E2.
      * inversion Hb. subst. split; [left; exact Hm1|right; right; reflexivity].
      * apply orb_false_iff in E2. destruct E2 as [E3 E4].
        apply Z.eqb_neq in E3. apply Z.eqb_neq in E4. eapply Hcont; eauto.
    + eapply Hcont; [exact Hm| | |exact Hb]; intro Hx; vm_compute in Hx; discriminate.
Qed.

(* (c) *)
Theorem no_entry_after_eof_or_fatal : forall t, reader_sites_ok t = true ->
  forall h r1 r2 st h' ops, hmagic h = RM ->
  step t h (RNextHeader r1 r2) = RRet st h' -> st = ARCHIVE_EOF \/ st = ARCHIVE_FATAL ->
  forallb (fun x => negb (is_entry x)) (run_ops t h' ops) = true.
Proof.
  intros t Ht h r1 r2 st h' ops Hm H Hst. apply sticky_no_entry; [exact Ht|].
  simpl in H. eapply next_header_end_is_sticky; eauto.
Qed.

(* a failed reader (whatever made it fail) never yields an entry either *)
Theorem no_entry_on_failed_reader : forall t, reader_sites_ok t = true ->
  forall h ops, hmagic h = RM -> hstate h = ARCHIVE_STATE_FATAL ->
  forallb (fun x => negb (is_entry x)) (run_ops t h ops) = true.
Proof.
  intros t Ht h ops Hm Hs. apply sticky_no_entry; [exact Ht|].
  split; [left; exact Hm|right; right; exact Hs].
Qed.

(* ------------------------------------------------------------------ (d) close and free *)
Definition valid_state (s : N) : Prop := In s all_states.

Lemma accepts_all_spec : forall mask s, accepts_all mask = true -> valid_state s -> N.land s mask <> 0%N.
Proof.
  intros mask s H Hs. unfold accepts_all in H. rewrite forallb_forall in H.
  apply has_bit_true. apply H. exact Hs.
Qed.

Lemma site_accepts_all_spec : forall t f m, site_accepts_all t (f, m) = true ->
  exists mask, site_mask t f m = Some mask /\ accepts_all mask = true.
Proof.
  intros t f m H. unfold site_accepts_all in H. simpl in H.
  destruct (site_mask t f m) as [mask|]; [exists mask; split; [reflexivity|exact H]|discriminate].
Qed.

Lemma wc_accepted : forall t f m h body, site_accepts_all t (f, m) = true ->
  hmagic h = m -> is_handle_magic m = true -> valid_state (hstate h) ->
  with_check t f m h body = body h.
Proof.
  intros t f m h body Hs Hm Hh Hv. destruct (site_accepts_all_spec t f m Hs) as [mask [H1 H2]].
  eapply with_check_legal; eauto. rewrite Hm; exact Hh. apply accepts_all_spec; assumption.
Qed.

Lemma RM_is_handle : is_handle_magic RM = true. Proof. reflexivity. Qed.
Lemma WM_is_handle : is_handle_magic WM = true. Proof. reflexivity. Qed.
Lemma RDM_is_handle : is_handle_magic RDM = true. Proof. reflexivity. Qed.
Lemma WDM_is_handle : is_handle_magic WDM = true. Proof. reflexivity. Qed.
Lemma MM_is_handle : is_handle_magic ARCHIVE_MATCH_MAGIC = true. Proof. reflexivity. Qed.

(* archive_read_close is accepted in every state, leaves the reader CLOSED, and a second close is a no-op *)
Theorem read_close_accepted_idempotent : forall t h rc rc',
  site_accepts_all t ("_archive_read_close"%string, RM) = true -> hmagic h = RM -> valid_state (hstate h) ->
  exists st h1, rd_close t h rc = RRet st h1 /\ hstate h1 = ARCHIVE_STATE_CLOSED /\ hmagic h1 = RM /\
                rd_close t h1 rc' = RRet ARCHIVE_OK h1.
Proof.
  intros t h rc rc' Hs Hm Hv. unfold rd_close at 1.
  rewrite (wc_accepted _ _ _ _ _ Hs Hm RM_is_handle Hv).
  assert (Hsecond : forall h1, hmagic h1 = RM -> hstate h1 = ARCHIVE_STATE_CLOSED ->
                               rd_close t h1 rc' = RRet ARCHIVE_OK h1).
  { intros h1 Hm1 Hs1. unfold rd_close.
    rewrite (wc_accepted _ _ _ _ _ Hs Hm1 RM_is_handle).
    - rewrite Hs1. reflexivity.
    - rewrite Hs1. unfold valid_state, all_states. simpl. tauto. }
  destruct (hstate h =? ARCHIVE_STATE_CLOSED)%N eqn:E.
  - apply N.eqb_eq in E. exists ARCHIVE_OK, h. repeat split; try assumption. apply Hsecond; assumption.
  - destruct (rd_close_filters (set_state h ARCHIVE_STATE_CLOSED) rc) as [r1 h1] eqn:E1.
    destruct (close_filters_same (set_state h ARCHIVE_STATE_CLOSED) rc) as [A B]. rewrite E1 in A, B. simpl in A, B.
    exists (zmin_ok r1), h1. split; [reflexivity|]. split; [exact B|]. split; [rewrite A; exact Hm|].
    apply Hsecond; [rewrite A; exact Hm|exact B].
Qed.

(* archive_write_close is accepted in every state; afterwards the writer is NEW (never opened),
   CLOSED, or still FATAL; on a writer that is not failed a second close is a no-op *)
Theorem write_close_accepted : forall t h a b c,
  site_accepts_all t ("_archive_write_close"%string, WM) = true -> hmagic h = WM -> valid_state (hstate h) ->
  exists st h1, wr_close t h a b c = RRet st h1 /\ hmagic h1 = WM /\
    ((hstate h = ARCHIVE_STATE_NEW /\ h1 = h /\ st = ARCHIVE_OK) \/
     (hstate h = ARCHIVE_STATE_FATAL /\ hstate h1 = ARCHIVE_STATE_FATAL) \/
     (hstate h <> ARCHIVE_STATE_FATAL /\ hstate h1 = ARCHIVE_STATE_CLOSED /\
      forall a' b' c', wr_close t h1 a' b' c' = RRet ARCHIVE_OK h1)).
Proof.
  intros t h a b c Hs Hm Hv. unfold wr_close at 1.
  rewrite (wc_accepted _ _ _ _ _ Hs Hm WM_is_handle Hv).
  assert (Hsecond : forall h1, hmagic h1 = WM -> hstate h1 = ARCHIVE_STATE_CLOSED ->
                               forall a' b' c', wr_close t h1 a' b' c' = RRet ARCHIVE_OK h1).
  { intros h1 Hm1 Hs1 a' b' c'. unfold wr_close.
    rewrite (wc_accepted _ _ _ _ _ Hs Hm1 WM_is_handle).
    - rewrite Hs1. reflexivity.
    - rewrite Hs1. unfold valid_state, all_states. simpl. tauto. }
  destruct (hstate h =? ARCHIVE_STATE_NEW)%N eqn:E1.
  { apply N.eqb_eq in E1. exists ARCHIVE_OK, h. split; [reflexivity|]. split; [exact Hm|]. left. tauto. }
  destruct (hstate h =? ARCHIVE_STATE_CLOSED)%N eqn:E2.
  { apply N.eqb_eq in E2. simpl. exists ARCHIVE_OK, h. split; [reflexivity|]. split; [exact Hm|]. right. right.
    split; [rewrite E2; intro Hx; vm_compute in Hx; discriminate|]. split; [exact E2|]. apply Hsecond; assumption. }
  simpl.
  destruct (wr_filters_close h c) as [r1 h1] eqn:Ef.
  assert (Hsame : hmagic h1 = hmagic h /\ hstate h1 = hstate h).
  { unfold wr_filters_close in Ef. destruct (w_filter (wr h) =? 1)%N; inversion Ef; split; reflexivity. }
  destruct Hsame as [A B].
  eexists. eexists. split; [reflexivity|].
  destruct (hstate h1 =? ARCHIVE_STATE_FATAL)%N eqn:E3.
  - apply N.eqb_eq in E3. split; [rewrite A; exact Hm|]. right. left. split; [rewrite <- B; exact E3|exact E3].
  - apply N.eqb_neq in E3. split; [simpl; rewrite A; exact Hm|]. right. right.
    split; [rewrite <- B; exact E3|]. split; [reflexivity|]. apply Hsecond; [simpl; rewrite A; exact Hm|reflexivity].
Qed.

(* free is accepted in every state and ends the handle *)
Theorem read_free_accepted : forall t h rc,
  site_accepts_all t ("_archive_read_free"%string, RM) = true ->
  site_accepts_all t ("_archive_read_close"%string, RM) = true ->
  hmagic h = RM -> valid_state (hstate h) ->
  exists st h1, rd_free t h rc = RRet st h1 /\ hmagic h1 = 0%N.
Proof.
  intros t h rc Hs Hc Hm Hv. unfold rd_free. rewrite (wc_accepted _ _ _ _ _ Hs Hm RM_is_handle Hv).
  destruct (negb (hstate h =? ARCHIVE_STATE_CLOSED)%N && negb (hstate h =? ARCHIVE_STATE_FATAL)%N).
  - destruct (read_close_accepted_idempotent t h rc rc Hc Hm Hv) as [st [h1 [E _]]].
    rewrite E. simpl. eexists. eexists. split; reflexivity.
  - eexists. eexists. split; reflexivity.
Qed.

(* ------------------------------------------------------------------ the reader releases its client
   data source exactly once: along every program, (#opens = #closes + [a chain is open]) and after
   free nothing is open and #closes = #opens.  Needs: archive_read_open1 is accepted in state NEW only. *)
Definition open_only_new (t : list site) : bool :=
  match site_mask t "archive_read_open1" RM with Some mask => (mask =? ARCHIVE_STATE_NEW)%N | None => true end.

Definition bal (h : handle) : Prop :=
  r_opens (rd h) = (r_closes (rd h) + (if (r_filter (rd h) =? 1)%N then 1 else 0))%N.
Definition alive_ok (h : handle) : Prop :=
  hmagic h = RM /\ bal h /\ valid_state (hstate h) /\ (hstate h = ARCHIVE_STATE_NEW -> r_filter (rd h) = 0%N).
Definition released (h : handle) : Prop :=
  hmagic h = 0%N /\ r_filter (rd h) = 0%N /\ r_closes (rd h) = r_opens (rd h).
Definition P (h : handle) : Prop := alive_ok h \/ released h.

Lemma not_new_fatal : ARCHIVE_STATE_FATAL <> ARCHIVE_STATE_NEW. Proof. intro H; vm_compute in H; discriminate. Qed.
Lemma not_new_header : ARCHIVE_STATE_HEADER <> ARCHIVE_STATE_NEW. Proof. intro H; vm_compute in H; discriminate. Qed.
Lemma not_new_data : ARCHIVE_STATE_DATA <> ARCHIVE_STATE_NEW. Proof. intro H; vm_compute in H; discriminate. Qed.
Lemma not_new_eof : ARCHIVE_STATE_EOF <> ARCHIVE_STATE_NEW. Proof. intro H; vm_compute in H; discriminate. Qed.
Lemma not_new_closed : ARCHIVE_STATE_CLOSED <> ARCHIVE_STATE_NEW. Proof. intro H; vm_compute in H; discriminate. Qed.
Lemma valid_fatal : valid_state ARCHIVE_STATE_FATAL. Proof. unfold valid_state, all_states; simpl; tauto. Qed.
Lemma valid_header : valid_state ARCHIVE_STATE_HEADER. Proof. unfold valid_state, all_states; simpl; tauto. Qed.
Lemma valid_data : valid_state ARCHIVE_STATE_DATA. Proof. unfold valid_state, all_states; simpl; tauto. Qed.
Lemma valid_eof : valid_state ARCHIVE_STATE_EOF. Proof. unfold valid_state, all_states; simpl; tauto. Qed.
Lemma valid_closed : valid_state ARCHIVE_STATE_CLOSED. Proof. unfold valid_state, all_states; simpl; tauto. Qed.
Lemma valid_new : valid_state ARCHIVE_STATE_NEW. Proof. unfold valid_state, all_states; simpl; tauto. Qed.

Lemma new_only : forall s, valid_state s -> N.land s ARCHIVE_STATE_NEW <> 0%N -> s = ARCHIVE_STATE_NEW.
Proof.
  intros s Hv Hl. unfold valid_state, all_states in Hv. simpl in Hv.
  destruct Hv as [H|[H|[H|[H|[H|[H|[]]]]]]]; subst s; try reflexivity; exfalso; apply Hl; reflexivity.
Qed.

(* the same reader bookkeeping, in a state that is either unchanged or valid and not NEW *)
Lemma alive_move : forall h h', alive_ok h -> hmagic h' = hmagic h ->
  r_filter (rd h') = r_filter (rd h) -> r_opens (rd h') = r_opens (rd h) -> r_closes (rd h') = r_closes (rd h) ->
  (hstate h' = hstate h \/ (hstate h' <> ARCHIVE_STATE_NEW /\ valid_state (hstate h'))) -> alive_ok h'.
Proof.
  intros h h' [Hm [Hb [Hv Hj]]] H1 H2 H3 H4 H5. unfold alive_ok, bal in *.
  rewrite H1, H2, H3, H4. split; [exact Hm|]. split; [exact Hb|]. split.
  - destruct H5 as [H5|[_ H5]]; [rewrite H5; exact Hv|exact H5].
  - intro Hn. destruct H5 as [H5|[H5 _]]; [apply Hj; rewrite <- H5; exact Hn|contradiction].
Qed.

Lemma alive_fatal : forall h, alive_ok h -> alive_ok (set_state h ARCHIVE_STATE_FATAL).
Proof. intros. eapply alive_move; eauto. right. split; [apply not_new_fatal|apply valid_fatal]. Qed.

Lemma query_alive : forall t f m h r st h', alive_ok h -> op_query t f m h r = RRet st h' -> alive_ok h'.
Proof.
  intros t f m h r st h' Ha H. unfold op_query in H. apply with_check_ret in H.
  destruct H as [[Hs Hh]|[_ [_ Hb]]].
  - subst. apply alive_fatal; exact Ha.
  - inversion Hb. subst. exact Ha.
Qed.

Lemma set_read_cb_alive : forall t h st h', alive_ok h -> rd_set_read_cb t h = RRet st h' -> alive_ok h'.
Proof.
  intros t h st h' Ha H. unfold rd_set_read_cb in H. apply with_check_ret in H.
  destruct H as [[Hs Hh]|[_ [_ Hb]]].
  - subst. apply alive_fatal; exact Ha.
  - inversion Hb. subst. eapply alive_move; eauto.
Qed.

Lemma open1_alive : forall t h a b c st h', open_only_new t = true -> alive_ok h ->
  rd_open1 t h a b c = RRet st h' -> alive_ok h'.
Proof.
  intros t h a b c st h' Ht Ha H. unfold rd_open1 in H. apply with_check_ret in H.
  destruct H as [[Hs Hh]|[_ [[mask [Hsite Hl]] Hb]]].
  - subst. apply alive_fatal; exact Ha.
  - unfold open_only_new in Ht. rewrite Hsite in Ht. apply N.eqb_eq in Ht. subst mask.
    pose proof Ha as Ha0.
    destruct Ha as [Hm [Hbal [Hv Hj]]]. apply (new_only _ Hv) in Hl.
    pose proof (Hj Hl) as Hf. unfold bal in Hbal. rewrite Hf in Hbal. simpl in Hbal.
    destruct (negb (r_reader (rd h))).
    { inversion Hb. subst. apply alive_fatal. exact Ha0. }
    destruct (negb (a =? 0)).
    { inversion Hb. subst. unfold alive_ok, bal. simpl. rewrite Hf. simpl.
      split; [exact Hm|]. split; [lia|]. split; [exact Hv|intros _; reflexivity]. }
    destruct (b <? ARCHIVE_WARN).
    { inversion Hb. subst. unfold alive_ok, bal, rd_free_filters, rd_close_filters. simpl.
      split; [exact Hm|]. split; [lia|]. split; [apply valid_fatal|intro Hx; exfalso; apply not_new_fatal; exact Hx]. }
    destruct (negb c).
    { inversion Hb. subst. unfold alive_ok, bal, rd_close_filters. simpl.
      split; [exact Hm|]. split; [lia|]. split; [apply valid_fatal|intro Hx; exfalso; apply not_new_fatal; exact Hx]. }
    inversion Hb. subst. unfold alive_ok, bal. simpl.
    split; [exact Hm|]. split; [lia|]. split; [apply valid_header|intro Hx; exfalso; apply not_new_header; exact Hx].
Qed.

Lemma open_memory_alive : forall t h a b c st h', open_only_new t = true -> alive_ok h ->
  rd_open_memory t h a b c = RRet st h' -> alive_ok h'.
Proof.
  intros t h a b c st h' Ht Hi H. unfold rd_open_memory in H.
  repeat (match type of H with
    | ignore_status (op_query _ _ _ ?h0 _) _ = _ =>
        let s := fresh "s" in let h1 := fresh "h" in let E := fresh "E" in
        destruct (op_query t _ RM h0 ARCHIVE_OK) as [| |s h1] eqn:E; simpl in H; try discriminate;
        apply query_alive in E; [|assumption]
    | ignore_status (rd_set_read_cb _ ?h0) _ = _ =>
        let s := fresh "s" in let h1 := fresh "h" in let E := fresh "E" in
        destruct (rd_set_read_cb t h0) as [| |s h1] eqn:E; simpl in H; try discriminate;
        apply set_read_cb_alive in E; [|assumption]
    end).
  unfold bind in H.
  match type of H with
  | match op_query t ?f RM ?h0 ARCHIVE_OK with _ => _ end = _ =>
      destruct (op_query t f RM h0 ARCHIVE_OK) as [| |s6 h6] eqn:E6; try discriminate;
      apply query_alive in E6; [|assumption]
  end.
  destruct (negb (s6 =? ARCHIVE_OK)); [inversion H; subst; exact E6|eapply open1_alive; eauto].
Qed.

Lemma pair_alive : forall t f1 f2 m h st h', alive_ok h -> op_pair t f1 f2 m h = RRet st h' -> alive_ok h'.
Proof.
  intros t f1 f2 m h st h' Hi H. unfold op_pair, bind in H.
  destruct (op_query t f1 m h ARCHIVE_OK) as [| |s1 h1] eqn:E1; try discriminate.
  apply query_alive in E1; [|assumption].
  destruct (negb (s1 =? ARCHIVE_OK)); [inversion H; subst; exact E1|].
  destruct (op_query t f2 m h1 ARCHIVE_OK) as [| |s2 h2] eqn:E2; try discriminate.
  apply query_alive in E2; [|assumption].
  destruct (negb (s2 =? ARCHIVE_OK)); inversion H; subst; exact E2.
Qed.

Lemma data_skip_alive : forall t h r st h', alive_ok h -> rd_data_skip t h r = RRet st h' -> alive_ok h'.
Proof.
  intros t h r st h' Ha H. unfold rd_data_skip in H. apply with_check_ret in H.
  destruct H as [[Hs Hh]|[_ [_ Hb]]].
  - subst. apply alive_fatal; exact Ha.
  - inversion Hb. subst. eapply alive_move; eauto. right. split; [apply not_new_header|apply valid_header].
Qed.

Lemma reset_alive : forall h, alive_ok h -> alive_ok (reset_read_data h).
Proof. intros. eapply alive_move; eauto. Qed.

Lemma next_header_alive : forall t h r1 r2 st h', alive_ok h -> rd_next_header t h r1 r2 = RRet st h' -> alive_ok h'.
Proof.
  intros t h r1 r2 st h' Ha H. unfold rd_next_header in H. apply with_check_ret in H.
  destruct H as [[Hs Hh]|[_ [_ Hb]]].
  - subst. apply alive_fatal; exact Ha.
  - assert (Hcont : forall h0 r1' st0 h0', alive_ok h0 ->
        RRet (if (r2 <? r1') || (r2 =? ARCHIVE_EOF) then r2 else r1')
          (reset_read_data
             (if r2 =? ARCHIVE_EOF then set_state h0 ARCHIVE_STATE_EOF
              else if r2 =? ARCHIVE_OK then set_state h0 ARCHIVE_STATE_DATA
              else if r2 =? ARCHIVE_WARN then set_state h0 ARCHIVE_STATE_DATA
              else if r2 =? ARCHIVE_RETRY then h0
              else if r2 =? ARCHIVE_FATAL then set_state h0 ARCHIVE_STATE_FATAL else h0)) = RRet st0 h0' -> alive_ok h0').
    { intros h0 r1' st0 h0' H0 Hc. inversion Hc. apply reset_alive.
      destruct (r2 =? ARCHIVE_EOF). { eapply alive_move; eauto. right. split; [apply not_new_eof|apply valid_eof]. }
      destruct (r2 =? ARCHIVE_OK). { eapply alive_move; eauto. right. split; [apply not_new_data|apply valid_data]. }
      destruct (r2 =? ARCHIVE_WARN). { eapply alive_move; eauto. right. split; [apply not_new_data|apply valid_data]. }
      destruct (r2 =? ARCHIVE_RETRY). { exact H0. }
      destruct (r2 =? ARCHIVE_FATAL). { apply alive_fatal; exact H0. }
      exact H0. }
    destruct (hstate h =? ARCHIVE_STATE_DATA)%N.
    + unfold bind in Hb. destruct (rd_data_skip t h r1) as [| |s1 h1] eqn:E; try discriminate.
      apply data_skip_alive in E; [|exact Ha].
      destruct ((s1 =? ARCHIVE_EOF) || (s1 =? ARCHIVE_FATAL)).
      * inversion Hb. subst. apply alive_fatal; exact E.
      * eapply Hcont; eauto.
    + eapply Hcont; eauto.
Qed.

Lemma block_into_alive : forall t m h blk st h', alive_ok h -> rd_block_into t m h blk = RRet st h' -> alive_ok h'.
Proof.
  intros t m h [[r sz] off] st h' Hi H. unfold rd_block_into in H. apply with_check_ret in H.
  destruct H as [[Hs Hh]|[_ [_ Hb]]].
  - subst. apply alive_fatal; exact Hi.
  - inversion Hb. subst. eapply alive_move; eauto.
Qed.

Lemma pad_copy_rd : forall h s got h2 s2 g2, rd_pad_copy h s got = (h2, s2, g2) ->
  hmagic h2 = hmagic h /\ hstate h2 = hstate h /\ r_filter (rd h2) = r_filter (rd h) /\
  r_opens (rd h2) = r_opens (rd h) /\ r_closes (rd h2) = r_closes (rd h).
Proof. intros. unfold rd_pad_copy in H. inversion H. repeat split; reflexivity. Qed.

Lemma read_data_loop_alive : forall fuel t m h s got bl st h', alive_ok h ->
  rd_read_data_loop fuel t m h s got bl = RRet st h' -> alive_ok h'.
Proof.
  induction fuel as [|k IH]; intros t m h s got bl st h' Hi H; simpl in H.
  - inversion H. subst. exact Hi.
  - destruct (s <=? 0); [inversion H; subst; exact Hi|].
    destruct ((r_off (rd h) =? r_out (rd h)) && (r_rem (rd h) =? 0)).
    + unfold bind in H.
      destruct (rd_block_into t m h match bl with [] => (ARCHIVE_EOF, 0, r_off (rd h)) | b :: _ => b end)
        as [| |s1 h1] eqn:E; try discriminate.
      apply block_into_alive in E; [|exact Hi].
      destruct ((s1 =? ARCHIVE_EOF) && (r_off (rd h1) <=? r_out (rd h1))); [inversion H; subst; exact E|].
      destruct (s1 <? ARCHIVE_OK); [inversion H; subst; exact E|].
      destruct (r_off (rd h1) <? r_out (rd h1)); [inversion H; subst; exact E|].
      destruct (rd_pad_copy h1 s got) as [[h2 s2] g2] eqn:Ep.
      apply pad_copy_rd in Ep. destruct Ep as [Ep1 [Ep2 [Ep3 [Ep4 Ep5]]]].
      eapply IH; [|exact H]. eapply alive_move; eauto.
    + destruct (r_off (rd h) <? r_out (rd h)); [inversion H; subst; exact Hi|].
      destruct (rd_pad_copy h s got) as [[h2 s2] g2] eqn:Ep.
      apply pad_copy_rd in Ep. destruct Ep as [Ep1 [Ep2 [Ep3 [Ep4 Ep5]]]].
      eapply IH; [|exact H]. eapply alive_move; eauto.
Qed.

Lemma close_alive : forall t h rc st h', alive_ok h -> rd_close t h rc = RRet st h' -> alive_ok h'.
Proof.
  intros t h rc st h' Ha H. unfold rd_close in H. apply with_check_ret in H.
  destruct H as [[Hs Hh]|[_ [_ Hb]]].
  - subst. apply alive_fatal; exact Ha.
  - destruct (hstate h =? ARCHIVE_STATE_CLOSED)%N; [inversion Hb; subst; exact Ha|].
    unfold rd_close_filters in Hb. simpl in Hb. destruct Ha as [Hm [Hbal [Hv Hj]]]. unfold bal in Hbal.
    destruct (r_filter (rd h) =? 1)%N eqn:Ef; inversion Hb; subst; unfold alive_ok, bal; simpl.
    + split; [exact Hm|]. split; [lia|]. split; [apply valid_closed|intro Hx; exfalso; apply not_new_closed; exact Hx].
    + rewrite Ef. split; [exact Hm|]. split; [exact Hbal|]. split; [apply valid_closed|intro Hx; exfalso; apply not_new_closed; exact Hx].
Qed.

Lemma free_filters_released : forall h rc, alive_ok h -> released (kill (rd_free_filters h rc)).
Proof.
  intros h rc [Hm [Hbal _]]. unfold bal in Hbal. unfold released, kill, rd_free_filters, rd_close_filters. simpl.
  destruct (r_filter (rd h) =? 1)%N eqn:Ef; simpl.
  - split; [reflexivity|]. split; [reflexivity|lia].
  - split; [reflexivity|]. split; [reflexivity|lia].
Qed.

Lemma free_P : forall t h rc st h', alive_ok h -> rd_free t h rc = RRet st h' -> P h'.
Proof.
  intros t h rc st h' Ha H. unfold rd_free in H. apply with_check_ret in H.
  destruct H as [[Hs Hh]|[_ [_ Hb]]].
  - subst. left. apply alive_fatal; exact Ha.
  - right. destruct (negb (hstate h =? ARCHIVE_STATE_CLOSED)%N && negb (hstate h =? ARCHIVE_STATE_FATAL)%N).
    + unfold bind in Hb. destruct (rd_close t h rc) as [| |s1 h1] eqn:E; try discriminate.
      apply close_alive in E; [|exact Ha]. inversion Hb. subst. apply free_filters_released; exact E.
    + inversion Hb. subst. apply free_filters_released; exact Ha.
Qed.

Lemma wc_dead : forall t f m h body st h', hmagic h = 0%N -> with_check t f m h body = RRet st h' -> False.
Proof.
  intros t f m h body st h' Hm H. unfold with_check in H. destruct (site_mask t f m); [|discriminate].
  rewrite check_magic_not_a_handle in H; [discriminate|rewrite Hm; reflexivity].
Qed.

Lemma released_move : forall h h', released h -> hmagic h' = hmagic h ->
  r_filter (rd h') = r_filter (rd h) -> r_opens (rd h') = r_opens (rd h) -> r_closes (rd h') = r_closes (rd h) ->
  released h'.
Proof. intros h h' [A [B C]] H1 H2 H3 H4. unfold released. rewrite H1, H2, H3, H4. tauto. Qed.

Lemma read_data_loop_released : forall fuel t m h s got bl st h', released h ->
  rd_read_data_loop fuel t m h s got bl = RRet st h' -> released h'.
Proof.
  induction fuel as [|k IH]; intros t m h s got bl st h' Hi H; simpl in H.
  - inversion H. subst. exact Hi.
  - destruct (s <=? 0); [inversion H; subst; exact Hi|].
    destruct ((r_off (rd h) =? r_out (rd h)) && (r_rem (rd h) =? 0)).
    + unfold bind in H.
      destruct (rd_block_into t m h match bl with [] => (ARCHIVE_EOF, 0, r_off (rd h)) | b :: _ => b end)
        as [| |s1 h1] eqn:E; try discriminate.
      exfalso. destruct (match bl with [] => (ARCHIVE_EOF, 0, r_off (rd h)) | b :: _ => b end) as [[r0 sz0] off0].
      unfold rd_block_into in E. destruct Hi as [Hm _]. eapply wc_dead; eauto.
    + destruct (r_off (rd h) <? r_out (rd h)); [inversion H; subst; exact Hi|].
      destruct (rd_pad_copy h s got) as [[h2 s2] g2] eqn:Ep.
      apply pad_copy_rd in Ep. destruct Ep as [Ep1 [Ep2 [Ep3 [Ep4 Ep5]]]].
      eapply IH; [|exact H]. eapply released_move; eauto.
Qed.

Lemma wc_alive_other_P : forall t f m h body st h', alive_ok h -> m <> RM ->
  with_check t f m h body = RRet st h' -> P h'.
Proof.
  intros t f m h body st h' Ha Hne H. apply with_check_ret in H. destruct H as [[Hs Hh]|[Hm _]].
  - subst. left. apply alive_fatal; exact Ha.
  - exfalso. destruct Ha as [Hr _]. congruence.
Qed.

Lemma step_P : forall t, open_only_new t = true -> forall h o st h', P h -> step t h o = RRet st h' -> P h'.
Proof.
  intros t Ht h o st h' [Ha|Hr] H.
  - (* a live reader *)
    destruct (magic_ne_WM) as [W1 _]. destruct (magic_ne_RDM) as [D1 _].
    destruct (magic_ne_WDM) as [X1 _]. destruct (magic_ne_MM) as [M1 _].
    destruct o; simpl in H.
    + left. eapply query_alive; eauto.
    + inversion H; subst. left; exact Ha.
    + unfold op_fail in H. inversion H. subst. left. apply alive_fatal; exact Ha.
    + left. eapply pair_alive; eauto.
    + left. eapply set_read_cb_alive; eauto.
    + left. eapply open1_alive; eauto.
    + left. eapply open_memory_alive; eauto.
    + left. eapply next_header_alive; eauto.
    + left. unfold rd_data_block in H. eapply query_alive; eauto.
    + left. unfold rd_read_data in H. eapply read_data_loop_alive; [|exact H].
      destruct (forget_stale_same h) as [A [B [C [D E]]]]. eapply alive_move; eauto.
    + left. unfold rd_read_data_obs in H. destruct reach.
      * change (op_query t "_archive_read_data_block" magic h r = RRet st h') in H. eapply query_alive; eauto.
      * inversion H; subst; exact Ha.
    + left. eapply data_skip_alive; eauto.
    + left. unfold rd_seek_data in H. apply with_check_ret in H. destruct H as [[Hs Hh]|[_ [_ Hb]]].
      * subst. apply alive_fatal; exact Ha.
      * destruct has_seek; inversion Hb; subst; exact Ha.
    + left. eapply close_alive; eauto.
    + eapply free_P; eauto.
    + unfold wr_set_format in H. eapply wc_alive_other_P; [exact Ha|exact W1|exact H].
    + unfold wr_open in H. eapply wc_alive_other_P; [exact Ha|exact W1|exact H].
    + unfold wr_open_memory in H. eapply wc_alive_other_P; [exact Ha|exact W1|exact H].
    + unfold wr_header in H. eapply wc_alive_other_P; [exact Ha|exact W1|exact H].
    + unfold wr_data in H. eapply wc_alive_other_P; [exact Ha|exact W1|exact H].
    + unfold wr_finish_entry in H. eapply wc_alive_other_P; [exact Ha|exact W1|exact H].
    + unfold wr_close in H. eapply wc_alive_other_P; [exact Ha|exact W1|exact H].
    + unfold wr_free in H. eapply wc_alive_other_P; [exact Ha|exact W1|exact H].
    + unfold dr_open in H. eapply wc_alive_other_P; [exact Ha|exact D1|exact H].
    + unfold dr_next_header in H. eapply wc_alive_other_P; [exact Ha|exact D1|exact H].
    + unfold dr_data_block in H. eapply wc_alive_other_P; [exact Ha|exact D1|exact H].
    + unfold dr_close in H. eapply wc_alive_other_P; [exact Ha|exact D1|exact H].
    + unfold dr_free in H. eapply wc_alive_other_P; [exact Ha|exact D1|exact H].
    + unfold dw_header in H. eapply wc_alive_other_P; [exact Ha|exact X1|exact H].
    + unfold dw_data in H. eapply wc_alive_other_P; [exact Ha|exact X1|exact H].
    + unfold dw_data_block in H. eapply wc_alive_other_P; [exact Ha|exact X1|exact H].
    + unfold dw_finish_entry in H. eapply wc_alive_other_P; [exact Ha|exact X1|exact H].
    + unfold dw_close in H. eapply wc_alive_other_P; [exact Ha|exact X1|exact H].
    + unfold dw_free in H. eapply wc_alive_other_P; [exact Ha|exact X1|exact H].
    + unfold m_free in H. eapply wc_alive_other_P; [exact Ha|exact M1|exact H].
  - (* what is left after free: every checked entry point aborts *)
    right. pose proof Hr as [Hm _].
    destruct o; simpl in H;
      try (exfalso; eapply wc_dead; [exact Hm|exact H]; fail).
    + inversion H; subst; exact Hr.
    + unfold op_fail in H. inversion H. subst. eapply released_move; eauto.
    + exfalso. unfold op_pair, op_query, bind in H.
      destruct (with_check t f1 magic h (fun h0 => RRet ARCHIVE_OK h0)) as [| |s1 h1] eqn:E; try discriminate.
      eapply wc_dead; eauto.
    + exfalso. unfold rd_open_memory, op_query in H.
      destruct (with_check t "archive_read_set_open_callback" RM h (fun h0 => RRet ARCHIVE_OK h0)) as [| |s1 h1] eqn:E;
        simpl in H; try discriminate.
      eapply wc_dead; eauto.
    + unfold rd_read_data in H. eapply read_data_loop_released; [|exact H].
      destruct (forget_stale_same h) as [A [B [C [D E]]]]. eapply released_move; eauto.
    + unfold rd_read_data_obs in H. destruct reach.
      * exfalso. eapply wc_dead; eauto.
      * inversion H; subst; exact Hr.
Qed.

Lemma new_read_alive : alive_ok new_read.
Proof.
  unfold alive_ok, bal, new_read. simpl. split; [reflexivity|]. split; [reflexivity|]. split; [apply valid_new|reflexivity].
Qed.

Lemma run_P : forall t, open_only_new t = true -> forall ops h, P h ->
  Forall (fun x : op * Z * handle => P (snd x)) (run_ops t h ops).
Proof.
  intros t Ht ops. induction ops as [|o r IH]; intros h Hp; simpl; [constructor|].
  destruct (step t h o) as [| |st h'] eqn:E.
  - constructor; [exact Hp|constructor].
  - constructor; [exact Hp|constructor].
  - pose proof (step_P t Ht h o st h' Hp E) as Hp'. constructor; [exact Hp'|apply IH; exact Hp'].
Qed.

(* (d) for the reader: whatever the program and the back-end behaviour, the client data source is
   closed exactly as often as it was opened once the handle is gone, and never more often before *)
Theorem reader_releases_exactly_once : forall t, open_only_new t = true -> forall ops,
  Forall (fun x : op * Z * handle =>
            let h := snd x in
            (hmagic h = 0%N -> r_filter (rd h) = 0%N /\ r_closes (rd h) = r_opens (rd h)) /\
            (r_closes (rd h) <= r_opens (rd h))%N)
         (run_ops t new_read ops).
Proof.
  intros t Ht ops. pose proof (run_P t Ht ops new_read (or_introl new_read_alive)) as H.
  eapply Forall_impl; [|exact H]. intros [[o st] h] Hp. simpl in *. destruct Hp as [[Hm [Hb _]]|[Hm [Hf Hc]]].
  - split.
    + intro H0. exfalso. rewrite Hm in H0. vm_compute in H0. discriminate.
    + unfold bal in Hb. destruct (r_filter (rd h) =? 1)%N; lia.
  - split; [intros _; split; assumption|lia].
Qed.

(* ------------------------------------------------------------------ frame: what an operation that
   does not belong to the handle's kind (or has no kind) can do to a handle *)
Definition frame (h h' : handle) : Prop :=
  hmagic h' = hmagic h /\ wr h' = wr h /\ fixups h' = fixups h /\ dw_fd h' = dw_fd h /\
  (hstate h' = hstate h \/ hstate h' = ARCHIVE_STATE_FATAL).

Lemma frame_refl : forall h, frame h h.
Proof. intros. unfold frame. repeat split; try reflexivity. left; reflexivity. Qed.

Lemma frame_fatal : forall h, frame h (set_state h ARCHIVE_STATE_FATAL).
Proof. intros. unfold frame. simpl. repeat split; try reflexivity. right; reflexivity. Qed.

Lemma frame_trans : forall a b c, frame a b -> frame b c -> frame a c.
Proof.
  intros a b c [A1 [A2 [A3 [A4 A5]]]] [B1 [B2 [B3 [B4 B5]]]]. unfold frame.
  rewrite B1, B2, B3, B4, A1, A2, A3, A4. repeat split; try reflexivity.
  destruct B5 as [B5|B5]; [rewrite B5; exact A5|right; exact B5].
Qed.

Lemma frame_rd : forall h r, frame h (set_rd h r).
Proof. intros. unfold frame. simpl. repeat split; try reflexivity. left; reflexivity. Qed.

(* a check whose body keeps the frame *)
Lemma wc_frame : forall t f m h body st h',
  (forall st h', body h = RRet st h' -> frame h h') ->
  with_check t f m h body = RRet st h' -> frame h h'.
Proof.
  intros t f m h body st h' Hb H. apply with_check_ret in H. destruct H as [[_ Hh]|[_ [_ H]]].
  - subst. apply frame_fatal.
  - eapply Hb; eauto.
Qed.

(* a check for another kind, on a live handle of kind M or on a freed one *)
Lemma wc_foreign : forall t f m h body st h' M,
  (hmagic h = M /\ m <> M) \/ hmagic h = 0%N ->
  with_check t f m h body = RRet st h' -> frame h h'.
Proof.
  intros t f m h body st h' M Hk H. destruct Hk as [[Hm Hne]|Hd].
  - apply with_check_ret in H. destruct H as [[_ Hh]|[Hm' _]].
    + subst. apply frame_fatal.
    + exfalso. congruence.
  - exfalso. eapply wc_dead; eauto.
Qed.

Lemma query_frame : forall t f m h r st h', op_query t f m h r = RRet st h' -> frame h h'.
Proof. intros. unfold op_query in H. eapply wc_frame; [|exact H]. intros s0 h0 Hb. inversion Hb. apply frame_refl. Qed.

Lemma pair_frame : forall t f1 f2 m h st h', op_pair t f1 f2 m h = RRet st h' -> frame h h'.
Proof.
  intros t f1 f2 m h st h' H. unfold op_pair, bind in H.
  destruct (op_query t f1 m h ARCHIVE_OK) as [| |s1 h1] eqn:E1; try discriminate.
  apply query_frame in E1.
  destruct (negb (s1 =? ARCHIVE_OK)); [inversion H; subst; exact E1|].
  destruct (op_query t f2 m h1 ARCHIVE_OK) as [| |s2 h2] eqn:E2; try discriminate.
  apply query_frame in E2.
  destruct (negb (s2 =? ARCHIVE_OK)); inversion H; subst; eapply frame_trans; eauto.
Qed.

Lemma block_into_frame : forall t m h blk st h', rd_block_into t m h blk = RRet st h' -> frame h h'.
Proof.
  intros t m h [[r sz] off] st h' H. unfold rd_block_into in H. eapply wc_frame; [|exact H].
  intros s0 h0 Hb. inversion Hb. apply frame_rd.
Qed.

Lemma pad_copy_frame : forall h s got h2 s2 g2, rd_pad_copy h s got = (h2, s2, g2) -> frame h h2.
Proof. intros. unfold rd_pad_copy in H. inversion H. apply frame_rd. Qed.

Lemma read_data_loop_frame : forall fuel t m h s got bl st h',
  rd_read_data_loop fuel t m h s got bl = RRet st h' -> frame h h'.
Proof.
  induction fuel as [|k IH]; intros t m h s got bl st h' H; simpl in H.
  - inversion H. apply frame_refl.
  - destruct (s <=? 0); [inversion H; apply frame_refl|].
    destruct ((r_off (rd h) =? r_out (rd h)) && (r_rem (rd h) =? 0)).
    + unfold bind in H.
      destruct (rd_block_into t m h match bl with [] => (ARCHIVE_EOF, 0, r_off (rd h)) | b :: _ => b end)
        as [| |s1 h1] eqn:E; try discriminate.
      apply block_into_frame in E.
      destruct ((s1 =? ARCHIVE_EOF) && (r_off (rd h1) <=? r_out (rd h1))); [inversion H; subst; exact E|].
      destruct (s1 <? ARCHIVE_OK); [inversion H; subst; exact E|].
      destruct (r_off (rd h1) <? r_out (rd h1)); [inversion H; subst; exact E|].
      unfold rd_pad_copy in H. apply IH in H.
      eapply frame_trans; [exact E|]. eapply frame_trans; [apply frame_rd|exact H].
    + destruct (r_off (rd h) <? r_out (rd h)); [inversion H; apply frame_refl|].
      unfold rd_pad_copy in H. apply IH in H. eapply frame_trans; [apply frame_rd|exact H].
Qed.

Lemma forget_stale_frame : forall h, frame h (rd_forget_stale h).
Proof. intros. unfold rd_forget_stale. destruct (hstate h =? ARCHIVE_STATE_DATA)%N; [apply frame_refl|apply frame_rd]. Qed.

(* the kind an operation belongs to; None = usable on every kind *)
Definition op_kind (o : op) : option N :=
  match o with
  | OQuery _ _ _ | ONoCheck _ | OFail | OPair _ _ _ | RReadData _ _ | RReadDataObs _ _ _ => None
  | RSetReadCb | ROpen1 _ _ _ | ROpenMem _ _ _ | RNextHeader _ _ | RDataBlock _ | RDataSkip _
  | RSeekData _ _ | RClose _ | RFree _ => Some RM
  | WSetFormat _ _ | WOpen _ _ | WOpenMem _ _ | WHeader _ _ _ | WData _ | WFinishEntry _
  | WClose _ _ _ | WFree _ _ _ _ => Some WM
  | DROpen _ | DRNextHeader _ _ | DRDataBlock _ | DRClose | DRFree => Some RDM
  | DWHeader _ _ _ _ _ _ | DWData _ | DWDataBlock _ | DWFinishEntry _ _ | DWClose _ _ | DWFree _ _ => Some WDM
  | MFree => Some ARCHIVE_MATCH_MAGIC
  end.

Definition foreign_to (M : N) (o : op) : Prop :=
  match op_kind o with None => True | Some m => m <> M end.

Lemma open_memory_foreign : forall t h a b c st h' M, (hmagic h = M /\ RM <> M) \/ hmagic h = 0%N ->
  rd_open_memory t h a b c = RRet st h' -> frame h h'.
Proof.
  intros t h a b c st h' M Hk H. unfold rd_open_memory in H.
  (* the first setter already answers for the whole chain: it can only fail *)
  destruct (op_query t "archive_read_set_open_callback" RM h ARCHIVE_OK) as [| |s1 h1] eqn:E1; simpl in H; try discriminate.
  assert (K1 : (hmagic h1 = M /\ RM <> M) \/ hmagic h1 = 0%N).
  { unfold op_query in E1. destruct Hk as [[Hm Hne]|Hd].
    - apply with_check_ret in E1. destruct E1 as [[_ Hh]|[Hm' _]]; [rewrite Hh; simpl; left; split; [exact Hm|exact Hne]|exfalso; congruence].
    - exfalso. eapply wc_dead; eauto. }
  apply query_frame in E1.
  destruct (rd_set_read_cb t h1) as [| |s2 h2] eqn:E2; simpl in H; try discriminate.
  assert (F2 : frame h1 h2). { unfold rd_set_read_cb in E2. eapply wc_foreign; eauto. }
  assert (K2 : (hmagic h2 = M /\ RM <> M) \/ hmagic h2 = 0%N).
  { destruct F2 as [A _]. rewrite A. exact K1. }
  destruct (op_query t "archive_read_set_seek_callback" RM h2 ARCHIVE_OK) as [| |s3 h3] eqn:E3; simpl in H; try discriminate.
  apply query_frame in E3.
  assert (K3 : (hmagic h3 = M /\ RM <> M) \/ hmagic h3 = 0%N). { destruct E3 as [A _]. rewrite A. exact K2. }
  destruct (op_query t "archive_read_set_skip_callback" RM h3 ARCHIVE_OK) as [| |s4 h4] eqn:E4; simpl in H; try discriminate.
  apply query_frame in E4.
  assert (K4 : (hmagic h4 = M /\ RM <> M) \/ hmagic h4 = 0%N). { destruct E4 as [A _]. rewrite A. exact K3. }
  destruct (op_query t "archive_read_set_close_callback" RM h4 ARCHIVE_OK) as [| |s5 h5] eqn:E5; simpl in H; try discriminate.
  apply query_frame in E5.
  assert (K5 : (hmagic h5 = M /\ RM <> M) \/ hmagic h5 = 0%N). { destruct E5 as [A _]. rewrite A. exact K4. }
  unfold bind in H.
  destruct (op_query t "archive_read_set_callback_data2" RM h5 ARCHIVE_OK) as [| |s6 h6] eqn:E6; try discriminate.
  apply query_frame in E6.
  assert (K6 : (hmagic h6 = M /\ RM <> M) \/ hmagic h6 = 0%N). { destruct E6 as [A _]. rewrite A. exact K5. }
  assert (F : frame h h6). { repeat (eapply frame_trans; [eassumption|]). apply frame_refl. }
  destruct (negb (s6 =? ARCHIVE_OK)); [inversion H; subst; exact F|].
  unfold rd_open1 in H. eapply frame_trans; [exact F|]. eapply wc_foreign; eauto.
Qed.

(* an operation of another kind (or of no kind) keeps the frame of a live handle of kind M, and of
   what is left of a handle after free *)
Lemma step_frame : forall t h o st h' M,
  (hmagic h = M /\ foreign_to M o) \/ hmagic h = 0%N ->
  step t h o = RRet st h' -> frame h h'.
Proof.
  intros t h o st h' M Hk H.
  assert (Hgen : forall m, op_kind o = Some m -> (hmagic h = M /\ m <> M) \/ hmagic h = 0%N).
  { intros m Ho. destruct Hk as [[Hm Hf]|Hd]; [|right; exact Hd].
    left. split; [exact Hm|]. unfold foreign_to in Hf. rewrite Ho in Hf. exact Hf. }
  destruct o; simpl in H;
    try (match goal with
         | H : ?f _ = RRet _ _ |- _ => idtac
         end);
    try (eapply wc_foreign; [apply Hgen; reflexivity|exact H]; fail).
  - eapply query_frame; eauto.
  - inversion H. apply frame_refl.
  - unfold op_fail in H. inversion H. apply frame_fatal.
  - eapply pair_frame; eauto.
  - eapply open_memory_foreign; [apply Hgen; reflexivity|exact H].
  - unfold rd_read_data in H. apply read_data_loop_frame in H. eapply frame_trans; [apply forget_stale_frame|exact H].
  - unfold rd_read_data_obs in H. destruct reach.
    + change (op_query t "_archive_read_data_block" magic h r = RRet st h') in H. eapply query_frame; eauto.
    + inversion H. apply frame_refl.
Qed.

(* ------------------------------------------------------------------ writer: the client is closed
   exactly as often as it was opened, whatever the program; nothing stays open after free *)
Definition wbal (h : handle) : Prop :=
  w_opens (wr h) = (w_closes (wr h) + (if (w_filter (wr h) =? 1)%N then 1 else 0))%N.
Definition w_alive (h : handle) : Prop :=
  hmagic h = WM /\ wbal h /\ valid_state (hstate h) /\
  ((hstate h = ARCHIVE_STATE_NEW \/ hstate h = ARCHIVE_STATE_CLOSED) -> w_filter (wr h) <> 1%N).
Definition w_released (h : handle) : Prop :=
  hmagic h = 0%N /\ w_filter (wr h) = 0%N /\ w_closes (wr h) = w_opens (wr h).
Definition WP (h : handle) : Prop := w_alive h \/ w_released h.

Lemma not_closed_fatal : ARCHIVE_STATE_FATAL <> ARCHIVE_STATE_CLOSED. Proof. intro H; vm_compute in H; discriminate. Qed.
Lemma not_closed_header : ARCHIVE_STATE_HEADER <> ARCHIVE_STATE_CLOSED. Proof. intro H; vm_compute in H; discriminate. Qed.
Lemma not_closed_data : ARCHIVE_STATE_DATA <> ARCHIVE_STATE_CLOSED. Proof. intro H; vm_compute in H; discriminate. Qed.

(* same client bookkeeping; the state is unchanged or one of FATAL / HEADER / DATA *)
Lemma w_move : forall h h', w_alive h -> hmagic h' = hmagic h ->
  w_filter (wr h') = w_filter (wr h) -> w_opens (wr h') = w_opens (wr h) -> w_closes (wr h') = w_closes (wr h) ->
  (hstate h' = hstate h \/ hstate h' = ARCHIVE_STATE_FATAL \/ hstate h' = ARCHIVE_STATE_HEADER \/
   hstate h' = ARCHIVE_STATE_DATA) -> w_alive h'.
Proof.
  intros h h' [Hm [Hb [Hv Hj]]] H1 H2 H3 H4 H5. unfold w_alive, wbal in *.
  rewrite H1, H2, H3, H4. split; [exact Hm|]. split; [exact Hb|]. split.
  - destruct H5 as [H5|[H5|[H5|H5]]]; rewrite H5; [exact Hv|apply valid_fatal|apply valid_header|apply valid_data].
  - intro Hn. destruct H5 as [H5|[H5|[H5|H5]]]; rewrite H5 in Hn.
    + apply Hj; exact Hn.
    + exfalso. destruct Hn as [Hn|Hn]; [apply not_new_fatal|apply not_closed_fatal]; exact Hn.
    + exfalso. destruct Hn as [Hn|Hn]; [apply not_new_header|apply not_closed_header]; exact Hn.
    + exfalso. destruct Hn as [Hn|Hn]; [apply not_new_data|apply not_closed_data]; exact Hn.
Qed.

Lemma w_frame : forall h h', w_alive h -> frame h h' -> w_alive h'.
Proof.
  intros h h' Ha [A [B [_ [_ C]]]]. eapply w_move; eauto; try (rewrite B; reflexivity).
  destruct C as [C|C]; [left; exact C|right; left; exact C].
Qed.

Lemma w_released_frame : forall h h', w_released h -> frame h h' -> w_released h'.
Proof. intros h h' [A [B C]] [F1 [F2 _]]. unfold w_released. rewrite F1, F2. tauto. Qed.

Lemma wr_set_format_alive : forall t f h r st h', w_alive h -> wr_set_format t f h r = RRet st h' -> w_alive h'.
Proof.
  intros t f h r st h' Ha H. unfold wr_set_format in H. apply with_check_ret in H.
  destruct H as [[_ Hh]|[_ [_ Hb]]].
  - subst. eapply w_frame; [exact Ha|apply frame_fatal].
  - destruct (r =? ARCHIVE_OK); inversion Hb; subst; [eapply w_move; eauto|exact Ha].
Qed.

Lemma wr_open_alive : forall t h a b st h', wopen_only_new t = true -> w_alive h ->
  wr_open t h a b = RRet st h' -> w_alive h'.
Proof.
  intros t h a b st h' Ht Ha H. unfold wr_open in H. apply with_check_ret in H.
  destruct H as [[_ Hh]|[_ [[mask [Hsite Hl]] Hb]]].
  - subst. eapply w_frame; [exact Ha|apply frame_fatal].
  - unfold wopen_only_new in Ht. rewrite Hsite in Ht. apply N.eqb_eq in Ht. subst mask.
    destruct Ha as [Hm [Hbal [Hv Hj]]]. apply (new_only _ Hv) in Hl.
    assert (Hf : w_filter (wr h) <> 1%N) by (apply Hj; left; exact Hl).
    unfold wbal in Hbal. apply N.eqb_neq in Hf. rewrite Hf in Hbal.
    destruct (a <? ARCHIVE_WARN).
    + inversion Hb. subst. unfold w_alive, wbal. simpl. split; [exact Hm|]. split; [lia|]. split; [exact Hv|].
      intros _. discriminate.
    + inversion Hb. subst. unfold w_alive, wbal. simpl. split; [exact Hm|]. split.
      * destruct (a =? ARCHIVE_OK); simpl; lia.
      * split; [apply valid_header|]. intros [Hx|Hx]; exfalso; [apply not_new_header|apply not_closed_header]; exact Hx.
Qed.

Lemma wr_finish_entry_alive : forall t h r st h', w_alive h -> wr_finish_entry t h r = RRet st h' -> w_alive h'.
Proof.
  intros t h r st h' Ha H. unfold wr_finish_entry in H. apply with_check_ret in H.
  destruct H as [[_ Hh]|[_ [_ Hb]]].
  - subst. eapply w_frame; [exact Ha|apply frame_fatal].
  - inversion Hb. subst. apply (w_move h); [exact Ha|reflexivity|reflexivity|reflexivity|reflexivity|right; right; left; reflexivity].
Qed.

Lemma wr_header_alive : forall t h a b c st h', w_alive h -> wr_header t h a b c = RRet st h' -> w_alive h'.
Proof.
  intros t h a b c st h' Ha H. unfold wr_header in H. apply with_check_ret in H.
  destruct H as [[_ Hh]|[_ [_ Hb]]].
  - subst. eapply w_frame; [exact Ha|apply frame_fatal].
  - destruct (negb (w_fmt (wr h))).
    { inversion Hb. subst. eapply w_frame; [exact Ha|apply frame_fatal]. }
    unfold bind in Hb. destruct (wr_finish_entry t h a) as [| |s1 h1] eqn:E; try discriminate.
    apply wr_finish_entry_alive in E; [|exact Ha].
    assert (F : w_alive (set_state h1 ARCHIVE_STATE_FATAL)) by (eapply w_frame; [exact E|apply frame_fatal]).
    assert (G : w_alive (set_state h1 ARCHIVE_STATE_DATA)) by (apply (w_move h1); [exact E|reflexivity|reflexivity|reflexivity|reflexivity|right; right; right; reflexivity]).
    destruct (s1 =? ARCHIVE_FATAL); [inversion Hb; subst; exact F|].
    destruct ((s1 <? ARCHIVE_OK) && negb (s1 =? ARCHIVE_WARN)); [inversion Hb; subst; exact E|].
    destruct (b =? ARCHIVE_FAILED); [inversion Hb; subst; exact E|].
    destruct (b =? ARCHIVE_FATAL); [inversion Hb; subst; exact F|].
    destruct (c =? ARCHIVE_FAILED); [inversion Hb; subst; exact E|].
    destruct (c =? ARCHIVE_FATAL); [inversion Hb; subst; exact F|].
    inversion Hb. subst. exact G.
Qed.

Lemma wr_data_alive : forall t h r st h', w_alive h -> wr_data t h r = RRet st h' -> w_alive h'.
Proof.
  intros t h r st h' Ha H. unfold wr_data in H. apply with_check_ret in H. destruct H as [[_ Hh]|[_ [_ Hb]]].
  - subst. eapply w_frame; [exact Ha|apply frame_fatal].
  - inversion Hb. subst. exact Ha.
Qed.

(* what close does to the bookkeeping, once its check has passed *)
Lemma wr_close_body_alive : forall h a b c st h', w_alive h ->
  (if (hstate h =? ARCHIVE_STATE_NEW)%N || (hstate h =? ARCHIVE_STATE_CLOSED)%N then RRet ARCHIVE_OK h
   else
     let r := if (hstate h =? ARCHIVE_STATE_DATA)%N && w_fmt (wr h) then a else ARCHIVE_OK in
     let r := if w_fmt (wr h) then zlower b r else r in
     let '(r1, h1) := wr_filters_close h c in
     RRet (zlower r1 r) (if (hstate h1 =? ARCHIVE_STATE_FATAL)%N then h1 else set_state h1 ARCHIVE_STATE_CLOSED))
  = RRet st h' ->
  w_alive h' /\ (hstate h <> ARCHIVE_STATE_FATAL -> hstate h' = ARCHIVE_STATE_NEW \/ hstate h' = ARCHIVE_STATE_CLOSED).
Proof.
  intros h a b c st h' Ha H.
  destruct ((hstate h =? ARCHIVE_STATE_NEW)%N || (hstate h =? ARCHIVE_STATE_CLOSED)%N) eqn:E.
  - inversion H. subst. split; [exact Ha|]. intros _. apply orb_true_iff in E.
    destruct E as [E|E]; apply N.eqb_eq in E; tauto.
  - simpl in H. destruct Ha as [Hm [Hbal [Hv Hj]]]. unfold wbal in Hbal. unfold wr_filters_close in H.
    destruct (w_filter (wr h) =? 1)%N eqn:Ef; simpl in H.
    + destruct (hstate h =? ARCHIVE_STATE_FATAL)%N eqn:E3; inversion H; subst; clear H.
      * apply N.eqb_eq in E3. split.
        -- unfold w_alive, wbal. simpl. split; [exact Hm|]. split; [destruct (c =? ARCHIVE_OK); simpl; lia|].
           split; [exact Hv|]. rewrite E3. intros [Hx|Hx]; exfalso; [apply not_new_fatal|apply not_closed_fatal]; exact Hx.
        -- intro Hx. contradiction.
      * split.
        -- unfold w_alive, wbal. simpl. split; [exact Hm|]. split; [destruct (c =? ARCHIVE_OK); simpl; lia|].
           split; [apply valid_closed|]. intros _. destruct (c =? ARCHIVE_OK); discriminate.
        -- intros _. right. reflexivity.
    + destruct (hstate h =? ARCHIVE_STATE_FATAL)%N eqn:E3; inversion H; subst; clear H.
      * apply N.eqb_eq in E3. split; [|intro Hx; contradiction].
        unfold w_alive, wbal. rewrite Ef. split; [exact Hm|]. split; [exact Hbal|]. split; [exact Hv|exact Hj].
      * split; [|intros _; right; reflexivity].
        unfold w_alive, wbal. simpl. rewrite Ef. split; [exact Hm|]. split; [exact Hbal|]. split; [apply valid_closed|].
        intros _. apply N.eqb_neq. exact Ef.
Qed.

Lemma wr_close_alive : forall t h a b c st h', w_alive h -> wr_close t h a b c = RRet st h' -> w_alive h'.
Proof.
  intros t h a b c st h' Ha H. unfold wr_close in H. apply with_check_ret in H.
  destruct H as [[_ Hh]|[_ [_ Hb]]].
  - subst. eapply w_frame; [exact Ha|apply frame_fatal].
  - eapply wr_close_body_alive in Hb; [tauto|exact Ha].
Qed.

Lemma wr_filters_free_released : forall h, hmagic h = WM -> wbal h -> w_filter (wr h) <> 1%N ->
  w_released (kill (wr_filters_free h)).
Proof.
  intros h Hm Hb Hf. unfold wbal in Hb. apply N.eqb_neq in Hf. rewrite Hf in Hb.
  unfold w_released, kill, wr_filters_free. destruct (w_filter (wr h) =? 0)%N eqn:E0; simpl.
  - apply N.eqb_eq in E0. split; [reflexivity|]. split; [exact E0|lia].
  - split; [reflexivity|]. split; [reflexivity|lia].
Qed.

Lemma wr_free_WP : forall t h a b c d st h',
  site_accepts_all t ("_archive_write_close"%string, WM) = true ->
  w_alive h -> wr_free t h a b c d = RRet st h' -> WP h'.
Proof.
  intros t h a b c d st h' Hc Ha H. unfold wr_free in H. apply with_check_ret in H.
  destruct H as [[_ Hh]|[_ [_ Hb]]].
  - subst. left. eapply w_frame; [exact Ha|apply frame_fatal].
  - right. pose proof Ha as [Hm [Hbal [Hv Hj]]].
    destruct (hstate h =? ARCHIVE_STATE_FATAL)%N eqn:E; simpl in Hb.
    + unfold wr_filters_close in Hb. unfold wbal in Hbal.
      destruct (w_filter (wr h) =? 1)%N eqn:Ef; inversion Hb; subst; clear Hb.
      * apply wr_filters_free_released; [exact Hm| |].
        -- unfold wbal. simpl. destruct (c =? ARCHIVE_OK); simpl; lia.
        -- simpl. destruct (c =? ARCHIVE_OK); discriminate.
      * apply wr_filters_free_released; [exact Hm| |].
        -- unfold wbal. rewrite Ef. exact Hbal.
        -- apply N.eqb_neq. exact Ef.
    + unfold bind in Hb. unfold wr_close in Hb.
      rewrite (wc_accepted _ _ _ _ _ Hc Hm WM_is_handle Hv) in Hb.
      match type of Hb with
      | match ?X with _ => _ end = _ => destruct X as [| |s1 h1] eqn:Eb; try discriminate
      end.
      apply wr_close_body_alive in Eb; [|exact Ha]. destruct Eb as [[Hm1 [Hb1 [Hv1 Hj1]]] Hs1].
      apply N.eqb_neq in E. specialize (Hs1 E). inversion Hb. subst.
      apply wr_filters_free_released; [exact Hm1|exact Hb1|apply Hj1; exact Hs1].
Qed.

Lemma new_write_alive : w_alive new_write.
Proof.
  unfold w_alive, wbal, new_write. simpl. split; [reflexivity|]. split; [reflexivity|]. split; [apply valid_new|].
  intros _. discriminate.
Qed.

Lemma magic_WM_ne : RM <> WM /\ RDM <> WM /\ WDM <> WM /\ ARCHIVE_MATCH_MAGIC <> WM.
Proof. repeat split; intro H; vm_compute in H; discriminate. Qed.

Lemma step_WP : forall t, wopen_only_new t = true ->
  site_accepts_all t ("_archive_write_close"%string, WM) = true ->
  forall h o st h', WP h -> step t h o = RRet st h' -> WP h'.
Proof.
  intros t Ht Hc h o st h' [Ha|Hr] H.
  - destruct (magic_WM_ne) as [N1 [N2 [N3 N4]]]. pose proof Ha as [Hm _].
    assert (Hfor : foreign_to WM o -> WP h').
    { intro Hf. left. eapply w_frame; [exact Ha|]. eapply (step_frame t h o st h' WM); [left; split; assumption|exact H]. }
    destruct o; try (apply Hfor; unfold foreign_to; simpl; first [exact I|assumption]); simpl in H.
    + left. eapply wr_set_format_alive; eauto.
    + left. eapply wr_open_alive; eauto.
    + left. unfold wr_open_memory in H. apply with_check_ret in H. destruct H as [[_ Hh]|[_ [_ Hb]]].
      * subst. eapply w_frame; [exact Ha|apply frame_fatal].
      * eapply wr_open_alive; eauto.
    + left. eapply wr_header_alive; eauto.
    + left. eapply wr_data_alive; eauto.
    + left. eapply wr_finish_entry_alive; eauto.
    + left. eapply wr_close_alive; eauto.
    + eapply wr_free_WP; eauto.
  - right. pose proof Hr as [Hm _]. eapply w_released_frame; [exact Hr|].
    eapply (step_frame t h o st h' WM); [right; exact Hm|exact H].
Qed.

Lemma run_WP : forall t, wopen_only_new t = true ->
  site_accepts_all t ("_archive_write_close"%string, WM) = true ->
  forall ops h, WP h -> Forall (fun x : op * Z * handle => WP (snd x)) (run_ops t h ops).
Proof.
  intros t Ht Hc ops. induction ops as [|o r IH]; intros h Hp; simpl; [constructor|].
  destruct (step t h o) as [| |st h'] eqn:E.
  - constructor; [exact Hp|constructor].
  - constructor; [exact Hp|constructor].
  - pose proof (step_WP t Ht Hc h o st h' Hp E) as Hp'. constructor; [exact Hp'|apply IH; exact Hp'].
Qed.

Theorem writer_releases_exactly_once : forall t, wopen_only_new t = true ->
  site_accepts_all t ("_archive_write_close"%string, WM) = true -> forall ops,
  Forall (fun x : op * Z * handle =>
            let h := snd x in
            (hmagic h = 0%N -> w_filter (wr h) = 0%N /\ w_closes (wr h) = w_opens (wr h)) /\
            (w_closes (wr h) <= w_opens (wr h))%N)
         (run_ops t new_write ops).
Proof.
  intros t Ht Hc ops. pose proof (run_WP t Ht Hc ops new_write (or_introl new_write_alive)) as H.
  eapply Forall_impl; [|exact H]. intros [[o st] h] Hp. simpl in *. destruct Hp as [[Hm [Hb _]]|[Hm [Hf Hcl]]].
  - split.
    + intro H0. exfalso. rewrite Hm in H0. vm_compute in H0. discriminate.
    + unfold wbal in Hb. destruct (w_filter (wr h) =? 1)%N; lia.
  - split; [intros _; split; assumption|lia].
Qed.

(* ------------------------------------------------------------------ disk writer: once the handle is
   gone no fix-up is left unapplied/unreleased and no file is left open - from every state, for every
   table (no condition on the masks is needed) *)
Definition d_alive (h : handle) : Prop :=
  hmagic h = WDM /\ valid_state (hstate h) /\
  (dw_fd h = true -> hstate h = ARCHIVE_STATE_DATA \/ hstate h = ARCHIVE_STATE_FATAL).
Definition d_released (h : handle) : Prop := hmagic h = 0%N /\ fixups h = 0%N /\ dw_fd h = false.
Definition DP (h : handle) : Prop := d_alive h \/ d_released h.

Lemma d_frame : forall h h', d_alive h -> frame h h' -> d_alive h'.
Proof.
  intros h h' [Hm [Hv Hj]] [A [_ [_ [D C]]]]. unfold d_alive. rewrite A, D. split; [exact Hm|]. split.
  - destruct C as [C|C]; rewrite C; [exact Hv|apply valid_fatal].
  - intro Hf. destruct C as [C|C]; rewrite C; [apply Hj; exact Hf|right; reflexivity].
Qed.

Lemma d_released_frame : forall h h', d_released h -> frame h h' -> d_released h'.
Proof. intros h h' [A [B C]] [F1 [_ [F3 [F4 _]]]]. unfold d_released. rewrite F1, F3, F4. tauto. Qed.

Lemma header_only : forall s, valid_state s -> has_bit s ARCHIVE_STATE_HEADER = true -> s = ARCHIVE_STATE_HEADER.
Proof.
  intros s Hv Hb. unfold valid_state, all_states in Hv. simpl in Hv.
  destruct Hv as [H|[H|[H|[H|[H|[H|[]]]]]]]; subst s; try reflexivity; vm_compute in Hb; discriminate.
Qed.

Lemma header_ne_data_fatal : ARCHIVE_STATE_HEADER <> ARCHIVE_STATE_DATA /\ ARCHIVE_STATE_HEADER <> ARCHIVE_STATE_FATAL.
Proof. split; intro H; vm_compute in H; discriminate. Qed.

(* finish_entry: the result is a sane disk writer that has no file open unless the call was refused
   or had nothing to do *)
Lemma dw_finish_entry_alive : forall t h r e st h', d_alive h -> dw_finish_entry t h r e = RRet st h' ->
  d_alive h' /\ (hstate h' <> ARCHIVE_STATE_FATAL -> dw_fd h' = false) /\ fixups h' = fixups h.
Proof.
  intros t h r e st h' Ha H. unfold dw_finish_entry in H. apply with_check_ret in H.
  destruct H as [[_ Hh]|[_ [_ Hb]]].
  - subst. split; [eapply d_frame; [exact Ha|apply frame_fatal]|]. split; [intro Hx; exfalso; apply Hx; reflexivity|reflexivity].
  - destruct Ha as [Hm [Hv Hj]]. destruct (has_bit (hstate h) ARCHIVE_STATE_HEADER) eqn:Eh.
    + inversion Hb. subst. split; [split; [exact Hm|split; [exact Hv|exact Hj]]|]. split; [|reflexivity].
      intros _. destruct (dw_fd h') eqn:Ef; [|reflexivity]. exfalso.
      pose proof (header_only _ Hv Eh) as Hs. destruct header_ne_data_fatal as [N1 N2].
      destruct (Hj eq_refl) as [Hx|Hx]; rewrite Hs in Hx; [apply N1|apply N2]; exact Hx.
    + destruct e; inversion Hb; subst; (split; [|split; [intros _; reflexivity|reflexivity]]).
      * unfold d_alive. simpl. split; [exact Hm|]. split; [exact Hv|]. discriminate.
      * unfold d_alive. simpl. split; [exact Hm|]. split; [apply valid_header|]. discriminate.
Qed.

Lemma dw_header_alive : forall t h a b c d e f st h', d_alive h -> dw_header t h a b c d e f = RRet st h' -> d_alive h'.
Proof.
  intros t h a b c d e f st h' Ha H. unfold dw_header in H. apply with_check_ret in H.
  destruct H as [[_ Hh]|[_ [_ Hb]]].
  - subst. eapply d_frame; [exact Ha|apply frame_fatal].
  - assert (Hbody : forall h1 st h', d_alive h1 ->
      (if c then RRet d (set_fd h1 false)
       else RRet d (if ARCHIVE_WARN <=? d
                    then set_state (set_fd (if e then set_fixups (set_fd h1 false) (fixups (set_fd h1 false) + 1) else set_fd h1 false) f) ARCHIVE_STATE_DATA
                    else if e then set_fixups (set_fd h1 false) (fixups (set_fd h1 false) + 1) else set_fd h1 false)) = RRet st h' ->
      d_alive h').
    { intros h1 st0 h0 [Hm1 [Hv1 _]] Hc. destruct c.
      - inversion Hc. unfold d_alive. simpl. split; [exact Hm1|]. split; [exact Hv1|]. discriminate.
      - destruct (ARCHIVE_WARN <=? d); inversion Hc; destruct e; unfold d_alive; simpl;
          (split; [exact Hm1|]); (split; [first [apply valid_data|exact Hv1]|]); first [intros _; left; reflexivity|discriminate]. }
    destruct (has_bit (hstate h) ARCHIVE_STATE_DATA).
    + unfold bind in Hb. destruct (dw_finish_entry t h a b) as [| |s1 h1] eqn:E; try discriminate.
      apply dw_finish_entry_alive in E; [|exact Ha]. destruct E as [E _].
      destruct (s1 =? ARCHIVE_FATAL); [inversion Hb; subst; exact E|]. eapply Hbody; eauto.
    + eapply Hbody; eauto.
Qed.

Lemma dw_close_alive : forall t h r e st h', d_alive h -> dw_close t h r e = RRet st h' ->
  d_alive h' /\ (hstate h' <> ARCHIVE_STATE_FATAL -> fixups h' = 0%N /\ dw_fd h' = false).
Proof.
  intros t h r e st h' Ha H. unfold dw_close in H. apply with_check_ret in H.
  destruct H as [[_ Hh]|[_ [_ Hb]]].
  - subst. split; [eapply d_frame; [exact Ha|apply frame_fatal]|]. intro Hx; exfalso; apply Hx; reflexivity.
  - unfold bind in Hb. destruct (dw_finish_entry t h r e) as [| |s1 h1] eqn:E; try discriminate.
    apply dw_finish_entry_alive in E; [|exact Ha]. destruct E as [[Hm [Hv Hj]] [Hf _]].
    inversion Hb. subst. split.
    + unfold d_alive. simpl. split; [exact Hm|]. split; [exact Hv|exact Hj].
    + simpl. intro Hx. split; [reflexivity|apply Hf; exact Hx].
Qed.

Lemma dw_free_DP : forall t h r e st h', d_alive h -> dw_free t h r e = RRet st h' -> DP h'.
Proof.
  intros t h r e st h' Ha H. unfold dw_free in H. apply with_check_ret in H.
  destruct H as [[_ Hh]|[_ [_ Hb]]].
  - subst. left. eapply d_frame; [exact Ha|apply frame_fatal].
  - right. unfold bind in Hb. destruct (dw_close t h r e) as [| |s1 h1] eqn:E; try discriminate.
    apply dw_close_alive in E; [|exact Ha]. destruct E as [_ Hrel].
    inversion Hb. subst. unfold d_released, kill.
    destruct (hstate h1 =? ARCHIVE_STATE_FATAL)%N eqn:Ef; simpl.
    + split; [reflexivity|split; reflexivity].
    + apply N.eqb_neq in Ef. destruct (Hrel Ef) as [A B]. split; [reflexivity|split; assumption].
Qed.

Lemma magic_WDM_ne : RM <> WDM /\ WM <> WDM /\ RDM <> WDM /\ ARCHIVE_MATCH_MAGIC <> WDM.
Proof. repeat split; intro H; vm_compute in H; discriminate. Qed.

Lemma new_write_disk_alive : d_alive new_write_disk.
Proof. unfold d_alive, new_write_disk. simpl. split; [reflexivity|]. split; [apply valid_header|discriminate]. Qed.

Lemma step_DP : forall t h o st h', DP h -> step t h o = RRet st h' -> DP h'.
Proof.
  intros t h o st h' [Ha|Hr] H.
  - destruct (magic_WDM_ne) as [N1 [N2 [N3 N4]]]. pose proof Ha as [Hm _].
    assert (Hfor : foreign_to WDM o -> DP h').
    { intro Hf. left. eapply d_frame; [exact Ha|]. eapply (step_frame t h o st h' WDM); [left; split; assumption|exact H]. }
    destruct o; try (apply Hfor; unfold foreign_to; simpl; first [exact I|assumption]); simpl in H.
    + left. eapply dw_header_alive; eauto.
    + left. unfold dw_data in H. eapply d_frame; [exact Ha|]. eapply wc_frame; [|exact H].
      intros s0 h0 Hb. inversion Hb. apply frame_refl.
    + left. unfold dw_data_block in H. eapply d_frame; [exact Ha|]. eapply wc_frame; [|exact H].
      intros s0 h0 Hb. inversion Hb. apply frame_refl.
    + left. eapply dw_finish_entry_alive in H; [tauto|exact Ha].
    + left. eapply dw_close_alive in H; [tauto|exact Ha].
    + eapply dw_free_DP; eauto.
  - right. pose proof Hr as [Hm _]. eapply d_released_frame; [exact Hr|].
    eapply (step_frame t h o st h' WDM); [right; exact Hm|exact H].
Qed.

Lemma run_DP : forall t ops h, DP h -> Forall (fun x : op * Z * handle => DP (snd x)) (run_ops t h ops).
Proof.
  intros t ops. induction ops as [|o r IH]; intros h Hp; simpl; [constructor|].
  destruct (step t h o) as [| |st h'] eqn:E.
  - constructor; [exact Hp|constructor].
  - constructor; [exact Hp|constructor].
  - pose proof (step_DP t h o st h' Hp E) as Hp'. constructor; [exact Hp'|apply IH; exact Hp'].
Qed.

Theorem disk_writer_releases_everything : forall t ops,
  Forall (fun x : op * Z * handle => let h := snd x in hmagic h = 0%N -> fixups h = 0%N /\ dw_fd h = false)
         (run_ops t new_write_disk ops).
Proof.
  intros t ops. pose proof (run_DP t ops new_write_disk (or_introl new_write_disk_alive)) as H.
  eapply Forall_impl; [|exact H]. intros [[o st] h] Hp. simpl in *. destruct Hp as [[Hm _]|[_ [A B]]].
  - intro H0. exfalso. rewrite Hm in H0. vm_compute in H0. discriminate.
  - intros _. split; assumption.
Qed.

(* free is accepted in every state and ends the handle - writer, disk writer *)
Theorem write_free_accepted : forall t h a b c d,
  site_accepts_all t ("_archive_write_free"%string, WM) = true ->
  site_accepts_all t ("_archive_write_close"%string, WM) = true ->
  hmagic h = WM -> valid_state (hstate h) ->
  exists st h1, wr_free t h a b c d = RRet st h1 /\ hmagic h1 = 0%N.
Proof.
  intros t h a b c d Hf Hc Hm Hv. unfold wr_free. rewrite (wc_accepted _ _ _ _ _ Hf Hm WM_is_handle Hv).
  destruct (negb (hstate h =? ARCHIVE_STATE_FATAL)%N).
  - destruct (write_close_accepted t h a b c Hc Hm Hv) as [st [h1 [E _]]]. rewrite E. simpl.
    eexists. eexists. split; reflexivity.
  - destruct (wr_filters_close h c) as [r1 h1]. eexists. eexists. split; reflexivity.
Qed.

(* with its site in the table, a checked call on a live handle always answers *)
Lemma wc_total : forall t f m h body mask, site_mask t f m = Some mask -> is_handle_magic (hmagic h) = true ->
  (exists st h', body h = RRet st h') -> exists st h', with_check t f m h body = RRet st h'.
Proof.
  intros t f m h body mask Hs Hh [st [h' Hb]]. unfold with_check. rewrite Hs. unfold check_magic. rewrite Hh. simpl.
  destruct (negb (hmagic h =? m)%N); [eexists; eexists; reflexivity|].
  destruct (N.land (hstate h) mask =? 0)%N; simpl; [eexists; eexists; reflexivity|].
  rewrite Hb. eexists; eexists; reflexivity.
Qed.

Theorem disk_write_free_accepted : forall t h r e,
  site_accepts_all t ("_archive_write_disk_free"%string, WDM) = true ->
  (exists m1, site_mask t "_archive_write_disk_close" WDM = Some m1) ->
  (exists m2, site_mask t "_archive_write_disk_finish_entry" WDM = Some m2) ->
  hmagic h = WDM -> valid_state (hstate h) ->
  exists st h1, dw_free t h r e = RRet st h1 /\ hmagic h1 = 0%N.
Proof.
  intros t h r e Hf [m1 H1] [m2 H2] Hm Hv. unfold dw_free. rewrite (wc_accepted _ _ _ _ _ Hf Hm WDM_is_handle Hv).
  assert (Hh : is_handle_magic (hmagic h) = true) by (rewrite Hm; apply WDM_is_handle).
  assert (Hfin : exists st h', dw_finish_entry t h r e = RRet st h').
  { unfold dw_finish_entry. eapply wc_total; eauto.
    destruct (has_bit (hstate h) ARCHIVE_STATE_HEADER); [eexists; eexists; reflexivity|].
    destruct e; eexists; eexists; reflexivity. }
  assert (Hcl : exists st h', dw_close t h r e = RRet st h').
  { unfold dw_close. eapply wc_total; eauto. destruct Hfin as [s1 [h1 E]]. rewrite E. simpl. eexists; eexists; reflexivity. }
  destruct Hcl as [s1 [h1 E]]. rewrite E. simpl. eexists. eexists. split; reflexivity.
Qed.
