(* C07 - model of __archive_check_magic (archive_check_magic.c) and of the life-cycle transitions of
   the five handle kinds (archive_read.c, archive_write.c, archive_read_disk_posix.c,
   archive_write_disk_posix.c, archive_match.c, archive_virtual.c).

   Whatever sits behind the core (format, filter, client callback, file system) is an ORACLE value
   carried by the operation: "given that the entry check passed and the backend returned r, the
   status is ... and the new state is ...".  The allowed-state mask of every entry point is NOT
   written here: it is looked up in the table regenerated from the sources (Gen/MagicTable.v), under
   the name of the C function that contains the check.

   Model assumptions (recorded in the evidence): no allocation failure; the selected read format has
   read_data and read_data_skip; no archive_read_append_filter (bypass_filter_bidding = 0); fewer than
   25 read filters; the write format, once set, has write_header/write_data/finish_entry/close/free
   (and, in the scripted harness, init); skip_file is not set on the writer; the disk writer holds an
   open file only after a header call that returned WARN or better (restore_entry leaves no descriptor
   open when it fails, the chdir-back failure path is not modelled). *)
From Coq Require Import List ZArith NArith Bool String Ascii.
From LA Require Import Gen.Defines.
Import ListNotations.
Local Open Scope Z_scope.

(* ------------------------------------------------------------------ __archive_check_magic *)
Inductive outcome := Abort | Ret (status : Z) (state' : N).

Definition is_handle_magic (m : N) : bool :=
  ((m =? ARCHIVE_WRITE_MAGIC) || (m =? ARCHIVE_READ_MAGIC) || (m =? ARCHIVE_WRITE_DISK_MAGIC) ||
   (m =? ARCHIVE_READ_DISK_MAGIC) || (m =? ARCHIVE_MATCH_MAGIC))%N.

(* archive_check_magic.c 126-175.  handle_type == NULL -> errmsg + abort();  other handle kind ->
   state = FATAL, return FATAL;  (state & mask) == 0 -> state = FATAL, return FATAL (the error text
   is kept if the state already was FATAL, the state assignment is unconditional);  else OK. *)
Definition check_magic (handle_magic state magic mask : N) : outcome :=
  if negb (is_handle_magic handle_magic) then Abort
  else if negb (handle_magic =? magic)%N then Ret ARCHIVE_FATAL ARCHIVE_STATE_FATAL
  else if (N.land state mask =? 0)%N then Ret ARCHIVE_FATAL ARCHIVE_STATE_FATAL
  else Ret ARCHIVE_OK state.

(* ------------------------------------------------------------------ the regenerated table *)
Definition site := (string * N * N)%type.        (* enclosing C function, expected magic, mask *)

Fixpoint site_mask (t : list site) (f : string) (magic : N) : option N :=
  match t with
  | [] => None
  | (g, m, mask) :: r => if (String.eqb f g && (m =? magic)%N) then Some mask else site_mask r f magic
  end.

(* ------------------------------------------------------------------ handles *)
Record rdata := mkR {
  r_reader : bool;     (* client.reader != NULL *)
  r_filter : N;        (* 0 no filter chain, 1 chain open, 2 chain closed but not freed *)
  r_opens : N;         (* times the client data source was opened (open1 got past the reader test) *)
  r_closes : N;        (* calls of the client close callback *)
  r_rem : Z;           (* archive.read_data_remaining *)
  r_off : Z;           (* archive.read_data_offset *)
  r_out : Z            (* archive.read_data_output_offset *)
}.
Record wdata := mkW {
  w_fmt : bool;        (* format callbacks installed *)
  w_filter : N;        (* client filter: 0 none, 1 open, 2 closed, 3 failed *)
  w_opens : N;         (* successful client open callbacks *)
  w_closes : N;        (* client close callbacks *)
  w_frees : N          (* client free callbacks *)
}.
Record handle := mkH {
  hmagic : N;          (* archive.magic; 0 after free *)
  hstate : N;          (* archive.state *)
  rd : rdata;
  wr : wdata;
  fixups : N;          (* archive_write_disk: fix-up entries not yet applied and released *)
  dw_fd : bool         (* archive_write_disk: the file being restored is open (a->fd >= 0) *)
}.

Definition set_state (h : handle) (s : N) := mkH (hmagic h) s (rd h) (wr h) (fixups h) (dw_fd h).
Definition set_rd (h : handle) (r : rdata) := mkH (hmagic h) (hstate h) r (wr h) (fixups h) (dw_fd h).
Definition set_wr (h : handle) (w : wdata) := mkH (hmagic h) (hstate h) (rd h) w (fixups h) (dw_fd h).
Definition set_fixups (h : handle) (n : N) := mkH (hmagic h) (hstate h) (rd h) (wr h) n (dw_fd h).
Definition set_fd (h : handle) (b : bool) := mkH (hmagic h) (hstate h) (rd h) (wr h) (fixups h) b.
Definition kill (h : handle) := mkH 0%N (hstate h) (rd h) (wr h) (fixups h) (dw_fd h).   (* a->archive.magic = 0; free(a) *)

Definition rd0 := mkR false 0 0 0 0 0 0.
Definition wr0 := mkW false 0 0 0 0.
Definition new_read := mkH ARCHIVE_READ_MAGIC ARCHIVE_STATE_NEW rd0 wr0 0 false.
Definition new_write := mkH ARCHIVE_WRITE_MAGIC ARCHIVE_STATE_NEW rd0 wr0 0 false.
Definition new_read_disk := mkH ARCHIVE_READ_DISK_MAGIC ARCHIVE_STATE_NEW rd0 wr0 0 false.
Definition new_write_disk := mkH ARCHIVE_WRITE_DISK_MAGIC ARCHIVE_STATE_HEADER rd0 wr0 0 false.
Definition new_match := mkH ARCHIVE_MATCH_MAGIC ARCHIVE_STATE_NEW rd0 wr0 0 false.

Inductive result := RAbort | RNoSite | RRet (status : Z) (h : handle).

(* the archive_check_magic macro at the top of function f *)
Definition with_check (t : list site) (f : string) (magic : N) (h : handle) (body : handle -> result) : result :=
  match site_mask t f magic with
  | None => RNoSite
  | Some mask =>
    match check_magic (hmagic h) (hstate h) magic mask with
    | Abort => RAbort
    | Ret st s' => if st =? ARCHIVE_FATAL then RRet ARCHIVE_FATAL (set_state h s') else body h
    end
  end.

Definition bind (r : result) (k : Z -> handle -> result) : result :=
  match r with RRet st h => k st h | other => other end.

Definition has_bit (s bit : N) : bool := negb (N.land s bit =? 0)%N.
Definition zmin_ok (r : Z) : Z := if r <? ARCHIVE_OK then r else ARCHIVE_OK.   (* r = OK; if (r1 < r) r = r1 *)
Definition zlower (r1 r : Z) : Z := if r1 <? r then r1 else r.

Local Open Scope string_scope.
Local Open Scope Z_scope.

(* ------------------------------------------------------------------ generic entry points *)
(* check, then a result that does not touch archive.state *)
Definition op_query t f magic h (r : Z) : result := with_check t f magic h (fun h => RRet r h).
(* archive_write_fail (archive_virtual.c): a->state = FATAL; return a->state *)
Definition op_fail (h : handle) : result := RRet (Z.of_N ARCHIVE_STATE_FATAL) (set_state h ARCHIVE_STATE_FATAL).

Definition ignore_status (r : result) (k : handle -> result) : result :=
  match r with RRet _ h => k h | other => other end.
(* archive_{read,write}_disk_set_standard_lookup: the two setters are checked; a refusal of either
   one ends the call with FATAL (the caches are released) *)
Definition op_pair t f1 f2 magic h : result :=
  bind (op_query t f1 magic h ARCHIVE_OK) (fun s1 h =>
    if negb (s1 =? ARCHIVE_OK) then RRet ARCHIVE_FATAL h
    else bind (op_query t f2 magic h ARCHIVE_OK) (fun s2 h =>
      if negb (s2 =? ARCHIVE_OK) then RRet ARCHIVE_FATAL h else RRet ARCHIVE_OK h)).

(* ------------------------------------------------------------------ archive_read *)
Definition RM := ARCHIVE_READ_MAGIC.

Definition rd_set_read_cb t h : result :=
  with_check t "archive_read_set_read_callback" RM h (fun h =>
    let d := rd h in
    RRet ARCHIVE_OK (set_rd h (mkR true (r_filter d) (r_opens d) (r_closes d) (r_rem d) (r_off d) (r_out d)))).

(* close_filters(): each filter not yet closed is closed once; rc = what the client close returns *)
Definition rd_close_filters (h : handle) (rc : Z) : Z * handle :=
  let d := rd h in
  if (r_filter d =? 1)%N
  then (zmin_ok rc, set_rd h (mkR (r_reader d) 2 (r_opens d) (r_closes d + 1) (r_rem d) (r_off d) (r_out d)))
  else (ARCHIVE_OK, h).

(* __archive_read_free_filters(): close_filters, then free the chain *)
Definition rd_free_filters (h : handle) (rc : Z) : handle :=
  let h1 := snd (rd_close_filters h rc) in
  let d := rd h1 in
  set_rd h1 (mkR (r_reader d) 0 (r_opens d) (r_closes d) (r_rem d) (r_off d) (r_out d)).

(* archive_read_open1: opener_r = client opener result (0 if none), filt_r = choose_filters result,
   fmt_ok = some format bid > 0 *)
Definition rd_open1 t h (opener_r filt_r : Z) (fmt_ok : bool) : result :=
  with_check t "archive_read_open1" RM h (fun h =>
    let d := rd h in
    if negb (r_reader d) then RRet ARCHIVE_FATAL (set_state h ARCHIVE_STATE_FATAL)
    else
      let d1 := mkR true (r_filter d) (r_opens d + 1) (r_closes d) (r_rem d) (r_off d) (r_out d) in
      if negb (opener_r =? 0) then
        (* read_client_close_proxy *)
        RRet opener_r (set_rd h (mkR true (r_filter d) (r_opens d + 1) (r_closes d + 1) (r_rem d) (r_off d) (r_out d)))
      else
        let h1 := set_rd h (mkR true 1 (r_opens d1) (r_closes d1) (r_rem d) (r_off d) (r_out d)) in
        if filt_r <? ARCHIVE_WARN then
          RRet ARCHIVE_FATAL (set_state (rd_free_filters h1 ARCHIVE_OK) ARCHIVE_STATE_FATAL)
        else if negb fmt_ok then
          RRet ARCHIVE_FATAL (set_state (snd (rd_close_filters h1 ARCHIVE_OK)) ARCHIVE_STATE_FATAL)
        else RRet filt_r (set_state h1 ARCHIVE_STATE_HEADER)).

(* archive_read_open_memory2: five setters whose results are ignored, set_callback_data whose refusal
   ends the call with FATAL (the bookkeeping block is released), then archive_read_open1 *)
Definition rd_open_memory t h opener_r filt_r fmt_ok : result :=
  ignore_status (op_query t "archive_read_set_open_callback" RM h ARCHIVE_OK) (fun h =>
  ignore_status (rd_set_read_cb t h) (fun h =>
  ignore_status (op_query t "archive_read_set_seek_callback" RM h ARCHIVE_OK) (fun h =>
  ignore_status (op_query t "archive_read_set_skip_callback" RM h ARCHIVE_OK) (fun h =>
  ignore_status (op_query t "archive_read_set_close_callback" RM h ARCHIVE_OK) (fun h =>
  bind (op_query t "archive_read_set_callback_data2" RM h ARCHIVE_OK) (fun s h =>
  if negb (s =? ARCHIVE_OK) then RRet ARCHIVE_FATAL h else rd_open1 t h opener_r filt_r fmt_ok)))))).

Definition rd_data_skip t h (r : Z) : result :=
  with_check t "archive_read_data_skip" RM h (fun h =>
    RRet (if r =? ARCHIVE_EOF then ARCHIVE_OK else r) (set_state h ARCHIVE_STATE_HEADER)).

Definition reset_read_data (h : handle) : handle :=
  let d := rd h in set_rd h (mkR (r_reader d) (r_filter d) (r_opens d) (r_closes d) 0 0 0).

(* _archive_read_next_header2: r1 = what the format's skip returns (used in state DATA only),
   r2 = what the format's read_header returns *)
Definition rd_next_header t h (r1 r2 : Z) : result :=
  with_check t "_archive_read_next_header2" RM h (fun h =>
    let cont (h : handle) (r1 : Z) :=
      let h' := if r2 =? ARCHIVE_EOF then set_state h ARCHIVE_STATE_EOF
                else if r2 =? ARCHIVE_OK then set_state h ARCHIVE_STATE_DATA
                else if r2 =? ARCHIVE_WARN then set_state h ARCHIVE_STATE_DATA
                else if r2 =? ARCHIVE_RETRY then h
                else if r2 =? ARCHIVE_FATAL then set_state h ARCHIVE_STATE_FATAL
                else h in
      RRet (if (r2 <? r1) || (r2 =? ARCHIVE_EOF) then r2 else r1) (reset_read_data h') in
    if (hstate h =? ARCHIVE_STATE_DATA)%N then
      bind (rd_data_skip t h r1) (fun s1 h1 =>
        if (s1 =? ARCHIVE_EOF) || (s1 =? ARCHIVE_FATAL)
        then RRet ARCHIVE_FATAL (set_state h1 ARCHIVE_STATE_FATAL)
        else cont h1 s1)
    else cont h ARCHIVE_OK).

(* archive_read_data_block called by the client: size/offset go to the caller's variables *)
Definition rd_data_block t magic h (r : Z) : result :=
  with_check t "_archive_read_data_block" magic h (fun h => RRet r h).

(* the same called from archive_read_data: size/offset land in archive.read_data_* *)
Definition rd_block_into t magic h (blk : Z * Z * Z) : result :=
  let '(r, sz, off) := blk in
  with_check t "_archive_read_data_block" magic h (fun h =>
    let d := rd h in
    RRet r (set_rd h (mkR (r_reader d) (r_filter d) (r_opens d) (r_closes d) sz off (r_out d)))).

Definition FUEL_OUT : Z := -9997.

(* archive_read_data (no magic check of its own); sizes only.  One pass of the loop body after the
   refill: zero padding up to the block offset, then copying from the block. *)
Definition rd_pad_copy (h : handle) (s got : Z) : handle * Z * Z :=
  let d := rd h in
  let len := if r_out d + s <? r_off d then s
             else if r_out d <? r_off d then r_off d - r_out d else 0 in
  let s1 := s - len in
  let len2 := if 0 <? s1 then (if s1 <? r_rem d then s1 else r_rem d) else 0 in
  (set_rd h (mkR (r_reader d) (r_filter d) (r_opens d) (r_closes d)
                 (r_rem d - len2) (r_off d + len2) (r_out d + len + len2)),
   s1 - len2, got + len + len2).

Fixpoint rd_read_data_loop (fuel : nat) t magic (h : handle) (s got : Z) (blocks : list (Z * Z * Z)) : result :=
  match fuel with
  | O => RRet FUEL_OUT h
  | S k =>
    if s <=? 0 then RRet got h
    else
      let d := rd h in
      if (r_off d =? r_out d) && (r_rem d =? 0) then
        let blk := match blocks with [] => (ARCHIVE_EOF, 0, r_off d) | b :: _ => b end in
        let rest := match blocks with [] => [] | _ :: r => r end in
        bind (rd_block_into t magic h blk) (fun st h1 =>
          (* end of data ends the call unless the back end reports a trailing hole through the offset *)
          if (st =? ARCHIVE_EOF) && (r_off (rd h1) <=? r_out (rd h1)) then RRet got h1
          else if st <? ARCHIVE_OK then RRet st h1
          else if r_off (rd h1) <? r_out (rd h1) then RRet ARCHIVE_RETRY h1
          else let '(h2, s2, g2) := rd_pad_copy h1 s got in rd_read_data_loop k t magic h2 s2 g2 rest)
      else if r_off d <? r_out d then RRet ARCHIVE_RETRY h
      else let '(h2, s2, g2) := rd_pad_copy h s got in rd_read_data_loop k t magic h2 s2 g2 blocks
  end.

(* a block left over from an earlier call is forgotten unless the handle is in state DATA *)
Definition rd_forget_stale (h : handle) : handle :=
  if (hstate h =? ARCHIVE_STATE_DATA)%N then h
  else let d := rd h in set_rd h (mkR (r_reader d) (r_filter d) (r_opens d) (r_closes d) 0 (r_out d) (r_out d)).

Definition rd_read_data t magic h (s : Z) (blocks : list (Z * Z * Z)) : result :=
  rd_read_data_loop (2 * List.length blocks + 8) t magic (rd_forget_stale h) s 0 blocks.

(* archive_read_data on a real backend: reach = the call gets to archive_read_data_block *)
Definition rd_read_data_obs t magic h (reach : bool) (r : Z) : result :=
  if reach then with_check t "_archive_read_data_block" magic h (fun h => RRet r h) else RRet r h.

Definition rd_seek_data t h (has_seek : bool) (r : Z) : result :=
  with_check t "archive_seek_data" RM h (fun h => if has_seek then RRet r h else RRet ARCHIVE_FATAL h).

Definition rd_close t h (rc : Z) : result :=
  with_check t "_archive_read_close" RM h (fun h =>
    if (hstate h =? ARCHIVE_STATE_CLOSED)%N then RRet ARCHIVE_OK h
    else
      let '(r1, h1) := rd_close_filters (set_state h ARCHIVE_STATE_CLOSED) rc in
      RRet (zmin_ok r1) h1).

Definition rd_free t h (rc : Z) : result :=
  with_check t "_archive_read_free" RM h (fun h =>
    let fin (r : Z) (h : handle) := RRet r (kill (rd_free_filters h rc)) in
    if negb (hstate h =? ARCHIVE_STATE_CLOSED)%N && negb (hstate h =? ARCHIVE_STATE_FATAL)%N
    then bind (rd_close t h rc) fin
    else fin ARCHIVE_OK h).

(* ------------------------------------------------------------------ archive_write *)
Definition WM := ARCHIVE_WRITE_MAGIC.

Definition wr_set_format t f h (r : Z) : result :=
  with_check t f WM h (fun h =>
    let w := wr h in
    RRet r (if r =? ARCHIVE_OK then set_wr h (mkW true (w_filter w) (w_opens w) (w_closes w) (w_frees w)) else h)).

(* archive_write_open2: opener_r = client opener result, init_r = format_init result *)
Definition wr_open t h (opener_r init_r : Z) : result :=
  with_check t "archive_write_open2" WM h (fun h =>
    let w := wr h in
    if opener_r <? ARCHIVE_WARN then
      (* nothing is open; __archive_write_filters_free runs the client free callback *)
      RRet opener_r (set_wr h (mkW (w_fmt w) 0 (w_opens w) (w_closes w) (w_frees w + 1)))
    else
      let ok := opener_r =? ARCHIVE_OK in
      let w1 := mkW (w_fmt w) (if ok then 1 else 3) (if ok then w_opens w + 1 else w_opens w)%N (w_closes w) (w_frees w) in
      RRet (if w_fmt w then init_r else opener_r) (set_state (set_wr h w1) ARCHIVE_STATE_HEADER)).

(* archive_write_open_memory: its own check (the bookkeeping block is allocated after it), then open2 *)
Definition wr_open_memory t h (opener_r init_r : Z) : result :=
  with_check t "archive_write_open_memory" WM h (fun h => wr_open t h opener_r init_r).

Definition wr_finish_entry t h (fe_r : Z) : result :=
  with_check t "_archive_write_finish_entry" WM h (fun h =>
    RRet (if has_bit (hstate h) ARCHIVE_STATE_DATA && w_fmt (wr h) then fe_r else ARCHIVE_OK)
         (set_state h ARCHIVE_STATE_HEADER)).

Definition wr_header t h (fe_r flush_r wh_r : Z) : result :=
  with_check t "_archive_write_header" WM h (fun h =>
    if negb (w_fmt (wr h)) then RRet ARCHIVE_FATAL (set_state h ARCHIVE_STATE_FATAL)
    else
      bind (wr_finish_entry t h fe_r) (fun ret h1 =>
        if ret =? ARCHIVE_FATAL then RRet ARCHIVE_FATAL (set_state h1 ARCHIVE_STATE_FATAL)
        else if (ret <? ARCHIVE_OK) && negb (ret =? ARCHIVE_WARN) then RRet ret h1
        else if flush_r =? ARCHIVE_FAILED then RRet ARCHIVE_FAILED h1
        else if flush_r =? ARCHIVE_FATAL then RRet ARCHIVE_FATAL (set_state h1 ARCHIVE_STATE_FATAL)
        else
          let ret := zlower flush_r ret in
          if wh_r =? ARCHIVE_FAILED then RRet ARCHIVE_FAILED h1
          else if wh_r =? ARCHIVE_FATAL then RRet ARCHIVE_FATAL (set_state h1 ARCHIVE_STATE_FATAL)
          else RRet (zlower wh_r ret) (set_state h1 ARCHIVE_STATE_DATA))).

Definition wr_data t h (r : Z) : result := with_check t "_archive_write_data" WM h (fun h => RRet r h).

(* __archive_write_filters_close: only an OPEN client filter is closed (client close callback) *)
Definition wr_filters_close (h : handle) (cl_r : Z) : Z * handle :=
  let w := wr h in
  if (w_filter w =? 1)%N
  then (zmin_ok cl_r,
        set_wr h (mkW (w_fmt w) (if cl_r =? ARCHIVE_OK then 2 else 3) (w_opens w) (w_closes w + 1) (w_frees w)))
  else (ARCHIVE_OK, h).

Definition wr_close t h (fe_r fc_r cl_r : Z) : result :=
  with_check t "_archive_write_close" WM h (fun h =>
    if (hstate h =? ARCHIVE_STATE_NEW)%N || (hstate h =? ARCHIVE_STATE_CLOSED)%N then RRet ARCHIVE_OK h
    else
      let r := if (hstate h =? ARCHIVE_STATE_DATA)%N && w_fmt (wr h) then fe_r else ARCHIVE_OK in
      let r := if w_fmt (wr h) then zlower fc_r r else r in
      let '(r1, h1) := wr_filters_close h cl_r in
      RRet (zlower r1 r)
           (if (hstate h1 =? ARCHIVE_STATE_FATAL)%N then h1 else set_state h1 ARCHIVE_STATE_CLOSED)).

(* __archive_write_filters_free: the client free callback, once, if the client filter exists *)
Definition wr_filters_free (h : handle) : handle :=
  let w := wr h in
  if (w_filter w =? 0)%N then h
  else set_wr h (mkW (w_fmt w) 0 (w_opens w) (w_closes w) (w_frees w + 1)).

Definition wr_free t h (fe_r fc_r cl_r ff_r : Z) : result :=
  with_check t "_archive_write_free" WM h (fun h =>
    let fin (r : Z) (h : handle) :=
      RRet (if w_fmt (wr h) then zlower ff_r r else r) (kill (wr_filters_free h)) in
    if negb (hstate h =? ARCHIVE_STATE_FATAL)%N
    then bind (wr_close t h fe_r fc_r cl_r) fin
    else
      (* a failed writer is not finished, but its filters are closed; the worst status is kept *)
      let '(r1, h1) := wr_filters_close h cl_r in fin (zlower r1 ARCHIVE_OK) h1).

(* ------------------------------------------------------------------ archive_read_disk *)
Definition RDM := ARCHIVE_READ_DISK_MAGIC.

Definition dr_open t h (ok : bool) : result :=
  with_check t "archive_read_disk_open" RDM h (fun h =>
    if ok then RRet ARCHIVE_OK (set_state h ARCHIVE_STATE_HEADER)
    else RRet ARCHIVE_FATAL (set_state h ARCHIVE_STATE_FATAL)).

Definition dr_next_header t h (r : Z) (sparse_ok : bool) : result :=
  with_check t "_archive_read_next_header2" RDM h (fun h =>
    if r =? ARCHIVE_EOF then RRet r (reset_read_data (set_state h ARCHIVE_STATE_EOF))
    else if (r =? ARCHIVE_OK) || (r =? ARCHIVE_WARN) then
      if sparse_ok then RRet r (reset_read_data (set_state h ARCHIVE_STATE_DATA))
      else RRet ARCHIVE_FATAL (set_state h ARCHIVE_STATE_FATAL)
    else if r =? ARCHIVE_FATAL then RRet r (reset_read_data (set_state h ARCHIVE_STATE_FATAL))
    else RRet r (reset_read_data h)).

Definition dr_data_block t h (r : Z) : result :=
  with_check t "_archive_read_data_block" RDM h (fun h =>
    RRet r (if r =? ARCHIVE_FATAL then set_state h ARCHIVE_STATE_FATAL else h)).

Definition dr_close t h : result :=
  with_check t "_archive_read_close" RDM h (fun h =>
    RRet ARCHIVE_OK (if (hstate h =? ARCHIVE_STATE_FATAL)%N then h else set_state h ARCHIVE_STATE_CLOSED)).

Definition dr_free t h : result :=
  with_check t "_archive_read_free" RDM h (fun h =>
    if negb (hstate h =? ARCHIVE_STATE_CLOSED)%N
    then bind (dr_close t h) (fun r h1 => RRet r (kill h1))
    else RRet ARCHIVE_OK (kill h)).

(* ------------------------------------------------------------------ archive_write_disk *)
Definition WDM := ARCHIVE_WRITE_DISK_MAGIC.

(* early = one of the error returns in the middle (ftruncate/lseek/write/stat failed): the file is
   closed, the entry stays current (state DATA) *)
Definition dw_finish_entry t h (r : Z) (early : bool) : result :=
  with_check t "_archive_write_disk_finish_entry" WDM h (fun h =>
    if has_bit (hstate h) ARCHIVE_STATE_HEADER then RRet ARCHIVE_OK h
    else if early then RRet r (set_fd h false)
    else RRet r (set_state (set_fd h false) ARCHIVE_STATE_HEADER)).

(* early = the function returns before restore_entry (cleanup_pathname / self hard link /
   check_symlinks); newfix = a fix-up entry is queued; opens_fd = the restored object is a file that
   stays open for its data *)
Definition dw_header t h (fin_r : Z) (fin_early : bool) (early : bool) (ret : Z) (newfix opens_fd : bool) : result :=
  with_check t "_archive_write_disk_header" WDM h (fun h =>
    let body (h1 : handle) : result :=
      let h1 := set_fd h1 false in                      (* a->fd = -1 *)
      if early then RRet ret h1
      else
        let h2 := if newfix then set_fixups h1 (fixups h1 + 1) else h1 in
        RRet ret (if ARCHIVE_WARN <=? ret then set_state (set_fd h2 opens_fd) ARCHIVE_STATE_DATA else h2) in
    if has_bit (hstate h) ARCHIVE_STATE_DATA then
      bind (dw_finish_entry t h fin_r fin_early) (fun r h1 => if r =? ARCHIVE_FATAL then RRet r h1 else body h1)
    else body h).

Definition dw_data t h (r : Z) : result := with_check t "_archive_write_disk_data" WDM h (fun h => RRet r h).
Definition dw_data_block t h (r : Z) : result :=
  with_check t "_archive_write_disk_data_block" WDM h (fun h => RRet r h).

(* the fix-up list is applied and released here *)
Definition dw_close t h (fin_r : Z) (fin_early : bool) : result :=
  with_check t "_archive_write_disk_close" WDM h (fun h =>
    bind (dw_finish_entry t h fin_r fin_early) (fun ret h1 => RRet ret (set_fixups h1 0))).

(* _archive_write_disk_free: ret = _archive_write_disk_close(a) (its own check included); a failed
   handle is refused by close, so free itself drops the open file and the fix-ups; then the object is
   released whatever close said *)
Definition dw_free t h (fin_r : Z) (fin_early : bool) : result :=
  with_check t "_archive_write_disk_free" WDM h (fun h =>
    bind (dw_close t h fin_r fin_early) (fun ret h1 =>
      let h2 := if (hstate h1 =? ARCHIVE_STATE_FATAL)%N then set_fixups (set_fd h1 false) 0 else h1 in
      RRet ret (kill h2))).

(* ------------------------------------------------------------------ archive_match *)
Definition m_free t h : result :=
  with_check t "archive_match_free" ARCHIVE_MATCH_MAGIC h (fun h => RRet ARCHIVE_OK (kill h)).

(* ------------------------------------------------------------------ operations *)
Inductive op :=
| OQuery (f : string) (magic : N) (r : Z)   (* entry point that checks, then does not touch state *)
| ONoCheck (r : Z)                          (* entry point without a check (error accessors, ...) *)
| OFail                                     (* archive_write_fail *)
| OPair (f1 f2 : string) (magic : N)        (* *_set_standard_lookup: two checked setters, results ignored, returns OK *)
| RSetReadCb
| ROpen1 (opener_r filt_r : Z) (fmt_ok : bool)
| ROpenMem (opener_r filt_r : Z) (fmt_ok : bool)
| RNextHeader (r1 r2 : Z)
| RDataBlock (r : Z)
| RReadData (s : Z) (blocks : list (Z * Z * Z))
| RReadDataObs (magic : N) (reach : bool) (r : Z)
| RDataSkip (r : Z)
| RSeekData (has_seek : bool) (r : Z)
| RClose (rc : Z)
| RFree (rc : Z)
| WSetFormat (f : string) (r : Z)
| WOpen (opener_r init_r : Z)
| WOpenMem (opener_r init_r : Z)
| WHeader (fe_r flush_r wh_r : Z)
| WData (r : Z)
| WFinishEntry (fe_r : Z)
| WClose (fe_r fc_r cl_r : Z)
| WFree (fe_r fc_r cl_r ff_r : Z)
| DROpen (ok : bool)
| DRNextHeader (r : Z) (sparse_ok : bool)
| DRDataBlock (r : Z)
| DRClose
| DRFree
| DWHeader (fin_r : Z) (fin_early : bool) (early : bool) (ret : Z) (newfix opens_fd : bool)
| DWData (r : Z)
| DWDataBlock (r : Z)
| DWFinishEntry (r : Z) (early : bool)
| DWClose (fin_r : Z) (fin_early : bool)
| DWFree (fin_r : Z) (fin_early : bool)
| MFree.

Definition step (t : list site) (h : handle) (o : op) : result :=
  match o with
  | OQuery f magic r => op_query t f magic h r
  | ONoCheck r => RRet r h
  | OFail => op_fail h
  | OPair f1 f2 magic => op_pair t f1 f2 magic h
  | RSetReadCb => rd_set_read_cb t h
  | ROpen1 a b c => rd_open1 t h a b c
  | ROpenMem a b c => rd_open_memory t h a b c
  | RNextHeader r1 r2 => rd_next_header t h r1 r2
  | RDataBlock r => rd_data_block t RM h r
  | RReadData s bl => rd_read_data t RM h s bl
  | RReadDataObs m reach r => rd_read_data_obs t m h reach r
  | RDataSkip r => rd_data_skip t h r
  | RSeekData hs r => rd_seek_data t h hs r
  | RClose rc => rd_close t h rc
  | RFree rc => rd_free t h rc
  | WSetFormat f r => wr_set_format t f h r
  | WOpen a b => wr_open t h a b
  | WOpenMem a b => wr_open_memory t h a b
  | WHeader a b c => wr_header t h a b c
  | WData r => wr_data t h r
  | WFinishEntry r => wr_finish_entry t h r
  | WClose a b c => wr_close t h a b c
  | WFree a b c d => wr_free t h a b c d
  | DROpen ok => dr_open t h ok
  | DRNextHeader r s => dr_next_header t h r s
  | DRDataBlock r => dr_data_block t h r
  | DRClose => dr_close t h
  | DRFree => dr_free t h
  | DWHeader a b c d e f => dw_header t h a b c d e f
  | DWData r => dw_data t h r
  | DWDataBlock r => dw_data_block t h r
  | DWFinishEntry r e => dw_finish_entry t h r e
  | DWClose r e => dw_close t h r e
  | DWFree r e => dw_free t h r e
  | MFree => m_free t h
  end.

(* the first check an operation performs: (C function, expected magic); None = no check at all *)
Definition entry_site (o : op) : option (string * N) :=
  match o with
  | OQuery f magic _ => Some (f, magic)
  | ONoCheck _ | OFail => None
  | OPair _ _ _ => None
  | RSetReadCb => Some ("archive_read_set_read_callback", RM)
  | ROpen1 _ _ _ => Some ("archive_read_open1", RM)
  | ROpenMem _ _ _ => None      (* composite: six setters, then archive_read_open1 *)
  | RNextHeader _ _ => Some ("_archive_read_next_header2", RM)
  | RDataBlock _ => Some ("_archive_read_data_block", RM)
  | RReadData _ _ => None
  | RReadDataObs _ _ _ => None
  | RDataSkip _ => Some ("archive_read_data_skip", RM)
  | RSeekData _ _ => Some ("archive_seek_data", RM)
  | RClose _ => Some ("_archive_read_close", RM)
  | RFree _ => Some ("_archive_read_free", RM)
  | WSetFormat f _ => Some (f, WM)
  | WOpen _ _ => Some ("archive_write_open2", WM)
  | WOpenMem _ _ => Some ("archive_write_open_memory", WM)
  | WHeader _ _ _ => Some ("_archive_write_header", WM)
  | WData _ => Some ("_archive_write_data", WM)
  | WFinishEntry _ => Some ("_archive_write_finish_entry", WM)
  | WClose _ _ _ => Some ("_archive_write_close", WM)
  | WFree _ _ _ _ => Some ("_archive_write_free", WM)
  | DROpen _ => Some ("archive_read_disk_open", RDM)
  | DRNextHeader _ _ => Some ("_archive_read_next_header2", RDM)
  | DRDataBlock _ => Some ("_archive_read_data_block", RDM)
  | DRClose => Some ("_archive_read_close", RDM)
  | DRFree => Some ("_archive_read_free", RDM)
  | DWHeader _ _ _ _ _ _ => Some ("_archive_write_disk_header", WDM)
  | DWData _ => Some ("_archive_write_disk_data", WDM)
  | DWDataBlock _ => Some ("_archive_write_disk_data_block", WDM)
  | DWFinishEntry _ _ => Some ("_archive_write_disk_finish_entry", WDM)
  | DWClose _ _ => Some ("_archive_write_disk_close", WDM)
  | DWFree _ _ => Some ("_archive_write_disk_free", WDM)
  | MFree => Some ("archive_match_free", ARCHIVE_MATCH_MAGIC)
  end.

(* ------------------------------------------------------------------ running a program *)
Definition ABORTED : Z := -9999.
Definition NO_SITE : Z := -9998.

(* per call: (the call, status, handle after the call); the run stops at abort() *)
Fixpoint run_ops (t : list site) (h : handle) (ops : list op) : list (op * Z * handle) :=
  match ops with
  | [] => []
  | o :: rest =>
    match step t h o with
    | RRet st h' => (o, st, h') :: run_ops t h' rest
    | RAbort => [(o, ABORTED, h)]
    | RNoSite => [(o, NO_SITE, h)]
    end
  end.

(* ------------------------------------------------------------------ decidable table obligations *)
Definition mem_str (f : string) (l : list string) : bool := existsb (String.eqb f) l.

(* every site that lets a FAILED handle in is on the allow list *)
Definition well_formed (t : list site) (allow : list string) : bool :=
  forallb (fun s : site => let '(f, _, mask) := s in
             negb (has_bit mask ARCHIVE_STATE_FATAL) || mem_str f allow) t.

(* functions allowed on a failed handle: close and free of each kind.  Error inspection
   (archive_errno, archive_error_string, archive_clear_error, archive_format, archive_filter_*,
   archive_file_count ...) has no check at all and therefore no row in the table. *)
Definition allow_list : list string :=
  [ "_archive_read_close";         (* archive_read_close, reader and disk reader (vtable)       *)
    "_archive_read_free";          (* archive_read_free,  reader and disk reader                *)
    "_archive_write_close";        (* archive_write_close on a writer                           *)
    "_archive_write_free";         (* archive_write_free  on a writer                           *)
    "_archive_write_disk_free";    (* archive_write_free  on a disk writer                      *)
    "archive_match_free" ].        (* archive_match_free                                        *)

Definition all_states : list N :=
  [ARCHIVE_STATE_NEW; ARCHIVE_STATE_HEADER; ARCHIVE_STATE_DATA; ARCHIVE_STATE_EOF;
   ARCHIVE_STATE_CLOSED; ARCHIVE_STATE_FATAL].

Definition accepts_all (mask : N) : bool := forallb (fun s => has_bit s mask) all_states.

Definition site_accepts_all (t : list site) (fm : string * N) : bool :=
  match site_mask t (fst fm) (snd fm) with Some mask => accepts_all mask | None => false end.

(* the entry points that can put a reader into HEADER or DATA refuse EOF, CLOSED and FATAL *)
Definition STICKY : N := N.lor ARCHIVE_STATE_EOF (N.lor ARCHIVE_STATE_CLOSED ARCHIVE_STATE_FATAL).
Definition refuses_sticky (t : list site) (f : string) : bool :=
  match site_mask t f RM with Some mask => (N.land mask STICKY =? 0)%N | None => true end.
Definition reader_sites_ok (t : list site) : bool :=
  refuses_sticky t "archive_read_open1" && refuses_sticky t "_archive_read_next_header2" &&
  refuses_sticky t "archive_read_data_skip".

(* archive_write_open2 is accepted in state NEW only *)
Definition wopen_only_new (t : list site) : bool :=
  match site_mask t "archive_write_open2" WM with Some mask => (mask =? ARCHIVE_STATE_NEW)%N | None => true end.

Definition close_free_sites : list (string * N) :=
  [ ("_archive_read_close", RM); ("_archive_read_free", RM);
    ("_archive_write_close", WM); ("_archive_write_free", WM);
    ("_archive_read_close", RDM); ("_archive_read_free", RDM);
    ("_archive_write_disk_free", WDM); ("archive_match_free", ARCHIVE_MATCH_MAGIC) ].
