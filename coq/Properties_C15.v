(* C15 - ACLs survive conversion to text and back.
   Property theorems only; each is closed by [exact] of a lemma of Entry/Acl{Len,Parse,Round}.v.

   The model (Entry/AclDefs.v) has four switches fxl fxw fxs fxm: [false] = the code of the pinned tree,
   [true] = the code after the repair proposed in /verif/fixes/C15-*.diff (see the head of AclDefs.v).
   Theorems are stated for all values of the switches where that is true, and with the precise
   condition where it is not; the [_refuted] theorems give the failing input for the pinned code.
   [wide = true] is the wchar_t variant (archive_acl_to_text_w / archive_acl_from_text_w),
   [wide = false] the char variant (archive_acl_to_text_l / archive_acl_from_text_nl). *)
From Coq Require Import List ZArith NArith Bool.
From LA Require Import Base.Val Gen.Defines Gen.AclConsts Entry.AclDefs Entry.AclProofs.
Import ListNotations.
Local Open Scope N_scope.

(* ================================================================ 1. the serialiser stays inside its buffer
   [text_len_of] = what archive_acl_text_len returns = the number of characters malloc'ed,
   [to_text] = the characters written before the terminating NUL.  "+ 1" is the NUL.  Since the
   writes are consecutive from index 0, the bound on the final length bounds every write, and
   "len > length - 1" (__archive_errx "Buffer overrun") is unreachable.
   [acl_wf]: the invariant of acl_new_entry (known tag, type bits recorded in acl_types). *)

(* wchar_t variant: every ACL, every flag word *)
Theorem C15_len_bound_wide : forall fxl a flags t,
  acl_wf a = true -> to_text fxl true a flags = Some t ->
  N.of_nat (length t) + 1 <= text_len_of fxl true a flags.
Proof. intros fxl a flags t Hwf. exact (len_bound_gen fxl true a flags t Hwf (safe_wide fxl flags a)). Qed.
Print Assumptions C15_len_bound_wide.

(* both variants, every ACL, every style "that includes ids" (the property's hypothesis) *)
Theorem C15_len_bound_with_ids : forall fxl wide a flags t,
  acl_wf a = true -> bit flags ACL_STYLE_EXTRA_ID = true -> to_text fxl wide a flags = Some t ->
  N.of_nat (length t) + 1 <= text_len_of fxl wide a flags.
Proof. intros fxl wide a flags t Hwf Hx. exact (len_bound_gen fxl wide a flags t Hwf (safe_extra_id fxl wide flags a Hx)). Qed.
Print Assumptions C15_len_bound_with_ids.

(* char variant of the pinned tree without EXTRA_ID: proved for exactly the ACLs it handles -
   [acl_safe false false]: no nameless NFSv4 user/group entry with an id >= 10^6.
   What is missing for "all ACLs" is false, see C15_len_bound_refuted. *)
Theorem C15_len_bound_char_partial : forall a flags t,
  acl_wf a = true -> acl_safe false false flags a = true -> to_text false false a flags = Some t ->
  N.of_nat (length t) + 1 <= text_len_of false false a flags.
Proof. exact (len_bound_gen false false). Qed.
Print Assumptions C15_len_bound_char_partial.

(* the pinned char variant overruns its buffer: one ALLOW entry for a nameless user with id
   1234567, flags = 0, built with archive_acl_add_entry: 48 characters allocated, 51 written *)
Theorem C15_len_bound_refuted :
  exists a flags t, reachable a /\ to_text false false a flags = Some t /\
                    text_len_of false false a flags < N.of_nat (length t) + 1.
Proof.
  exists overrun_acl, 0. destruct overrun_witness as [Hr (t & H1 & H2)]. exists t. auto.
Qed.
Print Assumptions C15_len_bound_refuted.

(* with the repair of archive_acl_text_len: every ACL, every flag word, both variants *)
Theorem C15_len_bound_repaired : forall wide a flags t,
  acl_wf a = true -> to_text true wide a flags = Some t ->
  N.of_nat (length t) + 1 <= text_len_of true wide a flags.
Proof. intros wide a flags t Hwf. exact (len_bound_gen true wide a flags t Hwf (safe_fixed wide flags a)). Qed.
Print Assumptions C15_len_bound_repaired.

(* the invariant holds for everything archive_acl_add_entry can build *)
Theorem C15_reachable_wf : forall a, reachable a -> acl_wf a = true.
Proof. exact reachable_wf. Qed.
Print Assumptions C15_reachable_wf.

(* ================================================================ 2. the parser is total and stays inside the text *)
(* NUL-terminated entry points of the pinned tree, char variant (archive_entry_acl_from_text):
   every text, every type argument, every ACL to add to: returns a status *)
Theorem C15_parser_total_char : forall fxm text want a,
  exists st a', from_text false false false fxm text want a = PRet st a'.
Proof.
  intros. unfold from_text. apply parser_total_gen; [right; right; discriminate|left; reflexivity].
Qed.
Print Assumptions C15_parser_total_char.

(* general form: [sent] is the character at index [length text] (what follows the length-limited
   text of archive_acl_from_text_nl).  [no_spin]: wchar_t variant, or next_field repaired, or that
   character is not ':'.  No NULL dereference: char variant, or archive_acl_from_text_w repaired. *)
Theorem C15_parser_total : forall wide fxw fxs fxm sent text want a,
  no_spin wide fxs sent -> (wide = false \/ fxw = true) ->
  exists st a', from_text_nl wide fxw fxs fxm sent text want a = PRet st a'.
Proof. exact parser_total_gen. Qed.
Print Assumptions C15_parser_total.

(* every (start, end) pair the field loop stores points into the text: start is a suffix of the
   text, end - start does not exceed what is left; the rest handed to the next iteration is a
   suffix too.  (The characters are lists in the model: apart from these sub-ranges the only
   thing read is [peek sent []], the character at index [length text].) *)
Theorem C15_parser_in_bounds : forall wide fxs sent numfields text p fuel fs n p',
  suffix p text ->
  collect fuel wide fxs sent numfields p 0 [] = Some (fs, n, p') ->
  Forall (in_range text) fs /\ suffix p' text.
Proof. exact fields_in_text. Qed.
Print Assumptions C15_parser_in_bounds.

(* pinned char variant: "user::rwx" of length 9 followed in memory by ':' - the field loop never
   ends (C: until the int [fields] overflows, then field[fields] is stored out of bounds).
   Reached from a pax header whose SCHILY.acl.* record ends in ':' instead of newline. *)
Theorem C15_parser_total_nl_refuted :
  exists text, from_text_nl false false false false c_colon text ACL_TYPE_ACCESS (acl_empty 0) = PHang.
Proof. exists t_user_rwx. exact hang_witness. Qed.
Print Assumptions C15_parser_total_nl_refuted.

(* pinned wchar_t variant: the text L"d" - NULL pointer dereference *)
Theorem C15_parser_total_wide_refuted :
  exists text, from_text true false false false text ACL_TYPE_ACCESS (acl_empty 0) = PCrash.
Proof. exists [c_d]. exact crash_witness. Qed.
Print Assumptions C15_parser_total_wide_refuted.

(* malformed entries: one pass of the loop body either adds one entry or leaves the ACL alone and
   sets the status to ARCHIVE_WARN *)
Theorem C15_posix_entry_added_or_warned : forall wide fxw fxm sent want fs fields a ret types a' ret' types',
  fs <> [] ->
  parse_posix wide fxw fxm sent want fs fields a ret types = ENext a' ret' types' ->
  step_ok a ret types a' ret' types'.
Proof. exact parse_posix_step. Qed.
Print Assumptions C15_posix_entry_added_or_warned.

Theorem C15_nfs4_entry_added_or_warned : forall wide fs a ret types a' ret' types',
  parse_nfs4 wide fs a ret types = ENext a' ret' types' -> step_ok a ret types a' ret' types'.
Proof. exact parse_nfs4_step. Qed.
Print Assumptions C15_nfs4_entry_added_or_warned.

(* ================================================================ 3. round trip *)
(* POSIX.1e ACLs (access and default entries), both variants, pinned and repaired code, every
   style flag combination that includes EXTRA_ID (no type bits in the flags: both kinds of entry
   are written, "default:" is forced by to_text), parsed with type ACCESS into an empty entry:
   status OK, the nine permission bits of the mode, and the list of entries - in order - with
   type, tag, permissions, id and name of each ([norm]: a nameless user/group entry comes back
   with its id as name; an entry without qualifier with id -1).
   [acl_rt]: the entries are POSIX.1e entries; a name, if given, contains no NUL, white space,
   ',' ':' newline or '#' and is not a number; user/group ids are in 0..2^31-1 (or -1 next to a name).
   [distinct_slots]: no two entries share (type, tag, id) - the invariant of acl_new_entry. *)
Theorem C15_roundtrip_posix : forall wide fxl fxw fxs fxm a flags t,
  acl_rt a -> within (atypes a) ACL_TYPE_POSIX1E = true ->
  distinct_slots (map norm (emitted ACL_TYPE_POSIX1E a)) = true ->
  bit flags ACL_TYPE_ACCESS = false -> bit flags ACL_TYPE_DEFAULT = false ->
  bit flags ACL_STYLE_EXTRA_ID = true ->
  to_text fxl wide a flags = Some t ->
  from_text wide fxw fxs fxm t ACL_TYPE_ACCESS (acl_empty 0) =
  PRet ARCHIVE_OK (mkAcl (N.land (amode a) 511) (map norm (emitted ACL_TYPE_POSIX1E a))
                         (lor_types (emitted ACL_TYPE_POSIX1E a))).
Proof. exact roundtrip_posix_gen. Qed.
Print Assumptions C15_roundtrip_posix.

(* what [norm] keeps: type and tag always; the permissions of a POSIX.1e entry; id and name of a
   user/group entry with a name *)
Theorem C15_norm_keeps : forall e,
  etype (norm e) = etype e /\ etag (norm e) = etag e /\
  (within (eperm e) 7 = true -> eperm (norm e) = eperm e) /\
  (is_ug (etag e) = true -> eid (norm e) = eid e /\ (ename e <> [] -> ename (norm e) = ename e)).
Proof.
  intros e. unfold norm, parsed_id, parsed_name. cbn [etype etag eperm eid ename].
  repeat split.
  - apply perm3_value_small.
  - rewrite H. reflexivity.
  - rewrite H. destruct (ename e); [congruence|reflexivity].
Qed.
Print Assumptions C15_norm_keeps.

(* The property's hypothesis excludes colon, comma and white space from names, not '#'.
   user "foo#bar" (id 1000, r--), EXTRA_ID: the text is ...user:foo#bar:r--:1000, parsing it
   gives ARCHIVE_WARN and no entry. *)
Definition hash_acl : acl :=
  snd (add_entry (acl_empty 420) ACL_TYPE_ACCESS ACL_READ ACL_USER 1000 [102; 111; 111; 35; 98; 97; 114]).
Theorem C15_roundtrip_hash_refuted :
  exists a flags t, reachable a /\ bit flags ACL_STYLE_EXTRA_ID = true /\
    (forall e, In e (aents a) -> forallb (fun c => negb (is_ws c || (c =? c_colon) || (c =? c_comma))) (ename e) = true
                                 /\ numeric (ename e) = false) /\
    to_text false false a flags = Some t /\
    from_text false false false false t ACL_TYPE_ACCESS (acl_empty 0) = PRet ARCHIVE_WARN (mkAcl 420 [] 0).
Proof.
  exists hash_acl, ACL_STYLE_EXTRA_ID. eexists. split; [apply reach_add; apply reach_empty|].
  split; [reflexivity|]. split.
  - intros e [He|[]]. subst e. split; reflexivity.
  - split; [vm_compute; reflexivity|vm_compute; reflexivity].
Qed.
Print Assumptions C15_roundtrip_hash_refuted.

(* the same for every POSIX.1e ACL that can be built with archive_acl_add_entry / set_mode: the slots
   are distinct by construction ([plain_ids]: entries without qualifier were added with id -1) *)
Theorem C15_roundtrip_posix_reachable : forall wide fxl fxw fxs fxm a flags t,
  reachable a -> acl_rt a -> plain_ids (aents a) ->
  bit flags ACL_TYPE_ACCESS = false -> bit flags ACL_TYPE_DEFAULT = false ->
  bit flags ACL_STYLE_EXTRA_ID = true ->
  to_text fxl wide a flags = Some t ->
  from_text wide fxw fxs fxm t ACL_TYPE_ACCESS (acl_empty 0) =
  PRet ARCHIVE_OK (mkAcl (N.land (amode a) 511) (map norm (emitted ACL_TYPE_POSIX1E a))
                         (lor_types (emitted ACL_TYPE_POSIX1E a))).
Proof. exact roundtrip_posix_reachable. Qed.
Print Assumptions C15_roundtrip_posix_reachable.

(* NFSv4 ACLs (allow / deny / audit / alarm entries for user, group, owner@, group@, everyone@; any
   subset of the 14 permission and 7 inheritance bits), both variants, pinned and repaired code,
   every flag word with EXTRA_ID (compact or not, comma or newline), parsed with type NFS4 into an
   entry with any mode: status OK, the mode untouched, every entry back in order ([norm4]: as
   [norm], the permission set unchanged).  The proof uses the generated letter tables only through
   the decidable predicate [nfs4_tables_ok] (each letter is read back as the bit of its row, rows
   are single bits and cover exactly PERMS_NFS4 | INHERITANCE_NFS4, letters are not separators). *)
Theorem C15_roundtrip_nfs4 : forall wide fxl fxw fxs fxm a flags t m0,
  Forall entry_rt4 (aents a) ->
  bit (atypes a) ACL_TYPE_NFS4 = true -> bit (atypes a) ACL_TYPE_POSIX1E = false ->
  bit flags ACL_STYLE_EXTRA_ID = true ->
  to_text fxl wide a flags = Some t ->
  from_text wide fxw fxs fxm t ACL_TYPE_NFS4 (acl_empty m0) =
  PRet ARCHIVE_OK (mkAcl m0 (map norm4 (aents a)) (lor_types (aents a))).
Proof. exact roundtrip_nfs4_gen. Qed.
Print Assumptions C15_roundtrip_nfs4.

Theorem C15_nfs4_tables : nfs4_tables_ok = true.
Proof. exact nfs4_tables_ok_true. Qed.
Print Assumptions C15_nfs4_tables.

(* ================================================================ non-vacuity *)
(* an ACL that meets every hypothesis of C15_roundtrip_posix, with access and default entries,
   named and nameless qualifiers, a non-ASCII name; wchar_t variant with comma and Solaris style *)
Definition ex_acl : acl :=
  fold_left (fun a x => let '(ty, pm, tg, id, nm) := x in snd (add_entry a ty pm tg id nm))
    [(ACL_TYPE_ACCESS, 7, ACL_USER_OBJ, (-1)%Z, []);
     (ACL_TYPE_ACCESS, 5, ACL_USER, 1000%Z, [106; 111; 101]);
     (ACL_TYPE_ACCESS, 4, ACL_GROUP, 2147483647%Z, []);
     (ACL_TYPE_ACCESS, 7, ACL_MASK, (-1)%Z, []);
     (ACL_TYPE_DEFAULT, 6, ACL_USER, (-1)%Z, [26085; 26412]);
     (ACL_TYPE_DEFAULT, 1, ACL_OTHER, (-1)%Z, [])]
    (acl_empty 420).
Definition ex_flags : N := N.lor ACL_STYLE_EXTRA_ID (N.lor ACL_STYLE_SOLARIS ACL_STYLE_SEPARATOR_COMMA).
Definition ex_text : str := match to_text false true ex_acl ex_flags with Some t => t | None => [] end.
Example C15_nonvacuous_hyps :
  (acl_wf ex_acl && distinct_slots (map norm (emitted ACL_TYPE_POSIX1E ex_acl)) &&
   Nat.eqb (length (aents ex_acl)) 5 && (amode ex_acl =? 484) && Nat.eqb (length ex_text) 116) = true.
Proof. vm_compute. reflexivity. Qed.
Example C15_nonvacuous_roundtrip :
  from_text true false false false ex_text ACL_TYPE_ACCESS (acl_empty 0) =
  PRet ARCHIVE_OK (mkAcl 484 (map norm (aents ex_acl)) ACL_TYPE_POSIX1E).
Proof. vm_compute. reflexivity. Qed.

Definition ex_acl4 : acl :=
  fold_left (fun a x => let '(ty, pm, tg, id, nm) := x in snd (add_entry a ty pm tg id nm))
    [(ACL_TYPE_ALLOW, N.lor ACL_READ_DATA ACL_ENTRY_FILE_INHERIT, ACL_USER, 1000%Z, [106; 111; 101]);
     (ACL_TYPE_DENY, N.lor ACL_PERMS_NFS4 ACL_INHERITANCE_NFS4, ACL_GROUP, 1234567%Z, []);
     (ACL_TYPE_AUDIT, 0, ACL_EVERYONE, (-1)%Z, []);
     (ACL_TYPE_ALARM, ACL_SYNCHRONIZE, ACL_USER_OBJ, (-1)%Z, [])]
    (acl_empty 420).
Definition ex_text4 : str :=
  match to_text false false ex_acl4 (N.lor ACL_STYLE_EXTRA_ID ACL_STYLE_COMPACT) with Some t => t | None => [] end.
Example C15_nonvacuous_nfs4 :
  (Nat.eqb (length (aents ex_acl4)) 4 && Nat.eqb (length ex_text4) 107 &&
   bit (atypes ex_acl4) ACL_TYPE_NFS4 && negb (bit (atypes ex_acl4) ACL_TYPE_POSIX1E)) = true /\
  from_text false false false false ex_text4 ACL_TYPE_NFS4 (acl_empty 7) =
  PRet ARCHIVE_OK (mkAcl 7 (map norm4 (aents ex_acl4)) ACL_TYPE_NFS4).
Proof. split; vm_compute; reflexivity. Qed.
