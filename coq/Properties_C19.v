(* C19 - Safe-writes extraction replaces files atomically, and leaves no temporary file behind.
   Property theorems only; each is closed by [exact]/[apply] of a lemma of FS/SafeWriteProofs.v.

   The model (FS/SafeWriteDefs.v) is the SAFE_WRITES extraction of one regular-file entry over an
   existing regular file, as a program of system calls with every error branch of restore_entry,
   la_mktemp, write_data_block, finish_entry, close/free; a run is parameterised by a fault plan
   (position in the call trace -> errno | short write) and yields the trace of calls with the
   file-system state after each call.  [variant] selects which of the four repairs
   fixes/C19-*.diff the code contains; [tree_variant] (Gen/SafeWrite.v) is read from the tree
   under test on every run.  [wf cfg]: every data_block offset lies inside the declared size
   (otherwise write_data_block computes a negative size_t - outside the model and outside C19).
   Scope: one entry, pathname without directory part, permission bits <= 0777, options SAFE_WRITES
   [| PERM | TIME | OWNER | SPARSE]; "instant" = system-call boundary; kernel durability after
   power loss is not modelled. *)
From Coq Require Import List ZArith NArith Bool Arith.
From LA Require Import Base.Val FS.SafeWriteDefs FS.SafeWriteProofs Gen.SafeWrite.
Import ListNotations.

(* ---- 1. crash atomicity without faults: for ALL previous contents, declared sizes, block lists
   (sparse, short, long, out of order), options and client policies, and for every variant of the
   code, after every prefix of the trace the target name refers to the complete previous file or to
   the complete new file (= what the target refers to after the fault-free extraction). *)
Theorem C19_atomic_at_every_prefix : forall v cfg, wf cfg = true ->
  Forall (old_or_new v cfg) (states cfg (sw_run v cfg no_faults)).
Proof. intros v cfg _. exact (atomic_at_every_prefix v cfg). Qed.
Print Assumptions C19_atomic_at_every_prefix.

(* ---- 2. the same under faults.  For every variant and EVERY fault plan (any number of failing calls,
   short writes included) no crash point shows a partial file of the run in progress: the target is
   the previous file until the one rename, and what the run finally leaves from then on. *)
Theorem C19_old_or_final_under_any_plan : forall v cfg p, wf cfg = true ->
  Forall (fun f => target_content f = Some (c_old cfg) \/
                   target_content f = target_content (final_fs (sw_run v cfg p)))
         (states cfg (sw_run v cfg p)).
Proof. intros v cfg p _. exact (old_or_final v cfg p). Qed.
Print Assumptions C19_old_or_final_under_any_plan.

(* With the repairs write-fail-rename and lazy-stat-tmpname, what a faulted run finally leaves is the
   complete previous file or the complete new file: for every plan of failing calls (any number, any
   errno).  Short writes are not failures and are covered by theorem 2 only. *)
Theorem C19_atomic_under_faults : forall v cfg p, wf cfg = true ->
  fix_write v = true -> fix_lstat v = true -> errno_only p ->
  Forall (old_or_new v cfg) (states cfg (sw_run v cfg p)).
Proof. intros v cfg p _. exact (atomic_under_faults v cfg p). Qed.
Print Assumptions C19_atomic_under_faults.

(* ---- 3. no temporary file is left: with the repairs la-mktemp-fchmod and finish-early-return, for
   ALL fault plans, after finish_entry, close and free no name with the temp prefix remains - unless
   an unlink(2) of the temporary file itself was made to fail, which no code can repair. *)
Theorem C19_no_temp_left : forall v cfg p, wf cfg = true ->
  fix_mktemp v = true -> fix_finish v = true ->
  unlinks_ok (sw_run v cfg p) = true -> temp_left (final_fs (sw_run v cfg p)) = false.
Proof. intros v cfg p _. exact (no_temp_left v cfg p). Qed.
Print Assumptions C19_no_temp_left.

(* ---- refutations: the pinned code (variant [unfixed]) and partially repaired variants *)
Definition b_old3 : content := [79; 76; 68]%N.                                    (* "OLD" *)
Definition b_old12 : content := (b_old3 ++ b_old3 ++ b_old3 ++ b_old3)%list.
Definition b_hello : content := [104; 101; 108; 108; 111]%N.
Definition b_world : content := [119; 111; 114; 108; 100]%N.
(* declared size 10, body "hello" "world" in two blocks: open lstat mkstemp fchmod write write fchmod close rename *)
Definition cfg_two_blocks : config :=
  mkConfig b_old3 420 false false false false (Some 10) false 18 4096 true [(false, 0, b_hello); (false, 5, b_world)].
(* declared size 10, body "hello" only, previous file of 12 bytes:
   open lstat mkstemp fchmod write ftruncate fstat fchmod close rename *)
Definition cfg_short_body : config :=
  mkConfig b_old12 420 false false false false (Some 10) false 18 4096 true [(false, 0, b_hello)].
Definition ENOSPC := 28. Definition EIO := 5.

(* F-C19-3: the second body write fails with ENOSPC; archive_write_data_block returns ARCHIVE_WARN,
   finish_entry pads the temp with zeros, returns ARCHIVE_OK and renames it over the target *)
Theorem C19_atomic_under_faults_refuted : exists cfg p,
  wf cfg = true /\ errno_only p /\
  let o := sw_run unfixed cfg p in
  o_data o = [ARCHIVE_OK; ARCHIVE_WARN] /\ o_finish o = ARCHIVE_OK /\
  target_content (final_fs o) = Some (b_hello ++ [0; 0; 0; 0; 0])%N /\
  new_complete unfixed cfg = Some (b_hello ++ b_world) /\ c_old cfg = b_old3.
Proof.
  exists cfg_two_blocks, (plan_of [(5, FErr ENOSPC)]).
  split; [reflexivity|]. split; [apply errno_only_plan_of; reflexivity|].
  vm_compute. repeat split; reflexivity.
Qed.
Print Assumptions C19_atomic_under_faults_refuted.

(* the same with only write-fail-rename repaired, two faults: ftruncate and fstat fail, lazy_stat falls
   back to lstat(a->name) = the 12-byte PREVIOUS file, concludes that nothing has to be extended and
   the 5-byte temp replaces the target *)
Theorem C19_atomic_under_faults_refuted_without_lstat_fix : exists cfg p,
  wf cfg = true /\ errno_only p /\
  let v := mkVariant true true true false in
  target_content (final_fs (sw_run v cfg p)) = Some b_hello /\
  new_complete v cfg = Some (b_hello ++ [0; 0; 0; 0; 0])%N.
Proof.
  exists cfg_short_body, (plan_of [(5, FErr EIO); (6, FErr EIO)]).
  split; [reflexivity|]. split; [apply errno_only_plan_of; reflexivity|].
  vm_compute. split; reflexivity.
Qed.
Print Assumptions C19_atomic_under_faults_refuted_without_lstat_fix.

(* F-C19-1: la_mktemp, fchmod fails: the temp is closed but not unlinked *)
Theorem C19_no_temp_left_refuted_la_mktemp_fchmod : exists cfg p,
  wf cfg = true /\
  let o := sw_run unfixed cfg p in
  unlinks_ok o = true /\ o_header o = ARCHIVE_FAILED /\ temp_left (final_fs o) = true.
Proof.
  exists cfg_two_blocks, (plan_of [(3, FErr EPERM)]). split; [reflexivity|].
  vm_compute. repeat split; reflexivity.
Qed.
Print Assumptions C19_no_temp_left_refuted_la_mktemp_fchmod.

(* F-C19-2: the error returns of finish_entry (reachable after a tolerated failure of ftruncate or
   fstat) close the descriptor and leave the temp; shown with la_mktemp already repaired *)
Theorem C19_no_temp_left_refuted_finish_returns :
  let v := mkVariant true false false false in
  let left p := let o := sw_run v cfg_short_body (plan_of p) in
                (unlinks_ok o && temp_left (final_fs o))%bool in
  left [(5, FErr EIO); (7, FErr EIO)] = true /\      (* ftruncate fails, lseek fails   -> ARCHIVE_FATAL *)
  left [(5, FErr EIO); (8, FErr ENOSPC)] = true /\   (* ftruncate fails, write fails   -> ARCHIVE_FATAL *)
  left [(6, FErr EIO); (7, FErr EIO)] = true.        (* fstat and lstat fail (lazy_stat) -> ARCHIVE_WARN *)
Proof. vm_compute. repeat split; reflexivity. Qed.
Print Assumptions C19_no_temp_left_refuted_finish_returns.

(* ---- non-vacuity: concrete runs of the fully repaired code that meet the hypotheses *)
Example C19_nonvacuous :
  let o0 := sw_run all_fixed cfg_two_blocks no_faults in
  let o1 := sw_run all_fixed cfg_two_blocks (plan_of [(5, FErr ENOSPC)]) in
  let o2 := sw_run all_fixed cfg_short_body (plan_of [(5, FErr EIO); (7, FErr EIO)]) in
  length (trace o0) = 9 /\ target_content (final_fs o0) = Some (b_hello ++ b_world) /\
  length (trace o1) = 11 /\ unlinks_ok o1 = true /\ o_finish o1 = ARCHIVE_FAILED /\
  target_content (final_fs o1) = Some b_old3 /\ temp_left (final_fs o1) = false /\
  unlinks_ok o2 = true /\ o_finish o2 = ARCHIVE_FATAL /\ temp_left (final_fs o2) = false /\
  target_content (final_fs o2) = Some b_old12 /\
  wf cfg_two_blocks = true /\ wf cfg_short_body = true.
Proof. vm_compute. repeat split; reflexivity. Qed.

(* ---- LAST (so that everything above is still checked on an unrepaired tree): the tree under test
   contains the four repairs, so 2 and 3 hold of it.  These two obligations fail to check on a tree
   without the repairs (props/C19.py then reports the concrete fault plans). *)
Theorem C19_tree_atomic_under_faults : forall cfg p, wf cfg = true -> errno_only p ->
  Forall (old_or_new tree_variant cfg) (states cfg (sw_run tree_variant cfg p)).
Proof. intros cfg p H He. apply (C19_atomic_under_faults tree_variant cfg p H); [reflexivity|reflexivity|exact He]. Qed.
Print Assumptions C19_tree_atomic_under_faults.

Theorem C19_tree_no_temp_left : forall cfg p, wf cfg = true ->
  unlinks_ok (sw_run tree_variant cfg p) = true -> temp_left (final_fs (sw_run tree_variant cfg p)) = false.
Proof. intros cfg p H. apply (C19_no_temp_left tree_variant cfg p H); reflexivity. Qed.
Print Assumptions C19_tree_no_temp_left.
