(* C04 - confinement proofs on the FS model.
   Part 1: resolution along "safe" names.  Part 2: every mutating system call whose resolved
   directory lies under the target is an [ext] step.  Part 3: check_symlinks establishes [safe].
   Part 4: create_dir / create_filesystem_object / restore_entry / header / finish.
   Part 5: the theorems (step confinement, refutation witnesses, fixed close). *)
From Coq Require Import List ZArith NArith Bool Lia.
From LA Require Import Gen.FsSecConsts FS.SanitizeDefs FS.SanitizeProofs FS.FsModel FS.FsLemmas FS.RestoreDefs.
Import ListNotations.

(* ================================================================== Part 1: walking *)
Definition normal (c : name) : Prop := c <> [] /\ is_dot c = false /\ is_dotdot c = false.

Lemma walk_nil : forall links r cur follow, walk links r cur [] follow = WDir cur.
Proof. intros. destruct links; reflexivity. Qed.

Lemma walk_cons : forall links r cur c rest follow,
  walk links r cur (c :: rest) follow =
  if is_dot c then walk links r cur rest follow
  else if is_dotdot c then walk links r (removelast cur) rest follow
  else if Nat.ltb NAME_MAX (length c) then WErr ENAMETOOLONG
  else match get cur r with
       | Some (Dir es _ _) =>
         match lookup c es with
         | None => match rest with [] => WEnt cur c None | _ => WErr ENOENT end
         | Some (Dir es' m' t') =>
             match rest with [] => WEnt cur c (Some (Dir es' m' t')) | _ => walk links r (cur ++ [c]) rest follow end
         | Some (Symlink t) =>
             if (match rest with [] => negb follow | _ => false end)
             then WEnt cur c (Some (Symlink t))
             else match links with
                  | O => WErr ELOOP
                  | S l' =>
                      if is_empty t then WErr ENOENT
                      else if Nat.leb PATH_MAX (length t) then WErr ENAMETOOLONG
                      else walk l' r (if is_abs t then [] else cur) (p_comps (parse t) ++ rest) follow
                  end
         | Some (Leaf ff i d m t) =>
             match rest with [] => WEnt cur c (Some (Leaf ff i d m t)) | _ => WErr ENOTDIR end
         end
       | _ => WErr ENOENT
       end.
Proof. intros. destruct links; reflexivity. Qed.

Definition safe (r : node) (cwd q : list name) : Prop :=
  forall k, (k < length q)%nat -> dir_or_none (get (cwd ++ firstn k q) r).

Inductive wshape (r : node) (cwd q : list name) : wres -> Prop :=
| WsErr : forall e, wshape r cwd q (WErr e)
| WsEnt : forall q' k, q = q' ++ [k] -> wshape r cwd q (WEnt (cwd ++ q') k (get (cwd ++ q) r)).

Lemma safe_tail : forall r cwd c rest, safe r cwd (c :: rest) -> safe r (cwd ++ [c]) rest.
Proof.
  intros r cwd c rest H k Hk. specialize (H (S k)). cbn [firstn length] in H.
  rewrite <- app_assoc. cbn [app]. apply H. lia.
Qed.

Lemma walk_safe : forall links r q cwd follow,
  Forall normal q -> q <> [] -> is_dir_opt (get cwd r) -> safe r cwd q ->
  (follow = false \/ nosym (get (cwd ++ q) r)) ->
  wshape r cwd q (walk links r cwd q follow).
Proof.
  intros links r q. induction q as [|c rest IH]; intros cwd follow Hn Hne Hd Hs Hf; [congruence|].
  inversion Hn as [|? ? (Hc0 & Hc1 & Hc2) Hn']; subst.
  rewrite walk_cons, Hc1, Hc2.
  destruct (Nat.ltb NAME_MAX (length c)); [constructor|].
  destruct Hd as (es & m & t & Hd). rewrite Hd.
  assert (Hl : get (cwd ++ [c]) r = lookup c es) by (eapply get_snoc_dir; eauto).
  destruct rest as [|c2 rest2].
  - (* last component *)
    assert (Hsh : forall o, o = lookup c es -> wshape r cwd [c] (WEnt cwd c o)).
    { intros o ->. rewrite <- Hl. pose proof (WsEnt r cwd [c] [] c eq_refl) as W.
      rewrite app_nil_r in W. exact W. }
    destruct (lookup c es) as [[ff i d mm tt|es' m' t'|tg]|] eqn:El; try (apply Hsh; reflexivity).
    destruct follow; cbn [negb]; [|apply Hsh; reflexivity].
    destruct Hf as [Hf|Hf]; [discriminate|]. exfalso. rewrite Hl in Hf. now apply (Hf tg).
  - (* an intermediate component *)
    destruct (lookup c es) as [[ff i d mm tt|es' m' t'|tg]|] eqn:El; try constructor.
    + (* directory: descend *)
      assert (W : wshape r (cwd ++ [c]) (c2 :: rest2) (walk links r (cwd ++ [c]) (c2 :: rest2) follow)).
      { apply IH; [exact Hn'|discriminate| |now apply safe_tail|].
        - rewrite Hl. now exists es', m', t'.
        - rewrite <- app_assoc. exact Hf. }
      inversion W as [e He|q' k Hq He]; [constructor|].
      rewrite <- !app_assoc. cbn [app].
      apply (WsEnt r cwd (c :: c2 :: rest2) (c :: q') k). cbn [app]. now rewrite Hq.
    + (* a symlink in intermediate position contradicts safe *)
      exfalso. specialize (Hs 1%nat). cbn [firstn length] in Hs. rewrite Hl in Hs. apply Hs. lia.
Qed.

Lemma walk_dot : forall links r cwd follow, walk links r cwd [[DOT]] follow = WDir cwd.
Proof. intros. rewrite walk_cons. change (is_dot [DOT]) with true. cbv iota. apply walk_nil. Qed.

(* the prefixes of a safe name are safe *)
Lemma safe_firstn : forall r cwd q m, safe r cwd q -> safe r cwd (firstn m q).
Proof.
  intros r cwd q m H k Hk. rewrite firstn_length in Hk. rewrite firstn_firstn.
  replace (Nat.min k m) with k by lia. apply H. lia.
Qed.

Lemma Forall_firstn : forall A (P : A -> Prop) l m, Forall P l -> Forall P (firstn m l).
Proof.
  intros A P l. induction l as [|x l IH]; intros m H; destruct m; cbn; try constructor.
  - now inversion H.
  - apply IH. now inversion H.
Qed.

(* a directory at T ++ done: every prefix is a directory too *)
Lemma get_prefix_dir : forall r p p', is_dir_opt (get (p ++ p') r) -> is_dir_opt (get p r).
Proof.
  intros r p. revert r. induction p as [|k p IH]; intros r p' H.
  - cbn [app] in H. cbn [get]. destruct H as (es & m & t & H).
    destruct p' as [|a p']; [cbn in H; injection H as ->; now eexists _, _, _|].
    cbn [get] in H. destruct r as [| es' m' t' |]; try discriminate. now eexists _, _, _.
  - cbn [app get] in *. destruct r as [| es m t |]; try (destruct H as (? & ? & ? & H); discriminate).
    destruct (lookup k es) as [c|]; [now apply IH in H|]. destruct H as (? & ? & ? & H); discriminate.
Qed.

Lemma safe_extend : forall r T done rest,
  is_dir_opt (get (T ++ done) r) -> safe r (T ++ done) rest -> safe r T (done ++ rest).
Proof.
  intros r T done rest Hd Hs k Hk.
  destruct (Nat.le_gt_cases k (length done)) as [Hle|Hgt].
  - rewrite firstn_app. replace (k - length done)%nat with 0%nat by lia. cbn [firstn]. rewrite app_nil_r.
    assert (Hd' : is_dir_opt (get (T ++ firstn k done) r)).
    { apply (get_prefix_dir r (T ++ firstn k done) (skipn k done)).
      now rewrite <- app_assoc, firstn_skipn. }
    destruct Hd' as (es & m & t & ->). exact I.
  - rewrite firstn_app, firstn_all2 by lia. rewrite app_assoc. apply Hs.
    rewrite app_length in Hk. lia.
Qed.

(* ================================================================== Part 2: system calls *)
(* what a resolution result must look like for the call to be confined *)
Definition wok (T : list name) (r : node) (w : wres) : Prop :=
  match w with
  | WErr _ => True
  | WDir d => is_prefix T d
  | WEnt d k o => is_prefix T d /\ o = get (d ++ [k]) r
  end.
Definition wdepth (D : nat) (w : wres) : Prop :=
  match w with WEnt d _ _ => (length d + 1 = D)%nat | _ => True end.

Lemma wshape_wok : forall T r cwd q w, is_prefix T cwd -> wshape r cwd q w -> wok T r w /\ wdepth (length cwd + length q) w.
Proof.
  intros T r cwd q w Hp H. destruct H as [e|q' k Hq]; [split; exact I|]. cbn. repeat split.
  - now apply is_prefix_app.
  - subst q. now rewrite <- app_assoc.
  - subst q. rewrite !app_length. cbn. lia.
Qed.

Section Ops.
  Variable T : list name.
  Variable O : N -> Prop.
  Variable D : nat.

  Lemma get_none_sub : forall a P' ff i d m t, get (a :: P') (Leaf ff i d m t) = None.
  Proof. reflexivity. Qed.

  Lemma ext_create_at : forall sy fs cwd p mk derr,
    wok T (root fs) (resolve (root fs) cwd p false) ->
    (forall ni, (ni <= snd (mk ni))%N) ->
    (forall i, O i -> (i < nino fs)%N) ->
    (forall ni, (forall i, O i -> (i < ni)%N) -> allin (fun i => ~ O i) (fst (mk ni))) ->
    (forall ni a P', get (a :: P') (fst (mk ni)) = None) ->
    (wdepth D (resolve (root fs) cwd p false) \/ forall ni, exists es m t, fst (mk ni) = Dir es m t) ->
    (sy = false -> forall ni, not_symlink (fst (mk ni))) ->
    ext T O D sy fs (snd (create_at fs cwd p mk derr)).
  Proof.
    intros sy fs cwd p mk derr Hw Hmk Hb Hcl Hsub Hdep Hsy. unfold create_at.
    destruct (resolve (root fs) cwd p false) as [e|d|d k [o|]]; cbn [snd]; try apply ext_refl.
    destruct (mk (nino fs)) as [n ni] eqn:Emk. cbn [snd].
    destruct Hw as [Hpre _].
    apply ext_add_ent.
    - exact Hpre.
    - specialize (Hmk (nino fs)). now rewrite Emk in Hmk.
    - specialize (Hcl (nino fs) Hb). now rewrite Emk in Hcl.
    - intros a P'. specialize (Hsub (nino fs) a P'). now rewrite Emk in Hsub.
    - destruct Hdep as [Hdep|Hdep]; [left; exact Hdep|right]. specialize (Hdep (nino fs)). now rewrite Emk in Hdep.
    - intros E. specialize (Hsy E (nino fs)). now rewrite Emk in Hsy.
  Qed.

  Lemma ext_mkdir : forall fs cwd p m,
    wok T (root fs) (resolve (root fs) cwd p false) -> (forall i, O i -> (i < nino fs)%N) ->
    ext T O D false fs (snd (sys_mkdir fs cwd p m)).
  Proof.
    intros. unfold sys_mkdir. apply ext_create_at; auto.
    - intros. apply N.le_refl.
    - intros. exact I.
    - right. intros. now eexists _, _, _.
    - intros _ ni t. discriminate.
  Qed.

  Lemma ext_mkfifo : forall fs cwd p m,
    wok T (root fs) (resolve (root fs) cwd p false) -> wdepth D (resolve (root fs) cwd p false) ->
    (forall i, O i -> (i < nino fs)%N) ->
    ext T O D false fs (snd (sys_mkfifo fs cwd p m)).
  Proof.
    intros. unfold sys_mkfifo. apply ext_create_at; auto.
    - intros. cbn. lia.
    - intros ni Hni. cbn. intros Hi. apply Hni in Hi. lia.
    - intros _ ni t. discriminate.
  Qed.

  Lemma ext_open_creat : forall fs cwd p m,
    wok T (root fs) (resolve (root fs) cwd p false) -> wdepth D (resolve (root fs) cwd p false) ->
    (forall i, O i -> (i < nino fs)%N) ->
    ext T O D false fs (snd (sys_open_creat_excl fs cwd p m)).
  Proof.
    intros. unfold sys_open_creat_excl. apply ext_create_at; auto.
    - intros. cbn. lia.
    - intros ni Hni. cbn. intros Hi. apply Hni in Hi. lia.
    - intros _ ni t. discriminate.
  Qed.

  Lemma ext_symlink : forall fs cwd tg p,
    wok T (root fs) (resolve (root fs) cwd p false) -> wdepth D (resolve (root fs) cwd p false) ->
    (forall i, O i -> (i < nino fs)%N) ->
    ext T O D true fs (snd (sys_symlink fs cwd tg p)).
  Proof.
    intros. unfold sys_symlink. destruct (is_empty tg); [apply ext_refl|].
    apply ext_create_at; auto.
    - intros. apply N.le_refl.
    - intros. exact I.
    - discriminate.
  Qed.

  Lemma ext_unlink : forall fs cwd p,
    wok T (root fs) (resolve (root fs) cwd p false) ->
    ext T O D false fs (snd (sys_unlink fs cwd p)).
  Proof.
    intros fs cwd p Hw. unfold sys_unlink.
    destruct (resolve (root fs) cwd p false) as [e|d|d k [[| |]|]]; cbn [snd]; try apply ext_refl;
      destruct Hw as [Hpre _]; now apply ext_del_ent.
  Qed.

  Lemma ext_rmdir : forall fs cwd p,
    wok T (root fs) (resolve (root fs) cwd p false) ->
    ext T O D false fs (snd (sys_rmdir fs cwd p)).
  Proof.
    intros fs cwd p Hw. unfold sys_rmdir.
    destruct (resolve (root fs) cwd p false) as [e|d|d k [[| [|] |]|]]; cbn [snd]; try apply ext_refl.
    destruct Hw as [Hpre _]. now apply ext_del_ent.
  Qed.

  (* the object found at a confined place carries no outside inode *)
  Lemma inside_leaf_clean : forall r d k n,
    inclean T O r -> is_prefix T d -> get (d ++ [k]) r = Some n -> allin (fun i => ~ O i) n.
  Proof.
    intros r d k n Hc [P ->] Hg. rewrite <- app_assoc, get_app in Hg.
    destruct (get T r) as [c|] eqn:E; [|discriminate].
    eapply allin_get; [|exact Hg]. now apply Hc.
  Qed.

  Lemma ext_fd_op : forall fs i f,
    allin O (prune T (root fs)) -> ~ O i ->
    ext T O D false fs (mkFs (map_ino i f (root fs)) (nino fs)).
  Proof. intros. now apply ext_map_ino. Qed.

  Lemma ext_chmod : forall fs cwd p m,
    wok T (root fs) (resolve (root fs) cwd p true) ->
    allin O (prune T (root fs)) -> inclean T O (root fs) ->
    ext T O D false fs (snd (sys_chmod fs cwd p m)).
  Proof.
    intros fs cwd p m Hw Hout Hcl. unfold sys_chmod.
    destruct (resolve (root fs) cwd p true) as [e|d|d k [[ff i dd mm tt|es mm tt|tg]|]]; cbn [snd]; try apply ext_refl.
    - apply (ext_upd_attr T O D fs d (fun _ t => (m, t))). exact Hw.
    - destruct Hw as [Hpre Ho]. unfold fd_chmod. apply ext_map_ino; [exact Hout|].
      symmetry in Ho. apply (inside_leaf_clean _ _ _ _ Hcl Hpre) in Ho. exact Ho.
    - destruct Hw as [Hpre _]. apply (ext_upd_attr T O D fs (d ++ [k]) (fun _ t => (m, t))).
      now apply is_prefix_app.
  Qed.

  Lemma ext_utimens : forall fs cwd p t',
    wok T (root fs) (resolve (root fs) cwd p false) ->
    allin O (prune T (root fs)) -> inclean T O (root fs) ->
    ext T O D false fs (snd (sys_utimens_nofollow fs cwd p t')).
  Proof.
    intros fs cwd p t' Hw Hout Hcl. unfold sys_utimens_nofollow.
    destruct (resolve (root fs) cwd p false) as [e|d|d k [[ff i dd mm tt|es mm tt|tg]|]]; cbn [snd]; try apply ext_refl.
    - apply (ext_upd_attr T O D fs d (fun m _ => (m, t'))). exact Hw.
    - destruct Hw as [Hpre Ho]. unfold fd_utimens. apply ext_map_ino; [exact Hout|].
      symmetry in Ho. apply (inside_leaf_clean _ _ _ _ Hcl Hpre) in Ho. exact Ho.
    - destruct Hw as [Hpre _]. apply (ext_upd_attr T O D fs (d ++ [k]) (fun m _ => (m, t'))).
      now apply is_prefix_app.
  Qed.

  (* link: the new name is confined; the source object must be clean (it is when it is inside) *)
  Lemma ext_link : forall fs cwd old new,
    wok T (root fs) (resolve (root fs) cwd new false) -> wdepth D (resolve (root fs) cwd new false) ->
    (forall src, sys_stat fs cwd old false = inr src -> is_dir_node src = true \/ allin (fun i => ~ O i) src) ->
    ext T O D true fs (snd (sys_link fs cwd old new)).
  Proof.
    intros fs cwd old new Hw Hd Hsrc. unfold sys_link.
    destruct (sys_stat fs cwd old false) as [e|src] eqn:Es; cbn [snd]; [apply ext_refl|].
    destruct (resolve (root fs) cwd new false) as [e|d|d k [o|]]; cbn [snd]; try apply ext_refl.
    destruct src as [ff i dd mm tt|es mm tt|tg]; cbn [snd]; try apply ext_refl.
    - destruct Hw as [Hpre _]. apply ext_add_ent; auto.
      + apply N.le_refl.
      + destruct (Hsrc _ eq_refl) as [H|H]; [discriminate|exact H].
      + discriminate.
    - destruct Hw as [Hpre _]. apply ext_add_ent; auto.
      + apply N.le_refl.
      + exact I.
      + discriminate.
  Qed.
End Ops.
Lemma ends_with_slash_app : forall a b, b <> [] -> ends_with_slash (a ++ b) = ends_with_slash b.
Proof.
  intros a b H. unfold ends_with_slash. rewrite rev_app_distr.
  destruct (rev b) as [|x rb] eqn:E; [|reflexivity].
  apply (f_equal (@rev N)) in E. rewrite rev_involutive in E. cbn in E. congruence.
Qed.

Lemma ends_with_slash_join : forall k,
  Forall (fun c => c <> [] /\ ~ In SLASH c) k -> k <> [] -> ends_with_slash (join k) = false.
Proof.
  induction k as [|c k IH]; intros H Hne; [congruence|].
  inversion H as [|? ? [Hc1 Hc2] Hk]; subst. destruct k as [|d k].
  - cbn [join]. unfold ends_with_slash. destruct (rev c) as [|x rc] eqn:E.
    + reflexivity.
    + apply N.eqb_neq. intros ->. apply Hc2. apply in_rev. rewrite E. now left.
  - change (join (c :: d :: k)) with (c ++ SLASH :: join (d :: k)).
    change (c ++ SLASH :: join (d :: k)) with (c ++ [SLASH] ++ join (d :: k)).
    rewrite app_assoc, ends_with_slash_app.
    + apply IH; [assumption|discriminate].
    + inversion Hk as [|? ? [Hd _] _]; subst. rewrite join_tailj. destruct d; [congruence|discriminate].
Qed.

(* ================================================================== Part 3: names, contexts, check_symlinks *)
Definition nondot (c : name) : bool := negb (is_dot c).

Lemma filter_nondot_normal : forall q, Forall normal q -> filter nondot q = q.
Proof.
  induction q as [|c q IH]; intros H; [reflexivity|]. inversion H as [|? ? (_ & Hd & _) Hq]; subst.
  cbn [filter]. unfold nondot at 1. rewrite Hd. cbn [negb]. f_equal. now apply IH.
Qed.

Lemma last_cons_ne : forall (c : name) rest, rest <> [] -> last (c :: rest) [] = last rest [].
Proof. intros c [|d rest] H; [congruence|reflexivity]. Qed.

Lemma filter_nondot_ne : forall rest, rest <> [] -> is_dot (last rest []) = false -> filter nondot rest <> [].
Proof.
  induction rest as [|c rest IH]; intros Hne Hl; [congruence|].
  cbn [filter]. destruct (nondot c) eqn:E; [discriminate|].
  destruct rest as [|d rest].
  - cbn [last] in Hl. unfold nondot in E. rewrite Hl in E. discriminate.
  - apply IH; [discriminate|]. now rewrite last_cons_ne in Hl by discriminate.
Qed.

Lemma walk_safe_dotted : forall links r cs cwd follow,
  Forall normal (filter nondot cs) -> filter nondot cs <> [] -> is_dot (last cs []) = false ->
  is_dir_opt (get cwd r) -> safe r cwd (filter nondot cs) ->
  (follow = false \/ nosym (get (cwd ++ filter nondot cs) r)) ->
  wshape r cwd (filter nondot cs) (walk links r cwd cs follow).
Proof.
  intros links r cs. induction cs as [|c rest IH]; intros cwd follow Hn Hne Hlast Hd Hs Hf; [cbn in Hne; congruence|].
  cbn [filter] in *. assert (End : nondot c = negb (is_dot c)) by reflexivity. rewrite End in *. clear End.
  destruct (is_dot c) eqn:Edot; cbn [negb] in *.
  - (* a "." component is skipped *)
    rewrite walk_cons, Edot.
    assert (Hr : rest <> []) by (intros ->; cbn in Hne; congruence).
    apply IH; auto. now rewrite last_cons_ne in Hlast.
  - inversion Hn as [|? ? (Hc0 & Hc1 & Hc2) Hn']; subst.
    rewrite walk_cons, Hc1, Hc2.
    destruct (Nat.ltb NAME_MAX (length c)); [constructor|].
    destruct Hd as (es & m & t & Hd). rewrite Hd.
    assert (Hl : get (cwd ++ [c]) r = lookup c es) by (eapply get_snoc_dir; eauto).
    destruct rest as [|c2 rest2].
    + cbn [filter] in *.
      assert (Hsh : forall o, o = lookup c es -> wshape r cwd [c] (WEnt cwd c o)).
      { intros o ->. rewrite <- Hl. pose proof (WsEnt r cwd [c] [] c eq_refl) as W.
        rewrite app_nil_r in W. exact W. }
      destruct (lookup c es) as [[ff i d mm tt|es' m' t'|tg]|] eqn:El; try (apply Hsh; reflexivity).
      destruct follow; cbn [negb]; [|apply Hsh; reflexivity].
      destruct Hf as [Hf|Hf]; [discriminate|]. exfalso. rewrite Hl in Hf. now apply (Hf tg).
    + assert (Hlast' : is_dot (last (c2 :: rest2) []) = false) by (now rewrite last_cons_ne in Hlast by discriminate).
      assert (Hq2 : filter nondot (c2 :: rest2) <> []) by (apply filter_nondot_ne; [discriminate|assumption]).
      destruct (lookup c es) as [[ff i d mm tt|es' m' t'|tg]|] eqn:El; try constructor.
      * assert (W : wshape r (cwd ++ [c]) (filter nondot (c2 :: rest2)) (walk links r (cwd ++ [c]) (c2 :: rest2) follow)).
        { apply IH; auto.
          - rewrite Hl. now exists es', m', t'.
          - now apply safe_tail.
          - rewrite <- app_assoc. exact Hf. }
        inversion W as [e He|q' k Hq He]; [constructor|].
        rewrite <- !app_assoc. cbn [app].
        apply (WsEnt r cwd (c :: filter nondot (c2 :: rest2)) (c :: q') k). cbn [app]. now rewrite Hq.
      * exfalso. specialize (Hs 1%nat). cbn [firstn length] in Hs. rewrite Hl in Hs. apply Hs.
        destruct (filter nondot (c2 :: rest2)); [congruence|cbn; lia].
Qed.

(* a path ending in "." (or a trailing slash) never resolves to a non-directory entry *)
Lemma walk_trailing_dot : forall links r cs cur follow,
  match walk links r cur (cs ++ [[DOT]]) follow with WEnt _ _ _ => False | _ => True end.
Proof.
  induction links as [|l IHl]; intros r cs; induction cs as [|c rest IH]; intros cur follow.
  - cbn [app]. now rewrite walk_dot.
  - cbn [app]. rewrite walk_cons.
    destruct (is_dot c); [apply IH|]. destruct (is_dotdot c); [apply IH|].
    destruct (Nat.ltb NAME_MAX (length c)); [exact I|].
    destruct (get cur r) as [[| es m t |]|]; try exact I.
    destruct (lookup c es) as [[ff i d mm tt|es' m' t'|tg]|].
    + destruct (rest ++ [[DOT]]) eqn:E; [now destruct rest|exact I].
    + destruct (rest ++ [[DOT]]) eqn:E; [now destruct rest|]. apply IH.
    + destruct (rest ++ [[DOT]]) eqn:E; [now destruct rest|exact I].
    + destruct (rest ++ [[DOT]]) eqn:E; [now destruct rest|exact I].
  - cbn [app]. now rewrite walk_dot.
  - cbn [app]. rewrite walk_cons.
    destruct (is_dot c); [apply IH|]. destruct (is_dotdot c); [apply IH|].
    destruct (Nat.ltb NAME_MAX (length c)); [exact I|].
    destruct (get cur r) as [[| es m t |]|]; try exact I.
    destruct (lookup c es) as [[ff i d mm tt|es' m' t'|tg]|].
    + destruct (rest ++ [[DOT]]) eqn:E; [now destruct rest|exact I].
    + destruct (rest ++ [[DOT]]) eqn:E; [now destruct rest|]. apply IH.
    + destruct (rest ++ [[DOT]]) eqn:E; [now destruct rest|].
      destruct (is_empty tg); [exact I|]. destruct (Nat.leb PATH_MAX (length tg)); [exact I|].
      rewrite <- E, app_assoc. apply IHl.
    + destruct (rest ++ [[DOT]]) eqn:E; [now destruct rest|exact I].
Qed.

Section Step.
  Variable T : list name.
  Variable O : N -> Prop.

  Record ctx (fs : fsys) : Prop := mkCtx {
    c_dir : is_dir_opt (get T (root fs));
    c_out : allin O (prune T (root fs));
    c_cl : inclean T O (root fs);
    c_b : forall i, O i -> (i < nino fs)%N }.

  Lemma ctx_ext : forall D sy fs fs', ctx fs -> ext T O D sy fs fs' -> ctx fs'.
  Proof.
    intros D sy fs fs' [d o c b] [p n dd cc f y]. constructor.
    - apply dd; [apply is_prefix_refl|exact d].
    - now rewrite p.
    - now apply cc.
    - intros i Hi. eapply N.lt_le_trans; [now apply b|exact n].
  Qed.

  Lemma safe_ext : forall q sy fs fs',
    safe (root fs) T q -> ext T O (length T + length q) sy fs fs' -> safe (root fs') T q.
  Proof.
    intros q sy fs fs' Hs E k Hk. apply (ext_safe _ _ _ _ _ _ E); [|now apply Hs].
    rewrite app_length, firstn_length. lia.
  Qed.

  (* the facts about a name (component list q relative to T) that make calls on it confined *)
  Definition nfacts (q : list name) (fs : fsys) : Prop :=
    q = [[DOT]] \/ (Forall normal q /\ q <> [] /\ safe (root fs) T q).
  Definition nfinal (q : list name) (fs : fsys) : Prop :=
    q = [[DOT]] \/ nosym (get (T ++ q) (root fs)).

  Lemma nfacts_ext : forall q sy fs fs',
    nfacts q fs -> ext T O (length T + length q) sy fs fs' -> nfacts q fs'.
  Proof.
    intros q sy fs fs' [H|(H1 & H2 & H3)] E; [now left|right]. repeat split; auto. eapply safe_ext; eauto.
  Qed.

  Lemma nfinal_ext : forall q D fs fs', nfinal q fs -> ext T O D false fs fs' -> nfinal q fs'.
  Proof.
    intros q D fs fs' [H|H] E; [now left|right]. now apply (ext_nosym _ _ _ _ _ _ E eq_refl).
  Qed.

  Definition relname (nm : pth) (q : list name) : Prop := p_abs nm = false /\ p_comps nm = q.

  Lemma name_wok : forall q fs nm follow,
    ctx fs -> nfacts q fs -> relname nm q -> (follow = false \/ nfinal q fs) ->
    wok T (root fs) (resolve (root fs) T nm follow) /\
    wdepth (length T + length q) (resolve (root fs) T nm follow).
  Proof.
    intros q fs nm follow C F [Ha Hc] Hf. unfold resolve. rewrite Ha, Hc.
    destruct (Nat.leb PATH_MAX (p_len nm)); [split; exact I|].
    destruct (Nat.eqb (p_len nm) 0); [split; exact I|].
    destruct F as [->|(Hn & Hne & Hs)].
    - rewrite walk_dot. split; [apply is_prefix_refl|exact I].
    - apply wshape_wok; [apply is_prefix_refl|]. apply walk_safe; auto.
      + apply (c_dir _ C).
      + destruct Hf as [Hf|[Hf|Hf]]; [now left| |now right].
        exfalso. rewrite Hf in Hn. apply Forall_inv in Hn. destruct Hn as (_ & Hdd & _). cbn in Hdd. discriminate.
  Qed.

  (* ---------------------------------------------------------------- single-component resolution *)
  Lemma comps_len_pos : forall (h : name) l, h <> [] -> (0 < comps_len (h :: l))%nat.
  Proof. intros [|x h] l H; [congruence|]. destruct l; cbn; lia. Qed.

  Lemma resolve1 : forall r fd c follow,
    is_dir_opt (get fd r) -> normal c -> (follow = false \/ nosym (get (fd ++ [c]) r)) ->
    resolve r fd (mkpath false [c]) follow = WErr ENAMETOOLONG \/
    resolve r fd (mkpath false [c]) follow = WEnt fd c (get (fd ++ [c]) r).
  Proof.
    intros r fd c follow (es & m & t & Hd) (Hc0 & Hc1 & Hc2) Hf. unfold resolve, mkpath. cbn [p_len p_abs p_comps].
    destruct (Nat.leb PATH_MAX (0 + comps_len [c])); [now left|].
    pose proof (comps_len_pos c [] Hc0) as Hpos.
    destruct (Nat.eqb (0 + comps_len [c]) 0) eqn:E0; [apply Nat.eqb_eq in E0; lia|].
    rewrite walk_cons, Hc1, Hc2. destruct (Nat.ltb NAME_MAX (length c)); [now left|].
    rewrite Hd. rewrite (get_snoc_dir _ _ _ _ _ _ Hd).
    destruct (lookup c es) as [[ff i d mm tt|es' m' t'|tg]|] eqn:El; try (now right).
    destruct follow; cbn [negb]; [|now right].
    destruct Hf as [Hf|Hf]; [discriminate|]. exfalso. rewrite (get_snoc_dir _ _ _ _ _ _ Hd), El in Hf. now apply (Hf tg).
  Qed.

  Definition dead (r : node) (fd head : list name) : Prop :=
    exists h hs, head = h :: hs /\
      (get (fd ++ [h]) r = None \/ exists ff i d m t, get (fd ++ [h]) r = Some (Leaf ff i d m t)).

  Lemma stat_dead : forall fs fd head c follow,
    is_dir_opt (get fd (root fs)) -> Forall normal head -> dead (root fs) fd head ->
    exists e, sys_stat fs fd (mkpath false (head ++ [c])) follow = inl e /\
              (e = ENOENT -> exists h hs, head = h :: hs /\ get (fd ++ [h]) (root fs) = None).
  Proof.
    intros fs fd head c follow (es & m & t & Hd) Hn (h & hs & -> & Hdead).
    inversion Hn as [|? ? (Hc0 & Hc1 & Hc2) _]; subst.
    unfold sys_stat, resolve, mkpath. cbn [p_len p_abs p_comps app].
    destruct (Nat.leb PATH_MAX (0 + comps_len (h :: hs ++ [c]))); [exists ENAMETOOLONG; split; [reflexivity|discriminate]|].
    pose proof (comps_len_pos h (hs ++ [c]) Hc0) as Hpos.
    destruct (Nat.eqb (0 + comps_len (h :: hs ++ [c])) 0) eqn:E0; [apply Nat.eqb_eq in E0; lia|].
    rewrite walk_cons, Hc1, Hc2.
    destruct (Nat.ltb NAME_MAX (length h)); [exists ENAMETOOLONG; split; [reflexivity|discriminate]|].
    rewrite Hd. rewrite <- (get_snoc_dir _ _ _ _ _ _ Hd).
    destruct Hdead as [Hnone|(ff & i & d & mm & tt & Hleaf)].
    - rewrite Hnone. destruct (hs ++ [c]) eqn:E; [now destruct hs|].
      exists ENOENT. split; [reflexivity|]. intros _. now exists h, hs.
    - rewrite Hleaf. destruct (hs ++ [c]) eqn:E; [now destruct hs|].
      exists ENOTDIR. split; [reflexivity|discriminate].
  Qed.

  Lemma get_through_none : forall r fd h rest, get (fd ++ [h]) r = None -> get (fd ++ h :: rest) r = None.
  Proof.
    intros r fd h rest H. change (h :: rest) with ([h] ++ rest). rewrite app_assoc, get_app, H. reflexivity.
  Qed.

  Lemma safe_of_none : forall r fd h rest,
    is_dir_opt (get fd r) -> get (fd ++ [h]) r = None -> safe r fd (h :: rest).
  Proof.
    intros r fd h rest (es & m & t & Hd) Hn k Hk. destruct k as [|k].
    - cbn [firstn]. rewrite app_nil_r, Hd. exact I.
    - cbn [firstn]. rewrite get_through_none by assumption. exact I.
  Qed.

  Lemma get_upd_through : forall d P' f r,
    get (d ++ P') (upd d f r) = match get d r with Some n => get P' (f n) | None => None end.
  Proof.
    induction d as [|b d IH]; intros P' f r; [reflexivity|].
    cbn [app upd get]. destruct r as [| es m t |]; try reflexivity.
    cbn [get]. rewrite lookup_map_entry, str_eqb_refl.
    destruct (lookup b es); cbn [option_map]; [apply IH|reflexivity].
  Qed.

  Lemma get_del_self : forall d k r, get (d ++ [k]) (del_ent d k r) = None.
  Proof.
    intros d k r. unfold del_ent. rewrite get_upd_through. destruct (get d r) as [[| es m t |]|]; try reflexivity.
    cbn [get]. now rewrite lookup_del_entry, str_eqb_refl.
  Qed.

  Lemma is_dir_del_parent : forall d k r, is_dir_opt (get d r) -> is_dir_opt (get d (del_ent d k r)).
  Proof.
    intros d k r (es & m & t & H). unfold del_ent. rewrite <- (app_nil_r d) at 1. rewrite get_upd_through, H.
    cbn [get]. now eexists _, _, _.
  Qed.

  (* ---------------------------------------------------------------- check_symlinks_fsobj *)
  Lemma cs_loop_spec : forall fl ln D rest head fd fs s fs',
    has fl EXTRACT_SECURE_SYMLINKS = true ->
    Forall normal (head ++ rest) -> is_prefix T fd -> is_dir_opt (get fd (root fs)) ->
    (head = [] \/ dead (root fs) fd head) ->
    cs_loop fl ln fs fd false head rest = (s, fs') ->
    ext T O D false fs fs' /\
    (s = SOk -> rest <> [] ->
       is_dir_opt (get fd (root fs')) /\ safe (root fs') fd (head ++ rest) /\
       (ln = false -> nosym (get (fd ++ head ++ rest) (root fs')))).
  Proof.
    intros fl ln D rest. induction rest as [|c rest' IH]; intros head fd fs s fs' Hsec Hn Hpre Hdir Hhead Hrun.
    { cbn in Hrun. injection Hrun as <- <-. split; [apply ext_refl|]. intros _ H. congruence. }
    cbn [cs_loop] in Hrun.
    assert (Hnh : Forall normal head) by (apply Forall_app in Hn; tauto).
    assert (Hnc : normal c) by (apply Forall_app in Hn as [_ Hn]; now inversion Hn).
    assert (Hnr : Forall normal rest') by (apply Forall_app in Hn as [_ Hn]; now inversion Hn).
    destruct Hhead as [->|Hdead].
    2:{ (* the head can no longer be resolved *)
        destruct (stat_dead fs fd head c false Hdir Hnh Hdead) as (e & Est & He). rewrite Est in Hrun.
        destruct (errno_eqb e ENOENT) eqn:Ee; injection Hrun as <- <-; (split; [apply ext_refl|]); [|discriminate].
        intros _ _. assert (e = ENOENT) by (destruct e; cbn in Ee; congruence).
        destruct (He H) as (h & hs & -> & Hnone). repeat split.
        - exact Hdir.
        - cbn [app]. now apply safe_of_none.
        - intros _ tg. cbn [app]. now rewrite get_through_none. }
    cbn [app] in *.
    pose proof (resolve1 (root fs) fd c false Hdir Hnc (or_introl eq_refl)) as R1.
    unfold sys_stat in Hrun at 1.
    destruct R1 as [R1|R1].
    { rewrite R1 in Hrun. cbn [errno_eqb] in Hrun. injection Hrun as <- <-. split; [apply ext_refl|discriminate]. }
    rewrite R1 in Hrun.
    destruct (get (fd ++ [c]) (root fs)) as [[ff i d mm tt|es' m' t'|tg]|] eqn:Eg.
    - (* a file or fifo *)
      destruct rest' as [|c2 rest2]; cbn [is_nil] in Hrun.
      + injection Hrun as <- <-. split; [apply ext_refl|]. intros _ _. repeat split.
        * exact Hdir.
        * intros k Hk. destruct k; [|cbn in Hk; lia]. cbn [firstn]. rewrite app_nil_r.
          destruct Hdir as (? & ? & ? & ->). exact I.
        * intros _ tg. rewrite Eg. discriminate.
      + assert (Hx : [c] = [] \/ dead (root fs) fd [c]).
        { right. exists c, []. split; [reflexivity|right]. now exists ff, i, d, mm, tt. }
        apply (IH [c] fd fs s fs' Hsec Hn Hpre Hdir Hx) in Hrun.
        destruct Hrun as [E Hok]. split; [exact E|]. intros Hs _. exact (Hok Hs ltac:(discriminate)).
    - (* a directory *)
      destruct rest' as [|c2 rest2]; cbn [is_nil] in Hrun.
      + injection Hrun as <- <-. split; [apply ext_refl|]. intros _ _. repeat split.
        * exact Hdir.
        * intros k Hk. destruct k; [|cbn in Hk; lia]. cbn [firstn]. rewrite app_nil_r.
          destruct Hdir as (? & ? & ? & ->). exact I.
        * intros _ tg. rewrite Eg. discriminate.
      + unfold sys_chdir in Hrun.
        assert (Hns : nosym (get (fd ++ [c]) (root fs))) by (intros tg; rewrite Eg; discriminate).
        destruct (resolve1 (root fs) fd c true Hdir Hnc (or_intror Hns)) as [R2|R2]; rewrite R2 in Hrun.
        { injection Hrun as <- <-. split; [apply ext_refl|discriminate]. }
        rewrite Eg in Hrun.
        assert (Hd' : is_dir_opt (get (fd ++ [c]) (root fs))) by (rewrite Eg; now eexists _, _, _).
        apply (IH [] (fd ++ [c]) fs s fs' Hsec Hnr (is_prefix_app _ _ _ Hpre) Hd' (or_introl eq_refl)) in Hrun.
        destruct Hrun as [E Hok]. split; [exact E|]. intros Hs _.
        destruct (Hok Hs ltac:(discriminate)) as (Hd2 & Hs2 & Hf2). cbn [app] in *. repeat split.
        * now apply (get_prefix_dir _ fd [c]).
        * change (c :: c2 :: rest2) with ([c] ++ c2 :: rest2). now apply safe_extend.
        * intros Hl. specialize (Hf2 Hl). now rewrite <- app_assoc in Hf2.
    - (* a symbolic link *)
      destruct rest' as [|c2 rest2]; cbn [is_nil andb] in Hrun.
      + destruct ln.
        * injection Hrun as <- <-. split; [apply ext_refl|]. intros _ _. repeat split.
          -- exact Hdir.
          -- intros k Hk. destruct k; [|cbn in Hk; lia]. cbn [firstn]. rewrite app_nil_r.
             destruct Hdir as (? & ? & ? & ->). exact I.
          -- discriminate.
        * unfold sys_unlink in Hrun. rewrite R1 in Hrun. cbn [fst snd] in Hrun. injection Hrun as <- <-.
          split; [now apply ext_del_ent|]. intros _ _. cbn [root]. repeat split.
          -- now apply is_dir_del_parent.
          -- intros k Hk. destruct k; [|cbn in Hk; lia]. cbn [firstn]. rewrite app_nil_r.
             destruct (is_dir_del_parent fd c (root fs) Hdir) as (? & ? & ? & ->). exact I.
          -- intros _ tg'. now rewrite get_del_self.
      + destruct (has fl EXTRACT_UNLINK).
        * unfold sys_unlink in Hrun at 1. rewrite R1 in Hrun. cbn [fst snd] in Hrun.
          set (fs1 := mkFs (del_ent fd c (root fs)) (nino fs)) in *.
          assert (E1 : ext T O D false fs fs1) by (now apply ext_del_ent).
          assert (Hx : [c] = [] \/ dead (root fs1) fd [c]).
          { right. exists c, []. split; [reflexivity|left]. apply get_del_self. }
          apply (IH [c] fd fs1 s fs' Hsec Hn Hpre (is_dir_del_parent fd c (root fs) Hdir) Hx) in Hrun.
          destruct Hrun as [E2 Hok]. split; [eapply ext_trans_f; eauto|].
          intros Hs _. exact (Hok Hs ltac:(discriminate)).
        * rewrite Hsec in Hrun. cbn [negb] in Hrun. injection Hrun as <- <-. split; [apply ext_refl|discriminate].
    - (* nothing there *)
      cbn [errno_eqb] in Hrun. injection Hrun as <- <-. split; [apply ext_refl|]. intros _ _. repeat split.
      + exact Hdir.
      + now apply safe_of_none.
      + intros _ tg. now rewrite get_through_none.
  Qed.

  (* ================================================================== Part 4: the restore path *)
  (* relation between process states: the file system made [ext] steps, cwd and umask are the same *)
  Definition stx (D : nat) (sy : bool) (st st' : pstate) : Prop :=
    ext T O D sy (st_fs st) (st_fs st') /\ st_cwd st' = st_cwd st /\ st_umask st' = st_umask st.

  Lemma stx_refl : forall D sy st, stx D sy st st.
  Proof. intros. split; [apply ext_refl|split; reflexivity]. Qed.

  Lemma stx_trans : forall D s1 s2 a b c, stx D s1 a b -> stx D s2 b c -> stx D (s1 || s2) a c.
  Proof. intros D s1 s2 a b c (E1 & C1 & U1) (E2 & C2 & U2). split; [eapply ext_trans; eauto|split; congruence]. Qed.

  Lemma stx_weaken : forall D sy a b, stx D false a b -> stx D sy a b.
  Proof. intros D sy a b (E & C & U). split; [now apply ext_weaken|split; assumption]. Qed.

  Lemma stx_fs : forall D sy st fs', ext T O D sy (st_fs st) fs' -> stx D sy st (with_fs st fs').
  Proof. intros. split; [assumption|split; reflexivity]. Qed.

  Lemma stx_fixup : forall D sy st f, stx D sy st (add_fixup st f).
  Proof. intros. split; [apply ext_refl|split; reflexivity]. Qed.

  (* the running bundle: where we are relative to the state st0 at the start of the entry *)
  Record cur (q : list name) (st0 st : pstate) (sy : bool) : Prop := mkCur {
    cu_stx : stx (length T + length q) sy st0 st;
    cu_ctx : ctx (st_fs st);
    cu_nf : nfacts q (st_fs st);
    cu_cwd : st_cwd st = T }.

  Lemma cur_step : forall q st0 st sy sy' fs',
    cur q st0 st sy -> ext T O (length T + length q) sy' (st_fs st) fs' -> cur q st0 (with_fs st fs') (sy || sy').
  Proof.
    intros q st0 st sy sy' fs' [X C F W] E. constructor; cbn [with_fs st_fs st_cwd].
    - eapply stx_trans; [exact X|now apply stx_fs].
    - eapply ctx_ext; eauto.
    - eapply nfacts_ext; eauto.
    - exact W.
  Qed.

  Lemma cur_step_f : forall q st0 st sy fs',
    cur q st0 st sy -> ext T O (length T + length q) false (st_fs st) fs' -> cur q st0 (with_fs st fs') sy.
  Proof. intros. rewrite <- (orb_false_r sy). eapply cur_step; eauto. Qed.

  Lemma cur_fixup : forall q st0 st sy f, cur q st0 st sy -> cur q st0 (add_fixup st f) sy.
  Proof.
    intros q st0 st sy f [X C F W]. constructor; cbn [add_fixup st_fs st_cwd]; auto.
  Qed.

  Lemma with_fs_same : forall st, with_fs st (st_fs st) = st.
  Proof. now intros []. Qed.

  (* operations on the entry's own name *)
  Section OnName.
    Variable q : list name.
    Variable nm : pth.
    Hypothesis Hrel : relname nm q.
    Let D := (length T + length q)%nat.

    Lemma nm_wok : forall st0 st sy, cur q st0 st sy ->
      wok T (root (st_fs st)) (resolve (root (st_fs st)) (st_cwd st) nm false) /\
      wdepth D (resolve (root (st_fs st)) (st_cwd st) nm false).
    Proof. intros st0 st sy [X C F W]. rewrite W. apply name_wok with (q := q); auto. Qed.

    Lemma on_unlink : forall st0 st sy, cur q st0 st sy ->
      cur q st0 (with_fs st (snd (sys_unlink (st_fs st) (st_cwd st) nm))) sy.
    Proof. intros st0 st sy C. apply cur_step_f; [exact C|]. apply ext_unlink. apply (nm_wok _ _ _ C). Qed.

    Lemma on_rmdir : forall st0 st sy, cur q st0 st sy ->
      cur q st0 (with_fs st (snd (sys_rmdir (st_fs st) (st_cwd st) nm))) sy.
    Proof. intros st0 st sy C. apply cur_step_f; [exact C|]. apply ext_rmdir. apply (nm_wok _ _ _ C). Qed.

    Lemma on_mkdir : forall st0 st sy m, cur q st0 st sy ->
      cur q st0 (with_fs st (snd (sys_mkdir (st_fs st) (st_cwd st) nm m))) sy.
    Proof.
      intros st0 st sy m C. apply cur_step_f; [exact C|]. apply ext_mkdir; [apply (nm_wok _ _ _ C)|].
      apply (c_b _ (cu_ctx _ _ _ _ C)).
    Qed.

    Lemma on_mkfifo : forall st0 st sy m, cur q st0 st sy ->
      cur q st0 (with_fs st (snd (sys_mkfifo (st_fs st) (st_cwd st) nm m))) sy.
    Proof.
      intros st0 st sy m C. apply cur_step_f; [exact C|]. destruct (nm_wok _ _ _ C). apply ext_mkfifo; auto.
      apply (c_b _ (cu_ctx _ _ _ _ C)).
    Qed.

    Lemma on_open_creat : forall st0 st sy m, cur q st0 st sy ->
      cur q st0 (with_fs st (snd (sys_open_creat_excl (st_fs st) (st_cwd st) nm m))) sy.
    Proof.
      intros st0 st sy m C. apply cur_step_f; [exact C|]. destruct (nm_wok _ _ _ C). apply ext_open_creat; auto.
      apply (c_b _ (cu_ctx _ _ _ _ C)).
    Qed.

    Lemma on_symlink : forall st0 st sy tg, cur q st0 st sy ->
      cur q st0 (with_fs st (snd (sys_symlink (st_fs st) (st_cwd st) tg nm))) true.
    Proof.
      intros st0 st sy tg C. rewrite <- (orb_true_r sy). eapply cur_step; [exact C|].
      destruct (nm_wok _ _ _ C). apply ext_symlink; auto. apply (c_b _ (cu_ctx _ _ _ _ C)).
    Qed.

    Lemma on_utimens : forall st0 st sy t', cur q st0 st sy ->
      cur q st0 (with_fs st (snd (sys_utimens_nofollow (st_fs st) (st_cwd st) nm t'))) sy.
    Proof.
      intros st0 st sy t' C. apply cur_step_f; [exact C|]. destruct (nm_wok _ _ _ C).
      apply ext_utimens; auto; [apply (c_out _ (cu_ctx _ _ _ _ C))|apply (c_cl _ (cu_ctx _ _ _ _ C))].
    Qed.

    Lemma on_chmod : forall st0 st sy m, cur q st0 st sy -> nfinal q (st_fs st) ->
      cur q st0 (with_fs st (snd (sys_chmod (st_fs st) (st_cwd st) nm m))) sy.
    Proof.
      intros st0 st sy m C Hf. apply cur_step_f; [exact C|]. destruct C as [X C F W]. rewrite W.
      apply ext_chmod; [|apply (c_out _ C)|apply (c_cl _ C)].
      apply (name_wok q (st_fs st) nm true); auto.
    Qed.
  End OnName.

  Lemma on_fd : forall q st0 st sy i f, cur q st0 st sy -> ~ O i ->
    cur q st0 (with_fs st (mkFs (map_ino i f (root (st_fs st))) (nino (st_fs st)))) sy.
  Proof.
    intros q st0 st sy i f C Hi. apply cur_step_f; [exact C|]. apply ext_map_ino; [|exact Hi].
    apply (c_out _ (cu_ctx _ _ _ _ C)).
  Qed.

  (* a fresh inode number is not an outside inode *)
  Lemma fresh_not_outside : forall fs, ctx fs -> ~ O (nino fs).
  Proof. intros fs C H. apply (c_b _ C) in H. lia. Qed.

  (* ---------------------------------------------------------------- create_dir on the prefixes of the name *)
  Lemma nfacts_prefix : forall q m fs,
    Forall normal q -> safe (root fs) T q -> (0 < m)%nat -> (m <= length q)%nat -> nfacts (firstn m q) fs.
  Proof.
    intros q m fs Hn Hs Hm Hle. right. repeat split.
    - now apply Forall_firstn.
    - destruct q; [cbn in Hle; lia|]. destruct m; [lia|discriminate].
    - now apply safe_firstn.
  Qed.

  Lemma In_firstn : forall (A : Type) (x : A) m l, In x (firstn m l) -> In x l.
  Proof.
    intros A x m. induction m as [|m IH]; intros [|y l] H; cbn in *; try tauto.
    destruct H as [H|H]; [now left|right; now apply IH].
  Qed.

  Lemma rev_firstn_step : forall (q : list name) m base parent,
    rev (firstn m q) = base :: parent -> (m <= length q)%nat ->
    exists m', m = S m' /\ parent = rev (firstn m' q) /\ firstn m q = firstn m' q ++ [base].
  Proof.
    intros q m base parent H Hle. destruct m as [|m']; [cbn in H; discriminate|]. exists m'. split; [reflexivity|].
    assert (E : firstn (S m') q = firstn m' q ++ [nth m' q []]).
    { clear H. revert q Hle. induction m' as [|m' IH]; intros [|x q] Hle; cbn in *; try lia; [reflexivity|].
      f_equal. apply IH. lia. }
    rewrite E, rev_app_distr in H. cbn in H. injection H as <- <-. now split.
  Qed.

  Lemma create_dir_spec : forall fl q rc m st0 st sy s st',
    Forall normal q -> q <> [] ->
    cur q st0 st sy -> rc = rev (firstn m q) -> (m <= length q)%nat ->
    create_dir fl false rc st = (s, st') -> cur q st0 st' sy.
  Proof.
    intros fl q rc. induction rc as [|base parent IH]; intros m st0 st sy s st' Hn Hne C Hrc Hm Hrun.
    { cbn in Hrun. now injection Hrun as <- <-. }
    symmetry in Hrc. destruct (rev_firstn_step q m base parent Hrc Hm) as (m' & -> & Hpar & Hfn).
    assert (Hb : normal base).
    { rewrite Forall_forall in Hn. apply Hn. apply (In_firstn _ base (S m') q). rewrite Hfn. apply in_or_app. right. now left. }
    destruct Hb as (Hb0 & Hb1 & Hb2).
    cbn [create_dir] in Hrun. rewrite Hb1, Hb2 in Hrun.
    replace (is_empty base) with false in Hrun by (destruct base; [congruence|reflexivity]).
    cbn [orb] in Hrun.
    rewrite <- Hrc in Hrun. rewrite rev_involutive in Hrun.
    set (nm := mkpath false (firstn (S m') q)) in *.
    assert (Hrel : relname nm (firstn (S m') q)) by (split; reflexivity).
    (* facts available at any later state of this entry *)
    assert (Hwok : forall stx sy', cur q st0 stx sy' ->
              wok T (root (st_fs stx)) (resolve (root (st_fs stx)) (st_cwd stx) nm false)).
    { intros stx sy' Cx. destruct Cx as [X Cc F W]. rewrite W.
      destruct F as [F|(_ & _ & Fs)]; [subst q; apply Forall_inv in Hn; destruct Hn as (_ & Hd & _); cbn in Hd; discriminate|].
      apply (name_wok (firstn (S m') q) (st_fs stx) nm false); auto.
      apply nfacts_prefix; auto; lia. }
    assert (Hmk : forall stx sy' s2 st2 (fallback : status * pstate), cur q st0 stx sy' ->
              (forall s3 st3, fallback = (s3, st3) -> st3 = stx) ->
              (let mode_final := N.ldiff DEFAULT_DIR_MODE (st_umask stx) in
               let mode := N.land (N.lor mode_final MINIMUM_DIR_MODE) MAXIMUM_DIR_MODE in
               match sys_mkdir (st_fs stx) (st_cwd stx) nm (N.ldiff mode (st_umask stx)) with
               | (None, fs') =>
                   let st2 := with_fs stx fs' in
                   if negb (mode =? mode_final)%N
                   then (SOk, add_fixup st2 (mkFixup (pth_string false (firstn (S m') q)) false true mode_final false 0%Z))
                   else (SOk, st2)
               | (Some _, _) => fallback
               end) = (s2, st2) -> cur q st0 st2 sy').
    { intros stx sy' s2 st2 fallback Cx Hfb Hgo. cbv zeta in Hgo.
      destruct (sys_mkdir (st_fs stx) (st_cwd stx) nm _) as [[en|] fs'] eqn:Emk.
      - apply Hfb in Hgo. now subst st2.
      - assert (C1 : cur q st0 (with_fs stx fs') sy').
        { apply cur_step_f; [exact Cx|]. replace fs' with (snd (sys_mkdir (st_fs stx) (st_cwd stx) nm
              (N.ldiff (N.land (N.lor (N.ldiff DEFAULT_DIR_MODE (st_umask stx)) MINIMUM_DIR_MODE) MAXIMUM_DIR_MODE) (st_umask stx))))
            by (now rewrite Emk).
          apply ext_mkdir; [now apply (Hwok stx sy')|]. apply (c_b _ (cu_ctx _ _ _ _ Cx)). }
        match type of Hgo with (if ?b then _ else _) = _ => destruct b end;
          injection Hgo as <- <-; [now apply cur_fixup|exact C1]. }
    assert (Hfb : forall (stx : pstate) (x : errno + node) s3 st3,
              match x with inr (Dir _ _ _) => (SOk, stx) | _ => (SFailed, stx) end = (s3, st3) -> st3 = stx).
    { intros stx x s3 st3 H. destruct x as [?|[| |]]; now injection H as _ <-. }
    destruct (sys_stat (st_fs st) (st_cwd st) nm true) as [e|[ff i d mm tt|es mm tt|tg]] eqn:Est.
    - destruct (negb (errno_eqb e ENOENT) && negb (errno_eqb e ENOTDIR)); [now injection Hrun as <- <-|].
      destruct (negb (is_nil parent)) eqn:Epar; cbn [orb] in Hrun.
      + destruct (create_dir fl false parent st) as [s1 st1] eqn:Ecd.
        assert (C1 : cur q st0 st1 sy) by (eapply (IH m'); eauto; lia).
        destruct s1; try (now injection Hrun as <- <-).
        eapply Hmk; [exact C1| |exact Hrun]. apply Hfb.
      + eapply Hmk; [exact C| |exact Hrun]. intros s3 st3 H. now injection H as _ <-.
    - destruct (has fl EXTRACT_NO_OVERWRITE); [now injection Hrun as <- <-|].
      destruct (sys_unlink (st_fs st) (st_cwd st) nm) as [[en|] fs1] eqn:Eun; [now injection Hrun as <- <-|].
      assert (C1 : cur q st0 (with_fs st fs1) sy).
      { apply cur_step_f; [exact C|]. replace fs1 with (snd (sys_unlink (st_fs st) (st_cwd st) nm)) by (now rewrite Eun).
        apply ext_unlink. now apply (Hwok st sy). }
      eapply Hmk; [exact C1| |exact Hrun]. apply Hfb.
    - now injection Hrun as <- <-.
    - destruct (has fl EXTRACT_NO_OVERWRITE); [now injection Hrun as <- <-|].
      destruct (sys_unlink (st_fs st) (st_cwd st) nm) as [[en|] fs1] eqn:Eun; [now injection Hrun as <- <-|].
      assert (C1 : cur q st0 (with_fs st fs1) sy).
      { apply cur_step_f; [exact C|]. replace fs1 with (snd (sys_unlink (st_fs st) (st_cwd st) nm)) by (now rewrite Eun).
        apply ext_unlink. now apply (Hwok st sy). }
      eapply Hmk; [exact C1| |exact Hrun]. apply Hfb.
  Qed.

  Lemma create_parent_dir_spec : forall fl q nm st0 st sy s st',
    cur q st0 st sy -> relname nm q -> create_parent_dir fl nm st = (s, st') -> cur q st0 st' sy.
  Proof.
    intros fl q nm st0 st sy s st' C [Ha Hc] Hrun. unfold create_parent_dir in Hrun. rewrite Ha, Hc in Hrun.
    destruct (rev q) as [|base parent] eqn:Er; [now injection Hrun as <- <-|].
    cbn [orb] in Hrun. destruct (negb (is_nil parent)) eqn:Ep; [|now injection Hrun as <- <-].
    destruct (cu_nf _ _ _ _ C) as [Hd|(Hn & Hne & _)].
    - rewrite Hd in Er. cbn in Er. injection Er as <- <-. discriminate.
    - assert (Hq : rev (firstn (length q) q) = base :: parent) by (now rewrite firstn_all).
      destruct (rev_firstn_step q (length q) base parent Hq (le_n _)) as (m' & Hm & Hpar & _).
      eapply (create_dir_spec fl q parent m'); eauto. lia.
  Qed.

  (* failed calls leave the file system alone *)
  Lemma create_at_fail : forall fs cwd p mk derr e fs', create_at fs cwd p mk derr = (Some e, fs') -> fs' = fs.
  Proof.
    intros fs cwd p mk derr e fs' H. unfold create_at in H.
    destruct (resolve (root fs) cwd p false) as [?|?|? ? [?|]]; try (now injection H as _ <-).
    destruct (mk (nino fs)). discriminate.
  Qed.

  Lemma sys_symlink_fail : forall fs cwd tg p e fs', sys_symlink fs cwd tg p = (Some e, fs') -> fs' = fs.
  Proof.
    intros fs cwd tg p e fs' H. unfold sys_symlink in H. destruct (is_empty tg); [now injection H as _ <-|].
    eapply create_at_fail; eauto.
  Qed.

  Lemma sys_link_fail : forall fs cwd o n e fs', sys_link fs cwd o n = (Some e, fs') -> fs' = fs.
  Proof.
    intros fs cwd o n e fs' H. unfold sys_link in H.
    destruct (sys_stat fs cwd o false) as [?|src]; [now injection H as _ <-|].
    destruct (resolve (root fs) cwd n false) as [?|?|? ? [?|]]; try (now injection H as _ <-).
    destruct src; try discriminate. now injection H as _ <-.
  Qed.

  (* ---------------------------------------------------------------- where a hard-link source can be *)
  Lemma walk_all_dots : forall links r cs cur follow,
    Forall (fun c => is_dot c = true) cs -> walk links r cur cs follow = WDir cur.
  Proof.
    intros links r cs. induction cs as [|c cs IH]; intros cur follow H; [apply walk_nil|].
    inversion H; subst. rewrite walk_cons. rewrite H2. now apply IH.
  Qed.

  Lemma is_dir_removelast : forall r (cur : list name), is_dir_opt (get cur r) -> is_dir_opt (get (removelast cur) r).
  Proof.
    intros r cur H. destruct cur as [|x cur']; [exact H|].
    rewrite (app_removelast_last [] (l := x :: cur')) in H by discriminate.
    now apply get_prefix_dir in H.
  Qed.

  Lemma walk_dir_inv : forall links r cs cur follow,
    is_dir_opt (get [] r) -> is_dir_opt (get cur r) ->
    match walk links r cur cs follow with WDir d => is_dir_opt (get d r) | _ => True end.
  Proof.
    induction links as [|l IHl]; intros r cs; induction cs as [|c rest IH]; intros cur follow Hroot Hcur.
    - now rewrite walk_nil.
    - rewrite walk_cons.
      destruct (is_dot c); [now apply IH|]. destruct (is_dotdot c); [apply IH; auto; now apply is_dir_removelast|].
      destruct (Nat.ltb NAME_MAX (length c)); [exact I|].
      destruct (get cur r) as [[| es m t |]|] eqn:Eg; try exact I.
      destruct (lookup c es) as [[ff i d mm tt|es' m' t'|tg]|] eqn:El.
      + now destruct rest.
      + destruct rest; [exact I|]. apply IH; auto. rewrite (get_snoc_dir _ _ _ _ _ _ Eg), El. now eexists _, _, _.
      + destruct rest; [now destruct follow|exact I].
      + now destruct rest.
    - now rewrite walk_nil.
    - rewrite walk_cons.
      destruct (is_dot c); [now apply IH|]. destruct (is_dotdot c); [apply IH; auto; now apply is_dir_removelast|].
      destruct (Nat.ltb NAME_MAX (length c)); [exact I|].
      destruct (get cur r) as [[| es m t |]|] eqn:Eg; try exact I.
      destruct (lookup c es) as [[ff i d mm tt|es' m' t'|tg]|] eqn:El.
      + now destruct rest.
      + destruct rest; [exact I|]. apply IH; auto. rewrite (get_snoc_dir _ _ _ _ _ _ Eg), El. now eexists _, _, _.
      + assert (G : match walk l r (if is_abs tg then [] else cur) (p_comps (parse tg) ++ rest) follow with
                    | WDir d => is_dir_opt (get d r) | _ => True end).
        { apply IHl; auto. destruct (is_abs tg); auto. rewrite Eg. now eexists _, _, _. }
        destruct rest; [destruct follow; cbn [negb]|];
          (destruct (is_empty tg); [exact I|]; destruct (Nat.leb PATH_MAX (length tg)); [exact I|exact G]) || exact I.
      + now destruct rest.
  Qed.

  Lemma stat_inside : forall fs Lq raw src,
    ctx fs -> nfacts Lq fs -> p_abs (parse raw) = false ->
    filter nondot (p_comps (parse raw)) = (if str_eqb (concat Lq) [DOT] && Nat.eqb (length Lq) 1 then [] else Lq) ->
    sys_stat fs T (parse raw) false = inr src ->
    is_dir_node src = true \/ allin (fun i => ~ O i) src.
  Proof.
    intros fs Lq raw src C F Ha Hfil Hst. unfold sys_stat, resolve in Hst. rewrite Ha in Hst.
    destruct (Nat.leb PATH_MAX (p_len (parse raw))); [discriminate|].
    destruct (Nat.eqb (p_len (parse raw)) 0); [discriminate|].
    set (cs := p_comps (parse raw)) in *. clearbody cs.
    assert (Hroot : is_dir_opt (get [] (root fs))) by (apply (get_prefix_dir _ [] T); apply (c_dir _ C)).
    destruct F as [->|(Hn & Hne & Hs)].
    - (* the target cleans to ".": every component is "." *)
      change (filter nondot cs = []) in Hfil.
      assert (Hall : Forall (fun c => is_dot c = true) cs).
      { clear Hst. induction cs as [|c cs IH]; [constructor|]. cbn [filter] in Hfil. unfold nondot at 1 in Hfil.
        destruct (is_dot c) eqn:E; cbn [negb] in Hfil; [|discriminate]. constructor; auto. }
      rewrite (walk_all_dots _ _ _ _ _ Hall) in Hst. destruct (c_dir _ C) as (es & m & t & Hd). rewrite Hd in Hst.
      injection Hst as <-. now left.
    - assert (Hfil' : filter nondot cs = Lq).
      { rewrite Hfil. destruct (str_eqb (concat Lq) [DOT] && Nat.eqb (length Lq) 1) eqn:E; [|reflexivity].
        exfalso. apply andb_prop in E as [E1 E2]. apply Nat.eqb_eq in E2. apply str_eqb_eq in E1.
        destruct Lq as [|c [|? ?]]; cbn in E2; try lia. cbn in E1. rewrite app_nil_r in E1. subst c.
        apply Forall_inv in Hn. destruct Hn as (_ & Hd & _). cbn in Hd. discriminate. }
      destruct (is_dot (last cs [])) eqn:Elast.
      + (* trailing "." : only a directory can come out *)
        assert (Hcs : cs <> []) by (intros E; rewrite E in Hfil'; cbn in Hfil'; congruence).
        pose proof (app_removelast_last [] Hcs) as Ecs. apply str_eqb_eq in Elast.
        assert (Ecs' : cs = removelast cs ++ [[DOT]]) by (etransitivity; [exact Ecs|f_equal; f_equal; exact Elast]).
        rewrite Ecs' in Hst.
        pose proof (walk_trailing_dot MAXSYMLINKS (root fs) (removelast cs) T false) as W1.
        pose proof (walk_dir_inv MAXSYMLINKS (root fs) (removelast cs ++ [[DOT]]) T false Hroot (c_dir _ C)) as W2.
        unfold name, str in *.
        destruct (walk MAXSYMLINKS (root fs) T (removelast cs ++ [[DOT]]) false) as [e|d|d k o]; [discriminate| |destruct W1].
        destruct W2 as (es & m & t & Hd). rewrite Hd in Hst. injection Hst as <-. now left.
      + assert (W : wshape (root fs) T (filter nondot cs) (walk MAXSYMLINKS (root fs) T cs false)).
        { apply walk_safe_dotted; rewrite ?Hfil'; auto. apply (c_dir _ C). }
        rewrite Hfil' in W.
        set (wr := walk MAXSYMLINKS (root fs) T cs false) in *. clearbody wr.
        destruct W as [e|q' k Hq]; [discriminate|].
        destruct (get (T ++ Lq) (root fs)) as [n|] eqn:Eg; [|discriminate]. injection Hst as <-. right.
        apply (inside_leaf_clean T O (root fs) (T ++ q') k n); [apply (c_cl _ C)|apply is_prefix_app, is_prefix_refl|].
        now rewrite <- app_assoc, <- Hq.
  Qed.

  (* ---------------------------------------------------------------- check_symlinks on a cleaned name *)
  Definition cleanq (q : list name) : Prop := q = [[DOT]] \/ (Forall normal q /\ q <> []).

  Lemma check_symlinks_spec : forall fl ln D q nm fs s fs',
    has fl EXTRACT_SECURE_SYMLINKS = true ->
    ctx fs -> relname nm q -> cleanq q -> (0 < p_len nm)%nat ->
    check_symlinks fl ln fs T nm = (s, fs') ->
    ext T O D false fs fs' /\ (s = SOk -> nfacts q fs' /\ (ln = false -> nfinal q fs')).
  Proof.
    intros fl ln D q nm fs s fs' Hsec C [Ha Hc] Hq Hlen Hrun. unfold check_symlinks in Hrun.
    destruct (Nat.eqb (p_len nm) 0) eqn:E0; [apply Nat.eqb_eq in E0; lia|].
    destruct (c_dir _ C) as (es & m & t & Hd). rewrite Hd, Ha, Hc in Hrun.
    destruct Hq as [->|(Hn & Hne)].
    - (* "." *)
      cbn [cs_loop app is_nil] in Hrun. unfold sys_stat, resolve, mkpath in Hrun. cbn [p_len p_abs p_comps comps_len length] in Hrun.
      change (Nat.leb PATH_MAX (0 + 1)) with false in Hrun. change (Nat.eqb (0 + 1) 0) with false in Hrun.
      cbv iota in Hrun. rewrite walk_dot, Hd in Hrun. injection Hrun as <- <-.
      split; [apply ext_refl|]. intros _. split; [now left|intros _; now left].
    - destruct q as [|c q']; [congruence|].
      destruct (cs_loop_spec fl ln D (c :: q') [] T fs s fs' Hsec Hn (is_prefix_refl T) (c_dir _ C) (or_introl eq_refl) Hrun) as [E Hok].
      split; [exact E|]. intros Hs. destruct (Hok Hs ltac:(discriminate)) as (_ & Hsafe & Hfin). cbn [app] in *.
      split; [right; repeat split; auto; discriminate|]. intros Hl. right. now apply Hfin.
  Qed.

  (* ---------------------------------------------------------------- what the sanitiser gives to the rest *)
  Lemma filter_id : forall (A : Type) (f : A -> bool) l, Forall (fun x => f x = true) l -> filter f l = l.
  Proof.
    intros A f l H. induction H as [|x l Hx _ IH]; [reflexivity|]. cbn. now rewrite Hx, IH.
  Qed.

  Lemma filter_filter : forall (A : Type) (f g : A -> bool) l,
    filter f (filter g l) = filter (fun x => g x && f x) l.
  Proof.
    intros A f g l. induction l as [|x l IH]; [reflexivity|]. cbn. destruct (g x); cbn; [destruct (f x)|]; now rewrite IH.
  Qed.

  Lemma is_abs_app : forall a b, a <> [] -> is_abs (a ++ b) = is_abs a.
  Proof. intros [|x a] b H; [congruence|reflexivity]. Qed.

  Lemma cleanup_names : forall fl p q,
    has fl EXTRACT_SECURE_NODOTDOT = true -> has fl EXTRACT_SECURE_NOABSOLUTEPATHS = true ->
    cleanup_pathname fl p = ClOk q ->
    exists k, relname (parse q) k /\ cleanq k /\ p_len (parse q) = length q /\ q <> [] /\
              p_abs (parse p) = false /\
              filter nondot (p_comps (parse p)) = (if str_eqb (concat k) [DOT] && Nat.eqb (length k) 1 then [] else k).
  Proof.
    intros fl p q Hdd Habs H. destruct (cleanup_sound fl p q H) as (Hne & Hq & Hprops & Hnd & Hna).
    specialize (Hnd Hdd). destruct (Hna Habs) as [Hap Haq].
    assert (Hfil : filter nondot (p_comps (parse p)) = real_comps p).
    { unfold parse. cbn [p_comps]. rewrite real_comps_eq. unfold nonempty_comps.
      assert (E : filter nondot (filter (fun c => negb (is_empty c)) (split p)) = filter realc (split p)).
      { rewrite filter_filter. apply filter_ext. intros c. reflexivity. }
      destruct (filter (fun c => negb (is_empty c)) (split p)) as [|c cs] eqn:Ef; [now rewrite <- E|].
      destruct (ends_with_slash p); [|exact E]. rewrite filter_app. cbn [filter]. change (nondot [DOT]) with false.
      cbv iota. rewrite app_nil_r. exact E. }
    rewrite Hap in Hq. destruct Hq as [[Hk ->]|[Hk ->]].
    - (* q = "." *)
      exists [[DOT]]. repeat split; try reflexivity; try discriminate.
      + now left.
      + unfold parse. cbn [p_abs]. exact Hap.
      + rewrite Hfil, Hk. reflexivity.
    - cbn [app] in *. set (k := real_comps p) in *.
      assert (Hns : Forall (fun c => ~ In SLASH c) k) by (eapply Forall_impl; [|exact Hprops]; cbn; tauto).
      assert (Hnn : Forall (fun c => c <> [] /\ ~ In SLASH c) k) by (eapply Forall_impl; [|exact Hprops]; cbn; tauto).
      assert (Hnorm : Forall normal k).
      { apply Forall_forall. intros c Hc. rewrite Forall_forall in Hprops. destruct (Hprops c Hc) as (H1 & H2 & _).
        repeat split; [exact H1|now apply str_eqb_neq|]. apply str_eqb_neq. intros ->. apply Hnd.
        unfold k in Hc. rewrite real_comps_eq in Hc. now apply filter_In in Hc as [Hc _]. }
      exists k. repeat split.
      + unfold parse. cbn [p_abs]. exact Haq.
      + unfold parse. cbn [p_comps]. unfold nonempty_comps. rewrite (split_join k Hns Hk).
        rewrite filter_id by (eapply Forall_impl; [|exact Hnn]; cbn; intros c [Hc _]; destruct c; [congruence|reflexivity]).
        destruct k as [|c k']; [congruence|]. now rewrite (ends_with_slash_join (c :: k') Hnn Hk).
      + right. now split.
      + exact Hne.
      + unfold parse. cbn [p_abs]. exact Hap.
      + rewrite Hfil. fold k. match goal with |- _ = (if ?b then _ else _) => destruct b eqn:E end; [|reflexivity].
        exfalso. apply andb_prop in E as [E1 E2]. apply Nat.eqb_eq in E2. apply str_eqb_eq in E1.
        destruct k as [|c [|? ?]]; cbn in E2; try lia. cbn in E1. rewrite app_nil_r in E1. subst c.
        apply Forall_inv in Hnorm. destruct Hnorm as (_ & Hd & _). cbn in Hd. discriminate.
  Qed.

  (* ---------------------------------------------------------------- create_filesystem_object *)
  Definition wfd_ok (w : work) : Prop := forall i, w_fd w = Some i -> ~ O i.
  Definition chmod_safe (e : entry) (w : work) : Prop :=
    (e_type e =? T_SYMLINK)%N = true \/ w_todo_mode w = false.
  Definition hl_ok (e : entry) : Prop := (e_type e =? T_HARDLINK)%N = true -> e_data e = [].
  Definition secure (fl : N) : Prop :=
    has fl EXTRACT_SECURE_SYMLINKS = true /\ has fl EXTRACT_SECURE_NODOTDOT = true /\
    has fl EXTRACT_SECURE_NOABSOLUTEPATHS = true.

  Lemma snd_eq : forall (A B : Type) (x : A * B) a b, x = (a, b) -> b = snd x.
  Proof. intros A B x a b ->. reflexivity. Qed.

  Lemma create_fs_obj_spec : forall fl e q st0 st sy w en st' w',
    secure fl -> hl_ok e -> cur q st0 st sy -> relname (w_name w) q -> wfd_ok w ->
    create_fs_obj fl e st w = (en, st', w') ->
    w_name w' = w_name w /\ wfd_ok w' /\ (w_tmp w' = w_tmp w \/ w_tmp w' = None) /\
    (cur q st0 st' sy \/ (en = None /\ cur q st0 st' true /\ chmod_safe e w')).
  Proof.
    intros fl e q st0 st sy w en st' w' (Hs1 & Hs2 & Hs3) Hhl C Hrel Hfd Hrun.
    unfold create_fs_obj in Hrun. pose proof (cu_cwd _ _ _ _ C) as Hcwd.
    destruct (e_type e =? T_HARDLINK)%N eqn:Ehl.
    { (* hard link *)
      specialize (Hhl Ehl).
      destruct (cleanup_pathname fl (e_link e)) as [lc| | |] eqn:Ecl;
        try (injection Hrun as <- <- <-; repeat split; auto).
      destruct (cleanup_names fl (e_link e) lc Hs2 Hs3 Ecl) as (Lq & HLrel & HLq & HLlen & HLne & HLabs & HLfil).
      destruct (check_symlinks fl true (st_fs st) (st_cwd st) (parse lc)) as [s1 fs1] eqn:Ecs.
      rewrite Hcwd in Ecs.
      assert (Hlen : (0 < p_len (parse lc))%nat) by (rewrite HLlen; destruct lc; [congruence|cbn; lia]).
      destruct (check_symlinks_spec fl true (length T + length q) Lq (parse lc) (st_fs st) s1 fs1 Hs1 (cu_ctx _ _ _ _ C) HLrel HLq Hlen Ecs) as [E1 Hok1].
      pose proof (cur_step_f _ _ _ _ _ C E1) as C1.
      destruct s1; try (injection Hrun as <- <- <-; repeat split; auto).
      destruct (Hok1 eq_refl) as [F1 _].
      set (st1 := with_fs st fs1) in *.
      set (fs2 := if has fl EXTRACT_SAFE_WRITES then snd (sys_unlink fs1 (st_cwd st) (w_name w)) else fs1) in *.
      assert (C2 : cur q st0 (with_fs st fs2) sy /\ nfacts Lq fs2).
      { unfold fs2. destruct (has fl EXTRACT_SAFE_WRITES).
        - split.
          + pose proof (on_unlink q (w_name w) Hrel _ _ _ C1) as X. unfold st1 in X. cbn [with_fs st_fs st_cwd] in X. exact X.
          + eapply nfacts_ext; [exact F1|]. apply ext_unlink.
            pose proof (nm_wok q (w_name w) Hrel _ _ _ C1) as [X _]. unfold st1 in X. cbn [with_fs st_fs st_cwd] in X. exact X.
        - split; [exact C1|exact F1]. }
      destruct C2 as [C2 F2].
      destruct (sys_link fs2 (st_cwd st) (parse (e_link e)) (w_name w)) as [[en3|] fs3] eqn:Elk.
      - apply sys_link_fail in Elk as ->. injection Hrun as <- <- <-. repeat split; auto.
      - rewrite Hhl in Hrun. cbn [is_nil] in Hrun. injection Hrun as <- <- <-.
        repeat split; auto. right. split; [reflexivity|]. split; [|right; reflexivity].
        apply snd_eq in Elk. rewrite Elk. rewrite <- (orb_true_r sy).
        change (with_fs st (snd (sys_link fs2 (st_cwd st) (parse (e_link e)) (w_name w))))
          with (with_fs (with_fs st fs2) (snd (sys_link (st_fs (with_fs st fs2)) (st_cwd (with_fs st fs2)) (parse (e_link e)) (w_name w)))).
        eapply cur_step; [exact C2|].
        pose proof (nm_wok q (w_name w) Hrel _ _ _ C2) as [X1 X2].
        apply ext_link; auto.
        intros src Hsrc. cbn [with_fs st_fs st_cwd] in Hsrc. rewrite Hcwd in Hsrc.
        apply (stat_inside fs2 Lq (e_link e) src); auto. apply (cu_ctx _ _ _ _ C2). }
    destruct (e_type e =? T_SYMLINK)%N eqn:Esy.
    { (* symbolic link *)
      set (fs1 := if has fl EXTRACT_SAFE_WRITES then snd (sys_unlink (st_fs st) (st_cwd st) (w_name w)) else st_fs st) in *.
      assert (C1 : cur q st0 (with_fs st fs1) sy).
      { unfold fs1. destruct (has fl EXTRACT_SAFE_WRITES); [now apply on_unlink|now rewrite with_fs_same]. }
      destruct (sys_symlink fs1 (st_cwd st) (e_link e) (w_name w)) as [[en2|] fs2] eqn:Esl.
      - apply sys_symlink_fail in Esl as ->. injection Hrun as <- <- <-. repeat split; auto.
      - injection Hrun as <- <- <-. repeat split; auto. right. split; [reflexivity|]. split; [|now left].
        apply snd_eq in Esl. rewrite Esl.
        change (with_fs st (snd (sys_symlink fs1 (st_cwd st) (e_link e) (w_name w))))
          with (with_fs (with_fs st fs1) (snd (sys_symlink (st_fs (with_fs st fs1)) (st_cwd (with_fs st fs1)) (e_link e) (w_name w)))).
        exact (on_symlink q (w_name w) Hrel st0 _ sy (e_link e) C1). }
    destruct (e_type e =? T_DIR)%N eqn:Edir.
    { destruct (sys_mkdir (st_fs st) (st_cwd st) (w_name w) _) as [[en2|] fs1] eqn:Emk.
      - injection Hrun as <- <- <-. repeat split; auto.
      - injection Hrun as <- <- <-. repeat split; auto. left. apply snd_eq in Emk. rewrite Emk. now apply on_mkdir. }
    destruct (e_type e =? T_FIFO)%N eqn:Efifo.
    { destruct (sys_mkfifo (st_fs st) (st_cwd st) (w_name w) _) as [[en2|] fs1] eqn:Emk.
      - injection Hrun as <- <- <-. repeat split; auto.
      - injection Hrun as <- <- <-. repeat split; auto. left. apply snd_eq in Emk. rewrite Emk. now apply on_mkfifo. }
    destruct (sys_open_creat_excl (st_fs st) (st_cwd st) (w_name w) _) as [[en2|] fs1] eqn:Eop.
    - injection Hrun as <- <- <-. repeat split; auto.
    - injection Hrun as <- <- <-. repeat split; auto.
      + intros i Hi. cbn in Hi. injection Hi as <-. apply fresh_not_outside. apply (cu_ctx _ _ _ _ C).
      + left. apply snd_eq in Eop. rewrite Eop. now apply on_open_creat.
  Qed.

  (* ---------------------------------------------------------------- the SAFE_WRITES temporary name *)
  Lemma is_dot_len : forall c, is_dot c = true -> length c = 1%nat.
  Proof. intros c H. apply str_eqb_eq in H. now subst. Qed.
  Lemma is_dotdot_len : forall c, is_dotdot c = true -> length c = 2%nat.
  Proof. intros c H. apply str_eqb_eq in H. now subst. Qed.

  Lemma normal_long : forall c, (3 <= length c)%nat -> normal c.
  Proof.
    intros c H. repeat split.
    - intros ->. cbn in H. lia.
    - destruct (is_dot c) eqn:E; [apply is_dot_len in E; lia|reflexivity].
    - destruct (is_dotdot c) eqn:E; [apply is_dotdot_len in E; lia|reflexivity].
  Qed.

  Lemma append_last_snoc : forall (q0 : list name) l sfx, append_last (q0 ++ [l]) sfx = q0 ++ [l ++ sfx].
  Proof.
    intros q0 l sfx. unfold append_last. rewrite rev_app_distr. cbn [rev app].
    now rewrite rev_involutive.
  Qed.

  Lemma nfacts_tmp : forall q fs,
    ctx fs -> nfacts q fs ->
    nfacts (append_last q tmp_suffix) fs /\ length (append_last q tmp_suffix) = length q.
  Proof.
    intros q fs C [->|(Hn & Hne & Hs)].
    - split; [|reflexivity]. right. repeat split.
      + constructor; [|constructor]. apply normal_long. cbn. lia.
      + discriminate.
      + intros k Hk. cbn in Hk. destruct k; [|lia]. cbn [firstn]. rewrite app_nil_r.
        destruct (c_dir _ C) as (? & ? & ? & ->). exact I.
    - destruct (exists_last Hne) as (q0 & l & ->). rewrite append_last_snoc. split.
      + right. repeat split.
        * apply Forall_app in Hn as [Hn0 _]. apply Forall_app. split; [exact Hn0|].
          constructor; [|constructor]. apply normal_long. rewrite app_length. cbn. lia.
        * now destruct q0.
        * intros k Hk. rewrite app_length in Hk. cbn in Hk.
          rewrite firstn_app. replace (k - length q0)%nat with 0%nat by lia. cbn [firstn]. rewrite app_nil_r.
          specialize (Hs k). rewrite app_length in Hs. cbn in Hs.
          rewrite firstn_app in Hs. replace (k - length q0)%nat with 0%nat in Hs by lia. cbn [firstn] in Hs.
          rewrite app_nil_r in Hs. apply Hs. lia.
      + rewrite !app_length. reflexivity.
  Qed.

  Lemma relname_tmp : forall nm q, relname nm q -> relname (tmp_name nm) (append_last q tmp_suffix).
  Proof. intros nm q [Ha Hc]. split; cbn; [exact Ha|now rewrite Hc]. Qed.

  (* the resolution facts for the temporary name, from the bundle of the entry's own name *)
  Lemma tmp_wok : forall q nm st0 st sy, cur q st0 st sy -> relname nm q ->
    wok T (root (st_fs st)) (resolve (root (st_fs st)) (st_cwd st) (tmp_name nm) false) /\
    wdepth (length T + length q) (resolve (root (st_fs st)) (st_cwd st) (tmp_name nm) false).
  Proof.
    intros q nm st0 st sy C Hrel. destruct (nfacts_tmp q (st_fs st) (cu_ctx _ _ _ _ C) (cu_nf _ _ _ _ C)) as [F L].
    rewrite (cu_cwd _ _ _ _ C), <- L.
    apply (name_wok (append_last q tmp_suffix) (st_fs st) (tmp_name nm) false); auto.
    - apply (cu_ctx _ _ _ _ C).
    - now apply relname_tmp.
  Qed.

  (* ---------------------------------------------------------------- restore_entry *)
  Definition give_up (en : option errno) (stx : pstate) (wx : work) : status * pstate * work :=
    match en with Some _ => (SFailed, stx, wx) | None => (SOk, stx, wx) end.

  Definition wtmp_ok (w : work) : Prop := w_tmp w = None \/ w_tmp w = Some (tmp_name (w_name w)).

  Definition re_post (e : entry) (q : list name) (st0 : pstate) (w : work) (st' : pstate) (w' : work) : Prop :=
    exists sy, cur q st0 st' sy /\ w_name w' = w_name w /\ wfd_ok w' /\ wtmp_ok w' /\ (sy = true -> chmod_safe e w').

  Lemma re_post_intro : forall e q st0 w st' w' sy,
    cur q st0 st' sy -> w_name w' = w_name w -> wfd_ok w' -> wtmp_ok w' -> (sy = true -> chmod_safe e w') ->
    re_post e q st0 w st' w'.
  Proof. intros. exists sy. tauto. Qed.

  Lemma tail_create : forall fl e q st0 stA wA w en3 st3 w3 s st' w',
    secure fl -> hl_ok e -> cur q st0 stA false -> relname (w_name wA) q -> wfd_ok wA -> w_tmp wA = None ->
    w_name wA = w_name w ->
    create_fs_obj fl e stA wA = (en3, st3, w3) -> give_up en3 st3 w3 = (s, st', w') ->
    re_post e q st0 w st' w'.
  Proof.
    intros fl e q st0 stA wA w en3 st3 w3 s st' w' Hsec Hhl C Hrel Hfd Htmp Hnm Hcr Hgu.
    destruct (create_fs_obj_spec fl e q st0 stA false wA en3 st3 w3 Hsec Hhl C Hrel Hfd Hcr) as (N1 & F1 & T1 & [C1|(-> & C1 & S1)]).
    - assert (st' = st3 /\ w' = w3) as [-> ->] by (destruct en3; cbn in Hgu; now injection Hgu as _ <- <-).
      apply (re_post_intro e q st0 w st3 w3 false); auto; try congruence; try discriminate.
      left. destruct T1 as [T1|T1]; congruence.
    - cbn in Hgu. injection Hgu as _ <- <-.
      apply (re_post_intro e q st0 w st3 w3 true); auto; try congruence.
      left. destruct T1 as [T1|T1]; congruence.
  Qed.

  Lemma restore_entry_spec : forall fl e q st0 st w s st' w',
    secure fl -> hl_ok e -> cur q st0 st false -> relname (w_name w) q -> wfd_ok w -> w_tmp w = None ->
    restore_entry fl e st w = (s, st', w') -> re_post e q st0 w st' w'.
  Proof.
    intros fl e q st0 st w s st' w' Hsec Hhl C Hrel Hfd Htmp Hrun. unfold restore_entry in Hrun.
    (* the UNLINK pre-step *)
    set (pre := if has fl EXTRACT_UNLINK && negb (e_type e =? T_DIR)%N then _ else Some st) in Hrun.
    assert (Hpre : forall stp, pre = Some stp -> cur q st0 stp false).
    { unfold pre. intros stp Hp. destruct (has fl EXTRACT_UNLINK && negb (e_type e =? T_DIR)%N); [|now injection Hp as <-].
      destruct (sys_unlink (st_fs st) (st_cwd st) (w_name w)) as [[en|] fs1] eqn:Eun.
      - destruct (errno_eqb en ENOENT); [now injection Hp as <-|].
        destruct (sys_rmdir (st_fs st) (st_cwd st) (w_name w)) as [[en2|] fs2] eqn:Erm; [discriminate|].
        injection Hp as <-. apply snd_eq in Erm. rewrite Erm. now apply on_rmdir.
      - injection Hp as <-. apply snd_eq in Eun. rewrite Eun. now apply on_unlink. }
    destruct pre as [stp|] eqn:Epre.
    2:{ injection Hrun as _ <- <-. apply (re_post_intro e q st0 w st w false); auto; try discriminate. now left. }
    specialize (Hpre stp eq_refl). clear Epre.
    (* first attempt *)
    destruct (create_fs_obj fl e stp w) as [[en0 st1] w1] eqn:Ecr1.
    destruct (create_fs_obj_spec fl e q st0 stp false w en0 st1 w1 Hsec Hhl Hpre Hrel Hfd Ecr1) as (N1 & F1 & T1 & D1).
    assert (Tn1 : w_tmp w1 = None) by (destruct T1; congruence).
    destruct D1 as [C1|(-> & C1 & S1)].
    2:{ cbn in Hrun. injection Hrun as _ <- <-. apply (re_post_intro e q st0 w st1 w1 true); auto. now left. }
    (* parent directory missing: create it, second attempt *)
    set (second := match en0 with
                   | Some ENOTDIR | Some ENOENT =>
                       match create_parent_dir fl (w_name w1) st1 with (_, st1') => create_fs_obj fl e st1' w1 end
                   | _ => (en0, st1, w1) end) in Hrun.
    assert (Hsec2 : forall en1 st2 w2, second = (en1, st2, w2) ->
              w_name w2 = w_name w /\ wfd_ok w2 /\ w_tmp w2 = None /\
              (cur q st0 st2 false \/ (en1 = None /\ cur q st0 st2 true /\ chmod_safe e w2))).
    { intros en1 st2 w2 H2. unfold second in H2.
      assert (Hretry : match create_parent_dir fl (w_name w1) st1 with (_, st1') => create_fs_obj fl e st1' w1 end = (en1, st2, w2) ->
                w_name w2 = w_name w /\ wfd_ok w2 /\ w_tmp w2 = None /\
                (cur q st0 st2 false \/ (en1 = None /\ cur q st0 st2 true /\ chmod_safe e w2))).
      { intros H3. destruct (create_parent_dir fl (w_name w1) st1) as [r1 st1'] eqn:Ecp.
        assert (Rel1 : relname (w_name w1) q) by (now rewrite N1).
        pose proof (create_parent_dir_spec fl q (w_name w1) st0 st1 false r1 st1' C1 Rel1 Ecp) as C1'.
        destruct (create_fs_obj_spec fl e q st0 st1' false w1 en1 st2 w2 Hsec Hhl C1' Rel1 F1 H3) as (N2 & F2 & T2 & D2).
        split; [congruence|]. split; [exact F2|]. split; [destruct T2; congruence|exact D2]. }
      destruct en0 as [[]|]; try (injection H2 as <- <- <-; split; [exact N1|split; [exact F1|split; [exact Tn1|now left]]]);
        now apply Hretry. }
    destruct second as [[en1 st2] w2] eqn:Esec.
    destruct (Hsec2 en1 st2 w2 eq_refl) as (N2 & F2 & Tn2 & D2). clear Hsec2.
    destruct D2 as [C2|(-> & C2 & S2)].
    2:{ cbn in Hrun. injection Hrun as _ <- <-. apply (re_post_intro e q st0 w st2 w2 true); auto. now left. }
    assert (Rel2 : relname (w_name w2) q) by (now rewrite N2).
    assert (Done : forall wx, w_name wx = w_name w2 -> w_fd wx = w_fd w2 -> w_tmp wx = w_tmp w2 ->
              re_post e q st0 w st2 wx).
    { intros wx Hn Hf Ht. apply (re_post_intro e q st0 w st2 wx false); auto; try congruence; try discriminate.
      - intros i Hi. apply F2. congruence.
      - left. congruence. }
    assert (Tail : forall fs3 en3 st3 w3 r,
              ext T O (length T + length q) false (st_fs st2) fs3 ->
              create_fs_obj fl e (with_fs st2 fs3) w2 = (en3, st3, w3) ->
              give_up en3 st3 w3 = r -> r = (s, st', w') -> re_post e q st0 w st' w').
    { intros fs3 en3 st3 w3 r E3 Hc3 Hg3 ->. eapply (tail_create fl e q st0 (with_fs st2 fs3) w2 w); eauto.
      now apply cur_step_f. }
    (* what is in the way *)
    destruct en1 as [en1|]; [|cbn in Hrun; injection Hrun as _ <- <-; now apply Done].
    destruct en1; try (injection Hrun as _ <- <-; now apply Done).
    - (* EEXIST *)
      destruct (has fl EXTRACT_NO_OVERWRITE).
      { injection Hrun as _ <- <-. destruct (e_type e =? T_DIR)%N; now apply Done. }
      cbv iota in Hrun.
      set (r2 := match (if (e_type e =? T_DIR)%N then sys_stat (st_fs st2) (st_cwd st2) (w_name w2) true else inl ENOENT) with
                 | inr n => inr n | inl _ => sys_stat (st_fs st2) (st_cwd st2) (w_name w2) false end) in Hrun.
      destruct r2 as [er|n]; [injection Hrun as _ <- <-; now apply Done|].
      destruct (negb (is_dir_node n)).
      + destruct (has fl EXTRACT_SAFE_WRITES && is_reg_node n).
        * (* temporary file *)
          destruct (sys_open_creat_excl (st_fs st2) (st_cwd st2) (tmp_name (w_name w2)) _) as [[en3|] fs3] eqn:Etmp.
          -- injection Hrun as _ <- <-.
             apply (re_post_intro e q st0 w st2 (w_set_tmp w2 (Some (tmp_name (w_name w2)))) false); auto; try discriminate.
             now right.
          -- injection Hrun as _ <- <-.
             assert (Hfresh : ~ O (nino (st_fs st2))) by (apply fresh_not_outside, (cu_ctx _ _ _ _ C2)).
             eapply (re_post_intro e q st0 w _ _ false); try discriminate; try exact N2.
             ++ apply snd_eq in Etmp. rewrite Etmp.
                assert (C3 : cur q st0 (with_fs st2 (snd (sys_open_creat_excl (st_fs st2) (st_cwd st2) (tmp_name (w_name w2))
                                (N.ldiff 384 (st_umask st2))))) false).
                { apply cur_step_f; [exact C2|]. destruct (tmp_wok q (w_name w2) st0 st2 false C2 Rel2) as [X1 X2].
                  apply ext_open_creat; auto. apply (c_b _ (cu_ctx _ _ _ _ C2)). }
                pose proof (on_fd q st0 _ false (nino (st_fs st2))
                              (fun x => match x with (d, _, t) => (d, N.ldiff (N.land (w_mode w2) 511) (st_umask st2), t) end) C3 Hfresh) as C4.
                exact C4.
             ++ intros i Hi. cbn in Hi. injection Hi as <-. exact Hfresh.
             ++ right. reflexivity.
        * destruct (sys_unlink (st_fs st2) (st_cwd st2) (w_name w2)) as [[en3|] fs3] eqn:Eun.
          -- injection Hrun as _ <- <-. now apply Done.
          -- destruct (create_fs_obj fl e (with_fs st2 fs3) w2) as [[en4 st4] w4] eqn:Ecr4.
             eapply (Tail fs3 en4 st4 w4); eauto. apply snd_eq in Eun. rewrite Eun.
             apply ext_unlink. apply (nm_wok q (w_name w2) Rel2 _ _ _ C2).
      + destruct (negb (e_type e =? T_DIR)%N).
        * destruct (sys_rmdir (st_fs st2) (st_cwd st2) (w_name w2)) as [[en3|] fs3] eqn:Erm.
          -- injection Hrun as _ <- <-. now apply Done.
          -- destruct (create_fs_obj fl e (with_fs st2 fs3) w2) as [[en4 st4] w4] eqn:Ecr4.
             eapply (Tail fs3 en4 st4 w4); eauto. apply snd_eq in Erm. rewrite Erm.
             apply ext_rmdir. apply (nm_wok q (w_name w2) Rel2 _ _ _ C2).
        * injection Hrun as _ <- <-. destruct (negb (w_mode w2 =? node_perm n)%N && has fl EXTRACT_PERM); now apply Done.
    - (* EISDIR *)
      destruct (has fl EXTRACT_NO_OVERWRITE).
      { injection Hrun as _ <- <-. destruct (e_type e =? T_DIR)%N; now apply Done. }
      cbv iota in Hrun.
      destruct (sys_rmdir (st_fs st2) (st_cwd st2) (w_name w2)) as [[en3|] fs3] eqn:Erm.
      + injection Hrun as _ <- <-. now apply Done.
      + destruct (create_fs_obj fl e (with_fs st2 fs3) w2) as [[en4 st4] w4] eqn:Ecr4.
        eapply (Tail fs3 en4 st4 w4); eauto. apply snd_eq in Erm. rewrite Erm.
        apply ext_rmdir. apply (nm_wok q (w_name w2) Rel2 _ _ _ C2).
  Qed.

  (* ---------------------------------------------------------------- header, finish, one whole entry *)
  Lemma edit_deep_short : forall fuel fl nm st, (p_len nm < PATH_MAX)%nat -> edit_deep fuel fl nm st = (nm, st).
  Proof.
    intros [|f] fl nm st H; [reflexivity|]. cbn [edit_deep].
    apply Nat.ltb_lt in H. now rewrite H.
  Qed.

  Lemma with_cwd_same : forall st, with_cwd st (st_cwd st) = st.
  Proof. now intros []. Qed.

  Record Inv (st : pstate) : Prop := mkInv { inv_cwd : st_cwd st = T; inv_ctx : ctx (st_fs st) }.

  (* every inode number that occurs outside is in O, O-numbers are below nino, nothing inside is in O *)
  Definition short (fl : N) (e : entry) : Prop :=
    forall q, cleanup_pathname fl (e_path e) = ClOk q -> (length q < PATH_MAX)%nat.

  Definition changed (st st' : pstate) : Prop :=
    prune T (root (st_fs st')) = prune T (root (st_fs st)) /\ st_umask st' = st_umask st /\ Inv st'.

  Lemma changed_of_stx : forall D sy st st', Inv st -> stx D sy st st' -> changed st st'.
  Proof.
    intros D sy st st' [Hc Hx] (E & C & U). split; [apply (ext_prune _ _ _ _ _ _ E)|split; [exact U|]].
    constructor; [congruence|eapply ctx_ext; eauto].
  Qed.

  Lemma header_spec : forall fl e st r st' ow,
    secure fl -> hl_ok e -> short fl e -> Inv st ->
    header fl e st = (r, st', ow) ->
    changed st st' /\
    (forall w, ow = Some w ->
       exists k stA sy, cur k stA st' sy /\ relname (w_name w) k /\ wfd_ok w /\ wtmp_ok w /\
                        (sy = true -> chmod_safe e w) /\ (sy = false -> nfinal k (st_fs st'))).
  Proof.
    intros fl e st r st' ow Hsec Hhl Hshort [Hcwd Hctx] Hrun. pose proof Hsec as (Hs1 & Hs2 & Hs3).
    assert (Hrefl : changed st st) by (split; [reflexivity|split; [reflexivity|now constructor]]).
    unfold header in Hrun.
    destruct (cleanup_pathname fl (e_path e)) as [qs| | |] eqn:Ecl;
      try (injection Hrun as <- <- <-; split; [exact Hrefl|discriminate]).
    destruct (cleanup_names fl (e_path e) qs Hs2 Hs3 Ecl) as (k & Hrel & Hk & Hlen & Hne & _ & _).
    destruct ((e_type e =? T_HARDLINK)%N && str_eqb qs (e_link e));
      [injection Hrun as <- <- <-; split; [exact Hrefl|discriminate]|].
    rewrite Hs1, Hcwd in Hrun.
    destruct (check_symlinks fl false (st_fs st) T (parse qs)) as [s1 fs1] eqn:Ecs.
    assert (Hpl : (0 < p_len (parse qs))%nat) by (rewrite Hlen; destruct qs; [congruence|cbn; lia]).
    destruct (check_symlinks_spec fl false (length T + length k) k (parse qs) (st_fs st) s1 fs1 Hs1 Hctx Hrel Hk Hpl Ecs) as [E1 Hok].
    set (st1 := with_fs st fs1) in *.
    assert (X1 : stx (length T + length k) false st st1) by (now apply stx_fs).
    destruct s1; try (injection Hrun as <- <- <-; split; [eapply changed_of_stx; eauto; now constructor|discriminate]).
    destruct (Hok eq_refl) as [F1 Fin1]. specialize (Fin1 eq_refl).
    rewrite edit_deep_short in Hrun by (rewrite Hlen; now apply Hshort).
    set (w0 := w_set_name _ (parse qs)) in Hrun.
    destruct (restore_entry fl e st1 w0) as [[ret st2] w2] eqn:Ere.
    assert (C1 : cur k st1 st1 false).
    { constructor; [apply stx_refl|eapply ctx_ext; eauto|exact F1|exact Hcwd]. }
    destruct (restore_entry_spec fl e k st1 st1 w0 ret st2 w2 Hsec Hhl C1 Hrel ltac:(intros i Hi; discriminate) eq_refl Ere)
      as (sy & C2 & N2 & F2 & T2 & S2).
    rewrite <- (cu_cwd _ _ _ _ C2) in Hrun. rewrite with_cwd_same in Hrun.
    match type of Hrun with context [if ?c then add_fixup ?a ?f else ?b] =>
      set (st4 := if c then add_fixup a f else b) in Hrun;
      assert (C4 : cur k st1 st4 sy) by (unfold st4; destruct c; [now apply cur_fixup|exact C2]) end.
    injection Hrun as <- <- <-.
    split.
    - apply (changed_of_stx (length T + length k) (false || sy) st st4); [now constructor|].
      eapply stx_trans; [exact X1|apply (cu_stx _ _ _ _ C4)].
    - intros w Hw. exists k, st1, sy.
      assert (w = w2) by (destruct ret; congruence). subst w.
      split; [exact C4|]. split; [now rewrite N2|]. split; [exact F2|]. split; [exact T2|]. split; [exact S2|].
      intros ->. destruct (cu_stx _ _ _ _ C4) as (E4 & _ & _). eapply nfinal_ext; eauto.
  Qed.

  Lemma ext_rename : forall D fs old new,
    wok T (root fs) (resolve (root fs) T old false) ->
    wok T (root fs) (resolve (root fs) T new false) -> wdepth D (resolve (root fs) T new false) ->
    inclean T O (root fs) ->
    ext T O D true fs (snd (sys_rename fs T old new)).
  Proof.
    intros D fs old new Ho Hn Hd Hcl. unfold sys_rename.
    destruct (resolve (root fs) T old false) as [e|d|d k [src|]]; cbn [snd]; try apply ext_refl.
    destruct (resolve (root fs) T new false) as [e|d'|d' k' o]; cbn [snd]; try apply ext_refl.
    destruct Ho as [Hpd Hsrc]. destruct Hn as [Hpd' _]. cbn in Hd.
    assert (Hclean : allin (fun i => ~ O i) src).
    { symmetry in Hsrc. exact (inside_leaf_clean T O (root fs) d k src Hcl Hpd Hsrc). }
    assert (Hgo : ext T O D true fs (mkFs (add_ent d' k' src (del_ent d' k' (del_ent d k (root fs)))) (nino fs)) \/
                  exists es m t, src = Dir es m t).
    { destruct src as [ff i dd mm tt|es mm tt|tg]; [left|right; now eexists _, _, _|left].
      - change true with (false || true). eapply ext_trans; [apply (ext_del_ent T O D fs d k Hpd)|].
        change true with (false || true). eapply ext_trans.
        + apply (ext_del_ent T O D (mkFs (del_ent d k (root fs)) (nino fs)) d' k' Hpd').
        + cbn [root nino]. apply (ext_add_ent T O D true (mkFs (del_ent d' k' (del_ent d k (root fs))) (nino fs)) d' k' _ (nino fs)); auto.
          * apply N.le_refl.
          * discriminate.
      - change true with (false || true). eapply ext_trans; [apply (ext_del_ent T O D fs d k Hpd)|].
        change true with (false || true). eapply ext_trans.
        + apply (ext_del_ent T O D (mkFs (del_ent d k (root fs)) (nino fs)) d' k' Hpd').
        + cbn [root nino]. apply (ext_add_ent T O D true (mkFs (del_ent d' k' (del_ent d k (root fs))) (nino fs)) d' k' _ (nino fs)); auto.
          * apply N.le_refl.
          * discriminate. }
    destruct src as [ff i dd mm tt|es mm tt|tg]; cbn [snd]; try apply ext_refl;
      destruct o as [[| |]|]; cbn [snd]; try apply ext_refl;
      destruct Hgo as [Hgo|(? & ? & ? & Hgo)]; try discriminate; exact Hgo.
  Qed.

  Lemma finish_spec : forall fl e k stA st sy w r st',
    cur k stA st sy -> relname (w_name w) k -> wfd_ok w -> wtmp_ok w ->
    (sy = true -> chmod_safe e w) -> (sy = false -> nfinal k (st_fs st)) ->
    finish fl e st w = (r, st') -> exists sy', cur k stA st' sy'.
  Proof.
    intros fl e k stA st sy w r st' C Hrel Hfd Htmp Hcs Hfin Hrun. unfold finish in Hrun.
    pose proof (cu_cwd _ _ _ _ C) as Hcwd.
    set (D := (length T + length k)%nat).
    (* data *)
    set (fs1 := match w_fd w with Some i => if is_nil (e_data e) then st_fs st else fd_write (st_fs st) i (e_data e) | None => st_fs st end) in Hrun.
    assert (E1 : ext T O D false (st_fs st) fs1).
    { unfold fs1. destruct (w_fd w) as [i|] eqn:Efd; [|apply ext_refl]. destruct (is_nil (e_data e)); [apply ext_refl|].
      unfold fd_write. apply ext_map_ino; [apply (c_out _ (cu_ctx _ _ _ _ C))|now apply Hfd]. }
    pose proof (cur_step_f _ _ _ _ _ C E1) as C1.
    assert (Fin1 : sy = false -> nfinal k fs1) by (intros H; eapply nfinal_ext; eauto).
    (* set_mode *)
    set (m2 := if w_todo_mode w && negb (e_type e =? T_SYMLINK)%N && negb (e_type e =? T_DIR)%N then _ else (SOk, fs1)) in Hrun.
    assert (E2 : ext T O D false fs1 (snd m2)).
    { unfold m2. destruct (w_todo_mode w && negb (e_type e =? T_SYMLINK)%N && negb (e_type e =? T_DIR)%N) eqn:Econd; [|apply ext_refl].
      apply andb_prop in Econd as [Econd _]. apply andb_prop in Econd as [Etm Esy]. apply negb_true_iff in Esy.
      destruct (w_fd w) as [i|] eqn:Efd.
      - cbn [snd]. unfold fd_chmod. apply ext_map_ino; [apply (c_out _ (cu_ctx _ _ _ _ C1))|now apply Hfd].
      - destruct (sys_chmod fs1 (st_cwd st) (w_name w) (w_mode w)) as [[en|] fs'] eqn:Ech; cbn [snd]; [apply ext_refl|].
        apply snd_eq in Ech. rewrite Ech.
        assert (Hf : nfinal k fs1).
        { destruct sy; [|now apply Fin1]. destruct (Hcs eq_refl) as [H|H]; congruence. }
        rewrite Hcwd. apply ext_chmod; [|apply (c_out _ (cu_ctx _ _ _ _ C1))|apply (c_cl _ (cu_ctx _ _ _ _ C1))].
        apply (name_wok k fs1 (w_name w) true); auto; [apply (cu_ctx _ _ _ _ C1)|apply (cu_nf _ _ _ _ C1)]. }
    destruct m2 as [r1 fs2]. cbn [snd] in E2.
    pose proof (cur_step_f _ _ _ _ _ C1 E2) as C2. cbn [with_fs st_fs] in C2.
    (* set_times *)
    set (m3 := match e_mtime e with Some t => _ | None => (SOk, fs2) end) in Hrun.
    assert (E3 : ext T O D false fs2 (snd m3)).
    { unfold m3. destruct (e_mtime e) as [t|]; [|apply ext_refl]. destruct (w_todo_times w); [|apply ext_refl].
      destruct (w_fd w) as [i|] eqn:Efd.
      - cbn [snd]. unfold fd_utimens. apply ext_map_ino; [apply (c_out _ (cu_ctx _ _ _ _ C2))|now apply Hfd].
      - destruct (sys_utimens_nofollow fs2 (st_cwd st) (w_name w) t) as [[en|] fs'] eqn:Eut; cbn [snd]; [apply ext_refl|].
        apply snd_eq in Eut. rewrite Eut. rewrite Hcwd.
        pose proof (nm_wok k (w_name w) Hrel _ _ _ C2) as [X _]. cbn [with_fs st_fs st_cwd] in X. rewrite Hcwd in X.
        apply ext_utimens; auto; [apply (c_out _ (cu_ctx _ _ _ _ C2))|apply (c_cl _ (cu_ctx _ _ _ _ C2))]. }
    destruct m3 as [r2 fs3]. cbn [snd] in E3.
    pose proof (cur_step_f _ _ _ _ _ C2 E3) as C3. cbn [with_fs st_fs] in C3.
    (* rename of the temporary *)
    set (m4 := match w_fd w, w_tmp w with Some _, Some tmp => _ | _, _ => (SOk, fs3) end) in Hrun.
    assert (E4 : ext T O D true fs3 (snd m4)).
    { unfold m4. destruct (w_fd w) as [i|]; [|apply ext_refl]. destruct (w_tmp w) as [tmp|] eqn:Etmp; [|apply ext_refl].
      assert (tmp = tmp_name (w_name w)) by (destruct Htmp as [H|H]; congruence). subst tmp.
      pose proof (nm_wok k (w_name w) Hrel _ _ _ C3) as [Xn Xd]. cbn [with_fs st_fs st_cwd] in Xn, Xd. rewrite Hcwd in Xn, Xd.
      pose proof (tmp_wok k (w_name w) _ _ _ C3 Hrel) as [Yn _]. cbn [with_fs st_fs st_cwd] in Yn. rewrite Hcwd in Yn.
      rewrite Hcwd.
      destruct (sys_rename fs3 T (tmp_name (w_name w)) (w_name w)) as [[en|] fs'] eqn:Ern; cbn [snd].
      - apply ext_weaken. apply ext_unlink. exact Yn.
      - apply snd_eq in Ern. rewrite Ern. apply ext_rename; auto. apply (c_cl _ (cu_ctx _ _ _ _ C3)). }
    destruct m4 as [r3 fs4]. cbn [snd] in E4.
    pose proof (cur_step _ _ _ _ _ _ C3 E4) as C4. cbn [with_fs st_fs] in C4.
    injection Hrun as _ <-. eexists. exact C4.
  Qed.

  (* (d) one entry, whatever it is (except a hard link that carries data) and whatever is there *)
  Theorem restore_confined : forall fl e st rr st',
    secure fl -> hl_ok e -> short fl e -> Inv st ->
    restore fl st e = (rr, st') -> changed st st'.
  Proof.
    intros fl e st rr st' Hsec Hhl Hshort HI Hrun. unfold restore in Hrun.
    destruct (header fl e st) as [[r st1] ow] eqn:Eh.
    destruct (header_spec fl e st r st1 ow Hsec Hhl Hshort HI Eh) as [Hch Hw].
    destruct ow as [w|]; [|now injection Hrun as _ <-].
    destruct (Hw w eq_refl) as (k & stA & sy & C & Hrel & Hfd & Htmp & Hcs & Hfin).
    destruct (finish fl e st1 w) as [r2 st2] eqn:Ef. injection Hrun as _ <-.
    destruct (finish_spec fl e k stA st1 sy w r2 st2 C Hrel Hfd Htmp Hcs Hfin Ef) as (sy' & C').
    destruct Hch as (P1 & U1 & I1).
    (* from st1 to st2: through the two bundles relative to stA *)
    destruct (cu_stx _ _ _ _ C) as (EA1 & CA1 & UA1). destruct (cu_stx _ _ _ _ C') as (EA2 & CA2 & UA2).
    split; [|split].
    - rewrite <- P1. rewrite (ext_prune _ _ _ _ _ _ EA2), <- (ext_prune _ _ _ _ _ _ EA1). reflexivity.
    - congruence.
    - constructor; [apply (cu_cwd _ _ _ _ C')|apply (cu_ctx _ _ _ _ C')].
  Qed.

  (* ---------------------------------------------------------------- any number of entries *)
  Lemma changed_refl : forall st, Inv st -> changed st st.
  Proof. intros st H. split; [reflexivity|split; [reflexivity|exact H]]. Qed.

  Lemma changed_trans : forall a b c, changed a b -> changed b c -> changed a c.
  Proof. intros a b c (P1 & U1 & I1) (P2 & U2 & I2). split; [congruence|split; [congruence|exact I2]]. Qed.

  Theorem run_entries_confined : forall fl es st l st',
    secure fl -> Forall hl_ok es -> Forall (short fl) es -> Inv st ->
    run_entries fl st es = (l, st') -> changed st st'.
  Proof.
    intros fl es. induction es as [|e es IH]; intros st l st' Hsec Hhl Hsh HI Hrun.
    - cbn in Hrun. injection Hrun as _ <-. now apply changed_refl.
    - cbn [run_entries] in Hrun. inversion Hhl; subst. inversion Hsh; subst.
      destruct (restore fl st e) as [rr st1] eqn:Er.
      pose proof (restore_confined fl e st rr st1 Hsec H1 H3 HI Er) as Ch1.
      destruct (run_entries fl st1 es) as [l2 st2] eqn:Er2.
      assert (Ch2 : changed st1 st2) by (eapply IH; eauto; apply Ch1).
      destruct rr as [[| | |] r2]; injection Hrun as _ <-;
        first [exact Ch1 | exact (changed_trans _ _ _ Ch1 Ch2)].
  Qed.

  (* ---------------------------------------------------------------- the close loop of the proposed fix *)
  Lemma open_nofollow_dir : forall k nm fs h,
    ctx fs -> nfacts k fs -> relname nm k ->
    sys_open_nofollow fs T nm true = inr h -> exists p, h = HDir p /\ is_prefix T p.
  Proof.
    intros k nm fs h C F Hrel Ho.
    destruct (name_wok k fs nm false C F Hrel (or_introl eq_refl)) as [W _].
    unfold sys_open_nofollow in Ho.
    destruct (resolve (root fs) T nm false) as [e|d|d kk [[ff i dd mm tt|es mm tt|tg]|]]; try discriminate.
    - injection Ho as <-. now exists d.
    - injection Ho as <-. exists (d ++ [kk]). split; [reflexivity|]. destruct W as [W _]. now apply is_prefix_app.
  Qed.

  Lemma apply_fixup_at_ext : forall k nm fs f,
    ctx fs -> nfacts k fs -> relname nm k ->
    ext T O (length T + length k) false fs (apply_fixup_at fs T nm f).
  Proof.
    intros k nm fs f C F Hrel. unfold apply_fixup_at.
    destruct (negb (fx_mode_todo f) && negb (fx_times_todo f)); [apply ext_refl|].
    destruct (sys_open_nofollow fs T nm (fx_isdir f)) as [e|h] eqn:Eo.
    - destruct (fx_isdir f); [|apply ext_refl].
      destruct (sys_stat fs T nm false) as [e2|[| es mm tt |]] eqn:Est; try apply ext_refl.
      (* lstat says directory: the last component is not a symlink *)
      assert (Hfin : nfinal k fs).
      { destruct F as [F|(Hn & Hne & Hs)]; [now left|right].
        unfold sys_stat, resolve in Est. destruct Hrel as [Ha Hc]. rewrite Ha, Hc in Est.
        destruct (Nat.leb PATH_MAX (p_len nm)); [discriminate|]. destruct (Nat.eqb (p_len nm) 0); [discriminate|].
        pose proof (walk_safe MAXSYMLINKS (root fs) k T false Hn Hne (c_dir _ C) Hs (or_introl eq_refl)) as W.
        set (wr := walk MAXSYMLINKS (root fs) T k false) in *. clearbody wr.
        destruct W as [e3|q' kk Hq]; [discriminate|].
        destruct (get (T ++ k) (root fs)) as [n|]; [|discriminate]. injection Est as ->. intros tg. discriminate. }
      set (fs1 := if fx_times_todo f then snd (sys_utimens_nofollow fs T nm (fx_mtime f)) else fs).
      assert (E1 : ext T O (length T + length k) false fs fs1).
      { unfold fs1. destruct (fx_times_todo f); [|apply ext_refl].
        destruct (name_wok k fs nm false C F Hrel (or_introl eq_refl)) as [W _].
        apply ext_utimens; [exact W|apply (c_out _ C)|apply (c_cl _ C)]. }
      destruct (fx_mode_todo f); [|exact E1].
      eapply ext_trans_f; [exact E1|].
      assert (C1 : ctx fs1) by (eapply ctx_ext; eauto).
      assert (F1 : nfacts k fs1) by (eapply nfacts_ext; eauto).
      assert (Fin1 : nfinal k fs1) by (eapply nfinal_ext; eauto).
      destruct (name_wok k fs1 nm true C1 F1 Hrel (or_intror Fin1)) as [W _].
      apply ext_chmod; [exact W|apply (c_out _ C1)|apply (c_cl _ C1)].
    - destruct (fx_isdir f) eqn:Eisdir; [|apply ext_refl].
      destruct (open_nofollow_dir k nm fs h C F Hrel Eo) as (p & -> & Hp).
      set (fs1 := if fx_times_todo f then h_utimens fs (HDir p) (fx_mtime f) else fs).
      assert (E1 : ext T O (length T + length k) false fs fs1).
      { unfold fs1. destruct (fx_times_todo f); [|apply ext_refl]. cbn [h_utimens].
        apply (ext_upd_attr T O _ fs p (fun m _ => (m, fx_mtime f))). exact Hp. }
      destruct (fx_mode_todo f); [|exact E1].
      eapply ext_trans_f; [exact E1|]. cbn [h_chmod].
      apply (ext_upd_attr T O _ fs1 p (fun _ t => (fx_mode f, t))). exact Hp.
  Qed.

  Lemma apply_fixup_checked_ok : forall fl fs f,
    secure fl -> ctx fs ->
    prune T (root (apply_fixup_checked fl fs T f)) = prune T (root fs) /\ ctx (apply_fixup_checked fl fs T f).
  Proof.
    intros fl fs f (Hs1 & Hs2 & Hs3) C. unfold apply_fixup_checked. rewrite Hs1.
    destruct (cleanup_pathname fl (strip_trailing_slashes (fx_name f))) as [qn| | |] eqn:Ecl; try (split; [reflexivity|exact C]).
    destruct (cleanup_names fl _ qn Hs2 Hs3 Ecl) as (k & Hrel & Hk & Hlen & Hne & _ & _).
    destruct (check_symlinks EXTRACT_SECURE_SYMLINKS true fs T (parse qn)) as [s1 fs1] eqn:Ecs.
    assert (Hpl : (0 < p_len (parse qn))%nat) by (rewrite Hlen; destruct qn; [congruence|cbn; lia]).
    destruct (check_symlinks_spec EXTRACT_SECURE_SYMLINKS true (length T + length k) k (parse qn) fs s1 fs1 eq_refl C Hrel Hk Hpl Ecs) as [E1 Hok].
    assert (C1 : ctx fs1) by (eapply ctx_ext; eauto).
    destruct s1; try (split; [apply (ext_prune _ _ _ _ _ _ E1)|exact C1]).
    destruct (Hok eq_refl) as [F1 _].
    pose proof (apply_fixup_at_ext k (parse qn) fs1 f C1 F1 Hrel) as E2.
    split.
    - rewrite (ext_prune _ _ _ _ _ _ E2). apply (ext_prune _ _ _ _ _ _ E1).
    - eapply ctx_ext; eauto.
  Qed.

  Theorem close_checked_confined : forall fl st,
    secure fl -> Inv st -> changed st (close_fixups_checked fl st).
  Proof.
    intros fl st Hsec [Hcwd Hctx]. unfold close_fixups_checked.
    set (l := sort_fx (length (st_fixups st)) (st_fixups st)). clearbody l.
    assert (G : forall fs, ctx fs ->
              prune T (root (fold_left (fun fs f => apply_fixup_checked fl fs (st_cwd st) f) l fs)) = prune T (root fs) /\
              ctx (fold_left (fun fs f => apply_fixup_checked fl fs (st_cwd st) f) l fs)).
    { induction l as [|f l IH]; intros fs C; [split; [reflexivity|exact C]|].
      cbn [fold_left]. rewrite Hcwd. destruct (apply_fixup_checked_ok fl fs f Hsec C) as [P1 C1].
      rewrite Hcwd in IH. destruct (IH _ C1) as [P2 C2]. split; [congruence|exact C2]. }
    destruct (G (st_fs st) Hctx) as [P C]. split; [exact P|split; [reflexivity|]].
    constructor; [exact Hcwd|exact C].
  Qed.

  (* the headline for the patched close: any history, then close *)
  Theorem run_checked_confined : forall fl es st l st',
    secure fl -> Forall hl_ok es -> Forall (short fl) es -> Inv st ->
    run_history_checked fl st es = (l, st') -> changed st st'.
  Proof.
    intros fl es st l st' Hsec Hhl Hsh HI Hrun. unfold run_history_checked in Hrun.
    destruct (run_entries fl st es) as [l1 st1] eqn:Er. injection Hrun as _ <-.
    pose proof (run_entries_confined fl es st l1 st1 Hsec Hhl Hsh HI Er) as Ch1.
    eapply changed_trans; [exact Ch1|]. apply close_checked_confined; [exact Hsec|apply Ch1].
  Qed.
End Step.

(* ================================================================== refused entries *)
Lemma refused_sanitiser_noop : forall fl st e,
  (forall q, cleanup_pathname fl (e_path e) <> ClOk q) -> restore fl st e = ((SFailed, SOk), st).
Proof.
  intros fl st e H. unfold restore, header. destruct (cleanup_pathname fl (e_path e)) as [q| | |]; try reflexivity.
  exfalso. now apply (H q).
Qed.

Lemma cs_loop_fail_noop : forall fl ln rest fs fd habs head s fs',
  has fl EXTRACT_UNLINK = false ->
  cs_loop fl ln fs fd habs head rest = (s, fs') -> s <> SOk -> fs' = fs.
Proof.
  intros fl ln rest. induction rest as [|c rest IH]; intros fs fd habs head s fs' Hu Hrun Hs.
  - cbn in Hrun. now injection Hrun as _ <-.
  - cbn [cs_loop] in Hrun. rewrite Hu in Hrun.
    destruct (sys_stat fs fd (mkpath habs (head ++ [c])) false) as [e|[ff i d m t|es m t|tg]].
    + destruct (errno_eqb e ENOENT); now injection Hrun as _ <-.
    + destruct (is_nil rest); [now injection Hrun as _ <-|]. eapply IH; eauto.
    + destruct (is_nil rest); [now injection Hrun as _ <-|].
      destruct (sys_chdir fs fd (mkpath habs (head ++ [c]))); [now injection Hrun as _ <-|]. eapply IH; eauto.
    + destruct (is_nil rest && ln); [now injection Hrun as _ <-|].
      destruct (is_nil rest).
      * destruct (sys_unlink fs fd (mkpath habs (head ++ [c]))) as [[en|] fs1]; [now injection Hrun as _ <-|].
        injection Hrun as <- _. congruence.
      * destruct (negb (has fl EXTRACT_SECURE_SYMLINKS)); [|now injection Hrun as _ <-].
        destruct (sys_stat fs fd (mkpath habs (head ++ [c])) true) as [e|[| es2 m2 t2 |]]; try (now injection Hrun as _ <-).
        -- destruct (errno_eqb e ENOENT); now injection Hrun as _ <-.
        -- destruct (sys_chdir fs fd (mkpath habs (head ++ [c]))); [now injection Hrun as _ <-|]. eapply IH; eauto.
Qed.

Lemma refused_symlink_stage_noop : forall fl st e q s fs1,
  has fl EXTRACT_SECURE_SYMLINKS = true -> has fl EXTRACT_UNLINK = false ->
  cleanup_pathname fl (e_path e) = ClOk q ->
  ((e_type e =? T_HARDLINK)%N && str_eqb q (e_link e)) = false ->
  check_symlinks fl false (st_fs st) (st_cwd st) (parse q) = (s, fs1) -> s <> SOk ->
  restore fl st e = ((s, SOk), st).
Proof.
  intros fl st e q s fs1 Hsec Hu Hcl Hself Hcs Hs. unfold restore, header. rewrite Hcl, Hself, Hsec, Hcs.
  assert (fs1 = st_fs st).
  { unfold check_symlinks in Hcs. destruct (Nat.eqb (p_len (parse q)) 0); [now injection Hcs as _ <-|].
    destruct (get (st_cwd st) (root (st_fs st))) as [[| es m t |]|]; try (now injection Hcs as _ <-).
    destruct (p_comps (parse q)) eqn:Ec; [now injection Hcs as _ <-|]. eapply cs_loop_fail_noop; eauto. }
  subst fs1. destruct st as [fs cwd um fx]. destruct s; [congruence|reflexivity|reflexivity|reflexivity].
Qed.
